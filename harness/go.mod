module verifharness

go 1.21

require (
	github.com/hslam/netpoll v0.0.4-0.20230514092318-c286d2b379aa
	github.com/hslam/rpc v0.0.0
	github.com/hslam/socket v0.0.4-0.20230517140040-6048f4a0c39b
)

require (
	github.com/hslam/atomic v1.0.0 // indirect
	github.com/hslam/buffer v0.0.0-20230217202846-e7b1b6ebf283 // indirect
	github.com/hslam/code v1.0.2-0.20210610150014-db5f483caa02 // indirect
	github.com/hslam/funcs v1.0.2-0.20220105101002-455c99d05c0a // indirect
	github.com/hslam/inproc v0.0.0-20210912032833-46957e53529f // indirect
	github.com/hslam/log v1.0.6 // indirect
	github.com/hslam/mmap v1.0.0 // indirect
	github.com/hslam/reuse v0.0.0-20230219162114-9a3f8d1f9550 // indirect
	github.com/hslam/scheduler v0.0.0-20211028175315-641598104976 // indirect
	github.com/hslam/sendfile v1.0.1 // indirect
	github.com/hslam/splice v1.0.3 // indirect
	github.com/hslam/websocket v0.1.1-0.20230517135840-2d09ff61bbdb // indirect
	github.com/hslam/writer v1.0.1-0.20230517134517-171bf4321917 // indirect
)

replace github.com/hslam/rpc => /repo
