// Package prng: one splitmix64 state from which every random choice of a run is derived.
package prng

type R struct{ s uint64 }

func New(seed uint64) *R { return &R{s: seed} }

func (r *R) U64() uint64 {
	r.s += 0x9e3779b97f4a7c15
	z := r.s
	z = (z ^ (z >> 30)) * 0xbf58476d1ce4e5b9
	z = (z ^ (z >> 27)) * 0x94d049bb133111eb
	return z ^ (z >> 31)
}

// Fork derives an independent stream (for sub-seeds recorded in replays).
func (r *R) Fork() *R { return New(r.U64()) }

func (r *R) Intn(n int) int {
	if n <= 0 {
		return 0
	}
	return int(r.U64() % uint64(n))
}

func (r *R) Bool() bool { return r.U64()&1 == 1 }

// Chance returns true with probability num/den.
func (r *R) Chance(num, den int) bool { return r.Intn(den) < num }

func (r *R) Bytes(n int) []byte {
	b := make([]byte, n)
	for i := 0; i < n; i += 8 {
		v := r.U64()
		for j := 0; j < 8 && i+j < n; j++ {
			b[i+j] = byte(v >> (8 * j))
		}
	}
	return b
}

func (r *R) Pick(xs []int) int { return xs[r.Intn(len(xs))] }
