// Package rep: the report a corr sub-command leaves for bin/check (JSON), plus line files.
package rep

import (
	"bufio"
	"encoding/json"
	"fmt"
	"os"
	"path/filepath"
	"sort"
	"sync"
)

// Violation is a monitor hit on an implementation run (no model involved).
type Violation struct {
	Property string      `json:"property"`
	Monitor  string      `json:"monitor"`
	Key      string      `json:"key"`  // stable identity of the failing input class (for known_findings)
	What     string      `json:"what"` // human-readable
	Replay   interface{} `json:"replay"`
}

type Report struct {
	mu          sync.Mutex
	Component   string                 `json:"component"`
	Seed        uint64                 `json:"seed"`
	Tier        string                 `json:"tier"`
	Cases       int                    `json:"cases"`
	Counters    map[string]int         `json:"counters"`
	Samples     []interface{}          `json:"samples"`
	Violations  []Violation            `json:"violations"`
	Notes       []string               `json:"notes"`
	Extra       map[string]interface{} `json:"extra,omitempty"`
	distinct    map[string]bool
	Distinct    int `json:"distinct"`
	maxViolKeep int
}

func New(component string, seed uint64, tier string) *Report {
	return &Report{Component: component, Seed: seed, Tier: tier, Counters: map[string]int{}, distinct: map[string]bool{}, Extra: map[string]interface{}{}, maxViolKeep: 40}
}

func (r *Report) Count(k string) {
	r.mu.Lock()
	r.Counters[k]++
	r.mu.Unlock()
}

func (r *Report) Add(k string, n int) {
	r.mu.Lock()
	r.Counters[k] += n
	r.mu.Unlock()
}

// Case records one explored case; key is used to count distinct ones.
func (r *Report) Case(key string) {
	r.mu.Lock()
	r.Cases++
	if !r.distinct[key] {
		r.distinct[key] = true
		r.Distinct++
	}
	r.mu.Unlock()
}

func (r *Report) Sample(s interface{}) {
	r.mu.Lock()
	if len(r.Samples) < 6 {
		r.Samples = append(r.Samples, s)
	}
	r.mu.Unlock()
}

func (r *Report) Violate(v Violation) {
	r.mu.Lock()
	defer r.mu.Unlock()
	r.Counters["violations:"+v.Monitor]++
	n := 0
	for _, o := range r.Violations {
		if o.Key == v.Key {
			n++
		}
	}
	if n >= 3 || len(r.Violations) >= r.maxViolKeep {
		return
	}
	r.Violations = append(r.Violations, v)
}

func (r *Report) Note(format string, a ...interface{}) {
	r.mu.Lock()
	r.Notes = append(r.Notes, fmt.Sprintf(format, a...))
	r.mu.Unlock()
}

func (r *Report) Write(dir string) error {
	r.mu.Lock()
	defer r.mu.Unlock()
	sort.SliceStable(r.Violations, func(i, j int) bool { return r.Violations[i].Key < r.Violations[j].Key })
	b, err := json.MarshalIndent(r, "", " ")
	if err != nil {
		return err
	}
	return os.WriteFile(filepath.Join(dir, r.Component+".report.json"), b, 0o644)
}

// Lines is a buffered line file.
type Lines struct {
	f *os.File
	w *bufio.Writer
}

func Create(path string) (*Lines, error) {
	f, err := os.Create(path)
	if err != nil {
		return nil, err
	}
	return &Lines{f: f, w: bufio.NewWriterSize(f, 1<<20)}, nil
}

func (l *Lines) Println(s string) { l.w.WriteString(s); l.w.WriteByte('\n') }
func (l *Lines) Close() error     { l.w.Flush(); return l.f.Close() }
