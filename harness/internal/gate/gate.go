// Package gate: harness-owned gates through which the script decides the order of the
// library's I/O-bounded windows, a single trace log, and a quiescence detector.
package gate

import (
	"bytes"
	"fmt"
	"os"
	"runtime"
	"sync"
	"time"
)

// Verdict is what a released gate tells the fake to do.
type Verdict struct {
	Err  error
	Data []byte
	S    string
}

type parked struct {
	ch   chan Verdict
	info string
}

// Hub owns the gates of one scenario.
type Hub struct {
	mu     sync.Mutex
	trace  []string
	parked map[string]*parked
	hold   map[string]bool // keys (or key prefixes ending in '*') that must park
	seen   map[string]int  // how often each key was reached
}

func NewHub() *Hub {
	return &Hub{parked: map[string]*parked{}, hold: map[string]bool{}, seen: map[string]int{}}
}

// Log appends one event to the trace (one mutex: the order is a linearisation).
func (h *Hub) Log(format string, a ...interface{}) {
	s := fmt.Sprintf(format, a...)
	h.mu.Lock()
	h.trace = append(h.trace, s)
	h.mu.Unlock()
}

func (h *Hub) Trace() []string {
	h.mu.Lock()
	defer h.mu.Unlock()
	return append([]string(nil), h.trace...)
}

// Hold makes the gate `key` park the goroutine that reaches it.
func (h *Hub) Hold(key string) {
	h.mu.Lock()
	h.hold[key] = true
	h.mu.Unlock()
}

func (h *Hub) Unhold(key string) {
	h.mu.Lock()
	delete(h.hold, key)
	h.mu.Unlock()
}

func (h *Hub) UnholdAll() {
	h.mu.Lock()
	h.hold = map[string]bool{}
	h.mu.Unlock()
}

// At is called by a fake from a library goroutine. It logs the arrival while the goroutine
// is still held, parks if the key is held, and returns the verdict (zero verdict = proceed).
func (h *Hub) At(key, info string) Verdict {
	h.mu.Lock()
	h.seen[key]++
	if !h.hold[key] {
		h.trace = append(h.trace, "pass "+key+" "+info)
		h.mu.Unlock()
		return Verdict{}
	}
	p := &parked{ch: make(chan Verdict, 1), info: info}
	h.parked[key] = p
	h.trace = append(h.trace, "park "+key+" "+info)
	h.mu.Unlock()
	v := <-p.ch
	return v
}

// Parked reports whether a goroutine is parked at key.
func (h *Hub) Parked(key string) bool {
	h.mu.Lock()
	defer h.mu.Unlock()
	_, ok := h.parked[key]
	return ok
}

func (h *Hub) ParkedKeys() []string {
	h.mu.Lock()
	defer h.mu.Unlock()
	var ks []string
	for k := range h.parked {
		ks = append(ks, k)
	}
	return ks
}

func (h *Hub) Seen(key string) int {
	h.mu.Lock()
	defer h.mu.Unlock()
	return h.seen[key]
}

// Release lets the goroutine parked at key continue with v. Returns false if nobody is parked.
func (h *Hub) Release(key string, v Verdict) bool {
	h.mu.Lock()
	p, ok := h.parked[key]
	if ok {
		delete(h.parked, key)
		delete(h.hold, key)
		h.trace = append(h.trace, "release "+key)
	}
	h.mu.Unlock()
	if ok {
		p.ch <- v
	}
	return ok
}

// ReleaseAll releases everything (end of scenario) with the given verdict.
func (h *Hub) ReleaseAll(v Verdict) {
	h.mu.Lock()
	ps := h.parked
	h.parked = map[string]*parked{}
	h.hold = map[string]bool{}
	h.mu.Unlock()
	for _, p := range ps {
		p.ch <- v
	}
}

var quietStates = [][]byte{
	[]byte("chan receive"), []byte("chan send"), []byte("select"), []byte("sync.Cond.Wait"),
	[]byte("semacquire"), []byte("sync.Mutex.Lock"), []byte("sync.RWMutex"), []byte("IO wait"),
	[]byte("sync.WaitGroup.Wait"), []byte("finalizer wait"), []byte("GC worker"), []byte("GC sweep wait"), []byte("GC scavenge wait"), []byte("force gc"),
	[]byte("syscall"), []byte("debug call"), []byte("trace reader"), []byte("cleanup wait"),
}

// debugDump, when non-nil, keeps a copy of the last inspected dump (GATE_DEBUG).
var debugDump []byte

func init() {
	if os.Getenv("GATE_DEBUG") != "" {
		debugDump = make([]byte, 0, 1<<20)
	}
}

// LastDump returns the goroutine dump of the last inspection (GATE_DEBUG only).
func LastDump() string { return string(debugDump) }

// LastBusy is the header line of the goroutine that kept the last inspection from being quiet.
var LastBusy string

var stackBuf = make([]byte, 1<<20)
var stackMu sync.Mutex

// quiet: every goroutine other than the caller is blocked.
func quiet(allowSleep bool) (bool, int) {
	stackMu.Lock()
	defer stackMu.Unlock()
	n := runtime.Stack(stackBuf, true)
	for n == len(stackBuf) && len(stackBuf) < 64<<20 {
		stackBuf = make([]byte, 2*len(stackBuf))
		n = runtime.Stack(stackBuf, true)
	}
	buf := stackBuf[:n]
	if debugDump != nil {
		debugDump = append(debugDump[:0], buf...)
	}
	count := 0
	for len(buf) > 0 {
		i := bytes.Index(buf, []byte("goroutine "))
		if i < 0 {
			break
		}
		if i > 0 && buf[i-1] != '\n' {
			buf = buf[i+10:]
			continue
		}
		rest := buf[i:]
		nl := bytes.IndexByte(rest, '\n')
		if nl < 0 {
			nl = len(rest)
		}
		line := rest[:nl]
		buf = rest[nl:]
		lb := bytes.IndexByte(line, '[')
		if lb < 0 {
			continue
		}
		count++
		st := line[lb+1:]
		if count == 1 {
			continue // the caller (runtime.Stack prints the calling goroutine first)
		}
		if allowSleep && bytes.HasPrefix(st, []byte("sleep")) {
			continue
		}
		ok := false
		if bytes.HasPrefix(st, []byte("semacquire")) {
			// a plain semacquire is a real wait only under package sync; inside the runtime it is
			// a goroutine queueing for the world-stop semaphore this inspection itself holds
			// (e.g. an allocation that wants to start a GC cycle): that goroutine is busy
			top := buf
			if len(top) > 0 && top[0] == '\n' {
				top = top[1:]
			}
			if !bytes.HasPrefix(top, []byte("sync.")) && !bytes.HasPrefix(top, []byte("internal/sync.")) {
				LastBusy = string(line)
				return false, count
			}
		}
		for _, q := range quietStates {
			if bytes.HasPrefix(st, q) {
				ok = true
				break
			}
		}
		if !ok {
			LastBusy = string(line)
			return false, count
		}
	}
	return true, count
}

// Settle waits until every other goroutine of the process is blocked (at a gate, on a
// channel, a lock or a condition variable) on two consecutive inspections, or the deadline.
// It returns false on deadline.
func Settle(deadline time.Duration) bool { return settle(deadline, false) }

// SettleAllowSleep is Settle for scenarios with background tickers implemented by Sleep.
func SettleAllowSleep(deadline time.Duration) bool { return settle(deadline, true) }

func settle(deadline time.Duration, allowSleep bool) bool {
	end := time.Now().Add(deadline)
	stable := 0
	for {
		runtime.Gosched()
		if q, _ := quiet(allowSleep); q {
			stable++
			if stable >= 2 {
				return true
			}
			continue
		}
		stable = 0
		if time.Now().After(end) {
			return false
		}
		time.Sleep(30 * time.Microsecond)
	}
}

// Goroutines returns the number of goroutines (for leak accounting).
func Goroutines() int {
	_, n := quiet(true)
	return n
}
