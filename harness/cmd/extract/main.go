// extract: reads /repo's Go source (go/parser, go/ast only) and writes the Lean files under
// lean/RpcVerif/Generated. Two kinds of output:
//   - go2lean: whitelisted straight-line integer expressions translated operator by operator
//     (upgrade pack/unpack/IsZero, limit normalisation, cursor arithmetic, ...);
//   - facts: constants and small structural facts the theorems mention (tag bytes, case
//     numbers, thresholds, size overheads, presence of decoder hardening, ...).
//
// A fragment that is missing or no longer has a translatable shape is reported on stderr as
// "UNTRANSLATABLE <fragment>: <why>" and the program exits 3 (a broken tie, never ignored).
package main

import (
	"fmt"
	"go/ast"
	"go/constant"
	"go/parser"
	"go/token"
	"os"
	"path/filepath"
	"sort"
	"strconv"
	"strings"
)

var fset = token.NewFileSet()
var files = map[string]*ast.File{}
var problems []string

func problem(frag, why string) {
	problems = append(problems, fmt.Sprintf("UNTRANSLATABLE %s: %s", frag, why))
}

func load(repo string) {
	matches, _ := filepath.Glob(filepath.Join(repo, "*.go"))
	for _, m := range matches {
		if strings.HasSuffix(m, "_test.go") {
			continue
		}
		if strings.HasPrefix(filepath.Base(m), "verif_") {
			continue
		}
		f, err := parser.ParseFile(fset, m, nil, parser.ParseComments)
		if err != nil {
			fmt.Fprintln(os.Stderr, "parse error:", err)
			os.Exit(2)
		}
		files[filepath.Base(m)] = f
		for _, im := range f.Imports {
			name := strings.Trim(im.Path.Value, "\"")
			if i := strings.LastIndex(name, "/"); i >= 0 {
				name = name[i+1:]
			}
			if im.Name != nil {
				name = im.Name.Name
			}
			importedPkg[name] = true
		}
	}
	// package-level constants and variables (ErrShutdown, noRequest, bufferSize, …): the "constant"
	// side of a comparison
	for _, f := range files {
		for _, d := range f.Decls {
			if gd, ok := d.(*ast.GenDecl); ok && (gd.Tok == token.CONST || gd.Tok == token.VAR) {
				for _, sp := range gd.Specs {
					for _, n := range sp.(*ast.ValueSpec).Names {
						pkgLevel[n.Name] = true
					}
				}
			}
		}
	}
	for _, f := range files {
		normalizeFile(f)
	}
}

var pkgLevel = map[string]bool{}

// constantLike: a literal, nil/true/false, a package-level constant or variable of this package, or
// a qualified name of another package (io.EOF, context.Canceled).
func constantLike(e ast.Expr) bool {
	switch x := e.(type) {
	case *ast.BasicLit:
		return true
	case *ast.ParenExpr:
		return constantLike(x.X)
	case *ast.UnaryExpr:
		return x.Op == token.SUB && constantLike(x.X)
	case *ast.Ident:
		if x.Name == "nil" || x.Name == "true" || x.Name == "false" {
			return true
		}
		return pkgLevel[x.Name] && (x.Obj == nil || isTopLevelSpec(x.Obj.Decl))
	case *ast.SelectorExpr:
		if id, ok := x.X.(*ast.Ident); ok && id.Obj == nil && !pkgLevel[id.Name] {
			// an identifier the file does not declare: an imported package
			return importedPkg[id.Name]
		}
	}
	return false
}

func isTopLevelSpec(decl interface{}) bool {
	for _, f := range files {
		for _, d := range f.Decls {
			if gd, ok := d.(*ast.GenDecl); ok {
				for _, sp := range gd.Specs {
					if sp == decl {
						return true
					}
				}
			}
		}
	}
	return false
}

var importedPkg = map[string]bool{}

// recvName returns the receiver type name of a method ("" for functions).
func recvName(fd *ast.FuncDecl) string {
	if fd.Recv == nil || len(fd.Recv.List) == 0 {
		return ""
	}
	t := fd.Recv.List[0].Type
	if s, ok := t.(*ast.StarExpr); ok {
		t = s.X
	}
	if id, ok := t.(*ast.Ident); ok {
		return id.Name
	}
	return ""
}

func findFunc(recv, name string) *ast.FuncDecl {
	return findFuncDepth(recv, name, 0)
}

func findFuncDepth(recv, name string, depth int) *ast.FuncDecl {
	for _, f := range files {
		for _, d := range f.Decls {
			if fd, ok := d.(*ast.FuncDecl); ok && fd.Name.Name == name && recvName(fd) == recv {
				// a forwarder kept under the old name (`func (c *T) old(a, b) R { return c.new(a, b) }`)
				// stands for the function it forwards to
				if to := forwardsTo(fd); to != "" && depth < 3 {
					if t := findFuncDepth(recv, to, depth+1); t != nil {
						return t
					}
				}
				return fd
			}
		}
	}
	return nil
}

// forwardsTo: the body is one statement that calls another function (of the same receiver) with
// exactly this function's parameters, in order; returns that function's name.
func forwardsTo(fd *ast.FuncDecl) string {
	if fd.Body == nil || len(fd.Body.List) != 1 {
		return ""
	}
	var call *ast.CallExpr
	switch st := fd.Body.List[0].(type) {
	case *ast.ReturnStmt:
		if len(st.Results) == 1 {
			call, _ = st.Results[0].(*ast.CallExpr)
		}
	case *ast.ExprStmt:
		call, _ = st.X.(*ast.CallExpr)
	}
	if call == nil {
		return ""
	}
	var params []string
	for _, p := range fd.Type.Params.List {
		for _, n := range p.Names {
			params = append(params, n.Name)
		}
	}
	if len(call.Args) != len(params) {
		return ""
	}
	for i, a := range call.Args {
		if id, ok := a.(*ast.Ident); !ok || id.Name != params[i] {
			return ""
		}
	}
	switch x := call.Fun.(type) {
	case *ast.Ident:
		if fd.Recv == nil {
			return x.Name
		}
	case *ast.SelectorExpr:
		if fd.Recv != nil && len(fd.Recv.List) == 1 && len(fd.Recv.List[0].Names) == 1 {
			if id, ok := x.X.(*ast.Ident); ok && id.Name == fd.Recv.List[0].Names[0].Name {
				return x.Sel.Name
			}
		}
	}
	return ""
}

// constants collects package-level untyped integer/string constants.
var consts = map[string]constant.Value{}

func loadConsts() {
	for pass := 0; pass < 3; pass++ {
		for _, f := range files {
			for _, d := range f.Decls {
				gd, ok := d.(*ast.GenDecl)
				if !ok || gd.Tok != token.CONST {
					continue
				}
				for _, s := range gd.Specs {
					vs := s.(*ast.ValueSpec)
					for i, n := range vs.Names {
						if i < len(vs.Values) {
							if v, ok := evalConst(vs.Values[i]); ok {
								consts[n.Name] = v
							}
						}
					}
				}
			}
		}
	}
}

func evalConst(e ast.Expr) (constant.Value, bool) {
	switch x := e.(type) {
	case *ast.BasicLit:
		v := constant.MakeFromLiteral(x.Value, x.Kind, 0)
		return v, v.Kind() != constant.Unknown
	case *ast.Ident:
		v, ok := consts[x.Name]
		return v, ok
	case *ast.ParenExpr:
		return evalConst(x.X)
	case *ast.SelectorExpr:
		if id, ok := x.X.(*ast.Ident); ok && id.Name == "time" {
			if ns, ok := map[string]int64{"Nanosecond": 1, "Microsecond": 1e3, "Millisecond": 1e6, "Second": 1e9, "Minute": 60e9, "Hour": 3600e9}[x.Sel.Name]; ok {
				return constant.MakeInt64(ns), true
			}
		}
	case *ast.BinaryExpr:
		a, ok1 := evalConst(x.X)
		b, ok2 := evalConst(x.Y)
		if !ok1 || !ok2 {
			return nil, false
		}
		switch x.Op {
		case token.SHL, token.SHR:
			n, ok := constant.Uint64Val(b)
			if !ok {
				return nil, false
			}
			return constant.Shift(a, x.Op, uint(n)), true
		case token.ADD, token.SUB, token.MUL, token.OR, token.AND, token.XOR, token.QUO, token.REM:
			op := x.Op
			if op == token.QUO && a.Kind() == constant.Int {
				op = token.QUO_ASSIGN // integer division
			}
			return constant.BinaryOp(a, op, b), true
		}
	case *ast.CallExpr:
		// conversions like int64(x), time.Duration-free ones only
		if id, ok := x.Fun.(*ast.Ident); ok && len(x.Args) == 1 {
			switch id.Name {
			case "int", "int64", "uint64", "byte", "uint8", "int32", "uint32":
				return evalConst(x.Args[0])
			}
		}
	}
	return nil, false
}

func constNat(e ast.Expr) (uint64, bool) {
	v, ok := evalConst(e)
	if !ok || v.Kind() != constant.Int {
		return 0, false
	}
	return constant.Uint64Val(v)
}

// ---------------------------------------------------------------------------
// go2lean for integer expressions. vars maps Go sub-expressions (printed) to Lean names.

func exprString(e ast.Expr) string {
	var sb strings.Builder
	printExpr(&sb, e)
	return sb.String()
}

func printExpr(sb *strings.Builder, e ast.Expr) {
	switch x := e.(type) {
	case *ast.Ident:
		sb.WriteString(x.Name)
	case *ast.SelectorExpr:
		printExpr(sb, x.X)
		sb.WriteString(".")
		sb.WriteString(x.Sel.Name)
	case *ast.IndexExpr:
		printExpr(sb, x.X)
		sb.WriteString("[")
		printExpr(sb, x.Index)
		sb.WriteString("]")
	case *ast.BasicLit:
		sb.WriteString(x.Value)
	case *ast.ParenExpr:
		sb.WriteString("(")
		printExpr(sb, x.X)
		sb.WriteString(")")
	case *ast.BinaryExpr:
		printExpr(sb, x.X)
		sb.WriteString(x.Op.String())
		printExpr(sb, x.Y)
	case *ast.CallExpr:
		printExpr(sb, x.Fun)
		sb.WriteString("(")
		for i, a := range x.Args {
			if i > 0 {
				sb.WriteString(",")
			}
			printExpr(sb, a)
		}
		sb.WriteString(")")
	case *ast.UnaryExpr:
		sb.WriteString(x.Op.String())
		printExpr(sb, x.X)
	case *ast.StarExpr:
		sb.WriteString("*")
		printExpr(sb, x.X)
	default:
		sb.WriteString(fmt.Sprintf("<%T>", e))
	}
}

// go2lean translates an integer expression; every leaf must be in vars or a constant.
func go2lean(e ast.Expr, vars map[string]string) (string, error) {
	switch x := e.(type) {
	case *ast.ParenExpr:
		return go2lean(x.X, vars)
	case *ast.BasicLit:
		if x.Kind == token.INT {
			v := constant.MakeFromLiteral(x.Value, x.Kind, 0)
			return v.ExactString(), nil
		}
	case *ast.BinaryExpr:
		a, err := go2lean(x.X, vars)
		if err != nil {
			return "", err
		}
		b, err := go2lean(x.Y, vars)
		if err != nil {
			return "", err
		}
		op := map[token.Token]string{
			token.ADD: "+", token.SUB: "-", token.MUL: "*", token.QUO: "/", token.REM: "%",
			token.SHL: "<<<", token.SHR: ">>>", token.AND: "&&&", token.OR: "|||", token.XOR: "^^^",
			token.EQL: "==", token.NEQ: "!=", token.LSS: "<", token.LEQ: "≤", token.GTR: ">", token.GEQ: "≥",
		}[x.Op]
		if op == "" {
			return "", fmt.Errorf("operator %s", x.Op)
		}
		switch x.Op {
		case token.LSS, token.LEQ, token.GTR, token.GEQ:
			return fmt.Sprintf("(decide (%s %s %s))", a, op, b), nil
		}
		return fmt.Sprintf("(%s %s %s)", a, op, b), nil
	}
	s := exprString(e)
	if n, ok := vars[s]; ok {
		return n, nil
	}
	if v, ok := evalConst(e); ok && v.Kind() == constant.Int {
		return v.ExactString(), nil
	}
	return "", fmt.Errorf("leaf %q", s)
}

// ---------------------------------------------------------------------------
// generic walkers

func walkStmts(n ast.Node, f func(ast.Stmt)) {
	ast.Inspect(n, func(m ast.Node) bool {
		if s, ok := m.(ast.Stmt); ok {
			f(s)
		}
		return true
	})
}

// hasRecover: a deferred func literal that calls recover().
func hasRecover(fd *ast.FuncDecl) bool {
	found := false
	ast.Inspect(fd.Body, func(n ast.Node) bool {
		if d, ok := n.(*ast.DeferStmt); ok {
			ast.Inspect(d.Call, func(m ast.Node) bool {
				if c, ok := m.(*ast.CallExpr); ok {
					if id, ok := c.Fun.(*ast.Ident); ok && id.Name == "recover" {
						found = true
					}
				}
				return true
			})
		}
		return true
	})
	return found
}

// hasOverrunCheck: a top-level `if offset > <length expr> { return ...err }` in the body
// whose comparison is not inside the decoding loop.
func hasOverrunCheck(fd *ast.FuncDecl) bool {
	for _, st := range fd.Body.List {
		ifs, ok := st.(*ast.IfStmt)
		if !ok {
			continue
		}
		be, ok := ifs.Cond.(*ast.BinaryExpr)
		if !ok || be.Op != token.GTR {
			continue
		}
		if exprString(be.X) != "offset" {
			continue
		}
		rhs := exprString(be.Y)
		if rhs != "length" && rhs != "uint64(len(data))" {
			continue
		}
		// body must return
		for _, s := range ifs.Body.List {
			if _, ok := s.(*ast.ReturnStmt); ok {
				return true
			}
		}
	}
	return false
}

// fieldOf finds `<recv>.<Field>` inside an expression and returns Field.
func fieldOf(e ast.Node, recv string) string {
	name := ""
	ast.Inspect(e, func(n ast.Node) bool {
		if s, ok := n.(*ast.SelectorExpr); ok {
			if id, ok := s.X.(*ast.Ident); ok && id.Name == recv {
				name = s.Sel.Name
				return false
			}
		}
		return true
	})
	return name
}

// ---------------------------------------------------------------------------
// codec.pb.go

type kv struct {
	k string
	v string
}

func pbFacts(typ, recv, prefix string, fields []string, out *[]kv) {
	mt := findFunc(typ, "MarshalTo")
	if mt == nil {
		problem(typ+".MarshalTo", "not found")
		return
	}
	tags := map[string]uint64{}
	for _, st := range mt.Body.List {
		ifs, ok := st.(*ast.IfStmt)
		if !ok {
			continue
		}
		f := fieldOf(ifs.Cond, recv)
		if f == "" {
			continue
		}
		// first assignment buf[offset] = K in the body
		for _, s := range ifs.Body.List {
			as, ok := s.(*ast.AssignStmt)
			if !ok || len(as.Lhs) != 1 || exprString(as.Lhs[0]) != "buf[offset]" {
				continue
			}
			if v, ok := constNat(as.Rhs[0]); ok {
				if _, dup := tags[f]; !dup {
					tags[f] = v
				}
			}
			break
		}
	}
	for _, f := range fields {
		v, ok := tags[f]
		if !ok {
			problem(typ+".MarshalTo", "no tag byte found for field "+f)
			continue
		}
		*out = append(*out, kv{prefix + "Tag_" + f, fmt.Sprintf("Nat := %d", v)})
	}
	um := findFunc(typ, "Unmarshal")
	if um == nil {
		problem(typ+".Unmarshal", "not found")
		return
	}
	cases := map[string][2]uint64{}
	ast.Inspect(um.Body, func(n ast.Node) bool {
		sw, ok := n.(*ast.SwitchStmt)
		if !ok || exprString(sw.Tag) != "fieldNumber" {
			return true
		}
		for _, c := range sw.Body.List {
			cc := c.(*ast.CaseClause)
			if len(cc.List) != 1 {
				continue
			}
			num, ok := constNat(cc.List[0])
			if !ok {
				continue
			}
			var wt uint64 = 99
			f := ""
			for _, s := range cc.Body {
				if ifs, ok := s.(*ast.IfStmt); ok {
					if be, ok := ifs.Cond.(*ast.BinaryExpr); ok && be.Op == token.NEQ && exprString(be.X) == "wireType" {
						if v, ok := constNat(be.Y); ok {
							wt = v
						}
					}
				}
				if as, ok := s.(*ast.AssignStmt); ok {
					if g := fieldOf(as, recv); g != "" {
						f = g
					}
				}
			}
			if f != "" && wt != 99 {
				cases[f] = [2]uint64{num, wt}
			}
		}
		return false
	})
	for _, f := range fields {
		v, ok := cases[f]
		if !ok {
			problem(typ+".Unmarshal", "no switch case found for field "+f)
			continue
		}
		*out = append(*out, kv{prefix + "Case_" + f, fmt.Sprintf("Nat × Nat := (%d, %d)", v[0], v[1])})
	}
	// Size()
	sz := findFunc(typ, "Size")
	if sz == nil {
		problem(typ+".Size", "not found")
		return
	}
	base, per := sizeFacts(sz.Body, recv, typ+".Size")
	*out = append(*out, kv{prefix + "SizeBase", fmt.Sprintf("Nat := %d", base)})
	*out = append(*out, kv{prefix + "SizePerField", "List Nat := " + natList(per)})
	*out = append(*out, kv{prefix + "Recovers", "Bool := " + strconv.FormatBool(hasRecover(um))})
	*out = append(*out, kv{prefix + "ChecksOverrun", "Bool := " + strconv.FormatBool(hasOverrunCheck(um))})
}

func natList(xs []uint64) string {
	ss := make([]string, len(xs))
	for i, x := range xs {
		ss[i] = strconv.FormatUint(x, 10)
	}
	return "[" + strings.Join(ss, ", ") + "]"
}

// sizeFacts reads `size += K` and `size += K + uint64(len(recv.F))` statements in order.
func sizeFacts(body *ast.BlockStmt, recv, frag string) (base uint64, per []uint64) {
	seenBase := false
	for _, st := range body.List {
		as, ok := st.(*ast.AssignStmt)
		if !ok || as.Tok != token.ADD_ASSIGN || exprString(as.Lhs[0]) != "size" {
			continue
		}
		if v, ok := constNat(as.Rhs[0]); ok {
			if !seenBase {
				base = v
				seenBase = true
			} else {
				problem(frag, "second constant size term")
			}
			continue
		}
		be, ok := as.Rhs[0].(*ast.BinaryExpr)
		if ok && be.Op == token.ADD {
			if v, ok := constNat(be.X); ok && fieldOf(be.Y, recv) != "" {
				per = append(per, v)
				continue
			}
		}
		problem(frag, "size term "+exprString(as.Rhs[0]))
	}
	if !seenBase {
		problem(frag, "no constant size term")
	}
	return
}

// ---------------------------------------------------------------------------
// codec.code.go

// thresholds of an if / else-if chain comparing `subject > K`.
// chainThresholds reads the constants of an `if S > A … else if S > B …` chain. The subject S may be
// named by the chain's own init statement (`if b := data[offset]; b > 127 … else if b > 0`): the
// alias stands for the expression it was given.
func chainThresholds(ifs *ast.IfStmt, subject func(ast.Expr) bool) []uint64 {
	var ths []uint64
	alias := map[string]ast.Expr{}
	for ifs != nil {
		if as, ok := ifs.Init.(*ast.AssignStmt); ok && as.Tok == token.DEFINE && len(as.Lhs) == 1 && len(as.Rhs) == 1 {
			if id, ok := as.Lhs[0].(*ast.Ident); ok {
				alias[id.Name] = as.Rhs[0]
			}
		}
		be, ok := ifs.Cond.(*ast.BinaryExpr)
		if !ok || be.Op != token.GTR {
			return nil
		}
		x := be.X
		if id, ok := x.(*ast.Ident); ok {
			if a, ok := alias[id.Name]; ok {
				x = a
			}
		}
		if !subject(x) {
			return nil
		}
		v, ok := constNat(be.Y)
		if !ok {
			return nil
		}
		ths = append(ths, v)
		next, _ := ifs.Else.(*ast.IfStmt)
		ifs = next
	}
	return ths
}

// asIfChain rewrites a tagless `switch { case c1: … case c2: … default: … }` (whose cases have one
// condition each and no fallthrough) into the equivalent if / else-if chain, so that every pattern
// written for if-chains also reads the switch form. Other statements are returned unchanged.
func asIfChain(st ast.Stmt) ast.Stmt {
	sw, ok := st.(*ast.SwitchStmt)
	if !ok || sw.Tag != nil {
		return st
	}
	var head, tail *ast.IfStmt
	var deflt *ast.BlockStmt
	for _, c := range sw.Body.List {
		cc, ok := c.(*ast.CaseClause)
		if !ok {
			return st
		}
		for _, b := range cc.Body {
			if br, ok := b.(*ast.BranchStmt); ok && br.Tok == token.FALLTHROUGH {
				return st
			}
		}
		body := &ast.BlockStmt{Lbrace: cc.Colon, List: cc.Body, Rbrace: cc.End()}
		if cc.List == nil {
			deflt = body
			continue
		}
		if len(cc.List) != 1 || deflt != nil {
			return st
		}
		is := &ast.IfStmt{If: cc.Case, Cond: cc.List[0], Body: body}
		if head == nil {
			head, tail = is, is
			is.Init = sw.Init
		} else {
			tail.Else = is
			tail = is
		}
	}
	if head == nil {
		return st
	}
	if deflt != nil {
		tail.Else = deflt
	}
	return head
}

// negate returns the negation of a comparison or of a `!x`, nil for anything else.
func negate(e ast.Expr) ast.Expr {
	switch x := e.(type) {
	case *ast.BinaryExpr:
		flip := map[token.Token]token.Token{token.EQL: token.NEQ, token.NEQ: token.EQL, token.LSS: token.GEQ, token.GEQ: token.LSS, token.GTR: token.LEQ, token.LEQ: token.GTR}
		if op, ok := flip[x.Op]; ok {
			return &ast.BinaryExpr{X: x.X, OpPos: x.OpPos, Op: op, Y: x.Y}
		}
	case *ast.UnaryExpr:
		if x.Op == token.NOT {
			return x.X
		}
	case *ast.ParenExpr:
		return negate(x.X)
	}
	return nil
}

// guardClauses: in a function without result values, `if c { return }; rest…` at the top of the
// body is read as `if !c { rest… }` (the early-return form of the same code).
func guardClauses(ft *ast.FuncType, body *ast.BlockStmt) {
	if body == nil || (ft.Results != nil && len(ft.Results.List) > 0) {
		return
	}
	for i, st := range body.List {
		is, ok := st.(*ast.IfStmt)
		if !ok || is.Init != nil || is.Else != nil || len(is.Body.List) != 1 || i+1 >= len(body.List) {
			continue
		}
		if r, ok := is.Body.List[0].(*ast.ReturnStmt); !ok || len(r.Results) != 0 {
			continue
		}
		neg := negate(is.Cond)
		if neg == nil {
			continue
		}
		// the rest must not declare anything used after it (it is the end of the function anyway)
		rest := &ast.BlockStmt{Lbrace: is.Body.Rbrace, List: append([]ast.Stmt(nil), body.List[i+1:]...), Rbrace: body.Rbrace}
		guardClauses(ft, rest)
		body.List = append(body.List[:i:i], &ast.IfStmt{If: is.If, Cond: neg, Body: rest})
		return
	}
}

// normalizeFile rewrites every tagless switch of a file (function bodies and function literals
// alike) into an if-chain and puts a `nil` operand of == / != on the right, in place.
// (guardClauses is applied by the patterns that accept both shapes, not globally: most patterns
// are written for the shape the pinned tree has.)
func normalizeFile(f *ast.File) {
	ast.Inspect(f, func(n ast.Node) bool {
		switch x := n.(type) {
		case *ast.BinaryExpr:
			// comparisons are read with their constant operand on the right: `nil != x`, `0 < len(s)`,
			// `ErrShutdown == err` are `x != nil`, `len(s) > 0`, `err == ErrShutdown`
			mirror := map[token.Token]token.Token{token.EQL: token.EQL, token.NEQ: token.NEQ, token.LSS: token.GTR, token.GTR: token.LSS, token.LEQ: token.GEQ, token.GEQ: token.LEQ}
			if op, ok := mirror[x.Op]; ok && constantLike(x.X) && !constantLike(x.Y) {
				x.X, x.Y, x.Op = x.Y, x.X, op
			} else if ok && (x.Op == token.LSS || x.Op == token.LEQ) && constantLike(x.X) == constantLike(x.Y) {
				// neither side (or both) constant: order comparisons are read as > / >=
				x.X, x.Y, x.Op = x.Y, x.X, op
			}
			// the length of a slice is never negative: `len(s) != 0` is `len(s) > 0`
			if c, ok := x.X.(*ast.CallExpr); ok && x.Op == token.NEQ {
				if id, ok := c.Fun.(*ast.Ident); ok && (id.Name == "len" || id.Name == "cap") {
					if bl, ok := x.Y.(*ast.BasicLit); ok && bl.Value == "0" {
						x.Op = token.GTR
					}
				}
			}
		}
		return true
	})
	ast.Inspect(f, func(n ast.Node) bool {
		switch x := n.(type) {
		case *ast.BlockStmt:
			for i := range x.List {
				x.List[i] = asIfChain(x.List[i])
			}
		case *ast.CaseClause:
			for i := range x.Body {
				x.Body[i] = asIfChain(x.Body[i])
			}
		case *ast.CommClause:
			for i := range x.Body {
				x.Body[i] = asIfChain(x.Body[i])
			}
		case *ast.IfStmt:
			if x.Else != nil {
				x.Else = asIfChain(x.Else)
			}
		case *ast.LabeledStmt:
			x.Stmt = asIfChain(x.Stmt)
		}
		return true
	})
}

func codeFacts(typ, recv, prefix string, fields []string, out *[]kv) {
	m := findFunc(typ, "Marshal")
	if m == nil {
		problem(typ+".Marshal", "not found")
		return
	}
	base, per := sizeFacts(m.Body, recv, typ+".Marshal")
	*out = append(*out, kv{prefix + "SizeBase", fmt.Sprintf("Nat := %d", base)})
	*out = append(*out, kv{prefix + "SizePerField", "List Nat := " + natList(per)})
	enc := map[string][]uint64{}
	for _, st := range m.Body.List {
		ifs, ok := st.(*ast.IfStmt)
		if !ok {
			continue
		}
		f := fieldOf(ifs.Cond, recv)
		if f == "" {
			continue
		}
		ths := chainThresholds(ifs, func(e ast.Expr) bool {
			return strings.HasPrefix(exprString(e), "len("+recv+".")
		})
		if ths != nil {
			enc[f] = ths
		}
	}
	for _, f := range fields[1:] {
		ths := enc[f]
		if len(ths) != 2 {
			problem(typ+".Marshal", "field "+f+": expected an `if len > A … else if len > B … else` chain")
			continue
		}
		*out = append(*out, kv{prefix + "Enc_" + f, fmt.Sprintf("Nat × Nat := (%d, %d)", ths[0], ths[1])})
	}
	um := findFunc(typ, "Unmarshal")
	if um == nil {
		problem(typ+".Unmarshal", "not found")
		return
	}
	dec := map[string][]uint64{}
	for _, st := range um.Body.List {
		ifs, ok := st.(*ast.IfStmt)
		if !ok {
			continue
		}
		f := fieldOf(ifs.Body, recv)
		if f == "" {
			continue
		}
		ths := chainThresholds(ifs, func(e ast.Expr) bool { return exprString(e) == "data[offset]" })
		if ths != nil {
			dec[f] = ths
		}
	}
	for _, f := range fields[1:] {
		ths := dec[f]
		switch len(ths) {
		case 1:
			*out = append(*out, kv{prefix + "Dec_" + f, fmt.Sprintf("Nat := %d", ths[0])})
		case 2:
			*out = append(*out, kv{prefix + "Dec_" + f, fmt.Sprintf("Nat × Nat := (%d, %d)", ths[0], ths[1])})
		default:
			problem(typ+".Unmarshal", "field "+f+": no first-byte threshold chain found")
		}
	}
	*out = append(*out, kv{prefix + "Recovers", "Bool := " + strconv.FormatBool(hasRecover(um))})
	*out = append(*out, kv{prefix + "ChecksOverrun", "Bool := " + strconv.FormatBool(hasOverrunCheck(um))})
}

// ---------------------------------------------------------------------------
// upgrade.go

func upgradeLean() string {
	var sb strings.Builder
	sb.WriteString("-- GENERATED by harness/cmd/extract from /repo/upgrade.go (do not edit).\nnamespace RpcVerif.Gen\n\n")
	for _, c := range []string{"upgradeSize"} {
		v, ok := consts[c]
		if !ok {
			problem("upgrade.go const "+c, "not found")
			continue
		}
		fmt.Fprintf(&sb, "def %s : Nat := %s\n", c, v.ExactString())
	}
	for _, c := range []string{"noRequest", "noResponse", "heartbeat", "openStream", "streaming", "closeStream"} {
		v, ok := consts[c]
		if !ok {
			problem("upgrade.go const "+c, "not found")
			continue
		}
		fmt.Fprintf(&sb, "def %s : UInt8 := %s\n", c, v.ExactString())
	}
	vars := map[string]string{"u.NoRequest": "noRequest", "u.NoResponse": "noResponse", "u.Heartbeat": "heartbeat", "u.Stream": "stream"}
	// Marshal: buf[0] = expr
	if m := findFunc("upgrade", "Marshal"); m != nil {
		done := false
		for _, st := range m.Body.List {
			if as, ok := st.(*ast.AssignStmt); ok && len(as.Lhs) == 1 && exprString(as.Lhs[0]) == "buf[0]" {
				s, err := go2lean(as.Rhs[0], vars)
				if err != nil {
					problem("upgrade.Marshal", err.Error())
				} else {
					fmt.Fprintf(&sb, "\n/-- `(*upgrade).Marshal`: the byte stored in `buf[0]`. -/\ndef upgradePack (noRequest noResponse heartbeat stream : UInt8) : UInt8 :=\n  %s\n", s)
					done = true
				}
			}
		}
		if !done {
			problem("upgrade.Marshal", "no `buf[0] = …` assignment")
		}
	} else {
		problem("upgrade.Marshal", "not found")
	}
	if um := findFunc("upgrade", "Unmarshal"); um != nil {
		got := map[string]bool{}
		sb.WriteString("\n/-- `(*upgrade).Unmarshal`: the four fields read from `data[0]`. -/\n")
		for _, st := range um.Body.List {
			as, ok := st.(*ast.AssignStmt)
			if !ok || len(as.Lhs) != 1 {
				continue
			}
			lhs := exprString(as.Lhs[0])
			if !strings.HasPrefix(lhs, "u.") {
				continue
			}
			s, err := go2lean(as.Rhs[0], map[string]string{"data[0]": "d"})
			if err != nil {
				problem("upgrade.Unmarshal "+lhs, err.Error())
				continue
			}
			fmt.Fprintf(&sb, "def upgrade%s (d : UInt8) : UInt8 := %s\n", strings.TrimPrefix(lhs, "u."), s)
			got[lhs] = true
		}
		for k := range vars {
			if !got[k] {
				problem("upgrade.Unmarshal", "no assignment to "+k)
			}
		}
	} else {
		problem("upgrade.Unmarshal", "not found")
	}
	if z := findFunc("upgrade", "IsZero"); z != nil {
		ok := false
		if len(z.Body.List) == 1 {
			if r, isRet := z.Body.List[0].(*ast.ReturnStmt); isRet && len(r.Results) == 1 {
				s, err := go2lean(r.Results[0], vars)
				if err == nil {
					fmt.Fprintf(&sb, "\n/-- `(*upgrade).IsZero`. -/\ndef upgradeIsZero (noRequest noResponse heartbeat stream : UInt8) : Bool :=\n  %s\n", s)
					ok = true
				} else {
					problem("upgrade.IsZero", err.Error())
				}
			}
		}
		if !ok {
			problem("upgrade.IsZero", "expected a single return statement")
		}
	} else {
		problem("upgrade.IsZero", "not found")
	}
	sb.WriteString("\nend RpcVerif.Gen\n")
	return sb.String()
}

func wireFactsLean() string {
	var out []kv
	pbFacts("pbRequest", "req", "pbReq", []string{"Seq", "Upgrade", "ServiceMethod", "Args"}, &out)
	pbFacts("pbResponse", "res", "pbRes", []string{"Seq", "Error", "Reply"}, &out)
	codeFacts("request", "req", "codeReq", []string{"Seq", "Upgrade", "ServiceMethod", "Args"}, &out)
	codeFacts("response", "res", "codeRes", []string{"Seq", "Error", "Reply"}, &out)
	// JSON struct tags
	for _, t := range []struct{ typ, name string }{{"jsonRequest", "jsonReqKeys"}, {"jsonResponse", "jsonResKeys"}} {
		keys := jsonTags(t.typ)
		if keys == nil {
			problem(t.typ, "struct not found")
			continue
		}
		q := make([]string, len(keys))
		for i, k := range keys {
			q[i] = strconv.Quote(k)
		}
		out = append(out, kv{t.name, "List String := [" + strings.Join(q, ", ") + "]"})
	}
	if v, ok := consts["shutdownMsg"]; ok {
		out = append(out, kv{"shutdownMsg", "String := " + strconv.Quote(constant.StringVal(v))})
	} else {
		problem("conn.go const shutdownMsg", "not found")
	}
	if v, ok := consts["bufferSize"]; ok {
		out = append(out, kv{"bufferSize", "Nat := " + v.ExactString()})
	} else {
		problem("codec.go const bufferSize", "not found")
	}
	var sb strings.Builder
	sb.WriteString("-- GENERATED by harness/cmd/extract from /repo (do not edit). Facts read off the Go source.\nnamespace RpcVerif.Gen\n\n")
	for _, e := range out {
		fmt.Fprintf(&sb, "def %s : %s\n", e.k, e.v)
	}
	sb.WriteString("\nend RpcVerif.Gen\n")
	return sb.String()
}

func jsonTags(typ string) []string {
	for _, f := range files {
		for _, d := range f.Decls {
			gd, ok := d.(*ast.GenDecl)
			if !ok || gd.Tok != token.TYPE {
				continue
			}
			for _, s := range gd.Specs {
				ts := s.(*ast.TypeSpec)
				st, ok := ts.Type.(*ast.StructType)
				if !ok || ts.Name.Name != typ {
					continue
				}
				var keys []string
				for _, fl := range st.Fields.List {
					if fl.Tag == nil {
						keys = append(keys, "")
						continue
					}
					tag, _ := strconv.Unquote(fl.Tag.Value)
					k := ""
					if i := strings.Index(tag, `json:"`); i >= 0 {
						rest := tag[i+6:]
						if j := strings.Index(rest, `"`); j >= 0 {
							k = rest[:j]
						}
					}
					keys = append(keys, k)
				}
				return keys
			}
		}
	}
	return nil
}

func writeIfChanged(path, content string) {
	old, err := os.ReadFile(path)
	if err == nil && string(old) == content {
		return
	}
	if err := os.WriteFile(path, []byte(content), 0o644); err != nil {
		fmt.Fprintln(os.Stderr, err)
		os.Exit(2)
	}
}

func main() {
	if len(os.Args) == 4 && os.Args[1] == "-write-baseline" {
		// extract -write-baseline <repo> <file>: record the local variable names of every function
		// of the pinned tree (used to undo mere renames, see normalize.go)
		load(os.Args[2])
		writeBaseline(os.Args[3])
		return
	}
	if len(os.Args) != 3 {
		fmt.Fprintln(os.Stderr, "usage: extract <repo> <outdir>")
		os.Exit(2)
	}
	repo, outdir := os.Args[1], os.Args[2]
	load(repo)
	restoreFuncNames()
	restoreNames()
	inlineExtractedHelpers()
	loadConsts()
	outs := map[string]string{
		"Upgrade.lean":   upgradeLean(),
		"WireFacts.lean": wireFactsLean(),
	}
	for name, gen := range extraGenerators {
		outs[name] = gen()
	}
	names := make([]string, 0, len(outs))
	for n := range outs {
		names = append(names, n)
	}
	sort.Strings(names)
	for _, n := range names {
		writeIfChanged(filepath.Join(outdir, n), outs[n])
	}
	if len(problems) > 0 {
		for _, p := range problems {
			fmt.Fprintln(os.Stderr, p)
		}
		os.Exit(3)
	}
}

// extraGenerators is filled by the other files of this package (pool, router facts).
var extraGenerators = map[string]func() string{}
