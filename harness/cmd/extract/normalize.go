package main

// Normalisation of the parsed source before any pattern is matched, so that behaviour-preserving
// rewrites of /repo do not break the tie:
//
//   - tagless switches are read as if / else-if chains (asIfChain, in main.go);
//   - local variables, parameters and receivers that were merely renamed are given back the names
//     they have in the pinned tree (alpha-conversion by declaration position, per function; only
//     when the function declares exactly as many objects as it did there and the old name cannot
//     capture anything);
//   - a statement that calls an unexported helper which has exactly one call site, takes plain
//     identifiers as arguments and contains no return statement ("extract method") is replaced by
//     the helper's body.
//
// All three are semantics-preserving rewrites of the syntax tree the patterns look at; none of them
// can make a pattern match code that behaves differently from what the pattern describes.

import (
	"crypto/sha1"
	_ "embed"
	"encoding/json"
	"fmt"
	"go/ast"
	"os"
	"sort"
	"strings"
)

//go:embed baseline_names.json
var baselineJSON []byte

//go:embed baseline_shapes.json
var baselineShapesJSON []byte

func funcKey(fd *ast.FuncDecl) string { return recvName(fd) + "." + fd.Name.Name }

// declaredObjects: the variables (receivers, parameters, results, locals, also of nested function
// literals) declared inside fd, in the order of their declarations.
func declaredObjects(fd *ast.FuncDecl) []*ast.Object {
	seen := map[*ast.Object]bool{}
	var objs []*ast.Object
	ast.Inspect(fd, func(n ast.Node) bool {
		id, ok := n.(*ast.Ident)
		if !ok || id.Obj == nil || id.Obj.Kind != ast.Var || seen[id.Obj] {
			return true
		}
		if p := id.Obj.Pos(); p < fd.Pos() || p > fd.End() {
			return true // a package-level variable
		}
		seen[id.Obj] = true
		objs = append(objs, id.Obj)
		return true
	})
	sort.SliceStable(objs, func(i, j int) bool { return objs[i].Pos() < objs[j].Pos() })
	return objs
}

func writeBaseline(path string) {
	out := map[string][]string{}
	for _, f := range files {
		for _, d := range f.Decls {
			fd, ok := d.(*ast.FuncDecl)
			if !ok || fd.Body == nil {
				continue
			}
			var names []string
			for _, o := range declaredObjects(fd) {
				names = append(names, o.Name)
			}
			out[funcKey(fd)] = names
		}
	}
	b, _ := json.MarshalIndent(out, "", " ")
	if err := os.WriteFile(path, append(b, '\n'), 0o644); err != nil {
		fmt.Fprintln(os.Stderr, err)
		os.Exit(2)
	}
	shapes := map[string]string{}
	for _, f := range files {
		for _, d := range f.Decls {
			if fd, ok := d.(*ast.FuncDecl); ok && fd.Body != nil {
				shapes[funcKey(fd)] = shapeOf(fd)
			}
		}
	}
	b, _ = json.MarshalIndent(shapes, "", " ")
	sp := strings.TrimSuffix(path, "baseline_names.json") + "baseline_shapes.json"
	if err := os.WriteFile(sp, append(b, '\n'), 0o644); err != nil {
		fmt.Fprintln(os.Stderr, err)
		os.Exit(2)
	}
}

// shapeOf: a fingerprint of a function that does not depend on the names of variables, of the
// function itself, or of the functions and methods it calls: node kinds, operators, literals and the
// names of the fields it touches.
func shapeOf(fd *ast.FuncDecl) string {
	called := map[*ast.Ident]bool{}
	ast.Inspect(fd, func(n ast.Node) bool {
		if c, ok := n.(*ast.CallExpr); ok {
			switch x := c.Fun.(type) {
			case *ast.SelectorExpr:
				called[x.Sel] = true
			case *ast.Ident:
				called[x] = true
			}
		}
		return true
	})
	var sb strings.Builder
	sels := map[*ast.Ident]bool{}
	ast.Inspect(fd.Type, func(n ast.Node) bool {
		if n != nil {
			fmt.Fprintf(&sb, "%T;", n)
		}
		return true
	})
	ast.Inspect(fd.Body, func(n ast.Node) bool {
		switch x := n.(type) {
		case nil:
			return true
		case *ast.SelectorExpr:
			sels[x.Sel] = true
			sb.WriteString("Sel;")
		case *ast.Ident:
			if sels[x] && !called[x] {
				sb.WriteString("." + x.Name + ";")
			} else {
				sb.WriteString("_;")
			}
		case *ast.BasicLit:
			sb.WriteString(x.Value + ";")
		case *ast.BinaryExpr:
			sb.WriteString("B" + x.Op.String() + ";")
		case *ast.UnaryExpr:
			sb.WriteString("U" + x.Op.String() + ";")
		case *ast.AssignStmt:
			sb.WriteString("A" + x.Tok.String() + ";")
		case *ast.IncDecStmt:
			sb.WriteString("I" + x.Tok.String() + ";")
		case *ast.BranchStmt:
			sb.WriteString("Br" + x.Tok.String() + ";")
		default:
			fmt.Fprintf(&sb, "%T;", n)
		}
		return true
	})
	return fmt.Sprintf("%x", sha1.Sum([]byte(sb.String())))
}

// restoreFuncNames: an unexported function or method that was merely renamed (its shape is that of a
// baseline function which no longer exists, on the same receiver, and nothing else matches) gets its
// baseline name back, at its declaration and at its call sites.
func restoreFuncNames() {
	base := map[string]string{}
	if err := json.Unmarshal(baselineShapesJSON, &base); err != nil {
		return
	}
	cur := map[string]*ast.FuncDecl{}
	names := map[string]int{}
	for _, f := range files {
		for _, d := range f.Decls {
			if fd, ok := d.(*ast.FuncDecl); ok && fd.Body != nil {
				cur[funcKey(fd)] = fd
				names[fd.Name.Name]++
			}
		}
	}
	var missing []string
	for k := range base {
		if _, ok := cur[k]; !ok {
			missing = append(missing, k)
		}
	}
	sort.Strings(missing)
	used := map[string]bool{}
	for _, m := range missing {
		recv := m[:strings.Index(m, ".")]
		want := m[strings.Index(m, ".")+1:]
		var cands []string
		for k, fd := range cur {
			if _, inBase := base[k]; inBase || used[k] || recvName(fd) != recv || ast.IsExported(fd.Name.Name) {
				continue
			}
			if shapeOf(fd) == base[m] {
				cands = append(cands, k)
			}
		}
		if len(cands) != 1 || ast.IsExported(want) {
			continue
		}
		fd := cur[cands[0]]
		newName := fd.Name.Name
		if names[newName] != 1 || names[want] != 0 {
			continue // the new name (or the old one) also names something else: leave it alone
		}
		used[cands[0]] = true
		fd.Name.Name = want
		for _, f := range files {
			ast.Inspect(f, func(n ast.Node) bool {
				if c, ok := n.(*ast.CallExpr); ok {
					switch x := c.Fun.(type) {
					case *ast.SelectorExpr:
						if recv != "" && x.Sel.Name == newName {
							x.Sel.Name = want
						}
					case *ast.Ident:
						if recv == "" && x.Name == newName && x.Obj == nil || recv == "" && x.Name == newName && x.Obj != nil && x.Obj.Kind == ast.Fun {
							x.Name = want
						}
					}
				}
				return true
			})
		}
	}
}

// restoreNames gives renamed locals their baseline names back.
func restoreNames() {
	base := map[string][]string{}
	if err := json.Unmarshal(baselineJSON, &base); err != nil {
		return
	}
	for _, f := range files {
		for _, d := range f.Decls {
			fd, ok := d.(*ast.FuncDecl)
			if !ok || fd.Body == nil {
				continue
			}
			want, ok := base[funcKey(fd)]
			if !ok {
				continue
			}
			objs := declaredObjects(fd)
			if len(objs) != len(want) {
				continue
			}
			rename := map[*ast.Object]string{}
			for i, o := range objs {
				if o.Name != want[i] {
					rename[o] = want[i]
				}
			}
			if len(rename) == 0 {
				continue
			}
			// the same names in another order: declarations were moved, nothing was renamed
			have := map[string]int{}
			for _, o := range objs {
				have[o.Name]++
			}
			for _, w := range want {
				have[w]--
			}
			permuted := true
			for _, n := range have {
				if n != 0 {
					permuted = false
				}
			}
			if permuted {
				continue
			}
			// capture check: a restored name must not be used in this function for anything that is
			// not itself one of the function's own variables (a package, a global, a builtin)
			foreign := map[string]bool{}
			own := map[*ast.Object]bool{}
			for _, o := range objs {
				own[o] = true
			}
			skipSel := map[*ast.Ident]bool{}
			ast.Inspect(fd, func(n ast.Node) bool {
				switch x := n.(type) {
				case *ast.SelectorExpr:
					skipSel[x.Sel] = true
				case *ast.KeyValueExpr:
					if id, ok := x.Key.(*ast.Ident); ok && id.Obj == nil {
						skipSel[id] = true // a struct field name in a composite literal
					}
				}
				return true
			})
			ast.Inspect(fd, func(n ast.Node) bool {
				if id, ok := n.(*ast.Ident); ok && !skipSel[id] && (id.Obj == nil || !own[id.Obj]) {
					foreign[id.Name] = true
				}
				return true
			})
			safe := true
			for _, nn := range rename {
				if foreign[nn] {
					safe = false
				}
			}
			if !safe {
				continue
			}
			ast.Inspect(fd, func(n ast.Node) bool {
				if id, ok := n.(*ast.Ident); ok && id.Obj != nil {
					if nn, ok := rename[id.Obj]; ok {
						id.Name = nn
					}
				}
				return true
			})
			for o, nn := range rename {
				o.Name = nn
			}
		}
	}
}

// inlineExtractedHelpers splices the body of a single-use unexported helper into its call site.
func inlineExtractedHelpers() {
	byName := map[string][]*ast.FuncDecl{}
	for _, f := range files {
		for _, d := range f.Decls {
			if fd, ok := d.(*ast.FuncDecl); ok && fd.Body != nil {
				byName[fd.Name.Name] = append(byName[fd.Name.Name], fd)
			}
		}
	}
	callSites := map[string]int{}
	for _, f := range files {
		ast.Inspect(f, func(n ast.Node) bool {
			c, ok := n.(*ast.CallExpr)
			if !ok {
				return true
			}
			switch x := c.Fun.(type) {
			case *ast.Ident:
				callSites[x.Name]++
			case *ast.SelectorExpr:
				callSites[x.Sel.Name]++
			}
			return true
		})
		// a function used as a value (passed around) is not a plain helper
		ast.Inspect(f, func(n ast.Node) bool {
			if c, ok := n.(*ast.CallExpr); ok {
				for _, a := range c.Args {
					switch x := a.(type) {
					case *ast.Ident:
						callSites[x.Name] += 2
					case *ast.SelectorExpr:
						callSites[x.Sel.Name] += 2
					}
				}
			}
			return true
		})
	}
	eligible := func(name string) *ast.FuncDecl {
		fds := byName[name]
		if len(fds) != 1 || callSites[name] != 1 || ast.IsExported(name) {
			return nil
		}
		fd := fds[0]
		if fd.Type.Results != nil && len(fd.Type.Results.List) > 0 {
			return nil
		}
		bad := false
		ast.Inspect(fd.Body, func(n ast.Node) bool {
			switch n.(type) {
			case *ast.ReturnStmt, *ast.DeferStmt, *ast.FuncLit:
				bad = true
			}
			return true
		})
		if bad {
			return nil
		}
		for _, p := range fd.Type.Params.List {
			if _, variadic := p.Type.(*ast.Ellipsis); variadic {
				return nil
			}
		}
		return fd
	}
	// splice: returns the statements to put in place of st (nil = leave st alone)
	splice := func(caller *ast.FuncDecl, st ast.Stmt) []ast.Stmt {
		es, ok := st.(*ast.ExprStmt)
		if !ok {
			return nil
		}
		call, ok := es.X.(*ast.CallExpr)
		if !ok {
			return nil
		}
		var name string
		var recvArg *ast.Ident
		switch x := call.Fun.(type) {
		case *ast.Ident:
			name = x.Name
		case *ast.SelectorExpr:
			id, ok := x.X.(*ast.Ident)
			if !ok {
				return nil
			}
			name, recvArg = x.Sel.Name, id
		}
		fd := eligible(name)
		if fd == nil || fd == caller {
			return nil
		}
		if (fd.Recv != nil) != (recvArg != nil) {
			return nil
		}
		var params []*ast.Ident
		for _, p := range fd.Type.Params.List {
			params = append(params, p.Names...)
		}
		if len(params) != len(call.Args) {
			return nil
		}
		ren := map[*ast.Object]string{}
		for i, a := range call.Args {
			id, ok := a.(*ast.Ident)
			if !ok {
				return nil
			}
			if params[i].Obj != nil {
				ren[params[i].Obj] = id.Name
			}
		}
		if fd.Recv != nil && len(fd.Recv.List) == 1 && len(fd.Recv.List[0].Names) == 1 {
			if o := fd.Recv.List[0].Names[0].Obj; o != nil {
				ren[o] = recvArg.Name
			}
		}
		// no capture: a new name must not be the name of another variable of the helper
		for _, o := range declaredObjects(fd) {
			if _, isParam := ren[o]; isParam {
				continue
			}
			for _, nn := range ren {
				if nn == o.Name {
					return nil
				}
			}
		}
		ast.Inspect(fd.Body, func(n ast.Node) bool {
			if id, ok := n.(*ast.Ident); ok && id.Obj != nil {
				if nn, ok := ren[id.Obj]; ok {
					id.Name = nn
				}
			}
			return true
		})
		return fd.Body.List
	}
	for _, f := range files {
		for _, d := range f.Decls {
			caller, ok := d.(*ast.FuncDecl)
			if !ok || caller.Body == nil {
				continue
			}
			ast.Inspect(caller, func(n ast.Node) bool {
				var list *[]ast.Stmt
				switch x := n.(type) {
				case *ast.BlockStmt:
					list = &x.List
				case *ast.CaseClause:
					list = &x.Body
				case *ast.CommClause:
					list = &x.Body
				}
				if list == nil {
					return true
				}
				var out []ast.Stmt
				changed := false
				for _, st := range *list {
					if rep := splice(caller, st); rep != nil {
						out = append(out, rep...)
						changed = true
					} else {
						out = append(out, st)
					}
				}
				if changed {
					*list = out
				}
				return true
			})
		}
	}
}
