package main

// conn: scripted runs of the real *rpc.Conn (model component K) — properties C01 (client half),
// C02, C03, C05 (client half), C06 (client half), C19.
// Every scenario is a script of actions; after each action the harness waits for quiescence
// and records one canonical observation line. The same script is written for the Lean driver,
// whose observation lines must be identical (state correspondence at every quiescent point).
// The monitors below restate the properties over the observations only.

import (
	"fmt"
	"io"
	"os"
	"sort"
	"strconv"
	"strings"
	"time"

	"verifharness/internal/gate"
	"verifharness/internal/prng"
	"verifharness/internal/rep"
)

type connScenario struct {
	Hdr      string   `json:"header"`
	DirectIO bool     `json:"direct_io"`
	Pipe     bool     `json:"pipelining"`
	Actions  []string `json:"actions"`
	Name     string   `json:"name,omitempty"`
}

func (s connScenario) header() string {
	return fmt.Sprintf("conn hdr=%s directio=%d pipe=%d", s.Hdr, b2i(s.DirectIO), b2i(s.Pipe))
}

func b2i(b bool) int {
	if b {
		return 1
	}
	return 0
}

type connResult struct {
	obs     []string // one per executed action
	actions []string // executed actions (inapplicable ones are dropped)
	env     *connEnv
	stuck   string
	doneIdx map[int]int    // index of the action after which call k was first seen completed
	doneErr map[int]string // its error class at that moment
	notes   []string
}

func atoi(s string) int { n, _ := strconv.Atoi(s); return n }

// runConnScenario executes the script against the real code.
func runConnScenario(sc connScenario) *connResult {
	e := newConnEnv(hdrKind(sc.Hdr), sc.DirectIO, sc.Pipe)
	res := &connResult{env: e, doneIdx: map[int]int{}, doneErr: map[int]string{}}
	gate.Settle(2 * time.Second)
	arrMark := 0
	for _, a := range sc.Actions {
		f := strings.Fields(a)
		ok := true
		switch f[0] {
		case "go", "rt", "call", "ctx", "ping":
			// <form> k payload replyLen hw hb [ctxcap]
			k := atoi(f[1])
			ctxCap := 0
			if len(f) > 6 {
				ctxCap = atoi(f[6])
			}
			e.start(k, f[0], atoi(f[2]), atoi(f[3]), f[4] == "1", f[5] == "1", ctxCap, false)
		case "encfail":
			e.start(atoi(f[2]), f[1], 16, 8, false, false, 0, true)
		case "wret":
			v := gate.Verdict{}
			if f[2] == "err" {
				v.Err = errWriteFail
			}
			ok = e.hub.Release("w:"+f[1], v)
		case "brel":
			ok = e.hub.Release("b:"+f[1], gate.Verdict{})
		case "resp":
			ok = e.respond(atoi(f[1]), f[2])
		case "unk":
			e.mu.Lock()
			e.unkSeq++
			s := e.unkSeq
			e.mu.Unlock()
			ok = e.feedFrame(encodeResponse(e.hdr, resVal{Seq: s, Reply: []byte("stray")}))
		case "junk":
			ok = e.feedFrame(junkFrame(sc.Hdr, atoi(f[1])))
		case "eof":
			ok = e.feedErr(io.EOF)
		case "rerr":
			ok = e.feedErr(errReadFail)
		case "close":
			e.closeConn()
		case "cancel":
			e.mu.Lock()
			r := e.calls[atoi(f[1])]
			e.mu.Unlock()
			if !sc.Pipe && e.hub.Parked("w:"+f[1]) {
				// without pipelining the caller itself is inside the blocked write: it cannot
				// see the cancellation before the write returns (out of the property's scope)
				ok = false
			} else if r != nil && r.cancel != nil {
				r.cancel()
			} else {
				ok = false
			}
		case "drain":
			// release every gate that is still held, repeatedly, until nothing is parked
			// one gate at a time, in sorted key order, settling in between (the order in which
			// two released threads proceed would otherwise be a race)
			for round := 0; round < 4096; round++ {
				pk := e.hub.ParkedKeys()
				if len(pk) == 0 {
					break
				}
				sort.Strings(pk)
				e.hub.Release(pk[0], gate.Verdict{})
				gate.Settle(3 * time.Second)
			}
			e.hub.UnholdAll()
		case "holddec":
			if sc.DirectIO {
				ok = false // the reader decodes inline: holding it would hold the reader
			} else {
				e.hub.Hold("dec")
			}
		case "reldec":
			e.hub.Unhold("dec")
			e.hub.Release("dec", gate.Verdict{})
		case "probe":
		default:
			ok = false
		}
		if !ok {
			continue
		}
		if os.Getenv("CORR_DEBUG") != "" {
			fmt.Fprintf(os.Stderr, "   -> %s\n", a)
		}
		t0 := time.Now()
		if !gate.Settle(3 * time.Second) {
			res.stuck = a
		}
		if !sc.Pipe {
			// without pipelining the completions caused by one action race with one another:
			// their order on the shared channel is canonicalised (sorted) on both sides
			e.mu.Lock()
			if arrMark <= len(e.arrivals) {
				sort.Ints(e.arrivals[arrMark:])
			}
			e.mu.Unlock()
		}
		e.mu.Lock()
		arrMark = len(e.arrivals)
		e.mu.Unlock()
		if os.Getenv("CORR_DEBUG") != "" && time.Since(t0) > 50*time.Millisecond {
			fmt.Fprintf(os.Stderr, "   SLOW settle %v busy=%s\n", time.Since(t0), gate.LastBusy)
		}
		res.actions = append(res.actions, a)
		res.obs = append(res.obs, e.observe())
		e.mu.Lock()
		for _, k := range e.order {
			if _, seen := res.doneIdx[k]; seen {
				continue
			}
			c := e.calls[k]
			if (c.form == "go" || c.form == "rt") && c.nDone >= 1 {
				res.doneIdx[k], res.doneErr[k] = len(res.actions)-1, c.errAt[0]
			} else if c.ret {
				res.doneIdx[k], res.doneErr[k] = len(res.actions)-1, classify(c.retErr)
			}
		}
		e.mu.Unlock()
	}
	return res
}

// junkFrame: frames every decoder of the given header rejects (so they can never be mistaken
// for a response to some call).
func junkFrame(hdr string, i int) []byte {
	switch hdr {
	case "code":
		return [][]byte{{0x01}, {}, {0x80}, {0x01, 0x05, 0x41}, {0x01, 0x00, 0x7f, 0x01}}[i%5]
	case "json":
		return [][]byte{[]byte("{"), []byte("nope"), {}, []byte(`{"i":"x"}`), []byte(`[1]`)}[i%5]
	default:
		return [][]byte{{0x08}, {0x09, 0x01}, {0x12, 0x7f, 0x01}, {0x1a, 0x05}, {0x10, 0x01}}[i%5]
	}
}

// ---- monitors ----

type connVerdict struct {
	prop, monitor, key, what string
}

// checkConn evaluates the property monitors on a finished scenario (implementation only).
func checkConn(sc connScenario, r *connResult) []connVerdict {
	var out []connVerdict
	e := r.env
	add := func(prop, mon, key, what string) { out = append(out, connVerdict{prop, mon, key, what}) }
	mode := fmt.Sprintf("dio%d-pipe%d", b2i(sc.DirectIO), b2i(sc.Pipe))
	e.mu.Lock()
	defer e.mu.Unlock()
	endIdx, endKind := -1, ""
	startIdx := map[int]int{}
	respIdx := map[int]int{}
	respKind := map[int]string{}
	cancelIdx := map[int]int{}
	wretErrIdx := map[int]int{}
	for i, a := range r.actions {
		f := strings.Fields(a)
		switch f[0] {
		case "eof", "rerr", "close":
			if endIdx < 0 {
				endIdx, endKind = i, f[0]
			}
		case "go", "rt", "call", "ctx", "ping":
			startIdx[atoi(f[1])] = i
		case "encfail":
			startIdx[atoi(f[2])] = i
		case "resp":
			k := atoi(f[1])
			if _, seen := respIdx[k]; !seen && f[2] != "dup" {
				respIdx[k], respKind[k] = i, f[2]
			}
		case "cancel":
			if _, seen := cancelIdx[atoi(f[1])]; !seen {
				cancelIdx[atoi(f[1])] = i
			}
		case "wret":
			if f[2] == "err" {
				wretErrIdx[atoi(f[1])] = i
			}
		}
	}
	// The connection has ended for the library when its reader has swept; while the decode worker
	// is parked (gate `dec`) behind an EOF or a read error the reader is still draining the decode
	// queue and the connection is still open for new calls. A local Close refuses new calls at once.
	decParkedAt := func(i int) bool {
		if i < 0 || i >= len(r.obs) {
			return false
		}
		j := strings.Index(r.obs[i], "parked=[")
		if j < 0 {
			return false
		}
		k := strings.Index(r.obs[i][j:], "]")
		for _, key := range strings.Split(r.obs[i][j+8:j+k], ",") {
			if key == "dec" {
				return true
			}
		}
		return false
	}
	// closedWhileUndecoded(ri): the response fed at action ri joined the held decode queue and the
	// caller closed the connection itself while it was still there
	closedWhileUndecoded := func(ri int) bool {
		if !decParkedAt(ri) {
			return false
		}
		for i := ri + 1; i < len(r.actions); i++ {
			if !decParkedAt(i) {
				return false
			}
			if r.actions[i] == "close" {
				return true
			}
		}
		return false
	}
	refuseIdx := endIdx // from here on new calls must be refused
	if endIdx >= 0 && endKind != "close" {
		for refuseIdx < len(r.obs)-1 && decParkedAt(refuseIdx) {
			refuseIdx++
		}
	}
	ended := endIdx >= 0
	last := len(r.actions) - 1
	for _, k := range e.order {
		c := e.calls[k]
		async := c.form == "go" || c.form == "rt"
		if async && c.nDone > 1 {
			add("C02", "completed-at-most-once", "C02/double-completion/"+c.form, fmt.Sprintf("call %d (%s) was signalled %d times on its Done channel (errors at each signal: %v)", k, c.form, c.nDone, c.errAt))
		}
		di, completed := r.doneIdx[k]
		if ended && !completed && r.stuck == "" {
			add("C03", "no-caller-hangs", "C03/hang/"+c.form+"/"+endKind, fmt.Sprintf("call %d (%s) never completed although the connection ended (%s) and every gate was released", k, c.form, endKind))
		}
		if !completed {
			continue
		}
		errClass := r.doneErr[k]
		var now string
		if async {
			now = "nil"
			if c.call != nil {
				now = classify(c.call.Error)
			}
		} else {
			now = classify(c.retErr)
		}
		if now != errClass {
			if strings.HasPrefix(errClass, "text:") {
				add("C06", "error-text-stable", "C06/error-text-unstable/"+sc.Hdr, fmt.Sprintf("call %d: error read %s at completion and %s after further traffic", k, errClass, now))
			} else {
				add("C02", "error-stable-after-completion", "C02/error-rewritten/"+c.form, fmt.Sprintf("call %d: Error was %s when completion was signalled and is %s now", k, errClass, now))
			}
		}
		si := startIdx[k]
		startedAfterEnd := ended && si > refuseIdx
		if ci0, c0 := cancelIdx[k]; startedAfterEnd && c0 && c.form == "ctx" && ci0 <= di && errClass == "canceled" {
			continue
		}
		if startedAfterEnd {
			if errClass != "shutdown" {
				add("C03", "refused-after-end", "C03/late-call-not-refused/"+c.form, fmt.Sprintf("call %d started after the connection ended (%s) completed with %s, want ErrShutdown", k, endKind, errClass))
			}
			if c.written {
				add("C03", "refused-after-end", "C03/late-call-written/"+c.form, fmt.Sprintf("call %d started after the connection ended was still written to the wire", k))
			}
			continue
		}
		ri, responded := respIdx[k]
		ci, cancelled := cancelIdx[k]
		wi, wfailed := wretErrIdx[k]
		cancelFirst := cancelled && c.form == "ctx" && ci <= di
		writeFailedFirst := wfailed && wi <= di
		// what the first response fed for this call says it should complete with
		want := ""
		if responded && ri <= di {
			switch {
			case strings.HasPrefix(respKind[k], "err:"):
				want = classifyText(errText(k, atoi(strings.TrimPrefix(respKind[k], "err:"))))
			case respKind[k] == "shutdownmsg":
				want = "shutdown"
			case respKind[k] == "badbody":
				want = "bodyerr"
			default:
				want = "nil"
			}
		}
		switch {
		case cancelFirst && errClass == "canceled":
		case writeFailedFirst && errClass == "wfail":
		case c.failEnc:
			if errClass != "encfail" && !(errClass == "shutdown" && ended && endIdx <= di) {
				add("C06", "encode-failure-fails-call", "C06/encfail-error", fmt.Sprintf("call %d whose args cannot be encoded completed with %s", k, errClass))
			}
		case want != "" && (!ended || ri < endIdx):
			// C03 (received before the cut) / C01 / C06: the outcome is the one that was sent for this call
			if errClass != want {
				switch {
				case ended && closedWhileUndecoded(ri) && (errClass == "shutdown" || errClass == "rfail"):
					// the response was still undecoded when the caller itself closed the connection:
					// a local Close abandons what has not been handed to its call yet (DESIGN.md, C03)
				case ended && (errClass == "shutdown" || errClass == "rfail" || errClass == "eof"):
					add("C03", "received-response-survives", "C03/received-response-lost/"+mode, fmt.Sprintf("call %d: its response (%s) had been returned by ReadMessage before the connection ended (%s), yet it completed with %s", k, respKind[k], endKind, errClass))
				case strings.HasPrefix(want, "text:"):
					add("C06", "error-text-verbatim", "C06/error-text/"+sc.Hdr, fmt.Sprintf("call %d: completed with %s, want the server's error text %s", k, errClass, want))
				default:
					add("C01", "outcome-is-own", "C01/wrong-outcome/"+mode, fmt.Sprintf("call %d: completed with %s although the response sent for it was %s", k, errClass, respKind[k]))
				}
			}
		case !c.written && strings.HasPrefix(errClass, "other:") && !c.failEnc:
			// C07: the request of a call whose arguments encode never reached the wire and the call
			// failed with an error nobody scripted: the header could not be encoded
			add("C07", "large-header-is-encoded", "C07/request-not-encoded/"+sc.Hdr, fmt.Sprintf("call %d (%s): no request frame was written, the call failed with %s", k, c.form, errClass))
		case errClass == "nil" || strings.HasPrefix(errClass, "text:"):
			add("C01", "no-phantom-completion", "C01/phantom-completion/"+mode, fmt.Sprintf("call %d completed with %s although no response had been sent for it", k, errClass))
			if len(cancelIdx) > 0 {
				// C19: the late response of an abandoned call must not complete another call
				add("C19", "late-response-harmless", "C19/late-response-completed-another-call/"+mode, fmt.Sprintf("call %d completed with %s although no response had been sent for it, in a scenario where a cancelled call's response arrived late", k, errClass))
			}
		}
		// reply object: own on success, untouched on failure
		rs := c.replyState()
		if errClass == "nil" && c.form != "ping" && want == "nil" && respKind[k] == "ok" && rs != "own" && rs != "any" {
			add("C01", "reply-is-own", "C01/wrong-reply/"+mode, fmt.Sprintf("call %d completed without error but its reply is not H(own args) (state %s)", k, rs))
		}
		if strings.HasPrefix(errClass, "text:") && rs != "none" && rs != "any" {
			add("C06", "reply-untouched-on-error", "C06/reply-clobbered", fmt.Sprintf("call %d failed with %s but its reply object was written (%s)", k, errClass, rs))
		}
		if rs == "bad" {
			add("C01", "reply-is-own", "C01/wrong-reply/"+mode, fmt.Sprintf("call %d holds a reply that is not H(own args)", k))
		}
		// C19: cancellation of a not-yet-completed call returns at once with the context's error
		if c.form == "ctx" && cancelled {
			if ci < di {
				add("C19", "cancel-returns-promptly", "C19/cancel-late", fmt.Sprintf("call %d: context cancelled at action %d, call returned only at action %d (%s)", k, ci, di, errClass))
			} else if ci == di && errClass != "canceled" {
				add("C19", "cancel-returns-ctx-error", "C19/cancel-result", fmt.Sprintf("call %d: returned %s at the action that cancelled its context", k, errClass))
			}
		}
		if c.form == "ctx" && c.ctxCap > 0 {
			for _, b := range c.ctxBuf[c.ctxCap:] {
				if b != 0xC5 {
					add("C19", "context-buffer-bounds", "C19/ctxbuf-overrun", fmt.Sprintf("call %d: bytes beyond the supplied buffer's capacity were written", k))
					break
				}
			}
			used := 0
			if errClass == "nil" && len(c.want) <= c.ctxCap && want == "nil" && respKind[k] == "ok" {
				used = len(c.want)
			}
			if used > 0 && string(c.ctxBuf[:used]) != string(c.want) {
				add("C19", "context-buffer-used", "C19/ctxbuf-not-used", fmt.Sprintf("call %d: the supplied buffer (cap %d) is large enough for the %d-byte reply but does not hold it", k, c.ctxCap, used))
			}
			for i := used; i < c.ctxCap; i++ {
				if c.ctxBuf[i] != 0xC5 {
					if errClass == "bodyerr" {
						// the reply bytes were put into the supplied buffer and then refused by the body
						// codec: the buffer holds them, which is what it was supplied for
						break
					}
					if errClass == "canceled" {
						// observation, not a violation: the late response of an abandoned call is still
						// decoded into that call's own buffer/reply (the property only protects other calls)
						r.notes = append(r.notes, "late-write-into-abandoned-call")
					} else {
						add("C19", "context-buffer-bounds", "C19/ctxbuf-dirty", fmt.Sprintf("call %d: supplied buffer (cap %d, reply %d bytes, outcome %s) modified at offset %d beyond the reply", k, c.ctxCap, len(c.want), errClass, i))
					}
					break
				}
			}
		}
	}
	for k := range cancelIdx {
		c := e.calls[k]
		if _, done := r.doneIdx[k]; c != nil && c.form == "ctx" && !done && r.stuck == "" {
			add("C19", "cancel-returns-promptly", "C19/cancel-hang", fmt.Sprintf("call %d did not return after its context was cancelled", k))
		}
	}
	// C06: encode failure leaves no residue — NumCalls right after the failing call equals before
	for i, a := range r.actions {
		if strings.HasPrefix(a, "encfail") && i > 0 {
			if nc(r.obs[i]) != nc(r.obs[i-1]) {
				add("C06", "encode-failure-no-residue", "C06/encfail-residue", fmt.Sprintf("NumCalls changed from %s to %s across a call whose request could not be encoded", nc(r.obs[i-1]), nc(r.obs[i])))
			}
		}
	}
	// C03: after the connection ended and everything drained, nothing is outstanding
	if ended && r.stuck == "" && last >= 0 && strings.HasPrefix(r.actions[last], "drain") {
		abandoned := 0
		for k := range cancelIdx {
			if c := e.calls[k]; c != nil && c.form == "ctx" {
				abandoned++
			}
		}
		_ = abandoned
	}
	// C05 (client): with pipelining, Go calls issued by one goroutine are signalled in issue order
	inOrderServer := true
	{
		// the client can only keep issue order if the server answers in request order:
		// every first response must be for the earliest written, still unanswered call
		answered := map[int]bool{}
		for i, a := range r.actions {
			f := strings.Fields(a)
			if f[0] != "resp" || f[2] == "dup" {
				continue
			}
			k := atoi(f[1])
			if answered[k] {
				continue
			}
			for _, j := range e.order {
				if j == k {
					break
				}
				cj := e.calls[j]
				if cj.written && !answered[j] && startIdx[j] < i {
					if dj, done := r.doneIdx[j]; !done || dj >= i {
						inOrderServer = false
					}
				}
			}
			answered[k] = true
		}
	}
	if sc.Pipe && inOrderServer {
		pos := map[int]int{}
		for i, k := range e.order {
			pos[k] = i
		}
		lastPos := -1
		for _, k := range e.arrivals {
			c := e.calls[k]
			if c == nil || (c.form != "go" && c.form != "rt") {
				continue
			}
			if _, wf := wretErrIdx[k]; wf || c.failEnc || !c.written {
				continue // local failures (request never reached the wire: write or encode failure, refusal after Close / shutdown) complete at once
			}
			if pos[k] < lastPos {
				add("C05", "client-completion-order", "C05/client-order/"+fmt.Sprintf("dio%d", b2i(sc.DirectIO)), fmt.Sprintf("completions arrived in order %v but the calls were issued in order %v", e.arrivals, e.order))
				break
			}
			lastPos = pos[k]
		}
	}
	if r.stuck != "" {
		add("C03", "quiescence", "C03/not-quiescent", "the connection did not become quiescent within 3 s after action "+r.stuck)
	}
	return out
}

func classifyText(s string) string { return classify(fmt.Errorf("%s", s)) }

func nc(obs string) string {
	f := strings.Fields(obs)
	if len(f) > 1 {
		return f[1]
	}
	return ""
}

// ---- scripts ----

func connCorpus() []connScenario {
	var out []connScenario
	modes := []struct{ d, p bool }{{false, false}, {true, false}, {false, true}, {true, true}}
	hdrs := []string{"default", "code", "pb", "json"}
	for mi, m := range modes {
		h := hdrs[mi%len(hdrs)]
		mk := func(name string, acts ...string) {
			out = append(out, connScenario{Hdr: h, DirectIO: m.d, Pipe: m.p, Actions: append(acts, "drain"), Name: name})
		}
		// D1: reader error sweeps while a write is in progress, then the write fails
		mk("sweep-then-write-fails", "go 1 32 8 1 0", "rerr", "wret 1 err", "probe")
		mk("eof-then-write-fails", "go 1 32 8 1 0", "eof", "wret 1 err", "probe")
		mk("eof-then-write-ok", "go 1 32 8 1 0", "eof", "wret 1 ok", "probe")
		mk("write-fails-then-eof", "go 1 32 8 1 0", "wret 1 err", "eof", "probe")
		mk("response-before-write-returns", "go 1 32 8 1 0", "resp 1 ok", "wret 1 ok", "probe", "eof")
		mk("response-then-write-fails", "go 1 32 8 1 0", "resp 1 ok", "wret 1 err", "probe", "eof")
		// D2: response received, then EOF
		mk("response-then-eof", "go 1 32 8 0 0", "go 2 32 8 0 0", "resp 1 ok", "eof", "probe")
		mk("response-body-held-then-eof", "go 1 32 8 0 1", "resp 1 ok", "eof", "brel 1", "probe")
		mk("error-response-then-eof", "call 1 32 8 0 0", "resp 1 err:40", "eof", "probe")
		if !m.d {
			// responses read from the socket but still in the decode queue when the stream ends
			mk("decode-held-then-eof", "go 1 32 8 0 0", "go 2 32 8 0 0", "go 3 32 8 0 0", "holddec", "resp 1 ok", "resp 2 ok", "eof", "probe", "reldec", "probe")
			mk("decode-held-then-rerr", "call 1 32 8 0 0", "go 2 32 8 0 0", "holddec", "resp 2 err:20", "resp 1 ok", "rerr", "probe", "reldec", "probe")
			mk("decode-held-then-close", "go 1 32 8 0 0", "rt 2 32 8 0 0", "holddec", "resp 1 ok", "close", "probe", "reldec", "probe")
		}
		// duplicates and strays
		mk("duplicate-response", "go 1 32 8 0 0", "go 2 32 8 0 0", "resp 1 ok", "dup 1", "resp 1 dup", "resp 2 ok", "unk", "junk 0", "junk 1", "probe", "eof")
		mk("stray-then-real", "go 1 32 8 0 0", "unk", "junk 3", "resp 1 ok", "probe", "close")
		// D3: pipelining order, success (body held) then failure
		mk("success-then-failure-order", "go 1 32 8 0 1", "go 2 32 8 0 0", "go 3 32 8 0 0", "resp 1 ok", "resp 2 err:20", "resp 3 ok", "brel 1", "probe", "eof")
		mk("failure-between-successes", "go 1 32 8 0 0", "go 2 32 8 0 1", "go 3 32 8 0 0", "go 4 32 8 0 0", "resp 1 ok", "resp 2 ok", "resp 3 err:10", "resp 4 empty", "brel 2", "probe", "eof")
		// D4: error text stability
		mk("error-text-then-traffic", "go 1 32 8 0 0", "resp 1 err:300", "go 2 32 400 0 0", "resp 2 ok", "go 3 32 300 0 0", "resp 3 ok", "call 4 32 200 0 0", "resp 4 err:64", "go 5 40 500 0 0", "resp 5 ok", "probe", "eof")
		// close races
		mk("close-with-calls", "go 1 32 8 0 0", "call 2 32 8 0 0", "ping 3 0 0 0 0", "close", "go 4 32 8 0 0", "call 5 32 8 0 0", "close", "probe")
		mk("close-while-write-held", "go 1 32 8 1 0", "close", "wret 1 ok", "go 2 32 8 0 0", "probe")
		mk("late-calls-after-eof", "go 1 32 8 0 0", "eof", "go 2 32 8 0 0", "call 3 32 8 0 0", "ping 4 0 0 0 0", "rt 5 32 8 0 0", "ctx 6 32 8 0 0 0", "probe")
		// headers larger than the pooled write buffer (64 KiB by default)
		mk("header-larger-than-the-write-buffer", "go 1 65480 8 0 0", "call 2 70000 8 0 0", "go 3 32 70000 0 0", "rt 4 131072 8 0 0", "resp 1 ok", "resp 2 ok", "resp 3 ok", "resp 4 ok", "go 5 32 8 0 0", "resp 5 ok", "probe", "eof")
		// a reply body the body codec cannot decode into the caller's Reply: an error for that call, once
		mk("undecodable-reply", "go 1 32 8 0 0", "rt 2 32 8 0 0", "call 3 32 8 0 0", "ctx 4 32 8 0 0 64", "resp 2 badbody", "resp 1 badbody", "resp 4 badbody", "resp 3 badbody", "go 5 32 8 0 0", "resp 5 ok", "go 6 32 8 0 1", "resp 6 badbody", "brel 6", "probe", "eof")
		// encode failure
		mk("encode-failure", "go 1 32 8 0 0", "encfail go 2", "encfail call 3", "resp 1 ok", "probe", "eof")
		// context
		mk("cancel-unanswered", "ctx 1 32 8 0 0 0", "go 2 32 8 0 0", "cancel 1", "resp 2 ok", "resp 1 ok", "go 3 32 8 0 0", "resp 3 ok", "probe", "eof")
		mk("cancel-after-response", "ctx 1 32 8 0 0 0", "resp 1 ok", "cancel 1", "probe", "eof")
		mk("ctx-buffer-exact", "ctx 1 32 64 0 0 64", "resp 1 ok", "ctx 2 32 64 0 0 63", "resp 2 ok", "ctx 3 32 64 0 0 65", "resp 3 ok", "ctx 4 32 0 0 0 16", "resp 4 empty", "probe", "eof")
		mk("ctx-cancel-while-body-held", "ctx 1 32 8 0 1 0", "resp 1 ok", "cancel 1", "brel 1", "go 2 32 8 0 0", "resp 2 ok", "probe", "eof")
		mk("ping-mix", "ping 1 0 0 0 0", "go 2 32 8 0 0", "resp 2 ok", "resp 1 empty", "ping 3 0 0 1 0", "eof", "wret 3 err", "probe")
		mk("shutdown-text", "call 1 32 8 0 0", "resp 1 shutdownmsg", "go 2 32 8 0 0", "resp 2 ok", "probe", "eof")
		mk("rt-basic", "rt 1 32 8 0 0", "rt 2 32 8 1 0", "resp 1 ok", "wret 2 err", "probe", "eof")
	}
	return out
}

// genConnScenario draws a random, mostly-valid script.
func genConnScenario(r *prng.R, tier string) connScenario {
	sc := connScenario{Hdr: []string{"default", "pb", "code", "json"}[r.Intn(4)], DirectIO: r.Chance(1, 3), Pipe: r.Chance(1, 2)}
	n := 8 + r.Intn(28)
	if tier == "thorough" && r.Chance(1, 5) {
		n = 40 + r.Intn(120)
	}
	type st struct {
		form                       string
		heldW, heldB, resp, cancel bool
	}
	calls := map[int]*st{}
	var ks []int
	next := 1
	ended := false
	decHeld := false
	pick := func(f func(*st) bool) int {
		var c []int
		for _, k := range ks {
			if f(calls[k]) {
				c = append(c, k)
			}
		}
		if len(c) == 0 {
			return -1
		}
		return c[r.Intn(len(c))]
	}
	for i := 0; i < n; i++ {
		x := r.Intn(100)
		switch {
		case x < 34:
			form := []string{"go", "go", "go", "call", "ctx", "rt", "ping"}[r.Intn(7)]
			k := next
			next++
			hw, hb := r.Chance(1, 4), r.Chance(1, 5)
			if ended {
				hw, hb = false, false
			}
			payload := []int{12, 16, 40, 127, 128, 200, 1000}[r.Intn(7)]
			replyLen := []int{0, 1, 8, 64, 127, 128, 300, 5000}[r.Intn(8)]
			if form == "ping" {
				sc.Actions = append(sc.Actions, fmt.Sprintf("ping %d 0 0 %d 0", k, b2i(hw)))
				hb = false
			} else if form == "ctx" {
				cp := []int{0, 0, replyLen, replyLen + 1, 16}[r.Intn(5)]
				if replyLen > 0 && r.Chance(1, 4) {
					cp = replyLen - 1
				}
				sc.Actions = append(sc.Actions, fmt.Sprintf("ctx %d %d %d %d %d %d", k, payload, replyLen, b2i(hw), b2i(hb), cp))
			} else {
				sc.Actions = append(sc.Actions, fmt.Sprintf("%s %d %d %d %d %d", form, k, payload, replyLen, b2i(hw), b2i(hb)))
			}
			calls[k] = &st{form: form, heldW: hw, heldB: hb}
			ks = append(ks, k)
		case x < 60:
			k := pick(func(s *st) bool { return !s.resp })
			if k < 0 {
				continue
			}
			if sc.Pipe && r.Chance(4, 5) {
				for _, j := range ks {
					if !calls[j].resp {
						k = j
						break
					}
				}
			}
			kind := "ok"
			if y := r.Intn(10); y < 3 {
				kind = fmt.Sprintf("err:%d", []int{8, 20, 127, 128, 300, 4000}[r.Intn(6)])
			} else if y == 3 {
				kind = "empty"
			} else if y == 4 && r.Chance(1, 2) {
				kind = "badbody"
			}
			if calls[k].form == "ping" {
				kind = "empty"
			}
			calls[k].resp = true
			sc.Actions = append(sc.Actions, fmt.Sprintf("resp %d %s", k, kind))
		case x < 70:
			k := pick(func(s *st) bool { return s.heldW })
			if k < 0 {
				continue
			}
			calls[k].heldW = false
			sc.Actions = append(sc.Actions, fmt.Sprintf("wret %d %s", k, []string{"ok", "ok", "err"}[r.Intn(3)]))
		case x < 78:
			k := pick(func(s *st) bool { return s.heldB && s.resp })
			if k < 0 {
				continue
			}
			calls[k].heldB = false
			sc.Actions = append(sc.Actions, fmt.Sprintf("brel %d", k))
		case x < 82:
			k := pick(func(s *st) bool { return s.resp })
			if k < 0 {
				continue
			}
			sc.Actions = append(sc.Actions, fmt.Sprintf("resp %d dup", k))
		case x < 85:
			sc.Actions = append(sc.Actions, "unk")
		case x < 87:
			sc.Actions = append(sc.Actions, fmt.Sprintf("junk %d", r.Intn(7)))
		case x < 91:
			k := pick(func(s *st) bool { return s.form == "ctx" && !s.cancel })
			if k < 0 {
				continue
			}
			calls[k].cancel = true
			sc.Actions = append(sc.Actions, fmt.Sprintf("cancel %d", k))
		case x < 93:
			k := next
			next++
			form := []string{"go", "call", "rt"}[r.Intn(3)]
			sc.Actions = append(sc.Actions, fmt.Sprintf("encfail %s %d", form, k))
		case x < 96:
			if !ended {
				sc.Actions = append(sc.Actions, []string{"eof", "rerr", "close"}[r.Intn(3)])
				ended = true
			} else if r.Chance(1, 2) {
				sc.Actions = append(sc.Actions, "close")
			}
		case x < 98:
			// park the decode worker at its next frame / let it go on
			if decHeld {
				decHeld = false
				sc.Actions = append(sc.Actions, "reldec")
			} else if !sc.DirectIO {
				decHeld = true
				sc.Actions = append(sc.Actions, "holddec")
			}
		default:
			sc.Actions = append(sc.Actions, "probe")
		}
	}
	// drain: release what is still held, then end the connection so that "completes exactly once" is decidable
	for _, k := range ks {
		if calls[k].heldW {
			sc.Actions = append(sc.Actions, fmt.Sprintf("wret %d %s", k, []string{"ok", "err"}[r.Intn(2)]))
		}
	}
	for _, k := range ks {
		if calls[k].heldB && calls[k].resp {
			sc.Actions = append(sc.Actions, fmt.Sprintf("brel %d", k))
		}
	}
	sc.Actions = append(sc.Actions, "drain")
	if !ended {
		sc.Actions = append(sc.Actions, []string{"eof", "close", "rerr"}[r.Intn(3)])
	}
	sc.Actions = append(sc.Actions, "drain")
	return sc
}

func connScenarios(seed uint64, tier string) []connScenario {
	r := prng.New(seed ^ 0x434f4e4e)
	var scs []connScenario
	scs = append(scs, connCorpus()...)
	n := 300
	if tier == "thorough" {
		n = 6000
	}
	for i := 0; i < n; i++ {
		scs = append(scs, genConnScenario(r.Fork(), tier))
	}
	return scs
}

func runOneConn(i int, sc connScenario) *scenarioOut {
	if os.Getenv("CORR_DEBUG") != "" {
		fmt.Fprintf(os.Stderr, "scenario %d %s %s %v\n", i, sc.Name, sc.header(), sc.Actions)
	}
	res := runConnScenario(sc)
	if os.Getenv("CORR_DEBUG") != "" {
		for j, a := range res.actions {
			fmt.Fprintf(os.Stderr, "  %s\n      %s\n", a, res.obs[j])
		}
	}
	out := &scenarioOut{Counters: map[string]int{}}
	inl := []string{sc.header()}
	iml := []string{"ok"}
	for j, a := range res.actions {
		inl = append(inl, a)
		iml = append(iml, res.obs[j])
	}
	out.Streams = map[string][2][]string{"k": {inl, iml}}
	out.Key = fmt.Sprintf("%s %v %v %s", sc.Hdr, sc.DirectIO, sc.Pipe, strings.Join(shapeOf(res.actions), " "))
	out.Counters["actions"] = len(res.actions)
	for _, a := range res.actions {
		out.Counters["action."+strings.Fields(a)[0]]++
	}
	out.Counters[fmt.Sprintf("mode.dio%d.pipe%d", b2i(sc.DirectIO), b2i(sc.Pipe))]++
	out.Counters["hdr."+sc.Hdr]++
	if i%97 == 0 {
		out.Sample = map[string]interface{}{"scenario": sc, "observations": res.obs}
	}
	vs := checkConn(sc, res)
	for _, n := range res.notes {
		out.Counters["note."+n]++
	}
	for _, v := range vs {
		out.Violations = append(out.Violations, rep.Violation{Property: v.prop, Monitor: v.monitor, Key: v.key, What: v.what,
			Replay: map[string]interface{}{"component": "conn", "index": i, "scenario": sc, "executed_actions": res.actions, "observations": res.obs, "trace": res.env.hub.Trace()}})
	}
	t0 := time.Now()
	res.env.finish()
	if os.Getenv("CORR_DEBUG") != "" && time.Since(t0) > 50*time.Millisecond {
		fmt.Fprintf(os.Stderr, "   SLOW finish %v busy=%s\n", time.Since(t0), gate.LastBusy)
	}
	return out
}

func runConn(dir string, seed uint64, tier, only, replay string) *rep.Report {
	rp := rep.New("conn", seed, tier)
	scs := connScenarios(seed, tier)
	if workerRange != "" {
		var from, to int
		fmt.Sscanf(workerRange, "%d:%d", &from, &to)
		workerMain(len(scs), from, to, func(i int) interface{} { return scs[i] }, func(i int) *scenarioOut { return runOneConn(i, scs[i]) })
		os.Exit(0)
	}
	if only != "" {
		for i, sc := range scs {
			if only == sc.Name || only == fmt.Sprint(i) {
				runOneConn(i, sc)
			}
		}
		return rp
	}
	parentLoop("conn", dir, len(scs), []string{"-out", dir, "-seed", fmt.Sprint(seed), "-tier", tier}, rp, []string{"k"}, []string{"C08", "C02"}, 20*time.Second)
	return rp
}

// shapeOf abstracts a script to its action kinds (distinctness of scenarios).
func shapeOf(actions []string) []string {
	out := make([]string, len(actions))
	for i, a := range actions {
		f := strings.Fields(a)
		out[i] = f[0]
		if f[0] == "resp" || f[0] == "wret" {
			out[i] += ":" + strings.SplitN(f[2], ":", 2)[0]
		}
	}
	return out
}

func init() { components["conn"] = runConn }
