package main

// wire: differential correspondence + monitors for the header encoders/decoders and the
// upgrade byte (model component W; properties C07, C08-decoding).
//
// For every generated case the real exported API is called in-process (with recover) and one
// canonical line is written to impl.txt; the same case is written to inputs.txt for the Lean
// driver. Monitors (round-trip, byte-exact documented format via an independent reference
// encoder, no panic, no over-read, scratch independence, JSON keys) look only at the
// implementation.

import (
	"bytes"
	"encoding/hex"
	"encoding/json"
	"fmt"
	"os"
	"path/filepath"
	"strings"
	"unicode/utf8"

	"github.com/hslam/rpc"
	"verifharness/internal/prng"
	"verifharness/internal/rep"
)

type reqVal struct {
	Seq                   uint64
	Upgrade, Method, Args []byte
}
type resVal struct {
	Seq        uint64
	Err, Reply []byte
}

func hx(b []byte) string {
	if len(b) == 0 {
		return "-"
	}
	return hex.EncodeToString(b)
}

func short(b []byte) string {
	if len(b) <= 24 {
		return hx(b)
	}
	return fmt.Sprintf("%s…(%d bytes)", hex.EncodeToString(b[:24]), len(b))
}

// ---- reference (documented format), written from the format description only ----

func refVarint(v uint64) []byte {
	var out []byte
	for v >= 128 {
		out = append(out, byte(v)|0x80)
		v >>= 7
	}
	return append(out, byte(v))
}

func refPbReq(r reqVal) []byte {
	var out []byte
	if r.Seq != 0 {
		out = append(out, 1<<3|0)
		out = append(out, refVarint(r.Seq)...)
	}
	for i, f := range [][]byte{r.Upgrade, r.Method, r.Args} {
		if len(f) > 0 {
			out = append(out, byte((i+2)<<3|2))
			out = append(out, refVarint(uint64(len(f)))...)
			out = append(out, f...)
		}
	}
	return out
}

func refPbRes(r resVal) []byte {
	var out []byte
	if r.Seq != 0 {
		out = append(out, 1<<3|0)
		out = append(out, refVarint(r.Seq)...)
	}
	for i, f := range [][]byte{r.Err, r.Reply} {
		if len(f) > 0 {
			out = append(out, byte((i+2)<<3|2))
			out = append(out, refVarint(uint64(len(f)))...)
			out = append(out, f...)
		}
	}
	return out
}

func refCodeReq(r reqVal) []byte {
	out := refVarint(r.Seq)
	for _, f := range [][]byte{r.Upgrade, r.Method, r.Args} {
		out = append(out, refVarint(uint64(len(f)))...)
		out = append(out, f...)
	}
	return out
}

func refCodeRes(r resVal) []byte {
	out := refVarint(r.Seq)
	for _, f := range [][]byte{r.Err, r.Reply} {
		out = append(out, refVarint(uint64(len(f)))...)
		out = append(out, f...)
	}
	return out
}

// ---- calling the implementation ----

type outcome struct {
	kind string // ok | err | panic
	data []byte
	req  reqVal
	res  resVal
	msg  string
}

func implEncReq(h string, r reqVal, scratch []byte) (o outcome) {
	defer func() {
		if p := recover(); p != nil {
			o = outcome{kind: "panic", msg: fmt.Sprint(p)}
		}
	}()
	enc := rpc.NewHeaderEncoder(h)()
	req := enc.NewRequest()
	req.SetSeq(r.Seq)
	req.SetUpgrade(r.Upgrade)
	req.SetServiceMethod(string(r.Method))
	req.SetArgs(r.Args)
	data, err := enc.NewCodec().Marshal(scratch, req)
	if err != nil {
		return outcome{kind: "err", msg: err.Error()}
	}
	return outcome{kind: "ok", data: append([]byte(nil), data...)}
}

func implEncRes(h string, r resVal, scratch []byte) (o outcome) {
	defer func() {
		if p := recover(); p != nil {
			o = outcome{kind: "panic", msg: fmt.Sprint(p)}
		}
	}()
	enc := rpc.NewHeaderEncoder(h)()
	res := enc.NewResponse()
	res.SetSeq(r.Seq)
	res.SetError(string(r.Err))
	res.SetReply(r.Reply)
	data, err := enc.NewCodec().Marshal(scratch, res)
	if err != nil {
		return outcome{kind: "err", msg: err.Error()}
	}
	return outcome{kind: "ok", data: append([]byte(nil), data...)}
}

// slice with data = frame and capacity continuing with extra
func withExtra(frame, extra []byte) []byte {
	buf := make([]byte, len(frame)+len(extra))
	copy(buf, frame)
	copy(buf[len(frame):], extra)
	return buf[:len(frame)]
}

func implDecReq(h string, frame, extra []byte) (o outcome) {
	defer func() {
		if p := recover(); p != nil {
			o = outcome{kind: "panic", msg: fmt.Sprint(p)}
		}
	}()
	enc := rpc.NewHeaderEncoder(h)()
	req := enc.NewRequest()
	req.Reset()
	if err := enc.NewCodec().Unmarshal(withExtra(frame, extra), req); err != nil {
		return outcome{kind: "err", msg: err.Error()}
	}
	return outcome{kind: "ok", req: reqVal{req.GetSeq(), clone(req.GetUpgrade()), []byte(req.GetServiceMethod()), clone(req.GetArgs())}}
}

func implDecRes(h string, frame, extra []byte) (o outcome) {
	defer func() {
		if p := recover(); p != nil {
			o = outcome{kind: "panic", msg: fmt.Sprint(p)}
		}
	}()
	enc := rpc.NewHeaderEncoder(h)()
	res := enc.NewResponse()
	res.Reset()
	if err := enc.NewCodec().Unmarshal(withExtra(frame, extra), res); err != nil {
		return outcome{kind: "err", msg: err.Error()}
	}
	return outcome{kind: "ok", res: resVal{res.GetSeq(), []byte(res.GetError()), clone(res.GetReply())}}
}

func clone(b []byte) []byte { return append([]byte(nil), b...) }

func (o outcome) encLine() string {
	if o.kind == "ok" {
		return "ok " + hx(o.data)
	}
	return o.kind
}
func (o outcome) reqLine() string {
	if o.kind == "ok" {
		return fmt.Sprintf("ok %d %s %s %s", o.req.Seq, hx(o.req.Upgrade), hx(o.req.Method), hx(o.req.Args))
	}
	return o.kind
}
func (o outcome) resLine() string {
	if o.kind == "ok" {
		return fmt.Sprintf("ok %d %s %s", o.res.Seq, hx(o.res.Err), hx(o.res.Reply))
	}
	return o.kind
}

func eqReq(a, b reqVal) bool {
	return a.Seq == b.Seq && bytes.Equal(a.Upgrade, b.Upgrade) && bytes.Equal(a.Method, b.Method) && bytes.Equal(a.Args, b.Args)
}
func eqRes(a, b resVal) bool {
	return a.Seq == b.Seq && bytes.Equal(a.Err, b.Err) && bytes.Equal(a.Reply, b.Reply)
}

// ---- generators ----

var seqBoundaries = []uint64{0, 1, 2, 127, 128, 129, 16383, 16384, 2097151, 2097152, 1<<28 - 1, 1 << 28, 1<<35 - 1, 1 << 35,
	1<<42 - 1, 1 << 42, 1<<49 - 1, 1 << 49, 1<<56 - 1, 1 << 56, 1<<63 - 1, 1 << 63, 1<<64 - 1, 1<<64 - 2}

func genSeq(r *prng.R) uint64 {
	switch r.Intn(4) {
	case 0:
		return seqBoundaries[r.Intn(len(seqBoundaries))]
	case 1:
		return uint64(r.Intn(70000))
	case 2:
		return r.U64() >> uint(r.Intn(64))
	default:
		return r.U64()
	}
}

var largeLeft, midLeft int

func genLen(r *prng.R, tier string, big bool) int {
	small := []int{0, 0, 1, 2, 5, 16, 64, 126, 127, 128, 129, 200, 255, 256}
	mid := []int{1000, 16382, 16383, 16384, 16385, 65535, 65536, 65537, 70000}
	large := []int{2097151, 2097152, 2097153, 3000000}
	x := r.Intn(100)
	switch {
	case x < 80 || !big:
		return small[r.Intn(len(small))]
	case x < 98:
		if midLeft > 0 {
			midLeft--
			return mid[r.Intn(len(mid))]
		}
		return small[r.Intn(len(small))]
	default:
		if largeLeft > 0 {
			largeLeft--
			return large[r.Intn(len(large))]
		}
		return small[r.Intn(len(small))]
	}
}

func genBytes(r *prng.R, n int, utf bool) []byte {
	if n == 0 {
		return nil
	}
	if utf {
		// valid UTF-8 of exactly n bytes: ASCII with a few multi-byte runes where they fit
		out := make([]byte, 0, n)
		for len(out) < n {
			left := n - len(out)
			c := r.Intn(20)
			switch {
			case c == 0 && left >= 3:
				out = append(out, "€"...)
			case c == 1 && left >= 2:
				out = append(out, "é"...)
			case c == 2 && left >= 4:
				out = append(out, "😀"...)
			case c == 3:
				out = append(out, []byte{'"', '\\', '<', '>', '&', '\n', 0x01, 0x7f}[r.Intn(8)])
			case c == 4 && left >= 3:
				out = append(out, " "...)
			default:
				out = append(out, byte(32+r.Intn(95)))
			}
		}
		return out
	}
	if n > 4096 {
		// large payloads: a repeated random block (cheap to generate, still position-sensitive)
		blk := r.Bytes(251)
		out := make([]byte, n)
		for i := range out {
			out[i] = blk[i%251] ^ byte(i>>8)
		}
		return out
	}
	return r.Bytes(n)
}

func genUpgrade(r *prng.R) []byte {
	switch r.Intn(10) {
	case 0, 1, 2:
		return nil
	case 3, 4, 5, 6:
		return []byte{byte(r.Intn(2))<<7 + byte(r.Intn(2))<<6 + byte(r.Intn(2))<<5 + byte(r.Intn(4))<<3}
	case 7:
		return r.Bytes(1)
	case 8:
		return r.Bytes(1 + r.Intn(4))
	default:
		return r.Bytes([]int{127, 128, 300}[r.Intn(3)])
	}
}

func genReq(r *prng.R, tier string, utf bool) reqVal {
	v := reqVal{Seq: genSeq(r), Upgrade: genUpgrade(r)}
	v.Method = genBytes(r, genLen(r, tier, r.Chance(1, 10)), true)
	v.Args = genBytes(r, genLen(r, tier, true), false)
	_ = utf
	return v
}

func genRes(r *prng.R, tier string) resVal {
	v := resVal{Seq: genSeq(r)}
	if r.Chance(1, 2) {
		v.Err = genBytes(r, genLen(r, tier, r.Chance(1, 4)), true)
	}
	v.Reply = genBytes(r, genLen(r, tier, true), false)
	return v
}

type wireRun struct {
	rp     *rep.Report
	inputs map[string]*rep.Lines
	impl   map[string]*rep.Lines
	r      *prng.R
	tier   string
}

// emit writes one case to the stream of the property it belongs to ("c07": valid values and
// the flag table; "c08": malformed frames), so that a divergence is attributed correctly.
func (w *wireRun) emit(stream, in, out string) {
	w.inputs[stream].Println(in)
	w.impl[stream].Println(out)
}

func bucket(n int) string {
	switch {
	case n == 0:
		return "0"
	case n < 128:
		return "1-127"
	case n < 16384:
		return "128-16383"
	case n < 2097152:
		return "16384-2M"
	default:
		return ">=2M"
	}
}

func (w *wireRun) encDecReq(h string, v reqVal) {
	size := 44 + len(v.Upgrade) + len(v.Method) + len(v.Args)
	caps := []int{0, 1, size - 5, size - 1, size, size + 1, 65536}
	cp := caps[w.r.Intn(len(caps))]
	if cp < 0 {
		cp = 0
	}
	fill := []int{0, 0xff, 0xaa, 0x80}[w.r.Intn(4)]
	scratch := bytes.Repeat([]byte{byte(fill)}, cp)
	o := implEncReq(h, v, scratch[:0])
	key := fmt.Sprintf("enc %s req s%d u%d m%s a%s c%d", h, len(refVarint(v.Seq)), len(v.Upgrade), bucket(len(v.Method)), bucket(len(v.Args)), sign(cp-size))
	w.rp.Case(key)
	w.rp.Count("enc." + h + ".req." + o.kind)
	w.rp.Count("args-len." + bucket(len(v.Args)))
	if h != "json" {
		w.emit("c07", fmt.Sprintf("enc %s req %d %s %s %s %d %d", h, v.Seq, hx(v.Upgrade), hx(v.Method), hx(v.Args), cp, fill), o.encLine())
	}
	w.rp.Sample(map[string]interface{}{"op": "enc+dec", "header": h, "kind": "request", "seq": v.Seq, "upgrade": hx(v.Upgrade), "method_len": len(v.Method), "args_len": len(v.Args), "scratch_cap": cp, "scratch_fill": fill})
	replay := map[string]interface{}{"op": "enc-req", "header": h, "seq": v.Seq, "upgrade": hx(v.Upgrade), "method": hx(v.Method), "args": short(v.Args), "args_len": len(v.Args), "scratch_cap": cp, "scratch_fill": fill}
	if o.kind != "ok" {
		w.rp.Violate(rep.Violation{Property: "C07", Monitor: "encode-succeeds", Key: "C07/encode/" + h + "/req/" + o.kind, What: "request header encoder " + o.kind + ": " + o.msg, Replay: replay})
		return
	}
	var ref []byte
	switch h {
	case "pb":
		ref = refPbReq(v)
	case "code":
		ref = refCodeReq(v)
	}
	if ref != nil && !bytes.Equal(ref, o.data) {
		replay["got"] = short(o.data)
		replay["documented"] = short(ref)
		w.rp.Violate(rep.Violation{Property: "C07", Monitor: "documented-format", Key: "C07/format/" + h + "/req", What: "request bytes differ from the documented format", Replay: replay})
	}
	if h == "json" {
		w.checkJSONKeys(o.data, []string{"i", "u", "m", "p"}, replay)
	}
	extra := w.r.Bytes(w.r.Intn(40))
	d := implDecReq(h, o.data, extra)
	if h != "json" {
		w.emit("c07", fmt.Sprintf("dec %s req %s %s", h, hx(o.data), hx(extra)), d.reqLine())
	}
	w.rp.Count("dec." + h + ".req." + d.kind)
	if d.kind != "ok" || !eqReq(d.req, v) {
		replay["decoded"] = d.reqLine()
		w.rp.Violate(rep.Violation{Property: "C07", Monitor: "round-trip", Key: "C07/roundtrip/" + h + "/req", What: "decode(encode(request)) differs from the request", Replay: replay})
	}
}

func sign(x int) int {
	if x < 0 {
		return -1
	}
	if x > 0 {
		return 1
	}
	return 0
}

func (w *wireRun) encDecRes(h string, v resVal) {
	size := 33 + len(v.Err) + len(v.Reply)
	caps := []int{0, 1, size - 4, size - 1, size, size + 1, 65536}
	cp := caps[w.r.Intn(len(caps))]
	if cp < 0 {
		cp = 0
	}
	fill := []int{0, 0xff, 0xaa, 0x80}[w.r.Intn(4)]
	scratch := bytes.Repeat([]byte{byte(fill)}, cp)
	o := implEncRes(h, v, scratch[:0])
	key := fmt.Sprintf("enc %s res s%d e%s r%s c%d", h, len(refVarint(v.Seq)), bucket(len(v.Err)), bucket(len(v.Reply)), sign(cp-size))
	w.rp.Case(key)
	w.rp.Count("enc." + h + ".res." + o.kind)
	w.rp.Count("reply-len." + bucket(len(v.Reply)))
	if h != "json" {
		w.emit("c07", fmt.Sprintf("enc %s res %d %s %s %d %d", h, v.Seq, hx(v.Err), hx(v.Reply), cp, fill), o.encLine())
	}
	replay := map[string]interface{}{"op": "enc-res", "header": h, "seq": v.Seq, "error": short(v.Err), "reply": short(v.Reply), "reply_len": len(v.Reply), "scratch_cap": cp, "scratch_fill": fill}
	if o.kind != "ok" {
		w.rp.Violate(rep.Violation{Property: "C07", Monitor: "encode-succeeds", Key: "C07/encode/" + h + "/res/" + o.kind, What: "response header encoder " + o.kind + ": " + o.msg, Replay: replay})
		return
	}
	var ref []byte
	switch h {
	case "pb":
		ref = refPbRes(v)
	case "code":
		ref = refCodeRes(v)
	}
	if ref != nil && !bytes.Equal(ref, o.data) {
		replay["got"] = short(o.data)
		replay["documented"] = short(ref)
		w.rp.Violate(rep.Violation{Property: "C07", Monitor: "documented-format", Key: "C07/format/" + h + "/res", What: "response bytes differ from the documented format", Replay: replay})
	}
	if h == "json" {
		w.checkJSONKeys(o.data, []string{"i", "e", "r"}, replay)
	}
	extra := w.r.Bytes(w.r.Intn(40))
	d := implDecRes(h, o.data, extra)
	if h != "json" {
		w.emit("c07", fmt.Sprintf("dec %s res %s %s", h, hx(o.data), hx(extra)), d.resLine())
	}
	w.rp.Count("dec." + h + ".res." + d.kind)
	if d.kind != "ok" || !eqRes(d.res, v) {
		replay["decoded"] = d.resLine()
		w.rp.Violate(rep.Violation{Property: "C07", Monitor: "round-trip", Key: "C07/roundtrip/" + h + "/res", What: "decode(encode(response)) differs from the response", Replay: replay})
	}
}

func (w *wireRun) checkJSONKeys(data []byte, want []string, replay map[string]interface{}) {
	var m map[string]json.RawMessage
	if err := json.Unmarshal(data, &m); err != nil {
		w.rp.Violate(rep.Violation{Property: "C07", Monitor: "documented-format", Key: "C07/format/json/not-an-object", What: "json header is not a JSON object: " + err.Error(), Replay: replay})
		return
	}
	ok := len(m) == len(want)
	for _, k := range want {
		if _, has := m[k]; !has {
			ok = false
		}
	}
	if !ok {
		keys := []string{}
		for k := range m {
			keys = append(keys, k)
		}
		replay["keys"] = keys
		w.rp.Violate(rep.Violation{Property: "C07", Monitor: "documented-format", Key: "C07/format/json/keys", What: "json header keys differ from the documented " + strings.Join(want, ","), Replay: replay})
	}
}

// malformed stream: every truncation and selected single-byte substitutions of a valid frame,
// over-long length fields with and without stale bytes behind the frame, random bytes.
func (w *wireRun) malformed(h string, kind string, frame []byte, tag string) {
	dec := func(f, extra []byte, why string) {
		var o outcome
		var line string
		if kind == "req" {
			o = implDecReq(h, f, extra)
			line = o.reqLine()
		} else {
			o = implDecRes(h, f, extra)
			line = o.resLine()
		}
		w.rp.Case(fmt.Sprintf("mal %s %s %s len%s %s", h, kind, why, bucket(len(f)), o.kind))
		w.rp.Count("mal." + h + "." + kind + "." + o.kind)
		w.emit("c08", fmt.Sprintf("dec %s %s %s %s", h, kind, hx(f), hx(extra)), line)
		replay := map[string]interface{}{"op": "dec-" + kind, "header": h, "frame": short(f), "frame_len": len(f), "extra": short(extra), "derived": why + " of " + tag}
		if o.kind == "panic" {
			w.rp.Violate(rep.Violation{Property: "C08", Monitor: "decoder-no-panic", Key: "C08/decode-panic/" + h + "/" + kind, What: "header decoder panicked: " + o.msg, Replay: replay})
			return
		}
		// over-read: the outcome must not depend on what lies behind the frame
		extra2 := bytes.Repeat([]byte{0x5a}, len(extra)+64)
		var o2 outcome
		var line2 string
		if kind == "req" {
			o2 = implDecReq(h, f, extra2)
			line2 = o2.reqLine()
		} else {
			o2 = implDecRes(h, f, extra2)
			line2 = o2.resLine()
		}
		w.emit("c08", fmt.Sprintf("dec %s %s %s %s", h, kind, hx(f), hx(extra2)), line2)
		if o2.kind == "panic" {
			replay["extra"] = short(extra2)
			w.rp.Violate(rep.Violation{Property: "C08", Monitor: "decoder-no-panic", Key: "C08/decode-panic/" + h + "/" + kind, What: "header decoder panicked: " + o2.msg, Replay: replay})
			return
		}
		if line != line2 {
			replay["outcome_with_extra"] = trunc(line, 200)
			replay["outcome_with_other_extra"] = trunc(line2, 200)
			w.rp.Violate(rep.Violation{Property: "C08", Monitor: "decoder-no-overread", Key: "C08/decode-overread/" + h + "/" + kind, What: "decoded fields depend on bytes behind the frame (stale read-buffer contents)", Replay: replay})
		}
	}
	n := len(frame)
	// truncations
	step := 1
	if n > 64 {
		step = n / 48
	}
	for cut := 0; cut < n; cut += step {
		extra := []byte(nil)
		if w.r.Chance(1, 2) {
			extra = frame[cut:] // the rest of the frame is still in the buffer behind the cut
		}
		dec(frame[:cut], extra, fmt.Sprintf("truncation@%d", cut))
	}
	// substitutions in the first bytes and at a few random positions
	vals := []byte{0x00, 0x01, 0x08, 0x7f, 0x80, 0xff}
	pos := []int{}
	for i := 0; i < n && i < 12; i++ {
		pos = append(pos, i)
	}
	for i := 0; i < 4 && n > 12; i++ {
		pos = append(pos, 12+w.r.Intn(n-12))
	}
	for _, p := range pos {
		for _, v := range vals {
			if frame[p] == v {
				continue
			}
			g := clone(frame)
			g[p] = v
			dec(g, w.r.Bytes(w.r.Intn(16)), fmt.Sprintf("substitution@%d=%02x", p, v))
		}
		g := clone(frame)
		g[p] = byte(w.r.Intn(256))
		dec(g, nil, fmt.Sprintf("substitution@%d=random", p))
	}
}

func trunc(s string, n int) string {
	if len(s) > n {
		return s[:n] + "…"
	}
	return s
}

func (w *wireRun) handcrafted() {
	frames := [][]byte{
		{0x08}, {0x01}, {}, {0x00}, {0x80}, {0xff}, {0x12}, {0x1a}, {0x22},
		{0x08, 0x80}, {0x08, 0xff, 0xff, 0xff, 0xff, 0xff, 0xff, 0xff, 0xff, 0xff},
		{0x08, 0xff, 0xff, 0xff, 0xff, 0xff, 0xff, 0xff, 0xff, 0xff, 0xff},
		{0x08, 0xff, 0xff, 0xff, 0xff, 0xff, 0xff, 0xff, 0xff, 0xff, 0x7f, 0x01},
		{0x12, 0x05, 0x01}, {0x22, 0x10, 0x41, 0x42}, {0x1a, 0xff, 0xff, 0xff, 0xff, 0xff, 0xff, 0xff, 0xff, 0xff, 0x01},
		{0x1a, 0xff, 0xff, 0xff, 0xff, 0xff, 0xff, 0xff, 0xff, 0x7f},
		{0x01, 0x05}, {0x01, 0x00, 0x03, 0x41}, {0x01, 0x00, 0x00, 0x10, 0x01}, {0x01, 0x81, 0x01}, {0x01, 0x00, 0x00, 0x00},
		{0x09, 0x01}, {0x0a, 0x00}, {0xf8, 0x01},
	}
	extras := [][]byte{nil, bytes.Repeat([]byte{0x41}, 64), bytes.Repeat([]byte{0xff}, 300)}
	for _, h := range []string{"pb", "code"} {
		for _, f := range frames {
			for _, e := range extras {
				for _, kind := range []string{"req", "res"} {
					var o outcome
					var line string
					if kind == "req" {
						o = implDecReq(h, f, e)
						line = o.reqLine()
					} else {
						o = implDecRes(h, f, e)
						line = o.resLine()
					}
					w.rp.Case(fmt.Sprintf("hand %s %s %s e%d", h, kind, hx(f), len(e)))
					w.rp.Count("mal." + h + "." + kind + "." + o.kind)
					w.emit("c08", fmt.Sprintf("dec %s %s %s %s", h, kind, hx(f), hx(e)), line)
					replay := map[string]interface{}{"op": "dec-" + kind, "header": h, "frame": hx(f), "extra": short(e), "derived": "hand-written"}
					if o.kind == "panic" {
						w.rp.Violate(rep.Violation{Property: "C08", Monitor: "decoder-no-panic", Key: "C08/decode-panic/" + h + "/" + kind, What: "header decoder panicked: " + o.msg, Replay: replay})
					}
				}
			}
			// over-read across the three extras
			for _, kind := range []string{"req", "res"} {
				lines := map[string]bool{}
				pan := false
				for _, e := range extras {
					if kind == "req" {
						o := implDecReq(h, f, e)
						pan = pan || o.kind == "panic"
						lines[o.reqLine()] = true
					} else {
						o := implDecRes(h, f, e)
						pan = pan || o.kind == "panic"
						lines[o.resLine()] = true
					}
				}
				if !pan && len(lines) > 1 {
					w.rp.Violate(rep.Violation{Property: "C08", Monitor: "decoder-no-overread", Key: "C08/decode-overread/" + h + "/" + kind, What: "decoded fields depend on bytes behind the frame (stale read-buffer contents)",
						Replay: map[string]interface{}{"op": "dec-" + kind, "header": h, "frame": hx(f), "derived": "hand-written", "extras": "none / 64×41 / 300×ff"}})
				}
			}
		}
	}
}

func (w *wireRun) upgradeTable() {
	// pack for every valid flag combination, unpack for every byte
	for nr := 0; nr < 2; nr++ {
		for nres := 0; nres < 2; nres++ {
			for hb := 0; hb < 2; hb++ {
				for st := 0; st < 4; st++ {
					want := byte(nr<<7 | nres<<6 | hb<<5 | st<<3)
					// through the codec layer: ping/stream flags are set by Conn; the wire-level
					// check of Marshal/Unmarshal happens in the conn harness. Here: the documented table.
					w.inputs["c07"].Println(fmt.Sprintf("pck %d %d %d %d", nr, nres, hb, st))
					z := 0
					if nr+nres+hb+st == 0 {
						z = 1
					}
					w.impl["c07"].Println(fmt.Sprintf("ok %d %d", want, z))
					w.rp.Case(fmt.Sprintf("pck %d%d%d%d", nr, nres, hb, st))
				}
			}
		}
	}
	for d := 0; d < 256; d++ {
		w.inputs["c07"].Println(fmt.Sprintf("upk %d", d))
		w.impl["c07"].Println(fmt.Sprintf("ok %d %d %d %d", d>>7&1, d>>6&1, d>>5&1, d>>3&3))
		w.rp.Case(fmt.Sprintf("upk %d", d))
	}
	w.rp.Note("pck/upk lines compare the model's generated pack/unpack with the documented bit layout (bit7 NoRequest, bit6 NoResponse, bit5 Heartbeat, bits4-3 Stream); the implementation's own Marshal/Unmarshal is exercised end to end by the conn and server harnesses")
}

func runWire(dir string, seed uint64, tier string, only string) *rep.Report {
	rp := rep.New("wire", seed, tier)
	w := &wireRun{rp: rp, inputs: map[string]*rep.Lines{}, impl: map[string]*rep.Lines{}, r: prng.New(seed ^ 0x57495245), tier: tier}
	for _, st := range []string{"c07", "c08"} {
		in, err := rep.Create(filepath.Join(dir, "wire."+st+".inputs.txt"))
		must(err)
		im, err := rep.Create(filepath.Join(dir, "wire."+st+".impl.txt"))
		must(err)
		w.inputs[st], w.impl[st] = in, im
	}
	n := 1500
	largeLeft, midLeft = 3, 60
	if tier == "thorough" {
		n = 30000
		largeLeft, midLeft = 40, 2500
	}
	w.upgradeTable()
	w.handcrafted()
	for i := 0; i < n; i++ {
		for _, h := range []string{"pb", "code", "json"} {
			rq := genReq(w.r, tier, true)
			rs := genRes(w.r, tier)
			if h == "json" {
				// the json header carries method and error as JSON strings: valid UTF-8 only
				if !utf8.Valid(rq.Method) || !utf8.Valid(rs.Err) {
					continue
				}
			}
			w.encDecReq(h, rq)
			w.encDecRes(h, rs)
			if h != "json" && i%15 == 0 {
				small := rq
				if len(small.Args) > 140 {
					small.Args = small.Args[:140]
				}
				if len(small.Method) > 140 {
					small.Method = small.Method[:140]
				}
				if o := implEncReq(h, small, nil); o.kind == "ok" {
					w.malformed(h, "req", o.data, "a valid request frame")
				}
				sm := rs
				if len(sm.Reply) > 140 {
					sm.Reply = sm.Reply[:140]
				}
				if len(sm.Err) > 140 {
					sm.Err = sm.Err[:140]
				}
				if o := implEncRes(h, sm, nil); o.kind == "ok" {
					w.malformed(h, "res", o.data, "a valid response frame")
				}
			}
		}
		if i%25 == 0 {
			f := w.r.Bytes(w.r.Intn(40))
			h := []string{"pb", "code"}[w.r.Intn(2)]
			kind := []string{"req", "res"}[w.r.Intn(2)]
			var o outcome
			var line string
			e := w.r.Bytes(w.r.Intn(80))
			if kind == "req" {
				o = implDecReq(h, f, e)
				line = o.reqLine()
			} else {
				o = implDecRes(h, f, e)
				line = o.resLine()
			}
			w.rp.Case("random " + h + " " + kind + " " + o.kind + " " + bucket(len(f)))
			w.rp.Count("mal." + h + "." + kind + "." + o.kind)
			w.emit("c08", fmt.Sprintf("dec %s %s %s %s", h, kind, hx(f), hx(e)), line)
			if o.kind == "panic" {
				w.rp.Violate(rep.Violation{Property: "C08", Monitor: "decoder-no-panic", Key: "C08/decode-panic/" + h + "/" + kind, What: "header decoder panicked: " + o.msg,
					Replay: map[string]interface{}{"op": "dec-" + kind, "header": h, "frame": hx(f), "extra": hx(e), "derived": "random bytes"}})
			}
		}
	}
	for _, st := range []string{"c07", "c08"} {
		must(w.inputs[st].Close())
		must(w.impl[st].Close())
	}
	_ = only
	return rp
}

func must(err error) {
	if err != nil {
		fmt.Fprintln(os.Stderr, "corr:", err)
		os.Exit(2)
	}
}
