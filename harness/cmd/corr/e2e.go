package main

// e2e: the real client stack against the real server stack over real transports (component E).
// Properties C01, C04 (success ⇒ executed once), C06, C09, C10, C11, C12, C20.
// A scenario is a configuration (network, header encoder, body codec, server and client modes,
// buffer sizes) plus a PRNG workload run by several client goroutines. The outcome of every
// operation is a function of the workload alone (the abstract spec: each call is owed
// H(method,args) or its scripted error); the transcript is compared with that spec (computed
// independently by the Lean driver) and the monitors check the rest.

import (
	"bytes"
	"context"
	"crypto/sha1"
	"encoding/binary"
	"errors"
	"fmt"
	"net"
	"os"
	"runtime"
	"sort"
	"strings"
	"sync"
	"sync/atomic"
	"time"

	"github.com/hslam/rpc"
	"verifharness/internal/gate"
	"verifharness/internal/prng"
	"verifharness/internal/rep"
)

// ---- message type usable with every body codec ----

type Msg struct {
	Data []byte `json:"d" xml:"d"`
}

// code.Code
func (m *Msg) Marshal(buf []byte) ([]byte, error) {
	n := 4 + len(m.Data)
	if cap(buf) >= n {
		buf = buf[:n]
	} else {
		buf = make([]byte, n)
	}
	binary.BigEndian.PutUint32(buf, uint32(len(m.Data)))
	copy(buf[4:], m.Data)
	return buf, nil
}
func (m *Msg) Unmarshal(b []byte) (uint64, error) {
	if len(b) < 4 {
		return 0, errors.New("short")
	}
	n := int(binary.BigEndian.Uint32(b))
	if len(b) < 4+n {
		return 0, errors.New("short")
	}
	m.Data = b[4 : 4+n : 4+n] // aliases the input on purpose
	return uint64(4 + n), nil
}

// MsgPack
func (m *Msg) MarshalMsg(buf []byte) ([]byte, error) { return m.Marshal(buf) }
func (m *Msg) UnmarshalMsg(b []byte) ([]byte, error) {
	n, err := m.Unmarshal(b)
	if err != nil {
		return nil, err
	}
	return b[n:], nil
}

// PbMsg implements rpc.GoGoProtobuf (its Unmarshal has a different signature from Code's).
type PbMsg struct{ Data []byte }

func (m *PbMsg) Size() int { return 4 + len(m.Data) }
func (m *PbMsg) Marshal() ([]byte, error) {
	b := make([]byte, m.Size())
	_, err := m.MarshalTo(b)
	return b, err
}
func (m *PbMsg) MarshalTo(buf []byte) (int, error) {
	binary.BigEndian.PutUint32(buf, uint32(len(m.Data)))
	copy(buf[4:], m.Data)
	return 4 + len(m.Data), nil
}
func (m *PbMsg) Unmarshal(b []byte) error {
	if len(b) < 4 || len(b) < 4+int(binary.BigEndian.Uint32(b)) {
		return errors.New("short")
	}
	n := int(binary.BigEndian.Uint32(b))
	m.Data = b[4 : 4+n : 4+n]
	return nil
}

// ---- payload layout: id(8) replyLen(4) kind(1) errLen(2) filler ----

const (
	kOK = iota
	kFail
)

func mkPayload(id, size, replyLen, kind, errLen int) []byte {
	if size < 16 {
		size = 16
	}
	a := make([]byte, size)
	binary.BigEndian.PutUint64(a[:8], uint64(id))
	binary.BigEndian.PutUint32(a[8:12], uint32(replyLen))
	a[12] = byte(kind)
	binary.BigEndian.PutUint16(a[13:15], uint16(errLen))
	for i := 16; i < size; i++ {
		a[i] = byte(id) ^ byte(i*13)
	}
	return a
}

func digest(b []byte) string { s := sha1.Sum(b); return fmt.Sprintf("%d:%x", len(b), s[:6]) }

// ---- the service ----

type execRec struct {
	id     int
	method string
	dig    string
	kept   []byte // the argument bytes as the handler received them (retained, not copied)
}

type e2eSrv struct {
	mu       sync.Mutex
	execs    []execRec
	name     string
	streamIn map[int][]string // stream id -> digests of messages the handler read
	handlers int32            // stream handlers currently running
	hExit    map[int]string
	foreign  []int // handlers that were entered with argument bytes their request never carried
}

type E2E struct{ s *e2eSrv }

func (h *E2E) handle(method string, data []byte) ([]byte, error) {
	id := -1
	if len(data) >= 8 {
		id = int(binary.BigEndian.Uint64(data[:8]))
	}
	foreign := false
	for i := 16; i < len(data); i++ {
		if data[i] != byte(id)^byte(i*13) {
			foreign = true // bytes that the request with this id never carried
			break
		}
	}
	h.s.mu.Lock()
	h.s.execs = append(h.s.execs, execRec{id: id, method: method, dig: digest(data), kept: data})
	if foreign {
		h.s.foreign = append(h.s.foreign, id)
	}
	h.s.mu.Unlock()
	if len(data) >= 15 && data[12] == kFail {
		return nil, errors.New(errText(id, int(binary.BigEndian.Uint16(data[13:15]))))
	}
	return handlerH(method, data), nil
}

func (h *E2E) Echo(a *Msg, r *Msg) error {
	out, err := h.handle("E2E.Echo", a.Data)
	r.Data = out
	return err
}
func (h *E2E) EchoCtx(ctx context.Context, a *Msg, r *Msg) error {
	out, err := h.handle("E2E.EchoCtx", a.Data)
	r.Data = out
	return err
}
func (h *E2E) EchoRet(a *Msg) (*Msg, error) {
	out, err := h.handle("E2E.EchoRet", a.Data)
	return &Msg{Data: out}, err
}
func (h *E2E) EchoB(a *[]byte, r *[]byte) error {
	out, err := h.handle("E2E.EchoB", *a)
	*r = out
	return err
}
// EchoBCtx / EchoPCtx: handlers that take a context (the server's context-buffer mode applies to
// them) under body codecs whose decoded values alias their input.
func (h *E2E) EchoBCtx(ctx context.Context, a *[]byte, r *[]byte) error {
	out, err := h.handle("E2E.EchoBCtx", *a)
	*r = out
	return err
}
func (h *E2E) EchoPCtx(ctx context.Context, a *PbMsg, r *PbMsg) error {
	out, err := h.handle("E2E.EchoPCtx", a.Data)
	r.Data = out
	return err
}

// EchoBSame answers with the very slice it was given (and keeps it): what the library does with the
// reply bytes after encoding them must not touch memory the handler still owns.
func (h *E2E) EchoBSame(a *[]byte, r *[]byte) error {
	_, err := h.handle("E2E.EchoBSame", *a)
	*r = *a
	return err
}
func (h *E2E) EchoP(a *PbMsg, r *PbMsg) error {
	out, err := h.handle("E2E.EchoP", a.Data)
	r.Data = out
	return err
}

// stream argument types
type e2eStream struct{ st rpc.Stream }

func (s *e2eStream) Connect(st rpc.Stream) error { s.st = st; return nil }
func (s *e2eStream) Write(m *Msg) error          { return s.st.WriteMessage(m) }
func (s *e2eStream) Read(b []byte, m *Msg) error { return s.st.ReadMessage(b, m) }

// Watch: the first message tells how many messages to push first; then every message is echoed (transformed).
func (h *E2E) watch(st *e2eStream, pushFirst int) error {
	atomic.AddInt32(&h.s.handlers, 1)
	defer atomic.AddInt32(&h.s.handlers, -1)
	sid := -1
	for i := 0; i < pushFirst; i++ {
		if err := st.Write(&Msg{Data: pushMsg(i)}); err != nil {
			return err
		}
	}
	for {
		var m Msg
		if err := st.Read(nil, &m); err != nil {
			h.s.mu.Lock()
			h.s.hExit[sid] = classifyStream(err)
			h.s.mu.Unlock()
			return err
		}
		if len(m.Data) >= 8 {
			sid = int(binary.BigEndian.Uint64(m.Data[:8]))
		}
		h.s.mu.Lock()
		h.s.streamIn[sid] = append(h.s.streamIn[sid], digest(m.Data))
		h.s.mu.Unlock()
		if err := st.Write(&Msg{Data: handlerH("E2E.Watch", m.Data)}); err != nil {
			return err
		}
	}
}
func (h *E2E) Watch(st *e2eStream) error     { return h.watch(st, 0) }
func (h *E2E) PushFirst(st *e2eStream) error { return h.watch(st, 5) }

func pushMsg(i int) []byte {
	return []byte(fmt.Sprintf("server-push-%d-%s", i, strings.Repeat("x", i*7)))
}

// ---- configuration ----

type e2eCfg struct {
	Net      string `json:"net"`
	TLS      bool   `json:"tls"`
	Hdr      string `json:"hdr"`
	Body     string `json:"body"`
	SPoll    bool   `json:"server_poll"`
	SPipe    bool   `json:"server_pipelining"`
	SDio     bool   `json:"server_direct_io"`
	SCtxBuf  bool   `json:"server_context_buffer"`
	SNoCopy  bool   `json:"server_nocopy"`
	CPipe    bool   `json:"client_pipelining"`
	CDio     bool   `json:"client_direct_io"`
	SBuf     int    `json:"server_buffer"`
	CBuf     int    `json:"client_buffer"`
	Names    bool   `json:"options_by_name"`
	Workers  int    `json:"workers"`
	Ops      int    `json:"ops"`
	Streams  int    `json:"streams"`
	BigEvery int    `json:"big_every"`
	Via      string `json:"via"` // conn | transport | client
}

func (c e2eCfg) line() string {
	return fmt.Sprintf("e2e net=%s tls=%d hdr=%s body=%s spoll=%d spipe=%d sdio=%d sctx=%d snocopy=%d cpipe=%d cdio=%d sbuf=%d cbuf=%d names=%d via=%s",
		c.Net, b2i(c.TLS), c.Hdr, c.Body, b2i(c.SPoll), b2i(c.SPipe), b2i(c.SDio), b2i(c.SCtxBuf), b2i(c.SNoCopy), b2i(c.CPipe), b2i(c.CDio), c.SBuf, c.CBuf, b2i(c.Names), c.Via)
}

type e2eOp struct {
	ID       int
	Form     string // call | go | ctx | rt | ping | stream | pushfirst
	Method   string
	Size     int
	ReplyLen int
	Kind     int
	ErrLen   int
	NMsg     int
	Worker   int
}

func (o e2eOp) line() string {
	return fmt.Sprintf("op %d %s %s size=%d reply=%d kind=%d errlen=%d nmsg=%d", o.ID, o.Form, o.Method, o.Size, o.ReplyLen, o.Kind, o.ErrLen, o.NMsg)
}

type e2eOutcome struct {
	id     int
	out    string
	reply  []byte // retained
	ctxBuf bool   // the call supplied a context buffer
	rdig   string
	stream []string
	smsgs  [][]byte // stream messages as handed out by ReadMessage, retained
	sdigs  []string
}

var e2ePort int32

func freshAddr(network string) string {
	n := atomic.AddInt32(&e2ePort, 1)
	switch network {
	case "unix":
		return fmt.Sprintf("/tmp/verif-e2e-%d-%d.sock", os.Getpid(), n)
	case "inproc":
		return fmt.Sprintf("inproc-%d-%d", os.Getpid(), n)
	default:
		// a port nobody is listening on right now (other processes of the machine use ports too)
		for try := 0; try < 64; try++ {
			addr := fmt.Sprintf("127.0.0.1:%d", 20000+(os.Getpid()*37+int(n)*3+try*101)%30000)
			if l, err := net.Listen("tcp", addr); err == nil {
				l.Close()
				return addr
			}
		}
		return fmt.Sprintf("127.0.0.1:%d", 20000+(os.Getpid()*37+int(n)*3)%30000)
	}
}

func bodyMethod(body string) string {
	switch body {
	case "bytes":
		return "E2E.EchoB"
	case "pb":
		return "E2E.EchoP"
	}
	return ""
}

func genE2E(r *prng.R, tier string) (e2eCfg, []e2eOp) {
	c := e2eCfg{}
	c.Net = []string{"chunk", "chunk", "inproc", "tcp", "unix", "http", "tcp"}[r.Intn(7)]
	c.Hdr = []string{"", "pb", "code", "json"}[r.Intn(4)]
	c.Body = []string{"json", "bytes", "code", "pb", "msgp", "json"}[r.Intn(6)]
	c.SPipe, c.SDio, c.SCtxBuf, c.SNoCopy = r.Bool(), r.Chance(1, 3), r.Chance(1, 3), r.Chance(1, 5)
	c.CPipe, c.CDio = r.Chance(1, 3), r.Chance(1, 3)
	c.SPoll = (c.Net == "tcp" || c.Net == "unix") && r.Chance(1, 2)
	c.TLS = (c.Net == "tcp" || c.Net == "http") && r.Chance(1, 4)
	c.SBuf = []int{0, 512, 65536, 1 << 20}[r.Intn(4)]
	c.CBuf = []int{0, 512, 65536, 1 << 20}[r.Intn(4)]
	c.Names = r.Bool()
	c.Via = []string{"conn", "conn", "transport", "client"}[r.Intn(4)]
	c.Workers = 1 + r.Intn(6)
	c.Ops = 6 + r.Intn(30)
	if tier == "thorough" {
		c.Ops = 20 + r.Intn(100)
	}
	var ops []e2eOp
	id := 1
	sizes := []int{16, 17, 100, 127, 128, 500, 511, 513, 4000, 65535, 65536, 70000, 300000}
	for w := 0; w < c.Workers; w++ {
		for i := 0; i < c.Ops; i++ {
			o := e2eOp{ID: id, Worker: w}
			id++
			x := r.Intn(100)
			switch {
			case x < 6:
				o.Form = "ping"
			case x < 12 && c.Via == "conn" && bodyMethod(c.Body) == "" && !c.SNoCopy:
				// (with NoCopy the server hands a stream handler bytes that are already back in the
				// buffer pool: whether the handler still sees them intact is a race the user asked for)
				o.Form = []string{"stream", "pushfirst"}[r.Intn(2)]
				o.NMsg = r.Intn(8)
				o.Size = sizes[r.Intn(9)]
			default:
				o.Form = []string{"call", "call", "go", "ctx", "rt"}[r.Intn(5)]
				o.Method = []string{"E2E.Echo", "E2E.Echo", "E2E.EchoCtx", "E2E.EchoRet", "E2E.Nope"}[r.Intn(5)]
				if m := bodyMethod(c.Body); m != "" && o.Method != "E2E.Nope" {
					// context-taking and slice-echoing variants under the aliasing body codecs
					switch {
					case o.Method == "E2E.EchoCtx":
						o.Method = m + "Ctx"
					case m == "E2E.EchoB" && o.Method == "E2E.EchoRet":
						o.Method = "E2E.EchoBSame"
					default:
						o.Method = m
					}
				}
				si := r.Intn(9)
				if r.Chance(1, 12) {
					si = r.Intn(len(sizes))
				}
				o.Size = sizes[si]
				if o.Method == "E2E.EchoBSame" && r.Chance(1, 3) {
					o.Size = sizes[9+r.Intn(4)] // 64 KiB and above: larger than the pooled write buffer
				}
				o.ReplyLen = []int{0, 1, 16, 127, 128, 1000, 65536, 70000}[r.Intn(6+2*b2i(r.Chance(1, 10)))]
				if r.Chance(1, 6) {
					o.Kind, o.ErrLen = kFail, []int{8, 20, 127, 128, 300, 5000}[r.Intn(6)]
				}
			}
			ops = append(ops, o)
		}
	}
	return c, ops
}

// ---- running one scenario ----

type e2eRun struct {
	cfg      e2eCfg
	ops      []e2eOp
	outs     map[int]*e2eOutcome
	srv      *e2eSrv
	problems []connVerdict
	leaks    string
}

func (c e2eCfg) options(server bool) *rpc.Options {
	o := &rpc.Options{ClientBufferSize: c.CBuf}
	if c.Names && c.Net != "chunk" {
		o.Network = c.Net
	} else {
		switch c.Net {
		case "chunk":
			o.NewSocket = newChunkSocket
		default:
			o.NewSocket = rpc.NewSocket(c.Net)
		}
	}
	if c.TLS {
		if server {
			o.TLSConfig = rpc.DefalutServerTLSConfig()
		} else {
			o.TLSConfig = rpc.SkipVerifyTLSConfig()
		}
	}
	bodyNew := map[string]func() rpc.Codec{"json": rpc.NewJSONCodec, "bytes": func() rpc.Codec { return &rpc.BYTESCodec{} }, "code": rpc.NewCODECodec, "pb": rpc.NewPBCodec,
		"xml": func() rpc.Codec { return &rpc.XMLCodec{} }, "msgp": func() rpc.Codec { return &rpc.MSGPCodec{} }}
	if c.Names && (c.Body == "json" || c.Body == "code" || c.Body == "pb") {
		o.Codec = c.Body
		// a registered name wins over a constructor on both ends: give a different constructor as well
		o.NewCodec = map[string]func() rpc.Codec{"json": rpc.NewCODECodec, "code": rpc.NewJSONCodec, "pb": rpc.NewJSONCodec}[c.Body]
	} else {
		o.NewCodec = bodyNew[c.Body]
	}
	switch c.Hdr {
	case "":
	default:
		if c.Names {
			o.HeaderEncoder = c.Hdr
			o.NewHeaderEncoder = map[string]func() rpc.Encoder{"pb": rpc.NewCODEEncoder, "code": rpc.NewJSONEncoder, "json": rpc.NewPBEncoder}[c.Hdr]
		} else {
			o.NewHeaderEncoder = map[string]func() rpc.Encoder{"pb": rpc.NewPBEncoder, "code": rpc.NewCODEEncoder, "json": rpc.NewJSONEncoder}[c.Hdr]
		}
	}
	return o
}

func runE2E(cfg e2eCfg, ops []e2eOp) *e2eRun {
	run := &e2eRun{cfg: cfg, ops: ops, outs: map[int]*e2eOutcome{}}
	rtCalls.Range(func(k, _ interface{}) bool { rtCalls.Delete(k); return true })
	srv := &e2eSrv{streamIn: map[int][]string{}, hExit: map[int]string{}}
	run.srv = srv
	g0 := gate.Goroutines()
	server := rpc.NewServer()
	server.SetLogLevel(rpc.OffLogLevel)
	server.RegisterName("E2E", &E2E{s: srv})
	server.SetPoll(cfg.SPoll)
	server.SetPipelining(cfg.SPipe)
	server.SetDirectIO(cfg.SDio)
	server.SetContextBuffer(cfg.SCtxBuf)
	server.SetNoCopy(cfg.SNoCopy)
	if cfg.SBuf > 0 {
		server.SetBufferSize(cfg.SBuf)
	}
	addr := freshAddr(cfg.Net)
	listenErr := make(chan error, 1)
	go func() { listenErr <- server.ListenWithOptions(addr, cfg.options(true)) }()
	var conn *rpc.Conn
	var err error
	copts := cfg.options(false)
	for i := 0; i < 200; i++ {
		conn, err = rpc.DialWithOptions(addr, copts)
		if err == nil {
			break
		}
		select {
		case e := <-listenErr:
			run.problems = append(run.problems, connVerdict{"C12", "configuration-starts", "C12/listen-failed/" + cfg.Net, fmt.Sprintf("ListenWithOptions failed: %v", e)})
			return run
		default:
		}
		time.Sleep(5 * time.Millisecond)
	}
	if err != nil {
		run.problems = append(run.problems, connVerdict{"C12", "configuration-starts", "C12/dial-failed/" + cfg.Net, fmt.Sprintf("DialWithOptions failed: %v", err)})
		server.Close()
		return run
	}
	if cfg.CPipe {
		conn.SetPipelining(true)
	}
	if cfg.CDio {
		conn.SetDirectIO(true)
	}
	// (Conn.SetBufferSize is not used: after Dial it blocks on the Messages' read lock, which the
	// connection's reader holds while it waits for the next frame; Options.ClientBufferSize sets the
	// client buffer size instead.)
	var rt rpc.RoundTripper
	var client *rpc.Client
	var transport *rpc.Transport
	if cfg.Via != "conn" {
		transport = &rpc.Transport{MaxConnsPerHost: 2, MaxIdleConnsPerHost: 2, Options: copts}
		rt = transport
		if cfg.Via == "client" {
			client = rpc.NewClient(nil, addr)
			client.Transport = transport
			time.Sleep(150 * time.Millisecond) // first detection pass
		}
	}
	var mu sync.Mutex
	var wg sync.WaitGroup
	byWorker := map[int][]e2eOp{}
	for _, o := range ops {
		byWorker[o.Worker] = append(byWorker[o.Worker], o)
	}
	deadline := time.Now().Add(20 * time.Second)
	for w := range byWorker {
		wg.Add(1)
		go func(list []e2eOp) {
			defer wg.Done()
			for _, o := range list {
				if time.Now().After(deadline) {
					return
				}
				out := doE2EOp(cfg, conn, rt, client, addr, o)
				mu.Lock()
				run.outs[o.ID] = out
				mu.Unlock()
			}
		}(byWorker[w])
	}
	done := make(chan struct{})
	go func() { wg.Wait(); close(done) }()
	select {
	case <-done:
	case <-time.After(25 * time.Second):
		run.problems = append(run.problems, connVerdict{"C03", "no-caller-hangs", "C03/e2e-hang/" + cfg.Net, "the workload did not finish within 25 s (a caller is blocked)"})
	}
	// C04: a handler is invoked with the arguments its request carried
	srv.mu.Lock()
	if len(srv.foreign) > 0 {
		run.problems = append(run.problems, connVerdict{"C04", "arguments-as-sent", fmt.Sprintf("C04/e2e-foreign-arguments/nocopy%d", b2i(cfg.SNoCopy)), fmt.Sprintf("the handlers of %d request(s) (first: id %d) were entered with argument bytes that request never carried", len(srv.foreign), srv.foreign[0])})
	}
	srv.mu.Unlock()
	// C11: re-hash what user code retained, after all the traffic
	srv.mu.Lock()
	for _, e := range srv.execs {
		if !cfg.SNoCopy && digest(e.kept) != e.dig {
			run.problems = append(run.problems, connVerdict{"C11", "handler-args-stable", "C11/handler-args-mutated/" + cfg.Body, fmt.Sprintf("argument bytes retained by the handler of call %d changed after later traffic", e.id)})
			if cfg.SCtxBuf {
				// C12: the server's context-buffer mode is a performance option; what a handler holds must
				// not depend on it (the same workload without the option keeps the arguments intact)
				run.problems = append(run.problems, connVerdict{"C12", "server-mode-keeps-arguments", "C12/context-buffer-mode-changes-arguments/" + cfg.Body, fmt.Sprintf("with SetContextBuffer(true) the argument bytes held by the handler of call %d changed under later traffic", e.id)})
			}
			break
		}
	}
	srv.mu.Unlock()
	mu.Lock()
	for _, o := range run.outs {
		if o.reply != nil && digest(o.reply) != o.rdig {
			run.problems = append(run.problems, connVerdict{"C11", "reply-stable", "C11/reply-mutated/" + cfg.Body, fmt.Sprintf("reply bytes retained by the caller of call %d changed after later traffic", o.id)})
			if o.ctxBuf {
				// C19: a context buffer belongs to the call it was supplied for; a later call wrote into it
				run.problems = append(run.problems, connVerdict{"C19", "context-buffer-is-this-calls-only", "C19/context-buffer-written-by-another-call/" + cfg.Body, fmt.Sprintf("call %d supplied a context buffer and kept its reply; later calls changed those bytes", o.id)})
			}
			break
		}
	}
	for _, o := range run.outs {
		bad := false
		for i, m := range o.smsgs {
			if digest(m) != o.sdigs[i] {
				run.problems = append(run.problems, connVerdict{"C09", "stream-message-intact", "C09/stream-message-corrupted-after-delivery/" + cfg.Body, fmt.Sprintf("message %d delivered on the stream of op %d no longer equals what the handler wrote (it changed after delivery)", i, o.id)})
				run.problems = append(run.problems, connVerdict{"C11", "stream-message-stable", "C11/stream-message-mutated/" + cfg.Body, fmt.Sprintf("message %d read from the stream of op %d (ReadMessage with no buffer) changed after later traffic", i, o.id)})
				bad = true
				break
			}
		}
		if bad {
			break
		}
	}
	mu.Unlock()
	// close everything; C20
	if client != nil {
		client.Close()
	}
	if transport != nil {
		transport.Close()
		if transport.Close() != nil {
			run.problems = append(run.problems, connVerdict{"C20", "close-idempotent", "C20/transport-close", "second Transport.Close returned an error"})
		}
	}
	serverFirst := cfg.Workers%2 == 0 // half of the scenarios end by closing the server while the client is still connected
	waitHandlers := func() int32 {
		for i := 0; i < 200 && atomic.LoadInt32(&srv.handlers) > 0; i++ {
			time.Sleep(10 * time.Millisecond)
		}
		return atomic.LoadInt32(&srv.handlers)
	}
	closeServer := func() {
		server.Close()
		server.Close()
		if !cfg.SPoll {
			select {
			case <-listenErr:
			case <-time.After(3 * time.Second):
				run.problems = append(run.problems, connVerdict{"C20", "listen-returns", "C20/listen-does-not-return/" + cfg.Net, "Listen did not return within 3 s after Server.Close"})
			}
		}
	}
	closeConn := func() {
		e1 := conn.Close()
		e2 := conn.Close()
		if e2 != rpc.ErrShutdown {
			run.problems = append(run.problems, connVerdict{"C20", "close-idempotent", "C20/conn-second-close", fmt.Sprintf("second Conn.Close returned %v (first %v), want ErrShutdown", e2, e1)})
		}
	}
	if serverFirst {
		closeServer()
		if n := waitHandlers(); n > 0 {
			run.problems = append(run.problems, connVerdict{"C10", "handler-unblocked", fmt.Sprintf("C10/handler-blocked-after-server-close/poll%d", b2i(cfg.SPoll)), fmt.Sprintf("%d stream handler(s) still blocked 2 s after the server was closed (their connection was open)", n)})
		}
		closeConn()
	} else {
		closeConn()
		if n := waitHandlers(); n > 0 {
			run.problems = append(run.problems, connVerdict{"C10", "handler-unblocked", fmt.Sprintf("C10/handler-blocked-after-conn-close/poll%d", b2i(cfg.SPoll)), fmt.Sprintf("%d stream handler(s) still blocked 2 s after their client closed the connection", n)})
		}
		closeServer()
	}
	if !cfg.SPoll && cfg.Net != "http" && cfg.Net != "ws" {
		ok := false
		var g1 int
		for i := 0; i < 150; i++ {
			g1 = gate.Goroutines()
			if g1 <= g0 {
				ok = true
				break
			}
			time.Sleep(10 * time.Millisecond)
		}
		if !ok {
			run.leaks = fmt.Sprintf("%d goroutines before, %d after close", g0, g1)
			run.problems = append(run.problems, connVerdict{"C20", "no-goroutine-leak", "C20/goroutine-leak/" + cfg.Via + "/" + cfg.Net, run.leaks + "\n" + leakSummary()})
		}
	}
	if cfg.Net == "unix" {
		os.Remove(addr)
	}
	return run
}

func leakSummary() string {
	buf := make([]byte, 1<<20)
	n := runtime.Stack(buf, true)
	var keep []string
	for _, g := range strings.Split(string(buf[:n]), "\n\n") {
		if strings.Contains(g, "hslam/rpc.") && !strings.Contains(g, "leakSummary") {
			lines := strings.Split(g, "\n")
			if len(lines) > 7 {
				lines = lines[:7]
			}
			keep = append(keep, strings.Join(lines, " | "))
		}
	}
	if len(keep) > 6 {
		keep = keep[:6]
	}
	return strings.Join(keep, "\n")
}

func mkArgsFor(body string, data []byte) (interface{}, interface{}, func() []byte) {
	switch bodyMethod(body) {
	case "E2E.EchoB":
		a := data
		r := new([]byte)
		return &a, r, func() []byte { return *r }
	case "E2E.EchoP":
		r := &PbMsg{}
		return &PbMsg{Data: data}, r, func() []byte { return r.Data }
	default:
		r := &Msg{}
		return &Msg{Data: data}, r, func() []byte { return r.Data }
	}
}

func classifyE2E(err error) string {
	if err == nil {
		return "nil"
	}
	if err == rpc.ErrDial {
		return "dial"
	}
	if strings.HasPrefix(err.Error(), "can't find service ") {
		return "nosvc"
	}
	return classify(err)
}

// rtCalls: the Call object each worker of the running scenario reuses for its RoundTrips.
var rtCalls sync.Map

func doE2EOp(cfg e2eCfg, conn *rpc.Conn, rt rpc.RoundTripper, client *rpc.Client, addr string, o e2eOp) *e2eOutcome {
	out := &e2eOutcome{id: o.ID}
	switch o.Form {
	case "ping":
		var err error
		switch {
		case client != nil:
			err = client.Ping()
		case rt != nil:
			err = rt.Ping(addr)
		default:
			err = conn.Ping()
		}
		out.out = classifyE2E(err)
		return out
	case "stream", "pushfirst":
		return doE2EStream(cfg, conn, o)
	}
	data := mkPayload(o.ID, o.Size, o.ReplyLen, o.Kind, o.ErrLen)
	args, reply, get := mkArgsFor(cfg.Body, data)
	var err error
	switch o.Form {
	case "call":
		switch {
		case client != nil:
			err = client.Call(o.Method, args, reply)
		case rt != nil:
			err = rt.Call(addr, o.Method, args, reply)
		default:
			err = conn.Call(o.Method, args, reply)
		}
	case "ctx":
		ctx, cancel := context.WithTimeout(context.Background(), 15*time.Second)
		if o.ID%3 != 0 {
			// a caller-supplied reply buffer (C11/C19): large for most calls, sometimes too small.
			// Whatever lands in it belongs to this caller and is re-hashed after all the traffic.
			n := 8192
			if o.ID%3 == 2 {
				n = 48
			}
			ctx = context.WithValue(ctx, rpc.BufferContextKey, make([]byte, n))
			out.ctxBuf = true
		}
		switch {
		case client != nil:
			err = client.CallWithContext(ctx, o.Method, args, reply)
		case rt != nil:
			err = rt.CallWithContext(ctx, addr, o.Method, args, reply)
		default:
			err = conn.CallWithContext(ctx, o.Method, args, reply)
		}
		cancel()
	case "go":
		var c *rpc.Call
		switch {
		case client != nil:
			c = client.Go(o.Method, args, reply, make(chan *rpc.Call, 1))
		case rt != nil:
			c = rt.Go(addr, o.Method, args, reply, make(chan *rpc.Call, 1))
		default:
			c = conn.Go(o.Method, args, reply, make(chan *rpc.Call, 1))
		}
		<-c.Done
		err = c.Error
	case "rt":
		// a caller may keep one Call object of its own and send it again (Call is exported, RoundTrip
		// takes it as it is): each worker does, so that whatever the library leaves in it meets the next use
		var c *rpc.Call
		if v, ok := rtCalls.Load(o.Worker); ok {
			c = v.(*rpc.Call)
			c.ServiceMethod, c.Args, c.Reply, c.Error, c.Done = o.Method, args, reply, nil, make(chan *rpc.Call, 1)
		} else {
			c = &rpc.Call{ServiceMethod: o.Method, Args: args, Reply: reply, Done: make(chan *rpc.Call, 1)}
			rtCalls.Store(o.Worker, c)
		}
		switch {
		case client != nil:
			client.RoundTrip(c)
		case rt != nil:
			rt.RoundTrip(addr, c)
		default:
			conn.RoundTrip(c)
		}
		<-c.Done
		err = c.Error
	}
	cls := classifyE2E(err)
	if os.Getenv("CORR_DEBUG") == "2" && err != nil {
		fmt.Fprintf(os.Stderr, "   op %d %s %s -> %v\n", o.ID, o.Form, o.Method, err)
	}
	if err == nil {
		rb := get()
		out.reply, out.rdig = rb, digest(rb)
		want := handlerH(o.Method, data)
		if o.Method == "E2E.EchoBSame" {
			want = data
		}
		if bytes.Equal(rb, want) {
			cls = "ok"
		} else {
			cls = "wrong-reply:" + digest(rb)
		}
	}
	out.out = cls
	return out
}

func doE2EStream(cfg e2eCfg, conn *rpc.Conn, o e2eOp) *e2eOutcome {
	out := &e2eOutcome{id: o.ID}
	method := "E2E.Watch"
	push := 0
	if o.Form == "pushfirst" {
		method, push = "E2E.PushFirst", 5
	}
	st, err := conn.NewStream(method)
	if err != nil {
		out.out = "open:" + classifyE2E(err)
		return out
	}
	var got []string
	readOne := func() bool {
		var m Msg
		done := make(chan error, 1)
		go func() { done <- st.ReadMessage(nil, &m) }()
		select {
		case err := <-done:
			if err != nil {
				got = append(got, "ERR:"+classifyStream(err))
				return false
			}
			got = append(got, string(m.Data))
			out.smsgs = append(out.smsgs, m.Data)
			out.sdigs = append(out.sdigs, digest(m.Data))
			return true
		case <-time.After(3 * time.Second):
			got = append(got, "TIMEOUT")
			return false
		}
	}
	okAll := true
	for i := 0; i < push && okAll; i++ {
		okAll = readOne()
	}
	var want []string
	for i := 0; i < push; i++ {
		want = append(want, string(pushMsg(i)))
	}
	for i := 0; i < o.NMsg && okAll; i++ {
		data := mkPayload(o.ID, o.Size, i, 0, 0)
		want = append(want, string(handlerH("E2E.Watch", data)))
		if err := st.WriteMessage(&Msg{Data: data}); err != nil {
			got = append(got, "WERR:"+classifyStream(err))
			okAll = false
			break
		}
		okAll = readOne()
	}
	var cerr error
	leaveOpen := o.ID%3 == 0 // every third stream is left open: the connection's end must unblock its handler
	if !leaveOpen {
		cerr = st.Close()
	}
	res := "ok"
	if len(got) != len(want) {
		res = fmt.Sprintf("stream-mismatch: got %d of %d messages (last %s)", len(got), len(want), lastOf(got))
	} else {
		for i := range got {
			if got[i] != want[i] {
				res = fmt.Sprintf("stream-mismatch at message %d", i)
				break
			}
		}
	}
	if cerr != nil && res == "ok" {
		res = "close:" + classifyE2E(cerr)
	}
	// after Close, reads and writes report ErrStreamShutdown
	if leaveOpen {
		out.out = res
		return out
	}
	if err := st.WriteMessage(&Msg{Data: []byte("late")}); err != rpc.ErrStreamShutdown && res == "ok" {
		res = "late-write:" + classifyStream(err)
	}
	out.out = res
	return out
}

func lastOf(xs []string) string {
	if len(xs) == 0 {
		return "none"
	}
	return trunc(xs[len(xs)-1], 40)
}

// ---- spec + monitors ----

func specOutcome(o e2eOp) string {
	switch o.Form {
	case "ping":
		return "nil"
	case "stream", "pushfirst":
		return "ok"
	}
	if o.Method == "E2E.Nope" {
		return "nosvc"
	}
	if o.Kind == kFail {
		return fmt.Sprintf("text:%d:%d", o.ID, len(errText(o.ID, o.ErrLen)))
	}
	return "ok"
}

func checkE2E(run *e2eRun) []connVerdict {
	out := append([]connVerdict(nil), run.problems...)
	cfg := run.cfg
	tag := fmt.Sprintf("%s/%s/%s", cfg.Net, orDefault(cfg.Hdr), cfg.Body)
	execs := map[int]int{}
	run.srv.mu.Lock()
	for _, e := range run.srv.execs {
		execs[e.id]++
	}
	run.srv.mu.Unlock()
	for _, o := range run.ops {
		got := run.outs[o.ID]
		if got == nil {
			continue
		}
		want := specOutcome(o)
		if got.out != want {
			prop, mon, key := "C12", "same-outcome-in-every-configuration", "C12/outcome/"+tag
			switch {
			case strings.HasPrefix(got.out, "wrong-reply"):
				prop, mon, key = "C01", "reply-is-own", "C01/e2e-wrong-reply/"+tag
			case o.Form == "stream" || o.Form == "pushfirst":
				prop, mon, key = "C09", "stream-sequence", fmt.Sprintf("C09/%s/poll%d", o.Form, b2i(cfg.SPoll))
			case strings.HasPrefix(want, "text:"):
				prop, mon, key = "C06", "error-text-verbatim", "C06/e2e-error-text/"+orDefault(cfg.Hdr)
			}
			out = append(out, connVerdict{prop, mon, key, fmt.Sprintf("op %d (%s %s size=%d reply=%d): outcome %s, want %s", o.ID, o.Form, o.Method, o.Size, o.ReplyLen, trunc(got.out, 120), want)})
		}
		// C04: executions
		if o.Form == "stream" || o.Form == "pushfirst" || o.Form == "ping" {
			continue
		}
		wantExec := 1
		if o.Method == "E2E.Nope" {
			wantExec = 0
		}
		n := execs[o.ID]
		if n >= 1 && got.out != want && (got.out == "shutdown" || strings.HasPrefix(got.out, "hang") || got.out == "timeout") {
			// the connection was never cut during the workload: a request that was executed is owed its response
			out = append(out, connVerdict{"C04", "answered-exactly-once", "C04/e2e-executed-but-unanswered/" + cfg.Via, fmt.Sprintf("op %d (size=%d reply=%d) was executed %d time(s) but its caller never got the response (outcome %s, want %s)", o.ID, o.Size, o.ReplyLen, n, got.out, want)})
		}
		if n > wantExec || (got.out == "ok" && n != 1) {
			out = append(out, connVerdict{"C04", "executed-exactly-once", "C04/e2e-executions/" + cfg.Via, fmt.Sprintf("op %d completed with %s and was executed %d times", o.ID, got.out, n)})
		}
	}
	return out
}

func orDefault(s string) string {
	if s == "" {
		return "default"
	}
	return s
}

func e2eScenarios(seed uint64, tier string) []struct {
	cfg e2eCfg
	ops []e2eOp
} {
	r := prng.New(seed ^ 0x453245)
	n := 28
	if tier == "thorough" {
		n = 400
	}
	var out []struct {
		cfg e2eCfg
		ops []e2eOp
	}
	// the first scenarios cover the option combinations that matter for "a name resolves like a
	// constructor": every real network with and without TLS, by name and by constructor
	cover := []struct {
		net        string
		tls, names bool
	}{{"tcp", true, true}, {"tcp", true, false}, {"http", true, true}, {"http", true, false}, {"tcp", false, true}, {"unix", false, true}, {"http", false, true}, {"inproc", false, true}}
	for i := 0; i < n; i++ {
		c, ops := genE2E(r.Fork(), tier)
		if i < len(cover) {
			c.Net, c.TLS, c.Names = cover[i].net, cover[i].tls, cover[i].names
			if c.Net != "tcp" && c.Net != "unix" {
				c.SPoll = false
			}
		}
		out = append(out, struct {
			cfg e2eCfg
			ops []e2eOp
		}{c, ops})
	}
	return out
}

func runOneE2E(i int, cfg e2eCfg, ops []e2eOp) *scenarioOut {
	run := runE2E(cfg, ops)
	out := &scenarioOut{Counters: map[string]int{}}
	inl := []string{cfg.line()}
	iml := []string{"ok"}
	sort.Slice(ops, func(a, b int) bool { return ops[a].ID < ops[b].ID })
	for _, o := range ops {
		got := run.outs[o.ID]
		if got == nil {
			continue
		}
		inl = append(inl, o.line())
		iml = append(iml, fmt.Sprintf("%d %s", o.ID, got.out))
		out.Counters["form."+o.Form]++
		out.Counters["outcome."+strings.SplitN(got.out, ":", 2)[0]]++
	}
	out.Streams = map[string][2][]string{"e": {inl, iml}}
	out.Key = cfg.line()
	out.Counters["net."+cfg.Net]++
	out.Counters["hdr."+orDefault(cfg.Hdr)]++
	out.Counters["body."+cfg.Body]++
	out.Counters["via."+cfg.Via]++
	out.Counters[fmt.Sprintf("smode.poll%d.pipe%d.dio%d", b2i(cfg.SPoll), b2i(cfg.SPipe), b2i(cfg.SDio))]++
	if i%7 == 0 {
		out.Sample = map[string]interface{}{"config": cfg, "ops": len(ops), "first_ops": firstLines(inl, 6)}
	}
	if os.Getenv("CORR_DEBUG") != "" {
		fmt.Fprintf(os.Stderr, "scenario %d %s ops=%d\n", i, cfg.line(), len(ops))
	}
	for _, v := range checkE2E(run) {
		out.Violations = append(out.Violations, rep.Violation{Property: v.prop, Monitor: v.monitor, Key: v.key, What: v.what,
			Replay: map[string]interface{}{"component": "e2e", "index": i, "config": cfg, "ops": len(ops)}})
	}
	return out
}

func firstLines(xs []string, n int) []string {
	if len(xs) > n {
		return xs[:n]
	}
	return xs
}

func runE2EComp(dir string, seed uint64, tier, only, replay string) *rep.Report {
	rp := rep.New("e2e", seed, tier)
	scs := e2eScenarios(seed, tier)
	if workerRange != "" {
		var from, to int
		fmt.Sscanf(workerRange, "%d:%d", &from, &to)
		workerMain(len(scs), from, to, func(i int) interface{} { return scs[i].cfg }, func(i int) *scenarioOut { return runOneE2E(i, scs[i].cfg, scs[i].ops) })
		os.Exit(0)
	}
	if only != "" {
		for i, sc := range scs {
			if only == fmt.Sprint(i) {
				o := runOneE2E(i, sc.cfg, sc.ops)
				for _, v := range o.Violations {
					fmt.Fprintln(os.Stderr, v.Key, v.What)
				}
			}
		}
		return rp
	}
	parentLoopN("e2e", dir, len(scs), []string{"-out", dir, "-seed", fmt.Sprint(seed), "-tier", tier}, rp, []string{"e"}, []string{"C08"}, 60*time.Second, 8)
	return rp
}

func init() { components["e2e"] = runE2EComp }
