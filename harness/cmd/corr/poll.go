package main

// poll: the server in poll mode (server.go listen, the ServeMessages branch), driven through a fake
// socket.Socket whose listener plays netpoll: it opens scripted connections and calls the serve
// callback from several workers whenever a connection is readable — concurrently for one and the
// same connection, as netpoll's shared workers may. A header encoder with a per-request delay
// widens the window between reading a frame and dispatching it. Monitors only (no Lean stream):
// the per-connection automaton is S; that S's single `feed` step (read + enqueue) also describes
// poll mode rests on the fact that the serve callback holds the receive lock from ReadMessage to
// dispatch, which the extractor reads from the source (Generated/ServerFacts.lean).

import (
	"crypto/tls"
	"encoding/binary"
	"errors"
	"fmt"
	"io"
	"net"
	"os"
	"strings"
	"sync"
	"time"

	"github.com/hslam/netpoll"
	"github.com/hslam/rpc"
	"github.com/hslam/socket"
	"verifharness/internal/gate"
	"verifharness/internal/prng"
	"verifharness/internal/rep"
)

type pollScenario struct {
	DirectIO bool     `json:"direct_io"`
	Pipe     bool     `json:"pipelining"`
	Workers  int      `json:"workers"`
	Actions  []string `json:"actions"`
	Name     string   `json:"name,omitempty"`
}

var errAgain = errors.New("harness: no complete message yet")

type pollConn struct {
	env    *pollEnv
	id     int
	mu     sync.Mutex
	cond   *sync.Cond
	in     [][]byte
	eof    bool
	closed bool
	out    []uint64 // sequence numbers of the responses written, in order
	ctx    socket.Context
}

func (c *pollConn) ReadMessage(buf []byte) ([]byte, error) {
	c.mu.Lock()
	defer c.mu.Unlock()
	if len(c.in) > 0 {
		f := c.in[0]
		c.in = c.in[1:]
		return append(buf[:0], f...), nil
	}
	if c.eof || c.closed {
		return nil, io.EOF
	}
	return nil, errAgain
}

func (c *pollConn) WriteMessage(b []byte) error {
	r, ok := decodeResponse("pb", append([]byte(nil), b...))
	c.mu.Lock()
	defer c.mu.Unlock()
	if c.closed {
		return io.EOF
	}
	if ok {
		c.out = append(c.out, r.Seq)
	}
	return nil
}

func (c *pollConn) Close() error {
	c.mu.Lock()
	c.closed = true
	c.mu.Unlock()
	c.cond.Broadcast()
	return nil
}

type pollListener struct {
	env    *pollEnv
	closed chan struct{}
	once   sync.Once
	ready  chan struct{}
	opened func(socket.Messages) (socket.Context, error)
	serve  func(socket.Context) error
}

func (l *pollListener) Accept() (socket.Conn, error) { <-l.closed; return nil, io.EOF }
func (l *pollListener) Close() error                 { l.once.Do(func() { close(l.closed) }); return nil }
func (l *pollListener) Addr() net.Addr               { return &net.TCPAddr{} }
func (l *pollListener) Serve(netpoll.Handler) error  { <-l.closed; return nil }
func (l *pollListener) ServeData(func(net.Conn) error, func([]byte) []byte) error {
	<-l.closed
	return nil
}
func (l *pollListener) ServeConn(func(net.Conn) (socket.Context, error), func(socket.Context) error) error {
	<-l.closed
	return nil
}
func (l *pollListener) ServeMessages(opened func(socket.Messages) (socket.Context, error), serve func(socket.Context) error) error {
	l.opened, l.serve = opened, serve
	close(l.ready)
	<-l.closed
	return nil
}

type pollSocket struct{ lis *pollListener }

func (s *pollSocket) Scheme() string                         { return "fakepoll" }
func (s *pollSocket) Dial(string) (socket.Conn, error)       { return nil, errors.New("not used") }
func (s *pollSocket) Listen(string) (socket.Listener, error) { return s.lis, nil }

// slowEncoder delays the decoding of chosen requests (by sequence number).
type slowEncoder struct {
	rpc.Encoder
	env *pollEnv
}
type slowCodec struct {
	rpc.Codec
	env *pollEnv
}

func (e *slowEncoder) NewCodec() rpc.Codec { return &slowCodec{e.Encoder.NewCodec(), e.env} }
func (c *slowCodec) Unmarshal(data []byte, v interface{}) error {
	err := c.Codec.Unmarshal(data, v)
	if rq, ok := v.(rpc.Request); ok && err == nil {
		c.env.mu.Lock()
		d := c.env.slow[rq.GetSeq()]
		c.env.mu.Unlock()
		if d > 0 {
			time.Sleep(d)
		}
	}
	return err
}

type PSvc struct{ e *pollEnv }

func (p *PSvc) Do(args *[]byte, reply *[]byte) error {
	k := -1
	if len(*args) >= 8 {
		k = int(binary.BigEndian.Uint64((*args)[:8]))
	}
	p.e.mu.Lock()
	p.e.execs = append(p.e.execs, k)
	p.e.running++
	if p.e.running > p.e.maxRunning {
		p.e.maxRunning = p.e.running
	}
	p.e.mu.Unlock()
	time.Sleep(200 * time.Microsecond)
	p.e.mu.Lock()
	p.e.running--
	p.e.mu.Unlock()
	*reply = append([]byte("ok:"), (*args)[:8]...)
	return nil
}

func (p *PSvc) Stream(st *hStream) error {
	p.e.mu.Lock()
	p.e.handlers++
	p.e.mu.Unlock()
	var m []byte
	for {
		if err := st.Read(nil, &m); err != nil {
			break
		}
	}
	p.e.mu.Lock()
	p.e.handlersExited++
	p.e.mu.Unlock()
	return nil
}

type pollEnv struct {
	mu             sync.Mutex
	server         *rpc.Server
	lis            *pollListener
	conns          []*pollConn
	slow           map[uint64]time.Duration
	execs          []int
	running        int
	maxRunning     int
	handlers       int
	handlersExited int
	sent           map[int][]int // per connection: request ids in the order they were queued
	unarySeq       map[int]map[uint64]bool
	seqOf          map[int]uint64
	workers        int
	stop           chan struct{}
	wg             sync.WaitGroup
	listenDone     chan struct{}
}

func newPollEnv(sc pollScenario) (*pollEnv, error) {
	e := &pollEnv{slow: map[uint64]time.Duration{}, sent: map[int][]int{}, unarySeq: map[int]map[uint64]bool{}, seqOf: map[int]uint64{}, workers: sc.Workers, stop: make(chan struct{}), listenDone: make(chan struct{})}
	e.lis = &pollListener{env: e, closed: make(chan struct{}), ready: make(chan struct{})}
	s := rpc.NewServer()
	s.SetLogLevel(rpc.OffLogLevel)
	s.RegisterName("P", &PSvc{e: e})
	s.SetPoll(true)
	s.SetPipelining(sc.Pipe)
	s.SetDirectIO(sc.DirectIO)
	e.server = s
	opts := &rpc.Options{
		NewSocket:        func(*tls.Config) socket.Socket { return &pollSocket{e.lis} },
		NewCodec:         func() rpc.Codec { return srvBody{} },
		NewHeaderEncoder: func() rpc.Encoder { return &slowEncoder{rpc.NewPBEncoder(), e} },
	}
	go func() {
		s.ListenWithOptions("x", opts)
		close(e.listenDone)
	}()
	select {
	case <-e.lis.ready:
	case <-time.After(2 * time.Second):
		return nil, errors.New("the server never called ServeMessages")
	}
	return e, nil
}

func (e *pollEnv) open() *pollConn {
	c := &pollConn{env: e, id: len(e.conns)}
	c.cond = sync.NewCond(&c.mu)
	ctx, _ := e.lis.opened(c)
	c.ctx = ctx
	e.mu.Lock()
	e.conns = append(e.conns, c)
	e.mu.Unlock()
	// netpoll's workers: whenever the connection is readable, some worker runs the serve callback —
	// several of them at once if several events are pending
	for w := 0; w < e.workers; w++ {
		e.wg.Add(1)
		go func() {
			defer e.wg.Done()
			for {
				c.mu.Lock()
				for len(c.in) == 0 && !c.eof && !c.closed {
					c.cond.Wait()
				}
				done := c.closed || (c.eof && len(c.in) == 0)
				c.mu.Unlock()
				err := e.lis.serve(c.ctx)
				if os.Getenv("POLL_DEBUG") != "" {
					fmt.Fprintln(os.Stderr, "serve returned", err)
				}
				if done || err == io.EOF {
					return
				}
			}
		}()
	}
	return c
}

func pollRequest(k int, seq uint64, up byte, method string) []byte {
	args := make([]byte, 16)
	binary.BigEndian.PutUint64(args[:8], uint64(k))
	v := reqVal{Seq: seq, Method: []byte(method), Args: args}
	if up != 0 {
		v.Upgrade = []byte{up}
	}
	return encodeRequest("pb", v)
}

type pollResult struct {
	actions []string
	env     *pollEnv
	stuck   string
}

// actions: conn | req <c> <k> [slow_ms] | burst <c> <k1,k2,..> <slow-first_ms> | open <c> <k> | eof <c> | wait
func runPollScenario(sc pollScenario) (*pollResult, error) {
	e, err := newPollEnv(sc)
	if err != nil {
		return nil, err
	}
	res := &pollResult{env: e}
	seq := map[int]uint64{}
	for _, a := range sc.Actions {
		f := strings.Fields(a)
		switch f[0] {
		case "conn":
			e.open()
		case "req", "open":
			c := e.conns[atoi(f[1])]
			k := atoi(f[2])
			q := seq[c.id]
			seq[c.id]++
			if len(f) > 3 {
				e.mu.Lock()
				e.slow[q] = time.Duration(atoi(f[3])) * time.Millisecond
				e.mu.Unlock()
			}
			var fr []byte
			if f[0] == "open" {
				fr = pollRequest(k, q, 0xC8, "P.Stream") // noRequest | noResponse | openStream
			} else {
				fr = pollRequest(k, q, 0, "P.Do")
				e.mu.Lock()
				e.sent[c.id] = append(e.sent[c.id], k)
				e.noteUnary(c.id, q)
				e.mu.Unlock()
			}
			c.mu.Lock()
			c.in = append(c.in, fr)
			c.mu.Unlock()
			c.cond.Broadcast()
		case "burst":
			c := e.conns[atoi(f[1])]
			var frames [][]byte
			for i, ks := range strings.Split(f[2], ",") {
				k := atoi(ks)
				q := seq[c.id]
				seq[c.id]++
				if i == 0 && len(f) > 3 {
					e.mu.Lock()
					e.slow[q] = time.Duration(atoi(f[3])) * time.Millisecond
					e.mu.Unlock()
				}
				frames = append(frames, pollRequest(k, q, 0, "P.Do"))
				e.mu.Lock()
				e.sent[c.id] = append(e.sent[c.id], k)
				e.noteUnary(c.id, q)
				e.mu.Unlock()
			}
			c.mu.Lock()
			c.in = append(c.in, frames...)
			c.mu.Unlock()
			c.cond.Broadcast()
		case "openeof":
			// a stream-open request (slowly decoded) with the end of the connection right behind it
			c := e.conns[atoi(f[1])]
			q := seq[c.id]
			seq[c.id]++
			e.mu.Lock()
			e.slow[q] = time.Duration(atoi(f[3])) * time.Millisecond
			e.mu.Unlock()
			c.mu.Lock()
			c.in = append(c.in, pollRequest(atoi(f[2]), q, 0xC8, "P.Stream"))
			c.eof = true
			c.mu.Unlock()
			c.cond.Broadcast()
		case "eof":
			c := e.conns[atoi(f[1])]
			c.mu.Lock()
			c.eof = true
			c.mu.Unlock()
			c.cond.Broadcast()
		case "wait":
		default:
			continue
		}
		if !gate.Settle(3 * time.Second) {
			res.stuck = a
		}
		res.actions = append(res.actions, a)
	}
	return res, nil
}

func (e *pollEnv) noteUnary(cid int, q uint64) {
	if e.unarySeq[cid] == nil {
		e.unarySeq[cid] = map[uint64]bool{}
	}
	e.unarySeq[cid][q] = true
}

func (e *pollEnv) finish() {
	for _, c := range e.conns {
		c.mu.Lock()
		c.eof = true
		c.mu.Unlock()
		c.cond.Broadcast()
	}
	gate.Settle(2 * time.Second)
	e.server.Close()
	e.lis.Close()
	for _, c := range e.conns {
		c.Close()
	}
	select {
	case <-e.listenDone:
	case <-time.After(2 * time.Second):
	}
	gate.Settle(time.Second)
}

func checkPoll(sc pollScenario, r *pollResult) []connVerdict {
	var out []connVerdict
	add := func(prop, mon, key, what string) { out = append(out, connVerdict{prop, mon, key, what}) }
	e := r.env
	mode := fmt.Sprintf("dio%d-pipe%d", b2i(sc.DirectIO), b2i(sc.Pipe))
	e.mu.Lock()
	defer e.mu.Unlock()
	count := map[int]int{}
	for _, k := range e.execs {
		count[k]++
	}
	for cid, ks := range e.sent {
		for _, k := range ks {
			if count[k] != 1 {
				add("C04", "executed-once", "C04/poll-executions/"+mode, fmt.Sprintf("request %d of connection %d was executed %d times in poll mode", k, cid, count[k]))
			}
		}
		c := e.conns[cid]
		c.mu.Lock()
		var outs []uint64
		for _, q := range c.out {
			if e.unarySeq[cid][q] {
				outs = append(outs, q)
			}
		}
		nout := len(outs)
		c.mu.Unlock()
		if nout != len(ks) {
			add("C04", "one-response", "C04/poll-responses/"+mode, fmt.Sprintf("connection %d: %d requests, %d responses in poll mode", cid, len(ks), nout))
		}
		if sc.Pipe {
			// C05: executed one at a time, in the order sent; responses in that order
			var mine []int
			in := map[int]bool{}
			for _, k := range ks {
				in[k] = true
			}
			for _, k := range e.execs {
				if in[k] {
					mine = append(mine, k)
				}
			}
			if fmt.Sprint(mine) != fmt.Sprint(ks) {
				add("C05", "server-order", "C05/poll-execution-order/"+mode, fmt.Sprintf("connection %d (poll mode, pipelining): requests sent in order %v were executed in order %v", cid, ks, mine))
			}
			for i := 1; i < len(outs); i++ {
				if outs[i] < outs[i-1] {
					add("C05", "server-response-order", "C05/poll-response-order/"+mode, fmt.Sprintf("connection %d (poll mode, pipelining): responses written with sequence numbers %v", cid, outs))
					break
				}
			}
		}
	}
	if sc.Pipe && len(e.conns) == 1 && e.maxRunning > 1 {
		add("C05", "server-serial", "C05/poll-overlap/"+mode, fmt.Sprintf("%d handlers of one pipelining connection ran at once in poll mode", e.maxRunning))
	}
	// C10: after the peer has gone every stream handler of the connection has returned
	eofAll := true
	for _, a := range r.actions {
		if strings.HasPrefix(a, "open ") {
			eofAll = eofAll && strings.Contains(strings.Join(r.actions, ";"), "eof "+strings.Fields(a)[1])
		}
	}
	if e.handlers > 0 && eofAll && e.handlersExited < e.handlers {
		add("C10", "handler-unblocked", "C10/poll-handler-blocked-after-eof/"+mode, fmt.Sprintf("%d of %d stream handlers still blocked after their connections ended (poll mode)", e.handlers-e.handlersExited, e.handlers))
	}
	if r.stuck != "" {
		add("C03", "quiescence", "C03/poll-not-quiescent", "poll-mode server did not become quiescent within 3 s after action "+r.stuck)
	}
	return out
}

func pollCorpus() []pollScenario {
	var out []pollScenario
	for _, m := range []struct{ d, p bool }{{true, true}, {false, true}, {true, false}, {false, false}} {
		mk := func(name string, workers int, acts ...string) {
			out = append(out, pollScenario{DirectIO: m.d, Pipe: m.p, Workers: workers, Actions: acts, Name: name})
		}
		mk("two-workers-slow-first", 2, "conn", "burst 0 1,2 25", "wait", "eof 0", "wait")
		mk("three-workers-burst", 3, "conn", "burst 0 1,2,3,4,5,6 10", "wait", "burst 0 7,8,9", "wait", "eof 0", "wait")
		mk("burst-then-eof", 2, "conn", "burst 0 1,2,3,4,5,6,7,8", "eof 0", "wait")
		mk("two-connections", 2, "conn", "conn", "burst 0 1,2,3 15", "burst 1 11,12,13 15", "wait", "eof 0", "eof 1", "wait")
		mk("stream-open-then-eof-at-once", 2, "conn", "openeof 0 1 40", "wait", "wait")
		mk("stream-then-eof", 2, "conn", "open 0 1", "wait", "req 0 2", "wait", "eof 0", "wait")
	}
	return out
}

func genPollScenario(r *prng.R) pollScenario {
	sc := pollScenario{DirectIO: r.Chance(1, 2), Pipe: r.Chance(3, 4), Workers: 1 + r.Intn(4)}
	nc := 1 + r.Intn(3)
	for i := 0; i < nc; i++ {
		sc.Actions = append(sc.Actions, "conn")
	}
	next := 1
	n := 3 + r.Intn(8)
	for i := 0; i < n; i++ {
		c := r.Intn(nc)
		switch x := r.Intn(10); {
		case x < 5:
			m := 2 + r.Intn(6)
			var ks []string
			for j := 0; j < m; j++ {
				ks = append(ks, fmt.Sprint(next))
				next++
			}
			sc.Actions = append(sc.Actions, fmt.Sprintf("burst %d %s %d", c, strings.Join(ks, ","), []int{0, 5, 15, 30}[r.Intn(4)]))
		case x < 8:
			sc.Actions = append(sc.Actions, fmt.Sprintf("req %d %d %d", c, next, []int{0, 0, 10}[r.Intn(3)]))
			next++
		case x < 9:
			sc.Actions = append(sc.Actions, fmt.Sprintf("open %d %d", c, next))
			next++
		default:
			sc.Actions = append(sc.Actions, "wait")
		}
	}
	for i := 0; i < nc; i++ {
		sc.Actions = append(sc.Actions, fmt.Sprintf("eof %d", i))
	}
	sc.Actions = append(sc.Actions, "wait")
	return sc
}

func pollScenarios(seed uint64, tier string) []pollScenario {
	r := prng.New(seed ^ 0x504f4c4c)
	scs := pollCorpus()
	n := 40
	if tier == "thorough" {
		n = 600
	}
	for i := 0; i < n; i++ {
		scs = append(scs, genPollScenario(r.Fork()))
	}
	return scs
}

func runOnePoll(i int, sc pollScenario) *scenarioOut {
	out := &scenarioOut{Counters: map[string]int{}}
	res, err := runPollScenario(sc)
	if err != nil {
		out.Violations = append(out.Violations, rep.Violation{Property: "C12", Monitor: "configuration-starts", Key: "C12/poll-listen", What: err.Error(), Replay: map[string]interface{}{"component": "poll", "scenario": sc}})
		return out
	}
	if os.Getenv("CORR_DEBUG") != "" {
		fmt.Fprintf(os.Stderr, "scenario %d %s dio=%v pipe=%v workers=%d %v execs=%v\n", i, sc.Name, sc.DirectIO, sc.Pipe, sc.Workers, sc.Actions, res.env.execs)
	}
	kinds := make([]string, len(res.actions))
	for j, a := range res.actions {
		kinds[j] = strings.Fields(a)[0]
		out.Counters["action."+kinds[j]]++
	}
	out.Key = fmt.Sprintf("dio%d pipe%d w%d %s", b2i(sc.DirectIO), b2i(sc.Pipe), sc.Workers, strings.Join(res.actions, ";"))
	out.Counters["requests"] = len(res.env.execs)
	if i%17 == 0 {
		out.Sample = map[string]interface{}{"scenario": sc, "executions": res.env.execs}
	}
	for _, v := range checkPoll(sc, res) {
		out.Violations = append(out.Violations, rep.Violation{Property: v.prop, Monitor: v.monitor, Key: v.key, What: v.what,
			Replay: map[string]interface{}{"component": "poll", "index": i, "scenario": sc, "executions": res.env.execs}})
	}
	res.env.finish()
	return out
}

func runPoll(dir string, seed uint64, tier, only, replay string) *rep.Report {
	rp := rep.New("poll", seed, tier)
	scs := pollScenarios(seed, tier)
	if workerRange != "" {
		var from, to int
		fmt.Sscanf(workerRange, "%d:%d", &from, &to)
		workerMain(len(scs), from, to, func(i int) interface{} { return scs[i] }, func(i int) *scenarioOut { return runOnePoll(i, scs[i]) })
		os.Exit(0)
	}
	if only != "" {
		for i, sc := range scs {
			if only == sc.Name || only == fmt.Sprint(i) {
				runOnePoll(i, sc)
			}
		}
		return rp
	}
	parentLoopN("poll", dir, len(scs), []string{"-out", dir, "-seed", fmt.Sprint(seed), "-tier", tier}, rp, nil, []string{"C08"}, 60*time.Second, 8)
	return rp
}

func init() { components["poll"] = runPoll }
