package main

import "verifharness/internal/rep"

// components registered by the other files of this package.
var components = map[string]func(dir string, seed uint64, tier, only, replay string) *rep.Report{}
