// corr: the implementation side of the correspondence check. Each sub-command runs the real
// hslam/rpc code in-process under generated inputs or scripts, writes the case/trace files the
// Lean driver consumes, evaluates the property monitors on what the implementation did, and
// leaves <component>.report.json in the output directory.
package main

import (
	"flag"
	"fmt"
	"os"
	"strconv"
)

var workerRange string

func main() {
	if len(os.Args) < 2 {
		fmt.Fprintln(os.Stderr, "usage: corr <component> -out dir [-seed n] [-tier quick|thorough]")
		os.Exit(2)
	}
	comp := os.Args[1]
	fs := flag.NewFlagSet(comp, flag.ExitOnError)
	out := fs.String("out", "", "output directory")
	seedS := fs.String("seed", "1", "seed")
	tier := fs.String("tier", "quick", "quick|thorough")
	only := fs.String("only", "", "component-specific filter")
	replay := fs.String("replay", "", "replay file")
	fs.StringVar(&workerRange, "worker", "", "internal: run scenarios from:to and stream results")
	fs.Parse(os.Args[2:])
	seed, err := strconv.ParseUint(*seedS, 10, 64)
	if err != nil {
		seed = 1
	}
	if *out == "" {
		fmt.Fprintln(os.Stderr, "need -out")
		os.Exit(2)
	}
	must(os.MkdirAll(*out, 0o755))
	_ = replay
	switch comp {
	case "wire":
		rp := runWire(*out, seed, *tier, *only)
		must(rp.Write(*out))
	default:
		if f, ok := components[comp]; ok {
			rp := f(*out, seed, *tier, *only, *replay)
			must(rp.Write(*out))
			return
		}
		fmt.Fprintln(os.Stderr, "unknown component", comp)
		os.Exit(2)
	}
}
