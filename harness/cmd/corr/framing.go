package main

// framing: differential correspondence for hslam/socket's message framing (the layer that turns
// a byte stream into frames). The real socket.NewMessages reads from a scripted
// io.ReadWriteCloser that delivers exactly the chunks of the case; the Lean model reads the
// same chunks. Monitor (C01): whatever the fragmentation/batching, the messages read are the
// messages written, in order, byte for byte.

import (
	"bytes"
	"encoding/hex"
	"fmt"
	"io"
	"strings"

	"github.com/hslam/socket"
	"verifharness/internal/prng"
	"verifharness/internal/rep"
)

type chunkRWC struct {
	chunks [][]byte
	out    bytes.Buffer
}

func (c *chunkRWC) Read(p []byte) (int, error) {
	for len(c.chunks) > 0 && len(c.chunks[0]) == 0 {
		c.chunks = c.chunks[1:]
	}
	if len(c.chunks) == 0 {
		return 0, io.EOF
	}
	n := copy(p, c.chunks[0])
	c.chunks[0] = c.chunks[0][n:]
	return n, nil
}
func (c *chunkRWC) Write(p []byte) (int, error) { return c.out.Write(p) }
func (c *chunkRWC) Close() error                { return nil }

func splitChunks(r *prng.R, stream []byte) [][]byte {
	var out [][]byte
	for len(stream) > 0 {
		n := len(stream)
		switch r.Intn(5) {
		case 0:
			n = 1
		case 1:
			n = 1 + r.Intn(4)
		case 2:
			n = 1 + r.Intn(len(stream))
		case 3:
			n = 1 + r.Intn(200)
		}
		if n > len(stream) {
			n = len(stream)
		}
		out = append(out, stream[:n])
		stream = stream[n:]
	}
	return out
}

func runFraming(dir string, seed uint64, tier, only, replay string) *rep.Report {
	rp := rep.New("framing", seed, tier)
	in, err := rep.Create(dir + "/framing.f.inputs.txt")
	must(err)
	im, err := rep.Create(dir + "/framing.f.impl.txt")
	must(err)
	r := prng.New(seed ^ 0x4652414d)
	n := 400
	if tier == "thorough" {
		n = 6000
	}
	lens := []int{0, 1, 2, 126, 127, 128, 129, 255, 256, 1000, 16383, 16384, 16385, 70000}
	for i := 0; i < n; i++ {
		k := 1 + r.Intn(6)
		var msgs [][]byte
		var stream []byte
		for j := 0; j < k; j++ {
			l := lens[r.Intn(len(lens)-3)]
			if r.Chance(1, 15) {
				l = lens[r.Intn(len(lens))]
			}
			m := r.Bytes(l)
			msgs = append(msgs, m)
			// write through the real implementation
			w := &chunkRWC{}
			mw := socket.NewMessages(w, false)
			if err := mw.WriteMessage(m); err != nil {
				rp.Note("WriteMessage failed: %v", err)
			}
			framed := append([]byte(nil), w.out.Bytes()...)
			in.Println("wr " + hx(m))
			im.Println("ok " + hx(framed))
			stream = append(stream, framed...)
		}
		truncated := r.Chance(1, 6)
		if truncated && len(stream) > 1 {
			stream = stream[:1+r.Intn(len(stream)-1)]
		}
		chunks := splitChunks(r, stream)
		cs := make([]string, len(chunks))
		for j, c := range chunks {
			cs[j] = hex.EncodeToString(c)
		}
		rwc := &chunkRWC{chunks: append([][]byte(nil), chunks...)}
		mr := socket.NewMessages(rwc, false)
		var got [][]byte
		var rerr error
		for {
			m, err := mr.ReadMessage(nil)
			if err != nil {
				rerr = err
				break
			}
			got = append(got, append([]byte(nil), m...))
		}
		gs := make([]string, len(got))
		consumed := 0
		for j, g := range got {
			gs[j] = hx(g)
			consumed += len(refVarint(uint64(len(g)))) + len(g)
		}
		rest := stream[consumed:]
		in.Println("rd " + strings.Join(cs, ","))
		im.Println("ok " + strings.Join(gs, ",") + " rest=" + hx(rest))
		rp.Case(fmt.Sprintf("msgs=%v chunks=%d trunc=%v", lensOf(msgs), len(chunks), truncated))
		rp.Count("read-end." + classify(rerr))
		if i%80 == 0 {
			rp.Sample(map[string]interface{}{"messages": k, "message_lengths": lensOf(msgs), "chunks": len(chunks), "truncated": truncated})
		}
		// monitor
		want := msgs
		if truncated {
			want = msgs[:len(got)]
			if len(got) > len(msgs) {
				want = msgs
			}
		}
		ok := len(got) == len(want)
		for j := 0; ok && j < len(got); j++ {
			ok = bytes.Equal(got[j], want[j])
		}
		if !ok {
			rp.Violate(rep.Violation{Property: "C01", Monitor: "framing-independent-of-fragmentation", Key: "C01/framing", What: fmt.Sprintf("messages read differ from messages written (%d read, %d written, %d chunks)", len(got), len(msgs), len(chunks)),
				Replay: map[string]interface{}{"component": "framing", "message_lengths": lensOf(msgs), "chunks": cs}})
		}
	}
	must(in.Close())
	must(im.Close())
	return rp
}

func lensOf(ms [][]byte) []int {
	out := make([]int, len(ms))
	for i, m := range ms {
		out[i] = len(m)
	}
	return out
}

func init() { components["framing"] = runFraming }
