package main

// chunksock: a socket.Socket whose connections fragment, coalesce and delay the byte stream
// (C01: "however the byte stream is fragmented, batched or delayed"). The framing on top of it is
// the real socket.NewMessages.

import (
	"crypto/tls"
	"errors"
	"io"
	"net"
	"sync"
	"time"

	"github.com/hslam/netpoll"
	"github.com/hslam/socket"
)

type chunkConn struct {
	net.Conn
	wmu  sync.Mutex // serialises writers (chunks of two writes must not interleave)
	rmu  sync.Mutex // protects seed only; never held across I/O
	seed uint64
}

func (c *chunkConn) rnd() uint64 {
	c.rmu.Lock()
	defer c.rmu.Unlock()
	c.seed += 0x9e3779b97f4a7c15
	z := c.seed
	z = (z ^ (z >> 30)) * 0xbf58476d1ce4e5b9
	z = (z ^ (z >> 27)) * 0x94d049bb133111eb
	return z ^ (z >> 31)
}

// Write splits the data into random chunks (1 byte … the whole thing), sometimes with a pause.
func (c *chunkConn) Write(b []byte) (int, error) {
	c.wmu.Lock()
	defer c.wmu.Unlock()
	total := 0
	for len(b) > 0 {
		n := len(b)
		switch c.rnd() % 4 {
		case 0:
			n = 1
		case 1:
			n = 1 + int(c.rnd()%7)
		case 2:
			n = 1 + int(c.rnd()%uint64(len(b)))
		}
		if n > len(b) {
			n = len(b)
		}
		m, err := c.Conn.Write(b[:n])
		total += m
		if err != nil {
			return total, err
		}
		b = b[n:]
		if c.rnd()%16 == 0 {
			time.Sleep(20 * time.Microsecond)
		}
	}
	return total, nil
}

// Read returns at most a random prefix of what was asked for.
func (c *chunkConn) Read(b []byte) (int, error) {
	if len(b) > 1 {
		n := 1 + int(c.rnd()%uint64(len(b)))
		b = b[:n]
	}
	return c.Conn.Read(b)
}

func (c *chunkConn) Messages() socket.Messages { return socket.NewMessages(c, false) }
func (c *chunkConn) Connection() net.Conn      { return c.Conn }

type chunkSocket struct{}

var chunkListeners sync.Map // address -> *chunkListener

type chunkListener struct {
	addr   string
	ch     chan net.Conn
	closed chan struct{}
	once   sync.Once
}

func newChunkSocket(config *tls.Config) socket.Socket { return &chunkSocket{} }

func (s *chunkSocket) Scheme() string { return "chunk" }

func (s *chunkSocket) Dial(address string) (socket.Conn, error) {
	v, ok := chunkListeners.Load(address)
	if !ok {
		return nil, errors.New("chunk: connection refused")
	}
	l := v.(*chunkListener)
	a, b := net.Pipe()
	select {
	case l.ch <- b:
		return &chunkConn{Conn: a, seed: uint64(time.Now().UnixNano())}, nil
	case <-l.closed:
		return nil, errors.New("chunk: connection refused")
	case <-time.After(time.Second):
		return nil, errors.New("chunk: dial timeout")
	}
}

func (s *chunkSocket) Listen(address string) (socket.Listener, error) {
	l := &chunkListener{addr: address, ch: make(chan net.Conn), closed: make(chan struct{})}
	chunkListeners.Store(address, l)
	return l, nil
}

func (l *chunkListener) Accept() (socket.Conn, error) {
	select {
	case c := <-l.ch:
		return &chunkConn{Conn: c, seed: uint64(time.Now().UnixNano()) ^ 0xabcdef}, nil
	case <-l.closed:
		return nil, io.EOF
	}
}

func (l *chunkListener) Close() error {
	l.once.Do(func() {
		close(l.closed)
		chunkListeners.Delete(l.addr)
	})
	return nil
}

type chunkAddr string

func (a chunkAddr) Network() string { return "chunk" }
func (a chunkAddr) String() string  { return string(a) }

func (l *chunkListener) Addr() net.Addr { return chunkAddr(l.addr) }

func (l *chunkListener) Serve(handler netpoll.Handler) error {
	return errors.New("chunk: poll not supported")
}
func (l *chunkListener) ServeData(opened func(net.Conn) error, serve func(req []byte) (res []byte)) error {
	return errors.New("chunk: poll not supported")
}
func (l *chunkListener) ServeConn(opened func(net.Conn) (socket.Context, error), serve func(socket.Context) error) error {
	return errors.New("chunk: poll not supported")
}
func (l *chunkListener) ServeMessages(opened func(socket.Messages) (socket.Context, error), serve func(socket.Context) error) error {
	return errors.New("chunk: poll not supported")
}
