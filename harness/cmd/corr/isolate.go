package main

// isolate: scenarios that drive concurrent library code run in a worker subprocess, because a
// panic in a library goroutine cannot be recovered. The worker streams one JSON line per
// scenario; the parent owns the output files and the report, and when the worker dies it
// records the crash (with the head of the Go panic output) against the scenario that was
// running and restarts the worker behind it.

import (
	"syscall"
	"bufio"
	"bytes"
	"encoding/json"
	"fmt"
	"os"
	"os/exec"
	"strings"
	"sync"
	"sync/atomic"
	"time"

	"verifharness/internal/rep"
)

type scenarioOut struct {
	Idx        int                    `json:"idx"`
	Begin      bool                   `json:"begin,omitempty"`
	Desc       interface{}            `json:"desc,omitempty"`    // scenario description (on begin)
	Streams    map[string][2][]string `json:"streams,omitempty"` // stream -> (input lines, impl lines)
	Key        string                 `json:"key,omitempty"`
	Counters   map[string]int         `json:"counters,omitempty"`
	Sample     interface{}            `json:"sample,omitempty"`
	Violations []rep.Violation        `json:"violations,omitempty"`
}

type scenarioFn func(idx int) *scenarioOut // nil = index out of range

// workerMain runs scenarios [from, to) and streams results to stdout.
func workerMain(total int, from, to int, describe func(int) interface{}, run func(int) *scenarioOut) {
	w := bufio.NewWriterSize(os.Stdout, 1<<20)
	enc := json.NewEncoder(w)
	for i := from; i < to && i < total; i++ {
		enc.Encode(&scenarioOut{Idx: i, Begin: true, Desc: describe(i)})
		w.Flush()
		out := run(i)
		out.Idx = i
		enc.Encode(out)
		w.Flush()
	}
}

// parentLoop drives workers over [0,total) and aggregates into rp and the stream files.
// The index space is split into `parallel` contiguous chunks that run concurrently; the
// outputs are written in index order, so the result does not depend on the parallelism.
func parentLoop(comp string, dir string, total int, args []string, rp *rep.Report, streams []string, crashProps []string, perScenarioTimeout time.Duration) {
	parentLoopN(comp, dir, total, args, rp, streams, crashProps, perScenarioTimeout, 1)
}

func parentLoopN(comp string, dir string, total int, args []string, rp *rep.Report, streams []string, crashProps []string, perScenarioTimeout time.Duration, parallel int) {
	if parallel < 1 {
		parallel = 1
	}
	if parallel > total {
		parallel = total
	}
	results := make([]*scenarioOut, total)
	var mu sync.Mutex
	var wg sync.WaitGroup
	for w := 0; w < parallel; w++ {
		lo, hi := w*total/parallel, (w+1)*total/parallel
		wg.Add(1)
		go func(lo, hi int) {
			defer wg.Done()
			runChunk(comp, lo, hi, args, rp, crashProps, perScenarioTimeout, func(o *scenarioOut) {
				mu.Lock()
				results[o.Idx] = o
				mu.Unlock()
			})
		}(lo, hi)
	}
	wg.Wait()
	files := map[string][2]*rep.Lines{}
	for _, st := range streams {
		in, err := rep.Create(fmt.Sprintf("%s/%s.%s.inputs.txt", dir, comp, st))
		must(err)
		im, err := rep.Create(fmt.Sprintf("%s/%s.%s.impl.txt", dir, comp, st))
		must(err)
		files[st] = [2]*rep.Lines{in, im}
	}
	for _, o := range results {
		if o == nil {
			continue
		}
		for st, ll := range o.Streams {
			f, ok := files[st]
			if !ok {
				continue
			}
			for _, l := range ll[0] {
				f[0].Println(l)
			}
			for _, l := range ll[1] {
				f[1].Println(l)
			}
		}
		rp.Case(o.Key)
		for k, v := range o.Counters {
			rp.Add(k, v)
		}
		if o.Sample != nil {
			rp.Sample(o.Sample)
		}
		for _, v := range o.Violations {
			rp.Violate(v)
		}
	}
	for _, f := range files {
		must(f[0].Close())
		must(f[1].Close())
	}
}

func runChunk(comp string, lo, hi int, args []string, rp *rep.Report, crashProps []string, perScenarioTimeout time.Duration, emit func(*scenarioOut)) {
	next := lo
	crashes := 0
	for next < hi {
		cmd := exec.Command(os.Args[0], append([]string{comp}, append(args, "-worker", fmt.Sprintf("%d:%d", next, hi))...)...)
		var stderr bytes.Buffer
		cmd.Stderr = &stderr
		cmd.Env = append(os.Environ(), "GOTRACEBACK=all")
		stdout, err := cmd.StdoutPipe()
		must(err)
		must(cmd.Start())
		sc := bufio.NewScanner(stdout)
		sc.Buffer(make([]byte, 1<<20), 1<<28)
		running := -1
		var runningDesc interface{}
		var lp atomic.Value
		lp.Store(time.Now())
		done := make(chan struct{})
		go func() {
			t := time.NewTicker(time.Second)
			defer t.Stop()
			for {
				select {
				case <-done:
					return
				case <-t.C:
					if time.Since(lp.Load().(time.Time)) > perScenarioTimeout {
						// SIGQUIT: the Go runtime writes every goroutine's stack to stderr (kept in the
						// replay file: a hang is diagnosed from where the goroutines are parked)
						cmd.Process.Signal(syscall.SIGQUIT)
						time.Sleep(1500 * time.Millisecond)
						cmd.Process.Kill()
						return
					}
				}
			}
		}()
		for sc.Scan() {
			var o scenarioOut
			if json.Unmarshal(sc.Bytes(), &o) != nil {
				continue
			}
			lp.Store(time.Now())
			if o.Begin {
				running, runningDesc = o.Idx, o.Desc
				continue
			}
			running = -1
			next = o.Idx + 1
			oc := o
			emit(&oc)
		}
		err = cmd.Wait()
		close(done)
		if running >= 0 {
			crashes++
			head := panicHead(stderr.String())
			what := "process crashed while running the scenario: " + head
			kind := "crash"
			if time.Since(lp.Load().(time.Time)) > perScenarioTimeout {
				what = fmt.Sprintf("scenario did not finish within %s (hang)", perScenarioTimeout)
				kind = "hang"
			}
			site := crashSite(stderr.String())
			if kind == "hang" {
				site = "unknown" // (the dump of a hang lists every goroutine: there is no one site)
				// a scenario that hung in the middle of a worker's batch is run again alone, in a fresh
				// process, up to twice: if it then completes, what happened depended on the machine's
				// load or on what the process had run before, and says nothing about the scenario; its
				// own result is used and the incident is counted (evidence: worker-hang-not-reproduced)
				if o := rerunAlone(comp, running, args, perScenarioTimeout); o != nil {
					rp.Count("worker-hang-not-reproduced")
					rp.Note("scenario %d of %s did not finish within %s inside a batch but completes when run alone (load-dependent); library frames of the stuck process: %v", running, comp, perScenarioTimeout, libraryFrames(stderr.String()))
					emit(o)
					crashes--
					next = running + 1
					continue
				}
			}
			for _, p := range crashProps {
				rp.Violate(rep.Violation{Property: p, Monitor: "process-survives", Key: fmt.Sprintf("%s/%s/%s/%s", p, kind, comp, site), What: what,
					Replay: map[string]interface{}{"component": comp, "index": running, "scenario": runningDesc, "stderr_head": trunc(stderr.String(), 3000), "library_frames": libraryFrames(stderr.String())}})
			}
			rp.Count("worker-" + kind)
			next = running + 1
			if crashes > 200 {
				rp.Note("gave up after 200 worker crashes")
				break
			}
		} else if err != nil && next < hi {
			rp.Note("worker exited abnormally without a running scenario: %v %s", err, trunc(stderr.String(), 500))
			next++
		}
	}
}

// rerunAlone runs scenario idx in a process of its own (twice at most) and returns its result, or nil
// if it does not complete within the time limit either time.
func rerunAlone(comp string, idx int, args []string, limit time.Duration) *scenarioOut {
	for try := 0; try < 2; try++ {
		cmd := exec.Command(os.Args[0], append([]string{comp}, append(args, "-worker", fmt.Sprintf("%d:%d", idx, idx+1))...)...)
		cmd.Env = append(os.Environ(), "GOTRACEBACK=single")
		var out bytes.Buffer
		cmd.Stdout = &out
		if cmd.Start() != nil {
			return nil
		}
		done := make(chan error, 1)
		go func() { done <- cmd.Wait() }()
		select {
		case <-done:
		case <-time.After(limit):
			cmd.Process.Kill()
			<-done
			continue
		}
		sc := bufio.NewScanner(&out)
		sc.Buffer(make([]byte, 1<<20), 1<<28)
		for sc.Scan() {
			var o scenarioOut
			if json.Unmarshal(sc.Bytes(), &o) == nil && !o.Begin && o.Idx == idx {
				return &o
			}
		}
	}
	return nil
}

// libraryFrames: for every goroutine of a dump that is inside github.com/hslam/rpc, its state and
// its frames in the library (at most 120 goroutines).
func libraryFrames(s string) []string {
	var out []string
	for _, g := range strings.Split(s, "\n\n") {
		if !strings.HasPrefix(g, "goroutine ") || !strings.Contains(g, "github.com/hslam/rpc.") {
			continue
		}
		lines := strings.Split(g, "\n")
		entry := lines[0]
		for _, l := range lines[1:] {
			if strings.HasPrefix(l, "github.com/hslam/") || strings.HasPrefix(l, "sync.") || strings.HasPrefix(l, "main.") {
				if i := strings.LastIndex(l, "("); i > 0 {
					l = l[:i]
				}
				entry += " | " + strings.TrimPrefix(l, "github.com/hslam/")
			}
		}
		out = append(out, trunc(entry, 600))
		if len(out) >= 120 {
			break
		}
	}
	return out
}

func panicHead(s string) string {
	for _, l := range strings.Split(s, "\n") {
		if strings.HasPrefix(l, "panic:") || strings.HasPrefix(l, "fatal error:") {
			return trunc(l, 200)
		}
	}
	return trunc(strings.TrimSpace(s), 200)
}

// crashSite: the first frame inside github.com/hslam/rpc of the panicking goroutine.
func crashSite(s string) string {
	for _, l := range strings.Split(s, "\n") {
		l = strings.TrimSpace(l)
		if strings.HasPrefix(l, "github.com/hslam/rpc.") {
			if i := strings.Index(l, "("); i > 0 {
				rest := l[len("github.com/hslam/rpc."):]
				// keep "(*Conn).send" style names
				if j := strings.LastIndex(rest, "("); j > 0 {
					return strings.TrimSpace(rest[:j])
				}
				return rest
			}
		}
	}
	return "unknown"
}
