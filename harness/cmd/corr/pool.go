package main

// pool: scripted runs of the real *rpc.Transport (model component P) — C13, C14, C15 and the
// Transport part of C20. Transport.Dial is a harness function that returns a real *rpc.Conn
// (NewConnWithCodec over the real client codec) on top of an in-memory scripted server, so
// that the harness counts every dial and every socket close, decides which servers are up,
// and holds chosen calls open. The private housekeeping period is shortened through the
// verif-tagged accessor; scenario time is organised in phases whose outcome does not depend
// on where exactly the ticks fall (short: nothing ages; medium: KeepAlive passes but not
// IdleConnTimeout; long: both pass), with margins of ≥ 20 ticks around every threshold.

import (
	"errors"
	"bytes"
	"context"
	"encoding/binary"
	"fmt"
	"io"
	"os"
	"sort"
	"strings"
	"sync"
	"time"

	"github.com/hslam/rpc"
	"verifharness/internal/gate"
	"verifharness/internal/prng"
	"verifharness/internal/rep"
)

const (
	poolTick      = 4 * time.Millisecond
	poolKeepAlive = 360 * time.Millisecond
	poolIdleTO    = 1440 * time.Millisecond
	poolShort     = 10 * time.Millisecond
	poolMedium    = 810 * time.Millisecond // > KeepAlive + margin, < IdleConnTimeout - margin (measured from last use)
	poolLong      = 3300 * time.Millisecond
	poolAlmost    = 210 * time.Millisecond // well below KeepAlive
	poolGap       = 250 * time.Millisecond // almost + gap is well above KeepAlive, gap alone well below
)

type pconn struct {
	id       int
	addr     string
	env      *poolEnv
	conn     *rpc.Conn
	feed     chan feedItem
	closeC   chan struct{}
	mu       sync.Mutex
	closed   bool          // socket closed by the client
	dead     bool          // server side gone
	eofSeen  chan struct{} // closed once the EOF of a kill has been taken by the reader (or the socket closed)
	nPing    int
	nStreams int            // streams open on this connection (opened, not yet closed by their owner)
	held     map[int]uint64 // call k -> seq, waiting for `finish`
}

func (c *pconn) ReadMessage(buf []byte) ([]byte, error) {
	select {
	case it := <-c.feed:
		if it.err != nil {
			return nil, it.err
		}
		var p []byte
		if cap(buf) >= len(it.frame) {
			p = buf[:len(it.frame)]
		} else {
			p = make([]byte, len(it.frame))
		}
		copy(p, it.frame)
		return p, nil
	case <-c.closeC:
		return nil, io.EOF
	}
}

func (c *pconn) WriteMessage(b []byte) error {
	c.mu.Lock()
	if c.closed || c.dead {
		c.mu.Unlock()
		return io.EOF
	}
	c.mu.Unlock()
	r, ok := refParsePbReq(append([]byte(nil), b...))
	if !ok {
		return nil
	}
	if len(r.Upgrade) == 1 && r.Upgrade[0]&0x20 == 0 && (r.Upgrade[0]>>3)&3 != 0 {
		// stream open / close: acknowledged; stream messages are not used here
		switch (r.Upgrade[0] >> 3) & 3 {
		case 1:
			c.mu.Lock()
			c.nStreams++
			c.mu.Unlock()
		case 3:
			c.mu.Lock()
			c.nStreams--
			c.mu.Unlock()
		}
		if (r.Upgrade[0]>>3)&3 != 2 {
			go c.push(refPbRes(resVal{Seq: r.Seq}))
		}
		return nil
	}
	if len(r.Upgrade) == 1 && r.Upgrade[0]&0x20 != 0 { // heartbeat
		c.mu.Lock()
		c.nPing++
		c.mu.Unlock()
		go c.push(refPbRes(resVal{Seq: r.Seq}))
		return nil
	}
	k := -1
	if len(r.Args) >= 8 {
		k = int(binary.BigEndian.Uint64(r.Args[:8]))
	}
	c.env.noteCarried(k, c)
	c.env.mu.Lock()
	hold := c.env.holdCall[k]
	c.env.mu.Unlock()
	if hold {
		c.mu.Lock()
		c.held[k] = r.Seq
		c.mu.Unlock()
		return nil
	}
	go c.push(refPbRes(resVal{Seq: r.Seq, Reply: serverReply(c.addr, r.Args)}))
	return nil
}

func serverReply(addr string, args []byte) []byte {
	return append([]byte(addr+"|"), handlerH("", args)...)
}

func (c *pconn) push(frame []byte) {
	select {
	case c.feed <- feedItem{frame: frame}:
	case <-c.closeC:
	case <-time.After(3 * time.Second):
	}
}

func (c *pconn) Close() error {
	c.env.mu.Lock()
	hold := c.env.holdClose
	gateC := c.env.closeGate
	c.env.mu.Unlock()
	if hold {
		c.env.mu.Lock()
		c.env.parkedClose++
		c.env.mu.Unlock()
		select {
		case <-gateC:
		case <-time.After(3 * time.Second):
		}
	}
	c.mu.Lock()
	first := !c.closed
	if first {
		c.closed = true
		close(c.closeC)
	}
	c.mu.Unlock()
	if first {
		c.env.noteClose(c)
	}
	return nil
}

// kill: the server side of this connection goes away.
func (c *pconn) kill() {
	c.mu.Lock()
	already := c.dead
	c.dead = true
	c.mu.Unlock()
	if !already {
		// how the reader learns of it: a clean EOF, or — on odd-numbered connections with no call
		// outstanding — a read error of another kind (the peer's host vanished: ETIMEDOUT). The
		// library treats both as the end of the connection; with calls outstanding the two differ
		// in the error those calls get, so that case keeps the EOF the model describes.
		var end error = io.EOF
		c.mu.Lock()
		if c.id%2 == 1 && len(c.held) == 0 {
			end = errors.New("read: connection timed out")
		}
		c.mu.Unlock()
		go func() {
			defer close(c.eofSeen)
			select {
			case c.feed <- feedItem{err: end}:
			case <-c.closeC:
			case <-time.After(3 * time.Second):
			}
		}()
	}
}

func (e *poolEnv) waitKilled(addr string) {
	e.mu.Lock()
	conns := append([]*pconn(nil), e.conns...)
	e.mu.Unlock()
	for _, c := range conns {
		c.mu.Lock()
		dead := c.dead
		c.mu.Unlock()
		if c.addr == addr && dead {
			select {
			case <-c.eofSeen:
			case <-time.After(3 * time.Second):
			}
		}
	}
}

type pcall struct {
	k        int
	addr     string
	form     string
	done     bool
	err      error
	reply    []byte
	connID   int
	doneAt   int
	carried  bool
	nCarried int // how many times the request of this call reached a server
	t0, t1   time.Time
}

type poolEnv struct {
	mu                sync.Mutex
	t                 *rpc.Transport
	conns             []*pconn
	up                map[string]bool
	open              map[string]int // currently open sockets per address
	maxOpen           map[string]int
	openAtDial        []string
	dials             int
	dialFails         int
	calls             map[int]*pcall
	holdCall          map[int]bool
	closedBusy        []string // C15: a socket was closed while a call was outstanding on it
	wg                sync.WaitGroup
	maxConns, maxIdle int
	transportClosed   bool
	holdClose         bool
	holdDial          bool          // dials park at dialGate (a slow dial) until `reldial`
	dialGate          chan struct{}
	closeGate         chan struct{}
	parkedClose       int
	nowait            map[int]bool
	hookArm           bool                  // the next Transport.Call parks between getConn and the call
	hookGate          chan struct{}         // … until this is closed
	atHook            map[int]bool          // calls parked there
	openStreams       map[int]chan struct{} // long streams: closed by `finish`
}

func (e *poolEnv) noteCarried(k int, c *pconn) {
	e.mu.Lock()
	if pc := e.calls[k]; pc != nil {
		pc.nCarried++
		pc.connID, pc.carried = c.id, true
	}
	e.mu.Unlock()
}

func (e *poolEnv) noteClose(c *pconn) {
	e.mu.Lock()
	e.open[c.addr]--
	c.mu.Lock()
	nheld := len(c.held)
	nstr := c.nStreams
	dead := c.dead
	c.mu.Unlock()
	if nheld > 0 && !dead && !e.transportClosed {
		e.closedBusy = append(e.closedBusy, fmt.Sprintf("conn %d (%s) closed with %d unanswered call(s)", c.id, c.addr, nheld))
	}
	if nstr > 0 && !dead && !e.transportClosed {
		e.closedBusy = append(e.closedBusy, fmt.Sprintf("conn %d (%s) closed with %d open stream(s)", c.id, c.addr, nstr))
	}
	e.mu.Unlock()
}

func (e *poolEnv) dial(network, address, codec string) (*rpc.Conn, error) {
	e.mu.Lock()
	hd, dg := e.holdDial, e.dialGate
	e.mu.Unlock()
	if hd {
		select {
		case <-dg:
		case <-time.After(10 * time.Second):
		}
	}
	e.mu.Lock()
	if !e.up[address] {
		e.dialFails++
		e.mu.Unlock()
		return nil, fmt.Errorf("connection refused")
	}
	c := &pconn{id: len(e.conns), addr: address, env: e, feed: make(chan feedItem), closeC: make(chan struct{}), held: map[int]uint64{}, eofSeen: make(chan struct{})}
	e.conns = append(e.conns, c)
	e.dials++
	e.open[address]++
	if e.open[address] > e.maxOpen[address] {
		e.maxOpen[address] = e.open[address]
	}
	e.openAtDial = append(e.openAtDial, fmt.Sprintf("%s=%d", address, e.open[address]))
	e.mu.Unlock()
	c.conn = rpc.NewConnWithCodec(rpc.NewClientCodec(bodyCodec{}, nil, c, 0))
	return c.conn, nil
}

type poolScenario struct {
	MaxConns int      `json:"max_conns"`
	MaxIdle  int      `json:"max_idle"`
	Actions  []string `json:"actions"`
	Name     string   `json:"name,omitempty"`
}

func (s poolScenario) header() string {
	return fmt.Sprintf("pool maxconns=%d maxidle=%d", s.MaxConns, s.MaxIdle)
}

func newPoolEnv(sc poolScenario) *poolEnv {
	e := &poolEnv{up: map[string]bool{"A": true, "B": true, "C": true}, open: map[string]int{}, maxOpen: map[string]int{}, calls: map[int]*pcall{}, holdCall: map[int]bool{},
		dialGate: make(chan struct{}), closeGate: make(chan struct{}), nowait: map[int]bool{}, atHook: map[int]bool{}, openStreams: map[int]chan struct{}{}}
	rpc.VerifHook = func(point string) {
		if point != "transport.call.handed" {
			return
		}
		e.mu.Lock()
		arm, gate := e.hookArm, e.hookGate
		e.hookArm = false
		e.mu.Unlock()
		if arm {
			select {
			case <-gate:
			case <-time.After(20 * time.Second):
			}
		}
	}
	e.t = &rpc.Transport{MaxConnsPerHost: sc.MaxConns, MaxIdleConnsPerHost: sc.MaxIdle, KeepAlive: poolKeepAlive, IdleConnTimeout: poolIdleTO, Dial: e.dial}
	e.t.VerifSetTicker(poolTick)
	return e
}

func (e *poolEnv) startCall(k int, addr, form string, hold bool) {
	pc := &pcall{k: k, addr: addr, form: form, connID: -1, doneAt: -1, t0: time.Now()}
	e.mu.Lock()
	e.calls[k] = pc
	e.holdCall[k] = hold
	e.mu.Unlock()
	args := mkArgs(k, 24, 16, byte(k))
	reply := new([]byte)
	e.wg.Add(1)
	go func() {
		defer e.wg.Done()
		var err error
		switch form {
		case "call":
			err = e.t.Call(addr, "S.M", &args, reply)
		case "go":
			c := e.t.Go(addr, "S.M", &args, reply, make(chan *rpc.Call, 1))
			<-c.Done
			err = c.Error
		case "rt":
			c := &rpc.Call{ServiceMethod: "S.M", Args: &args, Reply: reply, Done: make(chan *rpc.Call, 1)}
			e.t.RoundTrip(addr, c)
			<-c.Done
			err = c.Error
		case "ping":
			err = e.t.Ping(addr)
		case "stream":
			var st rpc.Stream
			st, err = e.t.NewStream(addr, "S.Stream")
			if err == nil && st != nil {
				st.Close()
			}
		case "lstream":
			// a stream that stays open until `finish`: the connection is busy although no call is pending
			var st rpc.Stream
			st, err = e.t.NewStream(addr, "S.Stream")
			if err == nil && st != nil {
				e.mu.Lock()
				gate := make(chan struct{})
				e.openStreams[k] = gate
				pc.carried = true
				e.mu.Unlock()
				<-gate
				st.Close()
			}
		}
		e.mu.Lock()
		pc.done, pc.err, pc.reply, pc.t1 = true, err, *reply, time.Now()
		e.mu.Unlock()
	}()
}

// syncTick waits for the start of a housekeeping pass (observed as a burst of pings on the
// pooled connections) and then for that pass to be over, so that the action that follows falls
// well inside the gap between two passes (the completion-to-stamp window of a call is not
// gate-bounded; see DESIGN.md, C15).
func (e *poolEnv) syncTick() {
	count := func() int {
		e.mu.Lock()
		conns := append([]*pconn(nil), e.conns...)
		e.mu.Unlock()
		n := 0
		for _, c := range conns {
			c.mu.Lock()
			n += c.nPing
			c.mu.Unlock()
		}
		return n
	}
	n0 := count()
	deadline := time.Now().Add(4 * poolTick)
	for time.Now().Before(deadline) {
		if count() != n0 {
			break
		}
		time.Sleep(100 * time.Microsecond)
	}
	time.Sleep(900 * time.Microsecond)
	// two more periods: consecutive actions stamp their connections at least three housekeeping
	// periods apart, so that a late pass cannot make them cross a threshold in the same pass
	time.Sleep(2 * poolTick)
}

func (e *poolEnv) finishCall(k int) bool {
	e.mu.Lock()
	conns := append([]*pconn(nil), e.conns...)
	gate := e.openStreams[k]
	delete(e.openStreams, k)
	e.mu.Unlock()
	if gate != nil {
		e.mu.Lock()
		e.holdCall[k] = false
		e.mu.Unlock()
		close(gate)
		return true
	}
	defer func() {
		e.mu.Lock()
		e.holdCall[k] = false
		e.mu.Unlock()
	}()
	for _, c := range conns {
		c.mu.Lock()
		seq, ok := c.held[k]
		if ok {
			delete(c.held, k)
		}
		c.mu.Unlock()
		if ok {
			args := mkArgs(k, 24, 16, byte(k))
			c.push(refPbRes(resVal{Seq: seq, Reply: serverReply(c.addr, args)}))
			return true
		}
	}
	return false
}

func (e *poolEnv) observe() string {
	active, idle, alive := e.t.VerifPoolSnapshot()
	e.mu.Lock()
	defer e.mu.Unlock()
	id := map[*rpc.Conn]int{}
	for _, c := range e.conns {
		id[c.conn] = c.id
	}
	fmtList := func(m map[string][]*rpc.Conn) string {
		var addrs []string
		for a := range m {
			addrs = append(addrs, a)
		}
		sort.Strings(addrs)
		var parts []string
		for _, a := range addrs {
			var xs []string
			for _, c := range m[a] {
				s := fmt.Sprint(id[c])
				if !alive[c] {
					s += "x"
				}
				xs = append(xs, s)
			}
			parts = append(parts, a+":"+strings.Join(xs, ","))
		}
		return strings.Join(parts, " ")
	}
	var open []string
	for _, c := range e.conns {
		c.mu.Lock()
		if !c.closed {
			open = append(open, fmt.Sprint(c.id))
		}
		c.mu.Unlock()
	}
	var ks []int
	for k := range e.calls {
		ks = append(ks, k)
	}
	sort.Ints(ks)
	var cs []string
	for _, k := range ks {
		c := e.calls[k]
		if c.done {
			cs = append(cs, fmt.Sprintf("%d:%s:%d", k, classifyPool(c.err), c.connID))
		} else {
			cs = append(cs, fmt.Sprintf("%d:-:%d", k, c.connID))
		}
	}
	return fmt.Sprintf("obs active=[%s] idle=[%s] open=[%s] dials=%d calls=[%s]", fmtList(active), fmtList(idle), strings.Join(open, ","), e.dials, strings.Join(cs, " "))
}

func classifyPool(err error) string {
	if err == rpc.ErrDial {
		return "dial"
	}
	return classify(err)
}

type poolResult struct {
	actions []string
	obs     []string
	env     *poolEnv
	// drift: real time spent beyond the nominal duration of the actions since the last long idle
	// phase (the model's clock advances only in idle phases); maxDrift is its maximum over the run.
	drift, maxDrift time.Duration
}

// poolDriftBudget: nominal connection ages stay ≥ 70 ms away from the KeepAlive threshold from
// below and ≥ 580 ms from IdleConnTimeout (generator: at most five short idles between long ones);
// a run whose drift exceeds the budget does not satisfy the timing assumption of the
// correspondence and is repeated (and left out of the comparison if it never fits).
const poolDriftBudget = 150 * time.Millisecond

func runPoolScenario(sc poolScenario) *poolResult {
	e := newPoolEnv(sc)
	res := &poolResult{env: e}
	for _, a := range sc.Actions {
		f := strings.Fields(a)
		ok := true
		t0 := time.Now()
		var nominal time.Duration
		switch f[0] {
		case "idle":
			nominal = map[string]time.Duration{"short": poolShort, "medium": poolMedium, "long": poolLong, "almost": poolAlmost, "gap": poolGap}[f[1]]
		case "call", "go", "rt", "ping", "stream", "long", "lstream", "callnb", "finish", "kill", "bounce", "hookget", "hookrel", "pair":
			nominal = 3 * poolTick // syncTick: three housekeeping periods, which the model counts too
		}
		switch f[0] {
		case "pair":
			// pair A B k1 k2: two calls between the same two housekeeping passes (same stamp)
			e.syncTick()
			for j, addr := range []string{f[1], f[2]} {
				k := atoi(f[3+j])
				e.startCall(k, addr, "call", false)
				dl := time.Now().Add(2 * time.Second)
				for time.Now().Before(dl) {
					e.mu.Lock()
					d := e.calls[k].done
					e.mu.Unlock()
					if d {
						break
					}
					time.Sleep(50 * time.Microsecond)
				}
			}
		case "call", "go", "rt", "ping", "stream":
			e.syncTick()
			e.startCall(atoi(f[2]), f[1], f[0], false)
		case "long":
			e.syncTick()
			e.startCall(atoi(f[2]), f[1], "call", true)
		case "lstream":
			e.syncTick()
			e.startCall(atoi(f[2]), f[1], "lstream", true)
		case "hookget":
			// a long call that is held between getConn and the call itself (the window no I/O gate bounds)
			e.syncTick()
			e.mu.Lock()
			e.hookArm, e.hookGate = true, make(chan struct{})
			e.atHook[atoi(f[2])] = true
			e.mu.Unlock()
			e.startCall(atoi(f[2]), f[1], "call", true)
			time.Sleep(2 * time.Millisecond)
		case "hookrel":
			e.syncTick()
			e.mu.Lock()
			g := e.hookGate
			e.hookGate = nil
			delete(e.atHook, atoi(f[1]))
			e.mu.Unlock()
			if g == nil {
				ok = false
			} else {
				close(g)
			}
		case "callnb":
			e.syncTick()
			e.mu.Lock()
			e.nowait[atoi(f[2])] = true
			e.mu.Unlock()
			e.startCall(atoi(f[2]), f[1], "call", false)
			time.Sleep(2 * time.Millisecond)
		case "dialrace":
			// dialrace A n k0: n callers (ids k0…) arrive while a dial to A is in progress (the dial is
			// held at a gate for 30 ms); nothing is observed until all of them have returned
			e.syncTick()
			e.mu.Lock()
			e.holdDial = true
			e.mu.Unlock()
			n, k0 := atoi(f[2]), atoi(f[3])
			for j := 0; j < n; j++ {
				e.startCall(k0+j, f[1], "call", false)
				time.Sleep(2 * time.Millisecond)
			}
			time.Sleep(30 * time.Millisecond)
			e.mu.Lock()
			e.holdDial = false
			close(e.dialGate)
			e.dialGate = make(chan struct{})
			e.mu.Unlock()
			dl := time.Now().Add(3 * time.Second)
			for time.Now().Before(dl) {
				e.mu.Lock()
				all := true
				for j := 0; j < n; j++ {
					if pc := e.calls[k0+j]; pc == nil || !pc.done {
						all = false
					}
				}
				e.mu.Unlock()
				if all {
					break
				}
				time.Sleep(200 * time.Microsecond)
			}
		case "holdclose":
			e.mu.Lock()
			e.holdClose = true
			e.mu.Unlock()
		case "relclose":
			e.mu.Lock()
			e.holdClose = false
			close(e.closeGate)
			e.closeGate = make(chan struct{})
			for k := range e.nowait {
				delete(e.nowait, k)
			}
			e.mu.Unlock()
		case "finish":
			e.syncTick()
			e.mu.Lock()
			_, isStream := e.openStreams[atoi(f[1])]
			e.mu.Unlock()
			ok = e.finishCall(atoi(f[1]))
			if isStream && ok {
				// a stream is closed without the Transport seeing it: its connection keeps its old stamp
				// and may be due at the very next housekeeping pass; let three passes go by (the model
				// does the same) so that the observation does not race with them
				dl := time.Now().Add(2 * time.Second)
				for time.Now().Before(dl) {
					e.mu.Lock()
					d := e.calls[atoi(f[1])].done
					e.mu.Unlock()
					if d {
						break
					}
					time.Sleep(100 * time.Microsecond)
				}
				e.syncTick()
				nominal += 3 * poolTick
			}
		case "kill":
			e.syncTick()
			e.mu.Lock()
			e.up[f[1]] = false
			conns := append([]*pconn(nil), e.conns...)
			e.mu.Unlock()
			for _, c := range conns {
				if c.addr == f[1] {
					c.kill()
				}
			}
		case "bounce":
			// the server drops every connection of the address but stays reachable
			e.syncTick()
			e.mu.Lock()
			conns := append([]*pconn(nil), e.conns...)
			e.mu.Unlock()
			for _, c := range conns {
				if c.addr == f[1] {
					c.kill()
				}
			}
		case "revive":
			e.mu.Lock()
			e.up[f[1]] = true
			e.mu.Unlock()
		case "idle":
			switch f[1] {
			case "short":
				time.Sleep(poolShort)
			case "medium":
				time.Sleep(poolMedium)
			case "long":
				time.Sleep(poolLong)
			case "almost":
				time.Sleep(poolAlmost)
			case "gap":
				time.Sleep(poolGap)
			}
		case "closeidle":
			e.t.CloseIdleConnections()
		case "close":
			e.mu.Lock()
			e.transportClosed = true
			e.mu.Unlock()
			e.t.Close()
		default:
			ok = false
		}
		if !ok {
			continue
		}
		// quiescence between ticks: wait until started calls that are not held have completed
		deadline := time.Now().Add(3 * time.Second)
		for time.Now().Before(deadline) {
			e.mu.Lock()
			busy := false
			for k, c := range e.calls {
				if !c.done && !e.holdCall[k] && !e.nowait[k] {
					busy = true
				}
				if !c.done && e.holdCall[k] && !c.carried && !e.atHook[k] {
					// a held call must at least have reached a connection (or failed)
					busy = true
				}
			}
			e.mu.Unlock()
			if !busy {
				break
			}
			time.Sleep(200 * time.Microsecond)
		}
		if f[0] == "kill" || f[0] == "bounce" {
			// the connection must have seen the end of its stream before the next action
			e.waitKilled(f[1])
		}
		if !gate.SettleAllowSleep(20*time.Millisecond) && os.Getenv("CORR_DEBUG") != "" {
			fmt.Fprintln(os.Stderr, "settle failed:", gate.LastBusy)
		}
		res.actions = append(res.actions, a)
		res.obs = append(res.obs, e.observe())
		res.drift += time.Since(t0) - nominal
		if os.Getenv("CORR_DEBUG") != "" {
			fmt.Fprintf(os.Stderr, "drift %-14s %v (total %v)\n", a, time.Since(t0)-nominal, res.drift)
		}
		if res.drift > res.maxDrift {
			res.maxDrift = res.drift
		}
		if a == "idle long" {
			res.drift = 0
		}
		e.mu.Lock()
		for _, c := range e.calls {
			if c.done && c.doneAt < 0 {
				c.doneAt = len(res.actions) - 1
			}
		}
		e.mu.Unlock()
	}
	return res
}

func (e *poolEnv) finish() {
	e.mu.Lock()
	e.holdClose = false
	close(e.closeGate)
	e.closeGate = make(chan struct{})
	e.holdDial = false
	close(e.dialGate)
	e.dialGate = make(chan struct{})
	for k := range e.holdCall {
		e.holdCall[k] = false
	}
	ks := []int{}
	for k := range e.calls {
		ks = append(ks, k)
	}
	e.mu.Unlock()
	for _, k := range ks {
		e.finishCall(k)
	}
	e.mu.Lock()
	e.transportClosed = true
	e.mu.Unlock()
	e.t.Close()
	for _, c := range e.conns {
		c.kill()
	}
	done := make(chan struct{})
	go func() { e.wg.Wait(); close(done) }()
	select {
	case <-done:
	case <-time.After(3 * time.Second):
	}
	gate.SettleAllowSleep(time.Second)
}

// bracket returns the text between key and the next ']' of an observation line.
func bracket(obs, key string) string {
	i := strings.Index(obs, key)
	if i < 0 {
		return ""
	}
	j := strings.Index(obs[i:], "]")
	if j < 0 {
		return ""
	}
	return obs[i+len(key) : i+j]
}

func parseBracket(obs, key string) []string {
	b := bracket(obs, key)
	if b == "" {
		return nil
	}
	return strings.Split(b, ",")
}

// countPooled: connections listed for addr in the active and idle parts of an observation.
func countPooled(obs, addr string) int {
	n := 0
	for _, key := range []string{"active=[", "idle=["} {
		i := strings.Index(obs, key)
		if i < 0 {
			continue
		}
		j := strings.Index(obs[i:], "]")
		for _, part := range strings.Fields(obs[i+len(key) : i+j]) {
			kv := strings.SplitN(part, ":", 2)
			if kv[0] == addr && len(kv) == 2 && kv[1] != "" {
				n += len(strings.Split(kv[1], ","))
			}
		}
	}
	return n
}

// ---- monitors ----

func checkPool(sc poolScenario, r *poolResult) []connVerdict {
	var out []connVerdict
	add := func(prop, mon, key, what string) { out = append(out, connVerdict{prop, mon, key, what}) }
	e := r.env
	e.mu.Lock()
	defer e.mu.Unlock()
	maxC, maxI := sc.MaxConns, sc.MaxIdle
	if maxC < 1 {
		maxC = rpc.DefaultMaxConnsPerHost
	}
	if maxI < 1 {
		maxI = rpc.DefaultMaxIdleConnsPerHost
	} else if maxI > maxC {
		maxI = maxC
	}
	lc, li, _, _ := e.t.VerifLimits()
	if len(r.actions) > 0 && e.dials+e.dialFails > 0 && (lc != maxC || li != maxI) {
		add("C13", "limits-normalised", "C13/limits", fmt.Sprintf("limits (%d,%d) were normalised to (%d,%d), want (%d,%d)", sc.MaxConns, sc.MaxIdle, lc, li, maxC, maxI))
	}
	for a, m := range e.maxOpen {
		if m > maxC {
			add("C13", "open-connections-bounded", "C13/open-exceeds-limit", fmt.Sprintf("%d connections to %s were open at once, limit %d (open count at each dial: %v)", m, a, maxC, e.openAtDial))
		}
	}
	for _, o := range r.obs {
		// idle queue length per address
		i := strings.Index(o, "idle=[")
		j := strings.Index(o[i:], "]")
		for _, part := range strings.Fields(o[i+6 : i+j]) {
			xs := strings.Split(strings.SplitN(part, ":", 2)[1], ",")
			if len(xs) > maxI {
				add("C13", "idle-bounded", "C13/idle-exceeds-limit", fmt.Sprintf("idle queue %s exceeds the limit %d", part, maxI))
			}
		}
	}
	// C04: the Transport never sends a call twice
	for k, c := range e.calls {
		if c.nCarried > 1 {
			add("C04", "never-retries", "C04/transport-resent/"+c.form, fmt.Sprintf("the request of call %d (%s to %s) reached a server %d times", k, c.form, c.addr, c.nCarried))
		}
	}
	// C15 / C20: a socket that is open belongs to a pooled connection (nothing is dropped from the pool without being closed)
	for i, ob := range r.obs {
		open := parseBracket(ob, "open=[")
		pooled := map[string]bool{}
		for _, key := range []string{"active=[", "idle=["} {
			for _, part := range strings.Fields(bracket(ob, key)) {
				kv := strings.SplitN(part, ":", 2)
				if len(kv) == 2 {
					for _, id := range strings.Split(kv[1], ",") {
						pooled[strings.TrimSuffix(id, "x")] = true
					}
				}
			}
		}
		for _, id := range open {
			if id != "" && !pooled[id] && !strings.Contains(strings.Join(sc.Actions, " "), "holdclose") && !strings.Contains(strings.Join(sc.Actions, " "), "dialrace") {
				add("C15", "nothing-leaks-from-the-pool", "C15/open-but-not-pooled", fmt.Sprintf("after action %d (%s) connection %s is still open but is neither in an active list nor in an idle queue", i, r.actions[i], id))
				break
			}
		}
	}
	// C14: address, and recovery
	for k, c := range e.calls {
		if c.carried && c.connID >= 0 && e.conns[c.connID].addr != c.addr {
			add("C14", "right-address", "C14/wrong-address", fmt.Sprintf("call %d for %s was sent over a connection dialed to %s", k, c.addr, e.conns[c.connID].addr))
		}
		if c.done && c.err == nil && c.form != "ping" && c.form != "stream" && c.form != "lstream" && !strings.HasPrefix(string(c.reply), c.addr+"|") {
			add("C14", "right-address", "C14/wrong-server", fmt.Sprintf("call %d for %s was answered by %q", k, c.addr, string(c.reply[:min(len(c.reply), 8)])))
		}
	}
	// recovery: once the server is reachable again, calls to it fail with ErrShutdown at most once
	// per connection that was pooled for it at that moment (each dead connection is discarded
	// by the failure it causes), whatever the spacing of the calls
	startAt := map[int]int{}
	for i, a := range r.actions {
		f := strings.Fields(a)
		switch f[0] {
		case "call", "go", "rt", "ping", "long", "stream", "lstream", "hookget":
			startAt[atoi(f[2])] = i
		}
	}
	var ks []int
	for k := range e.calls {
		ks = append(ks, k)
	}
	sort.Ints(ks)
	for i, a := range r.actions {
		f := strings.Fields(a)
		if f[0] != "revive" {
			continue
		}
		addr := f[1]
		pooled := countPooled(r.obs[i], addr)
		end := len(r.actions)
		for j := i + 1; j < len(r.actions); j++ {
			if r.actions[j] == "kill "+addr || r.actions[j] == "bounce "+addr || r.actions[j] == "close" {
				end = j
				break
			}
		}
		fails := 0
		for _, k := range ks {
			c := e.calls[k]
			if c.addr == addr && startAt[k] > i && startAt[k] < end && c.done && c.doneAt < end && c.err == rpc.ErrShutdown {
				fails++
			}
		}
		if fails > pooled {
			add("C14", "recovers-after-restart", "C14/no-recovery", fmt.Sprintf("after %s came back (action %d) %d calls to it failed with ErrShutdown although only %d connection(s) were pooled for it", addr, i, fails, pooled))
		}
	}
	// while a server is unreachable and nothing is pooled for it, calls fail with ErrDial
	for _, k := range ks {
		c := e.calls[k]
		if c.done && c.err != nil && c.err != rpc.ErrShutdown && c.err != rpc.ErrDial {
			add("C14", "error-kinds", "C14/unexpected-error", fmt.Sprintf("call %d to %s failed with %v", k, c.addr, c.err))
		}
	}
	for _, s := range e.closedBusy {
		add("C15", "busy-connection-spared", "C15/busy-conn-closed", s)
	}
	return out
}

func poolCorpus() []poolScenario {
	var out []poolScenario
	mk := func(name string, mc, mi int, acts ...string) {
		out = append(out, poolScenario{MaxConns: mc, MaxIdle: mi, Actions: acts, Name: name})
	}
	mk("defaults", 0, 0, "call A 1", "call A 2", "call B 3", "ping A 4", "idle long", "call A 5", "close", "call A 6")
	mk("limit-2", 2, 5, "long A 1", "long A 2", "long A 3", "long A 4", "finish 1", "finish 2", "finish 3", "finish 4", "call A 5", "call A 6", "idle long", "call A 7")
	mk("idle-clamp", 2, 9, "long A 1", "long A 2", "finish 1", "finish 2", "idle medium", "call A 3", "idle medium", "long A 4", "long A 5", "long A 6", "finish 4", "finish 5", "finish 6", "idle long")
	mk("restart-after-keepalive", 1, 1, "call A 1", "kill A", "call A 2", "revive A", "idle medium", "call A 3", "idle medium", "call A 4", "idle medium", "call A 5", "call A 6")
	mk("restart-immediate", 2, 2, "long A 1", "long A 2", "kill A", "call A 3", "revive A", "call A 4", "call A 5", "call A 6", "call A 7")
	mk("dead-while-down", 1, 1, "call A 1", "kill A", "call A 2", "call A 3", "idle medium", "call A 4", "revive A", "call A 5", "call A 6")
	mk("busy-spared", 2, 2, "long A 1", "idle medium", "closeidle", "idle long", "closeidle", "finish 1", "idle long")
	mk("closeidle", 3, 3, "long A 1", "long A 2", "long A 3", "finish 2", "closeidle", "finish 1", "finish 3", "idle medium", "closeidle", "call A 4")
	// several addresses go stale in the same housekeeping pass; then more connections than one are needed per address
	mk("stale-together-2", 3, 3, "call A 1", "call B 2", "idle medium", "long A 3", "long A 4", "long B 5", "long B 6", "call A 7", "call B 8", "finish 3", "finish 4", "finish 5", "finish 6", "idle long")
	mk("stale-together-3", 0, 0, "call C 1", "call A 2", "call B 3", "idle medium", "long B 4", "long B 5", "long A 6", "long A 7", "long C 8", "long C 9", "finish 4", "finish 5", "finish 6", "finish 7", "finish 8", "finish 9", "idle medium", "long A 10", "long A 11", "long A 12", "finish 10", "finish 11", "finish 12", "idle long")
	mk("stale-in-the-same-pass", 3, 3, "pair A B 1 2", "idle medium", "long A 3", "long A 4", "long B 5", "long B 6", "call A 7", "call B 8", "finish 3", "finish 4", "finish 5", "finish 6", "idle long")
	mk("stale-in-the-same-pass-3", 0, 0, "pair C A 1 2", "pair A B 3 4", "idle medium", "long B 5", "long B 6", "long A 7", "long A 8", "long C 9", "long C 10", "finish 5", "finish 6", "finish 7", "finish 8", "finish 9", "finish 10", "idle long")
	mk("stale-together-limits", 2, 2, "long A 1", "long A 2", "call B 3", "finish 1", "finish 2", "idle medium", "long B 4", "long B 5", "long A 6", "long A 7", "finish 4", "finish 5", "finish 6", "finish 7", "idle long")
	mk("stream-sees-the-dead-connection", 1, 1, "call A 1", "kill A", "stream A 2", "stream A 3", "revive A", "stream A 4", "call A 5", "idle long")
	mk("connection-lost-under-a-call", 2, 2, "long A 1", "bounce A", "call A 2", "long A 3", "long B 4", "bounce A", "finish 4", "call A 5", "idle long")
	mk("retirement-with-a-full-idle-queue", 4, 1, "long A 1", "long A 2", "long A 3", "long A 4", "finish 1", "finish 2", "finish 3", "finish 4", "idle medium", "idle long", "close")
	// D12: a housekeeping pass between getConn and the registration of the call, on a connection about to go stale
	mk("pass-inside-the-handout-window", 1, 1, "call A 1", "idle almost", "hookget A 2", "idle gap", "hookrel 2", "idle long", "finish 2", "idle long")
	mk("pass-inside-the-handout-window-2", 2, 2, "call A 1", "call B 2", "idle almost", "hookget A 3", "idle gap", "hookrel 3", "call B 4", "idle long", "finish 3", "call A 5", "idle long")
	// the same window on the path that takes the connection from the idle queue (no active entry for the address)
	mk("pass-inside-the-handout-window-idle-path", 1, 1, "call A 1", "idle medium", "hookget A 2", "idle gap", "hookrel 2", "idle long", "finish 2", "idle long")
	mk("pass-inside-the-handout-window-idle-path-2", 2, 2, "call A 1", "call B 2", "idle medium", "hookget B 3", "idle gap", "hookrel 3", "closeidle", "call A 4", "finish 3", "idle long")
	mk("open-stream-keeps-its-connection", 2, 2, "lstream A 1", "idle medium", "idle long", "closeidle", "call A 2", "finish 1", "idle long")
	mk("close-with-several-idle", 3, 3, "long A 1", "long A 2", "long A 3", "finish 1", "finish 2", "finish 3", "idle medium", "close", "idle short")
	mk("close-with-several-idle-2", 2, 2, "long A 1", "long A 2", "long B 3", "long B 4", "finish 1", "finish 2", "finish 3", "finish 4", "idle medium", "close")
	mk("multi-addr", 2, 1, "call A 1", "call B 2", "call C 3", "long A 4", "long A 5", "long B 6", "kill B", "call B 7", "finish 4", "finish 5", "idle medium", "revive B", "call B 8", "call A 9", "idle long", "close", "close")
	// C13: callers that arrive while a dial to the same address is in progress (monitor-only: real time passes)
	mk("concurrent-first-calls", 2, 2, "dialrace A 4 1", "idle short", "call A 5")
	mk("concurrent-first-calls-limit-1", 1, 1, "dialrace A 3 1", "idle short", "call A 4", "kill A", "revive A", "dialrace A 2 5", "idle short", "call A 7")
	mk("concurrent-first-calls-two-addresses", 2, 1, "dialrace A 3 1", "dialrace B 3 4", "idle short", "call A 7", "call B 8")
	mk("close-gated-replacement", 1, 1, "call A 1", "kill A", "revive A", "holdclose", "callnb A 2", "callnb A 3", "relclose", "call A 4")
	mk("monitor:ctx-sibling-1", 1, 1, "ctx")
	mk("monitor:ctx-sibling-3", 1, 1, "ctx", "ctx", "ctx")
	mk("forms", 2, 2, "go A 1", "rt A 2", "ping A 3", "call A 4", "kill A", "go A 5", "rt A 6", "ping A 7", "revive A", "go A 8", "rt A 9", "ping A 10", "call A 11")
	return out
}

func genPoolScenario(r *prng.R) poolScenario {
	sc := poolScenario{MaxConns: []int{-1, 0, 1, 2, 3}[r.Intn(5)], MaxIdle: []int{-1, 0, 1, 2, 5}[r.Intn(5)]}
	n := 8 + r.Intn(14)
	next := 1
	var held []int
	addrs := []string{"A", "A", "A", "B", "C"}
	idles := 0
	shorts := 0 // short idles since the last long one: at most five, so that nominal ages stay away from the thresholds
	for i := 0; i < n; i++ {
		a := addrs[r.Intn(len(addrs))]
		x := r.Intn(100)
		switch {
		case x < 30:
			sc.Actions = append(sc.Actions, fmt.Sprintf("%s %s %d", []string{"call", "call", "go", "rt", "ping", "stream"}[r.Intn(6)], a, next))
			next++
		case x < 45:
			sc.Actions = append(sc.Actions, fmt.Sprintf("long %s %d", a, next))
			held = append(held, next)
			next++
		case x < 60:
			if len(held) > 0 {
				j := r.Intn(len(held))
				sc.Actions = append(sc.Actions, fmt.Sprintf("finish %d", held[j]))
				held = append(held[:j], held[j+1:]...)
			}
		case x < 65:
			sc.Actions = append(sc.Actions, "kill "+a)
		case x < 68:
			sc.Actions = append(sc.Actions, "bounce "+a)
		case x < 76:
			sc.Actions = append(sc.Actions, "revive "+a)
		case x < 88:
			if idles < 4 {
				idles++
				kind := []string{"short", "medium", "medium", "long"}[r.Intn(4)]
				if kind == "short" && shorts >= 5 {
					kind = "medium"
				}
				if kind == "short" {
					shorts++
				}
				if kind == "long" {
					shorts = 0
				}
				sc.Actions = append(sc.Actions, "idle "+kind)
			}
		case x < 94:
			sc.Actions = append(sc.Actions, "closeidle")
		case x < 96:
			sc.Actions = append(sc.Actions, "close")
		default:
			if shorts < 5 {
				shorts++
				sc.Actions = append(sc.Actions, "idle short")
			}
		}
	}
	for _, k := range held {
		sc.Actions = append(sc.Actions, fmt.Sprintf("finish %d", k))
	}
	sc.Actions = append(sc.Actions, "idle long")
	return sc
}

func poolScenarios(seed uint64, tier string) []poolScenario {
	r := prng.New(seed ^ 0x504f4f4c)
	scs := poolCorpus()
	n := 30
	if tier == "thorough" {
		n = 400
	}
	for i := 0; i < n; i++ {
		scs = append(scs, genPoolScenario(r.Fork()))
	}
	return scs
}

// ctxSibling is a monitor-only scenario (no model): on a one-connection transport a call is
// outstanding when a CallWithContext on the same connection runs into its deadline; the sibling
// must still complete with its own reply when the server answers, the late answer to the
// abandoned call must change nothing, and the connection must stay in service (C19).
func ctxSibling(i int, sc poolScenario, timeouts int) *scenarioOut {
	out := &scenarioOut{Counters: map[string]int{"monitor_only.ctx_sibling": 1}}
	e := newPoolEnv(sc)
	e.up["A"] = true
	var bad []string
	waitFor := func(cond func() bool) bool {
		dl := time.Now().Add(3 * time.Second)
		for time.Now().Before(dl) {
			e.mu.Lock()
			ok := cond()
			e.mu.Unlock()
			if ok {
				return true
			}
			time.Sleep(200 * time.Microsecond)
		}
		return false
	}
	e.startCall(1, "A", "call", true)
	if !waitFor(func() bool { return e.calls[1].carried }) {
		bad = append(bad, "the first call never reached the server")
	}
	for j := 0; j < timeouts && len(bad) == 0; j++ {
		k := 10 + j
		e.mu.Lock()
		e.holdCall[k] = true
		e.mu.Unlock()
		args := mkArgs(k, 24, 16, byte(k))
		reply := new([]byte)
		ctx, cancel := context.WithTimeout(context.Background(), 15*time.Millisecond)
		t0 := time.Now()
		err := e.t.CallWithContext(ctx, "A", "S.M", &args, reply)
		cancel()
		if err != context.DeadlineExceeded {
			bad = append(bad, fmt.Sprintf("abandoned call %d: returned %v, not the context's error", k, err))
		} else if d := time.Since(t0); d > 2*time.Second {
			bad = append(bad, fmt.Sprintf("abandoned call %d: returned after %v", k, d))
		}
	}
	if len(bad) == 0 {
		e.mu.Lock()
		done1 := e.calls[1].done
		err1 := e.calls[1].err
		e.mu.Unlock()
		if done1 {
			bad = append(bad, fmt.Sprintf("the sibling call ended (%v) when another call on its connection ran into its deadline", err1))
		}
	}
	if len(bad) == 0 {
		// late answers to the abandoned calls first, then the sibling's
		for j := 0; j < timeouts; j++ {
			e.finishCall(10 + j)
		}
		e.finishCall(1)
		if !waitFor(func() bool { return e.calls[1].done }) {
			bad = append(bad, "the sibling call never completed after the server answered it")
		} else {
			e.mu.Lock()
			pc := e.calls[1]
			want := serverReply("A", mkArgs(1, 24, 16, 1))
			if pc.err != nil || !bytes.Equal(pc.reply, want) {
				bad = append(bad, fmt.Sprintf("the sibling call ended with err=%v reply-matches=%v", pc.err, bytes.Equal(pc.reply, want)))
			}
			e.mu.Unlock()
		}
	}
	if len(bad) == 0 {
		e.startCall(2, "A", "call", false)
		if !waitFor(func() bool { return e.calls[2].done }) {
			bad = append(bad, "a call after the abandoned ones never completed")
		} else {
			e.mu.Lock()
			if e.calls[2].err != nil {
				bad = append(bad, fmt.Sprintf("a call after the abandoned ones failed: %v", e.calls[2].err))
			}
			if e.dials != 1 {
				bad = append(bad, fmt.Sprintf("%d connections were dialled: a deadline made the transport give up a healthy connection", e.dials))
			}
			e.mu.Unlock()
		}
	}
	for _, b := range bad {
		out.Violations = append(out.Violations, rep.Violation{Property: "C19", Monitor: "a deadline on one call harms no other call of the pooled connection", Key: "C19/deadline-harms-sibling/pool", What: b,
			Replay: map[string]interface{}{"component": "pool", "index": i, "scenario": sc, "abandoned_calls": timeouts}})
	}
	e.finish()
	return out
}

func runOnePool(i int, sc poolScenario) *scenarioOut {
	if strings.HasPrefix(sc.Name, "monitor:ctx-sibling") {
		return ctxSibling(i, sc, len(sc.Actions))
	}
	res := runPoolScenario(sc)
	retries := 0
	timed := !strings.Contains(strings.Join(sc.Actions, " "), "holdclose") && !strings.Contains(strings.Join(sc.Actions, " "), "dialrace")
	for timed && res.maxDrift > poolDriftBudget && retries < 4 {
		// the machine stalled: the run says nothing about the timed behaviour; repeat it
		res.env.finish()
		retries++
		time.Sleep(time.Duration(retries) * 50 * time.Millisecond)
		res = runPoolScenario(sc)
	}
	disturbed := timed && res.maxDrift > poolDriftBudget
	if os.Getenv("CORR_DEBUG") != "" {
		fmt.Fprintf(os.Stderr, "scenario %d %s %s\n", i, sc.Name, sc.header())
		for j, a := range res.actions {
			fmt.Fprintf(os.Stderr, "  %s\n      %s\n", a, res.obs[j])
		}
	}
	out := &scenarioOut{Counters: map[string]int{}}
	inl := []string{sc.header()}
	iml := []string{"ok"}
	for j, a := range res.actions {
		inl = append(inl, a)
		iml = append(iml, res.obs[j])
	}
	out.Counters["timing.retries"] = retries
	out.Counters[fmt.Sprintf("timing.drift_ms_le_%d", driftBucket(res.maxDrift))]++
	if disturbed {
		out.Counters["timing.disturbed_left_out"]++
	}
	if !strings.Contains(strings.Join(sc.Actions, " "), "holdclose") && !strings.Contains(strings.Join(sc.Actions, " "), "dialrace") && !disturbed {
		// scenarios that hold a socket close for seconds are monitor-only (real time passes)
		out.Streams = map[string][2][]string{"p": {inl, iml}}
	}
	out.Key = fmt.Sprintf("%d %d %s", sc.MaxConns, sc.MaxIdle, strings.Join(res.actions, ";"))
	out.Counters["actions"] = len(res.actions)
	for _, a := range res.actions {
		out.Counters["action."+strings.Fields(a)[0]]++
	}
	res.env.mu.Lock()
	out.Counters["dials"] += res.env.dials
	res.env.mu.Unlock()
	if i%13 == 0 {
		out.Sample = map[string]interface{}{"scenario": sc, "observations": res.obs}
	}
	for _, v := range checkPool(sc, res) {
		out.Violations = append(out.Violations, rep.Violation{Property: v.prop, Monitor: v.monitor, Key: v.key, What: v.what,
			Replay: map[string]interface{}{"component": "pool", "index": i, "scenario": sc, "executed_actions": res.actions, "observations": res.obs}})
	}
	res.env.finish()
	return out
}

func driftBucket(d time.Duration) int {
	for _, b := range []int{10, 25, 50, 100, 150, 1000} {
		if d <= time.Duration(b)*time.Millisecond {
			return b
		}
	}
	return 100000
}

func runPool(dir string, seed uint64, tier, only, replay string) *rep.Report {
	rp := rep.New("pool", seed, tier)
	scs := poolScenarios(seed, tier)
	if workerRange != "" {
		var from, to, stride int
		stride = 1
		fmt.Sscanf(workerRange, "%d:%d:%d", &from, &to, &stride)
		workerMain(len(scs), from, to, func(i int) interface{} { return scs[i] }, func(i int) *scenarioOut { return runOnePool(i, scs[i]) })
		os.Exit(0)
	}
	if only != "" {
		for i, sc := range scs {
			if only == sc.Name || only == fmt.Sprint(i) {
				runOnePool(i, sc)
			}
		}
		return rp
	}
	parentLoopN("pool", dir, len(scs), []string{"-out", dir, "-seed", fmt.Sprint(seed), "-tier", tier}, rp, []string{"p"}, []string{"C13"}, 150*time.Second, 12)
	return rp
}

func init() { components["pool"] = runPool }
