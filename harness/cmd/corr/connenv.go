package main

// connenv: the scripted environment around one real *rpc.Conn (model component K).
// A fake socket.Messages (gated ReadMessage / WriteMessage / Close) sits under the real
// NewClientCodec; a thin ClientCodec wrapper adds gates at ReadResponseBody. The script decides
// the order of every I/O-bounded window of conn.go; everything in between is the library's.

import (
	"bytes"
	"context"
	"crypto/sha1"
	"encoding/binary"
	"errors"
	"fmt"
	"io"
	"sort"
	"strings"
	"sync"
	"sync/atomic"
	"time"
	"unsafe"

	"github.com/hslam/rpc"
	"github.com/hslam/socket"
	"verifharness/internal/gate"
)

var errWriteFail = errors.New("harness: write failed")
var errReadFail = io.ErrUnexpectedEOF

// ---- header helpers (the harness's own reference codecs, from the documented formats) ----

type hdrKind string

func encodeResponse(h hdrKind, v resVal) []byte {
	switch h {
	case "code":
		return refCodeRes(v)
	case "json":
		enc := rpc.NewJSONEncoder()
		res := enc.NewResponse()
		res.SetSeq(v.Seq)
		res.SetError(string(v.Err))
		res.SetReply(v.Reply)
		b, _ := enc.NewCodec().Marshal(nil, res)
		return b
	default:
		return refPbRes(v)
	}
}

// refDecodeRequest parses a request frame written by the client (documented formats).
func refDecodeRequest(h hdrKind, frame []byte) (reqVal, bool) {
	switch h {
	case "code":
		return refParseCodeReq(frame)
	case "json":
		o := implDecReq("json", frame, nil)
		return o.req, o.kind == "ok"
	default:
		return refParsePbReq(frame)
	}
}

func refGetVarint(b []byte) (uint64, int) {
	var v uint64
	for i := 0; i < len(b) && i < 10; i++ {
		v |= uint64(b[i]&0x7f) << (7 * uint(i))
		if b[i] < 0x80 {
			return v, i + 1
		}
	}
	return 0, 0
}

func refParsePbReq(f []byte) (reqVal, bool) {
	var r reqVal
	for len(f) > 0 {
		tag := f[0]
		f = f[1:]
		switch tag {
		case 1<<3 | 0:
			v, n := refGetVarint(f)
			if n == 0 {
				return r, false
			}
			r.Seq = v
			f = f[n:]
		case 2<<3 | 2, 3<<3 | 2, 4<<3 | 2:
			l, n := refGetVarint(f)
			if n == 0 || uint64(len(f)-n) < l {
				return r, false
			}
			fld := append([]byte(nil), f[n:n+int(l)]...)
			switch tag >> 3 {
			case 2:
				r.Upgrade = fld
			case 3:
				r.Method = fld
			case 4:
				r.Args = fld
			}
			f = f[n+int(l):]
		default:
			return r, false
		}
	}
	return r, true
}

func refParseCodeReq(f []byte) (reqVal, bool) {
	var r reqVal
	v, n := refGetVarint(f)
	if n == 0 {
		return r, false
	}
	r.Seq = v
	f = f[n:]
	var flds [3][]byte
	for i := 0; i < 3; i++ {
		l, n := refGetVarint(f)
		if n == 0 || uint64(len(f)-n) < l {
			return r, false
		}
		flds[i] = append([]byte(nil), f[n:n+int(l)]...)
		f = f[n+int(l):]
	}
	r.Upgrade, r.Method, r.Args = flds[0], flds[1], flds[2]
	return r, len(f) == 0
}

// ---- the handler function H: what a server would answer ----

func handlerH(method string, args []byte) []byte {
	sum := sha1.Sum(append([]byte(method+"|"), args...))
	n := 8
	if len(args) >= 12 {
		n = int(binary.BigEndian.Uint32(args[8:12])) // requested reply length
	}
	out := make([]byte, n)
	for i := range out {
		out[i] = sum[i%20] ^ byte(i>>4)
	}
	return out
}

// ---- body codec ----

type failArgs struct{}

var errEncode = errors.New("harness: cannot encode args")

type bodyCodec struct{}

func (bodyCodec) Marshal(buf []byte, v interface{}) ([]byte, error) {
	switch x := v.(type) {
	case *[]byte:
		return *x, nil
	case *failArgs:
		return nil, errEncode
	}
	return nil, errors.New("harness: unsupported args type")
}

var errBadBody = errors.New("harness: body does not decode")

func (bodyCodec) Unmarshal(data []byte, v interface{}) error {
	if bytes.HasPrefix(data, []byte("BADBODY")) {
		return errBadBody // a reply this codec cannot decode into the caller's Reply
	}
	if p, ok := v.(*[]byte); ok {
		*p = append((*p)[:0:0], data...)
		return nil
	}
	return errors.New("harness: unsupported reply type")
}

// ---- fake Messages ----

type feedItem struct {
	frame []byte
	err   error
}

type fakeMessages struct {
	env     *connEnv
	feed    chan feedItem
	mu      sync.Mutex
	closed  bool
	closeC  chan struct{}
	nwrite  int
	waiting int32  // the reader is blocked in ReadMessage
	lastRd  []byte // the buffer handed to the last ReadMessage (for provenance checks)
}

func (m *fakeMessages) ReadMessage(buf []byte) ([]byte, error) {
	m.env.hub.Log("rd-enter")
	atomic.StoreInt32(&m.waiting, 1)
	defer atomic.StoreInt32(&m.waiting, 0)
	select {
	case it := <-m.feed:
		if it.err != nil {
			m.env.hub.Log("rd-err %s", classify(it.err))
			return nil, it.err
		}
		var p []byte
		if cap(buf) >= len(it.frame) {
			p = buf[:len(it.frame)]
		} else {
			p = make([]byte, len(it.frame))
		}
		copy(p, it.frame)
		m.env.noteReadBuf(p)
		return p, nil
	case <-m.closeC:
		m.env.hub.Log("rd-err eof(closed)")
		return nil, io.EOF
	}
}

func (m *fakeMessages) WriteMessage(b []byte) error {
	m.mu.Lock()
	m.nwrite++
	closed := m.closed
	m.mu.Unlock()
	if closed {
		return io.EOF
	}
	frame := append([]byte(nil), b...)
	k, desc := m.env.noteWrite(frame)
	v := m.env.hub.At(fmt.Sprintf("w:%d", k), desc)
	return v.Err
}

func (m *fakeMessages) Close() error {
	m.mu.Lock()
	if !m.closed {
		m.closed = true
		close(m.closeC)
	}
	m.mu.Unlock()
	m.env.hub.Log("mclose")
	return nil
}

var _ socket.Messages = (*fakeMessages)(nil)

// ---- ClientCodec wrapper: a gate where finishCall hands the body to the codec ----

type gatedCodec struct {
	rpc.ClientCodec
	env *connEnv
}

func (g *gatedCodec) ReadResponseBody(value []byte, x interface{}) error {
	if x != nil {
		if k, ok := g.env.replyOwner(x); ok {
			g.env.hub.At(fmt.Sprintf("b:%d", k), "")
		}
	}
	return g.ClientCodec.ReadResponseBody(value, x)
}

// ReadResponseHeader: the gate `dec` parks the thread that decodes received frames (the decode
// worker; with direct I/O the reader itself) before it looks at the next frame.
func (g *gatedCodec) ReadResponseHeader(ctx *rpc.Context) error {
	g.env.hub.At("dec", "")
	return g.ClientCodec.ReadResponseHeader(ctx)
}

// SetDirectIO / SetBufferSize pass through when the real codec supports them.
func (g *gatedCodec) SetDirectIO(d bool) {
	if s, ok := g.ClientCodec.(rpc.DirectIO); ok {
		s.SetDirectIO(d)
	}
}

// ---- call records ----

type callRec struct {
	k       int
	form    string // go | rt | call | ctx | ping
	method  string
	args    []byte
	reply   *[]byte
	call    *rpc.Call // go / rt forms
	cancel  context.CancelFunc
	ctxBuf  []byte
	ctxCap  int
	seq     uint64
	hasSeq  bool
	nDone   int      // receives observed on the harness-owned Done channel
	errAt   []string // Error seen at each receive
	ret     bool     // blocking form returned
	retErr  error
	want    []byte // H(method,args)
	failEnc bool
	written bool
	resp    []byte // last response frame sent for it
}

type connEnv struct {
	hub      *gate.Hub
	hdr      hdrKind
	directIO bool
	pipe     bool
	fm       *fakeMessages
	conn     *rpc.Conn
	mu       sync.Mutex
	calls    map[int]*callRec
	order    []int // k in order of start
	byReply  map[uintptr]int
	bySeq    map[uint64]int
	shared   chan *rpc.Call
	arrivals []int // arrival order on the shared Done channel
	writes   []string
	pendingK []int // started calls whose write has not been seen yet (FIFO), for untagged frames
	unkSeq   uint64
	readBufs [][2]uintptr
	closeRet []string
	wg       sync.WaitGroup
}

func newConnEnv(hdr hdrKind, directIO, pipe bool) *connEnv {
	e := &connEnv{hub: gate.NewHub(), hdr: hdr, directIO: directIO, pipe: pipe, calls: map[int]*callRec{}, byReply: map[uintptr]int{}, bySeq: map[uint64]int{},
		shared: make(chan *rpc.Call, 4096), unkSeq: 1 << 40}
	e.fm = &fakeMessages{env: e, feed: make(chan feedItem), closeC: make(chan struct{})}
	var enc rpc.Encoder
	switch hdr {
	case "pb":
		enc = rpc.NewPBEncoder()
	case "code":
		enc = rpc.NewCODEEncoder()
	case "json":
		enc = rpc.NewJSONEncoder()
	}
	real := rpc.NewClientCodec(bodyCodec{}, enc, e.fm, 0)
	e.conn = rpc.NewConnWithCodec(&gatedCodec{ClientCodec: real, env: e})
	if pipe {
		e.conn.SetPipelining(true)
	}
	if directIO {
		e.conn.SetDirectIO(true)
	}
	// collector for the shared Done channel
	go func() {
		for c := range e.shared {
			e.mu.Lock()
			k, ok := e.byReply[uintptr(unsafe.Pointer(replyPtr(c)))]
			if ok {
				r := e.calls[k]
				r.call = c
				r.nDone++
				r.errAt = append(r.errAt, classify(c.Error))
				e.arrivals = append(e.arrivals, k)
			}
			e.mu.Unlock()
			if ok {
				e.hub.Log("done %d %s", k, classify(c.Error))
			} else {
				e.hub.Log("done ? %s", classify(c.Error))
			}
		}
	}()
	return e
}

func replyPtr(c *rpc.Call) *[]byte {
	if p, ok := c.Reply.(*[]byte); ok {
		return p
	}
	return nil
}

func (e *connEnv) replyOwner(x interface{}) (int, bool) {
	p, ok := x.(*[]byte)
	if !ok {
		return 0, false
	}
	e.mu.Lock()
	defer e.mu.Unlock()
	k, ok := e.byReply[uintptr(unsafe.Pointer(p))]
	return k, ok
}

func (e *connEnv) noteReadBuf(p []byte) {
	if cap(p) == 0 {
		return
	}
	b := p[:cap(p)]
	lo := uintptr(unsafe.Pointer(&b[0]))
	e.mu.Lock()
	e.readBufs = append(e.readBufs, [2]uintptr{lo, lo + uintptr(cap(p))})
	e.mu.Unlock()
}

// noteWrite identifies which call a written frame belongs to and logs it.
func (e *connEnv) noteWrite(frame []byte) (int, string) {
	r, ok := refDecodeRequest(e.hdr, frame)
	e.mu.Lock()
	defer e.mu.Unlock()
	k := -1
	if ok && len(r.Args) >= 8 {
		k = int(binary.BigEndian.Uint64(r.Args[:8]))
	} else if len(e.pendingK) > 0 {
		k = e.pendingK[0]
	}
	for i, p := range e.pendingK {
		if p == k {
			e.pendingK = append(e.pendingK[:i], e.pendingK[i+1:]...)
			break
		}
	}
	desc := "undecodable"
	if ok {
		desc = fmt.Sprintf("seq=%d up=%s m=%d a=%d", r.Seq, hx(r.Upgrade), len(r.Method), len(r.Args))
		if c := e.calls[k]; c != nil {
			c.seq, c.hasSeq, c.written = r.Seq, true, true
			e.bySeq[r.Seq] = k
			if string(r.Method) != c.method || string(r.Args) != string(c.args) {
				desc += " MISMATCH"
			}
		}
	}
	e.writes = append(e.writes, fmt.Sprintf("%d:%d:%s", k, r.Seq, hx(r.Upgrade)))
	return k, desc
}

func classify(err error) string {
	switch {
	case err == nil:
		return "nil"
	case err == rpc.ErrShutdown:
		return "shutdown"
	case err == io.EOF:
		return "eof"
	case err == errReadFail:
		return "rfail"
	case err == errWriteFail:
		return "wfail"
	case err == errEncode:
		return "encfail"
	case err == context.Canceled:
		return "canceled"
	case err == context.DeadlineExceeded:
		return "deadline"
	case err == rpc.ErrTimeout:
		return "timeout"
	}
	s := err.Error()
	if strings.HasPrefix(s, "reading body ") {
		return "bodyerr"
	}
	if strings.HasPrefix(s, "E#") {
		// handler error texts generated by the harness: "text:k:n" iff it is exactly the text
		// generated for call k with length n (verbatim, every byte)
		var k int
		if _, e := fmt.Sscanf(s, "E#%d|", &k); e == nil && s == errText(k, len(s)) {
			return fmt.Sprintf("text:%d:%d", k, len(s))
		}
	}
	sum := sha1.Sum([]byte(s))
	return fmt.Sprintf("other:%d:%x", len(s), sum[:4])
}

func mkArgs(k int, payload int, replyLen int, fill byte) []byte {
	if payload < 12 {
		payload = 12
	}
	a := make([]byte, payload)
	binary.BigEndian.PutUint64(a[:8], uint64(k))
	binary.BigEndian.PutUint32(a[8:12], uint32(replyLen))
	for i := 12; i < payload; i++ {
		a[i] = fill ^ byte(i*7)
	}
	return a
}

// start launches an API call from a fresh goroutine.
func (e *connEnv) start(k int, form string, payload, replyLen int, holdW, holdB bool, ctxCap int, failEnc bool) {
	method := fmt.Sprintf("Svc.M%d", k%7)
	rec := &callRec{k: k, form: form, method: method, failEnc: failEnc, ctxCap: ctxCap}
	rec.args = mkArgs(k, payload, replyLen, byte(k))
	if form == "ping" {
		rec.method, rec.args = "", nil
	}
	rec.want = handlerH(rec.method, rec.args)
	rec.reply = new([]byte)
	e.mu.Lock()
	e.calls[k] = rec
	e.order = append(e.order, k)
	e.byReply[uintptr(unsafe.Pointer(rec.reply))] = k
	if form == "ping" || failEnc {
		if !failEnc {
			e.pendingK = append(e.pendingK, k)
		}
	}
	e.mu.Unlock()
	if holdW {
		e.hub.Hold(fmt.Sprintf("w:%d", k))
	}
	if holdB {
		e.hub.Hold(fmt.Sprintf("b:%d", k))
	}
	var args interface{} = &rec.args
	if failEnc {
		args = &failArgs{}
	}
	e.hub.Log("start %d %s", k, form)
	switch form {
	case "go":
		e.wg.Add(1)
		go func() {
			defer e.wg.Done()
			c := e.conn.Go(method, args, rec.reply, e.shared)
			e.mu.Lock()
			rec.call = c
			e.mu.Unlock()
		}()
	case "rt":
		c := new(rpc.Call)
		c.ServiceMethod, c.Args, c.Reply, c.Done = method, args, rec.reply, e.shared
		rec.call = c
		e.wg.Add(1)
		go func() {
			defer e.wg.Done()
			e.conn.RoundTrip(c)
		}()
	case "call":
		e.wg.Add(1)
		go func() {
			defer e.wg.Done()
			err := e.conn.Call(method, args, rec.reply)
			e.mu.Lock()
			rec.ret, rec.retErr = true, err
			e.mu.Unlock()
			e.hub.Log("ret %d %s", k, classify(err))
		}()
	case "ctx":
		ctx, cancel := context.WithCancel(context.Background())
		if ctxCap > 0 {
			rec.ctxBuf = make([]byte, ctxCap+16)
			for i := range rec.ctxBuf {
				rec.ctxBuf[i] = 0xC5
			}
			ctx = context.WithValue(ctx, rpc.BufferContextKey, rec.ctxBuf[:0:ctxCap])
		}
		rec.cancel = cancel
		e.wg.Add(1)
		go func() {
			defer e.wg.Done()
			err := e.conn.CallWithContext(ctx, method, args, rec.reply)
			e.mu.Lock()
			rec.ret, rec.retErr = true, err
			e.mu.Unlock()
			e.hub.Log("ret %d %s", k, classify(err))
		}()
	case "ping":
		e.wg.Add(1)
		go func() {
			defer e.wg.Done()
			err := e.conn.Ping()
			e.mu.Lock()
			rec.ret, rec.retErr = true, err
			e.mu.Unlock()
			e.hub.Log("ret %d %s", k, classify(err))
		}()
	}
}

// respond feeds a response frame for call k. kind: ok | err:<n> | empty | dup
func (e *connEnv) respond(k int, kind string) bool {
	e.mu.Lock()
	rec := e.calls[k]
	if rec == nil || !rec.hasSeq {
		e.mu.Unlock()
		return false
	}
	var frame []byte
	switch {
	case kind == "dup":
		if rec.resp == nil {
			e.mu.Unlock()
			return false
		}
		frame = rec.resp
	case strings.HasPrefix(kind, "err:"):
		var n int
		fmt.Sscanf(kind, "err:%d", &n)
		frame = encodeResponse(e.hdr, resVal{Seq: rec.seq, Err: []byte(errText(k, n))})
	case kind == "shutdownmsg":
		frame = encodeResponse(e.hdr, resVal{Seq: rec.seq, Err: []byte("The connection is shut down")})
	case kind == "empty":
		frame = encodeResponse(e.hdr, resVal{Seq: rec.seq})
	case kind == "badbody":
		frame = encodeResponse(e.hdr, resVal{Seq: rec.seq, Reply: []byte(fmt.Sprintf("BADBODY-%d", k))})
	default:
		frame = encodeResponse(e.hdr, resVal{Seq: rec.seq, Reply: rec.want})
	}
	e.mu.Unlock()
	if !e.feedFrame(frame) {
		return false
	}
	e.mu.Lock()
	rec.resp = frame
	e.mu.Unlock()
	return true
}

func errText(k, n int) string {
	s := make([]byte, 0, n+8)
	s = append(s, fmt.Sprintf("E#%d|", k)...)
	parts := []string{"é", "€", "x", "\"", "<", "&", "y", "%", "%s", "%d%%"}
	for i := 0; len(s) < n; i++ {
		p := parts[(i+k)%len(parts)]
		if len(s)+len(p) > n {
			p = "z"
		}
		s = append(s, p...)
	}
	return string(s)
}

func (e *connEnv) feedFrame(frame []byte) bool {
	if atomic.LoadInt32(&e.fm.waiting) == 0 {
		return false // the reader is busy (direct I/O: it is inside read/finishCall) or gone
	}
	select {
	case e.fm.feed <- feedItem{frame: frame}:
		return true
	case <-time.After(2 * time.Second):
		return false
	}
}

func (e *connEnv) feedErr(err error) bool {
	if atomic.LoadInt32(&e.fm.waiting) == 0 {
		return false
	}
	select {
	case e.fm.feed <- feedItem{err: err}:
		return true
	case <-time.After(2 * time.Second):
		return false
	}
}

func (e *connEnv) closeConn() {
	e.wg.Add(1)
	go func() {
		defer e.wg.Done()
		err := e.conn.Close()
		e.mu.Lock()
		e.closeRet = append(e.closeRet, classify(err))
		e.mu.Unlock()
		e.hub.Log("closed %s", classify(err))
	}()
}

// replyState: none (untouched) | own (equals H of its own request) | bad
func (r *callRec) replyState() string {
	if len(*r.reply) == 0 {
		if len(r.want) == 0 {
			return "any"
		}
		return "none"
	}
	if string(*r.reply) == string(r.want) {
		return "own"
	}
	return "bad"
}

// observe returns the canonical observation line of the quiescent state.
func (e *connEnv) observe() string {
	nc := e.conn.NumCalls()
	e.mu.Lock()
	defer e.mu.Unlock()
	var cs []string
	ks := append([]int(nil), e.order...)
	sort.Ints(ks)
	for _, k := range ks {
		r := e.calls[k]
		switch r.form {
		case "go", "rt":
			cur := "nil"
			if r.call != nil {
				cur = classify(r.call.Error)
			}
			cs = append(cs, fmt.Sprintf("%d:d%d:%s:%s", k, r.nDone, cur, r.replyState()))
		default:
			if r.ret {
				cs = append(cs, fmt.Sprintf("%d:r1:%s:%s", k, classify(r.retErr), r.replyState()))
			} else {
				cs = append(cs, fmt.Sprintf("%d:r0:-:%s", k, r.replyState()))
			}
		}
	}
	pk := e.hub.ParkedKeys()
	sort.Strings(pk)
	arr := make([]string, len(e.arrivals))
	for i, k := range e.arrivals {
		arr[i] = fmt.Sprint(k)
	}
	return fmt.Sprintf("obs nc=%d w=[%s] parked=[%s] calls=[%s] arr=[%s] close=[%s]", nc, strings.Join(e.writes, ","), strings.Join(pk, ","), strings.Join(cs, " "),
		strings.Join(arr, ","), strings.Join(e.closeRet, ","))
}

// finish releases everything and ends the connection so that no goroutine leaks into the next scenario.
func (e *connEnv) finish() {
	e.hub.ReleaseAll(gate.Verdict{Err: errWriteFail})
	e.conn.Close()
	for _, r := range e.calls {
		if r.cancel != nil {
			r.cancel()
		}
	}
	gate.Settle(2 * time.Second)
	e.hub.ReleaseAll(gate.Verdict{Err: errWriteFail})
	done := make(chan struct{})
	go func() { e.wg.Wait(); close(done) }()
	select {
	case <-done:
	case <-time.After(3 * time.Second):
	}
	close(e.shared)
}
