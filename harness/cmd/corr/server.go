package main

// server: scripted runs of the real Server.ServeCodec (model component S) — C04, C05 (server
// half), C06 (server half), C08 (dispatch and teardown), C10 (server half), C09 (server half).

import (
	"fmt"
	"io"
	"os"
	"runtime"
	"sort"
	"strings"
	"time"

	"verifharness/internal/gate"
	"verifharness/internal/prng"
	"verifharness/internal/rep"
)

type srvScenario struct {
	Hdr      string   `json:"header"`
	DirectIO bool     `json:"direct_io"`
	Pipe     bool     `json:"pipelining"`
	Actions  []string `json:"actions"`
	Name     string   `json:"name,omitempty"`
}

func (s srvScenario) header() string {
	return fmt.Sprintf("server hdr=%s directio=%d pipe=%d", s.Hdr, b2i(s.DirectIO), b2i(s.Pipe))
}

type srvResult struct {
	actions []string
	obs     []string
	env     *srvEnv
	stuck   string
}

func runSrvScenario(sc srvScenario) *srvResult {
	e := newSrvEnv(hdrKind(sc.Hdr), sc.DirectIO, sc.Pipe)
	res := &srvResult{env: e}
	gate.Settle(2 * time.Second)
	for _, a := range sc.Actions {
		f := strings.Fields(a)
		ok := true
		switch f[0] {
		case "req": // req k method hold kind
			ok = e.request(atoi(f[1]), "Svc."+f[2], f[4], f[3] == "1", 0, 40)
		case "requp": // requp k method upbyte hold
			ok = e.request(atoi(f[1]), "Svc."+f[2], "ok", f[4] == "1", byte(atoi(f[3])), 40)
		case "ping":
			ok = e.request(atoi(f[1]), "", "ping", false, 0xe0, 0)
		case "burst": // burst k0 n : n requests back to back, then EOF at once (no settling in between)
			k0, n := atoi(f[1]), atoi(f[2])
			for j := 0; j < n && ok; j++ {
				ok = e.requestNoWait(k0+j, "Svc.Unary")
			}
			if ok {
				ok = e.feedErrWait(io.EOF)
			}
		case "hret":
			ok = e.hub.Release("h:"+f[1], gate.Verdict{S: f[2]})
		case "eof":
			ok = e.feedErr(io.EOF)
		case "rerr":
			ok = e.feedErr(errReadFail)
		case "junk":
			ok = e.feedFrame(junkFrame(sc.Hdr, atoi(f[1])))
		case "drain":
			for round := 0; round < 64; round++ {
				pk := e.hub.ParkedKeys()
				if len(pk) == 0 {
					break
				}
				sort.Strings(pk)
				e.hub.Release(pk[0], gate.Verdict{S: "ok"})
				gate.Settle(3 * time.Second)
			}
			e.hub.UnholdAll()
		case "probe":
		default:
			ok = false
		}
		if !ok {
			continue
		}
		if !gate.Settle(3 * time.Second) {
			res.stuck = a
		}
		res.actions = append(res.actions, a)
		res.obs = append(res.obs, e.observe())
		if os.Getenv("CORR_DEBUG_STACKS") != "" && strings.HasPrefix(a, "hret 5 err:16384") && !strings.Contains(res.obs[len(res.obs)-1], "5:text:5") {
			buf := make([]byte, 1<<20)
			n := runtime.Stack(buf, true)
			fmt.Fprintf(os.Stderr, "LAST INSPECTION\n%s\nSTACKS AFTER SETTLE\n%s\n", gate.LastDump(), buf[:n])
		}
	}
	return res
}

func checkSrv(sc srvScenario, r *srvResult) []connVerdict {
	var out []connVerdict
	add := func(prop, mon, key, what string) { out = append(out, connVerdict{prop, mon, key, what}) }
	e := r.env
	mode := fmt.Sprintf("dio%d-pipe%d", b2i(sc.DirectIO), b2i(sc.Pipe))
	e.mu.Lock()
	defer e.mu.Unlock()
	drained := len(r.actions) > 0 && r.actions[len(r.actions)-1] == "drain" && r.stuck == ""
	hret := map[int]string{}
	for _, a := range r.actions {
		f := strings.Fields(a)
		if f[0] == "hret" {
			hret[atoi(f[1])] = f[2]
		}
	}
	respFor := map[uint64][]srvResp{}
	for _, rs := range e.resps {
		respFor[rs.seq] = append(respFor[rs.seq], rs)
	}
	for _, p := range e.phantom {
		add("C04", "no-phantom-execution", "C04/phantom-execution", "a handler ran for a request nobody sent: "+p)
	}
	for seq, rs := range respFor {
		if _, known := e.reqs[int(seq)]; !known {
			add("C04", "no-phantom-response", "C04/phantom-response", fmt.Sprintf("%d response(s) written with sequence number %d, which no request carried", len(rs), seq))
		}
	}
	if und := respFor[1<<62]; len(und) > 0 {
		// the server wrote a frame the peer's decoder rejects: whoever is still waiting for an answer never gets it
		for _, k := range e.order {
			rq := e.reqs[k]
			if len(respFor[rq.seq]) > 0 {
				continue
			}
			v, told := hret[k]
			switch {
			case told && strings.HasPrefix(v, "err:"):
				add("C06", "server-error-text", "C06/server-error-undecodable/"+sc.Hdr, fmt.Sprintf("request %d: the handler failed with a %s-byte error text, the response written for it cannot be decoded by the client's decoder", k, strings.TrimPrefix(v, "err:")))
			case told && v == "ok":
				add("C01", "server-reply-is-own", "C01/server-reply-undecodable/"+sc.Hdr, fmt.Sprintf("request %d: the response written for it cannot be decoded by the client's decoder", k))
			}
		}
		delete(respFor, 1<<62)
	}
	var jobs []int // unary requests that must execute, in request order
	for _, k := range e.order {
		rq := e.reqs[k]
		known := rq.method == "Svc.Unary" || rq.method == "Svc.Ctx" || rq.method == "Svc.Ret" || rq.method == "Svc.RetCtx"
		rs := respFor[rq.seq]
		if rq.up != 0 && rq.kind != "ping" {
			// arbitrary upgrade byte: only robustness is checked (no crash, at most one response)
			if len(rs) > 1 {
				add("C04", "one-response", "C04/duplicate-response/up", fmt.Sprintf("request %d (upgrade byte %#x) got %d responses", k, rq.up, len(rs)))
			}
			continue
		}
		wantExec := 0
		if rq.kind == "ok" && known {
			wantExec = 1
			jobs = append(jobs, k)
		}
		if e.execs[k] > wantExec {
			add("C04", "executed-once", "C04/extra-execution/"+rq.kind, fmt.Sprintf("request %d (%s, %s) was executed %d times, want %d", k, rq.method, rq.kind, e.execs[k], wantExec))
		}
		if len(rs) > 1 {
			add("C04", "one-response", "C04/duplicate-response/"+rq.kind, fmt.Sprintf("request %d got %d responses", k, len(rs)))
		}
		if drained {
			if e.execs[k] < wantExec {
				add("C04", "executed-once", "C04/not-executed/"+mode, fmt.Sprintf("request %d (%s) was received but never executed", k, rq.method))
			}
			if len(rs) == 0 {
				add("C04", "one-response", "C04/no-response/"+rq.kind+"/"+mode, fmt.Sprintf("request %d (%s, %s) was never answered", k, rq.method, rq.kind))
				if v, told := hret[k]; told && strings.HasPrefix(v, "err:") && atoi(strings.TrimPrefix(v, "err:")) > 60000 {
					// C07: a header larger than the pooled write buffer must still be encoded
					add("C07", "large-header-is-encoded", "C07/large-response-not-encoded/"+sc.Hdr, fmt.Sprintf("request %d: the handler failed with a %s-byte error text and no response frame was written for it", k, strings.TrimPrefix(v, "err:")))
				}
			}
		}
		if wantExec == 1 && e.execs[k] >= 1 && (string(rq.seenArgs) != string(rq.args) || rq.seenMethod != rq.method) {
			add("C04", "arguments-as-sent", "C04/wrong-arguments", fmt.Sprintf("handler of request %d saw method %s and %d argument bytes that differ from what was sent", k, rq.seenMethod, len(rq.seenArgs)))
		}
		if len(rs) >= 1 {
			got := e.classifyRespErr(rs[0])
			want := "nil"
			switch {
			case rq.kind == "ping":
				want = "nil"
			case !known:
				want = "nosvc"
			case rq.kind == "badargs":
				want = "badargs"
			default:
				v := hret[k]
				switch {
				case strings.HasPrefix(v, "err:"):
					want = fmt.Sprintf("text:%d:%s", k, strings.TrimPrefix(v, "err:"))
				case v == "badreply":
					want = "badreply"
				}
			}
			if got != want {
				add("C06", "server-error-text", "C06/server-error/"+want[:min(len(want), 4)], fmt.Sprintf("request %d (%s, %s): response carries error %s, want %s", k, rq.method, rq.kind, got, want))
			}
			rsState := e.replyState(rs[0])
			if want == "nil" && rq.kind == "ok" && rsState != "own" {
				add("C01", "server-reply-is-own", "C01/server-wrong-reply/"+mode, fmt.Sprintf("response to request %d carries a reply that is not H(its arguments) (%s)", k, rsState))
			}
		}
	}
	if sc.Pipe {
		// C05: one at a time, in request order; job responses in request order
		if e.maxConcurrent > 1 {
			add("C05", "server-serial", "C05/server-overlap/"+mode, fmt.Sprintf("%d handlers of one pipelining connection were inside their methods at once", e.maxConcurrent))
		}
		pos := map[int]int{}
		for i, k := range jobs {
			pos[k] = i
		}
		last := -1
		for _, k := range e.enterOrder {
			p, isJob := pos[k]
			if !isJob {
				continue
			}
			if p < last {
				add("C05", "server-execution-order", "C05/server-order/"+mode, fmt.Sprintf("handlers entered in order %v, requests arrived in order %v", e.enterOrder, jobs))
				break
			}
			last = p
		}
		last = -1
		for _, rs := range e.resps {
			p, isJob := pos[int(rs.seq)]
			if !isJob {
				continue
			}
			if p < last {
				add("C05", "server-response-order", "C05/server-response-order/"+mode, fmt.Sprintf("job responses were written out of request order"))
				break
			}
			last = p
		}
	}
	if r.stuck != "" {
		add("C04", "quiescence", "C04/not-quiescent", "the server connection did not become quiescent within 3 s after action "+r.stuck)
	}
	return out
}

func srvCorpus() []srvScenario {
	var out []srvScenario
	modes := []struct{ d, p bool }{{false, false}, {true, false}, {false, true}, {true, true}}
	hdrs := []string{"default", "code", "pb", "json"}
	for mi, m := range modes {
		h := hdrs[mi%len(hdrs)]
		mk := func(name string, acts ...string) {
			out = append(out, srvScenario{Hdr: h, DirectIO: m.d, Pipe: m.p, Actions: append(acts, "drain"), Name: name})
		}
		mk("shapes", "req 1 Unary 0 ok", "req 2 Ctx 0 ok", "req 3 Ret 0 ok", "req 4 RetCtx 0 ok", "req 5 Nope 0 ok", "req 6 Unary 0 badargs", "ping 7", "eof")
		mk("error-text-boundaries", "req 1 Unary 1 ok", "req 2 Ret 1 ok", "req 3 Ctx 1 ok", "req 4 RetCtx 1 ok", "req 5 Unary 1 ok", "req 6 Unary 1 ok", "hret 1 err:127", "hret 2 err:128", "hret 3 err:129", "hret 4 err:16383", "hret 5 err:16384", "hret 6 err:8", "eof")
		mk("header-larger-than-the-write-buffer", "req 1 Unary 1 ok", "req 2 Ret 1 ok", "req 3 Unary 1 ok", "hret 1 err:65400", "hret 2 err:70000", "hret 3 err:131072", "req 4 Unary 0 ok", "eof")
		mk("errors", "req 1 Unary 1 ok", "req 2 Ret 1 ok", "req 3 Ctx 1 ok", "hret 1 err:40", "hret 2 err:300", "hret 3 badreply", "req 4 Unary 0 ok", "eof")
		mk("out-of-order-finish", "req 1 Unary 1 ok", "req 2 Unary 1 ok", "req 3 Unary 1 ok", "hret 3 ok", "hret 1 ok", "hret 2 ok", "ping 4", "eof")
		mk("burst-then-eof", "req 1 Unary 0 ok", "req 2 Unary 0 ok", "req 3 Unary 0 ok", "req 4 Unary 0 ok", "req 5 Unary 0 ok", "req 6 Unary 0 ok", "eof")
		mk("eof-with-handlers-running", "req 1 Unary 1 ok", "req 2 Ctx 1 ok", "req 3 Ret 0 ok", "eof", "hret 1 ok", "hret 2 err:20")
		mk("flag-80-on-method", "requp 1 Unary 128 0", "req 2 Unary 0 ok", "eof")
		mk("flag-c0-on-method", "requp 1 Unary 192 0", "req 2 Unary 0 ok", "eof")
		mk("flag-08-on-method", "requp 1 Unary 8 0", "req 2 Unary 0 ok", "eof")
		mk("flag-40-noresponse", "requp 1 Unary 64 0", "req 2 Unary 0 ok", "eof")
		mk("flag-10-streaming-unknown", "requp 1 Unary 16 0", "requp 2 Unary 24 0", "requp 3 Nope 200 0", "req 4 Unary 0 ok", "eof")
		// a heartbeat is answered before anything else is looked at, whatever other bits its upgrade byte carries
		mk("heartbeat-with-a-stream-phase", "requp 1 Unary 40 0", "requp 2 Unary 232 0", "requp 3 Unary 48 0", "requp 4 Unary 56 0", "requp 5 Nope 40 0", "requp 6 Ctx 168 0", "req 7 Unary 0 ok", "ping 8", "eof")
		mk("junk-between", "req 1 Unary 0 ok", "junk 0", "junk 1", "req 2 Unary 0 ok", "junk 2", "ping 3", "eof")
		mk("burst-eof-8", "burst 1 8")
		mk("burst-eof-40", "req 100 Unary 0 ok", "burst 1 40")
		mk("pings-overtake", "req 1 Unary 1 ok", "ping 2", "req 3 Unary 0 ok", "ping 4", "hret 1 ok", "eof")
	}
	return out
}

func genSrvScenario(r *prng.R, tier string) srvScenario {
	sc := srvScenario{Hdr: []string{"default", "pb", "code", "json"}[r.Intn(4)], DirectIO: r.Chance(1, 3), Pipe: r.Chance(1, 2)}
	n := 6 + r.Intn(24)
	next := 1
	var held []int
	ended := false
	for i := 0; i < n && !ended; i++ {
		x := r.Intn(100)
		switch {
		case x < 50:
			m := []string{"Unary", "Unary", "Ctx", "Ret", "RetCtx", "Nope"}[r.Intn(6)]
			hold := r.Chance(1, 3)
			kind := "ok"
			if r.Chance(1, 8) {
				kind = "badargs"
			}
			sc.Actions = append(sc.Actions, fmt.Sprintf("req %d %s %d %s", next, m, b2i(hold), kind))
			if hold && kind == "ok" && m != "Nope" {
				held = append(held, next)
			}
			next++
		case x < 58:
			sc.Actions = append(sc.Actions, fmt.Sprintf("ping %d", next))
			next++
		case x < 64:
			up := []int{128, 192, 8, 64, 16, 24, 32, 72, 200, 216, 255, 1, 2, 4}[r.Intn(14)]
			sc.Actions = append(sc.Actions, fmt.Sprintf("requp %d %s %d 0", next, []string{"Unary", "Ret", "Nope", "Ctx"}[r.Intn(4)], up))
			next++
		case x < 84:
			if len(held) > 0 {
				j := r.Intn(len(held))
				v := []string{"ok", "ok", "ok", "err:20", "err:200", "badreply", "err:127", "err:128", "err:129", "err:16383", "err:16384", "err:40000"}[r.Intn(12)]
				sc.Actions = append(sc.Actions, fmt.Sprintf("hret %d %s", held[j], v))
				held = append(held[:j], held[j+1:]...)
			}
		case x < 90:
			sc.Actions = append(sc.Actions, fmt.Sprintf("junk %d", r.Intn(5)))
		case x < 93:
			sc.Actions = append(sc.Actions, []string{"eof", "eof", "rerr"}[r.Intn(3)])
			ended = true
		case x < 96:
			sc.Actions = append(sc.Actions, fmt.Sprintf("burst %d %d", next, 1+r.Intn(64)))
			next += 64
			ended = true
		default:
			sc.Actions = append(sc.Actions, "probe")
		}
	}
	if !ended {
		sc.Actions = append(sc.Actions, "eof")
	}
	sc.Actions = append(sc.Actions, "drain")
	return sc
}

func srvScenarios(seed uint64, tier string) []srvScenario {
	r := prng.New(seed ^ 0x53525652)
	scs := srvCorpus()
	n := 300
	if tier == "thorough" {
		n = 6000
	}
	for i := 0; i < n; i++ {
		scs = append(scs, genSrvScenario(r.Fork(), tier))
	}
	return scs
}

func runOneSrv(i int, sc srvScenario) *scenarioOut {
	res := runSrvScenario(sc)
	if os.Getenv("CORR_DEBUG") != "" {
		fmt.Fprintf(os.Stderr, "scenario %d %s %s\n", i, sc.Name, sc.header())
		for j, a := range res.actions {
			fmt.Fprintf(os.Stderr, "  %s\n      %s\n", a, res.obs[j])
		}
	}
	out := &scenarioOut{Counters: map[string]int{}}
	inl := []string{sc.header()}
	iml := []string{"ok"}
	for j, a := range res.actions {
		inl = append(inl, a)
		iml = append(iml, res.obs[j])
	}
	out.Streams = map[string][2][]string{"s": {inl, iml}}
	out.Key = fmt.Sprintf("%s %v %v %s", sc.Hdr, sc.DirectIO, sc.Pipe, strings.Join(shapeOf(res.actions), " "))
	out.Counters["actions"] = len(res.actions)
	for _, a := range res.actions {
		out.Counters["action."+strings.Fields(a)[0]]++
	}
	out.Counters[fmt.Sprintf("mode.dio%d.pipe%d", b2i(sc.DirectIO), b2i(sc.Pipe))]++
	if i%97 == 0 {
		out.Sample = map[string]interface{}{"scenario": sc, "observations": res.obs}
	}
	for _, v := range checkSrv(sc, res) {
		out.Violations = append(out.Violations, rep.Violation{Property: v.prop, Monitor: v.monitor, Key: v.key, What: v.what,
			Replay: map[string]interface{}{"component": "server", "index": i, "scenario": sc, "executed_actions": res.actions, "observations": res.obs}})
	}
	res.env.finish()
	return out
}

func runSrv(dir string, seed uint64, tier, only, replay string) *rep.Report {
	rp := rep.New("server", seed, tier)
	scs := srvScenarios(seed, tier)
	if workerRange != "" {
		var from, to int
		fmt.Sscanf(workerRange, "%d:%d", &from, &to)
		workerMain(len(scs), from, to, func(i int) interface{} { return scs[i] }, func(i int) *scenarioOut { return runOneSrv(i, scs[i]) })
		os.Exit(0)
	}
	if only != "" {
		for i, sc := range scs {
			if only == sc.Name || only == fmt.Sprint(i) {
				runOneSrv(i, sc)
			}
		}
		return rp
	}
	parentLoopN("server", dir, len(scs), []string{"-out", dir, "-seed", fmt.Sprint(seed), "-tier", tier}, rp, []string{"s"}, []string{"C08"}, 20*time.Second, 4)
	return rp
}

func init() { components["server"] = runSrv }
