package main

// stream: the stream layer of one connection, both real ends (component T, Model/Stream.lean).
// A real *rpc.Conn (NewStream / WriteMessage / ReadMessage / Close, unary calls in between) and a
// real Server.ServeCodec with a stream handler are joined by a scripted link: every frame either
// side writes is queued by the harness and delivered to the other side's reader only when the
// script says so (`ds`, `dc`); the link can be cut keeping a prefix of what is in flight, after
// which each reader is told about the end separately (`ceof`, `seof`). After every action the
// process is allowed to become quiescent and the observable state of both ends is printed.

import (
	"fmt"
	"io"
	"os"
	"strconv"
	"strings"
	"sync"
	"time"

	"github.com/hslam/rpc"
	"verifharness/internal/gate"
	"verifharness/internal/prng"
	"verifharness/internal/rep"
)

type strScenario struct {
	Hdr     string   `json:"header"`
	CDio    bool     `json:"client_direct_io"`
	SDio    bool     `json:"server_direct_io"`
	CPipe   bool     `json:"client_pipelining"`
	SPipe   bool     `json:"server_pipelining"`
	Actions []string `json:"actions"`
	Name    string   `json:"name,omitempty"`
}

func (s strScenario) header() string {
	return fmt.Sprintf("stream cdio=%d sdio=%d cpipe=%d spipe=%d hdr=%s", b2i(s.CDio), b2i(s.SDio), b2i(s.CPipe), b2i(s.SPipe), s.Hdr)
}

type linkFrame struct {
	raw  []byte
	name string // canonical name: o<i> a<i> m<i>:<v> c<i> u<seq>
}

type strEnd struct {
	got     []int
	re, we  int
	waiting bool
	written []int
}

func (e *strEnd) String() string {
	g := make([]string, len(e.got))
	for i, v := range e.got {
		g[i] = strconv.Itoa(v)
	}
	return fmt.Sprintf("got=[%s]:re=%d:w=%d:we=%d", strings.Join(g, ","), e.re, b2i(e.waiting), e.we)
}

type cStreamRec struct {
	st          rpc.Stream
	opened      bool
	failed      bool
	closeCalled bool
	closeDone   bool
	e           strEnd
}

// tStream is the stream argument of T.Stream. Connect runs on the thread that dispatches the open
// request, so the order of Connect calls is the order of the open frames: it fixes the index.
type tStream struct {
	st  rpc.Stream
	rec *sStreamRec
}

var curStrEnv *strEnv

func (h *tStream) Connect(st rpc.Stream) error {
	h.st = st
	e := curStrEnv
	h.rec = &sStreamRec{h: h, exitC: make(chan struct{})}
	e.mu.Lock()
	e.ss = append(e.ss, h.rec)
	e.mu.Unlock()
	return nil
}
func (h *tStream) Write(m *[]byte) error          { return h.st.WriteMessage(m) }
func (h *tStream) Read(b []byte, m *[]byte) error { return h.st.ReadMessage(b, m) }

type sStreamRec struct {
	h       *tStream
	started bool
	exited  bool
	exitC   chan struct{}
	e       strEnd
}

type strEnv struct {
	sc         strScenario
	mu         sync.Mutex
	conn       *rpc.Conn
	cfeed      chan feedItem
	sfeed      chan feedItem
	c2s, s2c   []linkFrame
	cut        bool
	cShut      bool
	sEnded     bool
	seqs       []uint64 // sequence number of the i-th stream opened
	pushPlan   []int    // i-th stream: how many messages its handler pushes the moment it starts
	pushed     []int    // i-th stream: how many of them have been handed to the connection
	cs         []*cStreamRec
	ss         []*sStreamRec
	ucalls     []uint64
	udone      map[uint64]bool
	uDelivered map[string]bool // unary request frames handed to the server's reader
	uAnswered  map[string]int  // responses the server wrote for them
	served     chan struct{}
	cclosed    chan struct{}
	sclosed    chan struct{}
	cCloseOne  sync.Once
	sCloseOne  sync.Once
}

// ---- the two fake socket.Messages ----

type strClientMsgs struct{ e *strEnv }

func (m *strClientMsgs) ReadMessage(buf []byte) ([]byte, error) {
	select {
	case it := <-m.e.cfeed:
		if it.err != nil {
			return nil, it.err
		}
		return append(buf[:0], it.frame...), nil
	case <-m.e.cclosed:
		return nil, io.EOF
	}
}

func (m *strClientMsgs) WriteMessage(b []byte) error {
	e := m.e
	frame := append([]byte(nil), b...)
	r, ok := refDecodeRequest(hdrKind(e.sc.Hdr), frame)
	e.mu.Lock()
	defer e.mu.Unlock()
	name := "?"
	if ok {
		sb := byte(0)
		if len(r.Upgrade) == 1 {
			sb = (r.Upgrade[0] >> 3) & 3
		}
		switch sb {
		case 1:
			e.seqs = append(e.seqs, r.Seq)
			name = fmt.Sprintf("o%d", len(e.seqs)-1)
		case 2:
			name = fmt.Sprintf("m%d:%s", e.streamIdx(r.Seq), string(r.Args))
		case 3:
			name = fmt.Sprintf("c%d", e.streamIdx(r.Seq))
		default:
			name = fmt.Sprintf("u%d", r.Seq)
			e.ucalls = append(e.ucalls, r.Seq)
		}
	}
	if !e.cut {
		e.c2s = append(e.c2s, linkFrame{frame, name})
	}
	return nil
}

func (m *strClientMsgs) Close() error {
	m.e.cCloseOne.Do(func() { close(m.e.cclosed) })
	return nil
}

type strServerMsgs struct{ e *strEnv }

func (m *strServerMsgs) ReadMessage(buf []byte) ([]byte, error) {
	select {
	case it := <-m.e.sfeed:
		if it.err != nil {
			return nil, it.err
		}
		return append(buf[:0], it.frame...), nil
	case <-m.e.sclosed:
		return nil, io.EOF
	}
}

func (m *strServerMsgs) WriteMessage(b []byte) error {
	e := m.e
	frame := append([]byte(nil), b...)
	r, ok := decodeResponse(hdrKind(e.sc.Hdr), frame)
	if ok && len(r.Reply) == 0 {
		// a slow link under the acknowledgement of a stream whose handler pushes at once: the
		// write takes a while (unless the push has already overtaken it)
		for spin := 0; spin < 30; spin++ {
			e.mu.Lock()
			i := e.streamIdx(r.Seq)
			wait := i >= 0 && i < len(e.pushPlan) && e.pushPlan[i] > 0 && e.pushed[i] == 0
			e.mu.Unlock()
			if !wait {
				break
			}
			time.Sleep(time.Millisecond)
		}
	}
	e.mu.Lock()
	defer e.mu.Unlock()
	name := "?"
	if ok {
		if i := e.streamIdx(r.Seq); i >= 0 {
			if len(r.Reply) == 0 {
				name = fmt.Sprintf("a%d", i)
			} else {
				name = fmt.Sprintf("m%d:%s", i, string(r.Reply))
			}
		} else {
			name = fmt.Sprintf("u%d", r.Seq)
			e.uAnswered[name]++
		}
	}
	if !e.cut {
		e.s2c = append(e.s2c, linkFrame{frame, name})
	}
	return nil
}

func (m *strServerMsgs) Close() error {
	m.e.sCloseOne.Do(func() { close(m.e.sclosed) })
	return nil
}

// solo: frames whose handling starts a goroutine that writes on its own (callers hold e.mu)
func (e *strEnv) solo(name string) bool {
	if strings.HasPrefix(name, "u") || strings.HasPrefix(name, "c") {
		// (a close request stops the stream from the dispatching thread while earlier messages may
		// still be on their way through the stream worker: which of them the handler still sees is a race)
		return true
	}
	if strings.HasPrefix(name, "o") {
		i := atoi(name[1:])
		return i < len(e.pushPlan) && e.pushPlan[i] > 0
	}
	return false
}

func (e *strEnv) streamIdx(seq uint64) int {
	for i, q := range e.seqs {
		if q == seq {
			return i
		}
	}
	return -1
}

// ---- the service ----

type TSvc struct{ e *strEnv }

func (t *TSvc) Echo(args *[]byte, reply *[]byte) error {
	*reply = append([]byte("echo:"), *args...)
	return nil
}

func (t *TSvc) Stream(st *tStream) error {
	e := t.e
	rec := st.rec
	e.mu.Lock()
	rec.started = true
	j := -1
	for i, r := range e.ss {
		if r == rec {
			j = i
		}
	}
	n := 0
	if j >= 0 && j < len(e.pushPlan) {
		n = e.pushPlan[j]
	}
	e.mu.Unlock()
	for k := 1; k <= n; k++ {
		e.endWrite(&rec.e, 1000*(j+1)+k, func(m *[]byte) error { return st.Write(m) })
		e.mu.Lock()
		e.pushed[j]++
		e.mu.Unlock()
	}
	<-rec.exitC
	e.mu.Lock()
	rec.exited = true
	e.mu.Unlock()
	return nil
}

// strBody: stream messages and unary payloads are byte slices; the stream argument decodes to itself.
type strBody struct{}

func (strBody) Marshal(buf []byte, v interface{}) ([]byte, error) {
	switch x := v.(type) {
	case *[]byte:
		if x == nil {
			return nil, nil
		}
		return *x, nil
	case []byte:
		return x, nil
	case nil:
		return nil, nil
	}
	return nil, fmt.Errorf("harness: unsupported type %T", v)
}

func (strBody) Unmarshal(data []byte, v interface{}) error {
	switch p := v.(type) {
	case *[]byte:
		*p = append([]byte(nil), data...)
		return nil
	case *tStream:
		return nil
	}
	return fmt.Errorf("harness: unsupported type %T", v)
}

func newStrEnv(sc strScenario) *strEnv {
	e := &strEnv{sc: sc, cfeed: make(chan feedItem), sfeed: make(chan feedItem), udone: map[uint64]bool{}, uDelivered: map[string]bool{}, uAnswered: map[string]int{}, served: make(chan struct{}),
		cclosed: make(chan struct{}), sclosed: make(chan struct{})}
	curStrEnv = e
	mkEnc := func() rpc.Encoder {
		switch sc.Hdr {
		case "pb":
			return rpc.NewPBEncoder()
		case "code":
			return rpc.NewCODEEncoder()
		case "json":
			return rpc.NewJSONEncoder()
		}
		return nil
	}
	s := rpc.NewServer()
	s.SetLogLevel(rpc.OffLogLevel)
	s.RegisterName("T", &TSvc{e: e})
	s.SetPipelining(sc.SPipe)
	s.SetDirectIO(sc.SDio)
	scodec := rpc.NewServerCodec(strBody{}, mkEnc(), &strServerMsgs{e}, sc.SDio, 0)
	go func() {
		s.ServeCodec(scodec)
		close(e.served)
	}()
	e.conn = rpc.NewConnWithCodec(rpc.NewClientCodec(strBody{}, mkEnc(), &strClientMsgs{e}, 0))
	if sc.CPipe {
		e.conn.SetPipelining(true)
	}
	if sc.CDio {
		e.conn.SetDirectIO(true)
	}
	return e
}

func (e *strEnv) observe() string {
	e.mu.Lock()
	defer e.mu.Unlock()
	names := func(fs []linkFrame) string {
		n := make([]string, len(fs))
		for i, f := range fs {
			n[i] = f.name
		}
		return strings.Join(n, " ")
	}
	var cs, ss, us []string
	for i, c := range e.cs {
		st := "-"
		if c.failed {
			st = "f"
		} else if c.opened {
			st = "o"
		}
		cs = append(cs, fmt.Sprintf("%d:%s:%s:cd=%d", i, st, c.e.String(), b2i(c.closeDone)))
	}
	for i, t := range e.ss {
		ss = append(ss, fmt.Sprintf("%d:%s:%s:x=%d", i, "s", t.e.String(), b2i(t.exited)))
	}
	for _, q := range e.ucalls {
		us = append(us, fmt.Sprintf("%d:%d", q, b2i(e.udone[q])))
	}
	return fmt.Sprintf("obs c2s=[%s] s2c=[%s] C[%s] S[%s] U[%s]", names(e.c2s), names(e.s2c), strings.Join(cs, " "), strings.Join(ss, " "), strings.Join(us, " "))
}

type strResult struct {
	free           bool // the scenario left the scripted regime: monitors only
	raceStranded   int
	raceTrials     int
	badOpenProblem string
	badOpenCalls   int
	actions        []string
	obs            []string
	env            *strEnv
	stuck          string
}

func (e *strEnv) endRead(end *strEnd, read func(m *[]byte) error) {
	end.waiting = true
	go func() {
		var m []byte
		err := read(&m)
		e.mu.Lock()
		end.waiting = false
		if err != nil {
			end.re++
		} else {
			v, _ := strconv.Atoi(string(m))
			end.got = append(end.got, v)
		}
		e.mu.Unlock()
	}()
}

func (e *strEnv) endWrite(end *strEnd, v int, write func(m *[]byte) error) {
	b := []byte(strconv.Itoa(v))
	err := write(&b)
	e.mu.Lock()
	if err != nil {
		end.we++
	} else {
		end.written = append(end.written, v)
	}
	e.mu.Unlock()
}

// pumpLink forwards frames in both directions until stop is closed.
func (e *strEnv) pumpLink(stop chan struct{}, wg *sync.WaitGroup) {
	pump := func(q *[]linkFrame, ch chan feedItem) {
		defer wg.Done()
		for {
			select {
			case <-stop:
				return
			default:
			}
			e.mu.Lock()
			var fr *linkFrame
			if len(*q) > 0 {
				f := (*q)[0]
				*q = (*q)[1:]
				fr = &f
			}
			e.mu.Unlock()
			if fr == nil {
				time.Sleep(20 * time.Microsecond)
				continue
			}
			select {
			case ch <- feedItem{frame: fr.raw}:
			case <-stop:
				return
			}
		}
	}
	wg.Add(2)
	go pump(&e.c2s, e.sfeed)
	go pump(&e.s2c, e.cfeed)
}

// badOpens: see the `badopens` action. Returns a description of the first problem ("" = none).
func (e *strEnv) badOpens(n int) (string, int) {
	stop := make(chan struct{})
	var wg sync.WaitGroup
	e.pumpLink(stop, &wg)
	var mu sync.Mutex
	problem := ""
	calls := 0
	done := make(chan struct{})
	var cw sync.WaitGroup
	for g := 0; g < 4; g++ {
		cw.Add(1)
		go func(g int) {
			defer cw.Done()
			for i := 0; ; i++ {
				select {
				case <-done:
					return
				default:
				}
				args := []byte(fmt.Sprintf("g%d-%d", g, i))
				reply := new([]byte)
				call := e.conn.Go("T.Echo", &args, reply, make(chan *rpc.Call, 1))
				select {
				case <-call.Done:
					mu.Lock()
					calls++
					if call.Error != nil || string(*reply) != "echo:"+string(args) {
						if problem == "" {
							problem = fmt.Sprintf("a unary call next to failing stream opens came back with error %v and reply %q (want %q)", call.Error, string(*reply), "echo:"+string(args))
						}
					}
					mu.Unlock()
				case <-time.After(2 * time.Second):
					mu.Lock()
					if problem == "" {
						problem = "a unary call next to failing stream opens did not return within 2 s"
					}
					mu.Unlock()
					return
				}
			}
		}(g)
	}
	for i := 0; i < n; i++ {
		res := make(chan error, 1)
		go func() {
			_, err := e.conn.NewStream("Nope.Stream")
			res <- err
		}()
		select {
		case err := <-res:
			if err == nil {
				mu.Lock()
				if problem == "" {
					problem = "NewStream on an unknown method returned no error"
				}
				mu.Unlock()
			}
		case <-time.After(2 * time.Second):
			mu.Lock()
			if problem == "" {
				problem = "NewStream on an unknown method did not return within 2 s"
			}
			mu.Unlock()
		}
		mu.Lock()
		p := problem
		mu.Unlock()
		if p != "" {
			break
		}
	}
	close(done)
	cw.Wait()
	close(stop)
	wg.Wait()
	mu.Lock()
	defer mu.Unlock()
	return problem, calls
}

// closeRace: see the `closerace` action.
func (e *strEnv) closeRace(n int) (stranded, trials int) {
	stop := make(chan struct{})
	var wg sync.WaitGroup
	pump := func(q *[]linkFrame, ch chan feedItem) {
		defer wg.Done()
		for {
			select {
			case <-stop:
				return
			default:
			}
			e.mu.Lock()
			var fr *linkFrame
			if len(*q) > 0 {
				f := (*q)[0]
				*q = (*q)[1:]
				fr = &f
			}
			e.mu.Unlock()
			if fr == nil {
				time.Sleep(20 * time.Microsecond)
				continue
			}
			select {
			case ch <- feedItem{frame: fr.raw}:
			case <-stop:
				return
			}
		}
	}
	wg.Add(2)
	go pump(&e.c2s, e.sfeed)
	go pump(&e.s2c, e.cfeed)
	rnd := prng.New(uint64(n) * 7919)
	for i := 0; i < n; i++ {
		st, err := e.conn.NewStream("T.Stream")
		if err != nil || st == nil {
			break
		}
		trials++
		done := make(chan error, 1)
		go func() {
			var m []byte
			done <- st.ReadMessage(nil, &m)
		}()
		for spin := rnd.Intn(40); spin > 0; spin-- {
			_ = spin * spin
		}
		go st.Close()
		select {
		case <-done:
		case <-time.After(2 * time.Second):
			stranded++
		}
		if stranded > 0 {
			break
		}
	}
	close(stop)
	wg.Wait()
	// let the handlers of the race streams go
	e.mu.Lock()
	for _, t := range e.ss {
		if !t.exited {
			select {
			case <-t.exitC:
			default:
				close(t.exitC)
			}
		}
	}
	e.mu.Unlock()
	return
}

func runStrScenario(sc strScenario) *strResult {
	e := newStrEnv(sc)
	res := &strResult{env: e}
	gate.Settle(2 * time.Second)
	feed := func(ch chan feedItem, it feedItem) bool {
		select {
		case ch <- it:
			return true
		case <-time.After(2 * time.Second):
			return false
		}
	}
	for _, a := range sc.Actions {
		f := strings.Fields(a)
		ok := true
		idx := -1
		if len(f) > 1 {
			idx = atoi(f[1])
		}
		e.mu.Lock()
		var c *cStreamRec
		var t *sStreamRec
		if strings.HasPrefix(f[0], "c") && f[0] != "copen" && f[0] != "copenp" && f[0] != "cut" && f[0] != "ceof" && idx >= 0 && idx < len(e.cs) {
			c = e.cs[idx]
		}
		if strings.HasPrefix(f[0], "s") && f[0] != "seof" && idx >= 0 && idx < len(e.ss) {
			t = e.ss[idx]
		}
		cShut, sEnded, cut := e.cShut, e.sEnded, e.cut
		nc2s, ns2c := len(e.c2s), len(e.s2c)
		e.mu.Unlock()
		switch f[0] {
		case "copen", "copenp":
			if cShut {
				ok = false
				break
			}
			rec := &cStreamRec{}
			e.mu.Lock()
			e.cs = append(e.cs, rec)
			n := 0
			if f[0] == "copenp" {
				n = atoi(f[1])
			}
			e.pushPlan = append(e.pushPlan, n)
			e.pushed = append(e.pushed, 0)
			e.mu.Unlock()
			go func() {
				st, err := e.conn.NewStream("T.Stream")
				e.mu.Lock()
				if err != nil || st == nil {
					rec.failed = true
				} else {
					rec.st, rec.opened = st, true
				}
				e.mu.Unlock()
			}()
		case "ucall":
			if cShut {
				ok = false
				break
			}
			args := []byte("x")
			reply := new([]byte)
			e.mu.Lock()
			n := len(e.ucalls)
			e.mu.Unlock()
			call := e.conn.Go("T.Echo", &args, reply, make(chan *rpc.Call, 1))
			go func() {
				<-call.Done
				// the sequence number is the one of the n-th unary request seen on the wire
				for i := 0; i < 2000; i++ {
					e.mu.Lock()
					if len(e.ucalls) > n {
						e.udone[e.ucalls[n]] = true
						e.mu.Unlock()
						return
					}
					e.mu.Unlock()
					time.Sleep(time.Millisecond)
				}
			}()
		case "dc":
			if cShut || ns2c == 0 {
				ok = false
				break
			}
			e.mu.Lock()
			fr := e.s2c[0]
			e.s2c = e.s2c[1:]
			e.mu.Unlock()
			ok = feed(e.cfeed, feedItem{frame: fr.raw})
		case "ds":
			if sEnded || nc2s == 0 {
				ok = false
				break
			}
			e.mu.Lock()
			fr := e.c2s[0]
			e.c2s = e.c2s[1:]
			if strings.HasPrefix(fr.name, "u") {
				e.uDelivered[fr.name] = true
			}
			e.mu.Unlock()
			ok = feed(e.sfeed, feedItem{frame: fr.raw})
		case "dcn", "dsn":
			// several frames back to back, without letting the receiving end settle in between
			lastUnary := false
			for k := 0; k < atoi(f[1]) && ok; k++ {
				e.mu.Lock()
				var fr linkFrame
				have := false
				if f[0] == "dcn" && !e.cShut && len(e.s2c) > 0 {
					fr, e.s2c, have = e.s2c[0], e.s2c[1:], true
				}
				if f[0] == "dsn" && !e.sEnded && len(e.c2s) > 0 && !(k > 0 && (e.solo(e.c2s[0].name) || lastUnary)) {
					// a unary request is answered by its own goroutine, and so are the pushes of a handler that
					// writes the moment it starts: such a frame is never part of a burst with other frames
					fr, e.c2s, have = e.c2s[0], e.c2s[1:], true
					lastUnary = e.solo(fr.name)
					if strings.HasPrefix(fr.name, "u") {
						e.uDelivered[fr.name] = true
					}
				}
				e.mu.Unlock()
				if !have {
					if k == 0 {
						ok = false
					}
					break
				}
				if f[0] == "dcn" {
					ok = feed(e.cfeed, feedItem{frame: fr.raw})
				} else {
					ok = feed(e.sfeed, feedItem{frame: fr.raw})
				}
			}
		case "cwrite":
			if c == nil || !c.opened || atoi(f[2]) == 0 {
				ok = false
				break
			}
			e.endWrite(&c.e, atoi(f[2]), func(m *[]byte) error { return c.st.WriteMessage(m) })
		case "dseof":
			// everything the client has written reaches the server's reader back to back, and the end
			// of the connection right behind it (the link is cut first if it was not)
			if sEnded {
				ok = false
				break
			}
			// a handler parked in ReadMessage while frames are about to arrive back to back with the
			// end: whether it wakes with the message or with the end is a race of the real scheduler
			// (both are allowed: the connection is ending); the script does not go there
			e.mu.Lock()
			racy := false
			if len(e.c2s) > 0 {
				for _, t := range e.ss {
					if t.e.waiting {
						racy = true
					}
				}
			}
			// likewise a close request or the open of a push-first stream right before the end: what
			// their own goroutines still manage to do before the teardown is a race
			for _, fr := range e.c2s {
				if !strings.HasPrefix(fr.name, "u") && e.solo(fr.name) {
					racy = true
				}
			}
			e.mu.Unlock()
			if racy {
				ok = false
				break
			}
			e.mu.Lock()
			e.cut = true
			frames := e.c2s
			e.c2s = nil
			for _, fr := range frames {
				if strings.HasPrefix(fr.name, "u") {
					e.uDelivered[fr.name] = true
				}
			}
			e.mu.Unlock()
			for _, fr := range frames {
				if !feed(e.sfeed, feedItem{frame: fr.raw}) {
					ok = false
					break
				}
			}
			if ok {
				ok = feed(e.sfeed, feedItem{err: io.EOF})
			}
			if ok {
				e.mu.Lock()
				e.sEnded = true
				e.mu.Unlock()
			}
		case "cwritebad":
			// a message the body codec cannot encode: the write fails on the client, nothing is sent,
			// the stream stays open and usable
			if c == nil || !c.opened {
				ok = false
				break
			}
			c.st.WriteMessage(&failArgs{})
		case "cread":
			if c == nil || !c.opened || c.e.waiting {
				ok = false
				break
			}
			e.mu.Lock()
			e.endRead(&c.e, func(m *[]byte) error { return c.st.ReadMessage(nil, m) })
			e.mu.Unlock()
		case "cclose":
			if c == nil || !c.opened || c.closeCalled {
				ok = false
				break
			}
			c.closeCalled = true
			go func() {
				c.st.Close()
				e.mu.Lock()
				c.closeDone = true
				e.mu.Unlock()
			}()
		case "swrite":
			if t == nil || t.exited || atoi(f[2]) == 0 {
				ok = false
				break
			}
			e.endWrite(&t.e, atoi(f[2]), func(m *[]byte) error { return t.h.Write(m) })
		case "sread":
			if t == nil || t.exited || t.e.waiting {
				ok = false
				break
			}
			e.mu.Lock()
			e.endRead(&t.e, func(m *[]byte) error { return t.h.Read(nil, m) })
			e.mu.Unlock()
		case "sexit":
			if t == nil || t.exited || t.e.waiting {
				ok = false
				break
			}
			close(t.exitC)
		case "cut":
			if cut {
				ok = false
				break
			}
			e.mu.Lock()
			e.cut = true
			if kc := atoi(f[1]); kc < len(e.c2s) {
				e.c2s = e.c2s[:kc]
			}
			if ks := atoi(f[2]); ks < len(e.s2c) {
				e.s2c = e.s2c[:ks]
			}
			e.mu.Unlock()
		case "ceof":
			if cShut || !cut || ns2c != 0 {
				ok = false
				break
			}
			ok = feed(e.cfeed, feedItem{err: io.EOF})
			if ok {
				e.mu.Lock()
				e.cShut = true
				e.mu.Unlock()
			}
		case "seof":
			if sEnded || !cut || nc2s != 0 {
				ok = false
				break
			}
			ok = feed(e.sfeed, feedItem{err: io.EOF})
			if ok {
				e.mu.Lock()
				e.sEnded = true
				e.mu.Unlock()
			}
		case "badopens":
			// n stream opens on a method that does not exist, with unary calls from four goroutines
			// in flight all the while: each open fails alone, every neighbour gets its own echo
			res.free = true
			res.badOpenProblem, res.badOpenCalls = e.badOpens(atoi(f[1]))
		case "closerace":
			// n streams, each closed by its owner at the very moment a ReadMessage on it starts: the
			// reader must come back with ErrStreamShutdown however the two interleave. The link is
			// pumped automatically meanwhile; the scenario is monitor-only (res.free).
			res.free = true
			res.raceStranded, res.raceTrials = e.closeRace(atoi(f[1]))
		case "probe":
		default:
			ok = false
		}
		if !ok {
			continue
		}
		if !gate.Settle(3 * time.Second) {
			res.stuck = a
		}
		res.actions = append(res.actions, a)
		res.obs = append(res.obs, e.observe())
	}
	return res
}

func (e *strEnv) finish() {
	e.mu.Lock()
	for _, t := range e.ss {
		if !t.exited {
			select {
			case <-t.exitC:
			default:
				close(t.exitC)
			}
		}
	}
	e.cut = true
	e.mu.Unlock()
	e.conn.Close()
	e.sCloseOne.Do(func() { close(e.sclosed) })
	select {
	case <-e.served:
	case <-time.After(2 * time.Second):
	}
	gate.Settle(2 * time.Second)
}

// ---- monitors (implementation only) ----

func intsPrefix(a, b []int) bool {
	if len(a) > len(b) {
		return false
	}
	for i := range a {
		if a[i] != b[i] {
			return false
		}
	}
	return true
}

func checkStr(sc strScenario, r *strResult) []connVerdict {
	var out []connVerdict
	add := func(prop, mon, key, what string) { out = append(out, connVerdict{prop, mon, key, what}) }
	e := r.env
	e.mu.Lock()
	defer e.mu.Unlock()
	mode := fmt.Sprintf("cdio%d-sdio%d", b2i(sc.CDio), b2i(sc.SDio))
	acts := strings.Join(r.actions, ";")
	cutHappened := strings.Contains(acts, "cut ")
	for i, c := range e.cs {
		if i >= len(e.ss) {
			break
		}
		t := e.ss[i]
		// C09: what one side read is a prefix of what the other side wrote on the same stream
		if !intsPrefix(c.e.got, t.e.written) {
			add("C09", "stream-sequence", "C09/client-read-not-prefix/"+mode, fmt.Sprintf("stream %d: the client read %v, the handler wrote %v", i, c.e.got, t.e.written))
		}
		if !intsPrefix(t.e.got, c.e.written) {
			add("C09", "stream-sequence", "C09/server-read-not-prefix/"+mode, fmt.Sprintf("stream %d: the handler read %v, the client wrote %v", i, t.e.got, c.e.written))
		}
		// C09 no loss: the script's final phase delivers every frame and reads until the readers park;
		// on a stream that was never closed, over a link that was never cut, everything written has been read
		if strings.HasSuffix(acts, "probe") && !cutHappened && !c.closeCalled && c.opened {
			if len(c.e.got) != len(t.e.written) && c.e.waiting {
				add("C09", "stream-no-loss", "C09/server-messages-lost/"+mode, fmt.Sprintf("stream %d: the handler wrote %v, the client read only %v and is waiting for more although nothing is in flight", i, t.e.written, c.e.got))
			}
			if len(t.e.got) != len(c.e.written) && t.e.waiting {
				add("C09", "stream-no-loss", "C09/client-messages-lost/"+mode, fmt.Sprintf("stream %d: the client wrote %v, the handler read only %v and is waiting for more although nothing is in flight", i, c.e.written, t.e.got))
			}
		}
	}
	// C03: a stream open or close that was outstanding when the connection ended returns
	if e.cShut {
		for i, c := range e.cs {
			if !c.opened && !c.failed {
				add("C03", "no-caller-hangs", "C03/stream-open-hangs/"+mode, fmt.Sprintf("stream %d: NewStream was waiting for its acknowledgement when the connection ended and has not returned", i))
			}
			if c.closeCalled && !c.closeDone {
				add("C03", "no-caller-hangs", "C03/stream-close-hangs/"+mode, fmt.Sprintf("stream %d: Close was waiting for its acknowledgement when the connection ended and has not returned", i))
			}
		}
	}
	// C10: after an end of the connection has been told about the loss, nobody stays parked on its streams
	if e.cShut {
		for i, c := range e.cs {
			if c.e.waiting {
				add("C10", "reader-released", "C10/client-reader-stranded/"+mode, fmt.Sprintf("stream %d: a client ReadMessage is still blocked after the connection ended", i))
			}
			if c.closeCalled && !c.closeDone {
				add("C10", "close-returns", "C10/close-stranded/"+mode, fmt.Sprintf("stream %d: Close has not returned although the connection ended", i))
			}
		}
	}
	if e.sEnded {
		for i, t := range e.ss {
			if t.e.waiting {
				add("C10", "handler-unblocked", "C10/handler-reader-stranded/"+mode, fmt.Sprintf("stream %d: the handler's ReadMessage is still blocked after the server saw the end of the connection", i))
			}
		}
	}
	// C10: a close that was delivered and acknowledged releases the handler's reader
	for i, c := range e.cs {
		if c.closeDone && !e.cShut && i < len(e.ss) && e.ss[i].e.waiting && !cutHappened {
			add("C10", "handler-unblocked", "C10/handler-blocked-after-close/"+mode, fmt.Sprintf("stream %d: the client's Close has returned, the handler's ReadMessage is still blocked", i))
		}
	}
	// C04: a unary request the server has read is answered exactly once (its handler returns at once here)
	for name := range e.uDelivered {
		if n := e.uAnswered[name]; n != 1 {
			add("C04", "one-response", "C04/unary-beside-streams/"+mode, fmt.Sprintf("unary request %s was read by the server next to stream traffic and got %d responses", name, n))
		}
	}
	if r.badOpenProblem != "" {
		add("C06", "failed-open-fails-alone", "C06/failed-stream-open-disturbs-neighbours/"+mode, r.badOpenProblem+fmt.Sprintf(" (%d neighbour calls made)", r.badOpenCalls))
	}
	if r.raceStranded > 0 {
		add("C10", "reader-released", "C10/read-raced-with-close-stranded/"+mode, fmt.Sprintf("a ReadMessage that started at the moment its stream was closed was still blocked 2 s later (trial %d)", r.raceTrials))
	}
	if r.stuck != "" && !r.free {
		add("C10", "quiescence", "C10/stream-not-quiescent", "the process did not become quiescent within 3 s after action "+r.stuck)
	}
	return out
}

// ---- scripts ----

func strCorpus() []strScenario {
	var out []strScenario
	modes := []struct{ c, s bool }{{false, false}, {true, false}, {false, true}, {true, true}}
	hdrs := []string{"default", "code", "pb", "json"}
	for mi, m := range modes {
		h := hdrs[mi%len(hdrs)]
		mk := func(name string, acts ...string) {
			out = append(out, strScenario{Hdr: h, CDio: m.c, SDio: m.s, CPipe: mi%2 == 1, SPipe: mi >= 2, Actions: acts, Name: name})
		}
		mk("echo", "copen", "ds", "dc", "cwrite 0 1", "ds", "sread 0", "swrite 0 2", "dc", "cread 0", "cclose 0", "ds", "dc", "sread 0", "sexit 0", "probe")
		// the handler pushes before the client has seen the acknowledgement
		mk("server-writes-first", "copen", "ds", "swrite 0 5", "swrite 0 6", "swrite 0 7", "dc", "dc", "dc", "dc", "cread 0", "cread 0", "cread 0", "cread 0", "probe")
		mk("handler-pushes-at-once", "copenp 3", "ds", "dc", "dc", "dc", "dc", "cread 0", "cread 0", "cread 0", "cread 0", "probe")
		mk("handler-pushes-at-once-burst", "copenp 2", "ds", "dcn 3", "cread 0", "cread 0", "cread 0", "copenp 1", "ds", "dcn 2", "cread 1", "cread 1", "probe")
		mk("ack-and-message-back-to-back", "copen", "ds", "swrite 0 4", "swrite 0 5", "dcn 2", "cread 0", "dcn 1", "cread 0", "cread 0", "probe")
		mk("two-streams-and-calls", "copen", "ucall", "copen", "ds", "ds", "ds", "dc", "dc", "dc", "swrite 1 11", "swrite 0 21", "cwrite 0 31", "ucall", "cwrite 1 41", "swrite 1 12",
			"dc", "dc", "dc", "ds", "ds", "ds", "dc", "cread 0", "cread 1", "cread 1", "sread 0", "sread 1", "cread 0", "sread 0", "probe")
		mk("close-one-keeps-sibling", "copen", "copen", "ds", "ds", "dc", "dc", "sread 0", "sread 1", "cread 0", "cread 1", "cclose 0", "ds", "dc", "swrite 1 9", "dc", "cwrite 1 8", "ds", "probe")
		mk("close-with-message-in-flight", "copen", "ds", "dc", "swrite 0 1", "swrite 0 2", "cclose 0", "dc", "dc", "ds", "dc", "cread 0", "swrite 0 3", "sread 0", "probe")
		mk("cut-with-parked-readers", "copen", "copen", "ds", "ds", "dc", "dc", "cread 0", "sread 0", "sread 1", "swrite 1 4", "cut 0 0", "ceof", "seof", "cread 1", "swrite 0 5", "cwrite 0 6", "probe")
		mk("cut-keeps-prefix", "copen", "ds", "dc", "swrite 0 1", "swrite 0 2", "swrite 0 3", "cwrite 0 7", "cwrite 0 8", "cut 1 2", "dc", "dc", "ds", "cread 0", "cread 0", "cread 0", "sread 0", "sread 0", "ceof", "seof", "probe")
		mk("cut-while-opening", "copen", "copen", "ds", "cut 0 0", "ceof", "seof", "probe")
		mk("unencodable-write-leaves-the-stream-usable", "copen", "ds", "dc", "cwritebad 0", "swrite 0 1", "dc", "cread 0", "cwrite 0 2", "ds", "sread 0", "cwritebad 0", "swrite 0 3", "swrite 0 4", "dc", "dc", "cread 0", "cread 0", "cread 0", "probe")
		mk("open-request-right-before-the-end", "copen", "ds", "dc", "sread 0", "copen", "copen", "dseof", "sread 1", "sread 2", "swrite 1 5", "ceof", "probe")
		mk("burst-then-end", "copen", "ds", "dc", "cwrite 0 1", "cwrite 0 2", "copen", "cwrite 0 3", "dseof", "sread 0", "sread 0", "sread 0", "sread 0", "sread 1", "probe")
		mk("close-races-read", "closerace 1500")
		mk("failing-opens-next-to-calls", "badopens 400")
		mk("close-after-end", "copen", "ds", "dc", "cut 0 0", "ceof", "cclose 0", "cread 0", "seof", "sread 0", "probe")
	}
	return out
}

func genStrScenario(r *prng.R) strScenario {
	sc := strScenario{Hdr: []string{"default", "code", "pb", "json"}[r.Intn(4)], CDio: r.Chance(1, 2), SDio: r.Chance(1, 2), CPipe: r.Chance(1, 2), SPipe: r.Chance(1, 2)}
	n := 20 + r.Intn(60)
	opened := 0
	next := 1
	cutAt := -1
	if r.Chance(1, 3) {
		cutAt = 10 + r.Intn(n)
	}
	sc.Actions = append(sc.Actions, "copen")
	opened++
	for i := 0; i < n; i++ {
		if i == cutAt {
			sc.Actions = append(sc.Actions, fmt.Sprintf("cut %d %d", r.Intn(3), r.Intn(3)))
			continue
		}
		x := r.Intn(100)
		s := r.Intn(opened)
		switch {
		case x < 6 && opened < 4:
			if r.Chance(1, 3) {
				sc.Actions = append(sc.Actions, fmt.Sprintf("copenp %d", 1+r.Intn(3)))
			} else {
				sc.Actions = append(sc.Actions, "copen")
			}
			opened++
		case x < 10:
			sc.Actions = append(sc.Actions, "ucall")
		case x < 27:
			sc.Actions = append(sc.Actions, "ds")
		case x < 30:
			sc.Actions = append(sc.Actions, fmt.Sprintf("dsn %d", 2+r.Intn(3)))
		case x < 46:
			sc.Actions = append(sc.Actions, "dc")
		case x < 50:
			sc.Actions = append(sc.Actions, fmt.Sprintf("dcn %d", 2+r.Intn(3)))
		case x < 60:
			sc.Actions = append(sc.Actions, fmt.Sprintf("swrite %d %d", s, next))
			next++
		case x < 69:
			sc.Actions = append(sc.Actions, fmt.Sprintf("cwrite %d %d", s, next))
			next++
		case x < 70:
			sc.Actions = append(sc.Actions, fmt.Sprintf("cwritebad %d", s))
		case x < 78:
			sc.Actions = append(sc.Actions, fmt.Sprintf("cread %d", s))
		case x < 86:
			sc.Actions = append(sc.Actions, fmt.Sprintf("sread %d", s))
		case x < 90:
			sc.Actions = append(sc.Actions, fmt.Sprintf("cclose %d", s))
		case x < 92:
			sc.Actions = append(sc.Actions, fmt.Sprintf("sexit %d", s))
		case x < 93 && cutAt < 0 && i > n/2:
			sc.Actions = append(sc.Actions, "dseof")
			cutAt = i
		case x < 95 && cutAt >= 0 && i > cutAt:
			sc.Actions = append(sc.Actions, []string{"ceof", "seof"}[r.Intn(2)])
		default:
			sc.Actions = append(sc.Actions, "probe")
		}
	}
	// final phase: deliver everything, tell both ends if the link was cut, read until the readers park
	for i := 0; i < 24; i++ {
		sc.Actions = append(sc.Actions, "ds", "dc")
	}
	if cutAt >= 0 {
		sc.Actions = append(sc.Actions, "ceof", "seof")
	}
	for round := 0; round < 6; round++ {
		for s := 0; s < opened; s++ {
			sc.Actions = append(sc.Actions, fmt.Sprintf("cread %d", s), fmt.Sprintf("sread %d", s))
		}
	}
	sc.Actions = append(sc.Actions, "probe")
	return sc
}

func strScenarios(seed uint64, tier string) []strScenario {
	r := prng.New(seed ^ 0x5354524d)
	scs := strCorpus()
	n := 120
	if tier == "thorough" {
		n = 3000
	}
	for i := 0; i < n; i++ {
		scs = append(scs, genStrScenario(r.Fork()))
	}
	return scs
}

func runOneStr(i int, sc strScenario) *scenarioOut {
	res := runStrScenario(sc)
	if os.Getenv("CORR_DEBUG") != "" {
		fmt.Fprintf(os.Stderr, "scenario %d %s %s\n", i, sc.Name, sc.header())
		for j, a := range res.actions {
			fmt.Fprintf(os.Stderr, "  %s\n      %s\n", a, res.obs[j])
		}
	}
	out := &scenarioOut{Counters: map[string]int{}}
	inl := []string{sc.header()}
	iml := []string{"ok"}
	for j, a := range res.actions {
		inl = append(inl, a)
		iml = append(iml, res.obs[j])
	}
	if !res.free {
		out.Streams = map[string][2][]string{"t": {inl, iml}}
	}
	out.Counters["closerace.trials"] += res.raceTrials
	kinds := make([]string, len(res.actions))
	for j, a := range res.actions {
		kinds[j] = strings.Fields(a)[0]
		out.Counters["action."+kinds[j]]++
	}
	out.Key = sc.header() + " " + strings.Join(kinds, ";")
	out.Counters["actions"] = len(res.actions)
	if i%29 == 0 {
		out.Sample = map[string]interface{}{"scenario": sc, "last_observation": res.obs[len(res.obs)-1]}
	}
	for _, v := range checkStr(sc, res) {
		out.Violations = append(out.Violations, rep.Violation{Property: v.prop, Monitor: v.monitor, Key: v.key, What: v.what,
			Replay: map[string]interface{}{"component": "stream", "index": i, "scenario": sc, "executed_actions": res.actions, "last_observation": res.obs[len(res.obs)-1]}})
	}
	res.env.finish()
	return out
}

func runStr(dir string, seed uint64, tier, only, replay string) *rep.Report {
	rp := rep.New("stream", seed, tier)
	scs := strScenarios(seed, tier)
	if workerRange != "" {
		var from, to int
		fmt.Sscanf(workerRange, "%d:%d", &from, &to)
		workerMain(len(scs), from, to, func(i int) interface{} { return scs[i] }, func(i int) *scenarioOut { return runOneStr(i, scs[i]) })
		os.Exit(0)
	}
	if only != "" {
		for i, sc := range scs {
			if only == sc.Name || only == fmt.Sprint(i) {
				runOneStr(i, sc)
			}
		}
		return rp
	}
	parentLoopN("stream", dir, len(scs), []string{"-out", dir, "-seed", fmt.Sprint(seed), "-tier", tier}, rp, []string{"t"}, []string{"C08", "C06"}, 60*time.Second, 8)
	return rp
}

func init() { components["stream"] = runStr }
