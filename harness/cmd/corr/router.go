package main

// router: scripted runs of the real *rpc.Client (model component R) — C16, C17, C18 and the
// Client part of C20. Client.Transport is an instrumented RoundTripper with scripted
// per-address health; the routing state is read through the verif-tagged accessor.
// The detector's period is a constant of the library (100 ms), so scenario time is organised
// in detection periods ("wait" = 170 ms ≥ one full pass plus its pings).

import (
	"context"
	"fmt"
	"math"
	"os"
	"sort"
	"strings"
	"sync"
	"sync/atomic"
	"time"

	"github.com/hslam/rpc"
	"verifharness/internal/gate"
	"verifharness/internal/prng"
	"verifharness/internal/rep"
)

// routerCtxKey marks the context the harness gives to CallWithContext: the transport must see it.
type routerCtxKey struct{}

type rtCall struct {
	k      int
	form   string
	addr   string // address the transport was asked for ("" = none)
	err    error
	done   bool
	t0, t1 time.Time
	ctrl   time.Duration // how late a plain timer of DialTimeout, started with the call, fired (machine load)
}

type fakeRT struct {
	mu      sync.Mutex
	up      map[string]bool
	log     []string // addresses of user calls in order
	forms   []string // the transport method each of them arrived through (parallel to log)
	pings   map[string]int
	closed  int
	removed map[string]time.Time     // when an address was removed by Update (for C16)
	jitter  bool                     // pings take 0..300 µs (storm)
	hold    map[string]chan struct{} // calls to these addresses wait inside the Transport until released
	late    []string
	slow    map[string]bool // a black-holed address: its probe hangs for slowProbe before it fails
}

const slowProbe = 900 * time.Millisecond
const stallLimit = 400 * time.Millisecond

func (f *fakeRT) result(addr string) error {
	f.mu.Lock()
	defer f.mu.Unlock()
	if addr == "" || !f.up[addr] {
		return rpc.ErrDial
	}
	return nil
}

func (f *fakeRT) note(addr string, form ...string) {
	f.mu.Lock()
	f.log = append(f.log, addr)
	if len(form) > 0 {
		f.forms = append(f.forms, form[0])
	} else {
		f.forms = append(f.forms, "?")
	}
	ch := f.hold[addr]
	f.mu.Unlock()
	if ch != nil {
		<-ch // a slow dial / slow server: the outcome is decided when the call is let go
	}
}

func (f *fakeRT) RoundTrip(addr string, call *rpc.Call) *rpc.Call {
	f.note(addr, "rt")
	if call.Done == nil {
		call.Done = make(chan *rpc.Call, 10)
	}
	call.Error = f.result(addr)
	select {
	case call.Done <- call:
	default:
	}
	return call
}
func (f *fakeRT) Go(addr, m string, a, r interface{}, done chan *rpc.Call) *rpc.Call {
	c := &rpc.Call{ServiceMethod: m, Args: a, Reply: r, Done: done}
	c = f.RoundTrip(addr, c)
	f.mu.Lock()
	if n := len(f.forms); n > 0 {
		f.forms[n-1] = "go"
	}
	f.mu.Unlock()
	return c
}
func (f *fakeRT) Call(addr, m string, a, r interface{}) error {
	f.note(addr, "call")
	if p, ok := a.(*string); ok {
		*p = addr // tell the caller where it was sent
	}
	return f.result(addr)
}
func (f *fakeRT) CallWithContext(ctx context.Context, addr, m string, a, r interface{}) error {
	if ctx != nil && ctx.Value(routerCtxKey{}) != nil {
		f.note(addr, "ctx")
	} else {
		f.note(addr, "ctx-foreign") // a context, but not the caller's own
	}
	return f.result(addr)
}
func (f *fakeRT) NewStream(addr, key string) (rpc.Stream, error) {
	f.note(addr, "stream")
	return nil, f.result(addr)
}
func (f *fakeRT) Ping(addr string) error {
	f.mu.Lock()
	f.pings[addr]++
	j := f.jitter
	sl := f.slow[addr]
	f.mu.Unlock()
	if sl {
		time.Sleep(slowProbe)
	}
	if j {
		h := uint32(2166136261)
		for i := 0; i < len(addr); i++ {
			h = (h ^ uint32(addr[i])) * 16777619
		}
		time.Sleep(time.Duration(h%300) * time.Microsecond)
	}
	return f.result(addr)
}
func (f *fakeRT) Close() error {
	f.mu.Lock()
	f.closed++
	f.mu.Unlock()
	return nil
}

type routerScenario struct {
	Policy  string   `json:"policy"`
	Actions []string `json:"actions"`
	Name    string   `json:"name,omitempty"`
}

func (s routerScenario) header() string { return "router policy=" + s.Policy }

type routerEnv struct {
	c       *rpc.Client
	rt      *fakeRT
	mu      sync.Mutex
	calls   map[int]*rtCall
	order   []int
	wg      sync.WaitGroup
	timeout time.Duration
	current map[string]bool // the most recently supplied target set
	dirAddr string
}

const routerWait = 170 * time.Millisecond
const routerDialTimeout = 600 * time.Millisecond

func newRouterEnv(sc routerScenario) *routerEnv {
	rt := &fakeRT{up: map[string]bool{}, pings: map[string]int{}, removed: map[string]time.Time{}, hold: map[string]chan struct{}{}}
	e := &routerEnv{rt: rt, calls: map[int]*rtCall{}, current: map[string]bool{}}
	c := rpc.NewClient(nil)
	c.Transport = rt
	c.DialTimeout = routerDialTimeout
	switch sc.Policy {
	case "rr":
		c.Scheduling = rpc.RoundRobinScheduling
	case "rand":
		c.Scheduling = rpc.RandomScheduling
	case "least":
		c.Scheduling = rpc.LeastTimeScheduling
		c.Tick = time.Hour // no probes unless the scenario says otherwise
	case "leastprobe":
		c.Scheduling = rpc.LeastTimeScheduling
		c.Tick = 0 // every pick is a probe
	}
	e.c = c
	return e
}

func (e *routerEnv) start(k int, form string) {
	r := &rtCall{k: k, form: form, t0: time.Now()}
	e.mu.Lock()
	e.calls[k] = r
	e.order = append(e.order, k)
	e.mu.Unlock()
	time.AfterFunc(routerDialTimeout, func() {
		e.mu.Lock()
		r.ctrl = time.Since(r.t0)
		e.mu.Unlock()
	})
	e.wg.Add(1)
	go func() {
		defer e.wg.Done()
		var a, b []byte
		var err error
		switch form {
		case "call":
			err = e.c.Call("S.M", &a, &b)
		case "ctx":
			err = e.c.CallWithContext(context.WithValue(context.Background(), routerCtxKey{}, true), "S.M", &a, &b)
		case "go":
			c := e.c.Go("S.M", &a, &b, make(chan *rpc.Call, 1))
			<-c.Done
			err = c.Error
		case "rt":
			c := &rpc.Call{ServiceMethod: "S.M", Args: &a, Reply: &b, Done: make(chan *rpc.Call, 1)}
			e.c.RoundTrip(c)
			<-c.Done
			err = c.Error
		case "ping":
			err = e.c.Ping()
		case "stream":
			_, err = e.c.NewStream("S.M")
		}
		e.mu.Lock()
		r.done, r.err, r.t1 = true, err, time.Now()
		e.mu.Unlock()
	}()
}

func classifyRouter(err error) string {
	switch err {
	case nil:
		return "nil"
	case rpc.ErrDial:
		return "dial"
	case rpc.ErrTimeout:
		return "timeout"
	case rpc.ErrShutdown:
		return "shutdown"
	}
	return "other"
}

func (e *routerEnv) waitCalls(d time.Duration) {
	deadline := time.Now().Add(d)
	for time.Now().Before(deadline) {
		e.mu.Lock()
		busy := false
		for _, c := range e.calls {
			if !c.done {
				busy = true
			}
		}
		e.mu.Unlock()
		if !busy {
			return
		}
		time.Sleep(300 * time.Microsecond)
	}
}

func (e *routerEnv) observe() string {
	list, _, last, pos, waiters, alive, _ := e.c.VerifClientSnapshot()
	var al []string
	for a, v := range alive {
		if v {
			al = append(al, a)
		}
	}
	sort.Strings(al)
	e.mu.Lock()
	defer e.mu.Unlock()
	var cs []string
	ks := append([]int(nil), e.order...)
	sort.Ints(ks)
	for _, k := range ks {
		c := e.calls[k]
		if c.done {
			cs = append(cs, fmt.Sprintf("%d:%s", k, classifyRouter(c.err)))
		} else {
			cs = append(cs, fmt.Sprintf("%d:-", k))
		}
	}
	e.rt.mu.Lock()
	log := strings.Join(e.rt.log, ",")
	e.rt.mu.Unlock()
	return fmt.Sprintf("obs nt=%d list=[%s] last=[%s] pos=%d waiters=%d alive=[%s] sent=[%s] calls=[%s]", len(alive), strings.Join(list, ","), strings.Join(last, ","), pos, waiters, strings.Join(al, ","), log, strings.Join(cs, " "))
}

type leastPick struct {
	at   int // index into the RoundTripper's log of the address this call was sent to
	list []string
	lat  map[string]int64
}

type routerResult struct {
	leastPicks []leastPick
	stormBad   []string
	stormCalls int
	timing     bool
	timingWhy  string
	stalls     []string // C18: calls (or Close) that hung although a live target existed
	rtForms    []string // the transport method behind each entry of the sent log
	actions    []string
	obs        []string
	env        *routerEnv
	notes      []connVerdict
}

// storm: see the `storm` action. Generation g replaces the whole target list by k fresh addresses.
// A caller reads the last generation whose Update has RETURNED, then makes a call; the address it
// was sent to must be of that generation or a newer one. The next Update is issued right after the
// first call has reached the new generation, i.e. while the detector is still bringing the rest of
// the generation up (many concurrent check() runs). Returns descriptions of misrouted calls.
func (e *routerEnv) storm(gens int) ([]string, int) {
	const k = 32
	var returned int64 = -1
	var seen int64 = -1
	var bad []string
	var badMu sync.Mutex
	calls := int64(0)
	stop := make(chan struct{})
	var wg sync.WaitGroup
	genOf := func(addr string) int64 {
		if !strings.HasPrefix(addr, "g") {
			return -1
		}
		return int64(atoi(strings.SplitN(addr[1:], "-", 2)[0]))
	}
	e.rt.mu.Lock()
	e.rt.jitter = true
	e.rt.mu.Unlock()
	for w := 0; w < 4; w++ {
		wg.Add(1)
		go func() {
			defer wg.Done()
			for {
				select {
				case <-stop:
					return
				default:
				}
				g0 := atomic.LoadInt64(&returned)
				var addr string // the instrumented RoundTripper stores the address here
				var r int
				err := e.c.Call("S.M", &addr, &r)
				atomic.AddInt64(&calls, 1)
				if err == nil && addr != "" {
					g := genOf(addr)
					if g < g0 {
						badMu.Lock()
						if len(bad) < 5 {
							bad = append(bad, fmt.Sprintf("a call started after Update(generation %d) had returned was sent to %q (generation %d, removed)", g0, addr, g))
						}
						badMu.Unlock()
					}
					for {
						old := atomic.LoadInt64(&seen)
						if g <= old || atomic.CompareAndSwapInt64(&seen, old, g) {
							break
						}
					}
				}
				time.Sleep(20 * time.Microsecond)
			}
		}()
	}
	rnd := prng.New(uint64(gens)*2654435761 + 17)
	for g := 0; g < gens; g++ {
		ts := make([]string, k)
		e.rt.mu.Lock()
		for h := range ts {
			ts[h] = fmt.Sprintf("g%d-h%d", g, h)
			e.rt.up[ts[h]] = true
		}
		e.rt.mu.Unlock()
		e.c.Update(ts...)
		atomic.StoreInt64(&returned, int64(g))
		deadline := time.Now().Add(time.Second)
		for atomic.LoadInt64(&seen) < int64(g) && time.Now().Before(deadline) {
			time.Sleep(50 * time.Microsecond)
		}
		time.Sleep(time.Duration(rnd.Intn(400)) * time.Microsecond)
	}
	time.Sleep(250 * time.Millisecond)
	close(stop)
	wg.Wait()
	e.rt.mu.Lock()
	e.rt.log = nil // the storm's own calls are not part of the observation
	e.rt.forms = nil
	e.rt.jitter = false
	e.rt.mu.Unlock()
	return bad, int(atomic.LoadInt64(&calls))
}

func runRouterScenario(sc routerScenario) *routerResult {
	e := newRouterEnv(sc)
	res := &routerResult{env: e}
	time.Sleep(20 * time.Millisecond) // the detector's first pass (no targets yet)
	next := 1000
	closed := false
	for _, a := range sc.Actions {
		f := strings.Fields(a)
		rec := a
		listBefore, _, _, _, _, _, _ := e.c.VerifClientSnapshot()
		switch f[0] {
		case "update":
			ts := []string{}
			if len(f) > 1 && f[1] != "-" {
				ts = strings.Split(f[1], ",")
			}
			e.c.Update(ts...)
			now := time.Now()
			cur := map[string]bool{}
			for _, t := range ts {
				if t != "" {
					cur[t] = true
				}
			}
			e.rt.mu.Lock()
			for old := range e.current {
				if !cur[old] {
					e.rt.removed[old] = now
				}
			}
			for t := range cur {
				delete(e.rt.removed, t)
			}
			e.rt.mu.Unlock()
			e.current = cur
		case "health":
			e.rt.mu.Lock()
			e.rt.up[f[1]] = f[2] == "1"
			e.rt.mu.Unlock()
		case "slowprobe":
			// a black-holed target: down, and every probe of it hangs for slowProbe first (for the
			// model it is simply down)
			e.rt.mu.Lock()
			e.rt.up[f[1]] = false
			if e.rt.slow == nil {
				e.rt.slow = map[string]bool{}
			}
			e.rt.slow[f[1]] = true
			e.rt.mu.Unlock()
			rec = "health " + f[1] + " 0"
		case "wait":
			time.Sleep(routerWait)
			// the list order after a rebuild is the map's iteration order: it is an input of the model
			list, _, _, pos, _, _, _ := e.c.VerifClientSnapshot()
			rec = fmt.Sprintf("wait %s %d", orDash(strings.Join(list, ",")), pos)
		case "route", "gos", "rts", "pings", "ctxs", "streams":
			form := map[string]string{"route": "call", "gos": "go", "rts": "rt", "pings": "ping", "ctxs": "ctx", "streams": "stream"}[f[0]]
			n := atoi(f[1])
			if l0, _, _, _, _, _, _ := e.c.VerifClientSnapshot(); !closed && (len(l0) == 0 && e.dirAddr == "" || e.dirAddr == "-" && len(l0) == 0) {
				res.timing, res.timingWhy = true, "no-live-target-at-call"
			}
			e.rt.mu.Lock()
			before := len(e.rt.log)
			e.rt.mu.Unlock()
			for i := 0; i < n; i++ {
				next++
				t0 := time.Now()
				if sc.Policy == "least" {
					// C17: what the estimates were when this call was scheduled
					l0, _, _, _, _, _, lat := e.c.VerifClientSnapshot()
					e.rt.mu.Lock()
					at := len(e.rt.log)
					e.rt.mu.Unlock()
					res.leastPicks = append(res.leastPicks, leastPick{at: at, list: l0, lat: lat})
				}
				liveAtStart, _, _, _, _, _, _ := e.c.VerifClientSnapshot()
				t0 = time.Now()
				e.start(next, form)
				e.waitCalls(2 * time.Second) // sequential calls
				if time.Since(t0) > 25*time.Millisecond {
					res.timing, res.timingWhy = true, "call-took-over-25ms"
				}
				if d := time.Since(t0); d > stallLimit && len(liveAtStart) > 0 && !closed {
					e.rt.mu.Lock()
					held := len(e.rt.hold) > 0
					e.rt.mu.Unlock()
					if !held {
						res.stalls = append(res.stalls, fmt.Sprintf("a %s call started with live targets %v took %v", form, liveAtStart, d.Round(time.Millisecond)))
					}
				}
			}
			if sc.Policy == "rand" {
				e.rt.mu.Lock()
				rec = fmt.Sprintf("%s %d %s", f[0], n, orDash(strings.Join(e.rt.log[before:], ",")))
				e.rt.mu.Unlock()
			}
		case "park": // park n form : n concurrent calls that have to wait for a live target
			n := atoi(f[1])
			for i := 0; i < n; i++ {
				next++
				e.start(next, f[2])
			}
			time.Sleep(15 * time.Millisecond)
		case "hold":
			e.rt.mu.Lock()
			e.rt.hold[f[1]] = make(chan struct{})
			e.rt.mu.Unlock()
		case "release":
			e.rt.mu.Lock()
			ch := e.rt.hold[f[1]]
			delete(e.rt.hold, f[1])
			e.rt.mu.Unlock()
			if ch == nil {
				continue
			}
			close(ch)
			time.Sleep(5 * time.Millisecond)
		case "hgo":
			for i := 0; i < atoi(f[1]); i++ {
				next++
				e.start(next, "go")
				time.Sleep(3 * time.Millisecond)
			}
		case "settle":
			e.waitCalls(2 * time.Second)
		case "expire":
			time.Sleep(routerDialTimeout + 150*time.Millisecond)
		case "close":
			tc := time.Now()
			e.c.Close()
			if d := time.Since(tc); d > stallLimit {
				res.stalls = append(res.stalls, fmt.Sprintf("Close took %v", d.Round(time.Millisecond)))
			}
			closed = true
		case "fallback":
			e.c.Fallback(time.Duration(atoi(f[1])) * time.Millisecond)
		case "sleep":
			time.Sleep(time.Duration(atoi(f[1])) * time.Millisecond)
		case "storm":
			// storm n: n generations of pairwise disjoint target lists are installed one after the
			// other while four goroutines keep calling; every call records the generation whose
			// Update had returned when it started, and the address it was sent to
			res.timing, res.timingWhy = true, "storm"
			res.stormBad, res.stormCalls = e.storm(atoi(f[1]))
		case "setlat":
			e.c.VerifSetLatency(f[1], int64(atoi(f[2])))
		case "director":
			if f[1] == "-" {
				e.c.Director = nil
			} else {
				addr := f[1]
				e.c.Director = func() string { return addr }
			}
			e.dirAddr = f[1]
		default:
			continue
		}
		time.Sleep(2 * time.Millisecond)
		obsNow := e.observe()
		if f[0] != "wait" && f[0] != "storm" && f[0] != "sleep" && f[0] != "expire" {
			// a detector pass that happens to fall inside another action rebuilds the list behind the
			// script's back: what follows depends on its phase (monitor-only from here on). The list is
			// read from the observation itself, so that no pass can slip in between the two.
			listAfter := parseList(obsNow, "list")
			want := strings.Join(listBefore, ",")
			if f[0] == "update" {
				want = ""
			}
			// (a pass rebuilds the list only when the SET of live addresses changed: a mere
			// permutation of the same set is not the detector's doing and stays in the comparison)
			sa, sb := append([]string(nil), listAfter...), strings.Split(want, ",")
			if want == "" {
				sb = nil
			}
			sort.Strings(sa)
			sort.Strings(sb)
			if strings.Join(sa, ",") != strings.Join(sb, ",") {
				res.timing, res.timingWhy = true, "pass-inside-"+f[0]
			}
		}
		res.actions = append(res.actions, rec)
		res.obs = append(res.obs, obsNow)
	}
	e.rt.mu.Lock()
	res.rtForms = append([]string(nil), e.rt.forms...)
	e.rt.mu.Unlock()
	return res
}

func orDash(s string) string {
	if s == "" {
		return "-"
	}
	return s
}

func (e *routerEnv) finish() {
	e.c.Close()
	done := make(chan struct{})
	go func() { e.wg.Wait(); close(done) }()
	select {
	case <-done:
	case <-time.After(2 * time.Second):
	}
	gate.SettleAllowSleep(time.Second)
}

func parseList(obs, key string) []string {
	i := strings.Index(obs, key+"=[")
	if i < 0 {
		return nil
	}
	j := strings.Index(obs[i:], "]")
	s := obs[i+len(key)+2 : i+j]
	if s == "" {
		return nil
	}
	return strings.Split(s, ",")
}

// checkRouter: monitors over the observations.
func checkRouter(sc routerScenario, r *routerResult) []connVerdict {
	var out []connVerdict
	add := func(prop, mon, key, what string) { out = append(out, connVerdict{prop, mon, key, what}) }
	for _, st := range r.stalls {
		add("C18", "nobody-stalls-behind-a-probe", "C18/stalled-with-a-live-target", st+" (a probe of a black-holed target must not hold up routing, time-outs or Close)")
	}
	formOf := map[string]string{}
	cur := map[string]bool{}
	director := "-"
	prevSent := 0
	up := map[string]bool{}
	failSeen := map[string]bool{}
	waited := map[string]bool{}
	upWaits := map[string]int{}
	parked := false
	for i, a := range r.actions {
		f := strings.Fields(a)
		obs := r.obs[i]
		sent := parseList(obs, "sent")
		list := parseList(obs, "list")
		newSent := sent[prevSent:]
		switch f[0] {
		case "update":
			cur = map[string]bool{}
			if len(f) > 1 && f[1] != "-" {
				for _, t := range strings.Split(f[1], ",") {
					if t != "" {
						cur[t] = true
					}
				}
			}
		case "storm":
			cur = map[string]bool{}
			for h := 0; h < 32; h++ {
				cur[fmt.Sprintf("g%d-h%d", atoi(f[1])-1, h)] = true
			}
		case "director":
			director = f[1]
		case "health":
			up[f[1]] = f[2] == "1"
			upWaits[f[1]] = 0
			if up[f[1]] {
				delete(failSeen, f[1])
				delete(waited, f[1])
			}
		case "wait":
			for x := range failSeen {
				waited[x] = true
			}
			for x := range cur {
				if up[x] {
					upWaits[x]++
				}
			}
		case "park":
			parked = true
		}
		if f[0] == "update" {
			failSeen, waited = map[string]bool{}, map[string]bool{}
			upWaits = map[string]int{}
		}
		// C18: a current target that has been reachable for three detection periods is in use again:
		// no call may time out for want of a live target
		if (f[0] == "route" || f[0] == "gos" || f[0] == "rts" || f[0] == "ctxs") && !parked && director == "-" {
			for x := range cur {
				if up[x] && upWaits[x] >= 3 {
					for _, res := range lastResults(obs, atoi(f[1])) {
						if res == "timeout" {
							add("C18", "used-again-after-recovery", "C18/recovered-target-not-used/"+f[0], fmt.Sprintf("%s has been reachable for %d detection periods, yet a call of the %s batch at action %d timed out waiting for a live target", x, upWaits[x], f[0], i))
							break
						}
					}
					break
				}
			}
		}
		// C18: a target that refused a connection and has had one detection period stops receiving
		// calls while another current target is healthy
		if (f[0] == "route" || f[0] == "gos" || f[0] == "rts" || f[0] == "ctxs") && !parked && director == "-" {
			results := lastResults(obs, len(newSent))
			healthyOther := func(x string) bool {
				for y := range cur {
					if y != x && up[y] {
						return true
					}
				}
				return false
			}
			for j, x := range newSent {
				if x != "" && waited[x] && !up[x] && healthyOther(x) {
					add("C18", "fails-over", "C18/no-failover/"+f[0], fmt.Sprintf("%s kept receiving calls (%s batch at action %d) although it had refused a connection more than one detection period earlier and another target is healthy", x, f[0], i))
					break
				}
				if j < len(results) && results[j] == "dial" && x != "" {
					failSeen[x] = true
				}
			}
		}
		// which form each call has: the ids that appear with an action are that action's calls
		{
			form := map[string]string{"route": "call", "gos": "go", "rts": "rt", "pings": "ping", "ctxs": "ctx", "streams": "stream", "hgo": "go"}[f[0]]
			if f[0] == "park" && len(f) > 2 {
				form = f[2]
			}
			if form != "" {
				for k := range obsCalls(obs) {
					if _, seen := formOf[k]; !seen {
						formOf[k] = form
					}
				}
			}
		}
		// C18: Close fails every parked caller with ErrShutdown
		if f[0] == "close" && i > 0 {
			prevCalls := obsCalls(r.obs[i-1])
			nowCalls := obsCalls(obs)
			pend := 0
			for _, v := range prevCalls {
				if v == "-" {
					pend++
				}
			}
			if w := obsInt(r.obs[i-1], "waiters"); w > 0 && w == pend {
				for k, v := range prevCalls {
					// Call and CallWithContext report ErrShutdown; the other forms any non-nil error
					blocking := formOf[k] == "call" || formOf[k] == "ctx"
					if v == "-" && (blocking && nowCalls[k] != "shutdown" || !blocking && nowCalls[k] == "nil") {
						add("C18", "close-fails-parked-callers", "C18/parked-caller-not-failed-by-close", fmt.Sprintf("call %s (%s) was parked waiting for a live target when Close ran and ended with %q", k, formOf[k], nowCalls[k]))
						break
					}
				}
			}
		}
		// C19: what the caller of Client.CallWithContext passed is what the transport gets: the same
		// method, the caller's own context
		// (only when the printed log and the recorded forms line up: an empty address prints as nothing)
		if f[0] == "ctxs" && len(r.rtForms) == len(parseList(r.obs[len(r.obs)-1], "sent")) && !contains(parseList(r.obs[len(r.obs)-1], "sent"), "") {
			for j := prevSent; j < len(sent); j++ {
				if r.rtForms[j] != "ctx" {
					add("C19", "client-passes-the-context", "C19/context-dropped-by-the-client", fmt.Sprintf("a CallWithContext of the batch at action %d (sent to %q) reached the transport as %q: the caller's context never got there", i, sent[j], r.rtForms[j]))
					break
				}
			}
		}
		// C17: a call never reorders the live list (the rotation the cursor walks): only Update and the
		// detector's rebuild after a change of the live set do
		if i > 0 && f[0] != "update" && f[0] != "wait" && f[0] != "storm" {
			prev := parseList(r.obs[i-1], "list")
			a1, a2 := append([]string(nil), prev...), append([]string(nil), list...)
			sort.Strings(a1)
			sort.Strings(a2)
			if len(a1) > 1 && strings.Join(a1, ",") == strings.Join(a2, ",") && strings.Join(prev, ",") != strings.Join(list, ",") {
				add("C17", "calls-leave-rotation-alone", "C17/live-list-reordered-by-calls/"+sc.Policy, fmt.Sprintf("action %d (%s) left the live set %v as it was but reordered the list the cursor walks from %v to %v", i, a, a2, prev, list))
			}
		}
		// C16: the configured targets are exactly the distinct non-empty addresses last given to Update
		if f[0] == "update" {
			if nt := obsInt(obs, "nt"); nt >= 0 && nt != len(cur) {
				add("C16", "targets-are-what-update-gave", "C16/configured-targets-differ", fmt.Sprintf("after %q the client holds %d targets, the distinct non-empty addresses given are %v", a, nt, keys(cur)))
			}
		}
		// C17/C18: the cursor stays inside the live list
		if pos := obsInt(obs, "pos"); len(list) > 0 && pos >= len(list) {
			add("C18", "cursor-in-range", "C18/cursor-out-of-range", fmt.Sprintf("after action %d (%s) the round-robin cursor is %d with live list %v: the next pick indexes outside the list under the client lock", i, a, pos, list))
		}
		// C17: a detection pass that finds the live set unchanged leaves the list and the cursor alone
		// (round robin continues where it was; a pass must not reshuffle the rotation)
		if f[0] == "wait" && i > 0 && !r.timing {
			prev := parseList(r.obs[i-1], "list")
			a1, a2 := append([]string(nil), prev...), append([]string(nil), list...)
			sort.Strings(a1)
			sort.Strings(a2)
			if len(a1) > 0 && strings.Join(a1, ",") == strings.Join(a2, ",") && strings.Join(parseList(r.obs[i-1], "alive"), ",") == strings.Join(parseList(obs, "alive"), ",") {
				if strings.Join(prev, ",") != strings.Join(list, ",") || obsInt(r.obs[i-1], "pos") != obsInt(obs, "pos") {
					add("C17", "pass-leaves-rotation-alone", "C17/rotation-reset-without-change/"+sc.Policy, fmt.Sprintf("detection pass at action %d found the same live set %v, yet list/cursor went from %v/%d to %v/%d", i, a2, prev, obsInt(r.obs[i-1], "pos"), list, obsInt(obs, "pos")))
				}
			}
		}
		// C17/C18: a call that ended with ErrDial at a target that is down has told the target:
		// it is no longer alive when the call form returns
		// (with a single live target schedule() hands out the address without the target: the last
		// one standing is never reported, so the rule applies to lists of two or more)
		if (f[0] == "route" || f[0] == "gos" || f[0] == "rts" || f[0] == "ctxs" || f[0] == "pings") && !parked && director == "-" && i > 0 && len(parseList(r.obs[i-1], "list")) >= 2 {
			results := lastResults(obs, len(newSent))
			alive := parseList(obs, "alive")
			for j, x := range newSent {
				if j < len(results) && results[j] == "dial" && x != "" && cur[x] && !up[x] && contains(alive, x) {
					add("C17", "unreachable-is-reset", "C17/unreachable-not-reported/"+f[0], fmt.Sprintf("a %s call to %s ended with ErrDial, yet %s is still marked alive when the batch has returned (its estimate was not reset either)", f[0], x, x))
					add("C18", "dial-failure-marks-dead", "C18/unreachable-not-reported/"+f[0], fmt.Sprintf("a %s call to %s ended with ErrDial, yet %s is still marked alive when the batch has returned", f[0], x, x))
					break
				}
			}
		}
		// C16: every address used is a current target, the Director's answer, or "" (no target → ErrDial)
		for _, addr := range newSent {
			if addr == "" || cur[addr] || (director != "-" && addr == director) {
				continue
			}
			add("C16", "routes-to-current-targets", "C16/stale-target/"+sc.Policy, fmt.Sprintf("a call started after action %d (%s) was sent to %q, which is not in the current target list %v", i, a, addr, keys(cur)))
		}
		for _, t := range list {
			if !cur[t] {
				add("C16", "list-within-targets", "C16/list-not-subset", fmt.Sprintf("live list %v contains %q, not a current target", list, t))
			}
		}
		// C17: round robin: any n consecutive calls of one batch over a stable list of n>=2 go to n distinct targets
		stable := i > 0 && strings.Join(parseList(r.obs[i-1], "list"), ",") == strings.Join(list, ",")
		if (f[0] == "route" || f[0] == "gos" || f[0] == "rts") && director == "-" && len(list) >= 2 && stable && !contains(newSent, "") {
			n := len(list)
			switch sc.Policy {
			case "rr", "leastprobe":
				for s := 0; s+n <= len(newSent); s++ {
					seen := map[string]bool{}
					for _, x := range newSent[s : s+n] {
						seen[x] = true
					}
					if len(seen) != n {
						add("C17", "round-robin-distinct", "C17/rr-repeat/"+sc.Policy, fmt.Sprintf("%d consecutive calls went to %v with live list %v", n, newSent[s:s+n], list))
						break
					}
				}
			case "rand":
				for _, x := range newSent {
					if !contains(list, x) {
						add("C17", "random-picks-live", "C17/random-not-live", fmt.Sprintf("random policy picked %q, live list %v", x, list))
					}
				}
			}
		}
		prevSent = len(sent)
	}
	return out
}

// obsCalls: call id -> outcome ("-" = not returned yet) of an observation.
func obsCalls(obs string) map[string]string {
	out := map[string]string{}
	i := strings.Index(obs, "calls=[")
	if i < 0 {
		return out
	}
	j := strings.LastIndex(obs, "]")
	for _, x := range strings.Fields(obs[i+7 : j]) {
		kv := strings.SplitN(x, ":", 2)
		if len(kv) == 2 {
			out[kv[0]] = kv[1]
		}
	}
	return out
}

// obsInt: the integer value of `key=` in an observation (-1 if absent).
func obsInt(obs, key string) int {
	i := strings.Index(obs, " "+key+"=")
	if i < 0 {
		return -1
	}
	v := 0
	if _, err := fmt.Sscanf(obs[i+len(key)+2:], "%d", &v); err != nil {
		return -1
	}
	return v
}

// lastResults: the outcomes of the last n calls listed in an observation.
func lastResults(obs string, n int) []string {
	i := strings.Index(obs, "calls=[")
	if i < 0 {
		return nil
	}
	j := strings.LastIndex(obs, "]")
	fs := strings.Fields(obs[i+7 : j])
	if len(fs) < n {
		return nil
	}
	var out []string
	for _, x := range fs[len(fs)-n:] {
		kv := strings.SplitN(x, ":", 2)
		out = append(out, kv[1])
	}
	return out
}

func keys(m map[string]bool) []string {
	var ks []string
	for k := range m {
		ks = append(ks, k)
	}
	sort.Strings(ks)
	return ks
}

func contains(xs []string, x string) bool {
	for _, y := range xs {
		if y == x {
			return true
		}
	}
	return false
}

// checkRouterTimed: C18 monitors that need the call records.
func checkRouterTimed(sc routerScenario, r *routerResult) []connVerdict {
	var out []connVerdict
	add := func(prop, mon, key, what string) { out = append(out, connVerdict{prop, mon, key, what}) }
	e := r.env
	e.mu.Lock()
	defer e.mu.Unlock()
	// C17 LeastTime: a pick that is not the scenario's first (the initial probe) and falls within one
	// Tick (an hour here) goes to a live target whose estimate is minimal
	e.rt.mu.Lock()
	log := append([]string(nil), e.rt.log...)
	e.rt.mu.Unlock()
	for i, p := range r.leastPicks {
		if i == 0 || p.at >= len(log) || len(p.list) < 2 {
			continue
		}
		got := log[p.at]
		min := int64(1) << 62
		for _, a := range p.list {
			if p.lat[a] < min {
				min = p.lat[a]
			}
		}
		if l, ok := p.lat[got]; ok && contains(p.list, got) && l > min {
			add("C17", "least-time-minimal", "C17/least-not-minimal", fmt.Sprintf("LeastTime sent a non-probe call to %s (estimate %d) although a live target has estimate %d (live %v, estimates %v)", got, l, min, p.list, p.lat))
			break
		}
	}
	for _, b := range r.stormBad {
		add("C16", "routes-to-current-targets", "C16/stale-target-after-update/storm", b+fmt.Sprintf(" (%d calls in the storm)", r.stormCalls))
		break
	}
	for _, k := range e.order {
		c := e.calls[k]
		if !c.done {
			add("C18", "nobody-stranded", "C18/stranded/"+c.form, fmt.Sprintf("call %d (%s) had not returned at the end of the scenario (DialTimeout %v)", k, c.form, routerDialTimeout))
			continue
		}
		limit := routerDialTimeout
		if c.ctrl > limit {
			limit = c.ctrl // a plain timer of the same length fired this late: the machine, not the library
		}
		if d := c.t1.Sub(c.t0); d > limit+400*time.Millisecond {
			add("C18", "bounded-wait", "C18/waited-too-long/"+c.form, fmt.Sprintf("call %d (%s) returned after %v, DialTimeout is %v", k, c.form, d.Round(time.Millisecond), routerDialTimeout))
		}
	}
	return out
}

func routerCorpus() []routerScenario {
	var out []routerScenario
	mk := func(name, pol string, acts ...string) {
		out = append(out, routerScenario{Policy: pol, Actions: acts, Name: name})
	}
	mk("rr-basic", "rr", "health A 1", "health B 1", "health C 1", "update A,B,C", "wait", "route 7", "gos 4", "rts 3", "pings 2")
	mk("update-shrinks", "rr", "health A 1", "health B 1", "health C 1", "update A,B,C", "wait", "route 3", "update A,B", "route 2", "wait", "route 4", "update C", "wait", "route 2", "update -", "route 1")
	mk("dups-and-empty", "rr", "health A 1", "health B 1", "update A,A,,B,", "wait", "route 4")
	mk("dups-hide-a-removal", "rr", "health A 1", "health B 1", "health C 1", "update A,B,C", "wait", "route 3", "update A,B,B", "wait", "route 4", "update A,B,C", "wait", "update A,,B", "wait", "route 4", "update C,C,C", "wait", "route 2")
	mk("last-to-die-recovers-first", "rr", "health A 1", "health B 1", "update A,B", "wait", "route 2", "health B 0", "route 4", "wait", "wait", "health A 0", "route 2", "wait", "wait", "health A 1", "wait", "wait", "wait", "route 3", "health B 1", "wait", "wait", "route 4")
	mk("last-to-die-recovers-first-held", "rr", "health A 1", "health B 1", "update A,B", "wait", "hold A", "hold B", "hgo 2", "health B 0", "release B", "wait", "wait", "health A 0", "release A", "wait", "wait",
		"health A 1", "wait", "wait", "wait", "route 3", "health B 1", "wait", "wait", "route 4")
	mk("update-storm", "rr", "storm 60")
	mk("failover-call", "rr", "health A 1", "health B 1", "update A,B", "wait", "route 2", "health B 0", "route 4", "wait", "route 4", "health B 1", "wait", "wait", "route 4")
	mk("failover-go", "rr", "health A 1", "health B 1", "update A,B", "wait", "gos 2", "health B 0", "gos 4", "wait", "gos 4", "wait", "gos 4")
	mk("failover-ctx", "rr", "health A 1", "health B 1", "update A,B", "wait", "ctxs 2", "health B 0", "ctxs 4", "wait", "ctxs 4", "health B 1", "wait", "wait", "ctxs 4")
	mk("failover-every-form", "rr", "health A 1", "health B 1", "update A,B", "wait", "health B 0", "rts 2", "wait", "health B 1", "wait", "wait", "wait", "health A 0", "pings 2", "wait", "health A 1", "wait", "wait", "wait", "health B 0", "ctxs 2", "wait", "route 2")
	mk("shrink-with-cursor", "rr", "health A 1", "health B 1", "health C 1", "update A,B,C", "wait", "route 2", "health C 0", "wait", "wait", "route 3", "health C 1", "wait", "wait", "wait", "route 1", "health A 0", "wait", "wait", "route 4")
	mk("shrink-with-cursor-at-the-end", "rr", "health A 1", "health B 1", "health C 1", "health D 1", "update A,B,C,D", "wait", "route 3", "health D 0", "wait", "wait", "route 2", "health B 0", "wait", "wait", "gos 3")
	mk("slow-probe-does-not-freeze-routing", "rr", "health A 1", "slowprobe B", "update A,B", "wait", "wait", "route 6", "gos 3", "wait", "route 4", "close")
	mk("calls-after-close-with-live-targets", "rr", "health A 1", "health B 1", "update A,B", "wait", "route 2", "close", "route 2", "ctxs 1", "gos 2", "rts 1", "pings 1", "close", "route 1")
	mk("calls-after-close-with-a-director", "rr", "health A 1", "health Z 1", "update A", "wait", "director Z", "route 1", "close", "route 2", "ctxs 1", "gos 1")
	mk("rotation-survives-passes-with-a-dead-target", "rr", "health A 1", "health B 1", "health C 1", "health D 1", "health E 1", "health F 1", "update A,B,C,D,E,F", "wait", "health F 0", "route 8", "wait", "wait", "route 3", "wait", "wait", "wait", "route 4", "wait", "gos 2")
	mk("waiters-released", "rr", "health A 0", "update A", "wait", "park 3 call", "park 2 go", "health A 1", "wait", "settle", "route 1")
	mk("waiters-timeout", "rr", "health A 0", "update A", "wait", "park 2 call", "park 1 ctx", "park 1 go", "park 1 rt", "park 1 ping", "expire", "settle")
	mk("waiters-close", "rr", "health A 0", "update A", "wait", "park 2 call", "park 1 ctx", "park 1 go", "close", "settle", "route 1", "gos 1", "close")
	mk("director", "rr", "health A 1", "health Z 1", "update A", "wait", "director Z", "route 2", "director -", "route 2")
	mk("random", "rand", "health A 1", "health B 1", "health C 1", "update A,B,C", "wait", "route 12", "health C 0", "route 6", "wait", "route 6")
	mk("least", "least", "health A 1", "health B 1", "health C 1", "update A,B,C", "wait", "setlat A 500", "setlat B 300", "setlat C 900", "gos 1", "gos 1", "setlat B 2000", "gos 2", "setlat A 5000", "rts 2")
	mk("least-every-target-minimal-in-turn", "least", "health A 1", "health B 1", "health C 1", "update A,B,C", "wait", "gos 1", "setlat A 100", "setlat B 500", "setlat C 900", "gos 2",
		"setlat A 900", "setlat B 100", "gos 2", "setlat B 900", "setlat C 100", "rts 2", "setlat C 5000", "setlat A 50", "gos 2")
	mk("least-five-targets", "least", "health A 1", "health B 1", "health C 1", "health D 1", "health E 1", "update A,B,C,D,E", "wait", "gos 1", "setlat A 500", "setlat B 400", "setlat C 300", "setlat D 200", "setlat E 100", "gos 2",
		"setlat E 900", "gos 2", "setlat D 900", "gos 2", "setlat C 900", "gos 2", "setlat B 900", "gos 2")
	mk("least-probe-rotation", "leastprobe", "health A 1", "health B 1", "health C 1", "update A,B,C", "wait", "route 6")
	mk("fallback", "rr", "health A 1", "update A", "wait", "route 1", "fallback 300", "park 2 call", "sleep 400", "wait", "settle", "route 1")
	return out
}

func genRouterScenario(r *prng.R) routerScenario {
	sc := routerScenario{Policy: []string{"rr", "rr", "rand", "least", "leastprobe"}[r.Intn(5)]}
	addrs := []string{"A", "B", "C", "D"}
	for _, a := range addrs {
		sc.Actions = append(sc.Actions, fmt.Sprintf("health %s %d", a, b2i(r.Chance(3, 4))))
	}
	n := 6 + r.Intn(10)
	waits := 0
	for i := 0; i < n; i++ {
		x := r.Intn(100)
		switch {
		case x < 18:
			k := 1 + r.Intn(4)
			var ts []string
			for j := 0; j < k; j++ {
				ts = append(ts, addrs[r.Intn(4)])
			}
			if r.Chance(1, 6) {
				ts = append(ts, "")
			}
			sc.Actions = append(sc.Actions, "update "+strings.Join(ts, ","))
		case x < 30:
			sc.Actions = append(sc.Actions, fmt.Sprintf("health %s %d", addrs[r.Intn(4)], r.Intn(2)))
		case x < 52:
			if waits < 6 {
				waits++
				sc.Actions = append(sc.Actions, "wait")
			}
		case x < 82:
			forms := []string{"route", "route", "gos", "rts", "pings", "ctxs"}
			if sc.Policy == "least" {
				forms = []string{"gos", "rts"} // the blocking forms update the latency estimate with a measured duration
			}
			sc.Actions = append(sc.Actions, fmt.Sprintf("%s %d", forms[r.Intn(len(forms))], 1+r.Intn(6)))
		case x < 88:
			if sc.Policy == "least" {
				sc.Actions = append(sc.Actions, fmt.Sprintf("setlat %s %d", addrs[r.Intn(4)], 100+r.Intn(5000)))
			}
		case x < 92:
			sc.Actions = append(sc.Actions, []string{"director Z", "director -"}[r.Intn(2)])
		default:
			sc.Actions = append(sc.Actions, "wait")
			waits++
		}
	}
	sc.Actions = append(sc.Actions, "settle")
	return sc
}

func routerScenarios(seed uint64, tier string) []routerScenario {
	r := prng.New(seed ^ 0x524f5554)
	scs := routerCorpus()
	n := 24
	if tier == "thorough" {
		n = 300
	}
	for i := 0; i < n; i++ {
		scs = append(scs, genRouterScenario(r.Fork()))
	}
	return scs
}

// ewmaCases: the arithmetic of (*target).Update against the documented formula, over exact rationals.
func ewmaCases(r *prng.R, n int, out *scenarioOut) {
	maxLat := int64(rpc.VerifClientLatency)
	for i := 0; i < n; i++ {
		alpha := []float64{0.8, 0.5, 0.0, 1.0, 0.25, 0.999}[r.Intn(6)]
		old := []int64{0, 1, 1000, 123456789, maxLat - 1, maxLat, maxLat + 5}[r.Intn(7)]
		if r.Chance(1, 2) {
			old = int64(r.U64() % uint64(maxLat))
		}
		sample := int64(r.U64() % uint64(2*maxLat))
		var err error
		if r.Chance(1, 5) {
			err = rpc.ErrDial
		}
		got, alive := rpc.VerifTargetUpdate(alpha, old, sample, err)
		var want float64
		switch {
		case err == rpc.ErrDial:
			want = float64(maxLat)
		case old >= maxLat:
			want = float64(sample)
		default:
			want = float64(old)*alpha + float64(sample)*(1-alpha)
		}
		tol := 1 + math.Abs(want)*1e-12
		if math.Abs(float64(got)-want) > tol || alive != (err != rpc.ErrDial) {
			out.Violations = append(out.Violations, rep.Violation{Property: "C17", Monitor: "ewma-arithmetic", Key: "C17/ewma", What: fmt.Sprintf("Update(alpha=%v, old=%d, sample=%d, dial=%v) = %d (alive %v), documented value %.1f", alpha, old, sample, err != nil, got, alive, want),
				Replay: map[string]interface{}{"component": "router", "alpha": alpha, "old": old, "sample": sample, "dial_error": err != nil}})
		}
		out.Counters["ewma-cases"]++
	}
}

func runOneRouter(i int, sc routerScenario, seed uint64) *scenarioOut {
	res := runRouterScenario(sc)
	if os.Getenv("CORR_DEBUG") != "" {
		fmt.Fprintf(os.Stderr, "scenario %d %s %s timing=%v %s\n", i, sc.Name, sc.header(), res.timing, res.timingWhy)
		for j, a := range res.actions {
			fmt.Fprintf(os.Stderr, "  %s\n      %s\n", a, res.obs[j])
		}
	}
	out := &scenarioOut{Counters: map[string]int{}}
	inl := []string{sc.header()}
	iml := []string{"ok"}
	for j, a := range res.actions {
		inl = append(inl, a)
		iml = append(iml, res.obs[j])
	}
	if !res.timing {
		// scenarios in which a call had to wait for the background detector are monitor-only
		out.Streams = map[string][2][]string{"r": {inl, iml}}
	} else {
		out.Counters["timing-dependent-scenarios"]++
		why := res.timingWhy
		if why == "" {
			why = "storm-or-other"
		}
		out.Counters["timing."+why]++
	}
	out.Key = sc.Policy + " " + strings.Join(sc.Actions, ";")
	out.Counters["actions"] = len(res.actions)
	for _, a := range res.actions {
		out.Counters["action."+strings.Fields(a)[0]]++
	}
	out.Counters["policy."+sc.Policy]++
	if i%9 == 0 {
		out.Sample = map[string]interface{}{"scenario": sc, "observations": res.obs}
	}
	vs := append(checkRouter(sc, res), checkRouterTimed(sc, res)...)
	for _, v := range vs {
		out.Violations = append(out.Violations, rep.Violation{Property: v.prop, Monitor: v.monitor, Key: v.key, What: v.what,
			Replay: map[string]interface{}{"component": "router", "index": i, "scenario": sc, "executed_actions": res.actions, "observations": res.obs}})
	}
	if i == 0 {
		ewmaCases(prng.New(seed^0x45574d41), 4000, out)
	}
	res.env.finish()
	return out
}

func runRouter(dir string, seed uint64, tier, only, replay string) *rep.Report {
	rp := rep.New("router", seed, tier)
	scs := routerScenarios(seed, tier)
	if workerRange != "" {
		var from, to int
		fmt.Sscanf(workerRange, "%d:%d", &from, &to)
		workerMain(len(scs), from, to, func(i int) interface{} { return scs[i] }, func(i int) *scenarioOut { return runOneRouter(i, scs[i], seed) })
		os.Exit(0)
	}
	if only != "" {
		for i, sc := range scs {
			if only == sc.Name || only == fmt.Sprint(i) {
				o := runOneRouter(i, sc, seed)
				for _, v := range o.Violations {
					fmt.Fprintln(os.Stderr, "VIOL", v.Key, v.What)
				}
			}
		}
		return rp
	}
	parentLoopN("router", dir, len(scs), []string{"-out", dir, "-seed", fmt.Sprint(seed), "-tier", tier}, rp, []string{"r"}, []string{"C16"}, 40*time.Second, 12)
	return rp
}

func init() { components["router"] = runRouter }
