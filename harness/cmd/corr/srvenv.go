package main

// srvenv: the scripted environment around one real Server.ServeCodec (model component S).
// A fake socket.Messages under the real NewServerCodec feeds request frames and records the
// response frames; registered handler methods are gated (they log their entry and park until
// the script releases them with a result).

import (
	"context"
	"encoding/binary"
	"errors"
	"fmt"
	"io"
	"sort"
	"strings"
	"sync"
	"sync/atomic"
	"time"

	"github.com/hslam/rpc"
	"verifharness/internal/gate"
)

type srvMessages struct {
	env     *srvEnv
	feed    chan feedItem
	closeC  chan struct{}
	mu      sync.Mutex
	closed  bool
	waiting int32
}

func (m *srvMessages) ReadMessage(buf []byte) ([]byte, error) {
	atomic.StoreInt32(&m.waiting, 1)
	defer atomic.StoreInt32(&m.waiting, 0)
	select {
	case it := <-m.feed:
		if it.err != nil {
			return nil, it.err
		}
		var p []byte
		if cap(buf) >= len(it.frame) {
			p = buf[:len(it.frame)]
		} else {
			p = make([]byte, len(it.frame))
		}
		copy(p, it.frame)
		return p, nil
	case <-m.closeC:
		return nil, io.EOF
	}
}

func (m *srvMessages) WriteMessage(b []byte) error {
	m.mu.Lock()
	closed := m.closed
	m.mu.Unlock()
	if closed {
		return io.EOF
	}
	m.env.noteResponse(append([]byte(nil), b...))
	return nil
}

func (m *srvMessages) Close() error {
	m.mu.Lock()
	if !m.closed {
		m.closed = true
		close(m.closeC)
	}
	m.mu.Unlock()
	m.env.hub.Log("mclose")
	return nil
}

// ---- body codec with scripted failures ----

var errBadArgs = errors.New("harness: cannot decode args")
var errBadReply = errors.New("harness: cannot encode reply")

type srvBody struct{}

func (srvBody) Marshal(buf []byte, v interface{}) ([]byte, error) {
	var b []byte
	switch x := v.(type) {
	case *[]byte:
		if x != nil {
			b = *x
		}
	case []byte:
		b = x
	case nil:
		return nil, nil
	default:
		return nil, fmt.Errorf("harness: unsupported reply type %T", v)
	}
	if len(b) >= 3 && string(b[:3]) == "BAD" {
		return nil, errBadReply
	}
	return b, nil
}

func (srvBody) Unmarshal(data []byte, v interface{}) error {
	if len(data) >= 15 && string(data[12:15]) == "BAD" {
		return errBadArgs
	}
	switch p := v.(type) {
	case *[]byte:
		*p = data // aliasing on purpose: the server must have copied (unless NoCopy)
		return nil
	case *hStream:
		return nil
	}
	return fmt.Errorf("harness: unsupported args type %T", v)
}

// ---- the service ----

type Svc struct{ env *srvEnv }

func (s *Svc) enter(method string, args []byte) (string, []byte) {
	k := -1
	if len(args) >= 8 {
		k = int(binary.BigEndian.Uint64(args[:8]))
	}
	e := s.env
	e.mu.Lock()
	if k < 0 {
		// a request sent with the NoRequest flag carries no argument bytes: attribute the
		// execution to the oldest such request that has not run yet
		for _, j := range e.order {
			if rq := e.reqs[j]; rq.up&0x80 != 0 && rq.up&0x20 == 0 && (rq.up>>3)&3 == 0 && rq.kind != "ping" && e.execs[j] == 0 && rq.method == method {
				k = j
				break
			}
		}
	}
	e.execs[k]++
	e.enterOrder = append(e.enterOrder, k)
	e.inHandler[k] = true
	if rq := e.reqs[k]; rq != nil {
		rq.seenArgs = append([]byte(nil), args...)
		rq.seenMethod = method
	} else {
		e.phantom = append(e.phantom, fmt.Sprintf("%s k=%d", method, k))
	}
	nRunning := len(e.inHandler)
	if nRunning > e.maxConcurrent {
		e.maxConcurrent = nRunning
	}
	e.mu.Unlock()
	v := e.hub.At(fmt.Sprintf("h:%d", k), method)
	e.mu.Lock()
	delete(e.inHandler, k)
	e.exitOrder = append(e.exitOrder, k)
	e.mu.Unlock()
	verdict := v.S
	if verdict == "" {
		verdict = "ok"
	}
	return verdict, handlerH(method, args)
}

func finishHandler(verdict string, k int, h []byte, reply *[]byte) error {
	switch {
	case verdict == "ok":
		*reply = h
		return nil
	case verdict == "badreply":
		*reply = []byte("BADREPLY")
		return nil
	case strings.HasPrefix(verdict, "err:"):
		var n int
		fmt.Sscanf(verdict, "err:%d", &n)
		return errors.New(errText(k, n))
	}
	return nil
}

func kOf(args []byte) int {
	if len(args) >= 8 {
		return int(binary.BigEndian.Uint64(args[:8]))
	}
	return -1
}

// Unary: (args, *reply) error
func (s *Svc) Unary(args *[]byte, reply *[]byte) error {
	v, h := s.enter("Svc.Unary", *args)
	return finishHandler(v, kOf(*args), h, reply)
}

// Ctx: (ctx, args, *reply) error
func (s *Svc) Ctx(ctx context.Context, args *[]byte, reply *[]byte) error {
	v, h := s.enter("Svc.Ctx", *args)
	return finishHandler(v, kOf(*args), h, reply)
}

// Ret: (args) (*reply, error)
func (s *Svc) Ret(args *[]byte) (*[]byte, error) {
	v, h := s.enter("Svc.Ret", *args)
	r := new([]byte)
	err := finishHandler(v, kOf(*args), h, r)
	return r, err
}

// RetCtx: (ctx, args) (*reply, error)
func (s *Svc) RetCtx(ctx context.Context, args *[]byte) (*[]byte, error) {
	v, h := s.enter("Svc.RetCtx", *args)
	r := new([]byte)
	err := finishHandler(v, kOf(*args), h, r)
	return r, err
}

// hStream is the stream argument type (implements rpc.SetStream).
type hStream struct {
	st rpc.Stream
}

func (h *hStream) Connect(st rpc.Stream) error    { h.st = st; return nil }
func (h *hStream) Write(m *[]byte) error          { return h.st.WriteMessage(m) }
func (h *hStream) Read(b []byte, m *[]byte) error { return h.st.ReadMessage(b, m) }

// Stream: the stream handler reads until the stream ends and logs what it received.
func (s *Svc) Stream(st *hStream) error {
	e := s.env
	id := e.registerStream(st)
	e.hub.Log("stream-handler-enter %d", id)
	for {
		var m []byte
		err := st.Read(nil, &m)
		if err != nil {
			e.mu.Lock()
			e.streamEnd[id] = classifyStream(err)
			e.mu.Unlock()
			e.hub.Log("stream-handler-exit %d %s", id, classifyStream(err))
			return err
		}
		e.mu.Lock()
		e.streamGot[id] = append(e.streamGot[id], string(m))
		e.mu.Unlock()
	}
}

func classifyStream(err error) string {
	if err == rpc.ErrStreamShutdown {
		return "streamshutdown"
	}
	return classify(err)
}

// ---- environment ----

type srvReq struct {
	k          int
	seq        uint64
	method     string
	args       []byte
	kind       string // ok | badargs | ping | unknown | open | close | smsg
	up         byte
	seenArgs   []byte
	seenMethod string
}

type srvResp struct {
	seq   uint64
	err   string
	reply []byte
	up    bool
}

type srvEnv struct {
	hub           *gate.Hub
	hdr           hdrKind
	directIO      bool
	pipe          bool
	noCopy        bool
	server        *rpc.Server
	fm            *srvMessages
	mu            sync.Mutex
	reqs          map[int]*srvReq
	order         []int
	execs         map[int]int
	enterOrder    []int
	exitOrder     []int
	inHandler     map[int]bool
	maxConcurrent int
	phantom       []string
	resps         []srvResp
	streams       []*hStream
	streamGot     map[int][]string
	streamEnd     map[int]string
	served        chan struct{}
	codecClosed   bool
}

func newSrvEnv(hdr hdrKind, directIO, pipe bool) *srvEnv {
	e := &srvEnv{hub: gate.NewHub(), hdr: hdr, directIO: directIO, pipe: pipe, reqs: map[int]*srvReq{}, execs: map[int]int{}, inHandler: map[int]bool{},
		streamGot: map[int][]string{}, streamEnd: map[int]string{}, served: make(chan struct{})}
	e.fm = &srvMessages{env: e, feed: make(chan feedItem), closeC: make(chan struct{})}
	s := rpc.NewServer()
	s.SetLogLevel(rpc.OffLogLevel)
	s.RegisterName("Svc", &Svc{env: e})
	s.SetPipelining(pipe)
	s.SetDirectIO(directIO)
	e.server = s
	var enc rpc.Encoder
	switch hdr {
	case "pb":
		enc = rpc.NewPBEncoder()
	case "code":
		enc = rpc.NewCODEEncoder()
	case "json":
		enc = rpc.NewJSONEncoder()
	}
	codec := rpc.NewServerCodec(srvBody{}, enc, e.fm, directIO, 0)
	go func() {
		s.ServeCodec(codec)
		close(e.served)
	}()
	return e
}

func (e *srvEnv) registerStream(st *hStream) int {
	e.mu.Lock()
	defer e.mu.Unlock()
	e.streams = append(e.streams, st)
	return len(e.streams) - 1
}

func encodeRequest(h hdrKind, v reqVal) []byte {
	switch h {
	case "code":
		return refCodeReq(v)
	case "json":
		o := implEncReq("json", v, nil)
		return o.data
	default:
		return refPbReq(v)
	}
}

func decodeResponse(h hdrKind, frame []byte) (resVal, bool) {
	switch h {
	case "code":
		o := implDecRes("code", frame, nil)
		return o.res, o.kind == "ok"
	case "json":
		o := implDecRes("json", frame, nil)
		return o.res, o.kind == "ok"
	default:
		o := implDecRes("pb", frame, nil)
		return o.res, o.kind == "ok"
	}
}

func (e *srvEnv) noteResponse(frame []byte) {
	r, ok := decodeResponse(e.hdr, frame)
	e.mu.Lock()
	if ok {
		e.resps = append(e.resps, srvResp{seq: r.Seq, err: string(r.Err), reply: r.Reply})
	} else {
		e.resps = append(e.resps, srvResp{seq: 1 << 62, err: "undecodable response"})
	}
	e.mu.Unlock()
}

func (e *srvEnv) feedFrame(frame []byte) bool {
	if atomic.LoadInt32(&e.fm.waiting) == 0 {
		return false
	}
	select {
	case e.fm.feed <- feedItem{frame: frame}:
		return true
	case <-time.After(2 * time.Second):
		return false
	}
}

func (e *srvEnv) feedErr(err error) bool {
	if atomic.LoadInt32(&e.fm.waiting) == 0 {
		return false
	}
	select {
	case e.fm.feed <- feedItem{err: err}:
		return true
	case <-time.After(2 * time.Second):
		return false
	}
}

// request sends request k. seq = k unless seqOverride >= 0.
func (e *srvEnv) request(k int, method, kind string, hold bool, up byte, payload int) bool {
	args := mkArgs(k, payload, 16, byte(k))
	if kind == "badargs" {
		copy(args[12:15], "BAD")
	}
	rq := &srvReq{k: k, seq: uint64(k), method: method, args: args, kind: kind, up: up}
	var upb []byte
	if up != 0 {
		upb = []byte{up}
	}
	v := reqVal{Seq: rq.seq, Upgrade: upb, Method: []byte(method), Args: args}
	if kind == "ping" {
		v = reqVal{Seq: rq.seq, Upgrade: []byte{0xe0}}
		rq.args = nil
	}
	if up&0x80 != 0 { // NoRequest: the client sends no args
		v.Args = nil
	}
	e.mu.Lock()
	e.reqs[k] = rq
	e.order = append(e.order, k)
	e.mu.Unlock()
	if hold {
		e.hub.Hold(fmt.Sprintf("h:%d", k))
	}
	if !e.feedFrame(encodeRequest(e.hdr, v)) {
		e.mu.Lock()
		delete(e.reqs, k)
		e.order = e.order[:len(e.order)-1]
		e.mu.Unlock()
		e.hub.Unhold(fmt.Sprintf("h:%d", k))
		return false
	}
	return true
}

// requestNoWait feeds a unary request without checking that the reader is already waiting.
func (e *srvEnv) requestNoWait(k int, method string) bool {
	args := mkArgs(k, 40, 16, byte(k))
	rq := &srvReq{k: k, seq: uint64(k), method: method, args: args, kind: "ok"}
	e.mu.Lock()
	e.reqs[k] = rq
	e.order = append(e.order, k)
	e.mu.Unlock()
	select {
	case e.fm.feed <- feedItem{frame: encodeRequest(e.hdr, reqVal{Seq: rq.seq, Method: []byte(method), Args: args})}:
		return true
	case <-time.After(2 * time.Second):
		return false
	}
}

func (e *srvEnv) feedErrWait(err error) bool {
	select {
	case e.fm.feed <- feedItem{err: err}:
		return true
	case <-time.After(2 * time.Second):
		return false
	}
}

func (e *srvEnv) observe() string {
	e.mu.Lock()
	defer e.mu.Unlock()
	var ex []string
	ks := append([]int(nil), e.order...)
	sort.Ints(ks)
	for _, k := range ks {
		ex = append(ex, fmt.Sprintf("%d:%d", k, e.execs[k]))
	}
	var rs []string
	for _, r := range e.resps {
		rs = append(rs, fmt.Sprintf("%d:%s:%s", r.seq, e.classifyRespErr(r), e.replyState(r)))
	}
	if !e.pipe {
		// without pipelining the order of responses and of handler entries is not defined
		sort.Slice(rs, func(i, j int) bool { return numPrefix(rs[i]) < numPrefix(rs[j]) })
	}
	pk := e.hub.ParkedKeys()
	sort.Strings(pk)
	eo := append([]int(nil), e.enterOrder...)
	if !e.pipe {
		sort.Ints(eo)
	}
	ent := make([]string, len(eo))
	for i, k := range eo {
		ent[i] = fmt.Sprint(k)
	}
	select {
	case <-e.served:
		return fmt.Sprintf("obs execs=[%s] resp=[%s] parked=[%s] enter=[%s] served=1", strings.Join(ex, " "), strings.Join(rs, " "), strings.Join(pk, ","), strings.Join(ent, ","))
	default:
	}
	return fmt.Sprintf("obs execs=[%s] resp=[%s] parked=[%s] enter=[%s] served=0", strings.Join(ex, " "), strings.Join(rs, " "), strings.Join(pk, ","), strings.Join(ent, ","))
}

func (e *srvEnv) classifyRespErr(r srvResp) string {
	s := r.err
	switch {
	case s == "":
		return "nil"
	case strings.HasPrefix(s, "E#"):
		var k int
		if _, err := fmt.Sscanf(s, "E#%d|", &k); err == nil && s == errText(k, len(s)) {
			return fmt.Sprintf("text:%d:%d", k, len(s))
		}
	case strings.HasPrefix(s, "can't find service "):
		return "nosvc"
	case strings.HasPrefix(s, "can't find stream service "):
		return "nostream"
	case s == errBadArgs.Error():
		return "badargs"
	case s == errBadReply.Error():
		return "badreply"
	case s == "can't find args" || s == "can't find reply":
		return "noargs"
	}
	return "other:" + trunc(s, 40)
}

// replyState: own (H of the request with that seq) | empty | bad
func (e *srvEnv) replyState(r srvResp) string {
	if len(r.reply) == 0 {
		return "empty"
	}
	if rq := e.reqs[int(r.seq)]; rq != nil && rq.seq == r.seq {
		if string(r.reply) == string(handlerH(rq.method, rq.args)) {
			return "own"
		}
	}
	return "bad"
}

func (e *srvEnv) finish() {
	e.hub.ReleaseAll(gate.Verdict{})
	e.fm.Close()
	select {
	case <-e.served:
	case <-time.After(3 * time.Second):
	}
	e.hub.ReleaseAll(gate.Verdict{})
	gate.Settle(2 * time.Second)
}

func numPrefix(s string) int {
	n := 0
	for _, c := range s {
		if c < '0' || c > '9' {
			break
		}
		n = n*10 + int(c-'0')
	}
	return n
}
