import RpcVerif.Model.Proto
import RpcVerif.Model.Wire
import RpcVerif.Model.ConnRun
import RpcVerif.Model.PoolRun
import RpcVerif.Model.ServerRun
import RpcVerif.Model.Spec
import RpcVerif.Model.Framing
import RpcVerif.Model.RouterRun
import RpcVerif.Model.StreamRun
/-
  rpcmodel — the executable side of the correspondence. Reads one operation per line on
  stdin, prints one canonical result line per operation. Imports Model/ only (core Lean).
-/
open RpcVerif RpcVerif.Proto RpcVerif.Wire

def parseHeader : String → Option Header
  | "default" => some .default
  | "pb" => some .pb
  | "code" => some .code
  | _ => none

def showRes {α} (r : Res α) (f : α → String) : String :=
  match r with
  | .ok a => "ok " ++ f a
  | .err _ => "err"
  | .panic _ => "panic"

def u8 (s : String) : Option UInt8 := s.toNat?.bind fun n => if n < 256 then some (UInt8.ofNat n) else none

def scratchOf (cap fill : Nat) : Bytes := List.replicate cap (UInt8.ofNat fill)

def wireStep (toks : List String) : String :=
  match toks with
  | ["enc", h, "req", seq, up, m, a, cap, fill] =>
    match parseHeader h, seq.toNat?, bytesOfHex up, bytesOfHex m, bytesOfHex a, cap.toNat?, fill.toNat? with
    | some h, some seq, some up, some m, some a, some cap, some fill =>
      showRes (marshalRequest h (scratchOf cap fill) { seq := seq, upgrade := up, method := m, args := a }) hexOfBytes
    | _, _, _, _, _, _, _ => "bad-op"
  | ["enc", h, "res", seq, e, r, cap, fill] =>
    match parseHeader h, seq.toNat?, bytesOfHex e, bytesOfHex r, cap.toNat?, fill.toNat? with
    | some h, some seq, some e, some r, some cap, some fill =>
      showRes (marshalResponse h (scratchOf cap fill) { seq := seq, error := e, reply := r }) hexOfBytes
    | _, _, _, _, _, _ => "bad-op"
  | ["dec", h, "req", frame, extra] =>
    match parseHeader h, bytesOfHex frame, bytesOfHex extra with
    | some h, some frame, some extra =>
      showRes (unmarshalRequest h frame extra) fun r =>
        s!"{r.seq} {hexOfBytes r.upgrade} {hexOfBytes r.method} {hexOfBytes r.args}"
    | _, _, _ => "bad-op"
  | ["dec", h, "res", frame, extra] =>
    match parseHeader h, bytesOfHex frame, bytesOfHex extra with
    | some h, some frame, some extra =>
      showRes (unmarshalResponse h frame extra) fun r =>
        s!"{r.seq} {hexOfBytes r.error} {hexOfBytes r.reply}"
    | _, _, _ => "bad-op"
  | ["pck", a, b, c, d] =>
    match u8 a, u8 b, u8 c, u8 d with
    | some a, some b, some c, some d =>
      let u : Upgrade := { noRequest := a, noResponse := b, heartbeat := c, stream := d }
      s!"ok {u.pack.toNat} {if u.isZero then 1 else 0}"
    | _, _, _, _ => "bad-op"
  | ["upk", d] =>
    match u8 d with
    | some d => let u := Upgrade.unpack d
                s!"ok {u.noRequest.toNat} {u.noResponse.toNat} {u.heartbeat.toNat} {u.stream.toNat}"
    | none => "bad-op"
  | ["wreq", h, seq, a, b, c, d, m, args] =>
    match parseHeader h, seq.toNat?, u8 a, u8 b, u8 c, u8 d, bytesOfHex m, bytesOfHex args with
    | some h, some seq, some a, some b, some c, some d, some m, some args =>
      showRes (writeRequest h [] seq { noRequest := a, noResponse := b, heartbeat := c, stream := d } m args) hexOfBytes
    | _, _, _, _, _, _, _, _ => "bad-op"
  | ["rreq", h, frame, extra] =>
    match parseHeader h, bytesOfHex frame, bytesOfHex extra with
    | some h, some frame, some extra =>
      showRes (readRequestHeader h frame extra) fun (seq, u, m, a) =>
        s!"{seq} {u.noRequest.toNat} {u.noResponse.toNat} {u.heartbeat.toNat} {u.stream.toNat} {hexOfBytes m} {hexOfBytes a}"
    | _, _, _ => "bad-op"
  | _ => "bad-op"

/-- framing differential: `wr <hex>` → the framed bytes; `rd <hex,hex,…>` (chunks) → the messages read and the residue -/
def frameStep (toks : List String) : String :=
  match toks with
  | ["wr", m] => match bytesOfHex m with
    | some m => "ok " ++ hexOfBytes (RpcVerif.Framing.frame m)
    | none => "bad-op"
  | ["rd", cs] =>
    let parts := (cs.splitOn ",").map bytesOfHex
    if parts.any (·.isNone) then "bad-op" else
    let chunks := parts.filterMap id
    let (ms, rest) := RpcVerif.Framing.readAll chunks
    "ok " ++ ",".intercalate (ms.map hexOfBytes) ++ " rest=" ++ hexOfBytes rest
  | _ => "bad-op"

partial def loop (h : IO.FS.Stream) (out : IO.FS.Stream) (step : List String → String) : IO Unit := do
  let line ← h.getLine
  if line.isEmpty then return ()
  out.putStrLn (step (tokens line))
  loop h out step

partial def loopSt {σ : Type} (h : IO.FS.Stream) (out : IO.FS.Stream) (step : σ → List String → σ × String) (st : σ) : IO Unit := do
  let line ← h.getLine
  if line.isEmpty then return ()
  let (st', o) := step st (tokens line)
  out.putStrLn o
  loopSt h out step st'

def main (args : List String) : IO UInt32 := do
  let stdin ← IO.getStdin
  let stdout ← IO.getStdout
  match args with
  | ["wire"] => loop stdin stdout wireStep; return 0
  | ["conn"] => loopSt stdin stdout RpcVerif.K.connStep none; return 0
  | ["pool"] => loopSt stdin stdout RpcVerif.P.poolStep none; return 0
  | ["server"] => loopSt stdin stdout RpcVerif.S.serverStep none; return 0
  | ["e2e"] => loop stdin stdout RpcVerif.Spec.specStep; return 0
  | ["frame"] => loop stdin stdout frameStep; return 0
  | ["router"] => loopSt stdin stdout RpcVerif.R.routerStep none; return 0
  | ["stream"] => loopSt stdin stdout RpcVerif.T.streamStep none; return 0
  | _ => IO.eprintln "usage: rpcmodel wire"; return 2
