import RpcVerif.Model.Basic
import RpcVerif.Model.Varint
import RpcVerif.Model.Wire
