import RpcVerif.Model.Basic
import RpcVerif.Model.Varint
import RpcVerif.Model.Wire
import RpcVerif.Model.Proto
import RpcVerif.Props.C07
import RpcVerif.Props.C08
