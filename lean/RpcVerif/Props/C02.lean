import RpcVerif.Lemmas.ConnProps
import RpcVerif.Generated.ConnFacts
/-
  C02 — every call completes exactly once (client connection automaton K, Model/ConnSM.lean).
  The statements quantify over every accepted event sequence: any number of calls of any form,
  any interleaving of sender, reader, decode and completion threads, any verdict of every write,
  any sequence of frames (responses, duplicates, unknown sequence numbers, undecodable ones),
  peer EOF, read errors and local Close.
-/
namespace RpcVerif.Props
open RpcVerif RpcVerif.K

/-- The hand-off invariant the anchors name: at every moment a started call is in exactly one
    place — not yet sent, registered in the pending table, held by the single path that removed
    it from the table, queued for its signal, or signalled. -/
theorem C02_single_owner {cfg : Cfg} {tr : List Ev} {s : State} (h : Accepts (init cfg) tr s)
    (k : Nat) (c : Call) (hc : s.calls k = some c) :
    c.signals + doneTok s k + owners s c = 1 :=
  ((inv_accepts h).1 k c hc).2.1

/-- The Done channel of a call receives it at most once, on every run. -/
theorem C02_at_most_once {cfg : Cfg} {tr : List Ev} {s : State} (h : Accepts (init cfg) tr s)
    (k : Nat) (c : Call) (hc : s.calls k = some c) : c.signals ≤ 1 :=
  signals_le_one h k c hc

/-- Error and Reply of a call are written at most once altogether (never both, never twice):
    in particular nothing rewrites Error after completion has been signalled. -/
theorem C02_outcome_written_once {cfg : Cfg} {tr : List Ev} {s : State} (h : Accepts (init cfg) tr s)
    (k : Nat) (c : Call) (hc : s.calls k = some c) : c.errHist.length + c.replyWrites ≤ 1 :=
  err_reply_once h k c hc

/-- Once signalled, nobody owns the call any more: no later step can complete it again. -/
theorem C02_signalled_is_final {cfg : Cfg} {tr : List Ev} {s : State} (h : Accepts (init cfg) tr s)
    (k : Nat) (c : Call) (hc : s.calls k = some c) (hs : c.signals = 1) :
    owners s c = 0 ∧ doneTok s k = 0 := by
  have := C02_single_owner h k c hc
  omega

/-- Once completion has been signalled the library never signals it again, nor changes its
    Error, nor touches its Reply: no step does. -/
theorem C02_stable_after_completion {cfg : Cfg} {tr : List Ev} {s s' : State} (h : Accepts (init cfg) tr s) (e : Ev)
    (hs : step s e = some s') (k : Nat) (c : Call) (hc : s.calls k = some c) (hsig : c.signals = 1) :
    ∃ c', s'.calls k = some c' ∧ c'.signals = 1 ∧ c'.errHist = c.errHist ∧ c'.replyFrom = c.replyFrom ∧ c'.replyWrites = c.replyWrites :=
  signalled_stable s s' e (invS_accepts h) (auxInv_accepts h) hs k c hc hsig

/-- At least once: when no thread of the library can move and the environment holds no gate,
    every started call has been signalled exactly once, or is registered and waiting for its
    response on a live connection — nothing else. -/
theorem C02_at_least_once {cfg : Cfg} {tr : List Ev} {s : State} (h : Accepts (init cfg) tr s)
    (hq : Quiescent s) (hg : NoGateHeld s) (k : Nat) (c : Call) (hc : s.calls k = some c) :
    c.signals = 1 ∨ (pendingTok s k = 1 ∧ s.reader = .waiting ∧ s.msgsClosed = false) :=
  quiescent_completed s (invS_accepts h) (auxInv_accepts h) hq hg k c hc

/-! Non-vacuity: the history that double-completed a call on the unrepaired tree (write in
    progress, reader error sweeps, write then fails) is an accepted run, and ends with exactly
    one signal and one error. -/
def d1Trace : List Ev :=
  [.start { k := 1, form := .go, holdW := true }, .sendLock 1, .rerr false, .sweep, .wret 1 false, .sendUnreg 1, .sendFail 1]

example : ((runTrace (init ⟨false, false⟩) d1Trace).bind (·.calls 1)).map (fun c => (c.signals, c.errHist)) = some (1, [.rfail]) := by
  decide

/-- K's events are the critical sections of conn.go as they stand in the source read on this run:
    the write-error path completes a call, and sets its Error, only if that path itself removed the
    call from the pending table under the lock (event `sendUnreg` before `sendFail`); a frame that
    arrives after the sweep is dropped before the table is consulted; send refuses inside the
    critical section that would register. -/
theorem C02_source_facts :
    (Gen.connWriteErrorCompletesOnlyRegistered && Gen.connReadDropsFramesAfterShutdown && Gen.connSendRefusesUnderLock &&
     Gen.connSetsShutdownInsideSweep) = true := by decide

/-- "Signalled exactly once" is about receives as much as about sends: the library never takes a
    signal back. The only code that empties a Done channel (ResetDone) is reached from PutCall, which
    recycles a channel the library itself allocated for a blocking call that has returned — never a
    channel a caller supplied to Go or RoundTrip (read from conn.go on every run). -/
theorem C02_signals_are_never_taken_back : Gen.connResetsDoneOnlyWhenRecycling = true := by decide

end RpcVerif.Props
