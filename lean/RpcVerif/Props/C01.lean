import RpcVerif.Lemmas.ConnEnd
import RpcVerif.Lemmas.Framing
import RpcVerif.Lemmas.ServerInv
import RpcVerif.Lemmas.Wire
import RpcVerif.Lemmas.Link
/-
  C01 — a successful call receives the reply computed from its own arguments.
  The end-to-end statement is assembled from four machine-checked parts:
    (K)  client: what is decoded into a call's Reply comes from a received frame whose header
         carried that call's own sequence number, and sequence numbers are allocated once;
    (S)  server: a response is written only for a request that was read, carries the sequence
         number of that request, and its reply is the handler's result for that request;
    (W)  wire: header fields (sequence number, argument/reply bytes) survive encode/decode
         unchanged, under every header encoder (Props/C07);
    (F)  framing: the frames read are the frames written, for every fragmentation of the stream.
  `C01_reply_is_own` states the client's half under the explicit hypothesis `PeerAnswersOwn`; the
  product L = K ‖ link ‖ S (Model/Link.lean: both automata unrestricted, a FIFO link that may lose
  but not duplicate, reorder or invent messages — what (F) gives over a byte stream) discharges it:
  `C01_end_to_end` has no hypothesis on the peer.
-/
namespace RpcVerif.Props
open RpcVerif

/-- (K) Reply provenance: whatever was decoded into call k's Reply was the body of a received,
    decodable frame with call k's sequence number. -/
theorem C01_client_provenance {cfg : K.Cfg} {tr : List K.Ev} {s : K.State} (h : K.Accepts (K.init cfg) tr s)
    (k : Nat) (c : K.Call) (hc : s.calls k = some c) (src : Nat) (kd : K.RespKind) (hr : c.replyFrom = some (src, kd)) :
    ∃ q, c.seq = some q ∧ ({ seq := q, src := src, kind := kd, junk := false } : K.Frame) ∈ s.fed :=
  ((K.provInv_accepts h) k c hc).1 src kd hr

/-- (K) Sequence numbers are allocated once: two calls never share one, and a request on the wire
    carries the sequence number its call was registered under. -/
theorem C01_sequence_numbers_unique {cfg : K.Cfg} {tr : List K.Ev} {s : K.State} (h : K.Accepts (K.init cfg) tr s) :
    K.SeqInv s := K.seqInv_accepts h

/-- End to end: if the peer answers each sequence number with the reply computed for the request
    written under it, a call that completes with a reply holds the reply of its own request —
    however many calls are outstanding and in whatever order the responses arrive. -/
theorem C01_reply_is_own {cfg : K.Cfg} {tr : List K.Ev} {s : K.State} (h : K.Accepts (K.init cfg) tr s)
    (hp : K.PeerAnswersOwn s) (k : Nat) (c : K.Call) (hc : s.calls k = some c) (src : Nat)
    (hr : c.replyFrom = some (src, .ok) ∨ c.replyFrom = some (src, .empty)) : src = k := by
  rcases hr with hr | hr
  · exact K.reply_is_own h hp k c hc src hr
  · exact K.reply_is_own_empty h hp k c hc src hr

/-- End to end over the product of the client automaton, a lossy FIFO link and the server automaton
    — every interleaving of every thread of both ends, every loss pattern, every number of
    outstanding calls: a call that holds a reply holds the handler's result for its own arguments.
    The peer hypothesis above is a theorem here (`L.peer_answers_own`). -/
theorem C01_end_to_end {cfg : L.Cfg} {tr : List L.Ev} {s : L.State} (h : L.Accepts (L.init cfg) tr s)
    (k : Nat) (c : K.Call) (hc : s.k.calls k = some c) (src : Nat)
    (hr : c.replyFrom = some (src, .ok) ∨ c.replyFrom = some (src, .empty)) : src = k :=
  L.end_to_end h k c hc src hr

/-- The product restricts neither end (its halves are runs of K and of S), the peer hypothesis holds
    in every reachable product state, and the one guard the product adds (`answer` looks up which
    request a response answers) never blocks. -/
theorem C01_product_is_faithful {cfg : L.Cfg} {tr : List L.Ev} {s : L.State} (h : L.Accepts (L.init cfg) tr s) :
    (∃ trK, K.Accepts (K.init cfg.k) trK s.k) ∧ (∃ trS, S.Accepts (S.init cfg.s) trS s.s) ∧ K.PeerAnswersOwn s.k ∧
    (∀ p, s.s.resps[s.answered]? = some p → ∃ c, L.carrier s.carried p.seq = some c) :=
  ⟨L.client_run h, L.server_run h, L.peer_answers_own h, fun p hp => L.answer_enabled h p hp⟩

/-- (S) The server answers a sequence number only for a request it read with that number. -/
theorem C01_server_answers_requests {cfg : S.Cfg} {tr : List S.Ev} {s : S.State} (h : S.Accepts (S.init cfg) tr s)
    (p : S.Resp) (hp : p ∈ s.resps) : ∃ r, r ∈ s.reqs ∧ r.seq = p.seq ∧ S.needsResponse r = true :=
  S.resp_not_phantom h p hp

/-- (F) However the byte stream is fragmented, batched or delayed, the messages read are the
    messages written, in order, byte for byte; cutting the stream anywhere delivers a prefix. -/
theorem C01_framing (ms : List Bytes) (hm : ∀ m ∈ ms, m.length < 2 ^ 63) (chunks : List Bytes) :
    (chunks.flatten = (ms.map Framing.frame).flatten → Framing.readAll chunks = (ms, [])) ∧
    (chunks.flatten <+: (ms.map Framing.frame).flatten → ∃ j, (Framing.readAll chunks).1 = ms.take j) :=
  ⟨fun hc => Framing.readAll_chunks ms hm chunks hc, fun hc => Framing.readAll_truncated ms hm chunks hc⟩

/-- (W) Sequence number and payload survive the header encoders (see Props/C07 for the full statement). -/
theorem C01_header_carries_seq_and_payload (h : Wire.Header) (scratch extra : Bytes) (r : Wire.Response) (hr : r.WF) :
    ∃ bs, Wire.marshalResponse h scratch r = .ok bs ∧ Wire.unmarshalResponse h bs extra = .ok r := by
  cases h
  · exact ⟨_, Wire.pbResMarshal_eq_spec scratch r hr, Wire.pbRes_roundtrip extra r hr⟩
  · exact ⟨_, Wire.pbResMarshal_eq_spec scratch r hr, Wire.pbRes_roundtrip extra r hr⟩
  · exact ⟨_, Wire.codeResMarshal_eq_spec scratch r hr, Wire.codeRes_roundtrip extra r hr⟩

/-! Non-vacuity: two calls answered out of order; each gets its own reply. -/
example : ((K.runTrace (K.init ⟨false, false⟩)
    [.start { k := 1, form := .go, replyLen := 8 }, .start { k := 2, form := .go, replyLen := 8 }, .sendLock 1, .sendLock 2,
     .feed { seq := 1, src := 2, kind := .ok }, .decode, .finish 2, .feed { seq := 0, src := 1, kind := .ok }, .decode, .finish 1]).map
      (fun s => ((s.calls 1).bind (·.replyFrom), (s.calls 2).bind (·.replyFrom)))) = some (some (1, .ok), some (2, .ok)) := by decide

end RpcVerif.Props
