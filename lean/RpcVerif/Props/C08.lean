import RpcVerif.Lemmas.Wire
import RpcVerif.Lemmas.Upgrade
import RpcVerif.Lemmas.ServerInv
/-
  C08 — nothing a peer does can crash the process (decoding part; dispatch and teardown follow
  from the server automaton, see Props/C08 additions below as they are built).
-/
namespace RpcVerif.Props
open RpcVerif RpcVerif.Wire

/-- Header decoders never panic: for every byte string delivered as a frame, under every
    header encoder, with any stale contents of the read buffer behind it. -/
theorem C08_decode_total (h : Header) (frame extra : Bytes) :
    (unmarshalRequest h frame extra).isPanic = false ∧ (unmarshalResponse h frame extra).isPanic = false := by
  have r1 : Gen.pbReqRecovers = true := by decide
  have r2 : Gen.pbResRecovers = true := by decide
  have r3 : Gen.codeReqRecovers = true := by decide
  have r4 : Gen.codeResRecovers = true := by decide
  cases h <;> simp only [unmarshalRequest, unmarshalResponse, pbReqUnmarshal, pbResUnmarshal,
    codeReqUnmarshal, codeResUnmarshal, r1, r2, r3, r4, harden_no_panic, and_self]

/-- No over-read: what a decoder returns (fields or rejection) is a function of the frame
    alone — never of the stale bytes that follow it in the pooled read buffer. -/
theorem C08_no_overread (h : Header) (frame e₁ e₂ : Bytes) :
    unmarshalRequest h frame e₁ = unmarshalRequest h frame e₂ ∧
    unmarshalResponse h frame e₁ = unmarshalResponse h frame e₂ := by
  cases h <;> simp only [unmarshalRequest, unmarshalResponse]
  · exact ⟨pbReq_extra_irrel (by decide) (by decide) frame e₁ e₂, pbRes_extra_irrel (by decide) (by decide) frame e₁ e₂⟩
  · exact ⟨pbReq_extra_irrel (by decide) (by decide) frame e₁ e₂, pbRes_extra_irrel (by decide) (by decide) frame e₁ e₂⟩
  · exact ⟨codeReq_extra_irrel (by decide) (by decide) frame e₁ e₂, codeRes_extra_irrel (by decide) (by decide) frame e₁ e₂⟩

/-- Every upgrade byte a peer can send decodes to in-range flags. -/
theorem C08_upgrade_total (d : UInt8) : (Upgrade.unpack d).valid = true := upgrade_unpack_valid d

/-- Dispatch and teardown: no sequence of frames (any upgrade byte — all 256 —, any method,
    decodable or not, junk), handler results and disconnect points crashes a server connection.
    The crash sites of the model (nil method, zero reflect.Value in callService/sendResponse,
    WaitGroup reuse at teardown) are guarded by five facts read from server.go on every run. -/
theorem C08_server_never_crashes {cfg : S.Cfg} {tr : List S.Ev} {s : S.State} (h : S.Accepts (S.init cfg) tr s) :
    s.crashed = none :=
  S.never_crashes (by decide) h

/-- Teardown is safe: once the connection's teardown has passed `drain`, nothing is left to
    dispatch (so nothing can call wg.Add after wg.Wait), and past `wait` no handler is running. -/
theorem C08_teardown_safe {cfg : S.Cfg} {tr : List S.Ev} {s : S.State} (h : S.Accepts (S.init cfg) tr s) (hu : S.UniqueSeq s) :
    (s.reader = .drained ∨ s.reader = .waited ∨ s.reader = .served → S.undispatched s = []) ∧
    (s.reader = .waited ∨ s.reader = .served → s.wg = 0) :=
  (S.inv_accepts h hu).teardown

/-- A rejected frame leaves the connection as it was (later well-formed frames are served as if it
    had not been sent): an undecodable frame changes nothing but the decode queue. -/
theorem C08_junk_is_ignored (s : S.State) (r : S.Req) (hj : r.junk = true) : S.serveRequest s r = s := by
  simp [S.serveRequest, hj]

/-! Non-vacuity: the frames that crashed the unrepaired tree are ordinary inputs here. -/
example : (unmarshalRequest .pb [0x08] []).isPanic = false := (C08_decode_total .pb [0x08] []).1
example : (unmarshalRequest .code [0x01] []).isPanic = false := (C08_decode_total .code [0x01] []).1

end RpcVerif.Props
