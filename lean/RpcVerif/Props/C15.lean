import RpcVerif.Lemmas.PoolFresh
/-
  C15 — pool housekeeping spares busy connections and reclaims unused ones.
-/
namespace RpcVerif.Props
open RpcVerif RpcVerif.P

/-- A housekeeping pass neither closes nor retires a connection of an active list on which a
    call is outstanding (the `NumCalls() == 0` guard, whose presence is read from the source). -/
theorem C15_tick_spares_busy (mc mi : Int) (ka ito : Nat) (tr : List Ev) (clock id : Nat) (p : PConn) :
    let s := run (init mc mi ka ito) tr
    s.pcs id = some p → 0 < p.calls → (∃ a cs cur, (a, cs, cur) ∈ s.active ∧ id ∈ cs) →
    ∃ p', (tick s clock).pcs id = some p' ∧ p'.isOpen = p.isOpen ∧ (∃ a cs cur, (a, cs, cur) ∈ (tick s clock).active ∧ id ∈ cs) := by
  intro s hp hb ha
  exact tick_spares_active s (inv_run mc mi ka ito tr) (by decide) clock id p hp hb ha

/-- CloseIdleConnections does the same. -/
theorem C15_closeIdle_spares_busy (mc mi : Int) (ka ito : Nat) (tr : List Ev) (id : Nat) (p : PConn) :
    let s := run (init mc mi ka ito) tr
    s.pcs id = some p → 0 < p.calls → (∃ a cs cur, (a, cs, cur) ∈ s.active ∧ id ∈ cs) →
    ∃ p', (closeIdleConnections s).pcs id = some p' ∧ p'.isOpen = p.isOpen ∧
      (∃ a cs cur, (a, cs, cur) ∈ (closeIdleConnections s).active ∧ id ∈ cs) := by
  intro s hp hb ha
  exact closeIdle_spares_busy s (inv_run mc mi ka ito tr) (by decide) id p hp hb ha

/-- Transport.Close closes every pooled connection, empties the pool, stops housekeeping; a
    second Close changes nothing. -/
theorem C15_close_closes_all (mc mi : Int) (ka ito : Nat) (tr : List Ev) :
    let s := run (init mc mi ka ito) tr
    (s.running = true → s.closed = false →
      (closeAll s).active = [] ∧ (closeAll s).idle = [] ∧ (closeAll s).stopped = true ∧
      ∀ id, id ∈ allPooled s → isOpenId (closeAll s) id = false) ∧
    (s.closed = true → closeAll s = s) := by
  intro s
  exact ⟨fun hr hc => close_closes_all s (inv_run mc mi ka ito tr) hr hc, close_idempotent s⟩

/-- The hand-out window (D12, repaired in /repo by 46ebda4): whichever path of getConn hands a
    connection out stamps it as used, so a housekeeping pass that falls between getConn and the
    registration of the call — within KeepAlive of the hand-out — neither retires nor closes it. -/
theorem C15_handout_window_safe (mc mi : Int) (ka ito : Nat) (tr : List Ev) (a clock id : Nat) (s' : State) :
    let s := run (init mc mi ka ito) tr
    getConn s a clock = (s', some id) →
    ∀ clock', clock' ≤ clock + s'.keepAlive → clock' ≤ s'.now + s'.keepAlive →
      ∃ p', s'.pcs id = some p' ∧ (tick s' clock').pcs id = some p' ∧
        isOpenId (tick s' clock') id = isOpenId s' id ∧
        ∃ cs cur, (a, cs, cur) ∈ (tick s' clock').active ∧ id ∈ cs := by
  intro s hg clock' h1 h2
  exact handout_window_safe s s' (inv_run mc mi ka ito tr) a clock id hg clock' h1 h2

/-- A connection that is not stale at a pass is left exactly as it is, with or without calls. -/
theorem C15_tick_spares_fresh (mc mi : Int) (ka ito : Nat) (tr : List Ev) (clock id : Nat) (p : PConn) :
    let s := run (init mc mi ka ito) tr
    s.pcs id = some p → clock ≤ p.lastUse + s.keepAlive → (∃ a cs cur, (a, cs, cur) ∈ s.active ∧ id ∈ cs) →
    ∃ p', (tick s clock).pcs id = some p' ∧ p'.isOpen = p.isOpen ∧ (∃ a cs cur, (a, cs, cur) ∈ (tick s clock).active ∧ id ∈ cs) := by
  intro s hp hf ha
  exact tick_spares_fresh s (inv_run mc mi ka ito tr) clock id p hp hf ha

/-- Reclamation: an unused connection older than KeepAlive leaves the active list at the next pass
    and ends up in the idle queue or closed; an idle queue all of whose connections are older than
    IdleConnTimeout, with nothing young retired behind them in the same pass, is closed entirely. -/
theorem C15_tick_retires_unused (mc mi : Int) (ka ito : Nat) (tr : List Ev) (clock id : Nat) (p : PConn) :
    let s := run (init mc mi ka ito) tr
    s.running = true → s.stopped = false → s.pcs id = some p → p.calls = 0 → p.lastUse + s.keepAlive < clock →
    (∃ a cs cur, (a, cs, cur) ∈ s.active ∧ id ∈ cs) →
    (∀ a cs cur, (a, cs, cur) ∈ (tick s clock).active → id ∉ cs) ∧
    ((∃ a q, (a, q) ∈ (tick s clock).idle ∧ id ∈ q) ∨ isOpenId (tick s clock) id = false) := by
  intro s hr hs hp hc hl ha
  have hi := inv_run mc mi ka ito tr
  exact ⟨tick_retires_stale s hi hr hs clock id p hp hc hl ha, tick_retired_goes_idle_or_closes s hi hr hs clock id p hp hc hl ha⟩

theorem C15_tick_closes_expired_queue (mc mi : Int) (ka ito : Nat) (tr : List Ev) (clock a : Nat) (q : List Nat) :
    let s := run (init mc mi ka ito) tr
    s.running = true → s.stopped = false → (a, q) ∈ s.idle →
    (∀ id, id ∈ q → ∃ p, s.pcs id = some p ∧ p.lastUse + s.idleTO < clock) →
    (∀ cs cur, (a, cs, cur) ∉ s.active) →
    ∀ id, id ∈ q → isOpenId (tick s clock) id = false := by
  intro s hr hs hq hold hno
  exact tick_closes_expired_queue s (inv_run mc mi ka ito tr) hr hs clock a q hq hold hno

/-
  Observation kept from the proofs (not a violation of the property as stated): the idle half of a
  pass tests the age of the REAR entry and closes the FRONT one, so a young connection retired to
  the rear shields expired ones in front of it until it expires itself — reclamation of an
  individual idle connection can be late by up to IdleConnTimeout (Lemmas/PoolReclaim.lean, exC).
-/

/-! Non-vacuity: a long call spanning a tick far beyond KeepAlive + IdleConnTimeout keeps its socket. -/
example : isOpenId (tick (run (init 1 1 120 480) [.getConn 0 0, .callBegin 0]) 100000) 0 = true := by decide

end RpcVerif.Props
