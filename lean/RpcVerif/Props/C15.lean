import RpcVerif.Lemmas.PoolInv
/-
  C15 — pool housekeeping spares busy connections and reclaims unused ones.
-/
namespace RpcVerif.Props
open RpcVerif RpcVerif.P

/-- A housekeeping pass neither closes nor retires a connection of an active list on which a
    call is outstanding (the `NumCalls() == 0` guard, whose presence is read from the source). -/
theorem C15_tick_spares_busy (mc mi : Int) (ka ito : Nat) (tr : List Ev) (clock id : Nat) (p : PConn) :
    let s := run (init mc mi ka ito) tr
    s.pcs id = some p → 0 < p.calls → (∃ a cs cur, (a, cs, cur) ∈ s.active ∧ id ∈ cs) →
    ∃ p', (tick s clock).pcs id = some p' ∧ p'.isOpen = p.isOpen ∧ (∃ a cs cur, (a, cs, cur) ∈ (tick s clock).active ∧ id ∈ cs) := by
  intro s hp hb ha
  exact tick_spares_active s (inv_run mc mi ka ito tr) (by decide) clock id p hp hb ha

/-- CloseIdleConnections does the same. -/
theorem C15_closeIdle_spares_busy (mc mi : Int) (ka ito : Nat) (tr : List Ev) (id : Nat) (p : PConn) :
    let s := run (init mc mi ka ito) tr
    s.pcs id = some p → 0 < p.calls → (∃ a cs cur, (a, cs, cur) ∈ s.active ∧ id ∈ cs) →
    ∃ p', (closeIdleConnections s).pcs id = some p' ∧ p'.isOpen = p.isOpen ∧
      (∃ a cs cur, (a, cs, cur) ∈ (closeIdleConnections s).active ∧ id ∈ cs) := by
  intro s hp hb ha
  exact closeIdle_spares_busy s (inv_run mc mi ka ito tr) (by decide) id p hp hb ha

/-- Transport.Close closes every pooled connection, empties the pool, stops housekeeping; a
    second Close changes nothing. -/
theorem C15_close_closes_all (mc mi : Int) (ka ito : Nat) (tr : List Ev) :
    let s := run (init mc mi ka ito) tr
    (s.running = true → s.closed = false →
      (closeAll s).active = [] ∧ (closeAll s).idle = [] ∧ (closeAll s).stopped = true ∧
      ∀ id, id ∈ allPooled s → isOpenId (closeAll s) id = false) ∧
    (s.closed = true → closeAll s = s) := by
  intro s
  exact ⟨fun hr hc => close_closes_all s (inv_run mc mi ka ito tr) hr hc, close_idempotent s⟩

/-
  Not proved (stated here so that it is not lost): "ticks never close a connection with an
  outstanding call" without the restriction to active lists. It is false of the model and of
  the code when a tick falls between getConn handing out a stale connection and the call
  registering on it (the connection is retired to the idle queue while it is about to be used,
  and the idle-queue branch closes on age alone). See DESIGN.md §7 D12.
-/

/-! Non-vacuity: a long call spanning a tick far beyond KeepAlive + IdleConnTimeout keeps its socket. -/
example : isOpenId (tick (run (init 1 1 120 480) [.getConn 0 0, .callBegin 0]) 100000) 0 = true := by decide

end RpcVerif.Props
