import RpcVerif.Lemmas.RouterInv
/-
  C16 — Client only routes to its current targets.
  R (Model/Router.lean) has one event per Client.lock critical section; `sent` is the sequence of
  addresses handed to the Transport by user calls. The target map at the time of routing is
  `addrs s` of the state in which the `route` step is taken, so "after Update returns no newly
  started call is routed to a removed target" is the statement for the states after the update
  step (any later route step is taken in a state whose map is the new one, by `C16_update`).
-/
namespace RpcVerif.Props
open RpcVerif

/-- Every routing decision taken in a reachable state hands the call to an address of the
    current target map, or to the address returned by the Director; or hands it to nobody
    (closed client). Holds for every policy, every history of updates, probes, health reports,
    latencies and concurrent callers. -/
theorem C16_routes_to_current_targets (p : R.Policy) (b : Bool) (tr : List R.Ev) (s s' : R.State)
    (h : R.run (R.init p b) tr = some s) (k choice : Nat) (hs : R.step s (.route k choice) = some s') :
    s'.sent = s.sent ∨ ∃ a, s'.sent = s.sent ++ [a] ∧ (a ∈ R.addrs s ∨ s.director = some a) :=
  R.route_target s s' (R.inv_run p b tr s h) k choice hs

/-- Update replaces the map by exactly the non-empty addresses supplied, without repetition, and
    clears the live list, the heap and the remembered address set: nothing derived from the old
    map survives the critical section. -/
theorem C16_update (s : R.State) (ts : List String) :
    (R.update s ts).list = [] ∧ (R.update s ts).heap = [] ∧ (R.update s ts).last = [] ∧
    (R.addrs (R.update s ts)).Nodup ∧ "" ∉ R.addrs (R.update s ts) ∧
    ∀ a, a ∈ R.addrs (R.update s ts) ↔ (a ∈ ts ∧ a ≠ "") := R.update_clears s ts

/-- The derived structures only ever hold current targets (the invariant behind the two
    statements above, for every reachable state). -/
theorem C16_live_list_within_targets (p : R.Policy) (b : Bool) (tr : List R.Ev) (s : R.State)
    (h : R.run (R.init p b) tr = some s) :
    (∀ a, a ∈ s.list → a ∈ R.addrs s) ∧ s.list.Nodup ∧ s.heap.Perm s.list ∧ (R.addrs s).Nodup ∧ "" ∉ R.addrs s :=
  let i := R.inv_run p b tr s h
  ⟨i.listSub, i.listNodup, i.heapPerm, i.targetsNodup, i.noEmptyAddr⟩

/-- R's events `update` and `checkDone` are single steps because, in the source read on this run,
    Update swaps the map and clears the derived structures inside one critical section and check()
    does its whole work (liveness, rebuild from the current map, release of waiters) inside one. -/
theorem C16_events_are_critical_sections :
    (Gen.updateOneCriticalSection && Gen.checkOneCriticalSection) = true := by decide

/-! Non-vacuity: a removed target is not used after Update even though it was live. -/
example : ((R.run (R.init .rr false)
    [.update ["a", "b", "", "a"], .setUp "a" true, .setUp "b" true, .checkDone "a" ["a"], .checkDone "b" ["a", "b"],
     .route 1 0, .update ["b"], .checkDone "b" ["b"], .route 2 0, .route 3 0]).map (·.sent)) = some ["a", "b", "b"] := by decide

end RpcVerif.Props
