import RpcVerif.Lemmas.PoolInv
/-
  C13 — Transport never exceeds its per-host connection limits (pool automaton P, Model/Pool.lean;
  limit normalisation and cursor arithmetic regenerated from transport.go on every run).
  `run (init …) tr` ranges over every sequence of pool events: getConn from any number of
  callers and addresses, call begin/end, stamping, failure reports, housekeeping ticks at any
  clock values, CloseIdleConnections, Close, peers dying, servers going up and down.
-/
namespace RpcVerif.Props
open RpcVerif RpcVerif.P

/-- At no time are more than MaxConnsPerHost sockets open to one address, nor more than
    MaxIdleConnsPerHost connections in its idle queue. -/
theorem C13_bounds (mc mi : Int) (ka ito : Nat) (tr : List Ev) (a : Nat) :
    let s := run (init mc mi ka ito) tr
    openCount s a ≤ s.maxConns ∧ ∀ q, (a, q) ∈ s.idle → q.length ≤ s.maxIdle := by
  intro s
  have h := inv_run mc mi ka ito tr
  exact ⟨open_le_max s h a, fun q hq => idle_le_max s h a q hq⟩

/-- Non-positive limits fall back to the defaults; an idle limit above the connection limit is clamped. -/
theorem C13_normalise (mc mi : Int) (ka ito : Nat) :
    let s := init mc mi ka ito
    1 ≤ s.maxConns ∧ 1 ≤ s.maxIdle ∧ s.maxIdle ≤ s.maxConns ∧ (mc < 1 → s.maxConns = 1) ∧
    (1 ≤ mc → (s.maxConns : Int) = mc) ∧ (mi < 1 → s.maxIdle = 1) ∧
    (1 ≤ mi → mi ≤ (s.maxConns : Int) → (s.maxIdle : Int) = mi) ∧
    (mi > (s.maxConns : Int) → s.maxIdle = s.maxConns) := limits_normalised mc mi ka ito

/-- The whole pool invariant (entries per address, distinct ids, addresses, closed-when-dead,
    open-implies-pooled) on every reachable state. -/
theorem C13_pool_invariant (mc mi : Int) (ka ito : Nat) (tr : List Ev) : Inv (run (init mc mi ka ito) tr) :=
  inv_run mc mi ka ito tr

/-- P's `getConn` is one event — the decision "below the limit, so dial" and the registration of the
    new connection cannot be separated by another caller — because, in the source read on this run,
    getConn holds the pool lock for its whole body and the dial it performs (newPersistConn) does
    not release it: callers that arrive while a dial is in progress wait for the lock. -/
theorem C13_limit_decisions_are_atomic : Gen.dialUnderPoolLock = true := by decide

/-! Non-vacuity: a run that fills the pool to its limit of 2 and keeps it there. -/
example : openCount (run (init 2 5 120 480) [.getConn 0 0, .callBegin 0, .getConn 0 1, .callBegin 1, .getConn 0 2, .getConn 0 3]) 0 = 2 := by
  decide

end RpcVerif.Props
