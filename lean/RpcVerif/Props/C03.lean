import RpcVerif.Lemmas.ConnProps
import RpcVerif.Generated.ConnFacts
import RpcVerif.Generated.ServerFacts
/-
  C03 — connection loss fails calls fast; no caller hangs (client automaton K).
  "Bounded time" is not a theorem: it is rendered as quiescence (in every state where no thread
  can move and the environment holds no gate, nobody is left waiting on an ended connection)
  and measured by the harness deadline on every blocking call.
-/
namespace RpcVerif.Props
open RpcVerif RpcVerif.K

/-- After the reader's final sweep nothing is registered, the connection is marked shut down
    and nothing is left in the decode queue — on every run. -/
theorem C03_swept {cfg : Cfg} {tr : List Ev} {s : State} (h : Accepts (init cfg) tr s)
    (hr : s.reader = .swept ∨ s.reader = .wclosed ∨ s.reader = .exited) :
    s.shutdown = true ∧ s.pending = [] ∧ s.decodeQ = [] := swept_state h hr

/-- A call started after the connection ended (shutdown or closing) is refused at once with
    ErrShutdown: nothing is written to the wire, nothing is registered. -/
theorem C03_refused (s s' : State) (k : Nat) (c : Call) (hc : s.calls k = some c) (hp : c.phase = .new)
    (hend : s.shutdown = true ∨ s.closing = true) (hs : step s (.sendLock k) = some s') :
    s'.writes = s.writes ∧ s'.pending = s.pending ∧
      ∃ c', s'.calls k = some c' ∧ c'.errHist = c.errHist ++ [.shutdown] ∧ c'.phase = .sent ∧
        (s.cfg.pipe = false → c'.signals = c.signals + 1) ∧ (s.cfg.pipe = true → s'.finQ = s.finQ ++ [.done k]) :=
  refused_after_end s s' k c hc hp hend hs

/-- The final sweep is enabled only once every frame ReadMessage returned has been processed:
    a response completely received before the cut completes its call, not the sweep. -/
theorem C03_received_survives {cfg : Cfg} {tr : List Ev} {s s' : State} (h : Accepts (init cfg) tr s)
    (hs : step s .sweep = some s') : processedAll s :=
  sweep_after_processing s s' (modeInv_accepts h) hs

/-- No caller hangs: in every reachable state where no thread of the library can take a step
    and no gate is held by the environment, every started call has been signalled — or is
    registered and waiting for its response on a connection whose reader is still alive — and
    every blocking caller whose call was signalled has returned. -/
theorem C03_no_hang {cfg : Cfg} {tr : List Ev} {s : State} (h : Accepts (init cfg) tr s)
    (hq : Quiescent s) (hg : NoGateHeld s) (k : Nat) (c : Call) (hc : s.calls k = some c) :
    (c.signals = 1 ∨ (pendingTok s k = 1 ∧ s.reader = .waiting ∧ s.msgsClosed = false)) ∧
    (c.form.async = false → c.signals = 1 → c.returned = true) :=
  ⟨quiescent_completed s (invS_accepts h) (auxInv_accepts h) hq hg k c hc,
   fun hb hsig => quiescent_blocking_returned s (invS_accepts h) (auxInv_accepts h) hq hg k c hc hb hsig⟩

/-- In particular, once the reader has ended, quiescence means everybody has been completed. -/
theorem C03_all_completed_after_end {cfg : Cfg} {tr : List Ev} {s : State} (h : Accepts (init cfg) tr s)
    (hq : Quiescent s) (hg : NoGateHeld s) (hr : s.reader ≠ .waiting) (k : Nat) (c : Call) (hc : s.calls k = some c) :
    c.signals = 1 := by
  rcases (C03_no_hang h hq hg k c hc).1 with h1 | ⟨_, h2, _⟩
  · exact h1
  · exact absurd h2 hr

/-- K's `sweep` event — enabled only when the decode queue is empty, setting `shutdown` and failing
    the pending calls in one step — is recv's teardown as it stands in the source read on this run:
    the decode queue is drained before the sweep's critical section, `shutdown` is set inside it
    and nowhere else, and send refuses under the same lock. -/
theorem C03_source_facts :
    (Gen.connDrainsDecodeQueueBeforeSweep && Gen.connSetsShutdownInsideSweep && Gen.connSendRefusesUnderLock &&
     Gen.connReadDropsFramesAfterShutdown) = true := by decide

/-- The other end of the same sentence: when a server connection ends — for whatever reason, and
    whoever started serving it (a listener or a direct `ServeCodec`) — its teardown closes the codec,
    i.e. the socket, so the client's reader sees the end and K's `rerr`/`seeClose` → `sweep` path
    above runs: a request direction that fails at the server cannot leave the client's calls pending
    on a half-open connection (order and unconditional close read from ServeCodec on every run). -/
theorem C03_server_end_closes_the_connection :
    (Gen.teardownDrainsFirst && Gen.teardownClosesCodecAlways) = true := by decide

end RpcVerif.Props
