import RpcVerif.Lemmas.ServerInv
import RpcVerif.Lemmas.Link
/-
  C04 — the server executes each received request exactly once and answers it once
  (server connection automaton S, Model/ServerSM.lean; every interleaving of reader, decode
  worker, execution worker(s), handlers and teardown; every request mix incl. arbitrary upgrade
  bytes and undecodable frames; every point at which the connection may end).
  `UniqueSeq`: the peer uses each sequence number once — which the client half guarantees
  (K's pending-table invariant: sequence numbers are allocated from a counter).
-/
namespace RpcVerif.Props
open RpcVerif RpcVerif.S

/-- No handler runs twice for a request and no request is answered twice. -/
theorem C04_at_most_once {cfg : Cfg} {tr : List Ev} {s : State} (h : Accepts (init cfg) tr s) (hu : UniqueSeq s) (k : Nat) :
    execCount s k ≤ 1 ∧ respCount s k ≤ 1 :=
  ⟨exec_at_most_once h hu k, resp_at_most_once h hu k⟩

/-- No handler runs for a request nobody sent (or that must not run: ping, unknown method,
    undecodable arguments), and no response is written for a frame that does not call for one. -/
theorem C04_nothing_phantom {cfg : Cfg} {tr : List Ev} {s : State} (h : Accepts (init cfg) tr s) :
    (∀ k, k ∈ s.execs → ∃ r, r ∈ s.reqs ∧ r.seq = k ∧ needsExec r = true) ∧
    (∀ p, p ∈ s.resps → ∃ r, r ∈ s.reqs ∧ r.seq = p.seq ∧ needsResponse r = true) :=
  ⟨fun k hk => exec_not_phantom h k hk, fun p hp => resp_not_phantom h p hp⟩

/-- When the connection has been torn down, every request that was read has been executed
    exactly once if it had to be, and answered exactly once if it called for an answer. -/
theorem C04_exactly_once_at_the_end {cfg : Cfg} {tr : List Ev} {s : State} (h : Accepts (init cfg) tr s)
    (hu : UniqueSeq s) (hserved : s.reader = .served) (r : Req) (hr : r ∈ s.reqs) :
    (needsExec r = true → execCount s r.seq = 1) ∧ (needsResponse r = true → respCount s r.seq = 1) :=
  served_complete_of_flags allFlags_true h hu hserved r hr

/-- `UniqueSeq` is not an assumption when the peer is this library's client: in the product
    L = K ‖ link ‖ S (Model/Link.lean) the requests the server reads carry pairwise distinct sequence
    numbers, so over every run of the product no handler runs twice and no request is answered twice. -/
theorem C04_at_most_once_end_to_end {cfg : L.Cfg} {tr : List L.Ev} {s : L.State} (h : L.Accepts (L.init cfg) tr s) (k : Nat) :
    execCount s.s k ≤ 1 ∧ respCount s.s k ≤ 1 := by
  obtain ⟨trS, hS⟩ := L.server_run h
  exact ⟨exec_at_most_once hS (L.unique_seq h) k, resp_at_most_once hS (L.unique_seq h) k⟩

/-- Success means executed: a call that holds a reply was executed — the handler of the request that
    carried its sequence number was entered (and, by the theorem above, exactly once). -/
theorem C04_success_means_executed_once {cfg : L.Cfg} {tr : List L.Ev} {s : L.State} (h : L.Accepts (L.init cfg) tr s)
    (k : Nat) (c : K.Call) (hc : s.k.calls k = some c) (src : Nat) (hr : c.replyFrom = some (src, .ok)) :
    ∃ q, c.seq = some q ∧ q ∈ s.s.execs ∧ execCount s.s q ≤ 1 := by
  obtain ⟨q, hq, he⟩ := L.success_means_executed h k c hc src hr
  exact ⟨q, hq, he, (C04_at_most_once_end_to_end h q).1⟩

/-- "Invoked with the arguments its request carried" for as long as the handler runs: the read buffer
    the request was decoded from (with NoCopy the arguments point into it) is not returned to the
    buffer pool before the handler has returned (read from server.go on every run). -/
theorem C04_arguments_stay_valid_while_the_handler_runs : Gen.serverKeepsReadBufferDuringHandler = true := by decide

/-- The source facts the model's crash conditions and teardown order rest on. -/
theorem C04_source_facts : allFlags = true := allFlags_true

/-! Non-vacuity: a burst followed at once by EOF (the history that lost requests and killed the
    process on the unrepaired tree) ends with every request executed and answered. -/
def runS (s : State) : List Ev → Option State
  | [] => some s
  | e :: es => (step s e).bind (runS · es)

example : ((runS (init ⟨false, false⟩)
    [.feed { seq := 1 }, .feed { seq := 2 }, .feed { seq := 3 }, .eof, .decode, .decode, .decode, .drain,
     .enter 2, .leave 2, .enter 1, .enter 3, .leave 3, .leave 1, .wait, .closeCodec]).map
      (fun s => (s.reader, s.execs.length, s.resps.length, s.crashed))) = some (.served, 3, 3, none) := by decide

end RpcVerif.Props
