import RpcVerif.Lemmas.PoolInv
import RpcVerif.Generated.ConnFacts
/-
  C14 — Transport sends to the requested address and recovers from dead connections.
-/
namespace RpcVerif.Props
open RpcVerif RpcVerif.P

/-- Whatever getConn hands out for address `a` was dialed to `a`, is filed under `a`, and is not
    a connection known to be dead — on every reachable pool state, on all three paths. -/
theorem C14_right_address_not_dead (mc mi : Int) (ka ito : Nat) (tr : List Ev) (a clock id : Nat) :
    let s := run (init mc mi ka ito) tr
    (getConn s a clock).2 = some id →
    ∃ p, (getConn s a clock).1.pcs id = some p ∧ p.addr = a ∧ p.alive = true ∧ id ∈ pooled (getConn s a clock).1 a := by
  intro s hr
  exact getConn_result s (inv_run mc mi ka ito tr) a clock id hr

/-- A connection on which a call has reported ErrShutdown stays dead for ever: together with
    the previous theorem, it is never handed to a call started afterwards, so each dead pooled
    connection costs a sequential caller at most one failure. -/
theorem C14_dead_forever (mc mi : Int) (ka ito : Nat) (tr : List Ev) (e : Ev) (id : Nat) (p : PConn) :
    let s := run (init mc mi ka ito) tr
    s.pcs id = some p → p.alive = false → ∃ p', (step s e).pcs id = some p' ∧ p'.alive = false := by
  intro s hp hd
  exact dead_forever s (inv_run mc mi ka ito tr) e id p hp hd

/-- While the server is unreachable no dial succeeds, and with nothing pooled for it getConn
    reports ErrDial. -/
theorem C14_unreachable (mc mi : Int) (ka ito : Nat) (tr : List Ev) (a clock : Nat) :
    let s := run (init mc mi ka ito) tr
    s.up a = false → (getConn s a clock).1.dials = s.dials ∧ (pooled s a = [] → (getConn s a clock).2 = none) := by
  intro s hup
  exact ⟨getConn_down s a clock hup, fun hn => getConn_none_pooled s (inv_run mc mi ka ito tr) a clock hup hn⟩

/-- How the Transport learns that a pooled connection is dead (facts read from conn.go and
    transport.go on every run): the connection's reader sets `shutdown` in the critical section of
    its final sweep whatever ended the read loop — a clean EOF or any other read error —, a
    shut-down connection refuses the next call with ErrShutdown inside the critical section that
    would register it, and ErrShutdown (and nothing else) makes `checkPersistConnErr` mark the
    pooled connection dead. P's `fail` event is that report. -/
theorem C14_dead_connections_are_recognised :
    (Gen.connSetsShutdownInsideSweep && Gen.connSendRefusesUnderLock && Gen.persistErrOnlyShutdown) = true := by decide

/-! Non-vacuity: the history that failed for ever on the unrepaired tree — dead connection parked
    in the idle queue by housekeeping, then requested on the path without an active list — now
    dials a replacement. -/
example :
    (getConn (run (init 1 1 120 480) [.getConn 0 0, .peerDies 0, .fail 0, .tick 200]) 0 201).2 = some 1 := by
  decide

end RpcVerif.Props
