import RpcVerif.Lemmas.Prov
/-
  C11 — Data handed to user code is never mutated afterwards.
  M (Model/Prov.lean) is the memory discipline of the library: frames are read into pooled read
  buffers, values reach user code on one of the library's hand-over paths, read buffers go back to
  their pool and are overwritten by later frames. Whether a path copies out of the read buffer —
  before decoding, and before the buffer is released — is read from server.go, conn.go and stream.go
  on every run (Generated/ProvFacts.lean). The theorem is about every history of reads, hand-overs,
  releases and reuses; the end-to-end runs re-hash retained arguments, replies and stream messages
  after further traffic with codecs whose decoded values alias their input.
-/
namespace RpcVerif.Props
open RpcVerif

/-- For every history in which values are handed over on the copying paths (handler arguments
    without NoCopy, replies incl. those placed in a caller-supplied buffer, stream messages on both
    sides, error texts): whatever user code holds still reads exactly as it did at hand-over,
    however many frames are read and however buffers are recycled afterwards. -/
theorem C11_handed_over_data_is_stable (tr : List M.Ev) (s : M.State) (hc : tr.all M.copying = true)
    (hr : M.run {} tr = some s) : ∀ h, h ∈ s.held → s.mem h.1 = h.2 :=
  M.unchanged_run tr s hc hr

/-- Every default path of the library copies (facts of the current source). -/
theorem C11_default_paths_copy :
    M.copies .args = true ∧ M.copies .reply = true ∧ M.copies .streamMsgClient = true ∧
    M.copies .streamMsgServer = true ∧ M.copies .streamRead = true ∧ M.copies .errorText = true := by decide

/-- A caller-supplied buffer: used exactly when the source's condition holds (capacity ≥ length
    of the reply), the reply in front, nothing written beyond the reply's length. -/
theorem C11_caller_buffer_bounds (buf reply : Bytes) :
    ((M.intoCallerBuffer buf reply).1 = true ↔ reply.length ≤ buf.length) ∧
    ((M.intoCallerBuffer buf reply).1 = true → (M.intoCallerBuffer buf reply).2.take reply.length = reply ∧
        (M.intoCallerBuffer buf reply).2.drop reply.length = buf.drop reply.length) ∧
    ((M.intoCallerBuffer buf reply).1 = false → (M.intoCallerBuffer buf reply).2 = buf) := by
  refine ⟨?_, (M.intoCallerBuffer_spec buf reply).1, (M.intoCallerBuffer_spec buf reply).2⟩
  unfold M.intoCallerBuffer Gen.ctxBufferFits
  split <;> simp_all

/-- Non-vacuity and necessity: the same history with an aliasing hand-over (NoCopy) does change
    what the user holds — the hypothesis of the theorem is what the copies buy. -/
example : ((M.run {} [.readFresh [1, 2, 3], .handOver .argsNoCopy 0, .release 0, .readPooled 0 [9, 9, 9]]).map
    (fun s => s.held.map (fun h => (s.mem h.1, h.2)))) = some [([9, 9, 9], [1, 2, 3])] := by decide

example : ((M.run {} [.readFresh [1, 2, 3], .handOver .args 0, .release 0, .readPooled 0 [9, 9, 9]]).map
    (fun s => s.held.map (fun h => (s.mem h.1, h.2)))) = some [([1, 2, 3], [1, 2, 3])] := by decide

end RpcVerif.Props
