import RpcVerif.Lemmas.ConnProps
/-
  C06 — errors reach exactly the failing call, verbatim, and never poison the link (client half).
-/
namespace RpcVerif.Props
open RpcVerif RpcVerif.K

/-- A server error text stored in a call's Error is the text of a received error response whose
    header carried that call's own sequence number. -/
theorem C06_error_is_own {cfg : Cfg} {tr : List Ev} {s : State} (h : Accepts (init cfg) tr s)
    (k : Nat) (c : Call) (hc : s.calls k = some c) (src n : Nat) (he : Err.text src n ∈ c.errHist) :
    ∃ q, c.seq = some q ∧ ({ seq := q, src := src, kind := .err n, junk := false } : Frame) ∈ s.fed :=
  ((provInv_accepts h) k c hc).2 src n he

/-- A call that failed never had its reply object written, and vice versa. -/
theorem C06_reply_untouched {cfg : Cfg} {tr : List Ev} {s : State} (h : Accepts (init cfg) tr s)
    (k : Nat) (c : Call) (hc : s.calls k = some c) (hf : c.errHist ≠ []) : c.replyWrites = 0 := by
  have := err_reply_once h k c hc
  cases hh : c.errHist with
  | nil => exact absurd hh hf
  | cons a l => rw [hh] at this; simp at this; omega

/-- Processing a response changes no call other than the one registered under its sequence
    number; finishing a call changes no other call. -/
theorem C06_isolation (s s' : State) :
    (∀ k j, step s (.finish k) = some s' → j ≠ k → s'.calls j = s.calls j) ∧
    (∀ j c, step s .decode = some s' → s.calls j = some c → pendingTok s j = 0 → s'.calls j = some c) :=
  ⟨fun k j hs hne => finish_frame s s' k j hs hne, fun j c hs hc hnp => decode_frame s s' hs j c hc hnp⟩

/-- A request that cannot be encoded fails only that call and leaves no residue: after its three
    sender steps the pending table and the wire log are what they were, its Error is the encode
    error, nothing else. -/
theorem C06_encode_failure_no_residue {cfg : Cfg} {tr : List Ev} {s s1 s2 s3 : State} (h : Accepts (init cfg) tr s)
    (k : Nat) (c : Call) (hc : s.calls k = some c) (hp : c.phase = .new) (hfe : c.failEnc = true)
    (hopen : s.shutdown = false ∧ s.closing = false)
    (h1 : step s (.sendLock k) = some s1) (h2 : step s1 (.sendUnreg k) = some s2) (h3 : step s2 (.sendFail k) = some s3) :
    s3.pending = s.pending ∧ s3.writes = s.writes ∧
      ∃ c', s3.calls k = some c' ∧ c'.errHist = [.encfail] ∧ c'.phase = .sent ∧ c'.seq = some s.seq :=
  encfail_steps s s1 s2 s3 k c (invS_accepts h) hc hp hfe hopen h1 h2 h3

end RpcVerif.Props
