import RpcVerif.Lemmas.ConnProps
import RpcVerif.Lemmas.LinkErr
/-
  C06 — errors reach exactly the failing call, verbatim, and never poison the link.
  The first four theorems are the client half (K); the last three are end to end over the product
  L = K ‖ lossy FIFO link ‖ S (Model/Link.lean) with no hypothesis on the peer.
-/
namespace RpcVerif.Props
open RpcVerif RpcVerif.K

/-- A server error text stored in a call's Error is the text of a received error response whose
    header carried that call's own sequence number. -/
theorem C06_error_is_own {cfg : Cfg} {tr : List Ev} {s : State} (h : Accepts (init cfg) tr s)
    (k : Nat) (c : Call) (hc : s.calls k = some c) (src n : Nat) (he : Err.text src n ∈ c.errHist) :
    ∃ q, c.seq = some q ∧ ({ seq := q, src := src, kind := .err n, junk := false } : Frame) ∈ s.fed :=
  ((provInv_accepts h) k c hc).2 src n he

/-- A call that failed never had its reply object written, and vice versa. -/
theorem C06_reply_untouched {cfg : Cfg} {tr : List Ev} {s : State} (h : Accepts (init cfg) tr s)
    (k : Nat) (c : Call) (hc : s.calls k = some c) (hf : c.errHist ≠ []) : c.replyWrites = 0 := by
  have := err_reply_once h k c hc
  cases hh : c.errHist with
  | nil => exact absurd hh hf
  | cons a l => rw [hh] at this; simp at this; omega

/-- Processing a response changes no call other than the one registered under its sequence
    number; finishing a call changes no other call. -/
theorem C06_isolation (s s' : State) :
    (∀ k j, step s (.finish k) = some s' → j ≠ k → s'.calls j = s.calls j) ∧
    (∀ j c, step s .decode = some s' → s.calls j = some c → pendingTok s j = 0 → s'.calls j = some c) :=
  ⟨fun k j hs hne => finish_frame s s' k j hs hne, fun j c hs hc hnp => decode_frame s s' hs j c hc hnp⟩

/-- A request that cannot be encoded fails only that call and leaves no residue: after its three
    sender steps the pending table and the wire log are what they were, its Error is the encode
    error, nothing else. -/
theorem C06_encode_failure_no_residue {cfg : Cfg} {tr : List Ev} {s s1 s2 s3 : State} (h : Accepts (init cfg) tr s)
    (k : Nat) (c : Call) (hc : s.calls k = some c) (hp : c.phase = .new) (hfe : c.failEnc = true)
    (hopen : s.shutdown = false ∧ s.closing = false)
    (h1 : step s (.sendLock k) = some s1) (h2 : step s1 (.sendUnreg k) = some s2) (h3 : step s2 (.sendFail k) = some s3) :
    s3.pending = s.pending ∧ s3.writes = s.writes ∧
      ∃ c', s3.calls k = some c' ∧ c'.errHist = [.encfail] ∧ c'.phase = .sent ∧ c'.seq = some s.seq :=
  encfail_steps s s1 s2 s3 k c (invS_accepts h) hc hp hfe hopen h1 h2 h3

/-- End to end: a server error stored in a call was written by the server for that call's own
    sequence number and is that call's own (src = k) — every interleaving of both ends, every loss
    pattern of the link, any number of outstanding calls. -/
theorem C06_error_end_to_end {cfg : L.Cfg} {tr : List L.Ev} {s : L.State} (h : L.Accepts (L.init cfg) tr s)
    (k : Nat) (c : Call) (hc : s.k.calls k = some c) (src n : Nat) (he : Err.text src n ∈ c.errHist) :
    src = k ∧ ∃ q, c.seq = some q ∧ ∃ p, p ∈ s.s.resps ∧ p.seq = q ∧ L.kindOf p = .err n :=
  L.error_end_to_end h k c hc src n he

/-- Verbatim: a non-empty error text stored in a call is exactly the error the handler of that call's
    own request returned (the job with the call's sequence number was entered and left with it). -/
theorem C06_handler_error_reaches_its_call {cfg : L.Cfg} {tr : List L.Ev} {s : L.State} (h : L.Accepts (L.init cfg) tr s)
    (k : Nat) (c : Call) (hc : s.k.calls k = some c) (src n : Nat) (he : Err.text src n ∈ c.errHist) (hn : 0 < n) :
    src = k ∧ ∃ q job, c.seq = some q ∧ job ∈ s.s.jobs ∧ job.req.seq = q ∧ job.verdict = some (.err n) ∧ job.ran = true :=
  L.handler_error_reaches_its_call h k c hc src n he hn

/-- Exactly the failing call: a call whose own request was answered with success never holds a
    server error text, whatever errors the handlers of other calls returned. -/
theorem C06_success_never_becomes_an_error {cfg : L.Cfg} {tr : List L.Ev} {s : L.State} (h : L.Accepts (L.init cfg) tr s)
    (k : Nat) (c : Call) (hc : s.k.calls k = some c) (q : Nat) (hq : c.seq = some q)
    (p : S.Resp) (hp : p ∈ s.s.resps) (hpq : p.seq = q) (hok : p.err = .none) :
    ∀ src n, Err.text src n ∉ c.errHist :=
  L.success_never_becomes_an_error h k c hc q hq p hp hpq hok

end RpcVerif.Props
