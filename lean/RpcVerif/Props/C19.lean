import RpcVerif.Generated.ProvFacts
import RpcVerif.Lemmas.ConnProps
import RpcVerif.Model.Pool
import RpcVerif.Generated.RouteFacts
/-
  C19 — context cancellation returns promptly and harms no other call.
  "As soon as" is not a theorem about time: cancellation is shown to be an always-enabled single
  step for a context call that has not returned (and whose caller is past its write).
-/
namespace RpcVerif.Props
open RpcVerif RpcVerif.K

/-- Cancellation of an un-returned context call is enabled, returns the context's error, leaves
    the call registered (so a late response cannot land on a recycled call) and touches nobody else. -/
theorem C19_cancel_returns (s : State) (k : Nat) (c : Call) (hc : s.calls k = some c) (hf : c.form = .ctx)
    (hr : c.returned = false) (hw : s.cfg.pipe = true ∨ c.phase = .sent) :
    ∃ s', step s (.cancel k) = some s' ∧ ∃ c', s'.calls k = some c' ∧ c'.returned = true ∧
      c'.retErr = some .canceled ∧ s'.pending = s.pending ∧ ∀ j, j ≠ k → s'.calls j = s.calls j :=
  cancel_returns s k c hc hf hr hw

/-- A response arriving later for an abandoned call affects no other call: the steps that
    process it only touch the call registered under its sequence number. -/
theorem C19_late_response_harmless (s s' : State) :
    (∀ k j, step s (.finish k) = some s' → j ≠ k → s'.calls j = s.calls j) ∧
    (∀ j c, step s .decode = some s' → s.calls j = some c → pendingTok s j = 0 → s'.calls j = some c) :=
  ⟨fun k j hs hne => finish_frame s s' k j hs hne, fun j c hs hc hnp => decode_frame s s' hs j c hc hnp⟩

/-- If the reply arrives first the call returns it normally: a signalled call is never touched
    again (so a cancellation racing with it cannot change what was delivered). -/
theorem C19_completed_is_final {cfg : Cfg} {tr : List Ev} {s s' : State} (h : Accepts (init cfg) tr s) (e : Ev)
    (hs : step s e = some s') (k : Nat) (c : Call) (hc : s.calls k = some c) (hsig : c.signals = 1) :
    ∃ c', s'.calls k = some c' ∧ c'.signals = 1 ∧ c'.errHist = c.errHist ∧ c'.replyFrom = c.replyFrom ∧ c'.replyWrites = c.replyWrites :=
  signalled_stable s s' e (invS_accepts h) (auxInv_accepts h) hs k c hc hsig

/-- `finishCall`'s buffer choice: the condition is the one in conn.go (translated on every run,
    Generated/ProvFacts.lean): the supplied buffer is used iff its capacity suffices; then exactly
    `len` bytes of it are written, otherwise it is not touched. -/
def replyBuffer (cap len : Nat) : Bool × Nat := if Gen.ctxBufferFits cap len then (true, len) else (false, 0)

theorem C19_context_buffer (cap len : Nat) :
    ((replyBuffer cap len).1 = true ↔ len ≤ cap) ∧ (replyBuffer cap len).2 ≤ cap ∧
    ((replyBuffer cap len).1 = false → (replyBuffer cap len).2 = 0) := by
  unfold replyBuffer Gen.ctxBufferFits; split <;> simp_all <;> omega

/-- What `Transport.CallWithContext` does to the pool once the call on the pooled connection `id`
    has returned: stamp the connection, then `checkPersistConnErr` — whose condition is read from
    transport.go on every run (Generated/PoolFacts.lean, `persistErrOnlyShutdown`). -/
def afterPooledCall (s : P.State) (id : Nat) (errIsShutdown : Bool) : P.State :=
  let s := P.step s (.stamp id)
  if Gen.persistErrOnlyShutdown then (if errIsShutdown then P.step s (.fail id) else s) else P.step s (.fail id)

/-- A context's error (deadline, cancellation) on one pooled call harms no other call of the
    transport: the connection it ran on stays open and alive with its outstanding calls, every
    other connection is untouched, and so are the queues — for every pool state. -/
theorem C19_context_error_keeps_the_connection (s : P.State) (id : Nat) :
    let s' := afterPooledCall s id false
    (∀ j, (s'.pcs j).map (fun p => (p.alive, p.isOpen, p.dead, p.calls)) = (s.pcs j).map (fun p => (p.alive, p.isOpen, p.dead, p.calls))) ∧
    s'.active = s.active ∧ s'.idle = s.idle ∧ s'.running = s.running := by
  have hg : Gen.persistErrOnlyShutdown = true := by decide
  simp only [afterPooledCall, hg, if_true, P.step, P.updPc]
  refine ⟨fun j => ?_, rfl, rfl, rfl⟩
  by_cases h : j = id
  · subst h; cases hp : s.pcs j <;> simp [hp]
  · simp [h]

/-- The load-balancing Client does not get between a caller and its context: every call form hands
    the call to the transport method of the same name on every branch — target chosen by the
    scheduler, by the Director, or none — and CallWithContext passes the caller's own `ctx` (facts
    read from client.go on every run). So what K proves of `Conn.CallWithContext` is what a caller
    of `Client.CallWithContext` gets. -/
theorem C19_client_passes_the_context :
    (Gen.delegatesCall && Gen.delegatesCallWithContext && Gen.delegatesGo && Gen.delegatesRoundTrip &&
     Gen.delegatesPing && Gen.delegatesNewStream) = true := by decide

end RpcVerif.Props
