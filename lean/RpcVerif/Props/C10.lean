import RpcVerif.Lemmas.StreamInv
import RpcVerif.Generated.ServerFacts
/-
  C10 — Closing a stream or losing its connection unblocks both ends.
  Over T (both ends of the stream layer of one connection): a reader is never left parked on a
  stopped stream; once an end has torn down (the client reader's teardown; ServeCodec's teardown)
  every stream of that end is stopped; a later read or write on a stopped stream returns the
  error at once; closing one stream touches no other stream and no unary call. The teardown facts
  (client: recv stops every registered stream; server: ServeCodec and — for poll mode — the EOF
  branch of listen close every stream of the connection; Close stops before the handshake; stop
  sets the flag and broadcasts) are read from the source on every run. "Promptly" is measured by
  the harness; poll-mode Server.Close with the connection still open is known finding D17.
-/
namespace RpcVerif.Props
open RpcVerif

/-- In every reachable state nobody is parked on a stopped stream, on either side. -/
theorem C10_no_stranded_reader {cfg : T.Cfg} {tr : List T.Ev} {s : T.State} (h : T.Accepts (T.init cfg) tr s) :
    (∀ c, c ∈ s.cs → c.e.closed = true → c.e.waiting = false) ∧ (∀ t, t ∈ s.ss → t.e.closed = true → t.e.waiting = false) :=
  T.noStranded_accepts h

/-- Once the client reader has torn down, every stream handed to the application is stopped; once
    the server connection has torn down, every stream of that connection is stopped. -/
theorem C10_teardown_stops_every_stream {cfg : T.Cfg} {tr : List T.Ev} {s : T.State} (h : T.Accepts (T.init cfg) tr s) :
    (s.cShutdown = true → ∀ c, c ∈ s.cs → c.opened = true → c.e.closed = true) ∧
    (s.sTornDown = true → ∀ t, t ∈ s.ss → t.e.closed = true) :=
  T.tornDown_accepts h

/-- Stopping an end wakes its parked reader, which returns ErrStreamShutdown without a message. -/
theorem C10_stop_releases_the_reader (e : T.End) (hw : e.waiting = true) :
    (e.stop).closed = true ∧ (e.stop).waiting = false ∧ (e.stop).readErrs = e.readErrs + 1 ∧ (e.stop).delivered = e.delivered :=
  ⟨(T.stop_wakes e T.allFlags_true).1, (T.stop_wakes e T.allFlags_true).2, (T.stop_parked e T.allFlags_true hw).1, (T.stop_parked e T.allFlags_true hw).2⟩

/-- A later ReadMessage on a stopped stream returns the error at once; a later WriteMessage
    returns an error and sends nothing. -/
theorem C10_later_calls_fail_at_once (e : T.End) (hc : e.closed = true) (hw : e.waiting = false) :
    e.read = some { e with readErrs := e.readErrs + 1 } := T.read_closed e hc hw

theorem C10_later_write_fails (s s' : T.State) (q m : Nat) (c : T.CStream) (hc : T.getC s q = some c) (hcl : c.e.closed = true)
    (h : T.step s (.cWrite q m) = some s') :
    s' = T.setC s q (fun c => { c with e := { c.e with writeErrs := c.e.writeErrs + 1 } }) :=
  T.write_closed_errors s s' q m c hc hcl h

theorem C10_later_handler_write_fails (s s' : T.State) (q m : Nat) (t : T.SStream) (ht : T.getS s q = some t)
    (hcl : t.e.closed = true ∨ s.sTornDown = true) (h : T.step s (.sWrite q m) = some s') :
    s' = T.setS s q (fun t => { t with e := { t.e with writeErrs := t.e.writeErrs + 1 } }) :=
  T.sWrite_closed_errors s s' q m t ht hcl h

/-- Closing one stream does not disturb the other streams, the server side, the frames already
    on their way to the client, or the unary calls of the connection. -/
theorem C10_close_is_local (s s' : T.State) (q : Nat) (h : T.step s (.cClose q) = some s') :
    s'.ucalls = s.ucalls ∧ s'.ss = s.ss ∧ s'.s2c = s.s2c ∧ ∀ c, c.seq ≠ q → (c ∈ s'.cs ↔ c ∈ s.cs) :=
  T.cClose_frame s s' q h

/-- The same teardown is present in poll mode, and it cannot overtake a stream-open request that
    has been read but not yet dispatched: the serve callback holds the connection's receive lock
    from ReadMessage to dispatch (facts read from server.go listen). -/
theorem C10_poll_mode_teardown_closes_streams :
    (Gen.streamPollTeardownClosesStreams && Gen.pollReadAndDispatchUnderReceiveLock) = true := by decide

/-- T's server teardown processes what is left in the decode queue BEFORE it stops the streams
    (so a stream whose open request was read just before the end is stopped too): the order of
    ServeCodec's teardown in the source read on this run. -/
theorem C10_teardown_order : Gen.streamServerTeardownOrder = true := by decide

/-- T's `read` step (test `closed`, else take an event, else park) is one step because ReadMessage
    tests the flag under the stream's mutex — the mutex cond.Wait releases — so that stop() cannot
    fall between the test and the wait (fact read from stream.go). -/
theorem C10_read_is_atomic_with_respect_to_stop : Gen.streamReadTestsClosedUnderLock = true := by decide

/-! Non-vacuity: a parked client reader and a parked handler; the link is cut; both ends learn of
    it; both readers have returned the error. -/
example : ((T.runTrace (T.init ⟨true, true⟩)
    [.cOpen, .sRecv, .cRecv, .cRead 0, .sRead 0, .cutLink 0 0, .cEof, .sEof]).map
      (fun s => (s.cs.map (fun c => (c.e.waiting, c.e.readErrs)), s.ss.map (fun t => (t.e.waiting, t.e.readErrs))))) =
    some ([(false, 1)], [(false, 1)]) := by decide

end RpcVerif.Props
