import RpcVerif.Lemmas.RouterInv
/-
  C17 — Scheduling policies do what their names say.
  `schedule` of R is client.go's schedule() with the cursor and heap index arithmetic translated
  from the source on every run (Generated/RouteFacts.lean: cursorStep, leftChild).
  The EWMA itself is float64 arithmetic: its value is compared with the documented formula over
  exact rationals by the harness (monitor ewma-arithmetic); the model carries the estimate as an
  environment-supplied integer and proves the branch structure around it (reset on dial failure).
-/
namespace RpcVerif.Props
open RpcVerif

/-- RoundRobin: from any reachable state with n ≥ 2 live targets, the next n picks (with the
    list unchanged in between) are pairwise distinct and are exactly the live targets. -/
theorem C17_round_robin (b : Bool) (tr : List R.Ev) (s : R.State) (h : R.run (R.init .rr b) tr = some s)
    (hp : s.policy = .rr) (hn : 2 ≤ s.list.length) :
    ((R.rrPicks s s.list.length).1).Nodup ∧ ∀ a, a ∈ (R.rrPicks s s.list.length).1 ↔ a ∈ s.list :=
  R.rr_distinct s (R.inv_run .rr b tr s h) hp hn

/-- Random only picks live targets, whatever the random source returns. -/
theorem C17_random_picks_live (s : R.State) (hp : s.policy = .random) (hn : 2 ≤ s.list.length) (choice : Nat) :
    ∃ a, (R.schedule s choice).2 = some (a, true) ∧ a ∈ s.list := R.random_in_list s hp hn choice

/-- LeastTime, non-probe pick: the target taken from the root of the heap after heapify has a
    latency estimate that is minimal among all live targets. -/
theorem C17_least_time_minimal (b : Bool) (tr : List R.Ev) (s : R.State) (h : R.run (R.init .least b) tr = some s)
    (hne : s.list ≠ []) : ∀ a, a ∈ s.list → R.latOf s ((R.heapify s s.heap).getD 0 "") ≤ R.latOf s a := by
  have i := R.inv_run .least b tr s h
  have hh : s.heap ≠ [] := fun e => hne (by have := i.heapPerm; rw [e] at this; exact List.Perm.eq_nil (this.symm))
  intro a ha
  exact R.heapify_root_min s s.heap hh a (i.heapPerm.mem_iff.mpr ha)

/-- LeastTime, what `schedule` does with n ≥ 2 live targets: a probe (rotation pick, clearing the
    due flag) when a probe is due or Tick = 0; otherwise the heap root after heapify. -/
theorem C17_least_time_schedule (s : R.State) (hp : s.policy = .least) (hn : 2 ≤ s.list.length) (c : Nat) :
    ((s.probeAlways || s.probeDue) = true →
        (R.schedule s c).2 = some (s.list.getD s.pos "", true) ∧ (R.schedule s c).1.probeDue = false ∧
        (R.schedule s c).1.pos = Gen.cursorStep s.pos s.list.length) ∧
    ((s.probeAlways || s.probeDue) = false →
        (R.schedule s c).2 = some ((R.heapify s s.heap).getD 0 "", true)) := by
  rw [R.schedule_ge2 s c hn]
  simp only [hp]
  constructor <;> intro hd <;> simp [hd]

/-- Between two expiries of Tick at most one probe is taken: once a probe has been scheduled the
    next picks are heap picks until `tickElapsed`. -/
theorem C17_probe_once_per_tick (s : R.State) (hp : s.policy = .least) (hn : 2 ≤ s.list.length) (ha : s.probeAlways = false)
    (hd : s.probeDue = true) (c c' : Nat) :
    let s1 := (R.schedule s c).1
    (R.schedule s1 c').2 = some ((R.heapify s1 s1.heap).getD 0 "", true) := by
  intro s1
  have h1 := (C17_least_time_schedule s hp hn c).1 (by simp [hd])
  have hf := R.schedule_frame s c
  have hl : s1.list = s.list := hf.2.1
  have hpol : s1.policy = .least := by
    show (R.schedule s c).1.policy = .least
    rw [R.schedule_ge2 s c hn]; simp [hp, hd, ha]
  have hpa : s1.probeAlways = false := by
    show (R.schedule s c).1.probeAlways = false
    rw [R.schedule_ge2 s c hn]; simp [hp, hd, ha]
  exact (C17_least_time_schedule s1 hpol (by rw [hl]; exact hn) c').2 (by
    have h2 : s1.probeDue = false := h1.2.1
    rw [hpa, h2]; rfl)

/-- An unreachable target (dial failure reported after a call) is marked dead and its estimate
    reset to the maximum. -/
theorem C17_unreachable_reset (s : R.State) (a : String) (t : R.Target) (ht : t ∈ s.targets) (hta : t.addr = a) :
    ∃ s', R.step s (.report a true) = some s' ∧
      ({ t with alive := false, latency := Gen.clientLatency } : R.Target) ∈ s'.targets := by
  refine ⟨_, rfl, ?_⟩
  simp only [R.setT, List.mem_map]
  exact ⟨t, ht, by simp [hta]⟩

/-! Non-vacuity: three live targets, round robin: three calls, three targets. -/
example : ((R.run (R.init .rr false)
    [.update ["a", "b", "c"], .setUp "a" true, .setUp "b" true, .setUp "c" true, .checkDone "a" ["a"], .checkDone "b" ["b", "a"],
     .checkDone "c" ["c", "a", "b"], .route 1 0, .route 2 0, .route 3 0, .route 4 0]).map (·.sent)) = some ["c", "a", "b", "c"] := by decide

/-- What the moving average is fed: every timed call form reports to the target it was scheduled to
    (also on failure, so an unreachable target is reset to the maximum), and starts its clock after
    director() has returned — the sample is the duration of the transport call alone, not of a wait
    for a live target or a Fallback pause inside the Client. Read from client.go on every run. -/
theorem C17_samples_are_call_durations :
    (Gen.reportsCall && Gen.reportsCallWithContext && Gen.reportsPing && Gen.reportsNewStream &&
     Gen.clockStartsAfterDirectorCall && Gen.clockStartsAfterDirectorCallWithContext &&
     Gen.clockStartsAfterDirectorPing && Gen.clockStartsAfterDirectorNewStream) = true := by decide

/-- "A stable set of live targets" is recognised as such: check() sorts the live addresses before it
    compares them with the remembered sorted set (read from client.go on every run), so R's pass leaves
    list and cursor alone when the set is unchanged — the rotation of C17_round_robin is not restarted
    by the detector's ticks while some other target is down. -/
theorem C17_stable_set_is_recognised : Gen.checkSortsBeforeComparing = true := by decide

/-- R's least-time pick is `heapify` over the whole heap followed by the root (Model/Router.lean,
    `schedule`), which is what `C17_least_time_minimal` is proved about — and what the source does:
    `minHeap(c.minHeap)` precedes `c.minHeap[0]` in schedule() (read on every run). -/
theorem C17_least_time_heapifies_fully : Gen.scheduleHeapifiesFully = true := by decide

end RpcVerif.Props
