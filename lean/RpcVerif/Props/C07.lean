import RpcVerif.Lemmas.Wire
import RpcVerif.Lemmas.Upgrade
/-
  C07 — wire headers round-trip losslessly and keep their documented format.
  Only property theorems and non-vacuity examples live here; helper lemmas are in Lemmas/.
-/
namespace RpcVerif.Props
open RpcVerif RpcVerif.Wire

/-- Every 64-bit value is written as canonical LEB128 and read back, whatever follows it. -/
theorem C07_varint_roundtrip (v : Nat) (h : v < 2^64) (rest : Bytes) :
    encodeVarint v = putVarint v ∧ getVarint (encodeVarint v ++ rest) = some (v, (encodeVarint v).length) :=
  ⟨encodeVarint_eq_put v h, getVarint_encode v h rest⟩

/-- Request header, default/pb and code encoders: for every header value, every scratch buffer
    (any capacity and contents) and every content of the read buffer behind the frame:
    the encoder never fails or indexes out of range, emits exactly the documented bytes
    (hence independent of the scratch buffer), and the decoder returns the original fields. -/
theorem C07_request_roundtrip (h : Header) (scratch extra : Bytes) (r : Request) (hr : r.WF) :
    ∃ bs, marshalRequest h scratch r = .ok bs ∧
      bs = (match h with | .code => codeReqSpec r | _ => pbReqSpec r) ∧
      unmarshalRequest h bs extra = .ok r := by
  cases h
  · exact ⟨_, pbReqMarshal_eq_spec scratch r hr, rfl, pbReq_roundtrip extra r hr⟩
  · exact ⟨_, pbReqMarshal_eq_spec scratch r hr, rfl, pbReq_roundtrip extra r hr⟩
  · exact ⟨_, codeReqMarshal_eq_spec scratch r hr, rfl, codeReq_roundtrip extra r hr⟩

theorem C07_response_roundtrip (h : Header) (scratch extra : Bytes) (r : Response) (hr : r.WF) :
    ∃ bs, marshalResponse h scratch r = .ok bs ∧
      bs = (match h with | .code => codeResSpec r | _ => pbResSpec r) ∧
      unmarshalResponse h bs extra = .ok r := by
  cases h
  · exact ⟨_, pbResMarshal_eq_spec scratch r hr, rfl, pbRes_roundtrip extra r hr⟩
  · exact ⟨_, pbResMarshal_eq_spec scratch r hr, rfl, pbRes_roundtrip extra r hr⟩
  · exact ⟨_, codeResMarshal_eq_spec scratch r hr, rfl, codeRes_roundtrip extra r hr⟩

/-- The output does not depend on the size or previous contents of the reused buffer. -/
theorem C07_scratch_irrelevant (h : Header) (s₁ s₂ : Bytes) (r : Request) (q : Response) (hr : r.WF) (hq : q.WF) :
    marshalRequest h s₁ r = marshalRequest h s₂ r ∧ marshalResponse h s₁ q = marshalResponse h s₂ q := by
  cases h <;> simp only [marshalRequest, marshalResponse] <;>
    first
    | exact ⟨by rw [pbReqMarshal_eq_spec s₁ r hr, pbReqMarshal_eq_spec s₂ r hr],
             by rw [pbResMarshal_eq_spec s₁ q hq, pbResMarshal_eq_spec s₂ q hq]⟩
    | exact ⟨by rw [codeReqMarshal_eq_spec s₁ r hr, codeReqMarshal_eq_spec s₂ r hr],
             by rw [codeResMarshal_eq_spec s₁ q hq, codeResMarshal_eq_spec s₂ q hq]⟩

/-- The one-byte upgrade flags round-trip for every flag combination, distinct combinations
    get distinct bytes, and only the zero value is sent as "no upgrade". -/
theorem C07_upgrade_roundtrip (u : Upgrade) (h : u.valid = true) :
    Upgrade.unpack u.pack = u ∧ Upgrade.ofWire u.wire = u ∧ (u.isZero = true ↔ u = {}) :=
  ⟨upgrade_roundtrip u h, upgrade_wire_roundtrip u h, upgrade_isZero_iff u h⟩

theorem C07_upgrade_injective (u v : Upgrade) (hu : u.valid = true) (hv : v.valid = true)
    (h : u.pack = v.pack) : u = v := upgrade_pack_injective u v hu hv h

/-- Codec glue: what the server reads from the frame the client wrote is the client's
    sequence number, flags, method and argument bytes. -/
theorem C07_glue_request (h : Header) (scratch extra : Bytes) (seq : Nat) (u : Upgrade) (method args : Bytes)
    (hs : seq < 2^64) (hu : u.valid = true) (hm : method.length < 2^63) (ha : args.length < 2^63) :
    ∃ frame, writeRequest h scratch seq u method args = .ok frame ∧
      readRequestHeader h frame extra = .ok (seq, u, method, if u.noRequest = Gen.noRequest then [] else args) := by
  have hwf : Request.WF { seq := seq, upgrade := u.wire, method := method, args := if u.noRequest = Gen.noRequest then [] else args } := by
    refine ⟨hs, ?_, hm, ?_⟩
    · simp only [Upgrade.wire]; split <;> simp
    · simp only; split <;> simp <;> omega
  obtain ⟨bs, h1, -, h3⟩ := C07_request_roundtrip h scratch extra _ hwf
  refine ⟨bs, h1, ?_⟩
  simp only [readRequestHeader, h3, upgrade_wire_roundtrip u hu]

/-- The source-derived constants equal the documented format's (tags `field<<3|wiretype`,
    fields 1..4 / 1..3, code thresholds 127/0, conservative size overheads). -/
theorem C07_format_constants :
    (Gen.pbReqTag_Seq, Gen.pbReqTag_Upgrade, Gen.pbReqTag_ServiceMethod, Gen.pbReqTag_Args) = (8, 18, 26, 34) ∧
    (Gen.pbResTag_Seq, Gen.pbResTag_Error, Gen.pbResTag_Reply) = (8, 18, 26) ∧
    Gen.codeReqEnc_Upgrade = (127, 0) ∧ Gen.codeReqDec_Args = (127, 0) ∧ Gen.upgradeSize = 1 := by decide

/-! Non-vacuity: concrete values meeting the hypotheses, at the varint boundaries. -/
example : Request.WF { seq := 2^64 - 1, upgrade := [0x80], method := List.replicate 128 65, args := List.replicate 16384 7 } := by
  refine ⟨by decide, by decide, ?_, ?_⟩ <;> simp only [List.length_replicate] <;> omega
example : encodeVarint 127 = [0x7f] ∧ encodeVarint 128 = [0x80, 0x01] ∧ encodeVarint 16383 = [0xff, 0x7f]
    ∧ encodeVarint 16384 = [0x80, 0x80, 0x01] ∧ encodeVarint 2097151 = [0xff, 0xff, 0x7f]
    ∧ encodeVarint 2097152 = [0x80, 0x80, 0x80, 0x01] := by decide
example : (encodeVarint (2^64 - 1)).length = 10 := by decide
example : Upgrade.valid { noRequest := 1, noResponse := 1, heartbeat := 0, stream := 3 } = true := by decide
example : pbReqSpec { seq := 1, upgrade := [], method := [65], args := [] } = [8, 1, 26, 1, 65] := by
  simp [pbReqSpec, pbVarintField, pbBytesField, pbTag, putVarint]

end RpcVerif.Props
