import RpcVerif.Lemmas.StreamInv
/-
  C09 — Streams deliver every message exactly once, in order, to the right stream.
  T (Model/Stream.lean) is the stream layer of one connection with BOTH real ends and the two FIFO
  byte streams between them: client application, reader, decode and stream workers; server reader,
  decode and stream workers, one handler per stream; unary traffic shares the sequence counter and
  the wires. The theorems hold for every interleaving of all these threads, any number of streams,
  any message values, any moment of the first server write, any cut keeping a prefix of what is in
  flight. The facts they rest on (acknowledgement before the handler starts; the reader switches
  the phase) are read from conn.go / server.go on every run (Generated/StreamFacts.lean).
-/
namespace RpcVerif.Props
open RpcVerif

/-- server → client, safety: what the application has read from a stream, followed by what is
    queued for it, is a prefix of what that stream's handler wrote: nothing foreign, nothing
    twice, nothing out of order, nothing from another stream or from a unary call. -/
theorem C09_server_to_client_prefix {cfg : T.Cfg} {tr : List T.Ev} {s : T.State} (h : T.Accepts (T.init cfg) tr s) :
    ∀ c, c ∈ s.cs → ∀ t, t ∈ s.ss → t.seq = c.seq → (c.e.delivered ++ c.e.events) <+: t.e.written :=
  T.downPrefix_accepts h

/-- client → server, safety. -/
theorem C09_client_to_server_prefix {cfg : T.Cfg} {tr : List T.Ev} {s : T.State} (h : T.Accepts (T.init cfg) tr s) :
    ∀ c, c ∈ s.cs → ∀ t, t ∈ s.ss → t.seq = c.seq → (t.e.delivered ++ t.e.events) <+: c.e.written :=
  T.upPrefix_accepts h

/-- server → client, no loss: while the client end is open and the connection is up, everything
    the handler wrote has been read, is queued, or is on its way — in order; in particular the
    messages written before the client saw the acknowledgement. -/
theorem C09_server_to_client_no_loss {cfg : T.Cfg} {tr : List T.Ev} {s : T.State} (h : T.Accepts (T.init cfg) tr s) :
    ∀ c, c ∈ s.cs → ∀ t, t ∈ s.ss → t.seq = c.seq → c.e.closed = false → c.failed = false → s.cut = false → s.cShutdown = false →
      c.e.delivered ++ c.e.events ++ T.downInFlight s c.seq = t.e.written :=
  T.downNoLoss_accepts h

/-- client → server, no loss. -/
theorem C09_client_to_server_no_loss {cfg : T.Cfg} {tr : List T.Ev} {s : T.State} (h : T.Accepts (T.init cfg) tr s) :
    ∀ c, c ∈ s.cs → ∀ t, t ∈ s.ss → t.seq = c.seq → t.e.closed = false → t.inTable = true → s.cut = false → s.sEnded = false →
      t.e.delivered ++ t.e.events ++ T.upInFlight s c.seq = c.e.written :=
  T.upNoLoss_accepts h

/-- sequence numbers identify streams: distinct on each side, never shared with a unary call. -/
theorem C09_streams_are_told_apart {cfg : T.Cfg} {tr : List T.Ev} {s : T.State} (h : T.Accepts (T.init cfg) tr s) :
    T.SeqInv s := T.seqInv_accepts h

/-- the source facts the proofs use hold on this tree -/
theorem C09_source_facts : T.allFlags = true := T.allFlags_true

/-! Non-vacuity: the handler writes 1 and 2 before the client has processed the acknowledgement;
    a unary call is interleaved; the client then reads 1, 2 in order. -/
example : ((T.runTrace (T.init ⟨false, false⟩)
    [.cOpen, .sRecv, .sDecode, .sWrite 0 1, .cCall, .sWrite 0 2, .cRecv, .cDecode, .cRecv, .cDecode, .cRecv, .cDecode, .cStreamRun, .cStreamRun,
     .cRead 0, .cRead 0]).map (fun s => s.cs.map (·.e.delivered))) = some [[1, 2]] := by decide

end RpcVerif.Props
