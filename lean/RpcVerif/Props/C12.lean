import RpcVerif.Lemmas.ServerOutcome
import RpcVerif.Lemmas.Wire
import RpcVerif.Lemmas.Framing
import RpcVerif.Model.Options
import RpcVerif.Model.Spec
/-
  C12 — Options change performance, not results.
  What can be stated as theorems:
   * every server mode funnels into the same answers: over the server automaton S the response
     written for a request is a function of the request and of its handler's verdict alone, in every
     configuration (direct I/O × pipelining) and under every schedule, and at the end of a
     connection the responses are exactly those answers;
   * both ends resolve the socket, the body codec and the header encoder from an Options value by
     the same chain, read from the source on every run: a registered name wins over a constructor;
   * every header encoder carries the same fields (Props/C07), for every buffer size (the scratch
     buffer never matters), and framing delivers the same messages whatever the fragmentation.
  The cross product of real networks, TLS, body codecs and buffer sizes is exercised end to end
  against the abstract spec E (Model/Spec.lean), whose outcome function takes the operation only.
-/
namespace RpcVerif.Props
open RpcVerif

/-- Every response ever written is the answer `S.outcome` prescribes for a request that was read,
    with the verdict its handler was given — `S.outcome` has no configuration argument. -/
theorem C12_server_answers_do_not_depend_on_mode {cfg : S.Cfg} {tr : List S.Ev} {s : S.State}
    (h : S.Accepts (S.init cfg) tr s) (hu : S.UniqueSeq s) (p : S.Resp) (hp : p ∈ s.resps) :
    ∃ r, r ∈ s.reqs ∧ r.junk = false ∧ r.seq = p.seq ∧ S.outcome r (S.verdictOf s r.seq) = some p :=
  S.resp_determined h hu p hp

/-- Two runs under different configurations and schedules that both answered request `r`, with
    the same handler verdict, wrote the same response. -/
theorem C12_same_response_in_every_mode {cfg₁ cfg₂ : S.Cfg} {tr₁ tr₂ : List S.Ev} {s₁ s₂ : S.State}
    (h₁ : S.Accepts (S.init cfg₁) tr₁ s₁) (h₂ : S.Accepts (S.init cfg₂) tr₂ s₂) (hu₁ : S.UniqueSeq s₁) (hu₂ : S.UniqueSeq s₂)
    (p₁ p₂ : S.Resp) (hp₁ : p₁ ∈ s₁.resps) (hp₂ : p₂ ∈ s₂.resps) (r : S.Req) (hr₁ : r ∈ s₁.reqs) (hr₂ : r ∈ s₂.reqs)
    (hj : r.junk = false) (hs₁ : p₁.seq = r.seq) (hs₂ : p₂.seq = r.seq)
    (hv : S.verdictOf s₁ r.seq = S.verdictOf s₂ r.seq) : p₁ = p₂ :=
  S.resp_mode_independent h₁ h₂ hu₁ hu₂ p₁ p₂ hp₁ hp₂ r hr₁ hr₂ hj hs₁ hs₂ hv

/-- At the end of a connection the responses written are, up to order, exactly the prescribed
    answers of all the requests read — in every mode. -/
theorem C12_served_responses {cfg : S.Cfg} {tr : List S.Ev} {s : S.State} (h : S.Accepts (S.init cfg) tr s)
    (hu : S.UniqueSeq s) (hs : s.reader = .served) :
    s.resps.Perm (s.reqs.filterMap (fun r => S.outcome r (S.verdictOf s r.seq))) :=
  S.served_resps_perm h hu hs

/-- Client and server resolve socket, body codec and header encoder by the same chain. -/
theorem C12_both_ends_resolve_alike {X : Type} (strField : String → String) (reg : String → Option X) (ctorField : String → Option X) :
    Opt.resolve strField reg ctorField Gen.dialSocketOrder = Opt.resolve strField reg ctorField Gen.listenSocketOrder ∧
    Opt.resolve strField reg ctorField Gen.dialCodecOrder = Opt.resolve strField reg ctorField Gen.listenCodecOrder ∧
    Opt.resolve strField reg ctorField Gen.dialEncoderOrder = Opt.resolve strField reg ctorField Gen.listenEncoderOrder := by
  have h1 : Gen.dialSocketOrder = Gen.listenSocketOrder := by decide
  have h2 : Gen.dialCodecOrder = Gen.listenCodecOrder := by decide
  have h3 : Gen.dialEncoderOrder = Gen.listenEncoderOrder := by decide
  rw [h1, h2, h3]; exact ⟨rfl, rfl, rfl⟩

/-- A registered name wins over a constructor function; without a registered name the
    constructor is used — the documented resolution, on the fields the documentation names. -/
theorem C12_name_wins {X : Type} (strField : String → String) (reg : String → Option X) (ctorField : String → Option X) :
    (∀ x, reg (strField "Codec") = some x → Opt.resolve strField reg ctorField Gen.dialCodecOrder = some x) ∧
    (reg (strField "Codec") = none → Opt.resolve strField reg ctorField Gen.dialCodecOrder = ctorField "NewCodec") ∧
    (∀ x, reg (strField "Network") = some x → Opt.resolve strField reg ctorField Gen.dialSocketOrder = some x) ∧
    (reg (strField "Network") = none → Opt.resolve strField reg ctorField Gen.dialSocketOrder = ctorField "NewSocket") ∧
    (∀ x, reg (strField "HeaderEncoder") = some x → Opt.resolve strField reg ctorField Gen.dialEncoderOrder = some x) ∧
    (reg (strField "HeaderEncoder") = none → Opt.resolve strField reg ctorField Gen.dialEncoderOrder = ctorField "NewHeaderEncoder") := by
  have hc : Gen.dialCodecOrder = [.name "Codec", .ctor "NewCodec"] := by decide
  have hs : Gen.dialSocketOrder = [.name "Network", .ctor "NewSocket"] := by decide
  have he : Gen.dialEncoderOrder = [.name "HeaderEncoder", .ctor "NewHeaderEncoder"] := by decide
  rw [hc, hs, he]
  refine ⟨?_, ?_, ?_, ?_, ?_, ?_⟩ <;> intro h <;> simp [Opt.resolve, *] <;> cases hh : ctorField _ <;> simp_all

/-- However the socket, the codec and the header encoder were resolved — by registered name or by
    the constructor field — the resolved constructor is called with the same arguments, on both
    ends: the socket constructor always receives `opts.TLSConfig` (a name must not silently drop
    TLS), codec and encoder constructors take none. Read from dialer.go and server.go on every run. -/
theorem C12_resolution_paths_pass_the_same_arguments :
    Gen.dialSocketArgs = ["opts.TLSConfig", "opts.TLSConfig"] ∧ Gen.listenSocketArgs = ["opts.TLSConfig", "opts.TLSConfig"] ∧
    Gen.dialCodecArgs = ["", ""] ∧ Gen.listenCodecArgs = ["", ""] ∧
    Gen.dialEncoderArgs = ["", ""] ∧ Gen.listenEncoderArgs = ["", ""] := by decide

/-- The size and contents of the reused output buffer never change what an encoder emits
    (buffers smaller or larger than the message; Props/C07 has the full statement). -/
theorem C12_buffer_size_irrelevant (h : Wire.Header) (s₁ s₂ : Bytes) (r : Wire.Response) (hr : r.WF) :
    Wire.marshalResponse h s₁ r = Wire.marshalResponse h s₂ r := by
  cases h <;> simp [Wire.marshalResponse, Wire.pbResMarshal_eq_spec _ r hr, Wire.codeResMarshal_eq_spec _ r hr]

end RpcVerif.Props
