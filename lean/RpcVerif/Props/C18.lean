import RpcVerif.Lemmas.RouterInv
import RpcVerif.Lemmas.RouterFailover
/-
  C18 — Client fails over, wakes waiters, times out and closes without stranding callers.
  The waiter table, Close, Fallback and the detector's releases are events of R; the DialTimeout
  timer is the event `timeout k` of a parked caller (always enabled while parked — the timer is
  the runtime's). Detection time and "at once" are measured by the harness.
-/
namespace RpcVerif.Props
open RpcVerif

/-- A parked caller has not been signalled, nobody is signalled while still parked, and after
    Close nobody is parked — in every reachable state (caller ids are fresh, as Client.seq makes them). -/
theorem C18_waiters_consistent (s s' : R.State) (e : R.Ev) (h : R.WaitInv s)
    (hfresh : ∀ k, e = .park k → k ∉ s.waiters ∧ k ∉ s.released) (hs : R.step s e = some s') : R.WaitInv s' :=
  R.waitInv_step s s' e h hfresh hs

/-- As soon as the detector finds a live target (and no Fallback is in force) every parked caller
    is released, all of them, in one critical section. -/
theorem C18_release_all (s : R.State) (hl : s.list ≠ []) (hf : s.fallback = 0) :
    (R.checkPending s).waiters = [] ∧ (R.checkPending s).released = s.released ++ s.waiters := R.release_all s hl hf

/-- Close releases every parked caller at once; -/
theorem C18_close_releases (s : R.State) (hc : s.closed = false) :
    ∃ s', R.step s .close = some s' ∧ s'.waiters = [] ∧ s'.closed = true ∧ s'.released = s.released ++ s.waiters :=
  R.close_releases s hc

/-- after Close every routing decision is ErrShutdown without waiting, a caller that still
    manages to park is released at once, and a second Close changes nothing. -/
theorem C18_after_close (s : R.State) (hc : s.closed = true) (choice k : Nat) :
    (R.routeNow s choice).2 = .shutdown ∧
    (∃ s', R.step s (.park k) = some s' ∧ s'.waiters = s.waiters ∧ s'.released = s.released ++ [k]) ∧
    R.step s .close = some s :=
  ⟨R.closed_routes_shutdown s hc choice, R.park_after_close s hc k, R.second_close s hc⟩

/-- Nobody waits longer than DialTimeout: the timeout step of a parked caller is always enabled
    and removes exactly that caller. -/
theorem C18_timeout_enabled (s : R.State) (k : Nat) (hk : k ∈ s.waiters) :
    ∃ s', R.step s (.timeout k) = some s' ∧ s'.waiters = s.waiters.filter (· != k) ∧ s'.released = s.released := by
  refine ⟨{ s with waiters := s.waiters.filter (· != k) }, ?_, rfl, rfl⟩
  simp [R.step, hk]

/-- A target that refused a connection is marked dead by the report of that call (failover input
    of the detector); a successful call marks it alive. -/
theorem C18_dial_failure_marks_dead (s : R.State) (a : String) (dial : Bool) (t : R.Target) (ht : t ∈ s.targets) (hta : t.addr = a) :
    ∃ s' t', R.step s (.report a dial) = some s' ∧ t' ∈ s'.targets ∧ t'.addr = a ∧ t'.alive = !dial := by
  cases dial
  · exact ⟨_, { t with alive := true }, rfl, by simp only [R.setT, List.mem_map]; exact ⟨t, ht, by simp [hta]⟩, hta, rfl⟩
  · exact ⟨_, { t with alive := false, latency := Gen.clientLatency }, rfl, by simp only [R.setT, List.mem_map]; exact ⟨t, ht, by simp [hta]⟩, hta, rfl⟩

/-- Every call form of the Client reports the outcome of its call to the chosen target (the
    facts are read from client.go on every run): a refusal seen by any form feeds the detector. -/
theorem C18_every_form_reports :
    (Gen.reportsCall && Gen.reportsCallWithContext && Gen.reportsGo && Gen.reportsRoundTrip &&
     Gen.reportsPing && Gen.reportsNewStream) = true := by decide

/-- R's events `park` and `close` are single steps because, in the source read on this run, wait()
    tests `closed` and registers the waiter inside one critical section and the whole of Close runs
    under the same lock: a caller either registers before Close drains the table or sees `closed`. -/
theorem C18_registration_and_close_are_serialised :
    (Gen.waitRegistersUnderLock && Gen.closeOneCriticalSection && Gen.checkOneCriticalSection) = true := by decide

/-! Non-vacuity: two callers park, a target comes up, both are released; a third parks and Close releases it. -/
example : ((R.run (R.init .rr false)
    [.update ["a"], .park 1, .park 2, .setUp "a" true, .checkDone "a" ["a"], .park 3, .close, .park 4]).map
      (fun s => (s.waiters, s.released))) = some ([], [1, 2, 3, 4]) := by decide

/-- A probe of a dead target holds up nobody: in the source read on this run check() pings before it
    takes the client lock, so R's `checkDone` (the critical section after the ping) is all that
    routing, time-outs and Close ever wait for — however long a black-holed target lets the probe hang. -/
theorem C18_probe_outside_the_lock : Gen.checkProbesOutsideLock = true := by decide

/-! ### failover and recovery ("within a bounded detection time" = from the next detection pass on) -/

/-- A target marked dead — by a dial failure any call form reported (`C18_dial_failure_marks_dead`,
    `C18_every_form_reports`) or by its own failed probe — is out of the rotation from the next
    detection pass on, whichever target that pass was for, on every reachable state of R. -/
theorem C18_dead_target_leaves_the_rotation (p : R.Policy) (b : Bool) (tr : List R.Ev) (s s' : R.State)
    (h : R.run (R.init p b) tr = some s) (a x : String) (order : List String)
    (hs : R.step s (.checkDone a order) = some s')
    (hx : ∀ t, t ∈ s'.targets → t.addr = x → t.alive = false) : x ∉ s'.list :=
  R.dead_target_leaves_the_rotation p b tr s s' h a x order hs hx

/-- … and calls are only ever scheduled to members of the live list, so it receives none. -/
theorem C18_routed_is_listed (p : R.Policy) (b : Bool) (tr : List R.Ev) (s s' : R.State)
    (h : R.run (R.init p b) tr = some s) (hd : s.director = none) (k c : Nat)
    (hs : R.step s (.route k c) = some s') (hc : s.closed = false) :
    ∃ a, s'.sent = s.sent ++ [a] ∧ a ∈ s.list :=
  R.routed_is_listed p b tr s s' h hd k c hs hc

/-- Recovery: the pass whose probe of a configured target succeeds puts it back into the rotation;
    right after any pass the live list is exactly the set of targets marked alive. -/
theorem C18_recovered_target_rejoins (p : R.Policy) (b : Bool) (tr : List R.Ev) (s s' : R.State)
    (h : R.run (R.init p b) tr = some s) (a : String) (order : List String)
    (ht : ∃ t, t ∈ s.targets ∧ t.addr = a) (hup : s.up a = true)
    (hs : R.step s (.checkDone a order) = some s') : a ∈ s'.list ∧ s'.list.Perm (R.aliveAddrs s') :=
  ⟨R.recovered_target_rejoins p b tr s s' h a order ht hup hs, R.pass_makes_list_the_live_set p b tr s s' h a order hs⟩

end RpcVerif.Props
