import RpcVerif.Lemmas.ConnProps
import RpcVerif.Lemmas.ServerInv
import RpcVerif.Generated.ConnFacts
import RpcVerif.Lemmas.LinkOrder
/-
  C05 — pipelining executes and completes a connection's calls in order.
  Client half (automaton K) here; the server half is in Props/C05 below once the server
  automaton's lemmas are in place (see C05_server_*).
-/
namespace RpcVerif.Props
open RpcVerif RpcVerif.K

/-- With client pipelining, asynchronous calls are signalled on their Done channel in exactly
    the order in which their completion was determined (response processed, failure detected,
    refusal, or the final sweep — which goes through the table in sequence order): at every
    moment "determined" = "arrived" followed by "still queued", in queue order. Success and
    failure use the same queue. -/
theorem C05_client_fifo {cfg : Cfg} {tr : List Ev} {s : State} (h : Accepts (init cfg) tr s)
    (hp : s.cfg.pipe = true) :
    s.handed = s.arrivals ++ (s.finQ.map taskId).filter (isAsync s) :=
  fifoInv_accepts h hp

/-- Consequently what has arrived is always a prefix of what was determined. -/
theorem C05_client_prefix {cfg : Cfg} {tr : List Ev} {s : State} (h : Accepts (init cfg) tr s)
    (hp : s.cfg.pipe = true) : s.arrivals <+: s.handed := by
  rw [C05_client_fifo h hp]; exact List.prefix_append _ _

/-! Non-vacuity: success (body decode held) followed by a failure, the order that was inverted on
    the unrepaired tree: the failure waits behind the success. -/
def orderTrace : List Ev :=
  [.start { k := 1, form := .go, holdB := true }, .start { k := 2, form := .go },
   .sendLock 1, .sendLock 2,
   .feed { seq := 0, src := 1, kind := .ok }, .decode, .feed { seq := 1, src := 2, kind := .err 20 }, .decode,
   .brel 1, .finish 1, .runDone]

example : ((runTrace (init ⟨false, true⟩) orderTrace).map (·.arrivals)) = some [1, 2] := by decide

/-! ### server half (automaton S) -/

/-- Jobs are dispatched in the order their requests were read, whatever the I/O mode (decode
    queue or inline): dispatched jobs followed by the job requests still undispatched are the
    job requests read, in order. -/
theorem C05_server_dispatch_order {cfg : S.Cfg} {tr : List S.Ev} {s : S.State} (h : S.Accepts (S.init cfg) tr s) :
    s.jobs.map (·.req) ++ (S.undispatched s).filter S.isJob = s.reqs.filter S.isJob :=
  S.pipe_dispatch_order h

/-- With server pipelining the handlers of one connection are entered in dispatch order and at
    most one of them is inside its method at any time. -/
theorem C05_server_serial {cfg : S.Cfg} {tr : List S.Ev} {s : S.State} (h : S.Accepts (S.init cfg) tr s)
    (hu : S.UniqueSeq s) (hp : s.cfg.pipe = true) :
    (s.jobs.filter (·.phase == .entered)).length ≤ 1 ∧ s.execs = (s.jobs.filter (·.ran)).map (·.req.seq) :=
  S.pipe_serial h hu hp

/-- …and their responses are written in that order (pings and close-stream acknowledgements are
    answered by the decode step and are not part of this order). -/
theorem C05_server_response_order {cfg : S.Cfg} {tr : List S.Ev} {s : S.State} (h : S.Accepts (S.init cfg) tr s)
    (hp : s.cfg.pipe = true) (hu : S.UniqueSeq s) :
    (s.resps.filter (fun p => (s.jobs.any (fun j => j.req.seq == p.seq)))).map (·.seq) =
      ((s.jobs.filter (·.phase == .left)).map (·.req.seq)) :=
  S.pipe_response_order h hp hu

/-- Poll mode is the same automaton: S's `feed` step (a frame is read and put, in the same
    breath, where the dispatcher will find it in arrival order) describes the poll-mode serve
    callback because, in the source read on this run, ReadMessage and the dispatch of the frame
    happen inside one critical section of the connection's receive lock — however many of the
    poller's workers serve the connection at once. -/
theorem C05_poll_mode_is_the_same_automaton : Gen.pollReadAndDispatchUnderReceiveLock = true := by decide

/-- Different connections stay independent in poll mode too: the single-worker execution queue (and
    the decode and stream queues) of a connection is created inside the per-connection callback, so S
    — one automaton per connection, sharing nothing — describes each of them (read from listen()). -/
theorem C05_poll_queues_are_per_connection : Gen.pollQueuesPerConnection = true := by decide

/-- The client half: with pipelining every completion goes through the ordered completion queue and
    the sweep fails the pending calls in sequence-number order (facts read from conn.go). -/
theorem C05_client_source_facts :
    (Gen.connCompletesThroughOrderedQueue && Gen.connSweepsInSequenceOrder) = true := by decide

/-! ### end to end, over the product L = K ‖ lossy FIFO link ‖ S (no hypothesis on the peer) -/

/-- With client pipelining, sequence numbers are handed out in the order the calls were started. -/
theorem C05_sequence_numbers_follow_start_order {cfg : Cfg} {tr : List Ev} {s : State} (h : Accepts (init cfg) tr s)
    (hp : s.cfg.pipe = true) : (s.writes.map (·.1)).Sublist s.ids :=
  writes_in_start_order h hp

/-- The requests the server reads arrive in the order the client registered them (their sequence
    numbers increase strictly), whatever is lost on the way. -/
theorem C05_requests_arrive_in_issue_order {cfg : L.Cfg} {tr : List L.Ev} {s : L.State} (h : L.Accepts (L.init cfg) tr s) :
    (s.s.reqs.map (·.seq)).Pairwise (· < ·) :=
  L.requests_in_issue_order h

/-- With server pipelining the handlers of a connection are entered in the order in which the
    client registered the calls, their responses are written in that order, and they reach the
    client in that order — every interleaving of both ends, every loss pattern. Together with
    `C05_client_fifo` (completions are signalled in the order they were determined) this is C05 for
    calls answered by the server. -/
theorem C05_end_to_end {cfg : L.Cfg} {tr : List L.Ev} {s : L.State} (h : L.Accepts (L.init cfg) tr s)
    (hp : cfg.s.pipe = true) :
    s.s.execs.Pairwise (· < ·) ∧
    ((s.s.resps.filter (fun p => s.s.jobs.any (fun j => j.req.seq == p.seq))).map (·.seq)).Pairwise (· < ·) ∧
    ((s.k.fed.filter (fun f => s.s.jobs.any (fun j => j.req.seq == f.seq))).map (·.seq)).Pairwise (· < ·) :=
  ⟨L.executed_in_issue_order h hp, L.job_responses_in_issue_order h hp, L.job_responses_reach_the_client_in_order h hp⟩

end RpcVerif.Props
