import RpcVerif.Lemmas.ConnEnd
import RpcVerif.Lemmas.PoolInv
import RpcVerif.Lemmas.ServerInv
import RpcVerif.Generated.ConnFacts
/-
  C20 — Close releases every resource and is idempotent.
  Goroutine exit and socket closure are the runtime's; the theorems are about the automata's
  thread bookkeeping: after Close, in every quiescent state, no thread of the closed object has
  work left and nothing is registered. The harness measures the rest (goroutine profile,
  counting sockets, return of Listen).
-/
namespace RpcVerif.Props
open RpcVerif

/-- Conn: after a local Close, once nothing can move and the environment holds no gate, the
    reader has run its whole teardown, every queue is empty, nothing is registered and every
    call has been completed. -/
theorem C20_conn_released {cfg : K.Cfg} {tr : List K.Ev} {s : K.State} (h : K.Accepts (K.init cfg) tr s)
    (hq : K.Quiescent s) (hg : K.NoGateHeld s) (hc : s.msgsClosed = true) :
    s.reader = .exited ∧ s.pending = [] ∧ s.sendQ = [] ∧ s.finQ = [] ∧ s.finBag = [] ∧ s.decodeQ = [] ∧
      s.shutdown = true ∧ ∀ k c, s.calls k = some c → c.signals = 1 :=
  K.closed_released h hq hg hc

/-- A second Conn.Close reports ErrShutdown and changes nothing else. -/
theorem C20_conn_second_close (s : K.State) (hc : s.closing = true) :
    ∃ s', K.step s .close = some s' ∧ s'.closeRet = s.closeRet ++ [some .shutdown] ∧ s'.calls = s.calls ∧
      s'.pending = s.pending ∧ s'.reader = s.reader := K.second_close s hc

/-- Transport: Close closes every pooled connection, empties the pool and stops housekeeping; a
    second Close returns without changing anything. -/
theorem C20_transport_close (mc mi : Int) (ka ito : Nat) (tr : List P.Ev) :
    let s := P.run (P.init mc mi ka ito) tr
    (s.running = true → s.closed = false →
      (P.closeAll s).active = [] ∧ (P.closeAll s).idle = [] ∧ (P.closeAll s).stopped = true ∧
      ∀ id, id ∈ P.allPooled s → P.isOpenId (P.closeAll s) id = false) ∧
    (s.closed = true → P.closeAll s = s) := by
  intro s
  exact ⟨fun hr hc => P.close_closes_all s (P.inv_run mc mi ka ito tr) hr hc, P.close_idempotent s⟩

/-- Server connection: once its teardown is over nothing is left to dispatch and no handler runs. -/
theorem C20_server_conn_released {cfg : S.Cfg} {tr : List S.Ev} {s : S.State} (h : S.Accepts (S.init cfg) tr s)
    (hu : S.UniqueSeq s) (hs : s.reader = .served) : S.undispatched s = [] ∧ s.wg = 0 := by
  have ht := (S.inv_accepts h hu).teardown
  exact ⟨ht.1 (Or.inr (Or.inr hs)), ht.2 (Or.inr hs)⟩

/-- K's `close` event closes the codec unless a previous Close did: only `closing` guards it (a
    connection whose peer went away first is still closed by Close) — fact read from conn.go. -/
theorem C20_conn_close_always_closes_the_socket : Gen.connCloseGuardedByClosingOnly = true := by decide

end RpcVerif.Props
