import RpcVerif.Model.Basic
/-  Line-protocol helpers for the driver: hex <-> bytes, token parsing. Core Lean only. -/
namespace RpcVerif.Proto
open RpcVerif

def hexDigit (n : Nat) : Char := if n < 10 then Char.ofNat (48 + n) else Char.ofNat (87 + n)

def hexOfBytes (bs : Bytes) : String :=
  if bs.isEmpty then "-" else
  String.ofList (bs.foldr (fun b acc => hexDigit (b.toNat / 16) :: hexDigit (b.toNat % 16) :: acc) [])

def hexVal (c : Char) : Option Nat :=
  if '0' ≤ c ∧ c ≤ '9' then some (c.toNat - 48)
  else if 'a' ≤ c ∧ c ≤ 'f' then some (c.toNat - 87)
  else if 'A' ≤ c ∧ c ≤ 'F' then some (c.toNat - 55)
  else none

def bytesOfHexAux : List Char → Bytes → Option Bytes
  | [], acc => some acc.reverse
  | [_], _ => none
  | a :: b :: rest, acc =>
    match hexVal a, hexVal b with
    | some x, some y => bytesOfHexAux rest (UInt8.ofNat (x * 16 + y) :: acc)
    | _, _ => none

def bytesOfHex (s : String) : Option Bytes :=
  if s == "-" then some [] else bytesOfHexAux s.toList []

def tokens (line : String) : List String :=
  (line.trimAscii.toString.splitOn " ").filter (· ≠ "")

end RpcVerif.Proto
