import RpcVerif.Model.Basic
import RpcVerif.Generated.ProvFacts
/-
  M — where the bytes handed to user code live (server.go readRequestBody / callService,
  conn.go finishCall / read, stream.go ReadMessage; codec.go GetBuffer / PutBuffer).
  Memory is a map from buffer ids to contents. The library reads every incoming frame into a read
  buffer taken from a pool (or fresh), hands a value to user code on one of five paths, and gives
  the read buffer back to the pool, from where a later frame may overwrite it. Whether a path
  copies before it hands over is a fact read from the source on every run (Generated/ProvFacts.lean).
-/
namespace RpcVerif.M
open RpcVerif

abbrev Buf := Nat

inductive Path | args | argsNoCopy | reply | streamMsgClient | streamMsgServer | streamRead | streamReadNoCopy | errorText
deriving DecidableEq, Repr

/-- does the path copy the bytes out of the read buffer before user code sees them? -/
def copies : Path → Bool
  | .args => Gen.serverCopiesArgsUnlessNoCopy
  | .argsNoCopy => false                       -- NoCopy: by contract the handler must not keep the bytes
  | .reply => Gen.clientCopiesReplyBeforeDecode && Gen.clientDecodesFromTheCopy && Gen.clientReleasesReadBufferAfterDecode
  | .streamMsgClient => Gen.clientCopiesStreamMessage
  | .streamMsgServer => Gen.serverCopiesStreamMessage
  | .streamRead => Gen.streamReadCopiesBeforeRelease
  | .streamReadNoCopy => false                 -- NoCopy streams: same contract
  | .errorText => Gen.clientCopiesErrorText

structure State where
  mem : Buf → Bytes := fun _ => []
  pooled : List Buf := []            -- buffers lying in a pool
  inUse : List Buf := []             -- read buffers the library is working on
  held : List (Buf × Bytes) := []    -- values in the hands of user code: buffer and contents at hand-over
  next : Buf := 0                    -- buffers ≥ next have never been used

inductive Ev
  | readFresh (bytes : Bytes)                 -- a frame is read into a new buffer
  | readPooled (b : Buf) (bytes : Bytes)      -- a frame is read into a buffer taken from a pool
  | handOver (p : Path) (b : Buf)             -- a value decoded from read buffer b reaches user code
  | release (b : Buf)                         -- the read buffer goes back to its pool
  | userDrops (i : Nat)                       -- user code lets go of a value

def write (s : State) (b : Buf) (bytes : Bytes) : State := { s with mem := fun x => if x == b then bytes else s.mem x }

def step (s : State) : Ev → Option State
  | .readFresh bytes => some { (write s s.next bytes) with inUse := s.next :: s.inUse, next := s.next + 1 }
  | .readPooled b bytes =>
    if s.pooled.contains b then some { (write s b bytes) with pooled := s.pooled.erase b, inUse := b :: s.inUse } else none
  | .handOver p b =>
    if !s.inUse.contains b then none
    else if copies p then
      -- a fresh (or caller-supplied) buffer that no pool knows
      some { (write s s.next (s.mem b)) with held := (s.next, s.mem b) :: s.held, next := s.next + 1 }
    else some { s with held := (b, s.mem b) :: s.held }
  | .release b => if s.inUse.contains b then some { s with inUse := s.inUse.erase b, pooled := b :: s.pooled } else none
  | .userDrops i => some { s with held := s.held.eraseIdx i }

def run (s : State) : List Ev → Option State
  | [] => some s
  | e :: es => (step s e).bind (run · es)

/-- every value in user hands still reads as it did at hand-over -/
def Unchanged (s : State) : Prop := ∀ h, h ∈ s.held → s.mem h.1 = h.2

/-- a trace that never takes a path that aliases the read buffer (no NoCopy hand-over) -/
def copying : Ev → Bool
  | .handOver p _ => copies p
  | _ => true

/-- `finishCall`'s choice between the caller's context buffer and a fresh one, and what the copy
    leaves in the caller's buffer: the reply in front, the rest untouched. -/
def intoCallerBuffer (buf : Bytes) (reply : Bytes) : Bool × Bytes :=
  if Gen.ctxBufferFits buf.length reply.length then (true, reply ++ buf.drop reply.length) else (false, buf)

end RpcVerif.M
