import RpcVerif.Model.Router
/-  Invariants and property statements of R (definitions; proofs in Lemmas/RouterInv.lean). -/
namespace RpcVerif.R
open RpcVerif

def addrs (s : State) : List String := s.targets.map (·.addr)

/-- R1 (C16/C17): the live list and the heap only hold current targets, without repetition; the
    heap is a rearrangement of the list; the cursor is inside the list; `last` is the sorted
    address set the list was built from. -/
structure Inv (s : State) : Prop where
  targetsNodup : (addrs s).Nodup
  noEmptyAddr : "" ∉ addrs s
  listSub : ∀ a, a ∈ s.list → a ∈ addrs s
  listNodup : s.list.Nodup
  heapPerm : s.heap.Perm s.list
  posOk : s.list = [] ∨ s.pos < s.list.length
  lastOk : s.last = sortAddrs s.list ∨ (s.list = [] ∧ s.last = [])

/-- R2/R3 (C18): a parked waiter has not been signalled; nobody is signalled twice; after Close
    nobody is parked. (Caller ids are chosen by the environment; they are assumed distinct.) -/
structure WaitInv (s : State) : Prop where
  disjoint : ∀ k, k ∈ s.waiters → k ∉ s.released
  closedEmpty : s.closed = true → s.waiters = []

def checkInv (s : State) : Bool :=
  let as := addrs s
  let rec nodup : List String → Bool
    | [] => true
    | x :: xs => !xs.contains x && nodup xs
  nodup as && !as.contains "" && s.list.all as.contains && nodup s.list &&
  (s.heap.all s.list.contains && s.heap.length == s.list.length) &&
  (s.list.isEmpty || s.pos < s.list.length) &&
  (s.last == sortAddrs s.list || (s.list.isEmpty && s.last.isEmpty)) &&
  s.waiters.all (fun k => !s.released.contains k) && (!s.closed || s.waiters.isEmpty)

end RpcVerif.R
