/-
  Shared vocabulary of the executable models. Core Lean only (the driver links against this).
-/
namespace RpcVerif

abbrev Bytes := List UInt8

/-- Result of running a piece of Go code: a value, a returned `error`, or a run-time panic.
    Panics are values of the model, never totalised away. -/
inductive Res (α : Type) where
  | ok (a : α)
  | err (msg : String)
  | panic (kind : String)
deriving Repr, DecidableEq

namespace Res
def isPanic {α} : Res α → Bool
  | .panic _ => true
  | _ => false

def bind {α β} (r : Res α) (f : α → Res β) : Res β :=
  match r with
  | .ok a => f a
  | .err e => .err e
  | .panic k => .panic k

instance : Monad Res where
  pure := Res.ok
  bind := Res.bind

@[simp] theorem bind_ok {α β} (a : α) (f : α → Res β) : (Res.ok a >>= f) = f a := rfl
@[simp] theorem bind_err {α β} (e : String) (f : α → Res β) : ((Res.err e : Res α) >>= f) = .err e := rfl
@[simp] theorem bind_panic {α β} (e : String) (f : α → Res β) : ((Res.panic e : Res α) >>= f) = .panic e := rfl
@[simp] theorem pure_eq {α} (a : α) : (pure a : Res α) = .ok a := rfl
end Res

end RpcVerif
