import RpcVerif.Model.ConnSM
/-
  The invariants of K, as definitions only (proved in Lemmas/ConnInv.lean; also evaluated at run
  time by the driver on every state the correspondence visits).
-/
namespace RpcVerif.K
open RpcVerif

def isFin (k : Nat) : Task → Bool
  | .fin k' _ => k' == k
  | .done _ => false

def isDone (k : Nat) : Task → Bool
  | .done k' => k' == k
  | .fin _ _ => false

/-- entries of the pending table that point to call `k` -/
def pendingTok (s : State) (k : Nat) : Nat := (s.pending.filter (·.2 == k)).length

/-- finishCall tasks for `k` that have not run yet (queued, concurrent, or inline in the reader) -/
def finTok (s : State) (k : Nat) : Nat :=
  (s.finQ.filter (isFin k)).length + (s.finBag.filter (isFin k)).length +
  (match s.reader with | .finishing k' _ => if k' == k then 1 else 0 | _ => 0)

/-- queued `call.done()` for `k` -/
def doneTok (s : State) (k : Nat) : Nat := (s.finQ.filter (isDone k)).length

/-- the sender still has to decide the call's fate -/
def senderTok (c : Call) : Nat :=
  match c.phase with
  | .new => 1
  | .failing true _ => 1
  | _ => 0

/-- who may still complete the call -/
def owners (s : State) (c : Call) : Nat := senderTok c + pendingTok s c.k + finTok s c.k

/-- K2 (ownership): every started call is, at every moment, in exactly one place: not yet sent,
    registered in pending, held by the one path that removed it, queued for its signal, or
    signalled. Error/reply are written at most once, by the owner. -/
def CallInv (s : State) (k : Nat) (c : Call) : Prop :=
  c.k = k ∧ c.signals + doneTok s k + owners s c = 1 ∧ c.errHist.length + c.replyWrites + owners s c ≤ 1

/-- K1: the pending table is keyed by distinct, already allocated sequence numbers, and an
    entry `(q, k)` is the registration of call `k` under its own sequence number. -/
def PendingInv (s : State) : Prop :=
  (s.pending.map (·.1)).Nodup ∧
  ∀ q k, (q, k) ∈ s.pending → q < s.seq ∧ ∃ c, s.calls k = some c ∧ c.seq = some q

/-- K3: after the final sweep nothing is registered and nothing can register. -/
def ShutdownInv (s : State) : Prop :=
  (s.shutdown = true → s.pending = []) ∧
  (s.reader = .swept ∨ s.reader = .wclosed ∨ s.reader = .exited → s.shutdown = true)

def Inv (s : State) : Prop :=
  (∀ k c, s.calls k = some c → CallInv s k c) ∧ PendingInv s ∧ ShutdownInv s ∧
  (∀ k, k ∈ s.ids ↔ (s.calls k).isSome)

/-! Further invariants (each stands alone; all are preserved by every step). -/

def taskId : Task → Nat
  | .fin k _ => k
  | .done k => k

def isAsync (s : State) (k : Nat) : Bool :=
  match s.calls k with
  | some c => c.form.async
  | none => false

/-- K4 (C05): with pipelining the shared Done channel receives the asynchronous calls in exactly
    the order in which their completion was determined: what has been determined is what has
    arrived followed by what is still queued, in queue order. -/
def FifoInv (s : State) : Prop :=
  s.cfg.pipe = true → s.handed = s.arrivals ++ (s.finQ.map taskId).filter (isAsync s)

/-- a frame travelling with a completion task was returned by ReadMessage, decoded, and its
    sequence number is the one under which the task's call was registered -/
def frameOk (s : State) (k : Nat) (f : Frame) : Prop :=
  f ∈ s.fed ∧ f.junk = false ∧ ∃ c, s.calls k = some c ∧ c.seq = some f.seq

def TaskInv (s : State) : Prop :=
  (∀ k f, Task.fin k f ∈ s.finQ ∨ Task.fin k f ∈ s.finBag ∨ s.reader = .finishing k f → frameOk s k f) ∧
  (∀ f, f ∈ s.decodeQ → f ∈ s.fed) ∧ (∀ f, s.reader = .decoding f → f ∈ s.fed)

/-- C01/C06 (client half): whatever was decoded into a call's Reply, and every server error
    text stored in its Error, comes from a received frame whose header carried that call's own
    sequence number. -/
def ProvInv (s : State) : Prop :=
  ∀ k c, s.calls k = some c →
    (∀ src kd, c.replyFrom = some (src, kd) →
      ∃ q, c.seq = some q ∧ ({ seq := q, src := src, kind := kd, junk := false } : Frame) ∈ s.fed) ∧
    (∀ src n, Err.text src n ∈ c.errHist →
      ∃ q, c.seq = some q ∧ ({ seq := q, src := src, kind := .err n, junk := false } : Frame) ∈ s.fed)

/-- the send queue (pipelining) holds exactly the calls whose send has not returned, and only
    its head can be past the first step -/
def SendQInv (s : State) : Prop :=
  (s.cfg.pipe = true →
    (∀ k c, s.calls k = some c → (c.phase ≠ .sent ↔ k ∈ s.sendQ)) ∧ s.sendQ.Nodup ∧
    (∀ k c, k ∈ s.sendQ → s.calls k = some c → c.phase ≠ .new → s.sendQ.head? = some k)) ∧
  (∀ k c, s.calls k = some c → c.phase ≠ .new → c.phase ≠ .sent → c.seq.isSome = true)

/-- which queues exist in which mode -/
def ModeInv (s : State) : Prop :=
  (s.cfg.directIO = true → s.decodeQ = []) ∧
  (s.cfg.pipe = true → s.finBag = []) ∧
  (s.cfg.pipe = false → s.finQ = [] ∧ s.sendQ = []) ∧
  (s.cfg.directIO = false → ∀ f k, s.reader ≠ .decoding f ∧ s.reader ≠ .finishing k f) ∧
  (s.cfg.pipe = true → ∀ f k, s.reader ≠ .finishing k f)

/-! Executable version (over the started calls), used by the driver as a run-time cross-check. -/

def nodupNat : List Nat → Bool
  | [] => true
  | x :: xs => !xs.contains x && nodupNat xs

def checkCall (s : State) (k : Nat) : Bool :=
  match s.calls k with
  | none => false
  | some c => c.k == k && c.signals + doneTok s k + owners s c == 1 && c.errHist.length + c.replyWrites + owners s c ≤ 1

def checkFifo (s : State) : Bool :=
  !s.cfg.pipe || s.handed == s.arrivals ++ (s.finQ.map taskId).filter (isAsync s)

def frameOkB (s : State) (k : Nat) (f : Frame) : Bool :=
  s.fed.contains f && !f.junk && (match s.calls k with | some c => c.seq == some f.seq | none => false)

def checkTask (s : State) : Bool :=
  s.finQ.all (fun t => match t with | .fin k f => frameOkB s k f | _ => true) &&
  s.finBag.all (fun t => match t with | .fin k f => frameOkB s k f | _ => true) &&
  (match s.reader with | .finishing k f => frameOkB s k f | .decoding f => s.fed.contains f | _ => true) &&
  s.decodeQ.all (fun f => s.fed.contains f)

def checkProv (s : State) : Bool :=
  s.ids.all fun k => match s.calls k with
    | none => false
    | some c =>
      (match c.replyFrom, c.seq with
        | some (src, kd), some q => s.fed.contains { seq := q, src := src, kind := kd, junk := false }
        | some _, none => false
        | none, _ => true) &&
      c.errHist.all (fun e => match e, c.seq with
        | .text src n, some q => s.fed.contains { seq := q, src := src, kind := .err n, junk := false }
        | .text _ _, none => false
        | _, _ => true)

def checkSendQ (s : State) : Bool :=
  (!s.cfg.pipe ||
    (s.ids.all (fun k => match s.calls k with | some c => (c.phase != .sent) == s.sendQ.contains k | none => false) &&
     nodupNat s.sendQ &&
     s.sendQ.all (fun k => match s.calls k with | some c => c.phase == .new || s.sendQ.head? == some k | none => false))) &&
  s.ids.all (fun k => match s.calls k with | some c => c.phase == .new || c.phase == .sent || c.seq.isSome | none => false)

def checkMode (s : State) : Bool :=
  (!s.cfg.directIO || s.decodeQ.isEmpty) && (!s.cfg.pipe || s.finBag.isEmpty) &&
  (s.cfg.pipe || (s.finQ.isEmpty && s.sendQ.isEmpty)) &&
  (s.cfg.directIO || (match s.reader with | .decoding _ => false | .finishing _ _ => false | _ => true)) &&
  (!s.cfg.pipe || (match s.reader with | .finishing _ _ => false | _ => true))

def checkInv (s : State) : Bool :=
  checkFifo s && checkTask s && checkProv s && checkSendQ s && checkMode s &&
  s.ids.all (checkCall s) && nodupNat (s.pending.map (·.1)) &&
  s.pending.all (fun (q, k) => q < s.seq && (match s.calls k with | some c => c.seq == some q | none => false)) &&
  (!s.shutdown || s.pending.isEmpty) &&
  (!(s.reader == .swept || s.reader == .wclosed || s.reader == .exited) || s.shutdown) && nodupNat s.ids

end RpcVerif.K
