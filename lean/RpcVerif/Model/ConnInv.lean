import RpcVerif.Model.ConnSM
/-
  The invariants of K, as definitions only (proved in Lemmas/ConnInv.lean; also evaluated at run
  time by the driver on every state the correspondence visits).
-/
namespace RpcVerif.K
open RpcVerif

def isFin (k : Nat) : Task → Bool
  | .fin k' _ => k' == k
  | .done _ => false

def isDone (k : Nat) : Task → Bool
  | .done k' => k' == k
  | .fin _ _ => false

/-- entries of the pending table that point to call `k` -/
def pendingTok (s : State) (k : Nat) : Nat := (s.pending.filter (·.2 == k)).length

/-- finishCall tasks for `k` that have not run yet (queued, concurrent, or inline in the reader) -/
def finTok (s : State) (k : Nat) : Nat :=
  (s.finQ.filter (isFin k)).length + (s.finBag.filter (isFin k)).length +
  (match s.reader with | .finishing k' _ => if k' == k then 1 else 0 | _ => 0)

/-- queued `call.done()` for `k` -/
def doneTok (s : State) (k : Nat) : Nat := (s.finQ.filter (isDone k)).length

/-- the sender still has to decide the call's fate -/
def senderTok (c : Call) : Nat :=
  match c.phase with
  | .new => 1
  | .failing true _ => 1
  | _ => 0

/-- who may still complete the call -/
def owners (s : State) (c : Call) : Nat := senderTok c + pendingTok s c.k + finTok s c.k

/-- K2 (ownership): every started call is, at every moment, in exactly one place: not yet sent,
    registered in pending, held by the one path that removed it, queued for its signal, or
    signalled. Error/reply are written at most once, by the owner. -/
def CallInv (s : State) (k : Nat) (c : Call) : Prop :=
  c.k = k ∧ c.signals + doneTok s k + owners s c = 1 ∧ c.errHist.length + c.replyWrites + owners s c ≤ 1

/-- K1: the pending table is keyed by distinct, already allocated sequence numbers, and an
    entry `(q, k)` is the registration of call `k` under its own sequence number. -/
def PendingInv (s : State) : Prop :=
  (s.pending.map (·.1)).Nodup ∧
  ∀ q k, (q, k) ∈ s.pending → q < s.seq ∧ ∃ c, s.calls k = some c ∧ c.seq = some q

/-- K3: after the final sweep nothing is registered and nothing can register. -/
def ShutdownInv (s : State) : Prop :=
  (s.shutdown = true → s.pending = []) ∧
  (s.reader = .swept ∨ s.reader = .wclosed ∨ s.reader = .exited → s.shutdown = true)

def Inv (s : State) : Prop :=
  (∀ k c, s.calls k = some c → CallInv s k c) ∧ PendingInv s ∧ ShutdownInv s ∧
  (∀ k, k ∈ s.ids ↔ (s.calls k).isSome)

/-! Executable version (over the started calls), used by the driver as a run-time cross-check. -/

def nodupNat : List Nat → Bool
  | [] => true
  | x :: xs => !xs.contains x && nodupNat xs

def checkCall (s : State) (k : Nat) : Bool :=
  match s.calls k with
  | none => false
  | some c => c.k == k && c.signals + doneTok s k + owners s c == 1 && c.errHist.length + c.replyWrites + owners s c ≤ 1

def checkInv (s : State) : Bool :=
  s.ids.all (checkCall s) && nodupNat (s.pending.map (·.1)) &&
  s.pending.all (fun (q, k) => q < s.seq && (match s.calls k with | some c => c.seq == some q | none => false)) &&
  (!s.shutdown || s.pending.isEmpty) &&
  (!(s.reader == .swept || s.reader == .wclosed || s.reader == .exited) || s.shutdown) && nodupNat s.ids

end RpcVerif.K
