import RpcVerif.Model.Stream
import RpcVerif.Model.StreamInv
/-
  The executable side of T for the correspondence: script actions → events, `settle` (run every
  enabled internal thread step, in a fixed order, until none is enabled) and the canonical
  observation line. Streams are addressed by their index in opening order.
-/
namespace RpcVerif.T
open RpcVerif

def internalEvents (s : State) : List Ev :=
  [.cDecode, .cStreamRun, .sDecode, .sStreamRun] ++
  s.ss.filterMap (fun t => if !t.acked then some (.sAck t.seq) else none) ++
  s.cs.filterMap (fun c => if c.opened && c.phase == .opening then some (.cOpenedLate c.seq) else none)

def firstEnabled (s : State) : List Ev → Option State
  | [] => none
  | e :: es => match step s e with
    | some s' => some s'
    | none => firstEnabled s es

def settle : Nat → State → State
  | 0, s => s
  | fuel + 1, s => match firstEnabled s (internalEvents s) with
    | some s' => settle fuel s'
    | none => s

/-- the handler of the j-th server stream pushes its planned messages the moment it starts -/
def pushes : Nat → State → State
  | 0, s => s
  | fuel + 1, s =>
    match s.ss[s.pushedUpTo]? with
    | some t =>
      let j := s.pushedUpTo
      let n := (s.pushPlan[j]?).getD 0
      let s := (List.range n).foldl (fun (s : State) (k : Nat) =>
        match step s (.sWrite t.seq (1000 * (j + 1) + (k + 1))) with | some s' => s' | none => s) s
      pushes fuel { s with pushedUpTo := j + 1 }
    | none => s

def settled (s : State) : State := settle 100000 (pushes 1000 (settle 100000 s))

def env (s : State) (e : Ev) : State :=
  match step s e with
  | some s' => settled s'
  | none => s

def seqOfC (s : State) (i : Nat) : Nat := match s.cs[i]? with | some c => c.seq | none => 1000000
def seqOfS (s : State) (i : Nat) : Nat := match s.ss[i]? with | some t => t.seq | none => 1000000

def showNats (l : List Nat) : String := ",".intercalate (l.map toString)

def frameStr (s : State) (f : Frame) : String :=
  let idx := (s.cs.findIdx? (·.seq == f.seq))
  let name := match idx with | some i => toString i | none => s!"u{f.seq}"
  match f.kind with
  | .open => s!"o{name}"
  | .ack => s!"a{name}"
  | .msg m => s!"m{name}:{m}"
  | .close => s!"c{name}"
  | .other => name

def endStr (e : End) : String :=
  s!"got=[{showNats e.delivered}]:re={e.readErrs}:w={if e.waiting then 1 else 0}:we={e.writeErrs}"

def obs (s : State) : String :=
  let c2s := " ".intercalate (s.c2s.map (frameStr s))
  let s2c := " ".intercalate (s.s2c.map (frameStr s))
  let cs := (List.range s.cs.length).filterMap fun i => (s.cs[i]?).map fun c =>
    s!"{i}:{if c.failed then "f" else if c.opened then "o" else "-"}:{endStr c.e}:cd={if c.closeDone then 1 else 0}"
  let ss := (List.range s.ss.length).filterMap fun i => (s.ss[i]?).map fun t =>
    s!"{i}:{if t.started then "s" else "-"}:{endStr t.e}:x={if t.exited then 1 else 0}"
  let us := s.ucalls.map fun u => s!"{u.1}:{if u.2 then 1 else 0}"
  s!"obs c2s=[{c2s}] s2c=[{s2c}] C[{" ".intercalate cs}] S[{" ".intercalate ss}] U[{" ".intercalate us}]"

def action (s : State) (toks : List String) : Option State :=
  match toks with
  | ["copen"] => some (env { s with pushPlan := s.pushPlan ++ [0] } .cOpen)
  | ["copenp", n] => n.toNat?.map fun n => env { s with pushPlan := s.pushPlan ++ [n] } .cOpen
  | ["dcn", k] => k.toNat?.map fun k => settled ((List.range k).foldl (fun (s : State) _ => match step s .cRecv with | some s' => s' | none => s) s)
  | ["dsn", k] => k.toNat?.map fun k =>
    -- a unary request is never part of a burst with other frames (its answer comes from its own goroutine)
    let r := (List.range k).foldl (fun (acc : State × Bool × Bool) i =>
      let (s, stop, _) := acc
      if stop then acc else
      match s.c2s with
      | f :: _ =>
        let unary := f.kind == .other || f.kind == .close ||
          (f.kind == .open && (match s.cs.findIdx? (·.seq == f.seq) with | some i => (s.pushPlan[i]?).getD 0 > 0 | none => false))
        if unary && i > 0 then (s, true, false)
        else match step s .sRecv with
          | some s' => (s', unary, false)
          | none => (s, true, false)
      | [] => (s, true, false)) (s, false, false)
    settled r.1
  | ["ucall"] => some (env s .cCall)
  | ["dc"] => some (env s .cRecv)
  | ["ds"] => some (env s .sRecv)
  | ["cwrite", i, m] => match i.toNat?, m.toNat? with | some i, some m => some (env s (.cWrite (seqOfC s i) m)) | _, _ => none
  | ["dseof"] =>
    -- the link is cut (nothing in flight is lost), the server's reader takes every frame back to back
    -- and then sees the end
    if s.sEnded then none else
    let s := match step s (.cutLink s.c2s.length s.s2c.length) with | some s' => s' | none => s
    let s := (List.range s.c2s.length).foldl (fun (s : State) _ => match step s .sRecv with | some s' => s' | none => s) s
    some (env s .sEof)
  | ["cwritebad", _] => some s   -- the encode failure stays on the client: nothing is sent, nothing changes
  | ["cread", i] => i.toNat?.map fun i => env s (.cRead (seqOfC s i))
  | ["cclose", i] => i.toNat?.map fun i => env s (.cClose (seqOfC s i))
  | ["swrite", i, m] => match i.toNat?, m.toNat? with | some i, some m => some (env s (.sWrite (seqOfS s i) m)) | _, _ => none
  | ["sread", i] => i.toNat?.map fun i => env s (.sRead (seqOfS s i))
  | ["sexit", i] => i.toNat?.map fun i => env s (.sExit (seqOfS s i))
  | ["cut", kc, ks] => match kc.toNat?, ks.toNat? with | some kc, some ks => some (env s (.cutLink kc ks)) | _, _ => none
  | ["ceof"] => some (env s .cEof)
  | ["seof"] => some (env s .sEof)
  | ["probe"] => some s
  | _ => none

def parseCfg (toks : List String) : Option Cfg :=
  match toks with
  | "stream" :: c :: sd :: _ => some { cDirect := c == "cdio=1", sDirect := sd == "sdio=1" }
  | _ => none

def streamStep (st : Option State) (toks : List String) : Option State × String :=
  match parseCfg toks with
  | some cfg => (some (init cfg), "ok")
  | none =>
    match st with
    | none => (none, "bad-op")
    | some s =>
      match action s toks with
      | some s' => (some s', if checkInv s' then obs s' else "INVARIANT-VIOLATED " ++ obs s')
      | none => (some s, "bad-op")

end RpcVerif.T
