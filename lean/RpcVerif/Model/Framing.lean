import RpcVerif.Model.Varint
/-
  The message framing of hslam/socket (messages.go: WriteMessage / ReadMessage) that carries
  every header over a byte stream: varint length, then the bytes. ReadMessage keeps a
  reassembly buffer, appends whatever the transport's Read returned, and extracts one message
  when a complete one is at the front.
-/
namespace RpcVerif.Framing
open RpcVerif

/-- `WriteMessage(b)`: what goes on the wire. -/
def frame (m : Bytes) : Bytes := putVarint m.length ++ m

/-- The length prefix at the front of the reassembly buffer: `some (len, n)` when `n` bytes
    spell a complete varint `len`; `none` when more bytes are needed (`goto read`).
    (messages.go panics on a varint that overflows 64 bits; that is below the frame and not
    reachable from `frame` for lengths < 2^63.) -/
def parseLenAux : Nat → Nat → Nat → Bytes → Option (Nat × Nat)
  | 0, _, _, _ => none
  | _ + 1, _, _, [] => none
  | fuel + 1, shift, acc, b :: bs =>
    if b.toNat < 128 then some (acc + b.toNat * 2 ^ shift, 1)
    else match parseLenAux fuel (shift + 7) (acc + (b.toNat % 128) * 2 ^ shift) bs with
      | none => none
      | some (v, n) => some (v, n + 1)

def parseLen (buf : Bytes) : Option (Nat × Nat) := parseLenAux 10 0 0 buf

/-- one extraction attempt: a complete message and the remaining buffer, or `none` -/
def take1 (buf : Bytes) : Option (Bytes × Bytes) :=
  match parseLen buf with
  | none => none
  | some (len, n) =>
    if n + len ≤ buf.length then some ((buf.drop n).take len, buf.drop (n + len)) else none

/-- extract every complete message at the front of the buffer -/
def drain : Nat → Bytes → List Bytes × Bytes
  | 0, buf => ([], buf)
  | fuel + 1, buf =>
    match take1 buf with
    | none => ([], buf)
    | some (m, rest) => let (ms, r) := drain fuel rest; (m :: ms, r)

/-- the reader: append each chunk the transport delivers, extract what is complete -/
def feed (st : List Bytes × Bytes) (chunk : Bytes) : List Bytes × Bytes :=
  let buf := st.2 ++ chunk
  let (ms, rest) := drain (buf.length + 1) buf
  (st.1 ++ ms, rest)

def readAll (chunks : List Bytes) : List Bytes × Bytes := chunks.foldl feed ([], [])

end RpcVerif.Framing
