import RpcVerif.Model.ServerSM
/-  Invariants and property statements of S (definitions; proofs in Lemmas/ServerInv.lean). -/
namespace RpcVerif.S
open RpcVerif

def execCount (s : State) (k : Nat) : Nat := (s.execs.filter (· == k)).length
def respCount (s : State) (k : Nat) : Nat := (s.resps.filter (·.seq == k)).length

/-- the peer uses each sequence number once (what the client half guarantees) -/
def UniqueSeq (s : State) : Prop := ((s.reqs.filter (fun r => !r.junk)).map (·.seq)).Nodup

def isJob (r : Req) : Bool := !r.junk && dispatch r == .job

/-- the handler must run: a decodable unary request naming a registered method -/
def needsExec (r : Req) : Bool :=
  isJob r && r.method.known && ((flags r).noRequest == Gen.noRequest || !r.badArgs)

/-- exactly one response is owed: everything decodable except stream messages -/
def needsResponse (r : Req) : Bool := !r.junk && dispatch r != .streamMsg

/-- frames read but not yet dispatched, oldest first -/
def undispatched (s : State) : List Req :=
  (match s.reader with | .decoding r => [r] | _ => []) ++ s.decodeQ

def allFlags : Bool :=
  Gen.serverLooksUpAlways && Gen.replyAllocatedAlways && Gen.openChecksSetStream && Gen.sendGuardsZeroReply && Gen.teardownDrainsFirst

structure Inv (s : State) : Prop where
  /-- decode is FIFO: dispatched jobs followed by the jobs still undispatched are the job requests read, in order -/
  fifo : s.jobs.map (·.req) ++ (undispatched s).filter isJob = s.reqs.filter isJob
  /-- the WaitGroup counts the jobs that have not finished -/
  wgCount : s.wg = (s.jobs.filter (·.phase != .left)).length
  /-- with pipelining handlers are entered in dispatch order, one at a time, and finish in that order -/
  pipeOrder : s.cfg.pipe = true →
    s.execs = (s.jobs.filter (·.ran)).map (·.req.seq) ∧ (s.jobs.filter (·.phase == .entered)).length ≤ 1 ∧
    ∃ n, (s.jobs.take n).all (·.phase == .left) ∧ (s.jobs.drop n).all (fun j => j.phase != .left) ∧ ((s.jobs.drop (n + 1)).all (·.phase == .queued))
  /-- a handler ran exactly for the jobs marked `ran`, which are past `queued` -/
  ranExec : ∀ j, j ∈ s.jobs → (j.ran = true → j.phase ≠ .queued ∧ needsExec j.req = true)
  /-- teardown: past `drain` nothing is left to dispatch; past `wait` every job has finished -/
  teardown : (s.reader = .drained ∨ s.reader = .waited ∨ s.reader = .served → undispatched s = []) ∧
             (s.reader = .waited ∨ s.reader = .served → s.wg = 0)
  /-- direct I/O has no decode queue; otherwise the reader never decodes inline -/
  mode : (s.cfg.directIO = true → s.decodeQ = []) ∧ (s.cfg.directIO = false → ∀ r, s.reader ≠ .decoding r)

/-! run-time check used by the driver -/
def checkInv (s : State) : Bool :=
  decide (s.jobs.map (·.req) ++ (undispatched s).filter isJob = s.reqs.filter isJob) &&
  decide (s.wg = (s.jobs.filter (·.phase != .left)).length) &&
  (!s.cfg.pipe || (decide (s.execs = (s.jobs.filter (·.ran)).map (·.req.seq)) && decide ((s.jobs.filter (·.phase == .entered)).length ≤ 1))) &&
  s.jobs.all (fun j => !j.ran || (j.phase != .queued && needsExec j.req)) &&
  (!(s.reader == .drained || s.reader == .waited || s.reader == .served) || (undispatched s).isEmpty) &&
  (!(s.reader == .waited || s.reader == .served) || s.wg == 0) &&
  (!allFlags || s.crashed.isNone)

end RpcVerif.S
