import RpcVerif.Model.Stream
/-  Invariants and property statements of T (definitions; proofs in Lemmas/StreamInv.lean). -/
namespace RpcVerif.T
open RpcVerif

/-- the values of the stream messages for sequence number q in a list of frames, oldest first -/
def msgsOf (q : Nat) (fs : List Frame) : List Nat :=
  fs.filterMap fun f => if f.seq == q then (match f.kind with | .msg m => some m | _ => none) else none

def tasksOf (q : Nat) (ts : List (Nat × Nat)) : List Nat :=
  ts.filterMap fun t => if t.1 == q then some t.2 else none

/-- everything the server wrote on stream q that is still on its way to the client's event queue,
    oldest first: stream worker, decode worker, wire -/
def downInFlight (s : State) (q : Nat) : List Nat :=
  tasksOf q s.cStreamQ ++ msgsOf q s.cDecodeQ ++ msgsOf q s.s2c

def upInFlight (s : State) (q : Nat) : List Nat :=
  tasksOf q s.sStreamQ ++ msgsOf q s.sDecodeQ ++ msgsOf q s.c2s

def allFlags : Bool :=
  Gen.streamAckBeforeHandler && Gen.streamReaderFlipsPhase && Gen.streamClientTeardownStopsStreams && Gen.streamServerTeardownClosesStreams &&
  Gen.streamCloseRequestClosesServerStream && Gen.streamCloseStopsBeforeHandshake && Gen.streamStopSetsFlagAndBroadcasts

/-- C09 safety, server → client: what the client application has read from stream q, followed by
    what is queued for it, is a prefix of what the handler of q wrote — never anything else, never
    out of order, never twice, never another stream's message. -/
def DownPrefix (s : State) : Prop :=
  ∀ c, c ∈ s.cs → ∀ t, t ∈ s.ss → t.seq = c.seq → (c.e.delivered ++ c.e.events) <+: t.e.written

/-- C09 safety, client → server. -/
def UpPrefix (s : State) : Prop :=
  ∀ c, c ∈ s.cs → ∀ t, t ∈ s.ss → t.seq = c.seq → (t.e.delivered ++ t.e.events) <+: c.e.written

/-- C09 no loss, server → client: while the client end is open (not stopped) and the connection
    has not been cut, everything the handler wrote is delivered, queued or in flight — in order. -/
def DownNoLoss (s : State) : Prop :=
  ∀ c, c ∈ s.cs → ∀ t, t ∈ s.ss → t.seq = c.seq → c.e.closed = false → c.failed = false → s.cut = false → s.cShutdown = false →
    c.e.delivered ++ c.e.events ++ downInFlight s c.seq = t.e.written

/-- C09 no loss, client → server: while the server end is open and in the table. -/
def UpNoLoss (s : State) : Prop :=
  ∀ c, c ∈ s.cs → ∀ t, t ∈ s.ss → t.seq = c.seq → t.e.closed = false → t.inTable = true → s.cut = false → s.sEnded = false →
    t.e.delivered ++ t.e.events ++ upInFlight s c.seq = c.e.written

/-- C10: nobody stays parked on a stopped stream. -/
def NoStrandedReader (s : State) : Prop :=
  (∀ c, c ∈ s.cs → c.e.closed = true → c.e.waiting = false) ∧ (∀ t, t ∈ s.ss → t.e.closed = true → t.e.waiting = false)

/-- C10: once an end of the connection has torn down, every stream of that end is stopped. -/
def TornDownStopsAll (s : State) : Prop :=
  (s.cShutdown = true → ∀ c, c ∈ s.cs → c.opened = true → c.e.closed = true) ∧
  (s.sTornDown = true → ∀ t, t ∈ s.ss → t.e.closed = true)

/-- sequence numbers identify streams: pairwise distinct on each side, and a server stream exists
    only for a client stream -/
def SeqInv (s : State) : Prop :=
  (s.cs.map (·.seq)).Nodup ∧ (s.ss.map (·.seq)).Nodup ∧ (∀ t, t ∈ s.ss → ∃ c, c ∈ s.cs ∧ c.seq = t.seq) ∧
  (∀ c, c ∈ s.cs → c.seq < s.nextSeq) ∧ (∀ u, u ∈ s.ucalls → u.1 < s.nextSeq ∧ ∀ c, c ∈ s.cs → c.seq ≠ u.1)

/-! run-time check used by the driver -/

def isPrefix (a b : List Nat) : Bool := a.length ≤ b.length && b.take a.length == a

def checkInv (s : State) : Bool :=
  s.cs.all (fun c => s.ss.all fun t => t.seq != c.seq ||
    (isPrefix (c.e.delivered ++ c.e.events) t.e.written && isPrefix (t.e.delivered ++ t.e.events) c.e.written &&
     (c.e.closed || c.failed || s.cut || s.cShutdown || c.e.delivered ++ c.e.events ++ downInFlight s c.seq == t.e.written) &&
     (t.e.closed || !t.inTable || s.cut || s.sEnded || t.e.delivered ++ t.e.events ++ upInFlight s c.seq == c.e.written))) &&
  s.cs.all (fun c => !c.e.closed || !c.e.waiting) && s.ss.all (fun t => !t.e.closed || !t.e.waiting) &&
  (!s.cShutdown || s.cs.all (fun c => !c.opened || c.e.closed)) && (!s.sTornDown || s.ss.all (fun t => t.e.closed))

end RpcVerif.T
