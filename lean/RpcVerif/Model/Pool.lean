import RpcVerif.Model.Basic
import RpcVerif.Generated.PoolFacts
/-
  P — the Transport connection pool (transport.go: getConn, newPersistConn, run, Close,
  CloseIdleConnections, checkPersistConnErr, conns.Cursor/Append/Delete, connQueue).

  Every method body runs under `connsMu`, so each is one atomic event; the unlocked tails of the
  call wrappers (`stamp`, `fail`) are separate events. Time is a logical clock carried by the
  events. Limit normalisation and the cursor arithmetic come from Generated/PoolFacts.lean.
-/
namespace RpcVerif.P
open RpcVerif

structure PConn where
  id : Nat
  addr : Nat
  alive : Bool := true      -- persistConn.alive
  isOpen : Bool := true     -- the socket has not been closed by the client
  dead : Bool := false      -- the peer is gone (the Conn's reader has shut it down)
  lastUse : Nat := 0        -- persistConn.lastTime
  calls : Nat := 0          -- Conn.NumCalls()
deriving DecidableEq, Repr

structure State where
  maxConns : Nat
  maxIdle : Nat
  keepAlive : Nat
  idleTO : Nat
  active : List (Nat × List Nat × Nat) := []   -- address ↦ (connection ids in list order, cursor)
  idle : List (Nat × List Nat) := []           -- address ↦ queue, front first
  pcs : Nat → Option PConn := fun _ => none
  nextId : Nat := 0
  up : Nat → Bool := fun _ => true
  now : Nat := 0                                -- Transport.now (set by the last tick)
  running : Bool := false
  closed : Bool := false     -- Close has been called (compare-and-swap flag)
  stopped : Bool := false    -- the housekeeping goroutine has been told to exit
  dials : Nat := 0

/-- `getConn`'s `once.Do`: limits as normalised on first use. -/
def init (maxConns maxIdle : Int) (keepAlive idleTO : Nat) : State :=
  let mc := Gen.normMaxConns maxConns
  { maxConns := mc.toNat, maxIdle := (Gen.normMaxIdle maxIdle mc).toNat, keepAlive := keepAlive, idleTO := idleTO }

def getPc (s : State) (id : Nat) : Option PConn := s.pcs id

def updPc (s : State) (id : Nat) (f : PConn → PConn) : State :=
  { s with pcs := fun j => if j = id then (s.pcs id).map f else s.pcs j }

def lookupA (s : State) (a : Nat) : Option (List Nat × Nat) := (s.active.find? (·.1 == a)).map (·.2)
def setA (s : State) (a : Nat) (v : List Nat × Nat) : State :=
  { s with active := if (s.active.any (·.1 == a)) then s.active.map (fun e => if e.1 == a then (a, v) else e) else s.active ++ [(a, v)] }
def delA (s : State) (a : Nat) : State := { s with active := s.active.filter (·.1 != a) }

def lookupI (s : State) (a : Nat) : Option (List Nat) := (s.idle.find? (·.1 == a)).map (·.2)
def setI (s : State) (a : Nat) (q : List Nat) : State :=
  { s with idle := if (s.idle.any (·.1 == a)) then s.idle.map (fun e => if e.1 == a then (a, q) else e) else s.idle ++ [(a, q)] }
def delI (s : State) (a : Nat) : State := { s with idle := s.idle.filter (·.1 != a) }

def isAlive (s : State) (id : Nat) : Bool := match getPc s id with | some p => p.alive | none => false

/-- `pc.Close()`: closes the socket (idempotent). -/
def closePc (s : State) (id : Nat) : State := updPc s id fun p => { p with isOpen := false }

/-- `newPersistConn`: dial; `none` = ErrDial. The clock is the real time of the dial. -/
def dial (s : State) (a : Nat) (clock : Nat) : Option (State × Nat) :=
  if s.up a then
    let id := s.nextId
    some ({ s with pcs := fun j => if j = id then some { id := id, addr := a, lastUse := clock } else s.pcs j,
                   nextId := id + 1, dials := s.dials + 1 }, id)
  else none

/-- take a connection for `a` from the idle queue if there is one, replacing a dead one; else dial -/
def fromIdleOrDial (s : State) (a : Nat) (clock : Nat) : Option (State × Nat) :=
  match lookupI s a with
  | some (id :: rest) =>
    let s := setI s a rest
    let s := updPc s id fun p => { p with lastUse := clock }
    if isAlive s id then some (s, id) else dial s a clock
  | _ => dial s a clock

/-- `getConn(addr)`: the connection handed to the caller, or `none` for ErrDial. -/
def getConn (s : State) (a : Nat) (clock : Nat) : State × Option Nat :=
  let s := if s.running then s else { s with running := true, now := clock }
  match lookupA s a with
  | some (cs, cur) =>
    if cs.length < s.maxConns then
      match fromIdleOrDial s a clock with
      | some (s, id) => (setA s a (cs ++ [id], cur), some id)
      | none =>
        -- the dequeued dead connection (if any) is gone; ErrDial
        ((match lookupI s a with | some (_ :: rest) => setI s a rest | _ => s), none)
    else
      let cur' := Gen.cursorNext cur cs.length
      let s := setA s a (cs, cur')
      match cs[cur']? with
      | some id =>
        -- being handed out is a use: the connection is stamped (transport.go getConn, cursor path)
        if isAlive s id then (updPc s id fun p => { p with lastUse := s.now }, some id)
        else match dial s a clock with
          | some (s, nid) => (setA s a (cs.set cur' nid, cur'), some nid)
          | none => (s, none)
      | none => (s, none)
  | none =>
    match fromIdleOrDial s a clock with
    | some (s, id) => (setA s a ([id], 0), some id)
    | none => ((match lookupI s a with | some (_ :: rest) => setI s a rest | _ => s), none)

/-- one connection of an active list at a housekeeping tick -/
def tickActiveOne (s : State) (a : Nat) (clock : Nat) (acc : List Nat) (id : Nat) : State × List Nat :=
  match getPc s id with
  | some p =>
    if p.lastUse + s.keepAlive < clock && (p.calls == 0 || !Gen.runSparesBusy) then
      -- retire: to the idle queue, or close when it is full
      match lookupI s a with
      | some q => if q.length == s.maxIdle then (closePc s id, acc) else (setI s a (q ++ [id]), acc)
      | none => (setI s a [id], acc)
    else (s, acc ++ [id])
  | none => (s, acc)

def tickActive (s : State) (clock : Nat) : State :=
  s.active.foldl (fun s e =>
    let (a, cs, cur) := e
    let (s, keep) := cs.foldl (fun (st : State × List Nat) id => tickActiveOne st.1 a clock st.2 id) (s, [])
    if keep.isEmpty then delA s a else setA s a (keep, cur)) s

/-- the idle-queue half of a tick: `length` rounds; each closes the FRONT entry when the REAR
    entry is older than IdleConnTimeout -/
def tickIdleQueue (s : State) (a : Nat) (clock : Nat) : Nat → State
  | 0 => s
  | n + 1 =>
    match lookupI s a with
    | some (front :: rest) =>
      let rear := (front :: rest).getLast?.getD front
      match getPc s rear with
      | some p =>
        if p.lastUse + s.idleTO < clock then tickIdleQueue (closePc (setI s a rest) front) a clock n
        else tickIdleQueue s a clock n
      | none => s
    | _ => s

def tickIdle (s : State) (clock : Nat) : State :=
  s.idle.foldl (fun s e =>
    let s := tickIdleQueue s e.1 clock e.2.length
    match lookupI s e.1 with
    | some [] => delI s e.1
    | _ => s) s

/-- one pass of `run`'s ticker branch -/
def tick (s : State) (clock : Nat) : State :=
  if !s.running || s.stopped then s else
  tickIdle (tickActive { s with now := clock } clock) clock

def closeIdleConnections (s : State) : State :=
  let s := s.active.foldl (fun s e =>
    let (a, cs, cur) := e
    let (s, keep) := cs.foldl (fun (st : State × List Nat) id =>
      match getPc st.1 id with
      | some p => if p.calls == 0 || !Gen.closeIdleConnectionsSparesBusy then (closePc st.1 id, st.2) else (st.1, st.2 ++ [id])
      | none => st) (s, [])
    if keep.isEmpty then delA s a else setA s a (keep, cur)) s
  let s := s.idle.foldl (fun s e => e.2.foldl closePc s) s
  { s with idle := [] }

def closeAll (s : State) : State :=
  if s.closed then s else
  let s := { s with closed := true }
  if !s.running then s else
  let s := s.active.foldl (fun s e => e.2.1.foldl closePc s) s
  let s := s.idle.foldl (fun s e => e.2.foldl closePc s) s
  { s with active := [], idle := [], stopped := true }

/-- `checkPersistConnErr(ErrShutdown, pc)`: mark dead and close (one critical section of pc.mu). -/
def failPc (s : State) (id : Nat) : State := updPc s id fun p => { p with alive := false, isOpen := false }

inductive Ev
  | getConn (a : Nat) (clock : Nat)     -- result is recorded by the caller
  | callBegin (id : Nat)                 -- a request is registered on the connection
  | callEnd (id : Nat)                   -- answered or failed
  | stamp (id : Nat)                     -- conn.lastTime = t.now
  | fail (id : Nat)                      -- checkPersistConnErr on ErrShutdown
  | tick (clock : Nat)
  | closeIdle
  | close
  | peerDies (id : Nat)
  | setUp (a : Nat) (b : Bool)
deriving DecidableEq, Repr

def step (s : State) : Ev → State
  | .getConn a clock => (getConn s a clock).1
  | .callBegin id => updPc s id fun p => { p with calls := p.calls + 1 }
  | .callEnd id => updPc s id fun p => { p with calls := p.calls - 1 }
  | .stamp id => updPc s id fun p => { p with lastUse := s.now }
  | .fail id => failPc s id
  | .tick clock => tick s clock
  | .closeIdle => closeIdleConnections s
  | .close => closeAll s
  | .peerDies id => updPc s id fun p => { p with dead := true, calls := 0 }
  | .setUp a b => { s with up := fun x => if x = a then b else s.up x }

def run (s : State) (tr : List Ev) : State := tr.foldl step s

end RpcVerif.P
