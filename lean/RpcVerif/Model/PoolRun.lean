import RpcVerif.Model.Pool
import RpcVerif.Model.PoolInv
import RpcVerif.Model.Proto
/-
  Executable side of P for the correspondence: the harness's script actions as sequences of
  pool events, logical time for the idle phases, and the canonical observation line.
-/
namespace RpcVerif.P
open RpcVerif RpcVerif.Proto

structure CallRec where
  k : Nat
  addr : Nat
  form : String
  done : Bool := false
  err : String := "nil"
  connId : Option Nat := none    -- the connection that carried the request (none: never written)
  heldOn : Option Nat := none    -- the connection it is waiting on (long calls)
  handed : Option Nat := none    -- the connection getConn handed out; the call itself has not started (hook)
deriving Repr

structure Run where
  s : State
  clock : Nat := 0
  calls : List CallRec := []

def tickPeriod : Nat := 4

def addrOf : String → Nat
  | "A" => 0 | "B" => 1 | "C" => 2 | _ => 9
def addrName : Nat → String
  | 0 => "A" | 1 => "B" | 2 => "C" | _ => "?"

def isDead (s : State) (id : Nat) : Bool := match getPc s id with | some p => p.dead | none => true

/-- the harness lets one housekeeping pass go by before every action that starts or ends a call
    (`syncTick`): consecutive actions fall into distinct passes, so their stamps differ -/
def syncTick (r : Run) : Run :=
  let one := fun (r : Run) => { r with s := tick r.s (r.clock + tickPeriod), clock := r.clock + tickPeriod }
  one (one (one r))   -- three periods (see the harness: stamps of consecutive actions are three passes apart)

/-- a call through the Transport: getConn, then the outcome on that connection -/
def doCallAt (r : Run) (k : Nat) (addr : Nat) (form : String) (hold : Bool) : Run :=
  let (s, res) := getConn r.s addr r.clock
  match res with
  | none => { r with s := s, calls := r.calls ++ [{ k := k, addr := addr, form := form, done := true, err := "dial" }] }
  | some id =>
    if isDead s id then
      -- the connection's reader has shut it down: send refuses, ErrShutdown, mark dead and close
      let s := step (step s (.stamp id)) (.fail id)
      { r with s := s, calls := r.calls ++ [{ k := k, addr := addr, form := form, done := true, err := "shutdown" }] }
    else
      let carried := if form == "ping" || form == "stream" || form == "lstream" then none else some id
      if hold then
        let s := step s (.callBegin id)
        { r with s := s, calls := r.calls ++ [{ k := k, addr := addr, form := form, connId := carried, heldOn := some id }] }
      else
        let s := step s (.stamp id)
        { r with s := s, calls := r.calls ++ [{ k := k, addr := addr, form := form, done := true, connId := carried }] }

def doCall (r0 : Run) (k : Nat) (addr : Nat) (form : String) (hold : Bool) : Run :=
  doCallAt (syncTick r0) k addr form hold

/-- getConn only: the caller is held between getConn and the call -/
def hookGet (r0 : Run) (k : Nat) (addr : Nat) : Run :=
  let r := syncTick r0
  let (s, res) := getConn r.s addr r.clock
  match res with
  | none => { r with s := s, calls := r.calls ++ [{ k := k, addr := addr, form := "call", done := true, err := "dial" }] }
  | some id => { r with s := s, calls := r.calls ++ [{ k := k, addr := addr, form := "call", handed := some id }] }

/-- the caller goes on: the call is made on the connection it was handed (a long call) -/
def hookRel (r0 : Run) (k : Nat) : Run :=
  let r := syncTick r0
  match r.calls.find? (fun c => c.k == k && !c.done) with
  | some c =>
    match c.handed with
    | some id =>
      if isDead r.s id then
        let s := step (step r.s (.stamp id)) (.fail id)
        { r with s := s, calls := r.calls.map fun c' => if c'.k == k then { c' with done := true, err := "shutdown", handed := none } else c' }
      else
        let s := step r.s (.callBegin id)
        { r with s := s, calls := r.calls.map fun c' => if c'.k == k then { c' with connId := some id, heldOn := some id, handed := none } else c' }
    | none => r
  | none => r

def finishCall (r0 : Run) (k : Nat) : Run :=
  let r := syncTick r0
  match r.calls.find? (fun c => c.k == k && !c.done) with
  | some c =>
    match c.heldOn with
    | some id =>
      -- a call returns through the Transport, which stamps the connection; a stream is closed by its
      -- owner without the Transport seeing it (no stamp)
      let s := if c.form == "lstream" then step r.s (.callEnd id) else step (step r.s (.callEnd id)) (.stamp id)
      let r := { r with s := s, calls := r.calls.map fun c' => if c'.k == k then { c' with done := true, heldOn := none } else c' }
      -- the stream's connection keeps its old stamp and may be due at the very next pass: three
      -- passes go by before the observation (the harness waits for them too)
      if c.form == "lstream" then syncTick r else r
    | none => r
  | none => r

/-- the server for `addr` goes away: its connections are shut down by their readers and the
    calls waiting on them fail with ErrShutdown (each marks its connection dead and closes it) -/
def kill (r0 : Run) (addr : Nat) : Run :=
  let r := syncTick r0
  let s := step r.s (.setUp addr false)
  let ids := (List.range s.nextId).filter fun id => match getPc s id with | some p => p.addr == addr && !p.dead | none => false
  let s := ids.foldl (fun s id => step s (.peerDies id)) s
  let failing := r.calls.filter fun c => !c.done && (match c.heldOn with | some id => ids.contains id | none => false)
  let s := failing.foldl (fun s c => match c.heldOn with | some id => step (step s (.stamp id)) (.fail id) | none => s) s
  { r with s := s, calls := r.calls.map fun c =>
      if !c.done && (match c.heldOn with | some id => ids.contains id | none => false) then { c with done := true, err := "shutdown", heldOn := none } else c }

/-- the server drops every connection of `addr` but stays reachable -/
def bounce (r0 : Run) (addr : Nat) : Run :=
  let r := syncTick r0
  let s := r.s
  let ids := (List.range s.nextId).filter fun id => match getPc s id with | some p => p.addr == addr && !p.dead | none => false
  let s := ids.foldl (fun s id => step s (.peerDies id)) s
  let failing := r.calls.filter fun c => !c.done && (match c.heldOn with | some id => ids.contains id | none => false)
  let s := failing.foldl (fun s c => match c.heldOn with | some id => step (step s (.stamp id)) (.fail id) | none => s) s
  { r with s := s, calls := r.calls.map fun c =>
      if !c.done && (match c.heldOn with | some id => ids.contains id | none => false) then { c with done := true, err := "shutdown", heldOn := none } else c }

/-- logical idle time: the housekeeping ticks of the phase, one every `tickPeriod` -/
def idleFor (r : Run) (d : Nat) : Run :=
  let n := d / tickPeriod
  let (s, clock) := (List.range n).foldl (fun (st : State × Nat) _ => (tick st.1 (st.2 + tickPeriod), st.2 + tickPeriod)) (r.s, r.clock)
  { r with s := s, clock := clock + d % tickPeriod }

def showIds (s : State) (ids : List Nat) : String :=
  ",".intercalate (ids.map fun id => toString id ++ (if isAlive s id then "" else "x"))

def insertA (x : Nat × String) : List (Nat × String) → List (Nat × String)
  | [] => [x]
  | y :: ys => if x.1 ≤ y.1 then x :: y :: ys else y :: insertA x ys

def obs (r : Run) : String :=
  let s := r.s
  let act := (s.active.foldl (fun acc e => insertA (e.1, addrName e.1 ++ ":" ++ showIds s e.2.1) acc) []).map (·.2)
  let idl := (s.idle.foldl (fun acc e => if e.2.isEmpty then acc else insertA (e.1, addrName e.1 ++ ":" ++ showIds s e.2) acc) []).map (·.2)
  let opn := ((List.range s.nextId).filter fun id => match getPc s id with | some p => p.isOpen | none => false).map toString
  let cs := (r.calls.foldl (fun acc c =>
      insertA (c.k, s!"{c.k}:{if c.done then c.err else "-"}:{match c.connId with | some id => toString id | none => "-1"}") acc) []).map (·.2)
  s!"obs active=[{" ".intercalate act}] idle=[{" ".intercalate idl}] open=[{",".intercalate opn}] dials={s.dials} calls=[{" ".intercalate cs}]"

def action (r : Run) (toks : List String) : Option Run :=
  match toks with
  | [form, a, k] =>
    match k.toNat? with
    | some k =>
      if form == "long" then some (doCall r k (addrOf a) "call" true)
      else if form == "lstream" then some (doCall r k (addrOf a) "lstream" true)
      else if form == "hookget" then some (hookGet r k (addrOf a))
      else if form == "callnb" then some (doCall r k (addrOf a) "call" false)
      else if form == "call" || form == "go" || form == "rt" || form == "ping" || form == "stream" then some (doCall r k (addrOf a) form false)
      else none
    | none => none
  | ["pair", a, b, k1, k2] =>
    -- two calls between the same two housekeeping passes: their connections carry the same stamp and
    -- go stale in the same pass
    match k1.toNat?, k2.toNat? with
    | some k1, some k2 => some (doCallAt (doCallAt (syncTick r) k1 (addrOf a) "call" false) k2 (addrOf b) "call" false)
    | _, _ => none
  | ["finish", k] => k.toNat?.map (finishCall r)
  | ["hookrel", k] => k.toNat?.map (hookRel r)
  | ["idle", "almost"] => some (idleFor r 210)
  | ["idle", "gap"] => some (idleFor r 250)
  | ["kill", a] => some (kill r (addrOf a))
  | ["bounce", a] => some (bounce r (addrOf a))
  | ["revive", a] => some { r with s := step r.s (.setUp (addrOf a) true) }
  | ["idle", "short"] => some (idleFor r 10)
  | ["idle", "medium"] => some (idleFor r 810)
  | ["idle", "long"] => some (idleFor r 3300)
  | ["closeidle"] => some { r with s := step r.s .closeIdle }
  | ["close"] =>
    -- Transport.Close also fails the calls outstanding on the connections it closes: their
    -- readers see the closed socket, the calls get ErrShutdown and mark the connection dead
    let wasOpen := fun (id : Nat) => match getPc r.s id with | some p => p.isOpen | none => false
    let s := step r.s .close
    let nowClosed := fun (id : Nat) => wasOpen id && (match getPc s id with | some p => !p.isOpen | none => false)
    let s := (List.range s.nextId).foldl (fun s id => if nowClosed id then step s (.peerDies id) else s) s
    let hit := fun (c : CallRec) => !c.done && (match c.heldOn with | some id => nowClosed id | none => false)
    let s := r.calls.foldl (fun s c => if hit c then (match c.heldOn with | some id => step (step s (.stamp id)) (.fail id) | none => s) else s) s
    some { r with s := s, calls := r.calls.map fun c => if hit c then { c with done := true, err := "shutdown", heldOn := none } else c }
  | ["holdclose"] => some r
  | ["relclose"] => some r
  | _ => none

def parseCfg (toks : List String) : Option Run :=
  match toks with
  | ["pool", mc, mi] =>
    match (mc.drop 9).toString.toInt?, (mi.drop 8).toString.toInt? with
    | some mc, some mi => some { s := init mc mi 360 1440 }
    | _, _ => none
  | _ => none

def poolStep (st : Option Run) (toks : List String) : Option Run × String :=
  match parseCfg toks with
  | some r => (some r, "ok")
  | none =>
    match st with
    | none => (none, "bad-op")
    | some r =>
      match action r toks with
      | some r' => (some r', if checkInv r'.s then obs r' else "INVARIANT-VIOLATED " ++ obs r')
      | none => (some r, "bad-op")

end RpcVerif.P
