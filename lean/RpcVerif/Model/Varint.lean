import RpcVerif.Model.Basic
/-
  Varints as written by codec.pb.go / codec.code.go (size from `code.SizeofVarint`, then the
  encode loop) and as read by `code.DecodeVarint` (unrolled, at most ten bytes, the tenth
  contributes `<< 63` whatever its continuation bit).
-/
namespace RpcVerif

/-- `code.SizeofVarint`: thresholds 2^7, 2^14, …, 2^63. -/
def sizeofVarint (v : Nat) : Nat :=
  if v < 2^7 then 1 else if v < 2^14 then 2 else if v < 2^21 then 3 else if v < 2^28 then 4
  else if v < 2^35 then 5 else if v < 2^42 then 6 else if v < 2^49 then 7 else if v < 2^56 then 8
  else if v < 2^63 then 9 else 10

/-- The encode loop: `size-1` bytes `byte(t)|0x80; t >>= 7`, then `byte(t)`. -/
def encodeLoop : Nat → Nat → Bytes
  | 0, _ => []
  | 1, t => [UInt8.ofNat t]
  | k+2, t => UInt8.ofNat (t % 128 + 128) :: encodeLoop (k+1) (t / 128)

/-- What the Go encoders write for `v`. -/
def encodeVarint (v : Nat) : Bytes := encodeLoop (sizeofVarint v) v

/-- The canonical LEB128 spelling (the documented format). -/
def putVarint (n : Nat) : Bytes :=
  if n < 128 then [UInt8.ofNat n] else UInt8.ofNat (n % 128 + 128) :: putVarint (n / 128)
termination_by n
decreasing_by omega

/-- `code.DecodeVarint` over the readable bytes `bs` (indexing past them panics: `none`).
    Returns the value and the number of bytes consumed. -/
def getVarintAux : Nat → Nat → Bytes → Option (Nat × Nat)
  | _, _, [] => none
  | 0, _, _ => none
  | k+1, shift, b :: bs =>
    let v := (b.toNat % 128) * 2 ^ shift
    if k = 0 then some (v % 2^64, 1)
    else if b.toNat < 128 then some (v, 1)
    else match getVarintAux k (shift+7) bs with
      | none => none
      | some (r, n) => some (v + r, n + 1)

def getVarint (bs : Bytes) : Option (Nat × Nat) := getVarintAux 10 0 bs

end RpcVerif
