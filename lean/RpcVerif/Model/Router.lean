import RpcVerif.Model.Basic
import RpcVerif.Generated.RouteFacts
/-
  R — the load-balancing Client (client.go: Update, director, wait, schedule, detect, check,
  checkPending, Close, Fallback, target.Update/Alive, minHeap/heapDown).
  Every method body that matters runs under Client.lock, so each is one atomic event; the
  detector's concurrent `check` goroutines are serialised by that lock (their order, and hence the
  order of the rebuilt live list, is a choice of the run). Cursor arithmetic and the heap's index
  arithmetic come from Generated/RouteFacts.lean.
-/
namespace RpcVerif.R
open RpcVerif

inductive Policy | rr | random | least
deriving DecidableEq, Repr

structure Target where
  addr : String
  alive : Bool := false
  latency : Int := Gen.clientLatency
deriving DecidableEq, Repr

structure State where
  policy : Policy
  targets : List Target := []      -- the current target map (addresses pairwise distinct)
  list : List String := []         -- Client.list (live targets)
  heap : List String := []         -- Client.minHeap
  last : List String := []         -- Client.last (sorted addresses the list was built from)
  pos : Nat := 0
  waiters : List Nat := []         -- Client.pending: parked callers
  closed : Bool := false
  fallback : Nat := 0
  probeDue : Bool := true          -- LeastTime: lastTime + Tick is in the past
  probeAlways : Bool := false      -- Tick = 0
  director : Option String := none
  up : String → Bool := fun _ => false   -- environment: the address accepts connections
  sent : List String := []         -- addresses handed to the Transport by user calls, in order
  released : List Nat := []        -- ghost: waiters that have been signalled, in order

def init (p : Policy) (probeAlways : Bool) : State := { policy := p, probeAlways := probeAlways }

def dedupAddrs : List String → List String
  | [] => []
  | a :: as => if a == "" || as.contains a then dedupAddrs as else a :: dedupAddrs as

/-- `Update(targets...)`: empty strings and duplicates ignored; every derived structure cleared. -/
def update (s : State) (ts : List String) : State :=
  { s with targets := (dedupAddrs ts.reverse).reverse.map (fun a => { addr := a }), list := [], heap := [], last := [] }

def getT (s : State) (a : String) : Option Target := s.targets.find? (·.addr == a)

def setT (s : State) (a : String) (f : Target → Target) : State :=
  { s with targets := s.targets.map fun t => if t.addr == a then f t else t }

def insertSorted (x : String) : List String → List String
  | [] => [x]
  | y :: ys => if x ≤ y then x :: y :: ys else y :: insertSorted x ys

def sortAddrs (l : List String) : List String := l.foldr insertSorted []

def aliveAddrs (s : State) : List String := (s.targets.filter (·.alive)).map (·.addr)

/-- `checkPending`: with a live target and no fallback in force, every parked caller is released. -/
def checkPending (s : State) : State :=
  if s.fallback == 0 && !s.list.isEmpty then { s with released := s.released ++ s.waiters, waiters := [] } else s

/-- `check(t)` under the lock, after the ping of `a` returned: set its liveness, rebuild the live
    list from the CURRENT map when the set of live addresses changed (in the order `order`, the
    map's iteration order — any permutation of the live addresses), release waiters. -/
def checkDone (s : State) (a : String) (pingOk : Bool) (order : List String) : Option State :=
  let s := setT s a fun t => { t with alive := pingOk }
  let s := { s with targets := s.targets.map fun t => if t.alive then t else { t with latency := Gen.clientLatency } }
  let live := aliveAddrs s
  if live.isEmpty then some { s with list := [], heap := [], last := [] }
  else
    let sorted := sortAddrs live
    if sorted == s.last then some (checkPending s)
    else if sortAddrs order == sorted then some (checkPending { s with last := sorted, list := order, heap := order, pos := 0 })
    else none

/-- heap sift-down over latencies (client.go heapDown), index arithmetic from the source -/
def latOf (s : State) (a : String) : Int := match getT s a with | some t => t.latency | none => Gen.clientLatency

def swap (h : List String) (i j : Nat) : List String :=
  match h[i]?, h[j]? with
  | some x, some y => (h.set i y).set j x
  | _, _ => h

def heapDown (s : State) : Nat → List String → Nat → List String
  | 0, h, _ => h
  | fuel + 1, h, parent =>
    let n := h.length
    let left := Gen.leftChild parent
    if left ≥ n then h else
    let right := left + 1
    let less := if right < n && latOf s (h.getD right "") < latOf s (h.getD left "") then right else left
    if !(latOf s (h.getD less "") < latOf s (h.getD parent "")) then h
    else heapDown s fuel (swap h parent less) less

def heapify (s : State) (h : List String) : List String :=
  (List.range (h.length / 2)).reverse.foldl (fun h i => heapDown s h.length h i) h

/-- `schedule()` with a non-empty live list. `choice` resolves RandomScheduling's `rand.Intn`.
    Returns the address and whether the caller gets the target back (for health feedback). -/
def schedule (s : State) (choice : Nat) : State × Option (String × Bool) :=
  match s.list with
  | [] => (s, none)
  | [a] => (s, some (a, false))
  | _ =>
    let n := s.list.length
    let rrPick := (s.list.getD s.pos "", { s with pos := Gen.cursorStep s.pos n })
    match s.policy with
    | .rr => (rrPick.2, some (rrPick.1, true))
    | .random => (s, some (s.list.getD (choice % n) "", true))
    | .least =>
      if s.probeAlways || s.probeDue then ({ rrPick.2 with probeDue := false }, some (rrPick.1, true))
      else
        let h := heapify s s.heap
        ({ s with heap := h }, some (h.getD 0 "", true))

inductive Ev
  | update (ts : List String)
  | setUp (a : String) (b : Bool)
  | checkDone (a : String) (order : List String)   -- ping outcome is `up a`
  | detect                                          -- detect()'s own checkPending
  | route (k : Nat) (choice : Nat)                  -- a caller finds a live list (or Director / closed)
  | park (k : Nat)
  | timeout (k : Nat)
  | report (a : String) (dial : Bool)               -- target.Update / Alive after a call
  | close
  | fallbackBegin | fallbackEnd
  | setDirector (a : Option String)
  | setLatency (a : String) (v : Int)
  | tickElapsed                                     -- LeastTime: a probe is due again

/-- what `director()` decides without waiting: `none` = must park -/
inductive Routed | shutdown | addr (a : String) (feedback : Bool) | mustWait
deriving DecidableEq, Repr

def routeNow (s : State) (choice : Nat) : State × Routed :=
  if s.closed then (s, .shutdown)
  else if s.fallback > 0 then (s, .mustWait)
  else match s.director with
    | some a => if a != "" then (s, .addr a false) else
        (match schedule s choice with | (s', some (a, fb)) => (s', .addr a fb) | (s', none) => (s', .mustWait))
    | none => match schedule s choice with | (s', some (a, fb)) => (s', .addr a fb) | (s', none) => (s', .mustWait)

def step (s : State) : Ev → Option State
  | .update ts => some (update s ts)
  | .setUp a b => some { s with up := fun x => if x == a then b else s.up x }
  | .checkDone a order =>
    match getT s a with
    | some _ => checkDone s a (s.up a) order
    | none => none
  | .detect => some (checkPending s)
  | .route _ choice =>
    match routeNow s choice with
    | (s', .addr a _) => some { s' with sent := s'.sent ++ [a] }
    | (s', .shutdown) => some s'
    | (_, .mustWait) => none
  | .park k =>
    if s.closed then some { s with released := s.released ++ [k] }   -- wait(): released at once
    else some { s with waiters := s.waiters ++ [k] }
  | .timeout k => if s.waiters.contains k then some { s with waiters := s.waiters.filter (· != k) } else none
  | .report a dial =>
    some (setT s a fun t => if dial then { t with alive := false, latency := Gen.clientLatency } else { t with alive := true })
  | .close =>
    if s.closed then some s
    else some { s with closed := true, released := s.released ++ s.waiters, waiters := [] }
  | .fallbackBegin => some { s with fallback := s.fallback + 1 }
  | .fallbackEnd => if s.fallback > 0 then some { s with fallback := s.fallback - 1 } else none
  | .setDirector a => some { s with director := a }
  | .setLatency a v => some (setT s a fun t => { t with latency := v })
  | .tickElapsed => some { s with probeDue := true }

def run (s : State) : List Ev → Option State
  | [] => some s
  | e :: es => (step s e).bind (run · es)

end RpcVerif.R
