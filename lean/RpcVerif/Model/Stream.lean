import RpcVerif.Model.Basic
import RpcVerif.Generated.StreamFacts
/-
  T — the stream layer of one connection, both ends and the two byte streams between them
  (stream.go; conn.go: NewStream, closeStream, send (stream branches), read (stream branches),
  recv teardown; server.go: ServeRequest (openStream / closeStream / streaming), callService
  (openStream / streaming), ServeCodec teardown; codec_server.go: WriteResponse).

  The two directions of the connection are FIFO lists of frames; a frame is delivered when the
  reader of the other end takes it (`cRecv`, `sRecv`). Unary traffic shares the sequence counter
  and the wires (`other` frames). Message payloads are numbers ≥ 1; 0 is "empty" (what a frame
  without a body decodes to).

  Threads: client application (open/write/read/close), client reader, client decode worker
  (absent with direct I/O), client stream worker (readStream, absent with direct I/O); server
  reader, server decode worker, server stream worker, one handler per stream.
-/
namespace RpcVerif.T
open RpcVerif

inductive FKind
  | open                 -- c→s: stream open request
  | ack                  -- s→c: acknowledgement of an open / of a close (a response without error)
  | msg (m : Nat)        -- either direction: a stream message
  | close                -- c→s: stream close request
  | other                -- a unary request / its response
deriving DecidableEq, Repr

structure Frame where
  seq : Nat
  kind : FKind
deriving DecidableEq, Repr

inductive Phase | opening | streaming
deriving DecidableEq, Repr

/-- what `conn.pending[seq]` holds for a stream's sequence number -/
inductive Pend | none | openCall | closeCall
deriving DecidableEq, Repr

/-- one end of a stream (stream.go: stream) with the ghost history of what its user saw -/
structure End where
  closed : Bool := false         -- stream.closed (stop())
  events : List Nat := []        -- stream.events
  waiting : Bool := false        -- a ReadMessage is parked in cond.Wait
  delivered : List Nat := []     -- ghost: values returned by ReadMessage, in order
  readErrs : Nat := 0            -- ghost: ReadMessage calls that returned ErrStreamShutdown
  written : List Nat := []       -- ghost: values whose frame was handed to the connection
  writeErrs : Nat := 0           -- ghost: WriteMessage calls that returned an error
deriving DecidableEq, Repr

structure CStream where
  seq : Nat
  phase : Phase := .opening      -- call.upgrade.Stream of the opening call
  pend : Pend := .openCall       -- conn.pending[seq]
  inStreams : Bool := true       -- conn.streams[seq]
  opened : Bool := false         -- NewStream has returned the stream to the application
  failed : Bool := false         -- NewStream has returned an error instead (the connection ended first)
  closeCalled : Bool := false    -- Close() was called
  closeDone : Bool := false      -- Close() returned
  e : End := {}
deriving DecidableEq, Repr

structure SStream where
  seq : Nat
  inTable : Bool := true         -- the connection's streams map holds it
  acked : Bool := false          -- the open acknowledgement was handed to the codec
  started : Bool := false        -- the handler goroutine was started
  exited : Bool := false         -- the handler returned
  e : End := {}
deriving DecidableEq, Repr

structure Cfg where
  cDirect : Bool
  sDirect : Bool
deriving DecidableEq, Repr

structure State where
  cfg : Cfg
  c2s : List Frame := []
  s2c : List Frame := []
  cut : Bool := false             -- the connection is gone: nothing written from now on arrives
  -- client
  nextSeq : Nat := 0
  cs : List CStream := []
  ucalls : List (Nat × Bool) := [] -- unary calls (seq, completed)
  cDecodeQ : List Frame := []
  cStreamQ : List (Nat × Nat) := [] -- readStream tasks: (seq, value)
  cShutdown : Bool := false
  -- server
  ss : List SStream := []
  sDecodeQ : List Frame := []
  sStreamQ : List (Nat × Nat) := []
  sEnded : Bool := false          -- the server reader has seen the end of the connection
  sTornDown : Bool := false       -- ServeCodec's teardown has run
  pushPlan : List Nat := []       -- driver only: i-th stream opened: messages its handler pushes the moment it starts
  pushedUpTo : Nat := 0           -- driver only: server streams whose initial pushes have been performed
deriving Repr

def init (cfg : Cfg) : State := { cfg := cfg }

/-! ### one end of a stream -/

/-- `trigger`: append the event; a parked reader takes it at once (cond.Signal) unless the stream
    was stopped meanwhile (then the reader returns ErrStreamShutdown and the event stays). -/
def End.trigger (e : End) (v : Nat) : End :=
  if e.waiting && !e.closed then { e with waiting := false, delivered := e.delivered ++ [v] }
  else { e with events := e.events ++ [v] }

/-- `stop()`: set the flag and wake the parked reader, who returns ErrStreamShutdown. -/
def End.stop (e : End) : End :=
  if e.waiting && Gen.streamStopSetsFlagAndBroadcasts then { e with closed := true, waiting := false, readErrs := e.readErrs + 1 }
  else { e with closed := true }

/-- `ReadMessage`: a stopped stream refuses; otherwise the oldest event, or park. -/
def End.read (e : End) : Option End :=
  if e.waiting then none                                      -- one reader at a time (scripts; see DESIGN)
  else if e.closed then some { e with readErrs := e.readErrs + 1 }
  else match e.events with
    | v :: rest => some { e with events := rest, delivered := e.delivered ++ [v] }
    | [] => some { e with waiting := true }

/-! ### lookups -/

def getC (s : State) (q : Nat) : Option CStream := s.cs.find? (·.seq == q)
def setC (s : State) (q : Nat) (f : CStream → CStream) : State :=
  { s with cs := s.cs.map fun c => if c.seq == q then f c else c }
def getS (s : State) (q : Nat) : Option SStream := s.ss.find? (·.seq == q)
def setS (s : State) (q : Nat) (f : SStream → SStream) : State :=
  { s with ss := s.ss.map fun c => if c.seq == q then f c else c }

def sendC (s : State) (f : Frame) : State := if s.cut then s else { s with c2s := s.c2s ++ [f] }
def sendS (s : State) (f : Frame) : State := if s.cut || s.sTornDown then s else { s with s2c := s.s2c ++ [f] }

/-! ### client -/

/-- the value a frame carries when it is taken for a stream message -/
def FKind.value : FKind → Nat
  | .msg m => m
  | _ => 0

/-- `call.streaming()` for the stream with sequence number q -/
def cTrigger (s : State) (q v : Nat) : State :=
  setC s q fun c => if c.phase == .streaming then { c with e := c.e.trigger v } else c

/-- `(*Conn).read` for one frame (after a successful header decode) -/
def cProcess (s : State) (f : Frame) : State :=
  if s.cShutdown then s else
  match getC s f.seq with
  | some c =>
    match c.pend with
    | .none => s                                               -- no pending call: dropped
    | .closeCall =>
      -- whatever arrives under the sequence number completes the close call
      setC s f.seq fun c => { c with pend := .none, inStreams := false, closeDone := true }
    | .openCall =>
      match c.phase with
      | .opening =>
        -- the first frame under an opening call is its acknowledgement, whatever it carries
        if Gen.streamReaderFlipsPhase then setC s f.seq fun c => { c with phase := .streaming, opened := true }
        else setC s f.seq fun c => { c with opened := true }
      | .streaming =>
        if s.cfg.cDirect then cTrigger s f.seq f.kind.value
        else { s with cStreamQ := s.cStreamQ ++ [(f.seq, f.kind.value)] }
  | none =>
    -- a unary response
    { s with ucalls := s.ucalls.map fun u => if u.1 == f.seq then (u.1, true) else u }

/-- what the reader's final sweep does to one stream: whatever is pending under its sequence
    number is failed (an open still waiting for its acknowledgement makes NewStream return an
    error; a close call returns), and a registered stream is stopped -/
def sweepC (c : CStream) : CStream :=
  let failedNow := c.pend == Pend.openCall && !c.opened
  let closedNow := c.pend == Pend.closeCall
  let c1 : CStream := if c.pend != Pend.none then { c with pend := Pend.none, failed := c.failed || failedNow, closeDone := c.closeDone || closedNow } else c
  if c1.inStreams then { c1 with inStreams := false, e := if Gen.streamClientTeardownStopsStreams then c1.e.stop else c1.e } else c1

/-- the reader's teardown after the end of the stream of frames -/
def cTeardown (s : State) : State :=
  let s := s.cDecodeQ.foldl cProcess { s with cDecodeQ := [] }   -- closeQueue(pipeline)
  let s := { s with cShutdown := true, ucalls := s.ucalls.map (fun (u : Nat × Bool) => (u.1, true)), cs := s.cs.map sweepC }
  -- readStream.Close(): queued stream tasks still run
  s.cStreamQ.foldl (fun (s : State) (t : Nat × Nat) => cTrigger s t.1 t.2) { s with cStreamQ := [] }

/-! ### server -/

/-- ServeRequest for one decoded frame -/
def sProcess (s : State) (f : Frame) : State :=
  match f.kind with
  | .open =>
    let s := if (getS s f.seq).isNone then { s with ss := s.ss ++ [{ seq := f.seq }] } else s
    if Gen.streamAckBeforeHandler then
      setS (sendS s { seq := f.seq, kind := .ack }) f.seq fun t => { t with acked := true, started := true }
    else setS s f.seq fun t => { t with started := true }       -- the acknowledgement follows (`sAck`)
  | .close =>
    let s := setS s f.seq fun t => if t.inTable then { t with inTable := false, e := if Gen.streamCloseRequestClosesServerStream then t.e.stop else t.e } else t
    sendS s { seq := f.seq, kind := .ack }
  | .msg m =>
    match getS s f.seq with
    | some t =>
      if !t.inTable then s
      else if s.cfg.sDirect then setS s f.seq fun t => { t with e := t.e.trigger m }
      else { s with sStreamQ := s.sStreamQ ++ [(f.seq, m)] }
    | none => s
  | .other => sendS s { seq := f.seq, kind := .other }          -- a unary handler answers
  | .ack => s

def sTeardown (s : State) : State :=
  let s := s.sDecodeQ.foldl sProcess { s with sDecodeQ := [] }   -- closeQueue(pipeline)
  let s := s.sStreamQ.foldl (fun s t => setS s t.1 fun x => { x with e := x.e.trigger t.2 }) { s with sStreamQ := [] }  -- wg.Wait
  { s with sTornDown := true,
           ss := s.ss.map fun t => if t.inTable && Gen.streamServerTeardownClosesStreams then { t with e := t.e.stop } else t }

/-! ### events -/

inductive Ev
  -- client application
  | cOpen                       -- NewStream: register, write the open request
  | cOpenedLate (q : Nat)       -- only when the reader does not flip the phase: NewStream does, after Done
  | cWrite (q m : Nat)
  | cRead (q : Nat)
  | cClose (q : Nat)
  | cCall                       -- a unary call
  -- client threads
  | cRecv                       -- the reader takes the next frame
  | cDecode                     -- the decode worker processes a frame
  | cStreamRun                  -- the stream worker hands a message to its stream
  | cEof                        -- the reader sees the end of the connection and tears down
  -- server threads
  | sRecv
  | sDecode
  | sStreamRun
  | sAck (q : Nat)              -- only when the handler is started before the acknowledgement
  | sEof
  -- handlers
  | sWrite (q m : Nat)
  | sRead (q : Nat)
  | sExit (q : Nat)
  -- the network
  | cutLink (kc ks : Nat)       -- the connection is lost: only the first kc / ks frames in flight still arrive
deriving DecidableEq, Repr

def step (s : State) : Ev → Option State
  | .cOpen =>
    if s.cShutdown then none else
    let q := s.nextSeq
    some (sendC { s with nextSeq := q + 1, cs := s.cs ++ [{ seq := q }] } { seq := q, kind := .open })
  | .cOpenedLate q =>
    if Gen.streamReaderFlipsPhase then none else
    match getC s q with
    | some c => if c.opened && c.phase == .opening then some (setC s q fun c => { c with phase := .streaming }) else none
    | none => none
  | .cWrite q m =>
    match getC s q with
    | some c =>
      if !c.opened || m == 0 then none
      else if c.e.closed then some (setC s q fun c => { c with e := { c.e with writeErrs := c.e.writeErrs + 1 } })
      else if s.cShutdown then none       -- cannot happen: teardown stops every stream
      else some (setC (sendC s { seq := q, kind := .msg m }) q fun c => { c with e := { c.e with written := c.e.written ++ [m] } })
    | none => none
  | .cRead q =>
    match getC s q with
    | some c => if !c.opened then none else (c.e.read).map fun e => setC s q fun c => { c with e := e }
    | none => none
  | .cClose q =>
    match getC s q with
    | some c =>
      if !c.opened || c.closeCalled then none else
      let s := setC s q fun c => { c with closeCalled := true, e := if Gen.streamCloseStopsBeforeHandshake then c.e.stop else c.e }
      if s.cShutdown then some (setC s q fun c => { c with closeDone := true })     -- send refuses: ErrShutdown
      else some (sendC (setC s q fun c => { c with pend := .closeCall }) { seq := q, kind := .close })
    | none => none
  | .cCall =>
    if s.cShutdown then none else
    some (sendC { s with nextSeq := s.nextSeq + 1, ucalls := s.ucalls ++ [(s.nextSeq, false)] } { seq := s.nextSeq, kind := .other })
  | .cRecv =>
    if s.cShutdown then none else
    match s.s2c with
    | f :: rest =>
      let s := { s with s2c := rest }
      if s.cfg.cDirect then some (cProcess s f) else some { s with cDecodeQ := s.cDecodeQ ++ [f] }
    | [] => none
  | .cDecode =>
    match s.cDecodeQ with
    | f :: rest => some (cProcess { s with cDecodeQ := rest } f)
    | [] => none
  | .cStreamRun =>
    match s.cStreamQ with
    | t :: rest => some (cTrigger { s with cStreamQ := rest } t.1 t.2)
    | [] => none
  | .cEof => if s.cShutdown || !s.cut || !s.s2c.isEmpty then none else some (cTeardown s)
  | .sRecv =>
    if s.sEnded then none else
    match s.c2s with
    | f :: rest =>
      let s := { s with c2s := rest }
      if s.cfg.sDirect then some (sProcess s f) else some { s with sDecodeQ := s.sDecodeQ ++ [f] }
    | [] => none
  | .sDecode =>
    match s.sDecodeQ with
    | f :: rest => some (sProcess { s with sDecodeQ := rest } f)
    | [] => none
  | .sStreamRun =>
    match s.sStreamQ with
    | t :: rest => some (setS { s with sStreamQ := rest } t.1 fun x => { x with e := x.e.trigger t.2 })
    | [] => none
  | .sAck q =>
    match getS s q with
    | some t => if t.acked then none else some (setS (sendS s { seq := q, kind := .ack }) q fun t => { t with acked := true })
    | none => none
  | .sEof => if s.sEnded || !s.cut || !s.c2s.isEmpty then none else some (sTeardown { s with sEnded := true })
  | .sWrite q m =>
    match getS s q with
    | some t =>
      if !t.started || t.exited || m == 0 then none
      else if t.e.closed || s.sTornDown then some (setS s q fun t => { t with e := { t.e with writeErrs := t.e.writeErrs + 1 } })
      else some (setS (sendS s { seq := q, kind := .msg m }) q fun t => { t with e := { t.e with written := t.e.written ++ [m] } })
    | none => none
  | .sRead q =>
    match getS s q with
    | some t => if !t.started || t.exited then none else (t.e.read).map fun e => setS s q fun t => { t with e := e }
    | none => none
  | .sExit q =>
    match getS s q with
    | some t => if !t.started || t.exited || t.e.waiting then none else some (setS s q fun t => { t with exited := true })
    | none => none
  | .cutLink kc ks => if s.cut then none else some { s with cut := true, c2s := s.c2s.take kc, s2c := s.s2c.take ks }

inductive Accepts : State → List Ev → State → Prop
  | nil (s : State) : Accepts s [] s
  | cons {s s' s'' : State} {e : Ev} {es : List Ev} :
      step s e = some s' → Accepts s' es s'' → Accepts s (e :: es) s''

def runTrace (s : State) : List Ev → Option State
  | [] => some s
  | e :: es => (step s e).bind (runTrace · es)

end RpcVerif.T
