import RpcVerif.Model.Basic
import RpcVerif.Model.Wire
import RpcVerif.Generated.ServerFacts
/-
  S — one server connection (server.go: ServeCodec, ServeRequest, readRequestHeader,
  handleRequest, readRequestBody, callService, sendResponse; codec_server.go: WriteResponse),
  for unary requests, pings and arbitrary upgrade bytes. Streams are a separate layer.

  Threads: the reader, the decode worker (absent with direct I/O), the execution worker (FIFO with
  pipelining, concurrent tasks otherwise), the handler of each job (user code, gated) and the
  teardown performed by the reader after its loop.
-/
namespace RpcVerif.S
open RpcVerif

inductive Method | unary | ctx | ret | retCtx | unknown
deriving DecidableEq, Repr

def Method.known : Method → Bool
  | .unknown => false
  | _ => true

def Method.returnsOut : Method → Bool
  | .ret | .retCtx => true
  | _ => false

/-- A request frame as the peer sent it. `seq` doubles as the script's request id. -/
structure Req where
  seq : Nat
  up : UInt8 := 0          -- the upgrade byte (0 = none)
  method : Method := .unary
  badArgs : Bool := false  -- the body codec cannot decode the argument bytes
  hold : Bool := false     -- the handler parks at its gate
  junk : Bool := false     -- the header does not decode
  hasArgs : Bool := true   -- argument bytes present in the frame
deriving DecidableEq, Repr

inductive Verdict | ok | err (n : Nat) | badReply
deriving DecidableEq, Repr

inductive RespErr | none | text (k n : Nat) | nosvc | badargs | badreply | nostream | noargs
deriving DecidableEq, Repr

/-- what the reply field of a response carries: the handler's result for this request's own
    arguments, nothing, or an echo of the request's argument bytes (error / NoResponse path) -/
inductive ReplyKind | own | empty | echo
deriving DecidableEq, Repr

structure Resp where
  seq : Nat
  err : RespErr
  reply : ReplyKind
deriving DecidableEq, Repr

inductive JobPhase | queued | entered | left
deriving DecidableEq, Repr

structure Job where
  req : Req
  phase : JobPhase := .queued
  verdict : Option Verdict := none
  ran : Bool := false            -- its handler was entered
deriving DecidableEq, Repr

inductive Reader | waiting | decoding (r : Req) | ended | drained | waited | served
deriving DecidableEq, Repr

structure Cfg where
  directIO : Bool
  pipe : Bool
deriving DecidableEq, Repr

structure State where
  cfg : Cfg
  reader : Reader := .waiting
  decodeQ : List Req := []
  jobs : List Job := []          -- dispatched jobs in dispatch order (pipelining: execution order)
  wg : Nat := 0                  -- the connection's WaitGroup counter
  codecClosed : Bool := false
  resps : List Resp := []        -- responses in the order they were written
  execs : List Nat := []         -- request ids in the order their handlers were entered
  reqs : List Req := []          -- every request fed (ghost)
  crashed : Option String := none -- a run-time panic has killed the process
deriving Repr

def init (cfg : Cfg) : State := { cfg := cfg }

def flags (r : Req) : Wire.Upgrade := if r.up == 0 then {} else Wire.Upgrade.unpack r.up

/-- `serverCodec.WriteResponse` as seen on the wire, for request `r` answered with error `e`
    (`.none` = success) and, on success, a reply of kind `own`. -/
def respond (s : State) (r : Req) (e : RespErr) (ownReply : Bool) : State :=
  if s.codecClosed then s else
  let u := flags r
  let hasResponse := e == .none && u.noResponse != Gen.noResponse
  let reply : ReplyKind :=
    if hasResponse then (if ownReply then .own else .empty)
    else if r.hasArgs then .echo else .empty
  { s with resps := s.resps ++ [{ seq := r.seq, err := e, reply := reply }] }

/-- The dispatch decision of `ServeRequest` after a successful header decode. -/
inductive Dispatch | ping | openStream | closeStream | streamMsg | job
deriving DecidableEq, Repr

def dispatch (r : Req) : Dispatch :=
  let u := flags r
  if u.heartbeat == Gen.heartbeat then .ping
  else if u.stream == Gen.openStream then .openStream
  else if u.stream == Gen.closeStream then .closeStream
  else if u.stream == Gen.streaming then .streamMsg
  else .job

/-- `ServeRequest(ctx)` for one frame (stream traffic is answered as the code does when no
    such stream exists: open on a non-stream method → error response; close → response;
    message → dropped). -/
def crash (s : State) (why : String) : State := { s with crashed := some why }

/-- `sendResponse` for a request that has no reply object (ping, close-stream, stream open that
    fell through): `ctx.reply.Interface()` on the zero Value panics unless guarded. -/
def respondNoReply (s : State) (r : Req) : State :=
  if !Gen.sendGuardsZeroReply && (flags r).noResponse != Gen.noResponse then crash s "reflect: Interface on zero Value (sendResponse)"
  else respond s r .none false

def serveRequest (s : State) (r : Req) : State :=
  if r.junk || s.codecClosed then s else
  match dispatch r with
  | .ping => respondNoReply s r
  | .openStream =>
    -- no stream method is registered under these names: unknown method → error; a unary method →
    -- error if the SetStream assertion is checked, else the handler is started with the wrong
    -- arguments (its error is ignored) and sendResponse runs without a reply object
    if !r.method.known then respond s r .nostream false
    else if Gen.openChecksSetStream then respond s r .nostream false
    else respondNoReply s r
  | .closeStream => respondNoReply s r
  | .streamMsg => s
  | .job =>
    if s.reader == .waited || s.reader == .served then crash s "sync: WaitGroup is reused before previous Wait has returned"
    else { s with wg := s.wg + 1, jobs := s.jobs ++ [{ req := r }] }

def getJob (s : State) (k : Nat) : Option Job := s.jobs.find? (·.req.seq == k)

def updJob (s : State) (k : Nat) (f : Job → Job) : State :=
  { s with jobs := s.jobs.map fun j => if j.req.seq == k then f j else j }

/-- pipelining: only the oldest job that has not left may run -/
def jobTurn (s : State) (k : Nat) : Bool :=
  if s.cfg.pipe then (s.jobs.find? (·.phase != .left)).map (·.req.seq) == some k else true

inductive Ev
  | feed (r : Req)
  | eof
  | hret (k : Nat) (v : Verdict)
  | decode
  | enter (k : Nat)     -- handleRequest up to the handler's entry (or its early error response)
  | leave (k : Nat)     -- the handler returns; sendResponse; wg.Done
  | drain               -- teardown: closeQueue(pipeline)
  | wait                -- teardown: wg.Wait returns
  | closeCodec          -- teardown: codec.Close and the rest
deriving DecidableEq, Repr

def stepCore (s : State) : Ev → Option State
  | .feed r =>
    if s.reader != .waiting then none else
    let s := { s with reqs := s.reqs ++ [r] }
    if s.cfg.directIO then some { s with reader := .decoding r } else some { s with decodeQ := s.decodeQ ++ [r] }
  | .eof => if s.reader != .waiting then none else some { s with reader := .ended }
  | .decode =>
    if s.cfg.directIO then
      match s.reader with
      | .decoding r => some { (serveRequest s r) with reader := .waiting }
      | _ => none
    else
      match s.decodeQ with
      | r :: rest => some (serveRequest { s with decodeQ := rest } r)
      | [] => none
  | .enter k =>
    match getJob s k with
    | some j =>
      if j.phase != .queued || !jobTurn s k then none else
      let r := j.req
      if !Gen.serverLooksUpAlways && (flags r).noRequest == Gen.noRequest then
        some (crash s "nil pointer dereference: ctx.f (readRequestBody/callService)")
      else if !r.method.known then
        some { (respond (updJob s k fun j => { j with phase := .left }) r .nosvc false) with wg := s.wg - 1 }
      else if (flags r).noRequest != Gen.noRequest && r.badArgs then
        some { (respond (updJob s k fun j => { j with phase := .left }) r .badargs false) with wg := s.wg - 1 }
      else if !Gen.replyAllocatedAlways && (flags r).noResponse == Gen.noResponse && !r.method.returnsOut then
        some (crash s "reflect: Call using zero Value argument (callService)")
      else
        some { (updJob s k fun j => { j with phase := .entered, ran := true }) with execs := s.execs ++ [k] }
    | none => none
  | .hret k v =>
    match getJob s k with
    | some j => if j.phase == .entered && j.req.hold && j.verdict.isNone then some (updJob s k fun j => { j with verdict := some v }) else none
    | none => none
  | .leave k =>
    match getJob s k with
    | some j =>
      if j.phase != .entered then none else
      if j.req.hold && j.verdict.isNone then none else
      let v := j.verdict.getD .ok
      let s := updJob s k fun j => { j with phase := .left }
      let s := match v with
        | .ok => respond s j.req .none true
        | .err n => respond s j.req (.text k n) false
        | .badReply =>
          -- the reply cannot be encoded: WriteResponse turns that into the response's error
          -- (and sends no reply bytes); with NoResponse the reply is never encoded at all
          if (flags j.req).noResponse != Gen.noResponse then
            (if s.codecClosed then s else { s with resps := s.resps ++ [({ seq := j.req.seq, err := .badreply, reply := .empty } : Resp)] })
          else respond s j.req .none true
      some { s with wg := s.wg - 1 }
    | none => none
  | .drain => if s.reader == .ended && s.decodeQ.isEmpty then some { s with reader := .drained } else none
  | .wait =>
    if (s.reader == .drained || (!Gen.teardownDrainsFirst && s.reader == .ended)) && s.wg == 0 then some { s with reader := .waited } else none
  | .closeCodec => if s.reader == .waited then some { s with reader := .served, codecClosed := true } else none

/-- a crashed process takes no further step -/
def step (s : State) (e : Ev) : Option State := if s.crashed.isSome then none else stepCore s e

inductive Accepts : State → List Ev → State → Prop
  | nil (s : State) : Accepts s [] s
  | cons {s s' s'' : State} {e : Ev} {es : List Ev} :
      step s e = some s' → Accepts s' es s'' → Accepts s (e :: es) s''

end RpcVerif.S
