import RpcVerif.Model.Basic
import RpcVerif.Model.Wire
/-
  K — the client connection automaton (conn.go: send, recv, read, finishCall, complete,
  closeQueue, Close, Call/Go/RoundTrip/CallWithContext/Ping).

  Threads are explicit: one sender per call (or the single FIFO send worker with pipelining),
  the reader, the decode worker (absent with direct I/O: the reader decodes inline), the
  completion worker (FIFO with pipelining, a bag of concurrent tasks otherwise, inline with
  direct I/O) and one caller per blocking call. `step` is one atomic step of one thread
  (a critical section of conn.mutex plus the lock-free code that only touches what that
  section handed to the thread, or a gate crossing). Nondeterminism = which thread moves and
  what the environment (script) feeds. Theorems quantify over every sequence of events.
-/
namespace RpcVerif.K
open RpcVerif

inductive Err
  | shutdown | rfail | wfail | encfail | canceled
  | text (k n : Nat)
deriving DecidableEq, Repr

inductive Form | go | rt | call | ctx | ping
deriving DecidableEq, Repr

def Form.async : Form → Bool
  | .go | .rt => true
  | _ => false

inductive RespKind | ok | empty | err (n : Nat) | shutdownMsg
deriving DecidableEq, Repr

/-- A response frame as the peer sent it. `src` is the call it was built for (its body is
    `H(args src)`), `seq` the sequence number in its header. `junk` = undecodable. -/
structure Frame where
  seq : Nat
  src : Nat
  kind : RespKind
  junk : Bool := false
deriving DecidableEq, Repr

/-- Where the sender of a call is. -/
inductive Phase
  | new                 -- send not yet run (queued behind the send worker, or about to lock)
  | atWrite             -- registered; inside WriteRequest, parked at the write gate
  | wfailed (e : Err)   -- WriteRequest returned e; about to run the error path's critical section
  | failing (reg : Bool) (e : Err) -- after that section; completes the call iff `reg`
  | sent                -- send returned
deriving DecidableEq, Repr

structure Call where
  k : Nat
  form : Form
  replyLen : Nat := 0
  holdW : Bool := false
  holdB : Bool := false
  failEnc : Bool := false
  ctxCap : Nat := 0
  phase : Phase := .new
  seq : Option Nat := none
  signals : Nat := 0            -- sends on Done performed by the library
  errHist : List Err := []      -- every write to Call.Error, oldest first
  replyFrom : Option (Nat × RespKind) := none   -- whose response was decoded into Reply
  replyWrites : Nat := 0
  returned : Bool := false      -- blocking form: the API call has returned
  retErr : Option Err := none
  goReturned : Bool := false    -- Go/RoundTrip returned to its caller
deriving DecidableEq, Repr

/-- A completion task. -/
inductive Task
  | fin (k : Nat) (f : Frame)   -- finishCall(ctx, call, seq)
  | done (k : Nat)              -- call.done() routed through complete()
deriving DecidableEq, Repr

inductive Reader
  | waiting                       -- blocked in ReadMessage
  | decoding (f : Frame)          -- direct I/O: inside read(ctx) for f
  | finishing (k : Nat) (f : Frame) -- direct I/O without pipelining: inside finishCall
  | ended (e : Err)               -- ReadMessage returned an error; before the sweep
  | swept                         -- sweep done; closing the send queue
  | wclosed                       -- send queue closed; closing the completion queue
  | exited
deriving DecidableEq, Repr

structure Cfg where
  directIO : Bool
  pipe : Bool
deriving DecidableEq, Repr

structure State where
  cfg : Cfg
  seq : Nat := 0
  pending : List (Nat × Nat) := []     -- (sequence number, call)
  closing : Bool := false
  shutdown : Bool := false
  msgsClosed : Bool := false           -- the socket was closed locally
  calls : Nat → Option Call := fun _ => none   -- call records by script id
  ids : List Nat := []                 -- ids in start order
  sendQ : List Nat := []               -- pipelining: FIFO of calls whose send has not finished; head is running
  reader : Reader := .waiting
  decodeQ : List Frame := []           -- frames queued for the decode worker (head is next)
  finQ : List Task := []               -- pipelining: FIFO completion queue (head is running)
  finBag : List Task := []             -- no pipelining, no direct I/O: concurrent completion tasks
  writes : List (Nat × Nat × UInt8) := []  -- wire log: (call, seq, upgrade byte or 0)
  arrivals : List Nat := []            -- order of signals of Go/RoundTrip calls (shared Done channel)
  closeRet : List (Option Err) := []
  lastResp : List (Nat × Frame) := []
  unk : Nat := 0
  -- ghost history (never read by `step`'s guards; only for stating theorems)
  fed : List Frame := []               -- every frame ReadMessage returned, oldest first
  handed : List Nat := []              -- async calls in the order their completion was determined
  arrCanon : List Nat := []            -- driver only: arrivals with the completions of one action sorted (no pipelining: their order is a race)
  decHeld : Bool := false               -- driver only: the decode worker is parked at the harness gate `dec`
  badBody : List Nat := []              -- driver only: calls whose reply body the body codec will refuse to decode
  invOk : Bool := true                 -- driver only: the run-time invariant check never failed on the way here

def init (cfg : Cfg) : State := { cfg := cfg }

/-! ### small helpers -/

def getCall (s : State) (k : Nat) : Option Call := s.calls k

def updCall (s : State) (k : Nat) (f : Call → Call) : State :=
  { s with calls := fun j => if j = k then (s.calls k).map f else s.calls j }

def lookup (p : List (Nat × Nat)) (q : Nat) : Option Nat := (p.find? (·.1 == q)).map (·.2)

def erase (p : List (Nat × Nat)) (q : Nat) : List (Nat × Nat) := p.filter (·.1 != q)

def lastErr (c : Call) : Option Err := c.errHist.getLast?

/-- `call.done()`: one more send on the Done channel. -/
def signal (s : State) (k : Nat) : State :=
  let s := updCall s k fun c => { c with signals := c.signals + 1 }
  match getCall s k with
  | some c => if c.form.async then { s with arrivals := s.arrivals ++ [k] } else s
  | none => s

def setErr (s : State) (k : Nat) (e : Err) : State :=
  updCall s k fun c => { c with errHist := c.errHist ++ [e] }

/-- ghost: the completion of `k` has just been determined. -/
def hand (s : State) (k : Nat) : State :=
  match getCall s k with
  | some c => if c.form.async then { s with handed := s.handed ++ [k] } else s
  | none => s

/-- `conn.complete(call)`: through the ordered completion queue with pipelining, inline otherwise. -/
def complete (s : State) (k : Nat) : State :=
  let s := hand s k
  if s.cfg.pipe then { s with finQ := s.finQ ++ [.done k] } else signal s k

/-- insertion sort of pending by sequence number (the sweep's order). -/
def insertBySeq (x : Nat × Nat) : List (Nat × Nat) → List (Nat × Nat)
  | [] => [x]
  | y :: ys => if x.1 ≤ y.1 then x :: y :: ys else y :: insertBySeq x ys

def sortBySeq (p : List (Nat × Nat)) : List (Nat × Nat) := p.foldr insertBySeq []

/-! ### events -/

inductive Ev
  -- environment / script
  | start (c : Call)
  | wret (k : Nat) (ok : Bool)
  | brel (k : Nat)
  | feed (f : Frame)
  | rerr (eof : Bool)         -- ReadMessage returns an error: io.EOF (→ ErrShutdown) or another I/O error
  | cancel (k : Nat)
  | close
  -- threads
  | seeClose                  -- reader: ReadMessage returns io.EOF because the socket was closed locally
  | sendLock (k : Nat)        -- send: first critical section (+ entering WriteRequest)
  | sendUnreg (k : Nat)       -- send: error path critical section
  | sendFail (k : Nat)        -- send: complete the call after a failed write
  | decode                    -- decode worker / inline: read(ctx) for the next frame
  | finish (k : Nat)          -- finishCall passes the body gate, decodes, signals
  | runDone                   -- completion worker runs a queued call.done()
  | sweep                     -- reader: closeQueue(pipeline) + final critical section
  | closeSendQ                -- reader: closeQueue(writeSched)
  | closeFinQ                 -- reader: closeQueue(readSched)
  | wake (k : Nat)            -- caller of a blocking form receives from Done and returns
deriving DecidableEq, Repr

/-- Is it call `k`'s turn to run its send? (pipelining: only the head of the send queue) -/
def sendTurn (s : State) (k : Nat) : Bool :=
  if s.cfg.pipe then s.sendQ.head? == some k else true

def popSend (s : State) (k : Nat) : State :=
  if s.cfg.pipe then { s with sendQ := s.sendQ.filter (· != k) } else s

def upgradeByte (c : Call) : UInt8 :=
  if c.form == .ping then Wire.Upgrade.pack { noRequest := 1, noResponse := 1, heartbeat := 1, stream := 0 } else 0

/-- `read(ctx)` for frame `f`: header decode, the lookup/remove critical section and the
    branch that follows, up to handing the completion to whoever performs it.
    Returns the new state and, for the inline (direct I/O, no pipelining) case, the call whose
    finishCall the reader now runs itself. -/
def readFrame (s : State) (f : Frame) : State × Option Nat :=
  if f.junk then (s, none) else
  if s.msgsClosed then (s, none) else   -- after a local Close the codec refuses to decode (codec_client.go: closed)
  if s.shutdown then (s, none) else
  match lookup s.pending f.seq with
  | none => (s, none)
  | some k =>
    let s := { s with pending := erase s.pending f.seq }
    match getCall s k with
    | none => (s, none)
    | some c =>
      match f.kind with
      | .err n => (complete (setErr s k (.text f.src n)) k, none)
      | .shutdownMsg => (complete (setErr s k .shutdown) k, none)
      | _ =>
        if c.form == .ping then (signal s k, none)
        else
          let s := hand s k
          if s.cfg.pipe then ({ s with finQ := s.finQ ++ [.fin k f] }, none)
          else if s.cfg.directIO then (s, some k)
          else ({ s with finBag := s.finBag ++ [.fin k f] }, none)

/-- finishCall after the body gate: decode into Reply, signal. -/
def finishCall (s : State) (k : Nat) (f : Frame) : State :=
  signal (updCall s k fun c => { c with replyFrom := some (f.src, f.kind), replyWrites := c.replyWrites + 1 }) k

def gateOpen (s : State) (k : Nat) : Bool :=
  match getCall s k with
  | some c => !c.holdB
  | none => true

/-- One atomic step. `none` = the event is not enabled in this state. -/
def step (s : State) : Ev → Option State
  | .start c =>
    if (getCall s c.k).isSome then none else
    let c := { c with phase := .new, seq := none, signals := 0, errHist := [], replyFrom := none, replyWrites := 0,
                      returned := false, retErr := none, goReturned := s.cfg.pipe }
    some { s with calls := fun j => if j = c.k then some c else s.calls j, ids := s.ids ++ [c.k],
                  sendQ := if s.cfg.pipe then s.sendQ ++ [c.k] else s.sendQ }
  | .sendLock k =>
    match getCall s k with
    | some c =>
      if c.phase != .new || !sendTurn s k then none else
      if s.shutdown || s.closing then
        -- refused: Error = ErrShutdown, complete, return
        let s := complete (setErr s k .shutdown) k
        some (popSend (updCall s k fun c => { c with phase := .sent, goReturned := true }) k)
      else
        let q := s.seq
        let s := { s with seq := s.seq + 1, pending := s.pending ++ [(q, k)] }
        let s := updCall s k fun c => { c with seq := some q }
        if c.failEnc then
          some (updCall s k fun c => { c with phase := .wfailed .encfail })
        else
          let s := { s with writes := s.writes ++ [(k, q, upgradeByte c)] }
          if c.holdW then some (updCall s k fun c => { c with phase := .atWrite })
          else some (popSend (updCall s k fun c => { c with phase := .sent, goReturned := true }) k)
    | none => none
  | .wret k ok =>
    match getCall s k with
    | some c =>
      if c.phase != .atWrite then none else
      if ok then some (popSend (updCall s k fun c => { c with phase := .sent, holdW := false, goReturned := true }) k)
      else some (updCall s k fun c => { c with phase := .wfailed .wfail, holdW := false })
    | none => none
  | .sendUnreg k =>
    match getCall s k with
    | some c =>
      match c.phase, c.seq with
      | .wfailed e, some q =>
        if lookup s.pending q == some k then
          some (updCall { s with pending := erase s.pending q } k fun c => { c with phase := .failing true e })
        else some (updCall s k fun c => { c with phase := .failing false e })
      | _, _ => none
    | none => none
  | .sendFail k =>
    match getCall s k with
    | some c =>
      match c.phase with
      | .failing reg e =>
        let s := if reg then complete (setErr s k e) k else s
        some (popSend (updCall s k fun c => { c with phase := .sent, goReturned := true }) k)
      | _ => none
    | none => none
  | .feed f =>
    if s.reader != .waiting || s.msgsClosed then none else
    if s.cfg.directIO then some { s with reader := .decoding f, fed := s.fed ++ [f] }
    else some { s with decodeQ := s.decodeQ ++ [f], fed := s.fed ++ [f] }
  | .rerr eof =>
    if s.reader != .waiting then none else some { s with reader := .ended (if eof then .shutdown else .rfail) }
  | .seeClose =>
    if s.reader == .waiting && s.msgsClosed then some { s with reader := .ended .shutdown } else none
  | .close =>
    if s.closing then some { s with closeRet := s.closeRet ++ [some .shutdown] }
    else
      let s := { s with closing := true, msgsClosed := true, closeRet := s.closeRet ++ [none] }
      some s
  | .decode =>
    if s.cfg.directIO then
      match s.reader with
      | .decoding f =>
        let (s, inl) := readFrame s f
        match inl with
        | some k => some { s with reader := .finishing k f }
        | none => some { s with reader := .waiting }
      | _ => none
    else
      match s.decodeQ with
      | f :: rest => some (readFrame { s with decodeQ := rest } f).1
      | [] => none
  | .finish k =>
    if !gateOpen s k then none else
    match s.reader with
    | .finishing k' f =>
      if k' == k then some { (finishCall s k f) with reader := .waiting } else none
    | _ =>
      if s.cfg.pipe then
        match s.finQ with
        | .fin k' f :: rest => if k' == k then some (finishCall { s with finQ := rest } k f) else none
        | _ => none
      else
        match s.finBag.find? (fun t => match t with | .fin k' _ => k' == k | _ => false) with
        | some (.fin _ f) =>
          some (finishCall { s with finBag := s.finBag.filter (fun t => match t with | .fin k' _ => k' != k | _ => true) } k f)
        | _ => none
  | .runDone =>
    match s.finQ with
    | .done k :: rest => some (signal { s with finQ := rest } k)
    | _ => none
  | .brel k =>
    match getCall s k with
    | some c => if c.holdB then some (updCall s k fun c => { c with holdB := false }) else none
    | none => none
  | .sweep =>
    match s.reader with
    | .ended e =>
      if !s.decodeQ.isEmpty then none else
      let ps := sortBySeq s.pending
      let s := { s with shutdown := true, pending := [] }
      let s := ps.foldl (fun s p => complete (setErr s p.2 e) p.2) s
      some { s with reader := .swept }
    | _ => none
  | .closeSendQ =>
    if s.reader != .swept then none else
    if s.cfg.pipe && !s.sendQ.isEmpty then none else some { s with reader := .wclosed }
  | .closeFinQ =>
    if s.reader != .wclosed then none else
    if s.cfg.pipe && !s.finQ.isEmpty then none else some { s with reader := .exited }
  | .wake k =>
    match getCall s k with
    | some c =>
      if c.form.async || c.returned || c.signals == 0 then none else
      -- a blocking caller without pipelining runs send itself: it waits only after send returned
      if !s.cfg.pipe && c.phase != .sent then none else
      some (updCall s k fun c => { c with returned := true, retErr := lastErr c })
    | none => none
  | .cancel k =>
    match getCall s k with
    | some c =>
      if c.form != .ctx || c.returned then none else
      if !s.cfg.pipe && c.phase != .sent then none else
      some (updCall s k fun c => { c with returned := true, retErr := some .canceled })
    | none => none

/-! ### runs -/

inductive Accepts : State → List Ev → State → Prop
  | nil (s : State) : Accepts s [] s
  | cons {s s' s'' : State} {e : Ev} {es : List Ev} :
      step s e = some s' → Accepts s' es s'' → Accepts s (e :: es) s''

/-- run a concrete event list (for examples and the driver) -/
def runTrace (s : State) : List Ev → Option State
  | [] => some s
  | e :: es => (step s e).bind (runTrace · es)

end RpcVerif.K
