import RpcVerif.Model.Pool
/-
  Invariants of P (definitions; proofs in Lemmas/PoolInv.lean; evaluated at run time by the driver).
-/
namespace RpcVerif.P
open RpcVerif

/-- connection ids pooled for address `a`: active list then idle queue -/
def pooled (s : State) (a : Nat) : List Nat :=
  ((lookupA s a).map (·.1)).getD [] ++ (lookupI s a).getD []

def allPooled (s : State) : List Nat :=
  (s.active.map (fun e => e.2.1)).flatten ++ (s.idle.map (·.2)).flatten

def isOpenId (s : State) (id : Nat) : Bool := match getPc s id with | some p => p.isOpen | none => false

/-- P1 (C13): per address at most `maxConns` pooled entries, at most `maxIdle` idle ones. -/
def BoundInv (s : State) : Prop :=
  1 ≤ s.maxIdle ∧ s.maxIdle ≤ s.maxConns ∧
  (∀ a cs cur, (a, cs, cur) ∈ s.active → cs ≠ [] ∧ cs.length + ((lookupI s a).getD []).length ≤ s.maxConns) ∧
  (∀ a q, (a, q) ∈ s.idle → q.length ≤ s.maxIdle ∧ q.length ≤ s.maxConns)

/-- map keys are distinct, pooled ids are distinct and allocated -/
def ShapeInv (s : State) : Prop :=
  (s.active.map (·.1)).Nodup ∧ (s.idle.map (·.1)).Nodup ∧ (allPooled s).Nodup ∧
  (∀ id, id ∈ allPooled s → id < s.nextId) ∧
  (∀ id p, s.pcs id = some p → p.id = id ∧ id < s.nextId) ∧ (∀ id, s.nextId ≤ id → s.pcs id = none)

/-- P2 (C14): a connection is only ever filed under the address it was dialed to. -/
def AddrInv (s : State) : Prop :=
  (∀ a cs cur id, (a, cs, cur) ∈ s.active → id ∈ cs → ∃ p, s.pcs id = some p ∧ p.addr = a) ∧
  (∀ a q id, (a, q) ∈ s.idle → id ∈ q → ∃ p, s.pcs id = some p ∧ p.addr = a)

/-- P3: a connection known to be dead has been closed; an open connection is pooled. -/
def OpenInv (s : State) : Prop :=
  (∀ id p, s.pcs id = some p → p.alive = false → p.isOpen = false) ∧
  (∀ id p, s.pcs id = some p → p.isOpen = true → id ∈ allPooled s)

def Inv (s : State) : Prop := BoundInv s ∧ ShapeInv s ∧ AddrInv s ∧ OpenInv s

/-- number of open sockets to address `a` -/
def openCount (s : State) (a : Nat) : Nat :=
  ((List.range s.nextId).filter fun id => match s.pcs id with | some p => p.addr == a && p.isOpen | none => false).length

/-! run-time check -/
def nodupN : List Nat → Bool
  | [] => true
  | x :: xs => !xs.contains x && nodupN xs

def checkInv (s : State) : Bool :=
  decide (1 ≤ s.maxIdle) && decide (s.maxIdle ≤ s.maxConns) &&
  s.active.all (fun e => !e.2.1.isEmpty && decide (e.2.1.length + ((lookupI s e.1).getD []).length ≤ s.maxConns)) &&
  s.idle.all (fun e => decide (e.2.length ≤ s.maxIdle)) &&
  nodupN (s.active.map (·.1)) && nodupN (s.idle.map (·.1)) && nodupN (allPooled s) &&
  (allPooled s).all (fun id => decide (id < s.nextId)) &&
  s.active.all (fun e => e.2.1.all fun id => match s.pcs id with | some p => p.addr == e.1 | none => false) &&
  s.idle.all (fun e => e.2.all fun id => match s.pcs id with | some p => p.addr == e.1 | none => false) &&
  (List.range s.nextId).all (fun id => match s.pcs id with
    | some p => p.id == id && (p.alive || !p.isOpen) && (!p.isOpen || (allPooled s).contains id)
    | none => false) &&
  (List.range 3).all (fun a => decide (openCount s a ≤ s.maxConns))

end RpcVerif.P
