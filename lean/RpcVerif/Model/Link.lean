import RpcVerif.Model.ConnSM
import RpcVerif.Model.ServerSM
/-
  L — the product K ‖ link ‖ S: one client connection (K, conn.go) talking to one server
  connection (S, server.go) over a FIFO link that may lose messages (a failed or partial write, a
  cut) but neither duplicates, reorders nor invents them — what the framing layer gives (Model/Framing,
  Lemmas/Framing) over a byte stream. The client's half of the link is K's own wire log `writes`;
  the server's half is S's own response log `resps`. Nothing here restricts K or S: every event of
  either automaton is an event of L, except that frames reach an end only through the link.

  The frame a response becomes carries, as its ghost `src`, the call whose argument bytes the
  request *read by the server under that sequence number* carried (`carried`): `ReplyKind.own` in S
  means "the handler's result for this request's own arguments".
-/
namespace RpcVerif.L
open RpcVerif

structure Cfg where
  k : K.Cfg
  s : S.Cfg
  plan : Nat → S.Req        -- what call k asks for (method, decodable or not, handler gate); seq, up, junk are overwritten

structure State where
  cfg : Cfg
  k : K.State
  s : S.State
  c2s : List (S.Req × Nat) := []     -- request frames in flight, each with the call whose arguments it carries
  s2c : List K.Frame := []           -- response frames in flight
  onWire : Nat := 0                  -- how many entries of k.writes have left the client (sent or lost)
  answered : Nat := 0                -- how many entries of s.resps have left the server (sent or lost)
  carried : List (Nat × Nat) := []   -- ghost: (sequence number, call) of every request the server has read, oldest first

def init (cfg : Cfg) : State := { cfg := cfg, k := K.init cfg.k, s := S.init cfg.s }

/-- the request frame the client's codec writes for the wire-log entry `w` -/
def reqOf (cfg : Cfg) (w : Nat × Nat × UInt8) : S.Req × Nat :=
  ({ cfg.plan w.1 with seq := w.2.1, up := w.2.2, junk := false }, w.1)

/-- what the client's decoder makes of a response -/
def kindOf (p : S.Resp) : K.RespKind :=
  match p.err with
  | .none => (match p.reply with | .own => .ok | _ => .empty)
  | .text _ n => .err n
  | _ => .err 0

def carrier (carried : List (Nat × Nat)) (q : Nat) : Option Nat := (carried.find? (·.1 == q)).map (·.2)

inductive Ev
  | client (e : K.Ev)     -- any step of the client except `feed`
  | send                  -- the next written request leaves the client …
  | lose                  -- … or is lost on the way out
  | deliverReq            -- the server's ReadMessage returns the oldest request in flight
  | dropReq               -- the oldest request in flight is lost
  | server (e : S.Ev)     -- any step of the server except `feed`
  | answer                -- the next written response leaves the server …
  | loseResp              -- … or is lost on the way out
  | deliverResp           -- the client's ReadMessage returns the oldest response in flight
  | dropResp
deriving DecidableEq, Repr

def step (s : State) : Ev → Option State
  | .client e =>
    match e with
    | .feed _ => none
    | e => (K.step s.k e).map fun k' => { s with k := k' }
  | .send =>
    match s.k.writes[s.onWire]? with
    | some w => some { s with c2s := s.c2s ++ [reqOf s.cfg w], onWire := s.onWire + 1 }
    | none => none
  | .lose =>
    match s.k.writes[s.onWire]? with
    | some _ => some { s with onWire := s.onWire + 1 }
    | none => none
  | .deliverReq =>
    match s.c2s with
    | (r, c) :: rest => (S.step s.s (.feed r)).map fun s' => { s with s := s', c2s := rest, carried := s.carried ++ [(r.seq, c)] }
    | [] => none
  | .dropReq =>
    match s.c2s with
    | _ :: rest => some { s with c2s := rest }
    | [] => none
  | .server e =>
    match e with
    | .feed _ => none
    | e => (S.step s.s e).map fun s' => { s with s := s' }
  | .answer =>
    match s.s.resps[s.answered]? with
    | some p =>
      -- the guard never blocks a reachable state (theorem `answer_enabled`): a response is written
      -- only for a request that was read
      match carrier s.carried p.seq with
      | some c => some { s with s2c := s.s2c ++ [{ seq := p.seq, src := c, kind := kindOf p }], answered := s.answered + 1 }
      | none => none
    | none => none
  | .loseResp =>
    match s.s.resps[s.answered]? with
    | some _ => some { s with answered := s.answered + 1 }
    | none => none
  | .deliverResp =>
    match s.s2c with
    | f :: rest => (K.step s.k (.feed f)).map fun k' => { s with k := k', s2c := rest }
    | [] => none
  | .dropResp =>
    match s.s2c with
    | _ :: rest => some { s with s2c := rest }
    | [] => none

inductive Accepts : State → List Ev → State → Prop
  | nil (s : State) : Accepts s [] s
  | cons {s s' s'' : State} {e : Ev} {es : List Ev} :
      step s e = some s' → Accepts s' es s'' → Accepts s (e :: es) s''

def runTrace (s : State) : List Ev → Option State
  | [] => some s
  | e :: es => (step s e).bind (runTrace · es)

end RpcVerif.L
