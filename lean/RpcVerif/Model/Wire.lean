import RpcVerif.Model.Varint
import RpcVerif.Generated.WireFacts
import RpcVerif.Generated.Upgrade
/-
  W — the wire layer: pb and code header encoders/decoders (codec.pb.go, codec.code.go),
  the upgrade byte (upgrade.go) and the codec glue (codec_client.go / codec_server.go).

  A Go slice handed to a decoder is modelled as `frame` (the bytes below `len`) and `extra`
  (the bytes between `len` and `cap`, i.e. the rest of the pooled read buffer): indexing is
  checked against `len`, re-slicing `buf[n:n+t]` against `cap`, exactly as Go does.
  Constants (tag bytes, case numbers, thresholds, size overheads, hardening flags) come from
  `Generated/WireFacts.lean`, which is rewritten from /repo on every run.
-/
namespace RpcVerif.Wire
open RpcVerif

structure Request where
  seq : Nat := 0
  upgrade : Bytes := []
  method : Bytes := []
  args : Bytes := []
deriving Repr, DecidableEq

structure Response where
  seq : Nat := 0
  error : Bytes := []
  reply : Bytes := []
deriving Repr, DecidableEq

/-! ### Writing into a caller-supplied buffer -/

/-- A write cursor over a buffer of fixed length (`buf[:size]`). -/
structure W where
  buf : Bytes
  off : Nat
deriving Repr

/-- `buf[off+i] = bs[i]` for all `i` — panics when it would leave the buffer. -/
def W.put (w : W) (bs : Bytes) : Res W :=
  if w.off + bs.length ≤ w.buf.length then
    .ok { buf := w.buf.take w.off ++ bs ++ w.buf.drop (w.off + bs.length), off := w.off + bs.length }
  else .panic "index out of range"

def W.putIf (w : W) (c : Bool) (bs : Bytes) : Res W := if c then w.put bs else .ok w

def W.done (w : W) : Bytes := w.buf.take w.off

/-- `checkBuffer` / the `cap(buf) >= size` prologue: reuse the scratch buffer or allocate zeroes. -/
def withSize (scratch : Bytes) (size : Nat) : Bytes :=
  if scratch.length ≥ size then scratch.take size else List.replicate size 0

def lenPrefixed (bs : Bytes) : Bytes := encodeVarint bs.length ++ bs

/-! ### protobuf-style header (default and "pb") -/

def pbReqSize (r : Request) : Nat :=
  Gen.pbReqSizeBase + (Gen.pbReqSizePerField.getD 0 0 + r.upgrade.length)
    + (Gen.pbReqSizePerField.getD 1 0 + r.method.length) + (Gen.pbReqSizePerField.getD 2 0 + r.args.length)

def pbResSize (r : Response) : Nat :=
  Gen.pbResSizeBase + (Gen.pbResSizePerField.getD 0 0 + r.error.length)
    + (Gen.pbResSizePerField.getD 1 0 + r.reply.length)

/-- `(*pbRequest).MarshalTo(buf)` with `cap(buf) = buf.length`. -/
def pbReqMarshalTo (buf : Bytes) (r : Request) : Res Bytes :=
  let size := pbReqSize r
  if buf.length ≥ size then do
    let w : W := ⟨buf.take size, 0⟩
    let w ← w.putIf (r.seq != 0) (UInt8.ofNat Gen.pbReqTag_Seq :: encodeVarint r.seq)
    let w ← w.putIf (r.upgrade.length > 0) (UInt8.ofNat Gen.pbReqTag_Upgrade :: lenPrefixed r.upgrade)
    let w ← w.putIf (r.method.length > 0) (UInt8.ofNat Gen.pbReqTag_ServiceMethod :: lenPrefixed r.method)
    let w ← w.putIf (r.args.length > 0) (UInt8.ofNat Gen.pbReqTag_Args :: lenPrefixed r.args)
    pure w.done
  else .err "buf is too short"

def pbResMarshalTo (buf : Bytes) (r : Response) : Res Bytes :=
  let size := pbResSize r
  if buf.length ≥ size then do
    let w : W := ⟨buf.take size, 0⟩
    let w ← w.putIf (r.seq != 0) (UInt8.ofNat Gen.pbResTag_Seq :: encodeVarint r.seq)
    let w ← w.putIf (r.error.length > 0) (UInt8.ofNat Gen.pbResTag_Error :: lenPrefixed r.error)
    let w ← w.putIf (r.reply.length > 0) (UInt8.ofNat Gen.pbResTag_Reply :: lenPrefixed r.reply)
    pure w.done
  else .err "buf is too short"

/-- What the codecs do (`GOGOPBCodec.Marshal`, and the nil-encoder path through `checkBuffer`):
    reuse the scratch buffer when it is large enough, otherwise a fresh one. -/
def pbReqMarshal (scratch : Bytes) (r : Request) : Res Bytes :=
  pbReqMarshalTo (withSize scratch (pbReqSize r)) r

def pbResMarshal (scratch : Bytes) (r : Response) : Res Bytes :=
  pbResMarshalTo (withSize scratch (pbResSize r)) r

/-- `code.DecodeBytes` / `code.DecodeString` on `buf` whose readable part is `rd` and whose
    capacity continues with `extra`. Returns the field and the byte count `n + t`. -/
def decodeBytes (rd extra : Bytes) : Res (Bytes × Nat) :=
  match getVarint rd with
  | none => .panic "index out of range"
  | some (t, n) =>
    if n + t ≤ (rd ++ extra).length then .ok (((rd ++ extra).drop n).take t, n + t)
    else .panic "slice bounds out of range"

/-- The tag loop of `(*pbRequest).Unmarshal`. `rem` = `data[offset:len]`, `off` = `offset`.
    Returns the fields and the final value of `offset` (which may exceed `len`). -/
def pbReqLoop (extra : Bytes) (rem : Bytes) (off : Nat) (acc : Request) : Res (Request × Nat) :=
  match rem with
  | [] => .ok (acc, off)
  | tag :: rest =>
    let fn := tag.toNat / 8
    let wt := tag.toNat % 8
    if fn = Gen.pbReqCase_Seq.1 then
      if wt ≠ Gen.pbReqCase_Seq.2 then .err "wrong wireType" else
      match getVarint rest with
      | none => .panic "index out of range"
      | some (v, n) => pbReqLoop extra (rest.drop n) (off + 1 + n) { acc with seq := v }
    else if fn = Gen.pbReqCase_Upgrade.1 then
      if wt ≠ Gen.pbReqCase_Upgrade.2 then .err "wrong wireType" else
      match decodeBytes rest extra with
      | .ok (f, n) => pbReqLoop extra (rest.drop n) (off + 1 + n) { acc with upgrade := f }
      | .err e => .err e
      | .panic k => .panic k
    else if fn = Gen.pbReqCase_ServiceMethod.1 then
      if wt ≠ Gen.pbReqCase_ServiceMethod.2 then .err "wrong wireType" else
      match decodeBytes rest extra with
      | .ok (f, n) => pbReqLoop extra (rest.drop n) (off + 1 + n) { acc with method := f }
      | .err e => .err e
      | .panic k => .panic k
    else if fn = Gen.pbReqCase_Args.1 then
      if wt ≠ Gen.pbReqCase_Args.2 then .err "wrong wireType" else
      match decodeBytes rest extra with
      | .ok (f, n) => pbReqLoop extra (rest.drop n) (off + 1 + n) { acc with args := f }
      | .err e => .err e
      | .panic k => .panic k
    else pbReqLoop extra rest (off + 1) acc
termination_by rem.length
decreasing_by all_goals (simp only [List.length_drop, List.length_cons]; omega)

def pbResLoop (extra : Bytes) (rem : Bytes) (off : Nat) (acc : Response) : Res (Response × Nat) :=
  match rem with
  | [] => .ok (acc, off)
  | tag :: rest =>
    let fn := tag.toNat / 8
    let wt := tag.toNat % 8
    if fn = Gen.pbResCase_Seq.1 then
      if wt ≠ Gen.pbResCase_Seq.2 then .err "wrong wireType" else
      match getVarint rest with
      | none => .panic "index out of range"
      | some (v, n) => pbResLoop extra (rest.drop n) (off + 1 + n) { acc with seq := v }
    else if fn = Gen.pbResCase_Error.1 then
      if wt ≠ Gen.pbResCase_Error.2 then .err "wrong wireType" else
      match decodeBytes rest extra with
      | .ok (f, n) => pbResLoop extra (rest.drop n) (off + 1 + n) { acc with error := f }
      | .err e => .err e
      | .panic k => .panic k
    else if fn = Gen.pbResCase_Reply.1 then
      if wt ≠ Gen.pbResCase_Reply.2 then .err "wrong wireType" else
      match decodeBytes rest extra with
      | .ok (f, n) => pbResLoop extra (rest.drop n) (off + 1 + n) { acc with reply := f }
      | .err e => .err e
      | .panic k => .panic k
    else pbResLoop extra rest (off + 1) acc
termination_by rem.length
decreasing_by all_goals (simp only [List.length_drop, List.length_cons]; omega)

/-- The hardening around a raw decoder: a deferred `recover()` turning a panic into an error
    (when present in the source) and the final `offset > len(data)` check (when present). -/
def harden {α} (recovers checks : Bool) (frameLen : Nat) (raw : Res (α × Nat)) : Res α :=
  match raw with
  | .ok (a, off) => if checks && off > frameLen then .err "malformed header" else .ok a
  | .err e => .err e
  | .panic k => if recovers then .err "malformed header" else .panic k

/-- `(*pbRequest).Unmarshal(data)` with `data = frame`, capacity continuing with `extra`. -/
def pbReqUnmarshal (frame extra : Bytes) : Res Request :=
  harden Gen.pbReqRecovers Gen.pbReqChecksOverrun frame.length (pbReqLoop extra frame 0 {})

def pbResUnmarshal (frame extra : Bytes) : Res Response :=
  harden Gen.pbResRecovers Gen.pbResChecksOverrun frame.length (pbResLoop extra frame 0 {})

/-! ### "code" header -/

def codeReqSize (r : Request) : Nat :=
  Gen.codeReqSizeBase + (Gen.codeReqSizePerField.getD 0 0 + r.upgrade.length)
    + (Gen.codeReqSizePerField.getD 1 0 + r.method.length) + (Gen.codeReqSizePerField.getD 2 0 + r.args.length)

def codeResSize (r : Response) : Nat :=
  Gen.codeResSizeBase + (Gen.codeResSizePerField.getD 0 0 + r.error.length)
    + (Gen.codeResSizePerField.getD 1 0 + r.reply.length)

/-- The three-way field encoder of codec.code.go with its two thresholds. -/
def codeFieldBytes (th : Nat × Nat) (bs : Bytes) : Bytes :=
  if bs.length > th.1 then lenPrefixed bs
  else if bs.length > th.2 then UInt8.ofNat bs.length :: bs
  else [0]

def codeReqMarshal (scratch : Bytes) (r : Request) : Res Bytes := do
  let w : W := ⟨withSize scratch (codeReqSize r), 0⟩
  let w ← w.put (encodeVarint r.seq)
  let w ← w.put (codeFieldBytes Gen.codeReqEnc_Upgrade r.upgrade)
  let w ← w.put (codeFieldBytes Gen.codeReqEnc_ServiceMethod r.method)
  let w ← w.put (codeFieldBytes Gen.codeReqEnc_Args r.args)
  pure w.done

def codeResMarshal (scratch : Bytes) (r : Response) : Res Bytes := do
  let w : W := ⟨withSize scratch (codeResSize r), 0⟩
  let w ← w.put (encodeVarint r.seq)
  let w ← w.put (codeFieldBytes Gen.codeResEnc_Error r.error)
  let w ← w.put (codeFieldBytes Gen.codeResEnc_Reply r.reply)
  pure w.done

/-- A `[]byte` field of the code decoder: `data[offset] > long` → DecodeBytes, `> short` →
    one length byte and `data[offset+1 : offset+s]`, else a single zero byte. -/
def codeBytesField (th : Nat × Nat) (rem extra : Bytes) : Res (Bytes × Nat) :=
  match rem with
  | [] => .panic "index out of range"
  | b :: _ =>
    if b.toNat > th.1 then decodeBytes rem extra
    else if b.toNat > th.2 then
      if 1 + b.toNat ≤ (rem ++ extra).length then .ok (((rem ++ extra).drop 1).take b.toNat, 1 + b.toNat)
      else .panic "slice bounds out of range"
    else .ok ([], 1)

/-- A `string` field of the code decoder: `data[offset] > th` → DecodeString, else one byte. -/
def codeStringField (th : Nat) (rem extra : Bytes) : Res (Bytes × Nat) :=
  match rem with
  | [] => .panic "index out of range"
  | b :: _ => if b.toNat > th then decodeBytes rem extra else .ok ([], 1)

def codeReqRaw (frame extra : Bytes) : Res (Request × Nat) :=
  match getVarint frame with
  | none => .panic "index out of range"
  | some (seq, n0) => do
    let (u, n1) ← codeBytesField Gen.codeReqDec_Upgrade (frame.drop n0) extra
    let (m, n2) ← codeStringField Gen.codeReqDec_ServiceMethod (frame.drop (n0 + n1)) extra
    let (a, n3) ← codeBytesField Gen.codeReqDec_Args (frame.drop (n0 + n1 + n2)) extra
    pure ({ seq := seq, upgrade := u, method := m, args := a }, n0 + n1 + n2 + n3)

def codeResRaw (frame extra : Bytes) : Res (Response × Nat) :=
  match getVarint frame with
  | none => .panic "index out of range"
  | some (seq, n0) => do
    let (e, n1) ← codeStringField Gen.codeResDec_Error (frame.drop n0) extra
    let (r, n2) ← codeBytesField Gen.codeResDec_Reply (frame.drop (n0 + n1)) extra
    pure ({ seq := seq, error := e, reply := r }, n0 + n1 + n2)

def codeReqUnmarshal (frame extra : Bytes) : Res Request :=
  harden Gen.codeReqRecovers Gen.codeReqChecksOverrun frame.length (codeReqRaw frame extra)

def codeResUnmarshal (frame extra : Bytes) : Res Response :=
  harden Gen.codeResRecovers Gen.codeResChecksOverrun frame.length (codeResRaw frame extra)

/-! ### The documented formats, written independently of the encoders -/

/-- protobuf wire format: tag = `field << 3 | wiretype`, zero values omitted, fields in order. -/
def pbTag (field wt : Nat) : UInt8 := UInt8.ofNat (field * 8 + wt)

def pbVarintField (field : Nat) (v : Nat) : Bytes :=
  if v = 0 then [] else pbTag field 0 :: putVarint v

def pbBytesField (field : Nat) (bs : Bytes) : Bytes :=
  if bs.length = 0 then [] else pbTag field 2 :: (putVarint bs.length ++ bs)

def pbReqSpec (r : Request) : Bytes :=
  pbVarintField 1 r.seq ++ pbBytesField 2 r.upgrade ++ pbBytesField 3 r.method ++ pbBytesField 4 r.args

def pbResSpec (r : Response) : Bytes :=
  pbVarintField 1 r.seq ++ pbBytesField 2 r.error ++ pbBytesField 3 r.reply

/-- code format: varint seq, then every field as varint length followed by the bytes. -/
def codeReqSpec (r : Request) : Bytes :=
  putVarint r.seq ++ (putVarint r.upgrade.length ++ r.upgrade) ++ (putVarint r.method.length ++ r.method)
    ++ (putVarint r.args.length ++ r.args)

def codeResSpec (r : Response) : Bytes :=
  putVarint r.seq ++ (putVarint r.error.length ++ r.error) ++ (putVarint r.reply.length ++ r.reply)

/-! ### upgrade byte -/

structure Upgrade where
  noRequest : UInt8 := 0
  noResponse : UInt8 := 0
  heartbeat : UInt8 := 0
  stream : UInt8 := 0
deriving Repr, DecidableEq

def Upgrade.pack (u : Upgrade) : UInt8 := Gen.upgradePack u.noRequest u.noResponse u.heartbeat u.stream
def Upgrade.isZero (u : Upgrade) : Bool := Gen.upgradeIsZero u.noRequest u.noResponse u.heartbeat u.stream
def Upgrade.unpack (d : UInt8) : Upgrade :=
  { noRequest := Gen.upgradeNoRequest d, noResponse := Gen.upgradeNoResponse d,
    heartbeat := Gen.upgradeHeartbeat d, stream := Gen.upgradeStream d }

/-- What `send` puts into `ctx.Upgrade`: nothing for the zero value, else the packed byte. -/
def Upgrade.wire (u : Upgrade) : Bytes := if u.isZero then [] else [u.pack]

/-- `readRequestHeader`: `len(ctx.Upgrade) > 0` → `Unmarshal(ctx.Upgrade)` (reads `data[0]`), else the zero value. -/
def Upgrade.ofWire (bs : Bytes) : Upgrade :=
  match bs with
  | [] => {}
  | d :: _ => Upgrade.unpack d

/-- The flag combinations the library itself produces. -/
def Upgrade.valid (u : Upgrade) : Bool :=
  u.noRequest ≤ 1 && u.noResponse ≤ 1 && u.heartbeat ≤ 1 && u.stream ≤ 3

/-! ### header encoder selection and codec glue -/

inductive Header | default | pb | code
deriving Repr, DecidableEq

def marshalRequest (h : Header) (scratch : Bytes) (r : Request) : Res Bytes :=
  match h with
  | .default | .pb => pbReqMarshal scratch r
  | .code => codeReqMarshal scratch r

def unmarshalRequest (h : Header) (frame extra : Bytes) : Res Request :=
  match h with
  | .default | .pb => pbReqUnmarshal frame extra
  | .code => codeReqUnmarshal frame extra

def marshalResponse (h : Header) (scratch : Bytes) (r : Response) : Res Bytes :=
  match h with
  | .default | .pb => pbResMarshal scratch r
  | .code => codeResMarshal scratch r

def unmarshalResponse (h : Header) (frame extra : Bytes) : Res Response :=
  match h with
  | .default | .pb => pbResUnmarshal frame extra
  | .code => codeResUnmarshal frame extra

/-- `clientCodec.WriteRequest`: the frame handed to `Messages.WriteMessage`. `args` is what the body codec produced. -/
def writeRequest (h : Header) (scratch : Bytes) (seq : Nat) (u : Upgrade) (method args : Bytes) : Res Bytes :=
  marshalRequest h scratch { seq := seq, upgrade := u.wire, method := method, args := if u.noRequest = Gen.noRequest then [] else args }

/-- `serverCodec.ReadRequestHeader` followed by `Server.readRequestHeader`. -/
def readRequestHeader (h : Header) (frame extra : Bytes) : Res (Nat × Upgrade × Bytes × Bytes) :=
  match unmarshalRequest h frame extra with
  | .ok r => .ok (r.seq, Upgrade.ofWire r.upgrade, r.method, r.args)
  | .err e => .err e
  | .panic k => .panic k

end RpcVerif.Wire
