import RpcVerif.Generated.OptFacts
/-
  Options resolution (dialer.go DialWithOptions, server.go ListenWithOptions): the socket, the body
  codec and the header encoder are each chosen by walking a chain of sources read from the source
  on every run (Generated/OptFacts.lean): a registered name, or a constructor field.
-/
namespace RpcVerif.Opt
open RpcVerif

/-- walk the chain: `strField f` is the value of the string option `f`, `reg` the name registry,
    `ctorField f` the value of the constructor option `f` -/
def resolve {X : Type} (strField : String → String) (reg : String → Option X) (ctorField : String → Option X) :
    List Gen.OptSrc → Option X
  | [] => none
  | .name f :: rest =>
    match reg (strField f) with
    | some x => some x
    | none => resolve strField reg ctorField rest
  | .ctor f :: rest =>
    match ctorField f with
    | some x => some x
    | none => resolve strField reg ctorField rest

end RpcVerif.Opt
