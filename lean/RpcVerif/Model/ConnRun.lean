import RpcVerif.Model.ConnSM
import RpcVerif.Model.ConnInv
import RpcVerif.Model.Proto
/-
  The executable side of K for the correspondence: script actions → events, `settle`
  (run every enabled thread step, in a fixed order, until none is enabled) and the canonical
  observation line that must equal the harness's.
-/
namespace RpcVerif.K
open RpcVerif RpcVerif.Proto

/-- Thread events that may be enabled in `s` (environment events excluded), in a fixed order. -/
def threadEvents (s : State) : List Ev :=
  [.seeClose] ++ (if s.decHeld then [] else [.decode]) ++ s.ids.map (fun k => .sendLock k) ++ s.ids.map (fun k => .sendUnreg k)
    ++ s.ids.map (fun k => .sendFail k) ++ s.ids.map (fun k => .finish k)
    ++ [.runDone, .sweep, .closeSendQ, .closeFinQ] ++ s.ids.map (fun k => .wake k)

def firstEnabled (s : State) : List Ev → Option State
  | [] => none
  | e :: es => match step s e with
    | some s' => some s'
    | none => firstEnabled s es

def settle : Nat → State → State
  | 0, s => s
  | fuel + 1, s => match firstEnabled s (threadEvents s) with
    | some s' => settle fuel (if checkInv s' then s' else { s' with invOk := false })
    | none => s

def settled (s : State) : State := settle 100000 s

def errStr : Option Err → String
  | none => "nil"
  | some .shutdown => "shutdown"
  | some .rfail => "rfail"
  | some .wfail => "wfail"
  | some .encfail => "encfail"
  | some .canceled => "canceled"
  | some (.text k n) => s!"text:{k}:{n}"

def replyLenOf (s : State) (k : Nat) : Nat :=
  match getCall s k with
  | some c => c.replyLen
  | none => 0

def replyStr (s : State) (c : Call) : String :=
  let emptyStr := if c.replyLen == 0 then "any" else "none"
  if s.badBody.contains c.k then emptyStr else   -- the body codec refused the bytes: Reply untouched
  match c.replyFrom with
  | none => emptyStr
  | some (src, .ok) =>
    if replyLenOf s src == 0 then emptyStr else if src == c.k then "own" else "bad"
  | some (_, _) => emptyStr

def hex2 (b : UInt8) : String := String.ofList [hexDigit (b.toNat / 16), hexDigit (b.toNat % 16)]

def isRunningFin (s : State) (k : Nat) : Bool :=
  (match s.reader with | .finishing k' _ => k' == k | _ => false) ||
  (if s.cfg.pipe then (match s.finQ with | .fin k' _ :: _ => k' == k | _ => false)
   else s.finBag.any (fun t => match t with | .fin k' _ => k' == k | _ => false))

def insertStr (x : String) : List String → List String
  | [] => [x]
  | y :: ys => if x ≤ y then x :: y :: ys else y :: insertStr x ys

def insertNatOnly (x : Nat) : List Nat → List Nat
  | [] => [x]
  | y :: ys => if x ≤ y then x :: y :: ys else y :: insertNatOnly x ys

def insertNat (x : Nat × String) : List (Nat × String) → List (Nat × String)
  | [] => [x]
  | y :: ys => if x.1 ≤ y.1 then x :: y :: ys else y :: insertNat x ys

/-- a reply body the codec refuses: finishCall stores "reading body …" in Error and signals once -/
def bodyErr (s : State) (c : Call) (e : String) : String :=
  if s.badBody.contains c.k && c.replyFrom.isSome && e == "nil" then "bodyerr" else e

def callStr (s : State) (c : Call) : String :=
  if c.form.async then
    let cur := if c.form == .go && !c.goReturned && c.signals == 0 then "nil" else bodyErr s c (errStr (lastErr c))
    s!"{c.k}:d{c.signals}:{cur}:{replyStr s c}"
  else if c.returned then s!"{c.k}:r1:{bodyErr s c (errStr c.retErr)}:{replyStr s c}"
  else s!"{c.k}:r0:-:{replyStr s c}"

def callList (s : State) : List Call := s.ids.filterMap s.calls

def obs (s : State) : String :=
  let ws := s.writes.map fun (k, q, u) => s!"{k}:{q}:{if u == 0 then "-" else hex2 u}"
  let parked := ((callList s).foldl (fun acc c =>
      let acc := if c.phase == .atWrite then insertStr s!"w:{c.k}" acc else acc
      if c.holdB && isRunningFin s c.k then insertStr s!"b:{c.k}" acc else acc)
      (if s.decHeld && !s.decodeQ.isEmpty then ["dec"] else []))
  let cs := ((callList s).foldl (fun acc c => insertNat (c.k, callStr s c) acc) []).map (·.2)
  let arr := (if s.cfg.pipe then s.arrivals else s.arrCanon).map toString
  let cl := s.closeRet.map errStr
  s!"obs nc={s.pending.length} w=[{",".intercalate ws}] parked=[{",".intercalate parked}] calls=[{" ".intercalate cs}] arr=[{",".intercalate arr}] close=[{",".intercalate cl}]"

def parseForm : String → Option Form
  | "go" => some .go | "rt" => some .rt | "call" => some .call | "ctx" => some .ctx | "ping" => some .ping
  | _ => none

def parseKind (x : String) : Option RespKind :=
  if x == "ok" || x == "badbody" then some .ok else if x == "empty" then some .empty else if x == "shutdownmsg" then some .shutdownMsg
  else if x.startsWith "err:" then (x.drop 4).toString.toNat?.map RespKind.err else none

/-- Apply an environment event if enabled (the harness only records executed actions). -/
def env (s : State) (e : Ev) : State :=
  match step s e with
  | some s' => if checkInv s' then s' else { s' with invOk := false }
  | none => s

/-- `drain`: release every held gate, one at a time in sorted key order, settling in between. -/
def drain : Nat → State → State
  | 0, s => s
  | fuel + 1, s =>
    let keys := ((callList s).foldl (fun acc c =>
      let acc := if c.phase == .atWrite then insertStr s!"w:{c.k}" acc else acc
      if c.holdB && isRunningFin s c.k then insertStr s!"b:{c.k}" acc else acc)
      (if s.decHeld && !s.decodeQ.isEmpty then ["dec"] else []))
    match keys with
    | [] => s
    | key :: _ =>
      let k := (key.drop 2).toString.toNat?.getD 0
      let s := if key == "dec" then { s with decHeld := false }
               else if key.startsWith "w:" then env s (.wret k true) else env s (.brel k)
      drain fuel (settled s)

def unholdAll (s : State) : State :=
  { s with decHeld := false, calls := fun k => (s.calls k).map fun c => { c with holdB := false, holdW := if c.phase == .atWrite then c.holdW else false } }

/-- One script action. Returns the new state (after settling). -/
def action (s : State) (toks : List String) : Option State :=
  match toks with
  | [form, k, _payload, rl, hw, hb] | [form, k, _payload, rl, hw, hb, _] =>
    match parseForm form, k.toNat?, rl.toNat? with
    | some f, some k, some rl =>
      let cap := match toks with | [_, _, _, _, _, _, c] => c.toNat?.getD 0 | _ => 0
      let c : Call := { k := k, form := f, replyLen := if f == .ping then 8 else rl, holdW := hw == "1", holdB := hb == "1" && f != .ping, ctxCap := cap }
      some (settled (env s (.start c)))
    | _, _, _ => none
  | ["encfail", form, k] =>
    match parseForm form, k.toNat? with
    | some f, some k => some (settled (env s (.start { k := k, form := f, replyLen := 8, failEnc := true })))
    | _, _ => none
  | ["wret", k, v] => k.toNat?.map fun k => settled (env s (.wret k (v == "ok")))
  | ["brel", k] => k.toNat?.map fun k => settled (env s (.brel k))
  | ["resp", k, kind] =>
    match k.toNat? with
    | some k =>
      if kind == "dup" then
        match s.lastResp.find? (·.1 == k) with
        | some (_, f) => some (settled (env s (.feed f)))
        | none => some s
      else
        match parseKind kind, getCall s k with
        | some kd, some c =>
          match c.seq with
          | some q =>
            let f : Frame := { seq := q, src := k, kind := kd }
            let s := { s with lastResp := (k, f) :: s.lastResp.filter (·.1 != k),
                              badBody := if kind == "badbody" then k :: s.badBody else s.badBody }
            some (settled (env s (.feed f)))
          | none => none
        | _, _ => none
    | none => none
  | ["unk"] =>
    let s := { s with unk := s.unk + 1 }
    some (settled (env s (.feed { seq := 2^40 + s.unk, src := 0, kind := .ok })))
  | ["junk", _] => some (settled (env s (.feed { seq := 0, src := 0, kind := .ok, junk := true })))
  | ["eof"] => some (settled (env s (.rerr true)))
  | ["rerr"] => some (settled (env s (.rerr false)))
  | ["close"] => some (settled (env s .close))
  | ["cancel", k] => k.toNat?.map fun k => settled (env s (.cancel k))
  | ["probe"] => some s
  | ["holddec"] => some { s with decHeld := true }
  | ["reldec"] => some (settled { s with decHeld := false })
  | ["drain"] => some (unholdAll (drain 10000 s))
  | _ => none

def parseCfg (toks : List String) : Option Cfg :=
  match toks with
  | ["conn", _hdr, d, p] => some { directIO := d == "directio=1", pipe := p == "pipe=1" }
  | _ => none

/-- Driver step for the `conn` mode: state is `none` before the first scenario header. -/
def connStep (st : Option State) (toks : List String) : Option State × String :=
  match parseCfg toks with
  | some cfg => (some (init cfg), "ok")
  | none =>
    match st with
    | none => (none, "bad-op")
    | some s =>
      match action s toks with
      | some s' =>
        let fresh := s'.arrivals.drop s.arrivals.length
        let s' := { s' with arrCanon := s.arrCanon ++ fresh.foldl (fun acc k => insertNatOnly k acc) [] }
        (some s', if checkInv s' && s'.invOk then obs s' else "INVARIANT-VIOLATED " ++ obs s')
      | none => (some s, "bad-op")

end RpcVerif.K
