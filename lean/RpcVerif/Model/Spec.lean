import RpcVerif.Model.Basic
import RpcVerif.Model.Proto
/-
  E — the abstract specification every configuration must implement: a bag of operations, each
  owed an outcome that depends on the operation alone (never on the network, header encoder,
  body codec, server/client modes or buffer sizes, and never on other operations).
-/
namespace RpcVerif.Spec
open RpcVerif RpcVerif.Proto

inductive Outcome
  | ok                      -- the reply is H(method, own arguments)
  | nil                     -- success without a reply (ping)
  | nosvc                   -- "can't find service …"
  | text (id len : Nat)     -- the handler's own error text, verbatim
deriving DecidableEq, Repr

structure Op where
  id : Nat
  form : String
  method : String
  failing : Bool
  errLen : Nat
deriving Repr

def digits : Nat → Nat
  | n => if n < 10 then 1 else 1 + digits (n / 10)
decreasing_by omega

/-- length of the error text the handler generates for call `id` when asked for `n` bytes:
    "E#<id>|" followed by filler up to exactly `n` bytes (never shorter than the prefix). -/
def errTextLen (id n : Nat) : Nat := max n (3 + digits id)

def outcome (o : Op) : Outcome :=
  if o.form == "ping" then .nil
  else if o.form == "stream" || o.form == "pushfirst" then .ok
  else if o.method == "E2E.Nope" then .nosvc
  else if o.failing then .text o.id (errTextLen o.id o.errLen)
  else .ok

def outcomeStr : Outcome → String
  | .ok => "ok"
  | .nil => "nil"
  | .nosvc => "nosvc"
  | .text id len => s!"text:{id}:{len}"

def field (pre : String) (t : String) : Option Nat :=
  if t.startsWith pre then (t.drop pre.length).toString.toNat? else none

def specStep (toks : List String) : String :=
  match toks with
  | "e2e" :: _ => "ok"
  | ["op", id, form, method, _size, _reply, kind, errlen, _nmsg] =>
    match id.toNat?, field "kind=" kind, field "errlen=" errlen with
    | some id, some k, some el => s!"{id} {outcomeStr (outcome { id := id, form := form, method := method, failing := k == 1, errLen := el })}"
    | _, _, _ => "bad-op"
  | ["op", id, form, _size, _reply, kind, errlen, _nmsg] =>
    -- ping / stream lines have an empty method field
    match id.toNat?, field "kind=" kind, field "errlen=" errlen with
    | some id, some k, some el => s!"{id} {outcomeStr (outcome { id := id, form := form, method := "", failing := k == 1, errLen := el })}"
    | _, _, _ => "bad-op"
  | _ => "bad-op"

end RpcVerif.Spec
