import RpcVerif.Model.ServerSM
import RpcVerif.Model.ServerInv
import RpcVerif.Model.Proto
/-  Executable side of S for the correspondence (script actions, settle, observation line). -/
namespace RpcVerif.S
open RpcVerif RpcVerif.Proto

def threadEvents (s : State) : List Ev :=
  [.decode] ++ s.jobs.map (fun j => .enter j.req.seq) ++ s.jobs.map (fun j => .leave j.req.seq) ++ [.drain, .wait, .closeCodec]

def firstEnabled (s : State) : List Ev → Option State
  | [] => none
  | e :: es => match step s e with
    | some s' => some s'
    | none => firstEnabled s es

def settle : Nat → State → State
  | 0, s => s
  | fuel + 1, s => match firstEnabled s (threadEvents s) with
    | some s' => if checkInv s' then settle fuel s' else { s' with crashed := some "invariant violated on the way" }
    | none => s

def settled (s : State) : State := settle 100000 s

def env (s : State) (e : Ev) : State := (step s e).getD s

def errStr : RespErr → String
  | .none => "nil"
  | .text k n => s!"text:{k}:{n}"
  | .nosvc => "nosvc"
  | .badargs => "badargs"
  | .badreply => "badreply"
  | .nostream => "nostream"
  | .noargs => "noargs"

def insertNat (x : Nat × String) : List (Nat × String) → List (Nat × String)
  | [] => [x]
  | y :: ys => if x.1 ≤ y.1 then x :: y :: ys else y :: insertNat x ys

def insertStr (x : String) : List String → List String
  | [] => [x]
  | y :: ys => if x ≤ y then x :: y :: ys else y :: insertStr x ys

def insertN (x : Nat) : List Nat → List Nat
  | [] => [x]
  | y :: ys => if x ≤ y then x :: y :: ys else y :: insertN x ys

def reqOf (s : State) (k : Nat) : Option Req := s.reqs.find? (fun r => r.seq == k && !r.junk)

def respStr (s : State) (r : Resp) : String :=
  let rep := match r.reply with
    | .empty => "empty"
    | .echo => "bad"
    | .own =>
      -- the harness compares with H(method, the argument bytes it generated); a request sent with
      -- the NoRequest flag carries none, so its (legitimate) reply is H(method, no bytes)
      match reqOf s r.seq with
      | some q => if (flags q).noRequest == Gen.noRequest then "bad" else "own"
      | none => "bad"
  s!"{r.seq}:{errStr r.err}:{rep}"

def obs (s : State) : String :=
  let ks := (s.reqs.filter (!·.junk)).foldl (fun acc r => insertN r.seq acc) []
  let ex := ks.map fun k => s!"{k}:{(s.execs.filter (· == k)).length}"
  let rs := if s.cfg.pipe then s.resps.map (respStr s)
            else ((s.resps.foldl (fun acc r => acc ++ [(r.seq, respStr s r)]) []).foldl (fun acc x => insertNat x acc) []).map (·.2)
  let parked := s.jobs.foldl (fun acc j => if j.phase == .entered && j.req.hold && j.verdict.isNone then insertStr s!"h:{j.req.seq}" acc else acc) []
  let ent := (if s.cfg.pipe then s.execs else s.execs.foldl (fun acc k => insertN k acc) []).map toString
  s!"obs execs=[{" ".intercalate ex}] resp=[{" ".intercalate rs}] parked=[{",".intercalate parked}] enter=[{",".intercalate ent}] served={if s.reader == .served then 1 else 0}"

def parseMethod : String → Method
  | "Unary" => .unary | "Ctx" => .ctx | "Ret" => .ret | "RetCtx" => .retCtx | _ => .unknown

def parseVerdict (x : String) : Verdict :=
  if x == "badreply" then .badReply
  else if x.startsWith "err:" then .err ((x.drop 4).toString.toNat?.getD 0)
  else .ok

def drain : Nat → State → State
  | 0, s => s
  | fuel + 1, s =>
    let parked := s.jobs.foldl (fun acc j => if j.phase == .entered && j.req.hold && j.verdict.isNone then insertStr s!"h:{j.req.seq}" acc else acc) []
    match parked with
    | [] => s
    | key :: _ =>
      let k := (key.drop 2).toString.toNat?.getD 0
      drain fuel (settled (env s (.hret k .ok)))

def burst : Nat → Nat → State → State
  | 0, _, s => s
  | n + 1, k, s => burst n (k + 1) (settled (env s (.feed { seq := k })))

def action (s : State) (toks : List String) : Option State :=
  match toks with
  | ["req", k, m, hold, kind] =>
    k.toNat?.map fun k => settled (env s (.feed { seq := k, method := parseMethod m, badArgs := kind == "badargs", hold := hold == "1" }))
  | ["requp", k, m, up, hold] =>
    match k.toNat?, up.toNat? with
    | some k, some up =>
      let upb := UInt8.ofNat up
      some (settled (env s (.feed { seq := k, up := upb, method := parseMethod m, hold := hold == "1", hasArgs := upb &&& 0x80 == 0 })))
    | _, _ => none
  | ["ping", k] => k.toNat?.map fun k => settled (env s (.feed { seq := k, up := 0xe0, hasArgs := false }))
  | ["junk", _] => some (settled (env s (.feed { seq := 0, junk := true })))
  | ["hret", k, v] => k.toNat?.map fun k => settled (env s (.hret k (parseVerdict v)))
  | ["eof"] => some (settled (env s .eof))
  | ["rerr"] => some (settled (env s .eof))
  | ["burst", k0, n] =>
    match k0.toNat?, n.toNat? with
    | some k0, some n => some (settled (env (burst n k0 s) .eof))
    | _, _ => none
  | ["drain"] => some (drain 10000 s)
  | ["probe"] => some s
  | _ => none

def parseCfg (toks : List String) : Option Cfg :=
  match toks with
  | ["server", _hdr, d, p] => some { directIO := d == "directio=1", pipe := p == "pipe=1" }
  | _ => none

def serverStep (st : Option State) (toks : List String) : Option State × String :=
  match parseCfg toks with
  | some cfg => (some (init cfg), "ok")
  | none =>
    match st with
    | none => (none, "bad-op")
    | some s =>
      match action s toks with
      | some s' => (some s', if checkInv s' then obs s' else "INVARIANT-VIOLATED " ++ obs s')
      | none => (some s, "bad-op")

end RpcVerif.S
