import RpcVerif.Model.ServerInv
/-
  What the server answers to a request, as a function of the request and of its handler's verdict
  alone — no `Cfg` (direct I/O, pipelining), no schedule. (Definitions; proofs in
  Lemmas/ServerOutcome.lean.) Used by C12: the modes change the schedule, not the answers.
-/
namespace RpcVerif.S
open RpcVerif

/-- the response `respond` writes for request `r` with error `e` (`own`: the handler's reply is attached) -/
def respOf (r : Req) (e : RespErr) (own : Bool) : Resp :=
  let hasResponse := e == .none && (flags r).noResponse != Gen.noResponse
  { seq := r.seq, err := e,
    reply := if hasResponse then (if own then .own else .empty) else if r.hasArgs then .echo else .empty }

/-- the answer owed to `r` when its handler (if it runs) returns `v`; `none`: no response -/
def outcome (r : Req) (v : Verdict) : Option Resp :=
  if r.junk then none else
  match dispatch r with
  | .ping => some (respOf r .none false)
  | .openStream => some (respOf r .nostream false)
  | .closeStream => some (respOf r .none false)
  | .streamMsg => none
  | .job =>
    if !r.method.known then some (respOf r .nosvc false)
    else if (flags r).noRequest != Gen.noRequest && r.badArgs then some (respOf r .badargs false)
    else match v with
      | .ok => some (respOf r .none true)
      | .err n => some (respOf r (.text r.seq n) false)
      | .badReply =>
        if (flags r).noResponse != Gen.noResponse then some { seq := r.seq, err := .badreply, reply := .empty }
        else some (respOf r .none true)

/-- the verdict of the handler of request `k` in state `s` (`.ok` when it has not been told otherwise) -/
def verdictOf (s : State) (k : Nat) : Verdict :=
  match getJob s k with
  | some j => j.verdict.getD .ok
  | none => .ok

end RpcVerif.S
