import RpcVerif.Model.Router
import RpcVerif.Model.RouterInv
import RpcVerif.Model.Proto
/-  Executable side of R for the correspondence: script actions → router events, observation line. -/
namespace RpcVerif.R
open RpcVerif RpcVerif.Proto

structure CallRec where
  k : Nat
  form : String
  res : Option String := none
deriving Repr

structure Run where
  s : State
  calls : List CallRec := []
  next : Nat := 1000
  ok : Bool := true        -- an observed choice was not one the model allows
  holds : List String := []                          -- addresses whose calls the scripted Transport holds back
  heldCalls : List (Nat × String × String × Bool) := []  -- (caller, form, address, feedback) waiting in the Transport

def feedbackForm (form : String) : Bool := form == "call" || form == "ctx" || form == "ping" || form == "stream"

/-- the Transport returns: outcome by the target's health now, report to the target -/
def finishAddr (r : Run) (k : Nat) (form : String) (a : String) (fb : Bool) : Run :=
  let dial := !r.s.up a
  let reports := fb && (feedbackForm form || dial)
  let s := if reports then (step r.s (.report a dial)).getD r.s else r.s
  { r with s := s, calls := r.calls.map fun c => if c.k == k then { c with res := some (if dial then "dial" else "nil") } else c }

/-- what a caller that has an address does: hand it to the Transport, report health -/
def callAddr (r : Run) (k : Nat) (form : String) (a : String) (fb : Bool) : Run :=
  if r.holds.contains a && form != "ping" then
    { r with s := { r.s with sent := r.s.sent ++ [a] }, heldCalls := r.heldCalls ++ [(k, form, a, fb)] }
  else
  let dial := !r.s.up a
  let s := if form == "ping" then r.s else { r.s with sent := r.s.sent ++ [a] }
  let reports := fb && (feedbackForm form || dial)
  let s := if reports then (step s (.report a dial)).getD s else s
  { r with s := s, calls := r.calls.map fun c => if c.k == k then { c with res := some (if dial then "dial" else "nil") } else c }

/-- a caller that ends without a target: Call/CallWithContext return the error, the other forms
    go to the Transport with the empty address (→ ErrDial) -/
def callNoTarget (r : Run) (k : Nat) (form : String) (err : String) : Run :=
  if form == "call" || form == "ctx" then
    { r with calls := r.calls.map fun c => if c.k == k then { c with res := some err } else c }
  else
    let s := if form == "ping" then r.s else { r.s with sent := r.s.sent ++ [""] }
    { r with s := s, calls := r.calls.map fun c => if c.k == k then { c with res := some "dial" } else c }

def tryRoute (r : Run) (k : Nat) (form : String) (choice : Nat) : Run :=
  match routeNow r.s choice with
  | (s', .addr a fb) => callAddr { r with s := s' } k form a fb
  | (s', .shutdown) => callNoTarget { r with s := s' } k form "shutdown"
  | (_, .mustWait) => { r with s := (step r.s (.park k)).getD r.s }

def formOf (r : Run) (k : Nat) : String := match r.calls.find? (·.k == k) with | some c => c.form | none => ""

/-- callers whose waiter was signalled go on: schedule again (or fail if the client was closed) -/
def resumeReleased (r : Run) (ks : List Nat) : Run :=
  ks.foldl (fun r k =>
    if r.s.closed then callNoTarget r k (formOf r k) "shutdown"
    else match schedule r.s 0 with
      | (s', some (a, fb)) => callAddr { r with s := s' } k (formOf r k) a fb
      | (_, none) => callNoTarget r k (formOf r k) "dial") r

def releasedNow (before after : State) : List Nat := after.released.drop before.released.length

def startCalls (r : Run) (n : Nat) (form : String) (choices : List Nat) : Run :=
  (List.range n).foldl (fun r i =>
    let k := r.next + 1
    let r := { r with next := k, calls := r.calls ++ [{ k := k, form := form }] }
    tryRoute r k form (choices.getD i 0)) r

def splitComma (x : String) : List String := if x == "-" then [] else x.splitOn ","

def insertNat (x : Nat × String) : List (Nat × String) → List (Nat × String)
  | [] => [x]
  | y :: ys => if x.1 ≤ y.1 then x :: y :: ys else y :: insertNat x ys

def obs (r : Run) : String :=
  let s := r.s
  let al := sortAddrs (aliveAddrs s)
  let cs := (r.calls.foldl (fun acc c => insertNat (c.k, s!"{c.k}:{c.res.getD "-"}") acc) []).map (·.2)
  s!"obs nt={s.targets.length} list=[{",".intercalate s.list}] last=[{",".intercalate s.last}] pos={s.pos} waiters={s.waiters.length} alive=[{",".intercalate al}] sent=[{",".intercalate s.sent}] calls=[{" ".intercalate cs}]"

/-- one detection pass: every target flagged dead is pinged; the list is rebuilt in the observed
    order when the model says it may have been rebuilt; waiters are released. -/
def detectionPass (r : Run) (order : List String) (pos : Nat) : Run :=
  let s0 := r.s
  let dead := (s0.targets.filter (!·.alive)).map (·.addr)
  -- liveness of the checked targets
  let s := dead.foldl (fun s a => setT s a fun t => { t with alive := s0.up a }) s0
  let s := { s with targets := s.targets.map fun t => if t.alive then t else { t with latency := Gen.clientLatency } }
  let live := aliveAddrs s
  let (s, ok) :=
    if dead.isEmpty then (s, order == s0.list && pos == s0.pos)
    else if live.isEmpty then ({ s with list := [], heap := [], last := [] }, order.isEmpty)
    else
      let sorted := sortAddrs live
      -- the same set of live addresses as remembered: check() must leave list and cursor alone;
      -- a different set: the list is rebuilt (in the observed map order) and the cursor reset
      if sorted == s0.last then (s, order == s0.list && pos == s0.pos)
      else ({ s with last := sorted, list := order, heap := order, pos := pos }, sortAddrs order == sorted && pos == 0)
  let s1 := checkPending s
  let r := { r with s := s1, ok := r.ok && ok }
  resumeReleased r (releasedNow s s1)

def action (r : Run) (toks : List String) : Option Run :=
  match toks with
  | ["health", a, b] => some { r with s := (step r.s (.setUp a (b == "1"))).getD r.s }
  | ["update", ts] => some { r with s := update r.s (splitComma ts) }
  | ["update"] => some { r with s := update r.s [] }
  | ["wait", order, pos] => some (detectionPass r (splitComma order) (pos.toNat?.getD 0))
  | ["hold", a] => some { r with holds := r.holds ++ [a] }
  | ["release", a] =>
    let mine := r.heldCalls.filter (fun h => h.2.2.1 == a)
    let r := { r with holds := r.holds.filter (· != a), heldCalls := r.heldCalls.filter (fun h => h.2.2.1 != a) }
    some (mine.foldl (fun r h => finishAddr r h.1 h.2.1 h.2.2.1 h.2.2.2) r)
  | ["hgo", n] => n.toNat?.map fun n => startCalls r n "go" []
  | ["park", n, form] => n.toNat?.map fun n => startCalls r n form []
  | [batch, n] | [batch, n, _] =>
    let form := if batch == "route" then "call" else if batch == "gos" then "go" else if batch == "rts" then "rt"
      else if batch == "pings" then "ping" else if batch == "ctxs" then "ctx" else if batch == "streams" then "stream" else ""
    if form == "" then
      (match toks with
       | ["setlat", a, v] => some { r with s := (step r.s (.setLatency a (v.toInt?.getD 0))).getD r.s }
       | ["fallback", _] => some { r with s := (step r.s .fallbackBegin).getD r.s }
       | ["sleep", _] =>
         -- the fallback window ends during the sleep and the detector's next pass releases the waiters
         let s0 := (step r.s .fallbackEnd).getD r.s
         let s1 := checkPending s0
         some (resumeReleased { r with s := s1 } (releasedNow s0 s1))
       | ["director", a] => some { r with s := (step r.s (.setDirector (if a == "-" then none else some a))).getD r.s }
       | _ => none)
    else
      match n.toNat? with
      | some n =>
        let choices := match toks with
          | [_, _, cs] => (splitComma cs).map fun a => (r.s.list.findIdx? (· == a)).getD 0
          | _ => []
        some (startCalls r n form choices)
      | none => none
  | ["settle"] => some r
  | ["expire"] =>
    -- DialTimeout passes: every parked caller gives up
    let ks := r.s.waiters
    let r := { r with s := { r.s with waiters := [] } }
    some (ks.foldl (fun r k => callNoTarget r k (formOf r k) "timeout") r)
  | ["close"] =>
    let s1 := (step r.s .close).getD r.s
    let rel := releasedNow r.s s1
    some (resumeReleased { r with s := s1 } rel)
  | _ => none

def parseCfg (toks : List String) : Option Run :=
  match toks with
  | ["router", p] =>
    if p == "policy=rr" then some { s := init .rr false }
    else if p == "policy=rand" then some { s := init .random false }
    else if p == "policy=least" then some { s := init .least false }
    else if p == "policy=leastprobe" then some { s := init .least true }
    else none
  | _ => none

def routerStep (st : Option Run) (toks : List String) : Option Run × String :=
  match parseCfg toks with
  | some r => (some r, "ok")
  | none =>
    match st with
    | none => (none, "bad-op")
    | some r =>
      match action r toks with
      | some r' => (some r', if !r'.ok then "MODEL-REJECTS-OBSERVED-CHOICE " ++ obs r' else if !checkInv r'.s then "INVARIANT-VIOLATED " ++ obs r' else obs r')
      | none => (some r, "bad-op")

end RpcVerif.R
