import RpcVerif.Lemmas.ConnInv
import RpcVerif.Lemmas.ConnAux
import RpcVerif.Lemmas.ConnProps
/-
  End-to-end properties of the client connection automaton K:
  A. sequence numbers are allocated once (`SeqInv`),
  B. reply / error provenance against a peer that answers what was written (C01),
  C. Close releases the connection's threads (C20, Conn part), idempotence of Close.
-/
namespace RpcVerif.K
open RpcVerif

set_option linter.unusedVariables false

/-! ## A. sequence numbers are allocated once -/

def SeqInv (s : State) : Prop :=
  (∀ k c q, s.calls k = some c → c.seq = some q → q < s.seq) ∧
  (∀ k k' c c' q, s.calls k = some c → s.calls k' = some c' → c.seq = some q → c'.seq = some q → k = k') ∧
  (∀ k q u, (k, q, u) ∈ s.writes → ∃ c, s.calls k = some c ∧ c.seq = some q)

/-- call `k` is registered under sequence number `q` -/
def hasSeq (s : State) (k q : Nat) : Prop := ∃ c, s.calls k = some c ∧ c.seq = some q

theorem seqInv_iff (s : State) :
    SeqInv s ↔ (∀ k q, hasSeq s k q → q < s.seq) ∧ (∀ k k' q, hasSeq s k q → hasSeq s k' q → k = k') ∧
      (∀ k q u, (k, q, u) ∈ s.writes → hasSeq s k q) := by
  constructor
  · rintro ⟨h1, h2, h3⟩
    exact ⟨fun k q ⟨c, hc, hq⟩ => h1 k c q hc hq,
      fun k k' q ⟨c, hc, hq⟩ ⟨c', hc', hq'⟩ => h2 k k' c c' q hc hc' hq hq', h3⟩
  · rintro ⟨h1, h2, h3⟩
    exact ⟨fun k c q hc hq => h1 k q ⟨c, hc, hq⟩,
      fun k k' c c' q hc hc' hq hq' => h2 k k' q ⟨c, hc, hq⟩ ⟨c', hc', hq'⟩, h3⟩

theorem seqInv_init (cfg : Cfg) : SeqInv (init cfg) := by
  refine ⟨?_, ?_, ?_⟩
  · intro k c q h; simp [init] at h
  · intro k k' c c' q h; simp [init] at h
  · intro k q u h; simp [init] at h

/-- the sequence number of every call, as a function -/
def seqOf (s : State) (j : Nat) : Option (Option Nat) := (s.calls j).map Call.seq

theorem hasSeq_iff (s : State) (k q : Nat) : hasSeq s k q ↔ seqOf s k = some (some q) := by
  unfold hasSeq seqOf
  cases s.calls k with
  | none => simp
  | some c => simp

/-- what `SeqInv` looks at -/
def wsp (s : State) : List (Nat × Nat × UInt8) × Nat × (Nat → Option (Option Nat)) :=
  (s.writes, s.seq, seqOf s)

theorem seqInv_congr {s s' : State} (h : SeqInv s) (hw : s'.writes = s.writes) (hq : s'.seq = s.seq)
    (hh : ∀ k q, hasSeq s' k q ↔ hasSeq s k q) : SeqInv s' := by
  rw [seqInv_iff] at h ⊢
  obtain ⟨h1, h2, h3⟩ := h
  refine ⟨?_, ?_, ?_⟩
  · intro k q hk; rw [hq]; exact h1 k q ((hh k q).1 hk)
  · intro k k' q hk hk'; exact h2 k k' q ((hh k q).1 hk) ((hh k' q).1 hk')
  · intro k q u hm; rw [hw] at hm; exact (hh k q).2 (h3 k q u hm)

theorem seqInv_wsp {s s' : State} (h : SeqInv s) (he : wsp s' = wsp s) : SeqInv s' := by
  simp only [wsp, Prod.mk.injEq] at he
  obtain ⟨hw, hq, hf⟩ := he
  refine seqInv_congr h hw hq (fun k q => ?_)
  rw [hasSeq_iff, hasSeq_iff, hf]

theorem wsp_updCall (s : State) (k : Nat) (g : Call → Call) (hg : ∀ c, (g c).seq = c.seq) :
    wsp (updCall s k g) = wsp s := by
  simp only [wsp, Prod.mk.injEq, updCall_writes, updCall_seq, true_and]
  funext j
  simp only [seqOf, updCall_calls]
  split
  · next hj => subst hj; cases s.calls j <;> simp [hg]
  · rfl

theorem wsp_updCall' {s t : State} {k : Nat} {g : Call → Call} (hg : ∀ c, (g c).seq = c.seq)
    (h : wsp t = wsp s) : wsp (updCall t k g) = wsp s :=
  (wsp_updCall t k g hg).trans h

theorem wsp_popSend (s : State) (k : Nat) : wsp (popSend s k) = wsp s := by
  rcases popSend_cases s k with h | h <;> rw [h] <;> rfl

theorem wsp_setErr (s : State) (k : Nat) (e : Err) : wsp (setErr s k e) = wsp s :=
  wsp_updCall s k _ (fun _ => rfl)

theorem wsp_signal (s : State) (k : Nat) : wsp (signal s k) = wsp s := by
  rcases signal_cases s k with h | h <;> rw [h]
  · exact wsp_updCall s k _ (fun _ => rfl)
  · exact wsp_updCall s k (fun c => { c with signals := c.signals + 1 }) (fun _ => rfl)

theorem wsp_hand (s : State) (k : Nat) : wsp (hand s k) = wsp s := by
  rcases hand_cases s k with h | h <;> rw [h] <;> rfl

theorem wsp_complete (s : State) (k : Nat) : wsp (complete s k) = wsp s := by
  rcases complete_cases s k with ⟨_, h⟩ | ⟨_, h⟩ <;> rw [h]
  · exact wsp_hand s k
  · rw [wsp_signal, wsp_hand]

theorem wsp_failCall (s : State) (k : Nat) (e : Err) : wsp (failCall s k e) = wsp s := by
  rw [failCall, wsp_complete, wsp_setErr]

theorem wsp_finishCall (s : State) (k : Nat) (f : Frame) : wsp (finishCall s k f) = wsp s := by
  rw [finishCall_eq, wsp_signal]
  exact wsp_updCall s k _ (fun _ => rfl)

theorem wsp_readFrame (s : State) (f : Frame) : wsp (readFrame s f).1 = wsp s := by
  rcases readFrame_cases s f with h' | h' | ⟨k', c, _, _, _, h'⟩
  · rw [h']
  · rw [h']; rfl
  · rcases h' with ⟨e, _, h'⟩ | ⟨_, h'⟩ | ⟨_, h'⟩ | ⟨_, _, h'⟩ | ⟨_, _, h'⟩ <;> rw [h']
    · rw [wsp_failCall]; rfl
    · rw [wsp_signal]; rfl
    · rfl
    · rfl
    · rfl

theorem wsp_sweepAll (s : State) (e : Err) : wsp (sweepAll s e) = wsp s :=
  foldl_failCall_inv (fun t => wsp t = wsp s) e _
    (fun t p _ ht => (wsp_failCall t p.2 e).trans ht) _ rfl

/-- every event except `start` and `sendLock` leaves `writes`, `seq` and every call's `seq` alone -/
theorem step_wsp {s s' : State} {e : Ev} (hs : step s e = some s') (h1 : ∀ c, e ≠ .start c)
    (h2 : ∀ k, e ≠ .sendLock k) : wsp s' = wsp s := by
  cases e with
  | start c => exact absurd rfl (h1 c)
  | sendLock k => exact absurd rfl (h2 k)
  | wret k ok =>
    simp only [step] at hs
    repeat' split at hs
    all_goals first
      | (cases hs; done)
      | (cases hs; rw [wsp_popSend]; exact wsp_updCall _ _ _ (fun _ => rfl))
      | (cases hs; exact wsp_updCall _ _ _ (fun _ => rfl))
  | sendUnreg k =>
    simp only [step] at hs
    repeat' split at hs
    all_goals first
      | (cases hs; done)
      | (cases hs; exact wsp_updCall' (fun _ => rfl) rfl)
  | sendFail k =>
    simp only [step] at hs
    split at hs
    · split at hs
      · rename_i reg e hph
        cases hs
        rw [wsp_popSend]
        refine wsp_updCall' (fun _ => rfl) ?_
        cases reg
        · rfl
        · exact wsp_failCall s k e
      · cases hs
    · cases hs
  | brel k =>
    simp only [step] at hs
    repeat' split at hs
    all_goals first
      | (cases hs; done)
      | (cases hs; exact wsp_updCall _ _ _ (fun _ => rfl))
  | wake k =>
    simp only [step] at hs
    repeat' split at hs
    all_goals first
      | (cases hs; done)
      | (cases hs; exact wsp_updCall _ _ _ (fun _ => rfl))
  | cancel k =>
    simp only [step] at hs
    repeat' split at hs
    all_goals first
      | (cases hs; done)
      | (cases hs; exact wsp_updCall _ _ _ (fun _ => rfl))
  | decode =>
    simp only [step] at hs
    split at hs
    · split at hs
      · rename_i f hr
        have h := wsp_readFrame s f
        split at hs
        · cases hs; exact h
        · cases hs; exact h
      · cases hs
    · split at hs
      · rename_i f rest hq
        cases hs
        exact wsp_readFrame { s with decodeQ := rest } f
      · cases hs
  | finish k =>
    simp only [step] at hs
    repeat' split at hs
    all_goals first
      | (cases hs; done)
      | (cases hs; exact wsp_finishCall _ _ _)
      | (cases hs; exact (wsp_finishCall _ _ _).trans rfl)
      | (cases hs; exact Eq.trans (b := wsp (finishCall s k _)) rfl (wsp_finishCall _ _ _))
  | runDone =>
    simp only [step] at hs
    split at hs
    · cases hs; exact wsp_signal _ _
    · cases hs
  | sweep =>
    simp only [step] at hs
    split at hs
    · rename_i e hr
      split at hs
      · cases hs
      · cases hs; exact wsp_sweepAll s e
    · cases hs
  | _ =>
    simp only [step] at hs
    repeat' split at hs
    all_goals first
      | (cases hs; done)
      | (cases hs; rfl)

theorem seqInv_start {s s' : State} {c : Call} (h : SeqInv s) (hs : step s (.start c) = some s') :
    SeqInv s' := by
  simp only [step] at hs
  split at hs
  · cases hs
  · rename_i hn
    cases hs
    have hn' : s.calls c.k = none := by simpa [getCall] using hn
    refine seqInv_congr h rfl rfl (fun j q => ?_)
    unfold hasSeq
    by_cases hj : j = c.k
    · subst hj; simp [hn']
    · simp [hj]

/-- the registering critical section of send: a call without a sequence number gets the fresh one -/
theorem seqInv_reg {s s' : State} {k : Nat} {c : Call} (h : SeqInv s) (hc : s.calls k = some c)
    (hn : c.seq = none) (hq : s'.seq = s.seq + 1)
    (hw : ∀ x, x ∈ s'.writes → x ∈ s.writes ∨ ∃ u, x = (k, s.seq, u))
    (hf : ∀ j, seqOf s' j = if j = k then some (some s.seq) else seqOf s j) : SeqInv s' := by
  rw [seqInv_iff] at h ⊢
  obtain ⟨h1, h2, h3⟩ := h
  have hk : ∀ q, ¬ hasSeq s k q := by
    rintro q ⟨c', hc', hq'⟩
    rw [hc] at hc'; cases hc'
    rw [hn] at hq'; cases hq'
  have hs' : ∀ j q, hasSeq s' j q ↔ (j = k ∧ q = s.seq) ∨ (j ≠ k ∧ hasSeq s j q) := by
    intro j q
    rw [hasSeq_iff, hasSeq_iff, hf]
    by_cases hj : j = k
    · simp [hj, eq_comm]
    · simp [hj]
  refine ⟨?_, ?_, ?_⟩
  · intro j q hj
    rcases (hs' j q).1 hj with ⟨_, rfl⟩ | ⟨_, hj⟩
    · omega
    · have := h1 j q hj; omega
  · intro j j' q hj hj'
    rcases (hs' j q).1 hj with ⟨rfl, rfl⟩ | ⟨hne, hj⟩ <;> rcases (hs' j' _).1 hj' with ⟨rfl, hq'⟩ | ⟨hne', hj'⟩
    · rfl
    · have := h1 j' _ hj'; omega
    · subst hq'; have := h1 j _ hj; omega
    · exact h2 j j' q hj hj'
  · intro j q u hm
    rcases hw _ hm with hm | ⟨u', hm⟩
    · have hj := h3 j q u hm
      refine (hs' j q).2 (.inr ⟨?_, hj⟩)
      rintro rfl
      exact hk q hj
    · cases hm
      exact (hs' _ _).2 (.inl ⟨rfl, rfl⟩)

theorem seqInv_sendLock {s s' : State} {k : Nat} (h : SeqInv s) (hl : LocalInv s)
    (hs : step s (.sendLock k) = some s') : SeqInv s' := by
  simp only [step, getCall_eq] at hs
  split at hs
  · rename_i c hc
    split at hs
    · cases hs
    · rename_i hg
      have hph : c.phase = .new := by simp at hg; exact hg.1
      have hn := (hl k c hc).1 hph
      split at hs
      · cases hs
        refine seqInv_wsp h ?_
        rw [wsp_popSend]
        exact wsp_updCall' (fun _ => rfl) (wsp_failCall s k .shutdown)
      · split at hs
        · cases hs
          refine seqInv_reg h hc hn rfl (fun x hx => .inl hx) (fun j => ?_)
          simp only [seqOf, updCall_calls]
          split <;> simp [hc]
        · split at hs
          · cases hs
            refine seqInv_reg h hc hn rfl (fun x hx => ?_) (fun j => ?_)
            · simp only [updCall_writes, List.mem_append, List.mem_singleton] at hx
              rcases hx with hx | hx
              · exact .inl hx
              · exact .inr ⟨_, hx⟩
            · simp only [seqOf, updCall_calls]
              split <;> simp [hc]
          · cases hs
            refine seqInv_reg h hc hn (by simp) (fun x hx => ?_) (fun j => ?_)
            · simp only [popSend_writes, updCall_writes, List.mem_append, List.mem_singleton] at hx
              rcases hx with hx | hx
              · exact .inl hx
              · exact .inr ⟨_, hx⟩
            · simp only [seqOf, popSend_calls, updCall_calls]
              split <;> simp [hc]
  · cases hs

theorem seqInv_step (s s' : State) (e : Ev) (h : SeqInv s) (ha : AuxInv s) (hs : step s e = some s') :
    SeqInv s' := by
  cases e with
  | start c => exact seqInv_start h hs
  | sendLock k => exact seqInv_sendLock h ha.2.2.2.2.2.1 hs
  | _ => exact seqInv_wsp h (step_wsp hs (by intro c; simp) (by intro k; simp))

theorem seqInv_accepts_from {s₀ : State} {tr : List Ev} {s : State} (h0 : SeqInv s₀) (ha : AuxInv s₀)
    (h : Accepts s₀ tr s) : SeqInv s := by
  induction h with
  | nil s => exact h0
  | cons hstep _ ih => exact ih (seqInv_step _ _ _ h0 ha hstep) (auxInv_step ha hstep)

theorem seqInv_accepts {cfg : Cfg} {tr : List Ev} {s : State} (h : Accepts (init cfg) tr s) : SeqInv s :=
  seqInv_accepts_from (seqInv_init cfg) (auxInv_init cfg) h

/-! ## B. end-to-end reply provenance (C01) -/

/-- Assumption on the peer: every well-formed success response the connection has read answers,
    with the body computed for it, the request that was written under the response's sequence
    number. -/
def PeerAnswersOwn (s : State) : Prop :=
  ∀ f, f ∈ s.fed → f.junk = false → (f.kind = .ok ∨ f.kind = .empty) →
    ∃ u, (f.src, f.seq, u) ∈ s.writes

/-- the call that wrote a request under the sequence number of call `k` is `k` -/
theorem writer_is_own {s : State} (hq : SeqInv s) {k : Nat} {c : Call} (hc : s.calls k = some c) {q : Nat}
    (hcq : c.seq = some q) {src : Nat} {u : UInt8} (hw : (src, q, u) ∈ s.writes) : src = k := by
  obtain ⟨c', hc', hq'⟩ := hq.2.2 src q u hw
  exact hq.2.1 src k c' c q hc' hc hq' hcq

theorem reply_is_own_inv {s : State} (hv : ProvInv s) (hq : SeqInv s) (k : Nat) (c : Call)
    (hc : s.calls k = some c) (src : Nat) (kd : RespKind) (hr : c.replyFrom = some (src, kd))
    (hp : ∀ f, f ∈ s.fed → f.junk = false → f.kind = kd → ∃ u, (f.src, f.seq, u) ∈ s.writes) : src = k := by
  obtain ⟨q, hcq, hf⟩ := (hv k c hc).1 src kd hr
  obtain ⟨u, hw⟩ := hp _ hf rfl rfl
  exact writer_is_own hq hc hcq hw

/-- C01: a success reply decoded into call `k` was computed by the peer for call `k` -/
theorem reply_is_own {cfg : Cfg} {tr : List Ev} {s : State} (h : Accepts (init cfg) tr s)
    (hp : PeerAnswersOwn s) (k : Nat) (c : Call) (hc : s.calls k = some c) (src : Nat)
    (hr : c.replyFrom = some (src, .ok)) : src = k :=
  reply_is_own_inv (provInv_accepts h) (seqInv_accepts h) k c hc src .ok hr
    (fun f hf hj hk => hp f hf hj (.inl hk))

theorem reply_is_own_empty {cfg : Cfg} {tr : List Ev} {s : State} (h : Accepts (init cfg) tr s)
    (hp : PeerAnswersOwn s) (k : Nat) (c : Call) (hc : s.calls k = some c) (src : Nat)
    (hr : c.replyFrom = some (src, .empty)) : src = k :=
  reply_is_own_inv (provInv_accepts h) (seqInv_accepts h) k c hc src .empty hr
    (fun f hf hj hk => hp f hf hj (.inr hk))

/-- C01 for server errors: an error text stored in call `k` was produced by the peer for call `k` -/
theorem error_is_own {cfg : Cfg} {tr : List Ev} {s : State} (h : Accepts (init cfg) tr s)
    (hp' : ∀ f, f ∈ s.fed → f.junk = false → ∀ n, f.kind = .err n → ∃ u, (f.src, f.seq, u) ∈ s.writes)
    (k : Nat) (c : Call) (hc : s.calls k = some c) (src n : Nat) (he : Err.text src n ∈ c.errHist) :
    src = k := by
  obtain ⟨q, hcq, hf⟩ := (provInv_accepts h k c hc).2 src n he
  obtain ⟨u, hw⟩ := hp' _ hf rfl n rfl
  exact writer_is_own (seqInv_accepts h) hc hcq hw

/-! ## C. Close releases the connection's threads (C20, Conn part) -/

section quiescent
variable {s : State} (hi : InvS s) (ha : AuxInv s) (hq : Quiescent s) (hg : NoGateHeld s)
include hi ha hq hg

omit hi hg in
theorem q_decodeQ_nil : s.decodeQ = [] := by
  cases hd : s.cfg.directIO with
  | true => exact ha.1.1 hd
  | false =>
    cases hdq : s.decodeQ with
    | nil => rfl
    | cons f rest =>
      exact absurd (hq _ (by simp [threadEvs])) (en_decodeQ hd (by simp [hdq]))

theorem q_sendQ_nil' : s.sendQ = [] := by
  cases hp : s.cfg.pipe with
  | true => exact q_sendQ_nil hi ha hq hg hp
  | false => exact (ha.1.2.2.1 hp).2

theorem q_reader_done : s.reader = .waiting ∨ s.reader = .exited := by
  cases hr : s.reader with
  | waiting => exact .inl rfl
  | exited => exact .inr rfl
  | decoding f =>
    exfalso
    have hd : s.cfg.directIO = true := by
      cases hd : s.cfg.directIO with
      | true => rfl
      | false => exact absurd hr (ha.1.2.2.2.1 hd f 0).1
    exact en_decodeD hd hr (hq _ (by simp [threadEvs]))
  | finishing k f => exact absurd hr (q_noFinishing hi ha hq hg k f)
  | ended e =>
    exact absurd (hq _ (by simp [threadEvs])) (en_sweep hr (q_decodeQ_nil ha hq))
  | swept =>
    exfalso
    have : step s .closeSendQ ≠ none := by
      simp [step, hr, q_sendQ_nil' hi ha hq hg]
    exact this (hq _ (by simp [threadEvs]))
  | wclosed =>
    exfalso
    have : step s .closeFinQ ≠ none := by
      simp [step, hr, q_finQ_nil hi ha hq hg]
    exact this (hq _ (by simp [threadEvs]))

end quiescent

/-- At quiescence with no gate held the reader is either still waiting for input or has run its
    whole teardown. -/
theorem quiescent_reader_done (s : State) (hi : InvS s) (ha : AuxInv s) (hq : Quiescent s)
    (hg : NoGateHeld s) : s.reader = .waiting ∨ s.reader = .exited :=
  q_reader_done hi ha hq hg

/-- After a local Close, once nothing can move and nothing is held: the reader has exited, every
    queue is empty, nothing is registered and every call has been completed. -/
theorem quiescent_closed_released (s : State) (hi : InvS s) (ha : AuxInv s) (hq : Quiescent s)
    (hg : NoGateHeld s) (hc : s.msgsClosed = true) :
    s.reader = .exited ∧ s.pending = [] ∧ s.sendQ = [] ∧ s.finQ = [] ∧ s.decodeQ = [] ∧
      s.shutdown = true ∧ ∀ k c, s.calls k = some c → c.signals = 1 := by
  have hr : s.reader = .exited := by
    rcases q_reader_done hi ha hq hg with hr | hr
    · exact absurd (hq _ (by simp [threadEvs])) (en_seeClose hr hc)
    · exact hr
  have hsh : s.shutdown = true := hi.1.2.2.1.2 (.inr (.inr hr))
  refine ⟨hr, hi.1.2.2.1.1 hsh, q_sendQ_nil' hi ha hq hg, q_finQ_nil hi ha hq hg,
    q_decodeQ_nil ha hq, hsh, ?_⟩
  intro k c hk
  rcases quiescent_completed s hi ha hq hg k c hk with h | ⟨_, _, h⟩
  · exact h
  · rw [hc] at h; cases h

/-- Close is idempotent: a second Close returns ErrShutdown and changes nothing else. -/
theorem second_close (s : State) (hc : s.closing = true) :
    ∃ s', step s .close = some s' ∧ s'.closeRet = s.closeRet ++ [some .shutdown] ∧ s'.calls = s.calls ∧
      s'.pending = s.pending ∧ s'.reader = s.reader :=
  ⟨{ s with closeRet := s.closeRet ++ [some .shutdown] }, by simp [step, hc], rfl, rfl, rfl, rfl⟩

/-! ### the concurrent completion bag only holds finishCall tasks -/

/-- `call.done()` never goes through the bag of concurrent completion tasks -/
def BagFin (s : State) : Prop := ∀ t, t ∈ s.finBag → ∃ k f, t = Task.fin k f

theorem bagFin_init (cfg : Cfg) : BagFin (init cfg) := by
  intro t h; simp [init] at h

theorem bagFin_of {s s' : State} (h : BagFin s)
    (hs : ∀ t, t ∈ s'.finBag → t ∈ s.finBag ∨ ∃ k f, t = Task.fin k f) : BagFin s' := by
  intro t ht
  rcases hs t ht with h' | h'
  · exact h t h'
  · exact h'

theorem bagFin_eq {s s' : State} (h : BagFin s) (he : s'.finBag = s.finBag) : BagFin s' :=
  bagFin_of h (fun t ht => .inl (he ▸ ht))

theorem bagFin_readFrame {s : State} (h : BagFin s) (f : Frame) : BagFin (readFrame s f).1 := by
  rcases readFrame_cases s f with h' | h' | ⟨k', c, _, _, _, h'⟩
  · rw [h']; exact h
  · rw [h']; exact h
  · rcases h' with ⟨e, _, h'⟩ | ⟨_, h'⟩ | ⟨_, h'⟩ | ⟨_, _, h'⟩ | ⟨_, _, h'⟩ <;> rw [h']
    · exact bagFin_eq h (untouched_failCall _ _ _).finBag
    · exact bagFin_eq h (untouched_signal _ _).finBag
    · exact h
    · exact h
    · refine bagFin_of h (fun t ht => ?_)
      have ht' : t ∈ s.finBag ++ [Task.fin k' f] := ht
      rw [List.mem_append, List.mem_singleton] at ht'
      rcases ht' with ht' | ht'
      · exact .inl ht'
      · exact .inr ⟨k', f, ht'⟩

theorem bagFin_send {s s' : State} (h : BagFin s) (hs : SendShape s s') : BagFin s' := by
  cases hs with
  | start c => exact h
  | sentPlain k c g => exact bagFin_eq h (by simp)
  | sentFail k c e g => exact bagFin_eq h (by simp [failCall])
  | sentReg k c w g => exact bagFin_eq h (by simp [regd])
  | reg k c w ph g => exact bagFin_eq h (by simp [regd])
  | setPhase => exact h

theorem bagFin_shape {s s' : State} (h : BagFin s) (hs : Shape s s') : BagFin s' := by
  cases hs with
  | send _ hs => exact bagFin_send h hs
  | feedD f hd => exact h
  | feedQ f hd => exact h
  | setReader r hr => exact h
  | close => exact h
  | decodeD f hd hr => exact bagFin_readFrame h f
  | decodeQ f rest hd hq => exact bagFin_readFrame (s := { s with decodeQ := rest }) h f
  | finishR k f hr => exact bagFin_eq h (untouched_finishCall s k f).finBag
  | finishQ k f rest hp hq => exact bagFin_eq h (untouched_finishCall { s with finQ := rest } k f).finBag
  | finishB k f hp hm =>
    refine bagFin_of h (fun t ht => .inl ?_)
    have ht' : t ∈ s.finBag.filter (notFin k) := by
      have := (untouched_finishCall { s with finBag := s.finBag.filter (notFin k) } k f).finBag
      rw [this] at ht; exact ht
    exact (List.mem_filter.1 ht').1
  | runDone k rest hq => exact bagFin_eq h (untouched_signal { s with finQ := rest } k).finBag
  | inert k g hg => exact h
  | sweep e hr => exact bagFin_eq h (sweepAll_untouched s e).finBag

theorem bagFin_step {s s' : State} {e : Ev} (h : BagFin s) (hs : step s e = some s') : BagFin s' :=
  bagFin_shape h (step_shape hs)

theorem bagFin_accepts_from {s₀ : State} {tr : List Ev} {s : State} (h0 : BagFin s₀)
    (h : Accepts s₀ tr s) : BagFin s := by
  induction h with
  | nil s => exact h0
  | cons hstep _ ih => exact ih (bagFin_step h0 hstep)

theorem bagFin_accepts {cfg : Cfg} {tr : List Ev} {s : State} (h : Accepts (init cfg) tr s) : BagFin s :=
  bagFin_accepts_from (bagFin_init cfg) h

/-- at quiescence with no gate held no concurrent completion task is left -/
theorem quiescent_finBag_nil (s : State) (hi : InvS s) (ha : AuxInv s) (hq : Quiescent s)
    (hg : NoGateHeld s) (hb : BagFin s) : s.finBag = [] := by
  cases hp : s.cfg.pipe with
  | true => exact ha.1.2.1 hp
  | false =>
    cases hfb : s.finBag with
    | nil => rfl
    | cons t rest =>
      exfalso
      have hm : t ∈ s.finBag := by simp [hfb]
      obtain ⟨k, f, rfl⟩ := hb t hm
      obtain ⟨_, _, c, hc, _⟩ := ha.2.2.1.1 k f (.inr (.inl hm))
      exact en_finishB (q_gate hg k) (q_noFinishing hi ha hq hg) hp hm
        (hq _ (mem_threadEvs_id (ids_of_call hi hc)).2.2.2.1)

/-- C20 (Conn part) on runs: after a local Close, in any reachable state where no library thread
    can move and the environment holds no gate, the reader has exited, every queue and the bag
    of completion tasks are empty, nothing is registered and every call has been completed. -/
theorem closed_released {cfg : Cfg} {tr : List Ev} {s : State} (h : Accepts (init cfg) tr s)
    (hq : Quiescent s) (hg : NoGateHeld s) (hc : s.msgsClosed = true) :
    s.reader = .exited ∧ s.pending = [] ∧ s.sendQ = [] ∧ s.finQ = [] ∧ s.finBag = [] ∧ s.decodeQ = [] ∧
      s.shutdown = true ∧ ∀ k c, s.calls k = some c → c.signals = 1 := by
  have hi := invS_accepts h
  have ha := auxInv_accepts h
  obtain ⟨h1, h2, h3, h4, h5, h6, h7⟩ := quiescent_closed_released s hi ha hq hg hc
  exact ⟨h1, h2, h3, h4, quiescent_finBag_nil s hi ha hq hg (bagFin_accepts h), h5, h6, h7⟩

end RpcVerif.K
