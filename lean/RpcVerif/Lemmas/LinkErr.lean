import RpcVerif.Lemmas.Link
/-
  C06 end to end over the product L = K ‖ link ‖ S (Model/Link.lean): a server error text stored in a
  call is the error the handler of that call's own request returned.

  S: `TE` is an inductive invariant of S alone (no assumption on sequence numbers): every response
     carrying an error text `.text a n` has `a` = its own sequence number, and the FIRST job with that
     sequence number (`getJob`) has left, ran, and holds the verdict `.err n`. Because `enter`, `hret`
     and `leave` all look the job up with `getJob` and need it queued / entered, a sequence number
     whose first job has left is never touched again by `updJob`, so the witness is stable even when
     the peer repeats sequence numbers.
  L: from `L.Inv` (frame provenance), `K.ProvInv` (an error text in a call comes from a fed error
     frame with the call's own sequence number), `K.SeqInv` (the writer of a sequence number is its
     call), `S.TE`, and `S.resp_at_most_once` under `L.unique_seq`.
-/
namespace RpcVerif.S
open RpcVerif

set_option linter.unusedVariables false

/-- the response does not carry a handler's error text -/
def NT (p : Resp) : Prop := ∀ a n, p.err ≠ .text a n

@[simp] theorem respond_jobs (s : State) (r : Req) (e : RespErr) (o : Bool) : (respond s r e o).jobs = s.jobs := by
  unfold respond; split <;> rfl

@[simp] theorem updJob_jobs (s : State) (k : Nat) (f : Job → Job) : (updJob s k f).jobs = upd k f s.jobs := rfl

@[simp] theorem updJob_resps (s : State) (k : Nat) (f : Job → Job) : (updJob s k f).resps = s.resps := rfl

/-! ### `getJob` across `updJob` -/

theorem find_upd_ne {k q : Nat} {f : Job → Job} (hf : ∀ j, (f j).req = j.req) (hne : k ≠ q) (js : List Job) :
    (upd k f js).find? (·.req.seq == q) = js.find? (·.req.seq == q) := by
  induction js with
  | nil => rfl
  | cons a l ih =>
    have hcons : upd k f (a :: l) = (if a.req.seq == k then f a else a) :: upd k f l := rfl
    rw [hcons, List.find?_cons, List.find?_cons, ih]
    by_cases hk : a.req.seq = k
    · have h1 : (a.req.seq == k) = true := by simp [hk]
      have h3 : (a.req.seq == q) = false := by simp [hk, hne]
      have h2 : ((f a).req.seq == q) = false := by rw [hf]; exact h3
      simp only [h1, if_true, h2, h3]
    · have h1 : (a.req.seq == k) = false := by simp [hk]
      simp only [h1, Bool.false_eq_true, if_false]

theorem find_upd_eq {k : Nat} {f : Job → Job} (hf : ∀ j, (f j).req = j.req) {js : List Job} {j : Job}
    (h : js.find? (·.req.seq == k) = some j) : (upd k f js).find? (·.req.seq == k) = some (f j) := by
  induction js with
  | nil => cases h
  | cons a l ih =>
    have hcons : upd k f (a :: l) = (if a.req.seq == k then f a else a) :: upd k f l := rfl
    rw [hcons, List.find?_cons]
    rw [List.find?_cons] at h
    by_cases hk : a.req.seq = k
    · have h1 : (a.req.seq == k) = true := by simp [hk]
      have h2 : ((f a).req.seq == k) = true := by rw [hf]; exact h1
      simp only [h1] at h
      cases h
      simp only [h1, if_true, h2]
    · have h1 : (a.req.seq == k) = false := by simp [hk]
      simp only [h1] at h
      simp only [h1, Bool.false_eq_true, if_false]
      exact ih h

/-! ### where a response carrying an error text comes from -/

theorem respond_nt (s : State) (r : Req) (e : RespErr) (o : Bool) (he : ∀ a n, e ≠ .text a n) :
    ∀ p ∈ (respond s r e o).resps, p ∈ s.resps ∨ NT p := by
  intro p hp
  rcases respond_resps s r e o p hp with h | ⟨_, h⟩
  · exact .inl h
  · exact .inr (fun a n hpe => he a n (by rw [← h, hpe]))

theorem respondNoReply_nt (s : State) (r : Req) : ∀ p ∈ (respondNoReply s r).resps, p ∈ s.resps ∨ NT p := by
  unfold respondNoReply
  split
  · exact fun p hp => .inl hp
  · exact respond_nt s r .none false (by intro a n h; cases h)

theorem serveRequest_nt (s : State) (r : Req) : ∀ p ∈ (serveRequest s r).resps, p ∈ s.resps ∨ NT p := by
  unfold serveRequest
  repeat' split
  all_goals first
    | exact fun p hp => .inl hp
    | exact respondNoReply_nt s r
    | exact respond_nt s r _ false (by intro a n h; cases h)

/-- where a response of the next state comes from, as far as error texts go -/
def NewText (s : State) (e : Ev) (p : Resp) : Prop :=
  p ∈ s.resps ∨ NT p ∨
    ∃ k j n, e = .leave k ∧ getJob s k = some j ∧ j.phase = .entered ∧ j.verdict = some (.err n) ∧
      p.seq = k ∧ p.err = .text k n

theorem newText_of {s : State} {e : Ev} {p : Resp} (h : p ∈ s.resps ∨ NT p) : NewText s e p := by
  rcases h with h | h
  · exact .inl h
  · exact .inr (.inl h)

theorem step_text {s s' : State} {e : Ev} (hs : step s e = some s') : ∀ p ∈ s'.resps, NewText s e p := by
  unfold step at hs
  split at hs
  · cases hs
  cases e with
  | decode =>
    simp only [stepCore] at hs
    split at hs
    · split at hs
      · cases hs
        exact fun p hp => newText_of (serveRequest_nt s _ p hp)
      · cases hs
    · split at hs
      · rename_i r rest hq
        cases hs
        exact fun p hp => newText_of (serveRequest_nt { s with decodeQ := rest } r p hp)
      · cases hs
  | enter k =>
    simp only [stepCore] at hs
    split at hs
    · rename_i j hj
      split at hs
      · cases hs
      · repeat' split at hs
        all_goals first
          | (cases hs; exact fun p hp => .inl hp)
          | (cases hs
             exact fun p hp => newText_of
               (respond_nt (updJob s k fun j => { j with phase := .left }) j.req _ false
                 (by intro a n h; cases h) p hp))
    · cases hs
  | leave k =>
    simp only [stepCore] at hs
    split at hs
    · rename_i j hj
      split at hs
      · cases hs
      · rename_i hph
        have hph' : j.phase = .entered := by simpa using hph
        split at hs
        · cases hs
        · cases hs
          intro p hp
          have hp' : p ∈ (match j.verdict.getD .ok with
              | Verdict.ok => respond (updJob s k fun j => { j with phase := .left }) j.req .none true
              | Verdict.err n => respond (updJob s k fun j => { j with phase := .left }) j.req (.text k n) false
              | Verdict.badReply =>
                if (flags j.req).noResponse != Gen.noResponse then
                  (if (updJob s k fun j => { j with phase := .left }).codecClosed then
                      (updJob s k fun j => { j with phase := .left })
                   else { (updJob s k fun j => { j with phase := .left }) with
                      resps := (updJob s k fun j => { j with phase := .left }).resps ++
                        [({ seq := j.req.seq, err := .badreply, reply := .empty } : Resp)] })
                else respond (updJob s k fun j => { j with phase := .left }) j.req .none true : State).resps := hp
          have hown : ∀ p ∈ (respond (updJob s k fun j => { j with phase := .left }) j.req .none true).resps,
              NewText s (.leave k) p := fun p hp =>
            newText_of (respond_nt (updJob s k fun j => { j with phase := .left }) j.req .none true
              (by intro a n h; cases h) p hp)
          split at hp'
          · exact hown p hp'
          · rename_i n hv
            rcases respond_resps _ _ _ _ p hp' with h | ⟨h1, h2⟩
            · exact .inl h
            · have hver : j.verdict = some (.err n) := by
                cases hjv : j.verdict with
                | none => rw [hjv] at hv; cases hv
                | some v => rw [hjv] at hv; exact congrArg some hv
              exact .inr (.inr ⟨k, j, n, rfl, hj, hph', hver, by rw [h1]; exact (getJob_mem hj).2, h2⟩)
          · split at hp'
            · split at hp'
              · exact .inl hp'
              · have hp'' : p ∈ s.resps ++ [({ seq := j.req.seq, err := .badreply, reply := .empty } : Resp)] := hp'
                rw [List.mem_append, List.mem_singleton] at hp''
                rcases hp'' with h | rfl
                · exact .inl h
                · exact .inr (.inl (by intro a n h; cases h))
            · exact hown p hp'
    · cases hs
  | _ =>
    simp only [stepCore] at hs
    repeat' split at hs
    all_goals first
      | (cases hs; done)
      | (cases hs; exact fun p hp => .inl hp)

theorem step_leave_jobs {s s' : State} {k : Nat} (hs : step s (.leave k) = some s') :
    s'.jobs = upd k (fun j => { j with phase := .left }) s.jobs := by
  unfold step at hs
  split at hs
  · cases hs
  simp only [stepCore] at hs
  split at hs
  · split at hs
    · cases hs
    · split at hs
      · cases hs
      · cases hs
        show (match _ with | Verdict.ok => _ | Verdict.err _ => _ | Verdict.badReply => _ : State).jobs = _
        split
        · simp
        · simp
        · split
          · split <;> rfl
          · simp
  · cases hs

/-! ### the invariant -/

structure TE (s : State) : Prop where
  /-- a job in its handler was entered -/
  ran : ∀ j ∈ s.jobs, j.phase = .entered → j.ran = true
  /-- an error text was written by `leave` of the (first) job of its sequence number, which ran and returned it -/
  resp : ∀ p ∈ s.resps, ∀ a n, p.err = .text a n →
    a = p.seq ∧ ∃ job, getJob s p.seq = some job ∧ job.verdict = some (.err n) ∧ job.ran = true ∧ job.phase = .left

theorem te_init (cfg : Cfg) : TE (init cfg) :=
  ⟨fun j hj _ => (by cases hj), fun p hp _ _ _ => (by cases hp)⟩

theorem te_tr_ran {s s' : State} (h : ∀ j ∈ s.jobs, j.phase = .entered → j.ran = true) (htr : Tr s s') :
    ∀ j ∈ s'.jobs, j.phase = .entered → j.ran = true := by
  cases htr with
  | newJob r rd dq =>
    intro j hj hp
    have hj' : j ∈ s.jobs ++ [{ req := r }] := hj
    rw [List.mem_append, List.mem_singleton] at hj'
    rcases hj' with hj' | rfl
    · exact h j hj' hp
    · cases hp
  | early k j0 ps hj0 =>
    intro j hj hp
    obtain ⟨j1, hj1, ⟨_, rfl⟩ | rfl⟩ := mem_upd hj
    · cases hp
    · exact h _ hj1 hp
  | leave k j0 ps hj0 =>
    intro j hj hp
    obtain ⟨j1, hj1, ⟨_, rfl⟩ | rfl⟩ := mem_upd hj
    · cases hp
    · exact h _ hj1 hp
  | enter k j0 hj0 =>
    intro j hj hp
    obtain ⟨j1, hj1, ⟨hk, rfl⟩ | rfl⟩ := mem_upd hj
    · rfl
    · exact h _ hj1 hp
  | hret k j0 v hj0 =>
    intro j hj hp
    obtain ⟨j1, hj1, ⟨_, rfl⟩ | rfl⟩ := mem_upd hj
    · exact h j1 hj1 hp
    · exact h _ hj1 hp
  | _ => exact h

/-- once the first job of a sequence number has left, no transition touches it -/
theorem getJob_left_tr {s s' : State} (htr : Tr s s') {q : Nat} {job : Job} (hjob : getJob s q = some job)
    (hl : job.phase = .left) : getJob s' q = some job := by
  have key : ∀ (k : Nat) (j : Job) (f : Job → Job), (∀ x, (f x).req = x.req) → getJob s k = some j →
      j.phase ≠ .left → (upd k f s.jobs).find? (·.req.seq == q) = some job := by
    intro k j f hf hj hne
    by_cases hkq : k = q
    · subst hkq
      rw [hjob] at hj
      cases hj
      exact absurd hl hne
    · rw [find_upd_ne hf hkq]; exact hjob
  cases htr with
  | newJob r rd dq =>
    show (s.jobs ++ [({ req := r } : Job)]).find? (·.req.seq == q) = some job
    rw [List.find?_append]
    have : s.jobs.find? (·.req.seq == q) = some job := hjob
    rw [this]; rfl
  | early k j0 ps hj0 hq0 =>
    exact key k j0 _ (fun _ => rfl) hj0 (by rw [hq0]; simp)
  | leave k j0 ps hj0 hq0 =>
    exact key k j0 _ (fun _ => rfl) hj0 (by rw [hq0]; simp)
  | enter k j0 hj0 hq0 =>
    exact key k j0 _ (fun _ => rfl) hj0 (by rw [hq0]; simp)
  | hret k j0 v hj0 hq0 =>
    exact key k j0 _ (fun _ => rfl) hj0 (by rw [hq0]; simp)
  | _ => exact hjob

theorem te_step {s s' : State} {e : Ev} (hb : Base s) (h : TE s) (hs : step s e = some s') : TE s' := by
  have htr := step_shape allFlags_true hb.td hs
  refine ⟨te_tr_ran h.ran htr, ?_⟩
  intro p hp a n he
  rcases step_text hs p hp with h1 | h1 | ⟨k, j, m, hev, hj, hph, hv, hseq, herr⟩
  · obtain ⟨ha, job, hjob, hv, hr, hl⟩ := h.resp p h1 a n he
    exact ⟨ha, job, getJob_left_tr htr hjob hl, hv, hr, hl⟩
  · exact absurd he (h1 a n)
  · subst hev
    have hjobs := step_leave_jobs hs
    rw [herr] at he
    injection he with hak hmn
    subst hak hmn
    refine ⟨hseq.symm, ({ j with phase := .left } : Job), ?_, hv, h.ran j (getJob_mem hj).1 hph, rfl⟩
    show s'.jobs.find? (·.req.seq == p.seq) = _
    rw [hjobs, hseq]
    exact find_upd_eq (f := fun j => { j with phase := .left }) (fun _ => rfl) hj

theorem te_accepts {cfg : Cfg} {tr : List Ev} {s : State} (h : Accepts (init cfg) tr s) : TE s :=
  (accepts_preserves (P := fun s => Base s ∧ TE s)
    (fun _ _ _ hp hs => ⟨base_step allFlags_true hp.1 hs, te_step hp.1 hp.2 hs⟩) h
    ⟨base_init cfg, te_init cfg⟩).2

/-- a response carrying a handler's error text was written by `leave` of the job with that sequence
    number, whose handler was entered and returned exactly that error -/
theorem text_error_is_handlers {cfg : Cfg} {tr : List Ev} {s : State} (h : Accepts (init cfg) tr s)
    (p : Resp) (hp : p ∈ s.resps) (j n : Nat) (he : p.err = .text j n) :
    j = p.seq ∧ ∃ job, job ∈ s.jobs ∧ job.req.seq = p.seq ∧ job.verdict = some (.err n) ∧ job.ran = true := by
  obtain ⟨hj, job, hjob, hv, hr, _⟩ := (te_accepts h).resp p hp j n he
  exact ⟨hj, job, (getJob_mem hjob).1, (getJob_mem hjob).2, hv, hr⟩

/-- two responses for one sequence number cannot both be the only one -/
theorem resp_unique_of_count {s : State} {k : Nat} (hc : respCount s k ≤ 1) {p p' : Resp}
    (hp : p ∈ s.resps) (hp' : p' ∈ s.resps) (hk : p.seq = k) (hk' : p'.seq = k) : p = p' := by
  unfold respCount at hc
  have m : p ∈ s.resps.filter (·.seq == k) := List.mem_filter.2 ⟨hp, by simp [hk]⟩
  have m' : p' ∈ s.resps.filter (·.seq == k) := List.mem_filter.2 ⟨hp', by simp [hk']⟩
  generalize s.resps.filter (·.seq == k) = l at hc m m'
  match l, hc, m, m' with
  | [], _, m, _ => cases m
  | [x], _, m, m' =>
    rw [List.mem_singleton] at m m'
    rw [m, m']
  | _ :: _ :: _, hc, _, _ => simp at hc

end RpcVerif.S

namespace RpcVerif.L
open RpcVerif

set_option linter.unusedVariables false

theorem kindOf_err_ne_none {p : S.Resp} {n : Nat} (h : kindOf p = .err n) : p.err ≠ .none := by
  intro he
  unfold kindOf at h
  rw [he] at h
  simp only [] at h
  cases hr : p.reply <;> rw [hr] at h <;> cases h

theorem kindOf_err_pos {p : S.Resp} {n : Nat} (h : kindOf p = .err n) (hn : 0 < n) : ∃ a, p.err = .text a n := by
  unfold kindOf at h
  cases he : p.err with
  | none =>
    rw [he] at h
    simp only [] at h
    cases hr : p.reply <;> rw [hr] at h <;> cases h
  | text a m =>
    rw [he] at h
    simp only [] at h
    injection h with h
    exact ⟨a, by rw [h]⟩
  | _ =>
    rw [he] at h
    simp only [] at h
    injection h with h
    omega

/-- C06 end to end, no hypothesis on the peer: a server error stored in a call was written by the
    server for that call's own sequence number, and it is that call's (src = k) -/
theorem error_end_to_end {cfg : Cfg} {tr : List Ev} {s : State} (h : Accepts (init cfg) tr s)
    (k : Nat) (c : K.Call) (hc : s.k.calls k = some c) (src n : Nat) (he : K.Err.text src n ∈ c.errHist) :
    src = k ∧ ∃ q, c.seq = some q ∧ ∃ p, p ∈ s.s.resps ∧ p.seq = q ∧ kindOf p = .err n := by
  have hi := inv_accepts h
  obtain ⟨trK, hK⟩ := hi.krun
  obtain ⟨q, hcq, hfed⟩ := (K.provInv_accepts hK k c hc).2 src n he
  obtain ⟨_, p, hp, hseq, hkind, hcar⟩ := hi.resp _ (.inr hfed)
  obtain ⟨u, hw⟩ := hi.carried_written (carrier_mem hcar)
  have hq : q = p.seq := hseq
  refine ⟨K.writer_is_own (K.seqInv_accepts hK) hc hcq (by rw [hq]; exact hw), q, hcq, p, hp, hq.symm, hkind.symm⟩

/-- verbatim: a non-empty error text stored in a call is exactly the error the handler of that call's
    own request returned -/
theorem handler_error_reaches_its_call {cfg : Cfg} {tr : List Ev} {s : State} (h : Accepts (init cfg) tr s)
    (k : Nat) (c : K.Call) (hc : s.k.calls k = some c) (src n : Nat) (he : K.Err.text src n ∈ c.errHist) (hn : 0 < n) :
    src = k ∧ ∃ q job, c.seq = some q ∧ job ∈ s.s.jobs ∧ job.req.seq = q ∧ job.verdict = some (.err n) ∧ job.ran = true := by
  obtain ⟨hsrc, q, hcq, p, hp, hpq, hkind⟩ := error_end_to_end h k c hc src n he
  obtain ⟨trS, hS⟩ := server_run h
  obtain ⟨a, ha⟩ := kindOf_err_pos hkind hn
  obtain ⟨_, job, hjob, hseq, hv, hr⟩ := S.text_error_is_handlers hS p hp a n ha
  exact ⟨hsrc, q, job, hcq, hjob, by rw [hseq, hpq], hv, hr⟩

/-- exactly the failing call: a call whose own request's handler returned success (a job for its
    sequence number left with an own reply, i.e. a response with err = none for it is in the
    server's log) never holds a server error text -/
theorem success_never_becomes_an_error {cfg : Cfg} {tr : List Ev} {s : State} (h : Accepts (init cfg) tr s)
    (k : Nat) (c : K.Call) (hc : s.k.calls k = some c) (q : Nat) (hq : c.seq = some q)
    (p : S.Resp) (hp : p ∈ s.s.resps) (hpq : p.seq = q) (hok : p.err = .none) :
    ∀ src n, K.Err.text src n ∉ c.errHist := by
  intro src n he
  obtain ⟨_, q', hcq', p', hp', hpq', hkind⟩ := error_end_to_end h k c hc src n he
  obtain ⟨trS, hS⟩ := server_run h
  have hqq : q' = q := by rw [hq] at hcq'; exact (Option.some.inj hcq').symm
  subst hqq
  have hcount := S.resp_at_most_once hS (unique_seq h) q'
  have heq : p = p' := S.resp_unique_of_count hcount hp hp' hpq hpq'
  subst heq
  exact kindOf_err_ne_none hkind hok

/-! ### non-vacuity: call 1's handler returns an error of length 5, call 2's returns ok; call 1 ends
    holding exactly that error text (attributed to itself), call 2 its own reply -/

example : ((runTrace (init ⟨⟨false, false⟩, ⟨false, false⟩, fun k => { seq := 0, hold := k == 1 }⟩)
    [.client (.start { k := 1, form := .go, replyLen := 8 }), .client (.start { k := 2, form := .go, replyLen := 8 }),
     .client (.sendLock 1), .client (.sendLock 2), .send, .send, .deliverReq, .deliverReq,
     .server .decode, .server .decode, .server (.enter 0), .server (.enter 1),
     .server (.hret 0 (.err 5)), .server (.leave 1), .server (.leave 0),
     .answer, .answer,
     .deliverResp, .client .decode, .client (.finish 2), .deliverResp, .client .decode]).map
      (fun s => ((s.k.calls 1).map (·.errHist), (s.k.calls 2).bind (·.replyFrom), s.s.resps.map (·.err), s.s.execs))) =
    some (some [.text 1 5], some (2, .ok), [.none, .text 0 5], [0, 1]) := by decide

end RpcVerif.L
