import RpcVerif.Lemmas.PoolInv
/-
  C15, second half: what a housekeeping pass `tick s clock` reclaims.

  (A) `tick_retires_stale`              a connection unused for longer than KeepAlive leaves the active lists;
  (B) `tick_retired_goes_idle_or_closes` it is then in an idle queue, or its socket is closed;
  (C) `tick_closes_expired_queue`       an idle queue all of whose entries are older than IdleConnTimeout is closed
                                        (provided the same pass does not retire a younger connection into it);
  (D) non-vacuity examples on concrete runs.
-/
namespace RpcVerif.P
open RpcVerif

/-! ### membership in the rebuilt association lists -/

theorem mem_lset {β : Type} (l : List (Nat × β)) (a : Nat) (v : β) (b : Nat) (w : β)
    (h : (b, w) ∈ lset l a v) : (b = a ∧ w = v) ∨ (b ≠ a ∧ (b, w) ∈ l) := by
  unfold lset at h
  split at h
  · obtain ⟨e, he, hf⟩ := List.mem_map.1 h
    by_cases hk : e.1 = a
    · left
      have : (e.1 == a) = true := by simp [hk]
      rw [if_pos this] at hf
      injection hf with h1 h2
      exact ⟨h1.symm, h2.symm⟩
    · right
      have : ¬ ((e.1 == a) = true) := by simp [hk]
      rw [if_neg this] at hf
      subst hf
      exact ⟨hk, he⟩
  · next hany =>
    rcases List.mem_append.1 h with h | h
    · right
      refine ⟨?_, h⟩
      intro e
      apply hany
      exact (any_iff_keys l a).2 (e ▸ mem_keys l b w h)
    · left
      have := List.mem_singleton.1 h
      injection this with h1 h2
      exact ⟨h1, h2⟩

theorem mem_ldel {β : Type} (l : List (Nat × β)) (a : Nat) (b : Nat) (w : β)
    (h : (b, w) ∈ ldel l a) : b ≠ a ∧ (b, w) ∈ l := by
  unfold ldel at h
  obtain ⟨h1, h2⟩ := List.mem_filter.1 h
  exact ⟨by simpa using h2, h1⟩

theorem mem_virt_active (s : State) (a : Nat) (L : List Nat) (cur : Nat) (b : Nat) (cs : List Nat) (cur' : Nat)
    (h : (b, cs, cur') ∈ (virt s a L cur).active) : (b = a ∧ cs = L) ∨ (b ≠ a ∧ (b, cs, cur') ∈ s.active) := by
  unfold virt at h
  split at h
  · right; exact mem_ldel _ _ _ _ h
  · rcases mem_lset _ _ _ _ _ h with ⟨h1, h2⟩ | h2
    · left; injection h2 with h2 _; exact ⟨h1, h2⟩
    · right; exact h2

/-! ### frames: what the housekeeping steps leave unchanged -/

/-- connection records only change by closing sockets; the time-outs do not change -/
def Fr (s s' : State) : Prop := OC s s' ∧ s'.keepAlive = s.keepAlive ∧ s'.idleTO = s.idleTO

theorem Fr.refl (s : State) : Fr s s := ⟨OC.refl s, rfl, rfl⟩

theorem Fr.trans {s s' s'' : State} (h1 : Fr s s') (h2 : Fr s' s'') : Fr s s'' :=
  ⟨h1.1.trans h2.1, h2.2.1.trans h1.2.1, h2.2.2.trans h1.2.2⟩

theorem oc_some {s s' : State} (h : OC s s') (j : Nat) (p' : PConn) (hp : s'.pcs j = some p') :
    ∃ p, s.pcs j = some p ∧ p.lastUse = p'.lastUse ∧ p.calls = p'.calls := by
  rcases h j with e | e
  · exact ⟨p', by rw [← e]; exact hp, rfl, rfl⟩
  · rw [hp] at e
    cases hs : s.pcs j with
    | none => rw [hs] at e; cases e
    | some p =>
      rw [hs] at e
      simp only [Option.map_some] at e
      injection e with e
      subst e
      exact ⟨p, rfl, rfl, rfl⟩

theorem oc_some' {s s' : State} (h : OC s s') (j : Nat) (p : PConn) (hp : s.pcs j = some p) :
    ∃ p', s'.pcs j = some p' ∧ p'.lastUse = p.lastUse ∧ p'.calls = p.calls ∧ (p.isOpen = false → p'.isOpen = false) := by
  rcases h j with e | e
  · exact ⟨p, by rw [e]; exact hp, rfl, rfl, fun h => h⟩
  · rw [hp] at e
    exact ⟨_, e, rfl, rfl, fun _ => rfl⟩

theorem closed_of_oc {s s' : State} (h : OC s s') (j : Nat) (hc : isOpenId s j = false) : isOpenId s' j = false := by
  unfold isOpenId at hc ⊢
  rw [getPc_eq] at hc ⊢
  cases hs : s.pcs j with
  | none =>
    rcases h j with e | e
    · rw [e, hs]
    · rw [e, hs]; rfl
  | some p =>
    rw [hs] at hc
    obtain ⟨p', hp', _, _, ho⟩ := oc_some' h j p hs
    rw [hp']
    exact ho hc

/-- unused for longer than KeepAlive, and not busy -/
def Stale (s : State) (clock j : Nat) : Prop := ∃ p, s.pcs j = some p ∧ p.calls = 0 ∧ p.lastUse + s.keepAlive < clock

/-- older than IdleConnTimeout -/
def Old (s : State) (clock j : Nat) : Prop := ∃ p, s.pcs j = some p ∧ p.lastUse + s.idleTO < clock

theorem stale_of_fr {s s' : State} (h : Fr s s') (clock j : Nat) (hs : Stale s clock j) : Stale s' clock j := by
  obtain ⟨p, hp, hc, hl⟩ := hs
  obtain ⟨p', hp', h1, h2, _⟩ := oc_some' h.1 j p hp
  exact ⟨p', hp', h2.trans hc, by rw [h1, h.2.1]; exact hl⟩

theorem old_of_fr {s s' : State} (h : Fr s s') (clock j : Nat) (hs : Old s clock j) : Old s' clock j := by
  obtain ⟨p, hp, hl⟩ := hs
  obtain ⟨p', hp', h1, _, _⟩ := oc_some' h.1 j p hp
  exact ⟨p', hp', by rw [h1, h.2.2]; exact hl⟩

theorem tao_keepAlive (s : State) (a clock : Nat) (acc : List Nat) (id : Nat) :
    (tickActiveOne s a clock acc id).1.keepAlive = s.keepAlive ∧ (tickActiveOne s a clock acc id).1.idleTO = s.idleTO := by
  unfold tickActiveOne
  split
  · split
    · split
      · split <;> exact ⟨rfl, rfl⟩
      · exact ⟨rfl, rfl⟩
    · exact ⟨rfl, rfl⟩
  · exact ⟨rfl, rfl⟩

theorem fr_tickActiveOne (s : State) (a clock : Nat) (acc : List Nat) (id : Nat) :
    Fr s (tickActiveOne s a clock acc id).1 :=
  ⟨oc_tickActiveOne s a clock acc id, (tao_keepAlive s a clock acc id).1, (tao_keepAlive s a clock acc id).2⟩

theorem fr_virt (s : State) (a : Nat) (L : List Nat) (cur : Nat) : Fr s (virt s a L cur) := by
  refine ⟨OC.of_eq (virt_pcs s a L cur), ?_, ?_⟩ <;> (unfold virt; split <;> rfl)

theorem virt_idle (s : State) (a : Nat) (L : List Nat) (cur : Nat) : (virt s a L cur).idle = s.idle := by
  unfold virt; split <;> rfl

theorem tiq_frame (s : State) (a clock n : Nat) :
    (tickIdleQueue s a clock n).keepAlive = s.keepAlive ∧ (tickIdleQueue s a clock n).idleTO = s.idleTO ∧
      (tickIdleQueue s a clock n).active = s.active := by
  induction n generalizing s with
  | zero => exact ⟨rfl, rfl, rfl⟩
  | succ n ih =>
    unfold tickIdleQueue
    split
    · simp only
      split
      · split
        · exact ih _
        · exact ih s
      · exact ⟨rfl, rfl, rfl⟩
    · exact ⟨rfl, rfl, rfl⟩

theorem fr_tickIdleQueue (s : State) (a clock n : Nat) : Fr s (tickIdleQueue s a clock n) :=
  ⟨oc_tickIdleQueue s a clock n, (tiq_frame s a clock n).1, (tiq_frame s a clock n).2.1⟩

theorem tiq_idle_other (s : State) (a clock n b : Nat) (hb : b ≠ a) :
    lk (tickIdleQueue s a clock n).idle b = lk s.idle b := by
  induction n generalizing s with
  | zero => rfl
  | succ n ih =>
    unfold tickIdleQueue
    split
    · simp only
      split
      · split
        · rw [ih]
          fsimp
          unfold upd
          rw [if_neg hb]
        · exact ih s
      · rfl
    · rfl

/-- one queue of the idle half of a tick -/
def idleStep (clock : Nat) (s : State) (e : Nat × List Nat) : State :=
  let s := tickIdleQueue s e.1 clock e.2.length
  match lookupI s e.1 with
  | some [] => delI s e.1
  | _ => s

theorem tickIdle_eq (s : State) (clock : Nat) : tickIdle s clock = s.idle.foldl (idleStep clock) s := rfl

theorem idleStep_pcs (clock : Nat) (s : State) (e : Nat × List Nat) :
    (idleStep clock s e).pcs = (tickIdleQueue s e.1 clock e.2.length).pcs := by
  unfold idleStep
  simp only
  split <;> rfl

theorem fr_idleStep (clock : Nat) (s : State) (e : Nat × List Nat) : Fr s (idleStep clock s e) := by
  refine (fr_tickIdleQueue s e.1 clock e.2.length).trans ?_
  unfold idleStep
  simp only
  split
  · exact ⟨OC.of_eq rfl, rfl, rfl⟩
  · exact Fr.refl _

theorem idleStep_active (clock : Nat) (s : State) (e : Nat × List Nat) : (idleStep clock s e).active = s.active := by
  unfold idleStep
  simp only
  split
  · exact (tiq_frame s e.1 clock e.2.length).2.2
  · exact (tiq_frame s e.1 clock e.2.length).2.2

theorem idleStep_idle_other (clock : Nat) (s : State) (e : Nat × List Nat) (b : Nat) (hb : b ≠ e.1) :
    lk (idleStep clock s e).idle b = lk s.idle b := by
  unfold idleStep
  simp only
  split
  · fsimp
    unfold upd
    rw [if_neg hb]
    exact tiq_idle_other s e.1 clock e.2.length b hb
  · exact tiq_idle_other s e.1 clock e.2.length b hb

theorem idleFold_frame (clock : Nat) (l : List (Nat × List Nat)) : ∀ (s : State),
    Fr s (l.foldl (idleStep clock) s) ∧ (l.foldl (idleStep clock) s).active = s.active := by
  induction l with
  | nil => intro s; exact ⟨Fr.refl s, rfl⟩
  | cons e l ih =>
    intro s
    rw [List.foldl_cons]
    obtain ⟨i1, i2⟩ := ih (idleStep clock s e)
    exact ⟨(fr_idleStep clock s e).trans i1, i2.trans (idleStep_active clock s e)⟩

/-- the idle half of a tick does not touch the active lists -/
theorem tickIdle_active (s : State) (clock : Nat) : (tickIdle s clock).active = s.active :=
  (idleFold_frame clock s.idle s).2

theorem fr_tickIdle (s : State) (clock : Nat) : Fr s (tickIdle s clock) :=
  (idleFold_frame clock s.idle s).1

theorem tick_run (s : State) (clock : Nat) (hr : s.running = true) (hs : s.stopped = false) :
    tick s clock = tickIdle (tickActive { s with now := clock } clock) clock := by
  unfold tick
  have hc : (!s.running || s.stopped) = false := by rw [hr, hs]; rfl
  rw [if_neg (by rw [hc]; exact Bool.false_ne_true)]

/-! ### (A) stale connections leave the active lists -/

theorem stale_step (clock id a : Nat) (s : State) (acc : List Nat) (j : Nat)
    (hs : Stale s clock id) (hn : id ∉ acc) : id ∉ (tickActiveOne s a clock acc j).2 := by
  by_cases e : j = id
  · subst e
    obtain ⟨p, hp, hc, hl⟩ := hs
    have hcond : (p.lastUse + s.keepAlive < clock && (p.calls == 0 || !Gen.runSparesBusy)) = true := by
      simp [hc, hl]
    unfold tickActiveOne
    rw [getPc_eq, hp]
    simp only
    rw [if_pos hcond]
    split
    · split <;> exact hn
    · exact hn
  · have hne : id ≠ j := fun h => e h.symm
    have hn' : id ∉ acc ++ [j] := by
      intro hm
      rcases List.mem_append.1 hm with hm | hm
      · exact hn hm
      · exact hne (List.mem_singleton.1 hm)
    unfold tickActiveOne
    split
    · split
      · split
        · split <;> exact hn
        · exact hn
      · exact hn'
    · exact hn

theorem stale_inner (clock id a : Nat) (rem : List Nat) : ∀ (st : State × List Nat),
    Stale st.1 clock id → id ∉ st.2 →
    Stale (rem.foldl (fun (st : State × List Nat) j => tickActiveOne st.1 a clock st.2 j) st).1 clock id ∧
      id ∉ (rem.foldl (fun (st : State × List Nat) j => tickActiveOne st.1 a clock st.2 j) st).2 := by
  induction rem with
  | nil => intro st h1 h2; exact ⟨h1, h2⟩
  | cons j rem ih =>
    intro st h1 h2
    rw [List.foldl_cons]
    exact ih _ (stale_of_fr (fr_tickActiveOne st.1 a clock st.2 j) clock id h1)
      (stale_step clock id a st.1 st.2 j h1 h2)

theorem stale_fold (clock id : Nat) (l : List (Nat × List Nat × Nat)) : ∀ (s : State),
    Stale s clock id → (∀ b cs cur, (b, cs, cur) ∈ s.active → id ∈ cs → b ∈ keys l) →
    ∀ b cs cur, (b, cs, cur) ∈ (l.foldl (sweepStep (fun a st j => tickActiveOne st.1 a clock st.2 j)) s).active →
      id ∉ cs := by
  induction l with
  | nil =>
    intro s _ hk b cs cur hm hid
    have := hk b cs cur hm hid
    simp [keys] at this
  | cons e l ih =>
    intro s hs hk
    obtain ⟨a, cs0, cur0⟩ := e
    rw [List.foldl_cons]
    obtain ⟨i1, i2⟩ := stale_inner clock id a cs0 (s, []) hs (by simp)
    apply ih
    · exact stale_of_fr (fr_virt _ _ _ _) clock id i1
    · intro b cs cur hm hid
      rcases mem_virt_active _ _ _ _ _ _ _ hm with ⟨_, h2⟩ | ⟨h1, h2⟩
      · rw [h2] at hid; exact absurd hid i2
      · have h3 : (List.foldl (fun (st : State × List Nat) j => tickActiveOne st.1 a clock st.2 j) (s, []) cs0).1.active
            = s.active :=
          sweep_inner_active (fun a st j => tickActiveOne st.1 a clock st.2 j) a
            (fun st j => tick_Gact clock a st j) cs0 (s, [])
        have h2' : (b, cs, cur) ∈ s.active := by rw [← h3]; exact h2
        have := hk b cs cur h2' hid
        simp only [keys, List.map_cons, List.mem_cons] at this
        rcases this with h | h
        · exact absurd h h1
        · exact h

/-- (A) for the active half alone: after `tickActive` a stale connection is in no active list. -/
theorem tickActive_retires_stale (s : State) (clock id : Nat) (hs : Stale s clock id) :
    ∀ a cs cur, (a, cs, cur) ∈ (tickActive s clock).active → id ∉ cs := by
  rw [tickActive_eq]
  exact stale_fold clock id s.active s hs (fun b cs cur hm _ => mem_keys _ b _ hm)

/-- (A) C15: a connection unused for longer than KeepAlive (and not busy) is retired from the active list. -/
theorem tick_retires_stale (s : State) (_h : Inv s) (hr : s.running = true) (hs : s.stopped = false)
    (clock id : Nat) (p : PConn) (hp : s.pcs id = some p) (hc : p.calls = 0)
    (hl : p.lastUse + s.keepAlive < clock) (_hact : ∃ a cs cur, (a, cs, cur) ∈ s.active ∧ id ∈ cs) :
    ∀ a cs cur, (a, cs, cur) ∈ (tick s clock).active → id ∉ cs := by
  rw [tick_run s clock hr hs, tickIdle_active]
  exact tickActive_retires_stale { s with now := clock } clock id ⟨p, hp, hc, hl⟩

/-! ### (B) a retired connection is queued or closed -/

/-- in a state satisfying the invariant, a connection that is in no active list is queued or closed -/
theorem idle_or_closed (t : State) (h : Inv t) (id : Nat)
    (hna : ∀ a cs cur, (a, cs, cur) ∈ t.active → id ∉ cs) :
    (∃ a q, (a, q) ∈ t.idle ∧ id ∈ q) ∨ isOpenId t id = false := by
  cases ho : isOpenId t id with
  | false => right; rfl
  | true =>
    left
    unfold isOpenId at ho
    rw [getPc_eq] at ho
    cases hp : t.pcs id with
    | none => rw [hp] at ho; cases ho
    | some p =>
      rw [hp] at ho
      have hm := h.2.2.2.2 id p hp ho
      rw [allPooled_eq, List.mem_append, mem_fl, mem_fl] at hm
      rcases hm with ⟨a, ⟨cs, cur⟩, h1, h2⟩ | ⟨a, q, h1, h2⟩
      · exact absurd h2 (hna a cs cur h1)
      · exact ⟨a, q, h1, h2⟩

/-- (B) C15: the retired connection went to an idle queue, or its socket is closed (the queue was full, or the
    idle half of the same pass found it older than IdleConnTimeout too). -/
theorem tick_retired_goes_idle_or_closes (s : State) (h : Inv s) (hr : s.running = true) (hs : s.stopped = false)
    (clock id : Nat) (p : PConn) (hp : s.pcs id = some p) (hc : p.calls = 0)
    (hl : p.lastUse + s.keepAlive < clock) (hact : ∃ a cs cur, (a, cs, cur) ∈ s.active ∧ id ∈ cs) :
    (∃ a q, (a, q) ∈ (tick s clock).idle ∧ id ∈ q) ∨ isOpenId (tick s clock) id = false :=
  idle_or_closed (tick s clock) (inv_step s (.tick clock) h) id
    (tick_retires_stale s h hr hs clock id p hp hc hl hact)

/-! ### (C) an idle queue whose entries are all older than IdleConnTimeout is closed -/

theorem closePc_isOpenId (s : State) (id : Nat) : isOpenId (closePc s id) id = false := by
  unfold isOpenId
  rw [getPc_eq, closePc_eq, updPc_pcs]
  simp only [if_true]
  cases s.pcs id <;> rfl

/-- `length` rounds on a queue all of whose entries are old close every entry -/
theorem tiq_all_old (a clock : Nat) (n : Nat) : ∀ (s : State) (q : List Nat), lk s.idle a = some q → q.length ≤ n →
    (∀ j, j ∈ q → Old s clock j) → ∀ j, j ∈ q → isOpenId (tickIdleQueue s a clock n) j = false := by
  induction n with
  | zero =>
    intro s q _ hlen _ j hj
    cases q with
    | nil => cases hj
    | cons x q => simp at hlen
  | succ n ih =>
    intro s q hq hlen hold j hj
    cases q with
    | nil => cases hj
    | cons front rest =>
      have hrear : (front :: rest).getLast?.getD front ∈ front :: rest := by
        rw [List.getLast?_cons]
        simp only [Option.getD_some]
        cases hr : rest.getLast? with
        | none => simp
        | some x => simp only [Option.getD_some]; exact List.mem_cons_of_mem _ (List.mem_of_getLast? hr)
      obtain ⟨pr, hpr, hlr⟩ := hold _ hrear
      unfold tickIdleQueue
      rw [lookupI_eq, hq]
      simp only
      rw [getPc_eq, hpr]
      simp only
      rw [if_pos hlr]
      have hfr : Fr s (closePc (setI s a rest) front) :=
        ⟨OC.trans (OC.of_eq rfl) (oc_closePc (setI s a rest) front), rfl, rfl⟩
      have hq' : lk (closePc (setI s a rest) front).idle a = some rest := by
        fsimp; exact upd_same _ _ _
      have hold' : ∀ j, j ∈ rest → Old (closePc (setI s a rest) front) clock j :=
        fun j hj => old_of_fr hfr clock j (hold j (List.mem_cons_of_mem _ hj))
      have hlen' : rest.length ≤ n := by simp at hlen; omega
      rcases List.mem_cons.1 hj with e | hj'
      · subst e
        exact closed_of_oc (oc_tickIdleQueue _ a clock n) j (closePc_isOpenId _ j)
      · exact ih _ rest hq' hlen' hold' j hj'

theorem idleStep_closes (clock : Nat) (s : State) (a : Nat) (q : List Nat) (hq : lk s.idle a = some q)
    (hold : ∀ j, j ∈ q → Old s clock j) : ∀ j, j ∈ q → isOpenId (idleStep clock s (a, q)) j = false := by
  intro j hj
  have := tiq_all_old a clock q.length s q hq (Nat.le_refl _) hold j hj
  unfold isOpenId at this ⊢
  rw [getPc_eq] at this ⊢
  rw [idleStep_pcs]
  exact this

theorem expire_fold (clock a : Nat) (q : List Nat) (l : List (Nat × List Nat)) : ∀ (s : State),
    (keys l).Nodup → (a, q) ∈ l → lk s.idle a = some q → (∀ j, j ∈ q → Old s clock j) →
    ∀ j, j ∈ q → isOpenId (l.foldl (idleStep clock) s) j = false := by
  induction l with
  | nil => intro s _ hm; cases hm
  | cons e l ih =>
    intro s hn hm hq hold j hj
    rw [List.foldl_cons]
    simp only [keys, List.map_cons, List.nodup_cons] at hn
    rcases List.mem_cons.1 hm with hm | hm
    · subst hm
      exact closed_of_oc (idleFold_frame clock l _).1.1 j (idleStep_closes clock s a q hq hold j hj)
    · have hne : a ≠ e.1 := fun h => hn.1 (h ▸ mem_keys l a q hm)
      refine ih _ hn.2 hm ?_ ?_ j hj
      · rw [idleStep_idle_other clock s e a hne]; exact hq
      · intro j hj; exact old_of_fr (fr_idleStep clock s e) clock j (hold j hj)

/-- the idle half alone: a queue all of whose entries are old is closed -/
theorem tickIdle_closes_expired_queue (s : State) (hk : (keys s.idle).Nodup) (clock a : Nat) (q : List Nat)
    (hq : (a, q) ∈ s.idle) (hold : ∀ j, j ∈ q → Old s clock j) :
    ∀ j, j ∈ q → isOpenId (tickIdle s clock) j = false := by
  rw [tickIdle_eq]
  exact expire_fold clock a q s.idle s hk hq (mem_lk _ hk _ _ hq) hold

/-- induction over the sweep of the active map: a property kept by every per-connection step (of an entry of
    the list swept) and by the rebuilding of an entry holds at the end -/
theorem sweep_ind (G : Nat → State × List Nat → Nat → State × List Nat) (R : State → Prop)
    (hV : ∀ s a L cur, R s → R (virt s a L cur)) (l : List (Nat × List Nat × Nat))
    (hG : ∀ b cs cur, (b, cs, cur) ∈ l → ∀ j, j ∈ cs → ∀ st : State × List Nat, R st.1 → R (G b st j).1) :
    ∀ (s : State), R s → R (l.foldl (sweepStep G) s) := by
  induction l with
  | nil => intro s h; exact h
  | cons e l ih =>
    intro s h
    rw [List.foldl_cons]
    apply ih (fun b cs cur hm => hG b cs cur (List.mem_cons_of_mem _ hm))
    obtain ⟨a, cs, cur⟩ := e
    unfold sweepStep
    apply hV
    have inner : ∀ (rem : List Nat), (∀ j, j ∈ rem → j ∈ cs) → ∀ st : State × List Nat, R st.1 →
        R (rem.foldl (G a) st).1 := by
      intro rem
      induction rem with
      | nil => intro _ st h; exact h
      | cons j rem ih2 =>
        intro hsub st h
        rw [List.foldl_cons]
        exact ih2 (fun j hj => hsub j (List.mem_cons_of_mem _ hj)) _
          (hG a cs cur List.mem_cons_self j (hsub j List.mem_cons_self) st h)
    exact inner cs (fun _ hj => hj) (s, []) h

/-- the queue of `a` while the active map is swept: it still contains `q` and all its entries were old in `s0` -/
def QI (s0 : State) (a clock : Nat) (q : List Nat) (st : State) : Prop :=
  Fr s0 st ∧ ∃ q', lk st.idle a = some q' ∧ (∀ j, j ∈ q → j ∈ q') ∧ ∀ j, j ∈ q' → Old s0 clock j

theorem qi_step (s0 : State) (a clock : Nat) (q : List Nat) (b j : Nat)
    (hside : b = a → ∀ pj, s0.pcs j = some pj → pj.lastUse + s0.keepAlive < clock →
      (pj.calls == 0 || !Gen.runSparesBusy) = true → pj.lastUse + s0.idleTO < clock)
    (s : State) (acc : List Nat) (h : QI s0 a clock q s) : QI s0 a clock q (tickActiveOne s b clock acc j).1 := by
  obtain ⟨hfr, q', hq', hsub, hold⟩ := h
  refine ⟨hfr.trans (fr_tickActiveOne s b clock acc j), ?_⟩
  unfold tickActiveOne
  rw [getPc_eq]
  cases hj : s.pcs j with
  | none => exact ⟨q', hq', hsub, hold⟩
  | some pj =>
    simp only
    split
    · next hc =>
      rw [Bool.and_eq_true, decide_eq_true_eq] at hc
      cases hI : lookupI s b with
      | none =>
        simp only
        have hne : a ≠ b := by
          intro e; rw [lookupI_eq, ← e, hq'] at hI; cases hI
        refine ⟨q', ?_, hsub, hold⟩
        fsimp; unfold upd; rw [if_neg hne]; exact hq'
      | some qb =>
        simp only
        split
        · exact ⟨q', hq', hsub, hold⟩
        · by_cases e : b = a
          · subst e
            rw [lookupI_eq, hq'] at hI
            injection hI with hI
            subst hI
            refine ⟨q' ++ [j], ?_, fun i hi => List.mem_append_left _ (hsub i hi), ?_⟩
            · fsimp; exact upd_same _ _ _
            · intro i hi
              rcases List.mem_append.1 hi with hi | hi
              · exact hold i hi
              · have := List.mem_singleton.1 hi
                subst this
                obtain ⟨p0, hp0, e1, e2⟩ := oc_some hfr.1 i pj hj
                refine ⟨p0, hp0, ?_⟩
                apply hside rfl p0 hp0
                · rw [e1, ← hfr.2.1]; exact hc.1
                · rw [e2]; exact hc.2
          · have hne : a ≠ b := fun h => e h.symm
            refine ⟨q', ?_, hsub, hold⟩
            fsimp; unfold upd; rw [if_neg hne]; exact hq'
    · exact ⟨q', hq', hsub, hold⟩

theorem qi_virt (s0 : State) (a clock : Nat) (q : List Nat) (s : State) (b : Nat) (L : List Nat) (cur : Nat)
    (h : QI s0 a clock q s) : QI s0 a clock q (virt s b L cur) := by
  obtain ⟨hfr, hq⟩ := h
  refine ⟨hfr.trans (fr_virt s b L cur), ?_⟩
  rw [virt_idle]; exact hq

/-- (C), most general form: the side condition says that every connection of address `a` which this pass
    retires from the active list is itself older than IdleConnTimeout (stated on the raw retirement test). -/
theorem tick_closes_expired_queue_core (s : State) (h : Inv s) (hr : s.running = true) (hs : s.stopped = false)
    (clock a : Nat) (q : List Nat) (hq : (a, q) ∈ s.idle)
    (hold : ∀ id, id ∈ q → ∃ p, s.pcs id = some p ∧ p.lastUse + s.idleTO < clock)
    (hside : ∀ cs cur j pj, (a, cs, cur) ∈ s.active → j ∈ cs → s.pcs j = some pj →
      pj.lastUse + s.keepAlive < clock → (pj.calls == 0 || !Gen.runSparesBusy) = true →
      pj.lastUse + s.idleTO < clock) :
    ∀ id, id ∈ q → isOpenId (tick s clock) id = false := by
  have h2 := inv2_of_inv s h
  rw [tick_run s clock hr hs]
  have h2' : Inv2 { s with now := clock } := h2
  have ht := inv2_tickActive _ h2' clock
  have hqi : QI { s with now := clock } a clock q (tickActive { s with now := clock } clock) := by
    rw [tickActive_eq]
    apply sweep_ind _ (QI { s with now := clock } a clock q) (fun s b L cur h => qi_virt _ a clock q s b L cur h)
    · intro b cs cur hm j hj st hst
      apply qi_step _ a clock q b j _ st.1 st.2 hst
      intro e pj hpj h1 h2
      subst e
      exact hside cs cur j pj hm hj hpj h1 h2
    · exact ⟨Fr.refl _, q, mem_lk _ h2.2.1 _ _ hq, fun _ hj => hj, hold⟩
  obtain ⟨hfr, q', hq', hsub, hold'⟩ := hqi
  intro id hid
  exact tickIdle_closes_expired_queue _ ht.2.1 clock a q' (lk_some_mem _ _ _ hq')
    (fun j hj => old_of_fr hfr clock j (hold' j hj)) id (hsub id hid)

/-- (C) C15: an idle queue all of whose connections are older than IdleConnTimeout is closed by the pass,
    provided every idle connection of the same address that the pass retires from the active list (unused for
    longer than KeepAlive, no call in flight) is older than IdleConnTimeout as well — it is appended at the REAR
    of this queue, and the rear entry decides whether the front one is closed. -/
theorem tick_closes_expired_queue_of_retired_old (s : State) (h : Inv s) (hflag : Gen.runSparesBusy = true)
    (hr : s.running = true) (hs : s.stopped = false)
    (clock a : Nat) (q : List Nat) (hq : (a, q) ∈ s.idle)
    (hold : ∀ id, id ∈ q → ∃ p, s.pcs id = some p ∧ p.lastUse + s.idleTO < clock)
    (hside : ∀ cs cur j pj, (a, cs, cur) ∈ s.active → j ∈ cs → s.pcs j = some pj → pj.calls = 0 →
      pj.lastUse + s.keepAlive < clock → pj.lastUse + s.idleTO < clock) :
    ∀ id, id ∈ q → isOpenId (tick s clock) id = false := by
  apply tick_closes_expired_queue_core s h hr hs clock a q hq hold
  intro cs cur j pj hm hj hpj h1 h2
  rw [hflag] at h2
  exact hside cs cur j pj hm hj hpj (by simpa using h2) h1

/-- (C) C15, with the side condition "no active list for this address": the queue is closed. -/
theorem tick_closes_expired_queue (s : State) (h : Inv s) (hr : s.running = true) (hs : s.stopped = false)
    (clock a : Nat) (q : List Nat) (hq : (a, q) ∈ s.idle)
    (hold : ∀ id, id ∈ q → ∃ p, s.pcs id = some p ∧ p.lastUse + s.idleTO < clock)
    (hno : ∀ cs cur, (a, cs, cur) ∉ s.active) :
    ∀ id, id ∈ q → isOpenId (tick s clock) id = false :=
  tick_closes_expired_queue_core s h hr hs clock a q hq hold
    (fun cs cur _ _ hm _ _ _ _ => absurd hm (hno cs cur))

/-- (C) when IdleConnTimeout ≤ KeepAlive no side condition is needed. -/
theorem tick_closes_expired_queue_of_le (s : State) (h : Inv s) (hr : s.running = true) (hs : s.stopped = false)
    (hle : s.idleTO ≤ s.keepAlive)
    (clock a : Nat) (q : List Nat) (hq : (a, q) ∈ s.idle)
    (hold : ∀ id, id ∈ q → ∃ p, s.pcs id = some p ∧ p.lastUse + s.idleTO < clock) :
    ∀ id, id ∈ q → isOpenId (tick s clock) id = false :=
  tick_closes_expired_queue_core s h hr hs clock a q hq hold
    (fun _ _ _ _ _ _ _ h1 _ => by omega)

/-! ### (D) non-vacuity: the hypotheses hold on concrete runs, and the conclusions are the computed ones

  Limits: MaxConnsPerHost 2, MaxIdleConnsPerHost 2 (1 in `exD`), KeepAlive 120, IdleConnTimeout 480. -/

/-- one connection to address 0, last used at time 0 -/
def exA : State := run (init 2 2 120 480) [.getConn 0 0, .stamp 0]
/-- two connections to address 0, both retired to the idle queue at time 300 -/
def exB : State := run (init 2 2 120 480) [.getConn 0 0, .getConn 0 0, .tick 300]
/-- as `exB`, then connection 0 is taken back from the queue at time 400 (connection 1 stays queued) -/
def exC : State := run (init 2 2 120 480) [.getConn 0 0, .getConn 0 0, .tick 300, .getConn 0 400]
/-- two active connections, room for one idle connection only -/
def exD : State := run (init 2 1 120 480) [.getConn 0 0, .getConn 0 0]

/-- (A), (B) at time 300: the hypotheses hold; connection 0 leaves the active list for the idle queue, open. -/
example : exA.running = true ∧ exA.stopped = false ∧ exA.pcs 0 = some { id := 0, addr := 0 } ∧
    0 + exA.keepAlive < 300 ∧ (0, [0], 0) ∈ exA.active ∧
    (tick exA 300).active = [] ∧ (tick exA 300).idle = [(0, [0])] ∧ isOpenId (tick exA 300) 0 = true := by decide

example : ∀ a cs cur, (a, cs, cur) ∈ (tick exA 300).active → 0 ∉ cs :=
  tick_retires_stale exA (inv_run 2 2 120 480 _) (by decide) (by decide) 300 0 { id := 0, addr := 0 }
    (by decide) (by decide) (by decide) ⟨0, [0], 0, by decide, by decide⟩

example : (∃ a q, (a, q) ∈ (tick exA 300).idle ∧ 0 ∈ q) ∨ isOpenId (tick exA 300) 0 = false :=
  tick_retired_goes_idle_or_closes exA (inv_run 2 2 120 480 _) (by decide) (by decide) 300 0 { id := 0, addr := 0 }
    (by decide) (by decide) (by decide) ⟨0, [0], 0, by decide, by decide⟩

/-- (B), second disjunct, at time 1000: the idle half of the same pass closes the connection just retired. -/
example : 0 + exA.keepAlive < 1000 ∧ (tick exA 1000).active = [] ∧ (tick exA 1000).idle = [] ∧
    isOpenId (tick exA 1000) 0 = false := by decide

/-- (B), second disjunct, full queue: connection 0 takes the only idle slot, connection 1 is closed. -/
example : exD.running = true ∧ exD.stopped = false ∧ exD.pcs 1 = some { id := 1, addr := 0 } ∧
    (0, [0, 1], 0) ∈ exD.active ∧ (tick exD 300).active = [] ∧ (tick exD 300).idle = [(0, [0])] ∧
    isOpenId (tick exD 300) 0 = true ∧ isOpenId (tick exD 300) 1 = false := by decide

/-- (C): the hypotheses hold on `exB` (queue `[0, 1]`, both last used at 0, no active list); both are closed. -/
example : exB.running = true ∧ exB.stopped = false ∧ (0, [0, 1]) ∈ exB.idle ∧ exB.active = [] ∧
    exB.pcs 0 = some { id := 0, addr := 0 } ∧ exB.pcs 1 = some { id := 1, addr := 0 } ∧ 0 + exB.idleTO < 1000 ∧
    isOpenId exB 0 = true ∧ isOpenId exB 1 = true ∧
    isOpenId (tick exB 1000) 0 = false ∧ isOpenId (tick exB 1000) 1 = false ∧ (tick exB 1000).idle = [] := by decide

example : ∀ id, id ∈ [0, 1] → isOpenId (tick exB 1000) id = false :=
  tick_closes_expired_queue exB (inv_run 2 2 120 480 _) (by decide) (by decide) 1000 0 [0, 1] (by decide)
    (by
      intro id hid
      rcases List.mem_cons.1 hid with e | hid
      · subst e; exact ⟨{ id := 0, addr := 0 }, by decide, by decide⟩
      · rcases List.mem_cons.1 hid with e | hid
        · subst e; exact ⟨{ id := 1, addr := 0 }, by decide, by decide⟩
        · cases hid)
    (by intro cs cur hm; have : exB.active = [] := by decide
        rw [this] at hm; cases hm)

/-- (C), general side condition, on `exC` at time 1000: connection 0 (last used at 400) is retired behind
    connection 1 and is itself older than IdleConnTimeout (400 + 480 < 1000); the queue `[1]` is closed. -/
example : (0, [1]) ∈ exC.idle ∧ (0, [0], 0) ∈ exC.active ∧ exC.pcs 0 = some { id := 0, addr := 0, lastUse := 400 } ∧
    exC.pcs 1 = some { id := 1, addr := 0 } ∧ 400 + exC.idleTO < 1000 ∧
    isOpenId (tick exC 1000) 1 = false ∧ isOpenId (tick exC 1000) 0 = false := by decide

example : ∀ id, id ∈ [1] → isOpenId (tick exC 1000) id = false :=
  tick_closes_expired_queue_of_retired_old exC (inv_run 2 2 120 480 _) (by decide) (by decide) (by decide)
    1000 0 [1] (by decide)
    (by intro id hid; have := List.mem_singleton.1 hid; subst this
        exact ⟨{ id := 1, addr := 0 }, by decide, by decide⟩)
    (by
      intro cs cur j pj hm hj hpj _ _
      have ha : exC.active = [(0, [0], 0)] := by decide
      rw [ha] at hm
      have := List.mem_singleton.1 hm
      injection this with _ h2; injection h2 with h2 _; subst h2
      have := List.mem_singleton.1 hj; subst this
      have hp : exC.pcs 0 = some { id := 0, addr := 0, lastUse := 400 } := by decide
      rw [hp] at hpj; injection hpj with hpj; subst hpj
      decide)

/-- (C) is FALSE without a side condition: on `exC` at time 700 the queue `[1]` of address 0 is older than
    IdleConnTimeout (0 + 480 < 700), but the pass first retires connection 0 (400 + 120 < 700) to the rear of that
    queue; the rear entry is not old (400 + 480 ≥ 700), so nothing is closed. -/
example : exC.running = true ∧ exC.stopped = false ∧ (0, [1]) ∈ exC.idle ∧
    exC.pcs 1 = some { id := 1, addr := 0 } ∧ 0 + exC.idleTO < 700 ∧
    (tick exC 700).idle = [(0, [1, 0])] ∧ isOpenId (tick exC 700) 1 = true := by decide

/-- the rear entry decides for the front one: with active list `[0, 1]`, connection 0 last used at 100 and
    connection 1 at 0, the pass at time 500 retires both (queue `[0, 1]`) and then closes connection 0 although it is
    NOT older than IdleConnTimeout (100 + 480 ≥ 500) … -/
example : let s := run (init 2 2 120 480) [.getConn 0 0, .getConn 0 0, .tick 100, .stamp 0]
    s.pcs 0 = some { id := 0, addr := 0, lastUse := 100 } ∧ ¬ (100 + s.idleTO < 500) ∧
    isOpenId (tick s 500) 0 = false := by decide

/-- … and with the time stamps the other way round the expired connection 0 (0 + 480 < 500) stays open in the
    queue, because the rear entry (100 + 480 ≥ 500) is not old. -/
example : let s := run (init 2 2 120 480) [.getConn 0 0, .getConn 0 0, .tick 100, .stamp 1]
    s.pcs 0 = some { id := 0, addr := 0 } ∧ 0 + s.idleTO < 500 ∧
    (tick s 500).idle = [(0, [0, 1])] ∧ isOpenId (tick s 500) 0 = true := by decide

end RpcVerif.P
