import RpcVerif.Lemmas.StreamFlow
/-
  Proofs about T (the stream layer of one connection): C09 (prefix safety, no loss while open and
  connected) and C10 (nobody stays parked on a stopped stream; a torn-down end has stopped every
  stream).

  Structure. `StreamShape`: under the source facts `allFlags` every step other than the two
  teardowns is one transition `Tr` (`step_shape`); `cEof` / `sEof` are sequences of decode steps,
  stream-worker steps and one sweep (`cEof_ind`, `sEof_ind`). `StreamAux`, `StreamPath`,
  `StreamFlow`: the inductive invariant in seven groups, each preserved by every `Tr`:
    G  connection-level facts (teardown ⇒ cut, queues unused with direct I/O),
    L  facts about one stream end (`EndOk`, phase/opened/pend/closed),
    Q  sequence numbers (`SeqInv`, every frame and task below `nextSeq`),
    O  the frames on the way to the server (an open request is fresh and first; close ⇒ the opening
       call is gone; unary frames carry no stream number),
    N  a client stream unknown to the server: still opening, nothing but its open request under way,
    U  client → server, per pair of ends: delivered ++ events ++ tasks (++ messages on the path while
       the server end is in the table) is a prefix of `written`, equal while not cut,
    D  server → client, the same with "the opening call is registered and the reader runs" for "in
       the table", plus: in the opening phase the acknowledgement precedes every message.
  Every theorem `foo` that needs the source facts has a twin `foo_of_flags (hf : allFlags = true)`.
-/
namespace RpcVerif.T
open RpcVerif

/-! ### the invariant -/

structure Inv (s : State) : Prop where
  g : InvG s
  l : InvL s
  q : InvQ s
  o : InvO s
  n : InvN s
  u : InvU s
  d : InvD s

theorem inv_init (cfg : Cfg) : Inv (init cfg) :=
  ⟨invG_init cfg, invL_init cfg, invQ_init cfg, invO_init cfg, invN_init cfg, invU_init cfg, invD_init cfg⟩

theorem inv_tr (hf : allFlags = true) {s s' : State} (h : Inv s) (t : Tr s s') : Inv s' :=
  ⟨invG_tr h.g t, invL_tr hf h.g h.q.nc h.q.ns h.l t, invQ_tr hf h.g h.q t, invO_tr hf h.g h.q h.o t,
   invN_tr hf h.g h.l h.q h.n t, invU_tr hf h.g h.l h.q h.n h.u t, invD_tr hf h.g h.l h.q h.o h.n h.d t⟩

theorem getS_eq_none {s : State} {q : Nat} (h : q ∉ sseqs s) : getS s q = none := by
  unfold getS
  rw [List.find?_eq_none]
  intro t ht hq
  exact h ((by simpa using hq : t.seq = q) ▸ mem_sseqs ht)

theorem inv_step_ne (hf : allFlags = true) {s s' : State} {e : Ev} (h : Inv s) (he : e ≠ .cEof) (he' : e ≠ .sEof)
    (hs : step s e = some s') : Inv s' :=
  inv_tr hf h (step_shape hf (fun f hf' ho => getS_eq_none (h.o.fresh f hf' ho)) (fun t ht => (h.l.s t ht).1.2.2) he he' hs)

theorem inv_step_of_flags (hf : allFlags = true) {s s' : State} {e : Ev} (h : Inv s) (hs : step s e = some s') : Inv s' := by
  by_cases he : e = .cEof
  · subst he
    exact cEof_ind Inv (fun s s' hP hs => inv_step_ne hf hP (by simp) (by simp) hs)
      (fun s s' hP hs => inv_step_ne hf hP (by simp) (by simp) hs)
      (fun s hP h1 h2 h3 h4 => inv_tr hf hP (Tr.cSweep h1 h2 h3 h4)) h hs
  by_cases he' : e = .sEof
  · subst he'
    exact sEof_ind hf Inv (fun s s' hP hs => inv_step_ne hf hP (by simp) (by simp) hs)
      (fun s s' hP hs => inv_step_ne hf hP (by simp) (by simp) hs)
      (fun s hP h1 h2 h3 => inv_tr hf hP (Tr.sEnd h1 h2 h3))
      (fun s hP h1 h2 h3 h4 => inv_tr hf hP (Tr.sFinal h1 h2 h3 h4)) h hs
  exact inv_step_ne hf h he he' hs

theorem inv_run_of_flags (hf : allFlags = true) {s s' : State} {tr : List Ev} (h : Accepts s tr s') : Inv s → Inv s' := by
  induction h with
  | nil _ => exact id
  | cons hs _ ih => exact fun hi => ih (inv_step_of_flags hf hi hs)

theorem inv_accepts_of_flags (hf : allFlags = true) {cfg : Cfg} {tr : List Ev} {s : State}
    (h : Accepts (init cfg) tr s) : Inv s :=
  inv_run_of_flags hf h (inv_init cfg)

theorem inv_accepts {cfg : Cfg} {tr : List Ev} {s : State} (h : Accepts (init cfg) tr s) : Inv s :=
  inv_accepts_of_flags allFlags_true h

/-! ### (1) sequence numbers -/

theorem Inv.seqInv {s : State} (h : Inv s) : SeqInv s := by
  refine ⟨h.q.nc, h.q.ns, fun t ht => ?_, fun c hc => h.q.clt _ (mem_cseqs hc), fun u hu => ?_⟩
  · obtain ⟨c, hc, hq⟩ := of_mem_cseqs (h.q.sc _ (mem_sseqs ht))
    exact ⟨c, hc, hq⟩
  · obtain ⟨u1, u2⟩ := h.q.uc u hu
    exact ⟨u1, fun c hc he => u2 (he ▸ mem_cseqs hc)⟩

theorem seqInv_accepts_of_flags (hf : allFlags = true) {cfg : Cfg} {tr : List Ev} {s : State}
    (h : Accepts (init cfg) tr s) : SeqInv s := (inv_accepts_of_flags hf h).seqInv

theorem seqInv_accepts {cfg : Cfg} {tr : List Ev} {s : State} (h : Accepts (init cfg) tr s) : SeqInv s :=
  seqInv_accepts_of_flags allFlags_true h

/-! ### (2) C10 along every run -/

theorem Inv.noStranded {s : State} (h : Inv s) : NoStrandedReader s :=
  ⟨fun c hc => (h.l.c c hc).1.endOk.1, fun t ht => (h.l.s t ht).1.1.1⟩

theorem Inv.tornDown {s : State} (h : Inv s) : TornDownStopsAll s :=
  ⟨fun hsh c hc _ => (h.l.c c hc).2 hsh, fun htd t ht => (h.l.s t ht).2 htd⟩

theorem noStranded_accepts_of_flags (hf : allFlags = true) {cfg : Cfg} {tr : List Ev} {s : State}
    (h : Accepts (init cfg) tr s) : NoStrandedReader s := (inv_accepts_of_flags hf h).noStranded

theorem noStranded_accepts {cfg : Cfg} {tr : List Ev} {s : State} (h : Accepts (init cfg) tr s) : NoStrandedReader s :=
  noStranded_accepts_of_flags allFlags_true h

theorem tornDown_accepts_of_flags (hf : allFlags = true) {cfg : Cfg} {tr : List Ev} {s : State}
    (h : Accepts (init cfg) tr s) : TornDownStopsAll s := (inv_accepts_of_flags hf h).tornDown

theorem tornDown_accepts {cfg : Cfg} {tr : List Ev} {s : State} (h : Accepts (init cfg) tr s) : TornDownStopsAll s :=
  tornDown_accepts_of_flags allFlags_true h

/-- stronger than `TornDownStopsAll`: after the client's teardown every stream is stopped, returned or not -/
theorem Inv.cShutdown_stops_all {s : State} (h : Inv s) (hsh : s.cShutdown = true) : ∀ c ∈ s.cs, c.e.closed = true :=
  fun c hc => (h.l.c c hc).2 hsh

/-! ### (3) C09 safety -/

theorem Inv.downPrefix {s : State} (h : Inv s) : DownPrefix s := by
  intro c hc t ht hseq
  exact prefix_of_append_prefix ((h.d c hc).2 t ht hseq).1.1

theorem Inv.upPrefix {s : State} (h : Inv s) : UpPrefix s := by
  intro c hc t ht hseq
  exact prefix_of_append_prefix (h.u c hc t ht hseq).1

theorem downPrefix_accepts_of_flags (hf : allFlags = true) {cfg : Cfg} {tr : List Ev} {s : State}
    (h : Accepts (init cfg) tr s) : DownPrefix s := (inv_accepts_of_flags hf h).downPrefix

theorem downPrefix_accepts {cfg : Cfg} {tr : List Ev} {s : State} (h : Accepts (init cfg) tr s) : DownPrefix s :=
  downPrefix_accepts_of_flags allFlags_true h

theorem upPrefix_accepts_of_flags (hf : allFlags = true) {cfg : Cfg} {tr : List Ev} {s : State}
    (h : Accepts (init cfg) tr s) : UpPrefix s := (inv_accepts_of_flags hf h).upPrefix

theorem upPrefix_accepts {cfg : Cfg} {tr : List Ev} {s : State} (h : Accepts (init cfg) tr s) : UpPrefix s :=
  upPrefix_accepts_of_flags allFlags_true h

/-! ### (4) C09 no loss -/

theorem Inv.downNoLoss {s : State} (h : Inv s) : DownNoLoss s := by
  intro c hc t ht hseq hcl _ hcut hsh
  have hlive : liveC s.cShutdown c = true := liveC_iff.2 ⟨(h.l.c c hc).1.live hcl, hsh⟩
  have := ((((h.d c hc).2 t ht hseq).1.2 hlive).2 hcut)
  rw [← this]
  unfold downInFlight dn
  rw [msgsOf_vk, msgsOf_vk, vk_append]
  simp only [List.append_assoc]

theorem Inv.upNoLoss {s : State} (h : Inv s) : UpNoLoss s := by
  intro c hc t ht hseq _ hin hcut _
  have := (((h.u c hc t ht hseq).2 hin).2 hcut)
  rw [← this, ← hseq]
  unfold upInFlight up
  rw [msgsOf_vk, msgsOf_vk, vk_append]
  simp only [List.append_assoc]

theorem downNoLoss_accepts_of_flags (hf : allFlags = true) {cfg : Cfg} {tr : List Ev} {s : State}
    (h : Accepts (init cfg) tr s) : DownNoLoss s := (inv_accepts_of_flags hf h).downNoLoss

theorem downNoLoss_accepts {cfg : Cfg} {tr : List Ev} {s : State} (h : Accepts (init cfg) tr s) : DownNoLoss s :=
  downNoLoss_accepts_of_flags allFlags_true h

theorem upNoLoss_accepts_of_flags (hf : allFlags = true) {cfg : Cfg} {tr : List Ev} {s : State}
    (h : Accepts (init cfg) tr s) : UpNoLoss s := (inv_accepts_of_flags hf h).upNoLoss

theorem upNoLoss_accepts {cfg : Cfg} {tr : List Ev} {s : State} (h : Accepts (init cfg) tr s) : UpNoLoss s :=
  upNoLoss_accepts_of_flags allFlags_true h


/-! ### (5) step-level facts for C10 -/

/-- a later `ReadMessage` on a stopped stream returns the error at once -/
theorem read_closed (e : End) (hc : e.closed = true) (hw : e.waiting = false) :
    e.read = some { e with readErrs := e.readErrs + 1 } := by
  unfold End.read
  simp only [hw, hc, Bool.false_eq_true, ↓reduceIte]

/-- `stop()` sets the flag and releases the parked reader -/
theorem stop_wakes (e : End) (hf : allFlags = true) : (e.stop).closed = true ∧ (e.stop).waiting = false :=
  ⟨stop_closed e, stop_waiting hf e⟩

/-- the released reader returns `ErrStreamShutdown` (it is counted), and nothing is delivered to it -/
theorem stop_parked (e : End) (hf : allFlags = true) (hw : e.waiting = true) :
    (e.stop).readErrs = e.readErrs + 1 ∧ (e.stop).delivered = e.delivered := by
  rw [stop_eq hf, if_pos hw]; exact ⟨rfl, rfl⟩

theorem mem_updC_ne {q : Nat} {g : CStream → CStream} {cs : List CStream} (hg : ∀ c, (g c).seq = c.seq)
    {c : CStream} (hq : c.seq ≠ q) : c ∈ updC q g cs ↔ c ∈ cs := by
  constructor
  · intro h
    rcases mem_updC h with ⟨h1, _⟩ | ⟨c0, _, hq0, rfl⟩
    · exact h1
    · exact absurd ((hg c0).trans hq0) hq
  · intro h
    unfold updC
    exact List.mem_map.2 ⟨c, h, by simp [hq]⟩

theorem sendC_fields (s : State) (f : Frame) :
    (sendC s f).cs = s.cs ∧ (sendC s f).ss = s.ss ∧ (sendC s f).ucalls = s.ucalls ∧ (sendC s f).s2c = s.s2c := by
  unfold sendC; split <;> exact ⟨rfl, rfl, rfl, rfl⟩

/-- closing one stream does not touch the unary calls, the server's streams, the frames on their way
    to the client, or the client's other streams -/
theorem cClose_frame (s s' : State) (q : Nat) (h : step s (.cClose q) = some s') :
    s'.ucalls = s.ucalls ∧ s'.ss = s.ss ∧ s'.s2c = s.s2c ∧ ∀ c, c.seq ≠ q → (c ∈ s'.cs ↔ c ∈ s.cs) := by
  cases hget : getC s q with
  | none => simp [step, hget] at h
  | some c0 =>
    simp only [step, hget] at h
    by_cases hg : (!c0.opened || c0.closeCalled) = true
    · rw [if_pos hg] at h; cases h
    · rw [if_neg hg] at h
      by_cases hsh : s.cShutdown = true
      · simp only [setC, hsh, ↓reduceIte, Option.some.injEq] at h
        subst h
        refine ⟨rfl, rfl, rfl, fun c hq => ?_⟩
        show c ∈ updC q _ (updC q _ s.cs) ↔ _
        rw [mem_updC_ne (by intro; rfl) hq, mem_updC_ne (by intro; rfl) hq]
      · simp only [setC, hsh, Bool.false_eq_true, ↓reduceIte, Option.some.injEq] at h
        subst h
        refine ⟨(sendC_fields _ _).2.2.1, (sendC_fields _ _).2.1, (sendC_fields _ _).2.2.2, fun c hq => ?_⟩
        rw [(sendC_fields _ _).1]
        show c ∈ updC q _ (updC q _ s.cs) ↔ _
        rw [mem_updC_ne (by intro; rfl) hq, mem_updC_ne (by intro; rfl) hq]

/-- `WriteMessage` on a stopped client end: an error for the caller, nothing is sent, nothing else changes -/
theorem write_closed_errors (s s' : State) (q m : Nat) (c : CStream) (hc : getC s q = some c) (hcl : c.e.closed = true)
    (h : step s (.cWrite q m) = some s') :
    s' = setC s q (fun c => { c with e := { c.e with writeErrs := c.e.writeErrs + 1 } }) := by
  simp only [step, hc] at h
  by_cases hg : (!c.opened || m == 0) = true
  · rw [if_pos hg] at h; cases h
  · rw [if_neg hg, if_pos hcl] at h
    cases h; rfl

/-- the same for a handler: the server end is stopped, or the connection's teardown has run -/
theorem sWrite_closed_errors (s s' : State) (q m : Nat) (t : SStream) (ht : getS s q = some t)
    (hcl : t.e.closed = true ∨ s.sTornDown = true) (h : step s (.sWrite q m) = some s') :
    s' = setS s q (fun t => { t with e := { t.e with writeErrs := t.e.writeErrs + 1 } }) := by
  simp only [step, ht] at h
  by_cases hg : (!t.started || t.exited || m == 0) = true
  · rw [if_pos hg] at h; cases h
  · have : (t.e.closed || s.sTornDown) = true := by
      rcases hcl with h1 | h1 <;> simp [h1]
    rw [if_neg hg, if_pos this] at h
    cases h; rfl

/-- so: the paths and the other side are untouched, and only `writeErrs` of the streams numbered q moves -/
theorem write_closed_sends_nothing (s s' : State) (q m : Nat) (c : CStream) (hc : getC s q = some c) (hcl : c.e.closed = true)
    (h : step s (.cWrite q m) = some s') :
    s'.c2s = s.c2s ∧ s'.s2c = s.s2c ∧ s'.ss = s.ss ∧
    ∀ c' ∈ s'.cs, ∃ c0 ∈ s.cs, c'.seq = c0.seq ∧ c'.e.written = c0.e.written ∧ c'.e.delivered = c0.e.delivered ∧
      c'.e.closed = c0.e.closed := by
  rw [write_closed_errors s s' q m c hc hcl h]
  refine ⟨rfl, rfl, rfl, fun c' hc' => ?_⟩
  rcases mem_updC hc' with ⟨h1, _⟩ | ⟨c0, h0, _, rfl⟩
  · exact ⟨c', h1, rfl, rfl, rfl, rfl⟩
  · exact ⟨c0, h0, rfl, rfl, rfl, rfl⟩

/-! ### `runTrace`, and the driver's run-time check -/

theorem accepts_of_runTrace : ∀ {tr : List Ev} {s s' : State}, runTrace s tr = some s' → Accepts s tr s'
  | [], s, s', h => by
    simp only [runTrace, Option.some.injEq] at h
    subst h; exact Accepts.nil s
  | e :: es, s, s', h => by
    simp only [runTrace] at h
    cases hs : step s e with
    | none => rw [hs] at h; cases h
    | some s1 =>
      rw [hs] at h
      exact Accepts.cons hs (accepts_of_runTrace h)

theorem isPrefix_of_prefix {a b : List Nat} (h : a <+: b) : isPrefix a b = true := by
  obtain ⟨t, rfl⟩ := h
  unfold isPrefix
  simp

/-- the check the driver evaluates after every script action can never fail -/
theorem Inv.checkInv {s : State} (h : Inv s) : checkInv s = true := by
  unfold RpcVerif.T.checkInv
  simp only [Bool.and_eq_true, List.all_eq_true, Bool.or_eq_true, bne_iff_ne, ne_eq, Bool.not_eq_true', beq_iff_eq]
  refine ⟨⟨⟨⟨?_, ?_⟩, ?_⟩, ?_⟩, ?_⟩
  · intro c hc t ht
    by_cases hseq : t.seq = c.seq
    · right
      refine ⟨⟨⟨isPrefix_of_prefix (h.downPrefix c hc t ht hseq), isPrefix_of_prefix (h.upPrefix c hc t ht hseq)⟩, ?_⟩, ?_⟩
      · rcases Bool.eq_false_or_eq_true c.e.closed with h1 | h1
        · exact Or.inl (Or.inl (Or.inl (Or.inl h1)))
        rcases Bool.eq_false_or_eq_true c.failed with h2 | h2
        · exact Or.inl (Or.inl (Or.inl (Or.inr h2)))
        rcases Bool.eq_false_or_eq_true s.cut with h3 | h3
        · exact Or.inl (Or.inl (Or.inr h3))
        rcases Bool.eq_false_or_eq_true s.cShutdown with h4 | h4
        · exact Or.inl (Or.inr h4)
        exact Or.inr (h.downNoLoss c hc t ht hseq h1 h2 h3 h4)
      · rcases Bool.eq_false_or_eq_true t.e.closed with h1 | h1
        · exact Or.inl (Or.inl (Or.inl (Or.inl h1)))
        rcases Bool.eq_false_or_eq_true t.inTable with h2 | h2
        · rcases Bool.eq_false_or_eq_true s.cut with h3 | h3
          · exact Or.inl (Or.inl (Or.inr h3))
          rcases Bool.eq_false_or_eq_true s.sEnded with h4 | h4
          · exact Or.inl (Or.inr h4)
          exact Or.inr (h.upNoLoss c hc t ht hseq h1 h2 h3 h4)
        · exact Or.inl (Or.inl (Or.inl (Or.inr h2)))
    · exact Or.inl hseq
  · intro c hc
    rcases Bool.eq_false_or_eq_true c.e.closed with h1 | h1
    · exact Or.inr (h.noStranded.1 c hc h1)
    · exact Or.inl h1
  · intro t ht
    rcases Bool.eq_false_or_eq_true t.e.closed with h1 | h1
    · exact Or.inr (h.noStranded.2 t ht h1)
    · exact Or.inl h1
  · rcases Bool.eq_false_or_eq_true s.cShutdown with h1 | h1
    · right
      intro c hc
      rcases Bool.eq_false_or_eq_true c.opened with h2 | h2
      · exact Or.inr (h.tornDown.1 h1 c hc h2)
      · exact Or.inl h2
    · exact Or.inl h1
  · rcases Bool.eq_false_or_eq_true s.sTornDown with h1 | h1
    · exact Or.inr (h.tornDown.2 h1)
    · exact Or.inl h1

theorem checkInv_accepts {cfg : Cfg} {tr : List Ev} {s : State} (h : Accepts (init cfg) tr s) : checkInv s = true :=
  (inv_accepts h).checkInv

/-! ### non-vacuity -/

/-- queued I/O on both sides: the handler writes 1 and 2 before the client has processed the
    acknowledgement; the client then reads 1 and 2, in this order -/
example :
    (runTrace (init ⟨false, false⟩)
      [.cOpen, .sRecv, .sDecode, .sWrite 0 1, .sWrite 0 2, .cRecv, .cRecv, .cRecv, .cDecode, .cDecode, .cDecode,
       .cStreamRun, .cStreamRun, .cRead 0, .cRead 0]).map
      (fun s => (s.cs.map (fun c => (c.opened, c.e.delivered, c.e.events)), s.s2c.length, checkInv s)) =
    some ([(true, [1, 2], [])], 0, true) := by decide


/-- the same with direct I/O on both sides -/
example :
    (runTrace (init ⟨true, true⟩)
      [.cOpen, .sRecv, .sWrite 0 1, .sWrite 0 2, .cRecv, .cRecv, .cRecv, .cRead 0, .cRead 0]).map
      (fun s => (s.cs.map (fun c => (c.opened, c.e.delivered, c.e.events)), checkInv s)) =
    some ([(true, [1, 2], [])], true) := by decide

/-- client → server: two messages written, read by the handler in order; a third one is still in flight -/
example :
    (runTrace (init ⟨false, false⟩)
      [.cOpen, .sRecv, .sDecode, .cRecv, .cDecode, .cWrite 0 7, .cWrite 0 8, .cWrite 0 9, .sRecv, .sRecv, .sDecode, .sDecode,
       .sStreamRun, .sStreamRun, .sRead 0, .sRead 0]).map
      (fun s => (s.ss.map (fun t => (t.e.delivered, t.e.events)), upInFlight s 0, checkInv s)) =
    some ([([7, 8], [])], [9], true) := by decide

/-- a reader parked on the client stream is released by `cEof` after the link was cut: it returns the
    error (counted once), the stream is stopped, and a later `ReadMessage` fails at once -/
example :
    (runTrace (init ⟨false, false⟩)
      [.cOpen, .sRecv, .sDecode, .cRecv, .cDecode, .cRead 0]).map
      (fun s => s.cs.map (fun c => (c.e.waiting, c.e.closed, c.e.readErrs))) = some [(true, false, 0)] ∧
    (runTrace (init ⟨false, false⟩)
      [.cOpen, .sRecv, .sDecode, .cRecv, .cDecode, .cRead 0, .cutLink 0 0, .cEof]).map
      (fun s => (s.cs.map (fun c => (c.e.waiting, c.e.closed, c.e.readErrs)), s.cShutdown, checkInv s)) =
      some ([(false, true, 1)], true, true) ∧
    (runTrace (init ⟨false, false⟩)
      [.cOpen, .sRecv, .sDecode, .cRecv, .cDecode, .cRead 0, .cutLink 0 0, .cEof, .cRead 0]).map
      (fun s => s.cs.map (fun c => (c.e.waiting, c.e.closed, c.e.readErrs))) = some [(false, true, 2)] := by decide

/-- a handler parked in `ReadMessage` is released by the client's close request, and by the server's teardown -/
example :
    (runTrace (init ⟨false, false⟩)
      [.cOpen, .sRecv, .sDecode, .cRecv, .cDecode, .sRead 0, .cClose 0, .sRecv, .sDecode]).map
      (fun s => (s.ss.map (fun t => (t.e.waiting, t.e.closed, t.e.readErrs)), s.ss.map (·.inTable), checkInv s)) =
      some ([(false, true, 1)], [false], true) ∧
    (runTrace (init ⟨false, false⟩)
      [.cOpen, .sRecv, .sDecode, .cRecv, .cDecode, .sRead 0, .cutLink 0 0, .sEof]).map
      (fun s => (s.ss.map (fun t => (t.e.waiting, t.e.closed, t.e.readErrs)), s.sTornDown, checkInv s)) =
      some ([(false, true, 1)], true, true) := by decide

/-- after `Close` a `WriteMessage` fails and sends nothing; the other stream keeps working -/
def closeOneTrace : List Ev :=
  [.cOpen, .cOpen, .sRecv, .sRecv, .cRecv, .cRecv, .cClose 0, .cWrite 0 5, .cWrite 1 6, .sRecv, .sRecv, .sRead 1,
   .sWrite 1 4, .cRecv, .cRecv, .cRead 1]

example :
    (runTrace (init ⟨true, true⟩) closeOneTrace).map (fun s => s.cs.map (fun c => (c.e.closed, c.e.writeErrs, c.e.written))) =
      some [(true, 1, []), (false, 0, [6])] ∧
    (runTrace (init ⟨true, true⟩) closeOneTrace).map (fun s => s.cs.map (fun c => (c.e.delivered, c.closeDone))) =
      some [([], true), ([4], false)] ∧
    (runTrace (init ⟨true, true⟩) closeOneTrace).map (fun s => (s.ss.map (fun t => (t.e.closed, t.e.delivered)), checkInv s)) =
      some ([(true, []), (false, [6])], true) := by decide

/-- a cut loses the tail of what is in flight, never the middle: the prefix property survives, equality does not -/
example :
    (runTrace (init ⟨true, true⟩)
      [.cOpen, .sRecv, .cRecv, .sWrite 0 1, .sWrite 0 2, .sWrite 0 3, .cutLink 0 2, .sWrite 0 4, .cRecv, .cRecv, .cRead 0,
       .cRead 0, .cRead 0]).map
      (fun s => (s.cs.map (fun c => (c.e.delivered, c.e.waiting)), s.ss.map (fun t => (t.e.written, t.e.writeErrs)), checkInv s)) =
    some ([([1, 2], true)], [([1, 2, 3, 4], 0)], true) := by decide

end RpcVerif.T
