import RpcVerif.Model.RouterInv
/-
  Proofs of the invariants of R (the load-balancing Client) and of the properties C16/C17/C18.
-/
namespace RpcVerif.R
open RpcVerif

/-! ### dedupAddrs -/

theorem mem_dedupAddrs (l : List String) (a : String) : a ∈ dedupAddrs l ↔ (a ∈ l ∧ a ≠ "") := by
  induction l with
  | nil => simp [dedupAddrs]
  | cons x xs ih =>
    unfold dedupAddrs
    split
    · rename_i hc
      simp at hc
      rw [ih]
      constructor
      · intro h; exact ⟨List.mem_cons_of_mem _ h.1, h.2⟩
      · intro h
        refine ⟨?_, h.2⟩
        rcases List.mem_cons.mp h.1 with rfl | h1
        · rcases hc with hc | hc
          · exact absurd hc h.2
          · exact hc
        · exact h1
    · rename_i hc
      simp at hc
      rw [List.mem_cons, ih, List.mem_cons]
      constructor
      · rintro (rfl | h)
        · exact ⟨Or.inl rfl, hc.1⟩
        · exact ⟨Or.inr h.1, h.2⟩
      · rintro ⟨rfl | h, h2⟩
        · exact Or.inl rfl
        · exact Or.inr ⟨h, h2⟩

theorem nodup_dedupAddrs (l : List String) : (dedupAddrs l).Nodup := by
  induction l with
  | nil => simp [dedupAddrs]
  | cons x xs ih =>
    unfold dedupAddrs
    split
    · exact ih
    · rename_i hc
      simp at hc
      rw [List.nodup_cons]
      refine ⟨?_, ih⟩
      intro h
      exact hc.2 ((mem_dedupAddrs xs x).mp h).1

theorem nodup_reverse {α : Type} (l : List α) (h : l.Nodup) : l.reverse.Nodup :=
  (List.reverse_perm l).nodup_iff.mpr h

theorem addrs_update (s : State) (ts : List String) :
    addrs (update s ts) = (dedupAddrs ts.reverse).reverse := by
  simp [addrs, update, List.map_map, Function.comp_def]

/-! ### sorting is a permutation -/

theorem insertSorted_perm (x : String) (l : List String) : (insertSorted x l).Perm (x :: l) := by
  induction l with
  | nil => simp [insertSorted]
  | cons y ys ih =>
    unfold insertSorted
    split
    · exact List.Perm.refl _
    · exact ((List.Perm.cons y ih).trans (List.Perm.swap x y ys))

theorem sortAddrs_perm (l : List String) : (sortAddrs l).Perm l := by
  induction l with
  | nil => simp [sortAddrs]
  | cons y ys ih =>
    show (insertSorted y (sortAddrs ys)).Perm (y :: ys)
    exact (insertSorted_perm y _).trans (List.Perm.cons y ih)

/-! ### swap, heapDown, heapify are permutations -/

theorem swap_length (h : List String) (i j : Nat) : (swap h i j).length = h.length := by
  unfold swap
  split <;> simp

theorem swap_perm (h : List String) (i j : Nat) : (swap h i j).Perm h := by
  unfold swap
  split
  · rename_i x y hx hy
    have hi : i < h.length := (List.getElem?_eq_some_iff.mp hx).1
    have hj : j < h.length := (List.getElem?_eq_some_iff.mp hy).1
    have hxi : h[i] = x := (List.getElem?_eq_some_iff.mp hx).2
    have hyj : h[j] = y := (List.getElem?_eq_some_iff.mp hy).2
    rw [List.perm_iff_count]
    intro b
    have hj' : j < (h.set i y).length := by simpa using hj
    rw [List.count_set hj', List.count_set hi, List.getElem_set]
    have hxm : x ∈ h := hxi ▸ List.getElem_mem hi
    have hpos : (x == b) = true → 0 < List.count b h := by
      intro hb
      have : x = b := by simpa using hb
      subst this
      exact List.count_pos_iff.mpr hxm
    have hE : (if i = j then y else h[j]) = y := by
      split
      · rfl
      · exact hyj
    rw [hE, hxi]
    by_cases h1 : (x == b) = true <;> by_cases h2 : (y == b) = true <;> simp [h1, h2]
    · have := hpos h1; omega
    · have := hpos h1; omega
  · exact List.Perm.refl _

/-- index of the smaller child (client.go heapDown: `less`) -/
def lessIdx (s : State) (h : List String) (p : Nat) : Nat :=
  if 2 * p + 2 < h.length && latOf s (h.getD (2 * p + 2) "") < latOf s (h.getD (2 * p + 1) "")
  then 2 * p + 2 else 2 * p + 1

theorem heapDown_succ (s : State) (f : Nat) (h : List String) (p : Nat) :
    heapDown s (f + 1) h p =
      if 2 * p + 1 ≥ h.length then h
      else if !(latOf s (h.getD (lessIdx s h p) "") < latOf s (h.getD p "")) then h
      else heapDown s f (swap h p (lessIdx s h p)) (lessIdx s h p) := by
  rfl

theorem heapDown_perm (s : State) (fuel : Nat) (h : List String) (p : Nat) :
    (heapDown s fuel h p).Perm h := by
  induction fuel generalizing h p with
  | zero => exact List.Perm.refl _
  | succ f ih =>
    rw [heapDown_succ]
    split
    · exact List.Perm.refl _
    · split
      · exact List.Perm.refl _
      · exact (ih _ _).trans (swap_perm _ _ _)

theorem heapify_fold_perm (s : State) (is : List Nat) (h : List String) :
    (is.foldl (fun h i => heapDown s h.length h i) h).Perm h := by
  induction is generalizing h with
  | nil => exact List.Perm.refl _
  | cons i is ih =>
    simp only [List.foldl_cons]
    exact (ih _).trans (heapDown_perm _ _ _ _)

theorem heapify_perm (s : State) (h : List String) : (heapify s h).Perm h :=
  heapify_fold_perm s _ h

/-! ### frame lemmas -/

theorem inv_of_eq {s s' : State} (h : Inv s) (ha : addrs s' = addrs s) (hl : s'.list = s.list)
    (hh : s'.heap = s.heap) (hp : s'.pos = s.pos) (hla : s'.last = s.last) : Inv s' := by
  constructor
  · rw [ha]; exact h.targetsNodup
  · rw [ha]; exact h.noEmptyAddr
  · rw [ha, hl]; exact h.listSub
  · rw [hl]; exact h.listNodup
  · rw [hh, hl]; exact h.heapPerm
  · rw [hl, hp]; exact h.posOk
  · rw [hl, hla]; exact h.lastOk

theorem addrs_setT (s : State) (a : String) (f : Target → Target) (hf : ∀ t, (f t).addr = t.addr) :
    addrs (setT s a f) = addrs s := by
  simp only [addrs, setT, List.map_map]
  apply List.map_congr_left
  intro t _
  simp only [Function.comp]
  split
  · exact hf t
  · rfl

theorem inv_setT (s : State) (a : String) (f : Target → Target) (hf : ∀ t, (f t).addr = t.addr)
    (h : Inv s) : Inv (setT s a f) :=
  inv_of_eq h (addrs_setT s a f hf) rfl rfl rfl rfl

theorem checkPending_frame (s : State) :
    (checkPending s).targets = s.targets ∧ (checkPending s).list = s.list ∧
    (checkPending s).heap = s.heap ∧ (checkPending s).pos = s.pos ∧ (checkPending s).last = s.last ∧
    (checkPending s).closed = s.closed ∧ (checkPending s).sent = s.sent := by
  unfold checkPending
  split <;> simp

theorem inv_checkPending (s : State) (h : Inv s) : Inv (checkPending s) := by
  have hf := checkPending_frame s
  exact inv_of_eq h (by simp [addrs, hf.1]) hf.2.1 hf.2.2.1 hf.2.2.2.1 hf.2.2.2.2.1

/-! ### checkDone -/

/-- the state after `check` recorded the ping outcome and reset the latency of dead targets -/
def afterPing (s : State) (a : String) (pingOk : Bool) : State :=
  let s := setT s a fun t => { t with alive := pingOk }
  { s with targets := s.targets.map fun t => if t.alive then t else { t with latency := Gen.clientLatency } }

theorem checkDone_eq (s : State) (a : String) (ok : Bool) (order : List String) :
    checkDone s a ok order =
      if (aliveAddrs (afterPing s a ok)).isEmpty then
        some { afterPing s a ok with list := [], heap := [], last := [] }
      else if sortAddrs (aliveAddrs (afterPing s a ok)) == (afterPing s a ok).last then
        some (checkPending (afterPing s a ok))
      else if sortAddrs order == sortAddrs (aliveAddrs (afterPing s a ok)) then
        some (checkPending { afterPing s a ok with
          last := sortAddrs (aliveAddrs (afterPing s a ok)), list := order, heap := order, pos := 0 })
      else none := by
  rfl

theorem afterPing_frame (s : State) (a : String) (ok : Bool) :
    addrs (afterPing s a ok) = addrs s ∧ (afterPing s a ok).list = s.list ∧
    (afterPing s a ok).heap = s.heap ∧ (afterPing s a ok).pos = s.pos ∧
    (afterPing s a ok).last = s.last ∧ (afterPing s a ok).waiters = s.waiters ∧
    (afterPing s a ok).released = s.released ∧ (afterPing s a ok).closed = s.closed ∧
    (afterPing s a ok).fallback = s.fallback ∧ (afterPing s a ok).sent = s.sent := by
  refine ⟨?_, rfl, rfl, rfl, rfl, rfl, rfl, rfl, rfl, rfl⟩
  have h1 : addrs (afterPing s a ok) = addrs (setT s a fun t => { t with alive := ok }) := by
    simp only [addrs, afterPing, List.map_map]
    apply List.map_congr_left
    intro t _
    simp only [Function.comp]
    split <;> rfl
  rw [h1]
  exact addrs_setT s a _ (fun _ => rfl)

theorem aliveAddrs_sublist (s : State) : (aliveAddrs s).Sublist (addrs s) :=
  List.Sublist.map _ List.filter_sublist

theorem inv_checkDone (s s' : State) (a : String) (ok : Bool) (order : List String) (h : Inv s)
    (hs : checkDone s a ok order = some s') : Inv s' := by
  rw [checkDone_eq] at hs
  have hf := afterPing_frame s a ok
  have h2 : Inv (afterPing s a ok) := inv_of_eq h hf.1 hf.2.1 hf.2.2.1 hf.2.2.2.1 hf.2.2.2.2.1
  generalize afterPing s a ok = s2 at hs h2
  split at hs
  · cases hs
    exact ⟨h2.targetsNodup, h2.noEmptyAddr, (fun _ h => by cases h), List.nodup_nil,
      List.Perm.refl _, Or.inl rfl, Or.inr ⟨rfl, rfl⟩⟩
  · split at hs
    · cases hs
      exact inv_checkPending _ h2
    · split at hs
      · rename_i hso
        cases hs
        have hso : sortAddrs order = sortAddrs (aliveAddrs s2) := by simpa using hso
        have hperm : order.Perm (aliveAddrs s2) :=
          (sortAddrs_perm order).symm.trans (hso ▸ sortAddrs_perm (aliveAddrs s2))
        have hlnd : (aliveAddrs s2).Nodup := (aliveAddrs_sublist s2).nodup h2.targetsNodup
        apply inv_checkPending
        refine ⟨h2.targetsNodup, h2.noEmptyAddr, ?_, hperm.nodup_iff.mpr hlnd,
          List.Perm.refl _, ?_, Or.inl hso.symm⟩
        · intro x hx
          exact (aliveAddrs_sublist s2).subset (hperm.mem_iff.mp hx)
        · show order = [] ∨ 0 < order.length
          cases order with
          | nil => exact Or.inl rfl
          | cons _ _ => exact Or.inr (Nat.succ_pos _)
      · cases hs

/-! ### schedule -/

theorem cursorStep_lt (pos n : Nat) (hn : 0 < n) : Gen.cursorStep pos n < n :=
  Nat.mod_lt _ hn

theorem schedule_nil (s : State) (c : Nat) (hl : s.list = []) : schedule s c = (s, none) := by
  unfold schedule; rw [hl]

theorem schedule_one (s : State) (c : Nat) (a : String) (hl : s.list = [a]) :
    schedule s c = (s, some (a, false)) := by
  unfold schedule; rw [hl]

theorem schedule_ge2 (s : State) (c : Nat) (hn : 2 ≤ s.list.length) :
    schedule s c =
      match s.policy with
      | .rr => ({ s with pos := Gen.cursorStep s.pos s.list.length }, some (s.list.getD s.pos "", true))
      | .random => (s, some (s.list.getD (c % s.list.length) "", true))
      | .least =>
        if s.probeAlways || s.probeDue then
          ({ s with pos := Gen.cursorStep s.pos s.list.length, probeDue := false },
            some (s.list.getD s.pos "", true))
        else ({ s with heap := heapify s s.heap }, some ((heapify s s.heap).getD 0 "", true)) := by
  unfold schedule
  split
  · rename_i hl; rw [hl] at hn; simp at hn
  · rename_i hl; rw [hl] at hn; simp at hn
  · rfl

theorem list_cases (l : List String) : l = [] ∨ (∃ a, l = [a]) ∨ 2 ≤ l.length := by
  match l with
  | [] => exact Or.inl rfl
  | [a] => exact Or.inr (Or.inl ⟨a, rfl⟩)
  | _ :: _ :: _ => exact Or.inr (Or.inr (by simp))

theorem getD_mem (l : List String) (i : Nat) (hi : i < l.length) : l.getD i "" ∈ l := by
  rw [List.getD_eq_getElem?_getD, List.getElem?_eq_getElem hi]
  exact List.getElem_mem hi

theorem schedule_frame (s : State) (c : Nat) :
    (schedule s c).1.targets = s.targets ∧ (schedule s c).1.list = s.list ∧
    (schedule s c).1.last = s.last ∧ (schedule s c).1.waiters = s.waiters ∧
    (schedule s c).1.released = s.released ∧ (schedule s c).1.closed = s.closed ∧
    (schedule s c).1.sent = s.sent ∧ (schedule s c).1.policy = s.policy := by
  rcases list_cases s.list with hl | ⟨a, hl⟩ | hl
  · rw [schedule_nil s c hl]; simp
  · rw [schedule_one s c a hl]; simp
  · rw [schedule_ge2 s c hl]
    cases hp : s.policy
    · simp
    · simp [hp]
    · simp only
      split <;> simp

theorem inv_schedule (s : State) (c : Nat) (h : Inv s) : Inv (schedule s c).1 := by
  rcases list_cases s.list with hl | ⟨a, hl⟩ | hl
  · rw [schedule_nil s c hl]; exact h
  · rw [schedule_one s c a hl]; exact h
  · rw [schedule_ge2 s c hl]
    have hpos : Gen.cursorStep s.pos s.list.length < s.list.length := cursorStep_lt _ _ (by omega)
    have h1 : ∀ b, Inv { s with pos := Gen.cursorStep s.pos s.list.length, probeDue := b } := by
      intro b
      exact ⟨h.targetsNodup, h.noEmptyAddr, h.listSub, h.listNodup, h.heapPerm, Or.inr hpos, h.lastOk⟩
    cases hp : s.policy
    · exact inv_of_eq (h1 s.probeDue) rfl rfl rfl rfl rfl
    · exact h
    · simp only
      split
      · exact inv_of_eq (h1 false) rfl rfl rfl rfl rfl
      · exact ⟨h.targetsNodup, h.noEmptyAddr, h.listSub, h.listNodup,
          (heapify_perm s s.heap).trans h.heapPerm, h.posOk, h.lastOk⟩

theorem schedule_pick_mem (s : State) (c : Nat) (h : Inv s) (a : String) (fb : Bool)
    (hr : (schedule s c).2 = some (a, fb)) : a ∈ s.list := by
  rcases list_cases s.list with hl | ⟨b, hl⟩ | hl
  · rw [schedule_nil s c hl] at hr; cases hr
  · rw [schedule_one s c b hl] at hr
    simp at hr
    rw [hl, ← hr.1]; simp
  · rw [schedule_ge2 s c hl] at hr
    have hpos : s.pos < s.list.length := by
      rcases h.posOk with h0 | h0
      · rw [h0] at hl; simp at hl
      · exact h0
    have hrr : s.list.getD s.pos "" ∈ s.list := getD_mem _ _ hpos
    cases hp : s.policy <;> rw [hp] at hr <;> simp only at hr
    · simp at hr; rw [← hr.1]; exact hrr
    · simp at hr; rw [← hr.1]; exact getD_mem _ _ (Nat.mod_lt _ (by omega))
    · split at hr
      · simp at hr; rw [← hr.1]; exact hrr
      · simp at hr
        rw [← hr.1]
        have hlen : (heapify s s.heap).length = s.list.length :=
          ((heapify_perm s s.heap).trans h.heapPerm).length_eq
        exact ((heapify_perm s s.heap).trans h.heapPerm).mem_iff.mp (getD_mem _ _ (by omega))

/-! ### routeNow -/

theorem routeNow_spec (s : State) (c : Nat) :
    (s.closed = true ∧ routeNow s c = (s, .shutdown)) ∨
    (s.closed = false ∧ routeNow s c = (s, .mustWait)) ∨
    (s.closed = false ∧ ∃ a, s.director = some a ∧ routeNow s c = (s, .addr a false)) ∨
    (s.closed = false ∧ ∃ a fb, (schedule s c).2 = some (a, fb) ∧
      routeNow s c = ((schedule s c).1, .addr a fb)) ∨
    (s.closed = false ∧ routeNow s c = ((schedule s c).1, .mustWait)) := by
  unfold routeNow
  cases hc : s.closed
  · simp only [Bool.false_eq_true, if_false]
    split
    · exact Or.inr (Or.inl ⟨trivial, rfl⟩)
    · have hsch : (match schedule s c with
          | (s', some (a, fb)) => (s', Routed.addr a fb)
          | (s', none) => (s', Routed.mustWait)) = ((schedule s c).1, .mustWait) ∨
          ∃ a fb, (schedule s c).2 = some (a, fb) ∧ (match schedule s c with
          | (s', some (a, fb)) => (s', Routed.addr a fb)
          | (s', none) => (s', Routed.mustWait)) = ((schedule s c).1, .addr a fb) := by
        rcases schedule s c with ⟨s1, _ | ⟨a, fb⟩⟩
        · exact Or.inl rfl
        · exact Or.inr ⟨a, fb, rfl, rfl⟩
      split
      · rename_i a hd
        split
        · exact Or.inr (Or.inr (Or.inl ⟨trivial, a, hd, rfl⟩))
        · rcases hsch with h | ⟨a, fb, h1, h2⟩
          · exact Or.inr (Or.inr (Or.inr (Or.inr ⟨trivial, h⟩)))
          · exact Or.inr (Or.inr (Or.inr (Or.inl ⟨trivial, a, fb, h1, h2⟩)))
      · rcases hsch with h | ⟨a, fb, h1, h2⟩
        · exact Or.inr (Or.inr (Or.inr (Or.inr ⟨trivial, h⟩)))
        · exact Or.inr (Or.inr (Or.inr (Or.inl ⟨trivial, a, fb, h1, h2⟩)))
  · exact Or.inl ⟨rfl, by simp⟩

/-- what a successful `route` step does: nothing (shutdown), or a send to the Director's answer,
    or a send to the address picked by `schedule` -/
theorem step_route_spec (s s' : State) (k c : Nat) (hs : step s (.route k c) = some s') :
    (s.closed = true ∧ s' = s) ∨
    (s.closed = false ∧ ∃ a, s.director = some a ∧ s' = { s with sent := s.sent ++ [a] }) ∨
    (s.closed = false ∧ ∃ a fb, (schedule s c).2 = some (a, fb) ∧
      s' = { (schedule s c).1 with sent := (schedule s c).1.sent ++ [a] }) := by
  simp only [step] at hs
  rcases routeNow_spec s c with ⟨hc, h⟩ | ⟨hc, h⟩ | ⟨hc, a, hd, h⟩ | ⟨hc, a, fb, hd, h⟩ | ⟨hc, h⟩ <;>
    rw [h] at hs <;> simp only [Option.some.injEq] at hs
  · exact Or.inl ⟨hc, hs.symm⟩
  · cases hs
  · exact Or.inr (Or.inl ⟨hc, a, hd, hs.symm⟩)
  · exact Or.inr (Or.inr ⟨hc, a, fb, hd, hs.symm⟩)
  · cases hs

/-! ### 1. the invariant `Inv` -/

theorem inv_init (p : Policy) (b : Bool) : Inv (init p b) := by
  refine ⟨?_, ?_, ?_, ?_, ?_, ?_, ?_⟩ <;> simp [init, addrs]

theorem update_clears (s : State) (ts : List String) :
    (update s ts).list = [] ∧ (update s ts).heap = [] ∧ (update s ts).last = [] ∧
    (addrs (update s ts)).Nodup ∧ "" ∉ addrs (update s ts) ∧
    ∀ a, a ∈ addrs (update s ts) ↔ (a ∈ ts ∧ a ≠ "") := by
  refine ⟨rfl, rfl, rfl, ?_, ?_, ?_⟩
  · rw [addrs_update]
    exact nodup_reverse _ (nodup_dedupAddrs _)
  · rw [addrs_update, List.mem_reverse, mem_dedupAddrs]
    exact fun h => h.2 rfl
  · intro a
    rw [addrs_update, List.mem_reverse, mem_dedupAddrs, List.mem_reverse]

theorem inv_update (s : State) (ts : List String) : Inv (update s ts) := by
  have h := update_clears s ts
  refine ⟨h.2.2.2.1, h.2.2.2.2.1, ?_, ?_, ?_, Or.inl h.1, Or.inr ⟨h.1, h.2.2.1⟩⟩
  · rw [h.1]; intro a ha; cases ha
  · rw [h.1]; exact List.nodup_nil
  · rw [h.1, h.2.1]

theorem inv_step (s s' : State) (e : Ev) (h : Inv s) (hs : step s e = some s') : Inv s' := by
  cases e with
  | update ts => simp only [step, Option.some.injEq] at hs; subst hs; exact inv_update s ts
  | setUp a b => simp only [step, Option.some.injEq] at hs; subst hs; exact inv_of_eq h rfl rfl rfl rfl rfl
  | checkDone a order =>
    simp only [step] at hs
    split at hs
    · exact inv_checkDone s s' a _ order h hs
    · cases hs
  | detect => simp only [step, Option.some.injEq] at hs; subst hs; exact inv_checkPending s h
  | route k c =>
    rcases step_route_spec s s' k c hs with ⟨_, rfl⟩ | ⟨_, a, _, rfl⟩ | ⟨_, a, fb, _, rfl⟩
    · exact h
    · exact inv_of_eq h rfl rfl rfl rfl rfl
    · exact inv_of_eq (inv_schedule s c h) rfl rfl rfl rfl rfl
  | park k =>
    simp only [step] at hs
    split at hs <;> (simp only [Option.some.injEq] at hs; subst hs; exact inv_of_eq h rfl rfl rfl rfl rfl)
  | timeout k =>
    simp only [step] at hs
    split at hs
    · simp only [Option.some.injEq] at hs; subst hs; exact inv_of_eq h rfl rfl rfl rfl rfl
    · cases hs
  | report a dial =>
    simp only [step, Option.some.injEq] at hs; subst hs
    exact inv_setT s a _ (fun t => by split <;> rfl) h
  | close =>
    simp only [step] at hs
    split at hs <;> (simp only [Option.some.injEq] at hs; subst hs)
    · exact h
    · exact inv_of_eq h rfl rfl rfl rfl rfl
  | fallbackBegin => simp only [step, Option.some.injEq] at hs; subst hs; exact inv_of_eq h rfl rfl rfl rfl rfl
  | fallbackEnd =>
    simp only [step] at hs
    split at hs
    · simp only [Option.some.injEq] at hs; subst hs; exact inv_of_eq h rfl rfl rfl rfl rfl
    · cases hs
  | setDirector a => simp only [step, Option.some.injEq] at hs; subst hs; exact inv_of_eq h rfl rfl rfl rfl rfl
  | setLatency a v =>
    simp only [step, Option.some.injEq] at hs; subst hs
    exact inv_setT s a _ (fun _ => rfl) h
  | tickElapsed => simp only [step, Option.some.injEq] at hs; subst hs; exact inv_of_eq h rfl rfl rfl rfl rfl

theorem inv_run_from (tr : List Ev) (s0 s : State) (h0 : Inv s0) (h : run s0 tr = some s) : Inv s := by
  induction tr generalizing s0 with
  | nil => simp only [run, Option.some.injEq] at h; subst h; exact h0
  | cons e es ih =>
    simp only [run] at h
    cases hst : step s0 e with
    | none => rw [hst] at h; cases h
    | some s1 =>
      rw [hst] at h
      exact ih s1 (inv_step s0 s1 e h0 hst) h

theorem inv_run (p : Policy) (b : Bool) (tr : List Ev) (s : State) (h : run (init p b) tr = some s) :
    Inv s :=
  inv_run_from tr _ s (inv_init p b) h

/-! ### 2. C16 -/

theorem route_target (s s' : State) (h : Inv s) (k choice : Nat)
    (hs : step s (.route k choice) = some s') :
    s'.sent = s.sent ∨ ∃ a, s'.sent = s.sent ++ [a] ∧ (a ∈ addrs s ∨ s.director = some a) := by
  rcases step_route_spec s s' k choice hs with ⟨_, rfl⟩ | ⟨_, a, hd, rfl⟩ | ⟨_, a, fb, hp, rfl⟩
  · exact Or.inl rfl
  · exact Or.inr ⟨a, rfl, Or.inr hd⟩
  · refine Or.inr ⟨a, ?_, Or.inl (h.listSub a (schedule_pick_mem s choice h a fb hp))⟩
    show (schedule s choice).1.sent ++ [a] = s.sent ++ [a]
    rw [(schedule_frame s choice).2.2.2.2.2.2.1]

/-! ### 5. C18: waiters -/

theorem waitInv_of_eq {s s' : State} (h : WaitInv s) (hw : s'.waiters = s.waiters)
    (hr : s'.released = s.released) (hc : s'.closed = s.closed) : WaitInv s' := by
  constructor
  · rw [hw, hr]; exact h.disjoint
  · rw [hw, hc]; exact h.closedEmpty

theorem waitInv_init (p : Policy) (b : Bool) : WaitInv (init p b) := by
  constructor <;> simp [init]

theorem waitInv_checkPending (s : State) (h : WaitInv s) : WaitInv (checkPending s) := by
  unfold checkPending
  split
  · constructor
    · intro k hk; cases hk
    · intro _; rfl
  · exact h

theorem release_all (s : State) (hl : s.list ≠ []) (hf : s.fallback = 0) :
    (checkPending s).waiters = [] ∧ (checkPending s).released = s.released ++ s.waiters := by
  unfold checkPending
  have : (s.fallback == 0 && !s.list.isEmpty) = true := by
    simp [hf, hl]
  rw [if_pos this]
  exact ⟨rfl, rfl⟩

theorem waitInv_checkDone (s s' : State) (a : String) (ok : Bool) (order : List String)
    (h : WaitInv s) (hs : checkDone s a ok order = some s') : WaitInv s' := by
  rw [checkDone_eq] at hs
  have h2 : WaitInv (afterPing s a ok) := waitInv_of_eq h rfl rfl rfl
  generalize afterPing s a ok = s2 at hs h2
  split at hs
  · cases hs
    exact waitInv_of_eq h2 rfl rfl rfl
  · split at hs
    · cases hs
      exact waitInv_checkPending _ h2
    · split at hs
      · cases hs
        exact waitInv_checkPending _ (waitInv_of_eq h2 rfl rfl rfl)
      · cases hs

theorem waitInv_step (s s' : State) (e : Ev) (h : WaitInv s)
    (hfresh : ∀ k, e = .park k → k ∉ s.waiters ∧ k ∉ s.released)
    (hs : step s e = some s') : WaitInv s' := by
  cases e with
  | update ts => simp only [step, Option.some.injEq] at hs; subst hs; exact waitInv_of_eq h rfl rfl rfl
  | setUp a b => simp only [step, Option.some.injEq] at hs; subst hs; exact waitInv_of_eq h rfl rfl rfl
  | checkDone a order =>
    simp only [step] at hs
    split at hs
    · exact waitInv_checkDone s s' a _ order h hs
    · cases hs
  | detect => simp only [step, Option.some.injEq] at hs; subst hs; exact waitInv_checkPending s h
  | route k c =>
    have hf := schedule_frame s c
    rcases step_route_spec s s' k c hs with ⟨_, rfl⟩ | ⟨_, a, _, rfl⟩ | ⟨_, a, fb, _, rfl⟩
    · exact h
    · exact waitInv_of_eq h rfl rfl rfl
    · exact waitInv_of_eq h hf.2.2.2.1 hf.2.2.2.2.1 hf.2.2.2.2.2.1
  | park k =>
    have hk := hfresh k rfl
    simp only [step] at hs
    split at hs <;> (simp only [Option.some.injEq] at hs; subst hs)
    · rename_i hc
      have hw : s.waiters = [] := h.closedEmpty hc
      constructor
      · intro k' hk'
        have hk'' : k' ∈ s.waiters := hk'
        rw [hw] at hk''; cases hk''
      · intro _; exact hw
    · rename_i hc
      constructor
      · intro k' hk'
        have hk'' : k' ∈ s.waiters ++ [k] := hk'
        show k' ∉ s.released
        rcases List.mem_append.mp hk'' with h1 | h1
        · exact h.disjoint k' h1
        · have : k' = k := by simpa using h1
          rw [this]; exact hk.2
      · intro hc'
        exact absurd hc' hc
  | timeout k =>
    simp only [step] at hs
    split at hs
    · simp only [Option.some.injEq] at hs; subst hs
      constructor
      · intro k' hk'
        exact h.disjoint k' (List.mem_filter.mp hk').1
      · intro hc
        have hw : s.waiters = [] := h.closedEmpty hc
        show s.waiters.filter _ = []
        rw [hw]; rfl
    · cases hs
  | report a dial => simp only [step, Option.some.injEq] at hs; subst hs; exact waitInv_of_eq h rfl rfl rfl
  | close =>
    simp only [step] at hs
    split at hs <;> (simp only [Option.some.injEq] at hs; subst hs)
    · exact h
    · constructor
      · intro k hk; cases hk
      · intro _; rfl
  | fallbackBegin => simp only [step, Option.some.injEq] at hs; subst hs; exact waitInv_of_eq h rfl rfl rfl
  | fallbackEnd =>
    simp only [step] at hs
    split at hs
    · simp only [Option.some.injEq] at hs; subst hs; exact waitInv_of_eq h rfl rfl rfl
    · cases hs
  | setDirector a => simp only [step, Option.some.injEq] at hs; subst hs; exact waitInv_of_eq h rfl rfl rfl
  | setLatency a v => simp only [step, Option.some.injEq] at hs; subst hs; exact waitInv_of_eq h rfl rfl rfl
  | tickElapsed => simp only [step, Option.some.injEq] at hs; subst hs; exact waitInv_of_eq h rfl rfl rfl

theorem close_releases (s : State) (hc : s.closed = false) :
    ∃ s', step s .close = some s' ∧ s'.waiters = [] ∧ s'.closed = true ∧
      s'.released = s.released ++ s.waiters := by
  refine ⟨{ s with closed := true, released := s.released ++ s.waiters, waiters := [] }, ?_, rfl, rfl, rfl⟩
  simp [step, hc]

theorem closed_routes_shutdown (s : State) (hc : s.closed = true) (choice : Nat) :
    (routeNow s choice).2 = .shutdown := by
  simp [routeNow, hc]

theorem park_after_close (s : State) (hc : s.closed = true) (k : Nat) :
    ∃ s', step s (.park k) = some s' ∧ s'.waiters = s.waiters ∧ s'.released = s.released ++ [k] := by
  refine ⟨{ s with released := s.released ++ [k] }, ?_, rfl, rfl⟩
  simp [step, hc]

theorem second_close (s : State) (hc : s.closed = true) : step s .close = some s := by
  simp [step, hc]

/-! ### 3. C17: round robin and random -/

/-- `n` successive `schedule s 0` picks (threading the state): the addresses and the final state -/
def rrPicks : State → Nat → List String × State
  | s, 0 => ([], s)
  | s, k + 1 =>
    match schedule s 0 with
    | (s', some (a, _)) => (a :: (rrPicks s' k).1, (rrPicks s' k).2)
    | (s', none) => rrPicks s' k

theorem schedule_rr (s : State) (c : Nat) (hp : s.policy = .rr) (hn : 2 ≤ s.list.length) :
    schedule s c = ({ s with pos := Gen.cursorStep s.pos s.list.length }, some (s.list.getD s.pos "", true)) := by
  rw [schedule_ge2 s c hn]
  split <;> simp_all

theorem mod_add_lt (p i n : Nat) (hp : p < n) (hi : i < n) :
    (p + i) % n = if p + i < n then p + i else p + i - n := by
  split
  · rename_i h; exact Nat.mod_eq_of_lt h
  · rename_i h
    rw [Nat.mod_eq_sub_mod (by omega)]
    exact Nat.mod_eq_of_lt (by omega)

theorem rrPicks_eq (k : Nat) : ∀ s : State, s.policy = .rr → 2 ≤ s.list.length → s.pos < s.list.length →
    (rrPicks s k).1 = (List.range k).map (fun i => s.list.getD ((s.pos + i) % s.list.length) "") := by
  induction k with
  | zero => intro s _ _ _; rfl
  | succ k ih =>
    intro s hp hn hpos
    have hsch := schedule_rr s 0 hp hn
    have hstep : (rrPicks s (k + 1)).1 =
        s.list.getD s.pos "" :: (rrPicks { s with pos := Gen.cursorStep s.pos s.list.length } k).1 := by
      simp only [rrPicks, hsch]
    rw [hstep, ih { s with pos := Gen.cursorStep s.pos s.list.length } hp hn (cursorStep_lt _ _ (by omega))]
    rw [List.range_succ_eq_map, List.map_cons, List.map_map]
    congr 1
    · simp [Nat.mod_eq_of_lt hpos]
    · apply List.map_congr_left
      intro i _
      show s.list.getD (((s.pos + 1) % s.list.length + i) % s.list.length) "" =
        s.list.getD ((s.pos + (i + 1)) % s.list.length) ""
      rw [Nat.mod_add_mod]
      congr 2
      omega

theorem getD_eq (l : List String) (i : Nat) (hi : i < l.length) : l.getD i "" = l[i] := by
  simp [List.getD_eq_getElem?_getD, hi]

theorem nodup_map_of_inj_on {α β : Type} (f : α → β) (l : List α)
    (hinj : ∀ x, x ∈ l → ∀ y, y ∈ l → f x = f y → x = y) (hl : l.Nodup) : (l.map f).Nodup := by
  induction l with
  | nil => exact List.nodup_nil
  | cons a as ih =>
    rw [List.nodup_cons] at hl
    rw [List.map_cons, List.nodup_cons]
    refine ⟨?_, ih (fun x hx y hy => hinj x (List.mem_cons_of_mem _ hx) y (List.mem_cons_of_mem _ hy)) hl.2⟩
    intro hm
    rcases List.mem_map.mp hm with ⟨y, hy, hfy⟩
    have : y = a := hinj y (List.mem_cons_of_mem _ hy) a List.mem_cons_self hfy
    exact hl.1 (this ▸ hy)

theorem rotation_nodup (l : List String) (p : Nat) (hl : l.Nodup) (hp : p < l.length) :
    ((List.range l.length).map (fun i => l.getD ((p + i) % l.length) "")).Nodup := by
  apply nodup_map_of_inj_on _ _ _ List.nodup_range
  intro i hi j hj hij
  have hi : i < l.length := List.mem_range.mp hi
  have hj : j < l.length := List.mem_range.mp hj
  have h1 : (p + i) % l.length < l.length := Nat.mod_lt _ (by omega)
  have h2 : (p + j) % l.length < l.length := Nat.mod_lt _ (by omega)
  simp only [getD_eq l _ h1, getD_eq l _ h2] at hij
  have := (List.getElem_inj hl).mp hij
  rw [mod_add_lt p i _ hp hi, mod_add_lt p j _ hp hj] at this
  split at this <;> split at this <;> omega

theorem rotation_mem (l : List String) (p : Nat) (hp : p < l.length) (a : String) :
    a ∈ (List.range l.length).map (fun i => l.getD ((p + i) % l.length) "") ↔ a ∈ l := by
  constructor
  · intro h
    rcases List.mem_map.mp h with ⟨i, _, rfl⟩
    exact getD_mem _ _ (Nat.mod_lt _ (by omega))
  · intro h
    rcases List.mem_iff_getElem.mp h with ⟨j, hj, rfl⟩
    refine List.mem_map.mpr ⟨if p ≤ j then j - p else j + l.length - p, ?_, ?_⟩
    · rw [List.mem_range]; split <;> omega
    · have hi : (if p ≤ j then j - p else j + l.length - p) < l.length := by split <;> omega
      have : (p + if p ≤ j then j - p else j + l.length - p) % l.length = j := by
        rw [mod_add_lt p _ _ hp hi]
        split <;> split <;> omega
      rw [this, getD_eq l j hj]

theorem rr_distinct (s : State) (h : Inv s) (hp : s.policy = .rr) (hn : 2 ≤ s.list.length) :
    ((rrPicks s s.list.length).1).Nodup ∧ ∀ a, a ∈ (rrPicks s s.list.length).1 ↔ a ∈ s.list := by
  have hpos : s.pos < s.list.length := by
    rcases h.posOk with h0 | h0
    · rw [h0] at hn; simp at hn
    · exact h0
  rw [rrPicks_eq s.list.length s hp hn hpos]
  exact ⟨rotation_nodup s.list s.pos h.listNodup hpos, rotation_mem s.list s.pos hpos⟩

theorem random_in_list (s : State) (hp : s.policy = .random) (hn : 2 ≤ s.list.length) (choice : Nat) :
    ∃ a, (schedule s choice).2 = some (a, true) ∧ a ∈ s.list := by
  refine ⟨s.list.getD (choice % s.list.length) "", ?_, getD_mem _ _ (Nat.mod_lt _ (by omega))⟩
  rw [schedule_ge2 s choice hn]
  split <;> simp_all

/-! ### 4. C17 least time: after `heapify` the root has a minimal latency estimate -/

/-- latency estimate of the address stored at heap index `i` -/
def K (s : State) (h : List String) (i : Nat) : Int := latOf s (h.getD i "")

/-- heap property at node `j`: no child has a smaller latency estimate -/
def Hp (s : State) (h : List String) (j : Nat) : Prop :=
  ∀ c, c < h.length → (c = 2 * j + 1 ∨ c = 2 * j + 2) → K s h j ≤ K s h c

theorem swap_getD (h : List String) (i j k : Nat) (hi : i < h.length) (hj : j < h.length) (hij : i ≠ j) :
    (swap h i j).getD k "" = if k = j then h.getD i "" else if k = i then h.getD j "" else h.getD k "" := by
  unfold swap
  simp only [List.getElem?_eq_getElem hi, List.getElem?_eq_getElem hj, List.getD_eq_getElem?_getD,
    List.getElem?_set, List.length_set]
  by_cases h1 : k = j
  · subst h1; simp [hj]
  · by_cases h2 : k = i
    · subst h2; simp [hi, h1, Ne.symm h1]
    · simp [h1, h2, Ne.symm h1, Ne.symm h2]

theorem K_swap (s : State) (h : List String) (i j k : Nat) (hi : i < h.length) (hj : j < h.length) (hij : i ≠ j) :
    K s (swap h i j) k = if k = j then K s h i else if k = i then K s h j else K s h k := by
  unfold K
  rw [swap_getD h i j k hi hj hij]
  split
  · rfl
  · split <;> rfl

theorem lessIdx_spec (s : State) (h : List String) (p : Nat) (hl : 2 * p + 1 < h.length) :
    (lessIdx s h p = 2 * p + 1 ∨ lessIdx s h p = 2 * p + 2) ∧ lessIdx s h p < h.length ∧
    K s h (lessIdx s h p) ≤ K s h (2 * p + 1) ∧
    (2 * p + 2 < h.length → K s h (lessIdx s h p) ≤ K s h (2 * p + 2)) := by
  unfold lessIdx K
  split
  · rename_i hc
    simp only [Bool.and_eq_true, decide_eq_true_eq] at hc
    refine ⟨Or.inr rfl, hc.1, by omega, fun _ => by omega⟩
  · rename_i hc
    simp only [Bool.and_eq_true, decide_eq_true_eq, not_and] at hc
    refine ⟨Or.inl rfl, hl, by omega, fun h2 => ?_⟩
    have := hc h2
    omega
theorem sift_correct (s : State) : ∀ (fuel : Nat) (h : List String) (p lo : Nat),
    h.length ≤ fuel + p → lo ≤ p →
    (∀ j, lo ≤ j → j ≠ p → Hp s h j) →
    (∀ q, lo ≤ q → (p = 2 * q + 1 ∨ p = 2 * q + 2) →
      ∀ c, c < h.length → (c = 2 * p + 1 ∨ c = 2 * p + 2) → K s h q ≤ K s h c) →
    ∀ j, lo ≤ j → Hp s (heapDown s fuel h p) j := by
  intro fuel
  induction fuel with
  | zero =>
    intro h p lo hf hlo hH hG j hj
    show Hp s h j
    by_cases hjp : j = p
    · subst hjp; intro c hc hcj; omega
    · exact hH j hj hjp
  | succ f ih =>
    intro h p lo hf hlo hH hG j hj
    rw [heapDown_succ]
    split
    · by_cases hjp : j = p
      · subst hjp; intro c hc hcj; omega
      · exact hH j hj hjp
    · rename_i hl
      have hl : 2 * p + 1 < h.length := by omega
      obtain ⟨hl1, hl2, hl3, hl4⟩ := lessIdx_spec s h p hl
      generalize lessIdx s h p = l at *
      have hpn : p < h.length := by omega
      have hpl : p ≠ l := by omega
      split
      · rename_i hc
        have hc : K s h p ≤ K s h l := by
          simp only [Bool.not_eq_eq_eq_not, Bool.not_true, decide_eq_false_iff_not, Int.not_lt] at hc
          exact hc
        by_cases hjp : j = p
        · subst hjp; intro c hc' hcj
          rcases hcj with rfl | rfl
          · omega
          · have := hl4 hc'; omega
        · exact hH j hj hjp
      · rename_i hc
        have hc : K s h l < K s h p := by
          simp only [Bool.not_eq_eq_eq_not, Bool.not_true, decide_eq_false_iff_not, Int.not_lt] at hc
          exact Int.not_le.mp hc
        apply ih (swap h p l) l lo
        · rw [swap_length]; omega
        · omega
        · intro j' hj' hj'l c hc' hcj
          rw [swap_length] at hc'
          rw [K_swap s h p l _ hpn hl2 hpl, K_swap s h p l _ hpn hl2 hpl]
          by_cases hj'p : j' = p
          · subst hj'p
            rw [if_neg hj'l, if_pos rfl]
            split
            · omega
            · rw [if_neg (by omega)]
              rcases hcj with rfl | rfl
              · exact hl3
              · exact hl4 hc'
          · rw [if_neg hj'l, if_neg hj'p]
            have hHj := hH j' hj' hj'p c hc' hcj
            split
            · omega
            · split
              · rename_i _ hcp
                subst hcp
                exact hG j' hj' hcj l hl2 hl1
              · exact hHj
        · intro q hq hlq c hc' hcl
          have hqp : q = p := by omega
          subst hqp
          rw [swap_length] at hc'
          rw [K_swap s h q l _ hpn hl2 hpl, K_swap s h q l _ hpn hl2 hpl]
          rw [if_neg hpl, if_pos rfl, if_neg (by omega), if_neg (by omega)]
          exact hH l (by omega) (Ne.symm hpl) c hc' hcl
        · exact hj

theorem heapify_loop (s : State) : ∀ (m : Nat) (h : List String), (∀ j, m ≤ j → Hp s h j) →
    ∀ j, Hp s ((List.range m).reverse.foldl (fun h i => heapDown s h.length h i) h) j := by
  intro m
  induction m with
  | zero => intro h hH j; exact hH j (Nat.zero_le _)
  | succ m ih =>
    intro h hH j
    rw [List.range_succ, List.reverse_append]
    simp only [List.reverse_cons, List.reverse_nil, List.nil_append, List.cons_append, List.foldl_cons]
    apply ih
    intro j' hj'
    exact sift_correct s h.length h m m (by omega) (Nat.le_refl _) (fun j hj hne => hH j (by omega))
      (fun q hq hpq => by omega) j' hj'

theorem heapify_heap (s : State) (h : List String) : ∀ j, Hp s (heapify s h) j := by
  apply heapify_loop
  intro j hj c hc hcj
  omega

theorem heap_root_le (s : State) (h : List String) (hH : ∀ j, Hp s h j) :
    ∀ i, i < h.length → K s h 0 ≤ K s h i := by
  intro i
  induction i using Nat.strongRecOn with
  | _ i ih =>
    intro hi
    cases i with
    | zero => exact Int.le_refl _
    | succ i =>
      have h1 := ih (i / 2) (by omega) (by omega)
      have h2 := hH (i / 2) (i + 1) hi (by omega)
      omega

theorem heapify_root_min (s : State) (h : List String) (hne : h ≠ []) :
    ∀ a, a ∈ h → latOf s ((heapify s h).getD 0 "") ≤ latOf s a := by
  intro a ha
  have _ := hne
  have ha' : a ∈ heapify s h := (heapify_perm s h).mem_iff.mpr ha
  rcases List.mem_iff_getElem.mp ha' with ⟨i, hi, rfl⟩
  have := heap_root_le s (heapify s h) (heapify_heap s h) i hi
  rw [← getD_eq _ i hi]
  exact this

end RpcVerif.R
