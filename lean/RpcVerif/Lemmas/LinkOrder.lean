import RpcVerif.Lemmas.LinkErr
/-
  C05 end to end over the product L = K ‖ link ‖ S (Model/Link.lean): pipelining executes and completes
  a connection's calls in the order the client registered them.

  S: `cfg` never changes; the dispatched jobs' sequence numbers are a sub-list of those of the requests read.
  L: the requests the server reads carry strictly increasing sequence numbers (`L.Inv.wire` + `K.WSorted`);
     hence, with server pipelining, the handlers are entered (`S.pipe_serial`) and the job responses written
     (`S.pipe_response_order`) in increasing sequence number order. `Back` is the order invariant of the way
     back (the analogue of `L.Inv.wire`): what the client has read followed by what is in flight is, in
     order, a sub-list of the responses that have left the server. Hence the job responses the client
     reads carry increasing sequence numbers.
  K: `WO` — with client pipelining the send queue is a suffix of the calls in start order, and every call
     in the wire log is before that suffix or is its head; hence sequence numbers are handed out in start order.
-/
namespace RpcVerif.S
open RpcVerif

set_option linter.unusedVariables false

theorem tr_cfg {s s' : State} (h : Tr s s') : s'.cfg = s.cfg := by
  cases h <;> rfl

/-- the configuration of a server connection never changes -/
theorem accepts_cfg {cfg : Cfg} {tr : List Ev} {s : State} (h : Accepts (init cfg) tr s) : s.cfg = cfg :=
  (accepts_preserves (P := fun s => Base s ∧ s.cfg = cfg)
    (fun _ _ _ hp hs =>
      ⟨base_step allFlags_true hp.1 hs, (tr_cfg (step_shape allFlags_true hp.1.td hs)).trans hp.2⟩) h
    ⟨base_init cfg, rfl⟩).2

/-- the sequence numbers of the dispatched jobs, in dispatch order, are a sub-list of those of the requests read -/
theorem jobs_sublist_reqs {cfg : Cfg} {tr : List Ev} {s : State} (h : Accepts (init cfg) tr s) :
    (s.jobs.map (·.req.seq)).Sublist (s.reqs.map (·.seq)) := by
  have h1 := pipe_dispatch_order h
  have h2 : (s.jobs.map (·.req)).Sublist s.reqs := by
    have h3 : (s.jobs.map (·.req)).Sublist (s.reqs.filter isJob) := by
      rw [← h1]; exact List.sublist_append_left _ _
    exact h3.trans List.filter_sublist
  have h4 := h2.map (·.seq)
  rwa [List.map_map] at h4

end RpcVerif.S

namespace RpcVerif.K
open RpcVerif

set_option linter.unusedVariables false

/-! ### client pipelining: sequence numbers are handed out in start order -/

theorem readFrame_ids (s : State) (f : Frame) : (readFrame s f).1.ids = s.ids := by
  rcases readFrame_cases s f with h' | h' | ⟨k', c, _, _, _, h'⟩
  · rw [h']
  · rw [h']
  · rcases h' with ⟨e, _, h'⟩ | ⟨_, h'⟩ | ⟨hp, h'⟩ | ⟨_, _, h'⟩ | ⟨hp, _, h'⟩ <;> rw [h']
    · simp
    · simp

theorem readFrame_writes (s : State) (f : Frame) : (readFrame s f).1.writes = s.writes :=
  congrArg (·.1) (wsp_readFrame s f)

theorem sweepAll_ids (s : State) (e : Err) : (sweepAll s e).ids = s.ids :=
  foldl_failCall_inv (fun t => t.ids = s.ids) e _ (fun t p _ ht => by simp [ht]) _ rfl

theorem sweepAll_writes (s : State) (e : Err) : (sweepAll s e).writes = s.writes :=
  congrArg (·.1) (wsp_sweepAll s e)

theorem finishCall_ids (s : State) (k : Nat) (f : Frame) : (finishCall s k f).ids = s.ids := by
  rw [finishCall_eq]; simp

theorem finishCall_writes (s : State) (k : Nat) (f : Frame) : (finishCall s k f).writes = s.writes := by
  rw [finishCall_eq]; simp

/-- a step that is not a sender's leaves the configuration, the send queue, the start order and the wire log alone -/
structure Still (s s' : State) : Prop where
  cfg : s'.cfg = s.cfg
  sendQ : s'.sendQ = s.sendQ
  ids : s'.ids = s.ids
  writes : s'.writes = s.writes

theorem shape_still {s s' : State} (hs : Shape s s') : SendShape s s' ∨ Still s s' := by
  cases hs with
  | send _ hs => exact .inl hs
  | feedD f hd => exact .inr ⟨rfl, rfl, rfl, rfl⟩
  | feedQ f hd => exact .inr ⟨rfl, rfl, rfl, rfl⟩
  | setReader r hr => exact .inr ⟨rfl, rfl, rfl, rfl⟩
  | close => exact .inr ⟨rfl, rfl, rfl, rfl⟩
  | decodeD f hd hr =>
    exact .inr ⟨readFrame_cfg s f, readFrame_sendQ s f, readFrame_ids s f, readFrame_writes s f⟩
  | decodeQ f rest hd hq =>
    exact .inr ⟨readFrame_cfg _ f, readFrame_sendQ _ f, readFrame_ids { s with decodeQ := rest } f,
      readFrame_writes { s with decodeQ := rest } f⟩
  | finishR k f hr =>
    have := untouched_finishCall s k f
    exact .inr ⟨this.cfg, this.sendQ, finishCall_ids s k f, finishCall_writes s k f⟩
  | finishQ k f rest hp hq =>
    have := untouched_finishCall { s with finQ := rest } k f
    exact .inr ⟨this.cfg, this.sendQ, finishCall_ids { s with finQ := rest } k f,
      finishCall_writes { s with finQ := rest } k f⟩
  | finishB k f hp hm =>
    have := untouched_finishCall { s with finBag := s.finBag.filter (notFin k) } k f
    exact .inr ⟨this.cfg, this.sendQ, finishCall_ids { s with finBag := s.finBag.filter (notFin k) } k f,
      finishCall_writes { s with finBag := s.finBag.filter (notFin k) } k f⟩
  | runDone k rest hq =>
    have := untouched_signal { s with finQ := rest } k
    exact .inr ⟨this.cfg, this.sendQ, signal_ids { s with finQ := rest } k, signal_writes { s with finQ := rest } k⟩
  | inert k g hg => exact .inr ⟨rfl, rfl, rfl, rfl⟩
  | sweep e hr =>
    have := sweepAll_untouched s e
    exact .inr ⟨this.cfg, this.sendQ, sweepAll_ids s e, sweepAll_writes s e⟩

/-- with pipelining the send queue is a suffix of the calls in start order, and the calls in the wire log
    are, in log order, among the calls before that suffix and its head (the one call whose send is running) -/
def WO (s : State) : Prop :=
  s.cfg.pipe = true → ∃ a, s.ids = a ++ s.sendQ ∧ (s.writes.map (·.1)).Sublist (a ++ s.sendQ.take 1)

theorem wo_init (cfg : Cfg) : WO (init cfg) :=
  fun _ => ⟨[], rfl, List.nil_sublist _⟩

theorem wo_still {s s' : State} (h : WO s) (hst : Still s s') : WO s' := by
  intro hp
  rw [hst.cfg] at hp
  obtain ⟨a, h1, h2⟩ := h hp
  exact ⟨a, by rw [hst.ids, hst.sendQ]; exact h1, by rw [hst.writes, hst.sendQ]; exact h2⟩

theorem filter_ne_head {k : Nat} {t : List Nat} (hn : (k :: t).Nodup) : (k :: t).filter (· != k) = t := by
  have hk : k ∉ t := (List.nodup_cons.1 hn).1
  rw [List.filter_cons_of_neg (by simp)]
  apply List.filter_eq_self.2
  intro x hx
  simp only [bne_iff_ne, ne_eq]
  rintro rfl
  exact hk hx

theorem sublist_of_not_mem_last {l a : List Nat} {k : Nat} (h : l.Sublist (a ++ [k])) (hk : k ∉ l) : l.Sublist a := by
  obtain ⟨l1, l2, rfl, h1, h2⟩ := List.sublist_append_iff.1 h
  cases l2 with
  | nil => rw [List.append_nil]; exact h1
  | cons x xs =>
    have hx : x = k := by simpa using h2.subset List.mem_cons_self
    subst hx
    exact absurd (List.mem_append_right _ List.mem_cons_self) hk

theorem take_one_snoc (q : List Nat) (x : Nat) : (q.take 1).Sublist ((q ++ [x]).take 1) := by
  cases q with
  | nil => exact List.nil_sublist _
  | cons y ys => simp

/-- the head `k` of the send queue finishes (is popped) or stays, and the wire log grows at most by `k` -/
theorem wo_of {s s' : State} (h : WO s) (hcfg : s'.cfg = s.cfg) (hids : s'.ids = s.ids) {k : Nat}
    (hh : s.cfg.pipe = true → s.sendQ.head? = some k)
    (hQ : s.cfg.pipe = true → (s'.sendQ = s.sendQ ∨ (s.sendQ.Nodup ∧ s'.sendQ = s.sendQ.filter (· != k))))
    (hW : ∀ a, (s.writes.map (·.1)).Sublist (a ++ [k]) → (s'.writes.map (·.1)).Sublist (a ++ [k])) : WO s' := by
  intro hp
  rw [hcfg] at hp
  obtain ⟨a, h1, h2⟩ := h hp
  have hd := hh hp
  cases hsq : s.sendQ with
  | nil => rw [hsq] at hd; cases hd
  | cons x t =>
    rw [hsq] at hd h1 h2
    have hx : x = k := by simpa using hd
    subst hx
    have h3 : (s'.writes.map (·.1)).Sublist (a ++ [x]) := hW a h2
    rcases hQ hp with hq | ⟨hn, hq⟩
    · refine ⟨a, by rw [hids, hq, hsq]; exact h1, ?_⟩
      rw [hq, hsq]; exact h3
    · rw [hsq] at hn hq
      rw [filter_ne_head hn] at hq
      refine ⟨a ++ [x], by rw [hids, hq, h1]; simp, ?_⟩
      rw [hq]
      exact h3.trans (List.sublist_append_left _ _)

theorem popSend_sendQ_pipe {s : State} (hp : s.cfg.pipe = true) (k : Nat) :
    (popSend s k).sendQ = s.sendQ.filter (· != k) := by
  simp [popSend, hp]

/-- a call whose send has not run is not in the wire log -/
theorem new_unwritten {s : State} (hq : SeqInv s) (hl : LocalInv s) {k : Nat} {c : Call} (hc : s.calls k = some c)
    (hph : c.phase = .new) : k ∉ s.writes.map (·.1) := by
  intro hm
  obtain ⟨w, hw, rfl⟩ := List.mem_map.1 hm
  obtain ⟨c', hc', hs⟩ := hq.2.2 w.1 w.2.1 w.2.2 hw
  rw [hc] at hc'
  cases hc'
  rw [(hl _ _ hc).1 hph] at hs
  cases hs

/-- the registering section of `k`'s send extends the wire log at most by `k` -/
theorem reg_hW {s s' : State} {k : Nat} {c : Call} (hq : SeqInv s) (hl : LocalInv s) (hq' : SeqInv s')
    (hc : s.calls k = some c) (hph : c.phase = .new) {c1 : Call} (hc1 : s'.calls k = some c1)
    (hseq : c1.seq = some s.seq)
    (hw : s'.writes = s.writes ∨ ∃ k' u, s'.writes = s.writes ++ [(k', s.seq, u)]) :
    ∀ a, (s.writes.map (·.1)).Sublist (a ++ [k]) → (s'.writes.map (·.1)).Sublist (a ++ [k]) := by
  intro a ha
  rcases hw with hw | ⟨k', u, hw⟩
  · rw [hw]; exact ha
  · have hk : k' = k := by
      obtain ⟨c', hc', hs'⟩ := hq'.2.2 k' s.seq u (by rw [hw]; simp)
      exact hq'.2.1 k' k c' c1 s.seq hc' hc1 hs' hseq
    subst hk
    rw [hw, List.map_append]
    exact List.Sublist.append (sublist_of_not_mem_last ha (new_unwritten hq hl hc hph)) (List.Sublist.refl _)

theorem wo_send {s s' : State} (h : WO s) (hsq : SQ s) (hl : LocalInv s) (hq : SeqInv s) (hq' : SeqInv s')
    (hw : s'.writes = s.writes ∨ ∃ k' u, s'.writes = s.writes ++ [(k', s.seq, u)])
    (hs : SendShape s s') : WO s' := by
  cases hs with
  | start c hc hph _ _ _ =>
    intro hp
    have hp' : s.cfg.pipe = true := hp
    obtain ⟨a, hids, hsub⟩ := h hp'
    refine ⟨a, ?_, ?_⟩
    · show s.ids ++ [c.k] = a ++ (if s.cfg.pipe = true then s.sendQ ++ [c.k] else s.sendQ)
      rw [if_pos hp', hids, List.append_assoc]
    · show (s.writes.map (·.1)).Sublist (a ++ (if s.cfg.pipe = true then s.sendQ ++ [c.k] else s.sendQ).take 1)
      rw [if_pos hp']
      exact hsub.trans (List.Sublist.append_left (take_one_snoc _ _) _)
  | sentPlain k c g hc hn hs' hg =>
    refine wo_of (k := k) h (by simp) (by simp) (fun hp => sq_head hsq hp hc hn hs') ?_ ?_
    · intro hp
      exact .inr ⟨(hsq hp).2.1, popSend_sendQ_pipe (s := updCall s k g) hp k⟩
    · intro a ha
      simpa using ha
  | sentFail k c e g hc hcase hg =>
    have hu := untouched_failCall s k e
    refine wo_of (k := k) h (by simp) (by simp) ?_ ?_ ?_
    · intro hp
      rcases hcase with ⟨_, hh, _⟩ | hph
      · exact hh hp
      · exact sq_head hsq hp hc (by simp [hph]) (by simp [hph])
    · intro hp
      refine .inr ⟨(hsq hp).2.1, ?_⟩
      have := popSend_sendQ_pipe (s := updCall (failCall s k e) k g) (by simpa using hp) k
      rw [this]
      show (failCall s k e).sendQ.filter (· != k) = _
      rw [hu.sendQ]
    · intro a ha
      simpa using ha
  | sentReg k c w g hc hph hh hg =>
    have hc1 : (popSend (updCall (regd s k w) k g) k).calls k = some (g { c with seq := some s.seq }) := by
      rw [popSend_calls]; exact updCall_self (regd_self hc w)
    refine wo_of (k := k) h (by simp [regd]) (by simp [regd]) hh ?_
      (reg_hW hq hl hq' hc hph hc1 (by rw [(hg _).2.2.1]) hw)
    intro hp
    exact .inr ⟨(hsq hp).2.1, popSend_sendQ_pipe (s := updCall (regd s k w) k g) hp k⟩
  | reg k c w ph g hc hph hh hg hcase =>
    have hc1 : (updCall (regd s k w) k g).calls k = some (g { c with seq := some s.seq }) :=
      updCall_self (regd_self hc w)
    exact wo_of (k := k) h rfl rfl hh (fun _ => .inl rfl)
      (reg_hW hq hl hq' hc hph hc1 (by rw [(hg _).2.2.1]) hw)
  | setPhase k c ph g pd hc hn hs' hphn hphs hg _ _ =>
    exact wo_still h ⟨rfl, rfl, rfl, rfl⟩

theorem wo_step {s s' : State} {e : Ev} (h : WO s) (ha : AuxInv s) (hq : SeqInv s) (hs : step s e = some s') :
    WO s' := by
  have hq' := seqInv_step s s' e hq ha hs
  obtain ⟨hm, hsqi, _, _, _, hl, _, _, hsd, _⟩ := ha
  rcases shape_still (step_shape hs) with hsend | hst
  · exact wo_send h (sq_of hsqi hsd) hl hq hq' (step_writes hs) hsend
  · exact wo_still h hst

theorem wo_accepts_from {s₀ : State} {tr : List Ev} {s : State} (h0 : WO s₀) (ha : AuxInv s₀) (hq : SeqInv s₀)
    (h : Accepts s₀ tr s) : WO s := by
  induction h with
  | nil s => exact h0
  | cons hstep _ ih =>
    exact ih (wo_step h0 ha hq hstep) (auxInv_step ha hstep) (seqInv_step _ _ _ hq ha hstep)

theorem wo_accepts {cfg : Cfg} {tr : List Ev} {s : State} (h : Accepts (init cfg) tr s) : WO s :=
  wo_accepts_from (wo_init cfg) (auxInv_init cfg) (seqInv_init cfg) h

/-- with client pipelining sequence numbers are handed out in the order the calls were started: the calls in the wire log, in log order, are a sublist of the calls in start order -/
theorem writes_in_start_order {cfg : Cfg} {tr : List Ev} {s : State} (h : Accepts (init cfg) tr s)
    (hp : s.cfg.pipe = true) : (s.writes.map (·.1)).Sublist s.ids := by
  obtain ⟨a, h1, h2⟩ := wo_accepts h hp
  rw [h1]
  exact h2.trans (List.Sublist.append_left (List.take_sublist 1 s.sendQ) a)

end RpcVerif.K

namespace RpcVerif.L
open RpcVerif

set_option linter.unusedVariables false

/-! ### the way out: requests are read in the order they were registered -/

theorem Inv.reqs_sorted {cfg : Cfg} {s : State} (h : Inv cfg s) : (s.s.reqs.map (·.seq)).Pairwise (· < ·) := by
  obtain ⟨trK, hK⟩ := h.krun
  have h1 : s.carried.Sublist ((s.k.writes.take s.onWire).map wtag) :=
    (List.sublist_append_left _ _).trans h.wire
  have h2 : (s.carried.map (·.1)).Sublist (s.k.writes.map (·.2.1)) := by
    have := (h1.map (·.1)).trans (((List.take_sublist s.onWire s.k.writes).map wtag).map (·.1))
    rwa [List.map_map] at this
  rw [h.reqs]
  exact (K.wsorted_accepts hK).sublist h2

/-- the requests the server reads arrive in the order the client registered them: their sequence numbers increase strictly -/
theorem requests_in_issue_order {cfg : Cfg} {tr : List Ev} {s : State} (h : Accepts (init cfg) tr s) :
    (s.s.reqs.map (·.seq)).Pairwise (· < ·) :=
  (inv_accepts h).reqs_sorted

/-- the server's configuration is the one the product was started with -/
theorem server_cfg {cfg : Cfg} {tr : List Ev} {s : State} (h : Accepts (init cfg) tr s) : s.s.cfg = cfg.s := by
  obtain ⟨trS, hS⟩ := server_run h
  exact S.accepts_cfg hS

/-- the dispatched jobs carry strictly increasing sequence numbers, in dispatch order -/
theorem jobs_in_issue_order {cfg : Cfg} {tr : List Ev} {s : State} (h : Accepts (init cfg) tr s) :
    (s.s.jobs.map (·.req.seq)).Pairwise (· < ·) := by
  obtain ⟨trS, hS⟩ := server_run h
  exact (requests_in_issue_order h).sublist (S.jobs_sublist_reqs hS)

/-- with server pipelining the handlers are entered in the order the client registered the calls -/
theorem executed_in_issue_order {cfg : Cfg} {tr : List Ev} {s : State} (h : Accepts (init cfg) tr s)
    (hp : cfg.s.pipe = true) : s.s.execs.Pairwise (· < ·) := by
  obtain ⟨trS, hS⟩ := server_run h
  have hp' : s.s.cfg.pipe = true := by rw [server_cfg h]; exact hp
  rw [(S.pipe_serial hS (unique_seq h) hp').2]
  exact (jobs_in_issue_order h).sublist (List.filter_sublist.map _)

/-- with server pipelining the responses of the jobs are written in that order too -/
theorem job_responses_in_issue_order {cfg : Cfg} {tr : List Ev} {s : State} (h : Accepts (init cfg) tr s)
    (hp : cfg.s.pipe = true) :
    ((s.s.resps.filter (fun p => s.s.jobs.any (fun j => j.req.seq == p.seq))).map (·.seq)).Pairwise (· < ·) := by
  obtain ⟨trS, hS⟩ := server_run h
  have hp' : s.s.cfg.pipe = true := by rw [server_cfg h]; exact hp
  rw [S.pipe_response_order hS hp' (unique_seq h)]
  exact (jobs_in_issue_order h).sublist (List.filter_sublist.map _)

/-! ### the way back: the link keeps the order of the responses -/

/-- what the client's reader sees of a response frame -/
def fkey (f : K.Frame) : Nat × K.RespKind := (f.seq, f.kind)

/-- what the client's reader will see of a response the server wrote -/
def rkey (p : S.Resp) : Nat × K.RespKind := (p.seq, kindOf p)

/-- the response frames the client has read followed by those in flight are, in order, a sub-list of
    the responses that have left the server -/
structure Back (s : State) : Prop where
  ord : ((s.k.fed ++ s.s2c).map fkey).Sublist ((s.s.resps.take s.answered).map rkey)
  ans : s.answered ≤ s.s.resps.length

theorem back_init (cfg : Cfg) : Back (init cfg) :=
  ⟨by simp [init, K.init], Nat.zero_le _⟩

theorem back_step {cfg : Cfg} {s s' : State} {e : Ev} (hi : Inv cfg s) (h : Back s) (hs : step s e = some s') :
    Back s' := by
  obtain ⟨trS, hS⟩ := hi.srun
  have hb : S.Base s.s := S.base_accepts S.allFlags_true hS
  have grow : ∀ t : S.State, (∃ ps, t.resps = s.s.resps ++ ps) →
      ((s.k.fed ++ s.s2c).map fkey).Sublist ((t.resps.take s.answered).map rkey) ∧ s.answered ≤ t.resps.length := by
    rintro t ⟨ps, hps⟩
    rw [hps, List.take_append_of_le_length h.ans, List.length_append]
    exact ⟨h.ord, Nat.le_trans h.ans (Nat.le_add_right _ _)⟩
  cases e with
  | client e =>
    obtain ⟨hne, k', hk, rfl⟩ := step_client hs
    have hfed := K.step_fed_other hk hne
    refine ⟨?_, h.ans⟩
    show ((k'.fed ++ s.s2c).map fkey).Sublist ((s.s.resps.take s.answered).map rkey)
    rw [hfed]; exact h.ord
  | send =>
    simp only [step] at hs
    split at hs
    · cases hs; exact ⟨h.ord, h.ans⟩
    · cases hs
  | lose =>
    simp only [step] at hs
    split at hs
    · cases hs; exact ⟨h.ord, h.ans⟩
    · cases hs
  | deliverReq =>
    simp only [step] at hs
    split at hs
    · obtain ⟨t, ht, rfl⟩ := Option.map_eq_some_iff.1 hs
      obtain ⟨h1, h2⟩ := grow t (S.step_resps_grow hb ht)
      exact ⟨h1, h2⟩
    · cases hs
  | dropReq =>
    simp only [step] at hs
    split at hs
    · cases hs; exact ⟨h.ord, h.ans⟩
    · cases hs
  | server e =>
    obtain ⟨hne, t, ht, rfl⟩ := step_server hs
    obtain ⟨h1, h2⟩ := grow t (S.step_resps_grow hb ht)
    exact ⟨h1, h2⟩
  | answer =>
    simp only [step] at hs
    split at hs
    · rename_i p hp
      split at hs
      · rename_i c hcar
        cases hs
        refine ⟨?_, lt_of_getElem? hp⟩
        show ((s.k.fed ++ (s.s2c ++ [({ seq := p.seq, src := c, kind := kindOf p } : K.Frame)])).map fkey).Sublist
          ((s.s.resps.take (s.answered + 1)).map rkey)
        rw [take_succ_of hp, ← List.append_assoc, List.map_append (f := rkey), List.map_append (f := fkey)]
        exact List.Sublist.append h.ord (List.Sublist.refl _)
      · cases hs
    · cases hs
  | loseResp =>
    simp only [step] at hs
    split at hs
    · rename_i p hp
      cases hs
      refine ⟨?_, lt_of_getElem? hp⟩
      show ((s.k.fed ++ s.s2c).map fkey).Sublist ((s.s.resps.take (s.answered + 1)).map rkey)
      rw [take_succ_of hp, List.map_append (f := rkey)]
      exact h.ord.trans (List.sublist_append_left _ _)
    · cases hs
  | deliverResp =>
    simp only [step] at hs
    split at hs
    · rename_i f rest hc
      obtain ⟨k', hk, rfl⟩ := Option.map_eq_some_iff.1 hs
      have hfed := K.step_fed_feed hk
      refine ⟨?_, h.ans⟩
      show ((k'.fed ++ rest).map fkey).Sublist ((s.s.resps.take s.answered).map rkey)
      have := h.ord
      rw [hc] at this
      rw [hfed, List.append_assoc]
      exact this
    · cases hs
  | dropResp =>
    simp only [step] at hs
    split at hs
    · rename_i x rest hc
      cases hs
      refine ⟨?_, h.ans⟩
      show ((s.k.fed ++ rest).map fkey).Sublist ((s.s.resps.take s.answered).map rkey)
      have := h.ord
      rw [hc] at this
      exact ((List.Sublist.append_left (List.sublist_cons_self _ _) _).map fkey).trans this
    · cases hs

theorem back_accepts_from {cfg : Cfg} {s₀ : State} {tr : List Ev} {s : State} (hi : Inv cfg s₀) (h0 : Back s₀)
    (h : Accepts s₀ tr s) : Back s := by
  induction h with
  | nil s => exact h0
  | cons hstep _ ih => exact ih (inv_step hi hstep) (back_step hi h0 hstep)

theorem back_accepts {cfg : Cfg} {tr : List Ev} {s : State} (h : Accepts (init cfg) tr s) : Back s :=
  back_accepts_from (inv_init cfg) (back_init cfg) h

/-- the sequence numbers of the frames the client has read are, in order, a sub-list of those of the
    responses the server wrote -/
theorem fed_sublist_resps {cfg : Cfg} {tr : List Ev} {s : State} (h : Accepts (init cfg) tr s) :
    (s.k.fed.map (·.seq)).Sublist (s.s.resps.map (·.seq)) := by
  have a := ((List.sublist_append_left s.k.fed s.s2c).map fkey).trans (back_accepts h).ord
  have b := (a.map (·.1)).trans (((List.take_sublist s.answered s.s.resps).map rkey).map (·.1))
  rwa [List.map_map, List.map_map] at b

/-- … and they reach the client in that order: the job responses the client has read carry increasing sequence numbers -/
theorem job_responses_reach_the_client_in_order {cfg : Cfg} {tr : List Ev} {s : State} (h : Accepts (init cfg) tr s)
    (hp : cfg.s.pipe = true) :
    ((s.k.fed.filter (fun f => s.s.jobs.any (fun j => j.req.seq == f.seq))).map (·.seq)).Pairwise (· < ·) := by
  have h2 := (fed_sublist_resps h).filter (fun q => s.s.jobs.any (fun j => j.req.seq == q))
  rw [List.filter_map, List.filter_map] at h2
  exact (job_responses_in_issue_order h hp).sublist h2

/-! ### non-vacuity: pipelining on both ends, three calls started and answered; the handlers are entered
    and the calls signalled in the order they were started -/

example : ((runTrace (init ⟨⟨false, true⟩, ⟨false, true⟩, fun _ => { seq := 0 }⟩)
    [.client (.start { k := 1, form := .go, replyLen := 8 }), .client (.start { k := 2, form := .go, replyLen := 8 }),
     .client (.start { k := 3, form := .go, replyLen := 8 }),
     .client (.sendLock 1), .client (.sendLock 2), .client (.sendLock 3), .send, .send, .send,
     .deliverReq, .deliverReq, .deliverReq, .server .decode, .server .decode, .server .decode,
     .server (.enter 0), .server (.leave 0), .server (.enter 1), .server (.leave 1), .server (.enter 2), .server (.leave 2),
     .answer, .answer, .answer,
     .deliverResp, .client .decode, .client (.finish 1), .deliverResp, .client .decode, .client (.finish 2),
     .deliverResp, .client .decode, .client (.finish 3)]).map
      (fun s => (s.s.execs, s.k.arrivals, s.k.fed.map (·.seq), s.k.writes.map (·.1)))) =
    some ([0, 1, 2], [1, 2, 3], [0, 1, 2], [1, 2, 3]) := by decide

end RpcVerif.L
