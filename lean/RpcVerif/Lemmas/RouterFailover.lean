import RpcVerif.Lemmas.RouterInv
/-
  Failover and recovery of R (the load-balancing Client), first sentence of C18:
  "A target that refuses connections stops receiving calls within a bounded detection time while
  another target is healthy, and is used again after it recovers."
  "Bounded detection time" = from the next detection pass (`checkDone`) on.
-/
namespace RpcVerif.R
open RpcVerif

/-! ### auxiliary facts -/

theorem aliveAddrs_congr {s s' : State} (h : s'.targets = s.targets) : aliveAddrs s' = aliveAddrs s := by
  simp only [aliveAddrs, h]

/-- two lists with the same insertion sort are rearrangements of each other -/
theorem perm_of_sortAddrs_eq {l l' : List String} (h : sortAddrs l = sortAddrs l') : l.Perm l' :=
  (sortAddrs_perm l).symm.trans (h ▸ sortAddrs_perm l')

/-- on a state satisfying `Inv`, `last` is the sorted live list (also when both are empty) -/
theorem last_eq_sort_list {s : State} (h : Inv s) : s.last = sortAddrs s.list := by
  rcases h.lastOk with h1 | ⟨h1, h2⟩
  · exact h1
  · rw [h1, h2]; rfl

theorem mem_aliveAddrs (s : State) (x : String) :
    x ∈ aliveAddrs s ↔ ∃ t, t ∈ s.targets ∧ t.alive = true ∧ t.addr = x := by
  simp only [aliveAddrs, List.mem_map, List.mem_filter]
  constructor
  · rintro ⟨t, ⟨h1, h2⟩, h3⟩; exact ⟨t, h1, h2, h3⟩
  · rintro ⟨t, h1, h2, h3⟩; exact ⟨t, ⟨h1, h2⟩, h3⟩

/-- what a pass leaves behind: the targets of `afterPing`, and a live list that is a rearrangement
    of the addresses marked alive -/
theorem checkDone_spec (s s' : State) (a : String) (ok : Bool) (order : List String) (h : Inv s)
    (hs : checkDone s a ok order = some s') :
    s'.targets = (afterPing s a ok).targets ∧ s'.list.Perm (aliveAddrs s') := by
  rw [checkDone_eq] at hs
  have hf := afterPing_frame s a ok
  have h2 : Inv (afterPing s a ok) := inv_of_eq h hf.1 hf.2.1 hf.2.2.1 hf.2.2.2.1 hf.2.2.2.2.1
  generalize afterPing s a ok = s2 at hs h2
  split at hs
  · rename_i he
    cases hs
    refine ⟨rfl, ?_⟩
    have he : aliveAddrs s2 = [] := by simpa using he
    show List.Perm [] (aliveAddrs s2)
    rw [he]
  · split at hs
    · rename_i hl
      cases hs
      have hc := checkPending_frame s2
      refine ⟨hc.1, ?_⟩
      rw [aliveAddrs_congr hc.1, hc.2.1]
      have hl : sortAddrs (aliveAddrs s2) = s2.last := by simpa using hl
      rw [last_eq_sort_list h2] at hl
      exact perm_of_sortAddrs_eq hl.symm
    · split at hs
      · rename_i hso
        cases hs
        have hso : sortAddrs order = sortAddrs (aliveAddrs s2) := by simpa using hso
        have hc := checkPending_frame { s2 with
          last := sortAddrs (aliveAddrs s2), list := order, heap := order, pos := 0 }
        refine ⟨hc.1, ?_⟩
        rw [aliveAddrs_congr hc.1, hc.2.1]
        show order.Perm (aliveAddrs s2)
        exact perm_of_sortAddrs_eq hso
      · cases hs

theorem step_checkDone_spec (s s' : State) (a : String) (order : List String) (h : Inv s)
    (hs : step s (.checkDone a order) = some s') :
    s'.targets = (afterPing s a (s.up a)).targets ∧ s'.list.Perm (aliveAddrs s') := by
  simp only [step] at hs
  split at hs
  · exact checkDone_spec s s' a _ order h hs
  · cases hs

/-! ### the theorems -/

/-- right after a detection pass the live list is exactly the set of targets marked alive -/
theorem pass_makes_list_the_live_set (p : Policy) (b : Bool) (tr : List Ev) (s s' : State)
    (h : run (init p b) tr = some s) (a : String) (order : List String)
    (hs : step s (.checkDone a order) = some s') :
    s'.list.Perm (aliveAddrs s') :=
  (step_checkDone_spec s s' a order (inv_run p b tr s h) hs).2

/-- failover: a target marked dead (by a reported dial failure or by its own failed probe) is out of
    the rotation from the next pass on, whichever target that pass was for -/
theorem dead_target_leaves_the_rotation (p : Policy) (b : Bool) (tr : List Ev) (s s' : State)
    (h : run (init p b) tr = some s) (a x : String) (order : List String)
    (hs : step s (.checkDone a order) = some s')
    (hx : ∀ t, t ∈ s'.targets → t.addr = x → t.alive = false) : x ∉ s'.list := by
  intro hm
  have hp := pass_makes_list_the_live_set p b tr s s' h a order hs
  rcases (mem_aliveAddrs s' x).mp (hp.mem_iff.mp hm) with ⟨t, ht, hal, hta⟩
  rw [hx t ht hta] at hal
  cases hal

/-- … and nothing is scheduled to it: what `route` sends (without a Director) is in the list -/
theorem routed_is_listed (p : Policy) (b : Bool) (tr : List Ev) (s s' : State)
    (h : run (init p b) tr = some s) (hd : s.director = none) (k c : Nat)
    (hs : step s (.route k c) = some s') (hc : s.closed = false) :
    ∃ a, s'.sent = s.sent ++ [a] ∧ a ∈ s.list := by
  rcases step_route_spec s s' k c hs with ⟨hc', _⟩ | ⟨_, a, hd', _⟩ | ⟨_, a, fb, hp, rfl⟩
  · rw [hc] at hc'; cases hc'
  · rw [hd] at hd'; cases hd'
  · refine ⟨a, ?_, schedule_pick_mem s c (inv_run p b tr s h) a fb hp⟩
    show (schedule s c).1.sent ++ [a] = s.sent ++ [a]
    rw [(schedule_frame s c).2.2.2.2.2.2.1]

/-- recovery: the pass whose probe of a configured target succeeds puts it (back) into the rotation -/
theorem recovered_target_rejoins (p : Policy) (b : Bool) (tr : List Ev) (s s' : State)
    (h : run (init p b) tr = some s) (a : String) (order : List String)
    (ht : ∃ t, t ∈ s.targets ∧ t.addr = a) (hup : s.up a = true)
    (hs : step s (.checkDone a order) = some s') : a ∈ s'.list := by
  obtain ⟨htg, hp⟩ := step_checkDone_spec s s' a order (inv_run p b tr s h) hs
  apply hp.mem_iff.mpr
  rw [mem_aliveAddrs, htg, hup]
  obtain ⟨t, htm, hta⟩ := ht
  refine ⟨{ t with alive := true }, ?_, rfl, hta⟩
  simp only [afterPing, setT, List.mem_map]
  refine ⟨{ t with alive := true }, ⟨t, htm, ?_⟩, ?_⟩
  · simp [hta]
  · simp

/-- a reported dial failure marks the target dead at once, so the next pass (previous theorem but one) drops it -/
theorem report_marks_dead (s : State) (a : String) (t : Target) (ht : t ∈ (setT s a fun t => { t with alive := false, latency := Gen.clientLatency }).targets)
    (hta : t.addr = a) : t.alive = false := by
  simp only [setT, List.mem_map] at ht
  obtain ⟨t0, _, h0⟩ := ht
  split at h0
  · rw [← h0]
  · rename_i hne
    rw [← h0] at hta
    simp [hta] at hne

/-! Non-vacuity: A and B both up and listed; a dial failure is reported for B while it refuses
    connections; the next pass (for B, probe failing) leaves [A]; B comes back, its pass lists it again. -/
example :
    ((run (init .rr false)
      [.update ["A", "B"], .setUp "A" true, .setUp "B" true, .checkDone "A" ["A"], .checkDone "B" ["A", "B"],
       .setUp "B" false, .report "B" true, .checkDone "B" ["A"]]).map (·.list) = some ["A"]) ∧
    ((run (init .rr false)
      [.update ["A", "B"], .setUp "A" true, .setUp "B" true, .checkDone "A" ["A"], .checkDone "B" ["A", "B"],
       .setUp "B" false, .report "B" true, .checkDone "B" ["A"],
       .setUp "B" true, .checkDone "B" ["B", "A"]]).map (·.list) = some ["B", "A"]) := by decide

/-- the same run, the pass being the one for the healthy target A: B (marked dead by the report
    alone) leaves the rotation all the same, and calls go to A only -/
example :
    (run (init .rr false)
      [.update ["A", "B"], .setUp "A" true, .setUp "B" true, .checkDone "A" ["A"], .checkDone "B" ["A", "B"],
       .setUp "B" false, .report "B" true, .checkDone "A" ["A"], .route 1 0, .route 2 0]).map
        (fun s => (s.list, s.sent)) = some (["A"], ["A", "A"]) := by decide

end RpcVerif.R
