import RpcVerif.Model.Link
import RpcVerif.Lemmas.ConnEnd
import RpcVerif.Lemmas.ServerInv
import RpcVerif.Lemmas.LinkAux
/-
  The product L = K ‖ lossy FIFO link ‖ S (Model/Link.lean).

  `Inv` is the inductive invariant of the product. It carries a run of each component (so every
  theorem about runs of K and of S applies to the halves of a reachable product state) and the
  provenance of everything on the link:
    wire : the requests the server has read (`carried`) followed by the requests in flight are, in
           order, a sub-list of the wire log entries that have left the client;
    reqs : the server has read exactly the sequence numbers in `carried`, all well-formed;
    resp : every response frame in flight or read by the client is the image of a response the
           server wrote, and its ghost `src` is the call whose request was read under that number.
  From it: the hypotheses C01 and C04 make about the peer (`PeerAnswersOwn`, `UniqueSeq`) are
  theorems of the product, hence C01 end to end with no hypothesis.
-/
namespace RpcVerif.L
open RpcVerif

set_option linter.unusedVariables false

theorem accepts_snoc {a b c : State} {tr : List Ev} {e : Ev} (h : Accepts a tr b) (hs : step b e = some c) :
    Accepts a (tr ++ [e]) c := by
  induction h with
  | nil s => exact .cons hs (.nil _)
  | cons hstep _ ih => exact .cons hstep (ih hs)

/-! ### vocabulary -/

/-- (sequence number, call) of a request in flight -/
def tag (rc : S.Req × Nat) : Nat × Nat := (rc.1.seq, rc.2)

/-- (sequence number, call) of a wire log entry -/
def wtag (w : Nat × Nat × UInt8) : Nat × Nat := (w.2.1, w.1)

theorem tag_reqOf (cfg : Cfg) (w : Nat × Nat × UInt8) : tag (reqOf cfg w) = wtag w := rfl

theorem carrier_append {l x : List (Nat × Nat)} {q c : Nat} (h : carrier l q = some c) :
    carrier (l ++ x) q = some c := by
  unfold carrier at h ⊢
  rw [List.find?_append]
  cases hf : l.find? (·.1 == q) with
  | none => rw [hf] at h; cases h
  | some a => rw [hf] at h; exact h

theorem carrier_mem {l : List (Nat × Nat)} {q c : Nat} (h : carrier l q = some c) : (q, c) ∈ l := by
  unfold carrier at h
  cases hf : l.find? (·.1 == q) with
  | none => rw [hf] at h; cases h
  | some a =>
    rw [hf] at h
    have h1 := List.mem_of_find?_eq_some hf
    have h2 : (a.1 == q) = true := by simpa using List.find?_some hf
    have h3 : a.2 = c := by simpa using h
    have h4 : a.1 = q := by simpa using h2
    have : a = (q, c) := by rw [← h3, ← h4]
    rw [← this]; exact h1

theorem carrier_of_mem {l : List (Nat × Nat)} {q : Nat} (h : q ∈ l.map (·.1)) : ∃ c, carrier l q = some c := by
  unfold carrier
  cases hf : l.find? (·.1 == q) with
  | none =>
    exfalso
    obtain ⟨a, ha, rfl⟩ := List.mem_map.1 h
    have := List.find?_eq_none.1 hf a ha
    simp at this
  | some a => exact ⟨a.2, rfl⟩

/-- a response frame is the image of a response the server wrote, for the call whose request the
    server read under its sequence number -/
def FrameOk (resps : List S.Resp) (carried : List (Nat × Nat)) (f : K.Frame) : Prop :=
  f.junk = false ∧ ∃ p, p ∈ resps ∧ f.seq = p.seq ∧ f.kind = kindOf p ∧ carrier carried p.seq = some f.src

theorem FrameOk.mono {resps : List S.Resp} {carried : List (Nat × Nat)} {f : K.Frame} (h : FrameOk resps carried f)
    (ps : List S.Resp) (x : List (Nat × Nat)) : FrameOk (resps ++ ps) (carried ++ x) f := by
  obtain ⟨hj, p, hp, h1, h2, h3⟩ := h
  exact ⟨hj, p, List.mem_append_left _ hp, h1, h2, carrier_append h3⟩

theorem FrameOk.mono_resps {resps : List S.Resp} {carried : List (Nat × Nat)} {f : K.Frame}
    (h : FrameOk resps carried f) (ps : List S.Resp) : FrameOk (resps ++ ps) carried f := by
  have := h.mono ps []
  rwa [List.append_nil] at this

theorem kindOf_ok {p : S.Resp} (h : kindOf p = .ok) : p.err = .none ∧ p.reply = .own := by
  unfold kindOf at h
  cases he : p.err <;> rw [he] at h <;> simp only [] at h
  · cases hr : p.reply <;> rw [hr] at h <;> first | exact ⟨rfl, rfl⟩ | cases h
  all_goals cases h

/-! ### the invariant -/

structure Inv (cfg : Cfg) (s : State) : Prop where
  hcfg : s.cfg = cfg
  krun : ∃ trK, K.Accepts (K.init cfg.k) trK s.k
  srun : ∃ trS, S.Accepts (S.init cfg.s) trS s.s
  wire : (s.carried ++ s.c2s.map tag).Sublist ((s.k.writes.take s.onWire).map wtag)
  onw : s.onWire ≤ s.k.writes.length
  cjunk : ∀ rc, rc ∈ s.c2s → rc.1.junk = false
  reqs : s.s.reqs.map (·.seq) = s.carried.map (·.1)
  rjunk : ∀ r, r ∈ s.s.reqs → r.junk = false
  resp : ∀ f, f ∈ s.s2c ∨ f ∈ s.k.fed → FrameOk s.s.resps s.carried f

theorem inv_init (cfg : Cfg) : Inv cfg (init cfg) where
  hcfg := rfl
  krun := ⟨[], .nil _⟩
  srun := ⟨[], .nil _⟩
  wire := by simp [init, K.init]
  onw := Nat.zero_le _
  cjunk := fun rc h => by cases h
  reqs := rfl
  rjunk := fun r h => by cases h
  resp := fun f h => by rcases h with h | h <;> cases h

/-! ### the shape of a product step -/

theorem step_client {s s' : State} {e : K.Ev} (h : step s (.client e) = some s') :
    (∀ f, e ≠ .feed f) ∧ ∃ k', K.step s.k e = some k' ∧ s' = { s with k := k' } := by
  cases e with
  | feed f => simp [step] at h
  | _ =>
    simp only [step, Option.map_eq_some_iff] at h
    obtain ⟨k', hk, rfl⟩ := h
    exact ⟨by intro f; simp, k', hk, rfl⟩

theorem step_server {s s' : State} {e : S.Ev} (h : step s (.server e) = some s') :
    (∀ r, e ≠ .feed r) ∧ ∃ t, S.step s.s e = some t ∧ s' = { s with s := t } := by
  cases e with
  | feed r => simp [step] at h
  | _ =>
    simp only [step, Option.map_eq_some_iff] at h
    obtain ⟨t, ht, rfl⟩ := h
    exact ⟨by intro r; simp, t, ht, rfl⟩

theorem take_succ_of {α : Type} {l : List α} {n : Nat} {w : α} (h : l[n]? = some w) :
    l.take (n + 1) = l.take n ++ [w] := by
  rw [List.take_add_one, h]; rfl

theorem lt_of_getElem? {α : Type} {l : List α} {n : Nat} {w : α} (h : l[n]? = some w) : n < l.length := by
  obtain ⟨hlt, _⟩ := List.getElem?_eq_some_iff.1 h
  exact hlt

/-! ### the invariant is inductive -/

theorem inv_step {cfg : Cfg} {s s' : State} {e : Ev} (h : Inv cfg s) (hs : step s e = some s') : Inv cfg s' := by
  obtain ⟨trK, hK⟩ := h.krun
  obtain ⟨trS, hS⟩ := h.srun
  have hb : S.Base s.s := S.base_accepts S.allFlags_true hS
  cases e with
  | client e =>
    obtain ⟨hne, k', hk, rfl⟩ := step_client hs
    obtain ⟨ws, hws⟩ := K.step_writes_grow hk
    have hfed := K.step_fed_other hk hne
    refine { hcfg := h.hcfg, krun := ⟨_, K.accepts_snoc hK hk⟩, srun := h.srun, wire := ?_, onw := ?_,
             cjunk := h.cjunk, reqs := h.reqs, rjunk := h.rjunk, resp := ?_ }
    · show (s.carried ++ s.c2s.map tag).Sublist ((k'.writes.take s.onWire).map wtag)
      rw [hws, List.take_append_of_le_length h.onw]; exact h.wire
    · show s.onWire ≤ k'.writes.length
      rw [hws, List.length_append]; have := h.onw; omega
    · intro f hf
      have hf' : f ∈ s.s2c ∨ f ∈ k'.fed := hf
      rw [hfed] at hf'
      exact h.resp f hf'
  | send =>
    simp only [step] at hs
    split at hs
    · rename_i w hw
      cases hs
      refine { hcfg := h.hcfg, krun := h.krun, srun := h.srun, wire := ?_, onw := ?_,
               cjunk := ?_, reqs := h.reqs, rjunk := h.rjunk, resp := h.resp }
      · show (s.carried ++ (s.c2s ++ [reqOf s.cfg w]).map tag).Sublist ((s.k.writes.take (s.onWire + 1)).map wtag)
        rw [take_succ_of hw, List.map_append, List.map_append, ← List.append_assoc]
        exact List.Sublist.append h.wire (List.Sublist.refl _)
      · exact lt_of_getElem? hw
      · intro rc hrc
        have hrc' : rc ∈ s.c2s ++ [reqOf s.cfg w] := hrc
        rw [List.mem_append, List.mem_singleton] at hrc'
        rcases hrc' with hrc' | rfl
        · exact h.cjunk rc hrc'
        · rfl
    · cases hs
  | lose =>
    simp only [step] at hs
    split at hs
    · rename_i w hw
      cases hs
      refine { hcfg := h.hcfg, krun := h.krun, srun := h.srun, wire := ?_, onw := ?_,
               cjunk := h.cjunk, reqs := h.reqs, rjunk := h.rjunk, resp := h.resp }
      · show (s.carried ++ s.c2s.map tag).Sublist ((s.k.writes.take (s.onWire + 1)).map wtag)
        rw [take_succ_of hw, List.map_append]
        exact h.wire.trans (List.sublist_append_left _ _)
      · exact lt_of_getElem? hw
    · cases hs
  | deliverReq =>
    simp only [step] at hs
    split at hs
    · rename_i r c rest hc
      obtain ⟨t, ht, rfl⟩ := Option.map_eq_some_iff.1 hs
      have hreqs := S.step_reqs_feed ht
      obtain ⟨ps, hps⟩ := S.step_resps_grow hb ht
      have hmem : (r, c) ∈ s.c2s := by rw [hc]; exact List.mem_cons_self
      refine { hcfg := h.hcfg, krun := h.krun, srun := ⟨_, S.accepts_snoc hS ht⟩, wire := ?_, onw := h.onw,
               cjunk := ?_, reqs := ?_, rjunk := ?_, resp := ?_ }
      · show ((s.carried ++ [(r.seq, c)]) ++ rest.map tag).Sublist ((s.k.writes.take s.onWire).map wtag)
        have := h.wire
        rw [hc] at this
        rw [List.append_assoc]
        exact this
      · intro rc hrc
        exact h.cjunk rc (by rw [hc]; exact List.mem_cons_of_mem _ hrc)
      · show t.reqs.map (·.seq) = (s.carried ++ [(r.seq, c)]).map (·.1)
        rw [hreqs, List.map_append, List.map_append, h.reqs]; rfl
      · intro r' hr'
        have hr'' : r' ∈ t.reqs := hr'
        rw [hreqs, List.mem_append, List.mem_singleton] at hr''
        rcases hr'' with hr'' | rfl
        · exact h.rjunk r' hr''
        · exact h.cjunk _ hmem
      · intro f hf
        show FrameOk t.resps (s.carried ++ [(r.seq, c)]) f
        rw [hps]
        exact (h.resp f hf).mono ps _
    · cases hs
  | dropReq =>
    simp only [step] at hs
    split at hs
    · rename_i x rest hc
      cases hs
      refine { hcfg := h.hcfg, krun := h.krun, srun := h.srun, wire := ?_, onw := h.onw,
               cjunk := ?_, reqs := h.reqs, rjunk := h.rjunk, resp := h.resp }
      · show (s.carried ++ rest.map tag).Sublist ((s.k.writes.take s.onWire).map wtag)
        have := h.wire
        rw [hc, List.map_cons] at this
        exact (List.Sublist.append_left (List.sublist_cons_self _ _) _).trans this
      · intro rc hrc
        exact h.cjunk rc (by rw [hc]; exact List.mem_cons_of_mem _ hrc)
    · cases hs
  | server e =>
    obtain ⟨hne, t, ht, rfl⟩ := step_server hs
    have hreqs := S.step_reqs_other ht hne
    obtain ⟨ps, hps⟩ := S.step_resps_grow hb ht
    refine { hcfg := h.hcfg, krun := h.krun, srun := ⟨_, S.accepts_snoc hS ht⟩, wire := h.wire, onw := h.onw,
             cjunk := h.cjunk, reqs := ?_, rjunk := ?_, resp := ?_ }
    · show t.reqs.map (·.seq) = s.carried.map (·.1)
      rw [hreqs]; exact h.reqs
    · intro r hr
      have hr' : r ∈ t.reqs := hr
      rw [hreqs] at hr'
      exact h.rjunk r hr'
    · intro f hf
      show FrameOk t.resps s.carried f
      rw [hps]
      exact (h.resp f hf).mono_resps ps
  | answer =>
    simp only [step] at hs
    split at hs
    · rename_i p hp
      split at hs
      · rename_i c hcar
        cases hs
        refine { hcfg := h.hcfg, krun := h.krun, srun := h.srun, wire := h.wire, onw := h.onw,
                 cjunk := h.cjunk, reqs := h.reqs, rjunk := h.rjunk, resp := ?_ }
        intro f hf
        have hf' : f ∈ s.s2c ++ [({ seq := p.seq, src := c, kind := kindOf p } : K.Frame)] ∨ f ∈ s.k.fed := hf
        rw [List.mem_append, List.mem_singleton] at hf'
        rcases hf' with (hf' | rfl) | hf'
        · exact h.resp f (.inl hf')
        · exact ⟨rfl, p, List.mem_of_getElem? hp, rfl, rfl, hcar⟩
        · exact h.resp f (.inr hf')
      · cases hs
    · cases hs
  | loseResp =>
    simp only [step] at hs
    split at hs
    · cases hs
      exact { hcfg := h.hcfg, krun := h.krun, srun := h.srun, wire := h.wire, onw := h.onw,
              cjunk := h.cjunk, reqs := h.reqs, rjunk := h.rjunk, resp := h.resp }
    · cases hs
  | deliverResp =>
    simp only [step] at hs
    split at hs
    · rename_i f rest hc
      obtain ⟨k', hk, rfl⟩ := Option.map_eq_some_iff.1 hs
      obtain ⟨ws, hws⟩ := K.step_writes_grow hk
      have hfed := K.step_fed_feed hk
      refine { hcfg := h.hcfg, krun := ⟨_, K.accepts_snoc hK hk⟩, srun := h.srun, wire := ?_, onw := ?_,
               cjunk := h.cjunk, reqs := h.reqs, rjunk := h.rjunk, resp := ?_ }
      · show (s.carried ++ s.c2s.map tag).Sublist ((k'.writes.take s.onWire).map wtag)
        rw [hws, List.take_append_of_le_length h.onw]; exact h.wire
      · show s.onWire ≤ k'.writes.length
        rw [hws, List.length_append]; have := h.onw; omega
      · intro g hg
        have hg' : g ∈ rest ∨ g ∈ k'.fed := hg
        rw [hfed, List.mem_append, List.mem_singleton] at hg'
        rcases hg' with hg' | hg' | rfl
        · exact h.resp g (.inl (by rw [hc]; exact List.mem_cons_of_mem _ hg'))
        · exact h.resp g (.inr hg')
        · exact h.resp g (.inl (by rw [hc]; exact List.mem_cons_self))
    · cases hs
  | dropResp =>
    simp only [step] at hs
    split at hs
    · rename_i x rest hc
      cases hs
      refine { hcfg := h.hcfg, krun := h.krun, srun := h.srun, wire := h.wire, onw := h.onw,
               cjunk := h.cjunk, reqs := h.reqs, rjunk := h.rjunk, resp := ?_ }
      intro g hg
      have hg' : g ∈ rest ∨ g ∈ s.k.fed := hg
      rcases hg' with hg' | hg'
      · exact h.resp g (.inl (by rw [hc]; exact List.mem_cons_of_mem _ hg'))
      · exact h.resp g (.inr hg')
    · cases hs

theorem inv_accepts_from {cfg : Cfg} {s₀ : State} {tr : List Ev} {s : State} (h0 : Inv cfg s₀)
    (h : Accepts s₀ tr s) : Inv cfg s := by
  induction h with
  | nil s => exact h0
  | cons hstep _ ih => exact ih (inv_step h0 hstep)

theorem inv_accepts {cfg : Cfg} {tr : List Ev} {s : State} (h : Accepts (init cfg) tr s) : Inv cfg s :=
  inv_accepts_from (inv_init cfg) h

/-! ### consequences -/

/-- every request the server has read was written by the client under that sequence number -/
theorem Inv.carried_written {cfg : Cfg} {s : State} (h : Inv cfg s) {q c : Nat} (hm : (q, c) ∈ s.carried) :
    ∃ u, (c, q, u) ∈ s.k.writes := by
  have h1 : (q, c) ∈ (s.k.writes.take s.onWire).map wtag :=
    h.wire.subset (List.mem_append_left _ hm)
  obtain ⟨w, hw, he⟩ := List.mem_map.1 h1
  obtain ⟨k, q', u⟩ := w
  simp only [wtag, Prod.mk.injEq] at he
  obtain ⟨rfl, rfl⟩ := he
  exact ⟨u, List.mem_of_mem_take hw⟩

/-- the sequence numbers the server has read are pairwise distinct -/
theorem Inv.carried_nodup {cfg : Cfg} {s : State} (h : Inv cfg s) : (s.carried.map (·.1)).Nodup := by
  obtain ⟨trK, hK⟩ := h.krun
  have h1 : s.carried.Sublist ((s.k.writes.take s.onWire).map wtag) :=
    (List.sublist_append_left _ _).trans h.wire
  have h2 : (s.carried.map (·.1)).Sublist (s.k.writes.map (·.2.1)) := by
    have := (h1.map (·.1)).trans (((List.take_sublist s.onWire s.k.writes).map wtag).map (·.1))
    rwa [List.map_map] at this
  exact h2.nodup (K.writes_nodup hK)

/-- the client half of a run of the product is a run of K -/
theorem client_run {cfg : Cfg} {tr : List Ev} {s : State} (h : Accepts (init cfg) tr s) :
    ∃ trK, K.Accepts (K.init cfg.k) trK s.k :=
  (inv_accepts h).krun

/-- the server half of a run of the product is a run of S -/
theorem server_run {cfg : Cfg} {tr : List Ev} {s : State} (h : Accepts (init cfg) tr s) :
    ∃ trS, S.Accepts (S.init cfg.s) trS s.s :=
  (inv_accepts h).srun

/-- the guard of `answer` never blocks: a response waiting to leave the server answers a request the server has read -/
theorem answer_enabled {cfg : Cfg} {tr : List Ev} {s : State} (h : Accepts (init cfg) tr s)
    (p : S.Resp) (hp : s.s.resps[s.answered]? = some p) : ∃ c, carrier s.carried p.seq = some c := by
  have hi := inv_accepts h
  obtain ⟨trS, hS⟩ := hi.srun
  obtain ⟨r, hr, hseq, _⟩ := S.resp_not_phantom hS p (List.mem_of_getElem? hp)
  apply carrier_of_mem
  rw [← hi.reqs, ← hseq]
  exact List.mem_map.2 ⟨r, hr, rfl⟩

/-- C01's peer hypothesis is a theorem of the product -/
theorem peer_answers_own {cfg : Cfg} {tr : List Ev} {s : State} (h : Accepts (init cfg) tr s) :
    K.PeerAnswersOwn s.k := by
  have hi := inv_accepts h
  intro f hf _ _
  obtain ⟨_, p, _, hseq, _, hcar⟩ := hi.resp f (.inr hf)
  rw [hseq]
  exact hi.carried_written (carrier_mem hcar)

/-- end to end, no hypothesis on the peer: a call that holds a reply holds the reply computed from its own arguments -/
theorem end_to_end {cfg : Cfg} {tr : List Ev} {s : State} (h : Accepts (init cfg) tr s)
    (k : Nat) (c : K.Call) (hc : s.k.calls k = some c) (src : Nat)
    (hr : c.replyFrom = some (src, .ok) ∨ c.replyFrom = some (src, .empty)) : src = k := by
  obtain ⟨trK, hK⟩ := client_run h
  rcases hr with hr | hr
  · exact K.reply_is_own hK (peer_answers_own h) k c hc src hr
  · exact K.reply_is_own_empty hK (peer_answers_own h) k c hc src hr

/-- C04's hypothesis on the peer (each sequence number used once) is a theorem of the product -/
theorem unique_seq {cfg : Cfg} {tr : List Ev} {s : State} (h : Accepts (init cfg) tr s) :
    S.UniqueSeq s.s := by
  have hi := inv_accepts h
  unfold S.UniqueSeq
  have hf : s.s.reqs.filter (fun r => !r.junk) = s.s.reqs :=
    List.filter_eq_self.2 (fun r hr => by simp [hi.rjunk r hr])
  rw [hf, hi.reqs]
  exact hi.carried_nodup

/-- a call that holds a (non-empty) reply was executed: the handler of the request carrying its sequence number was entered -/
theorem success_means_executed {cfg : Cfg} {tr : List Ev} {s : State} (h : Accepts (init cfg) tr s)
    (k : Nat) (c : K.Call) (hc : s.k.calls k = some c) (src : Nat) (hr : c.replyFrom = some (src, .ok)) :
    ∃ q, c.seq = some q ∧ q ∈ s.s.execs := by
  have hi := inv_accepts h
  obtain ⟨trK, hK⟩ := hi.krun
  obtain ⟨trS, hS⟩ := hi.srun
  obtain ⟨q, hcq, hfed⟩ := (K.provInv_accepts hK k c hc).1 src .ok hr
  obtain ⟨_, p, hp, hseq, hkind, _⟩ := hi.resp _ (.inr hfed)
  obtain ⟨he, ho⟩ := kindOf_ok hkind.symm
  refine ⟨q, hcq, ?_⟩
  have hq : q = p.seq := hseq
  rw [hq]
  exact S.own_reply_executed hS p hp he ho

/-! ### non-vacuity: two calls, answered in the other order, each ends holding its own reply -/

example : ((runTrace (init ⟨⟨false, false⟩, ⟨false, false⟩, fun _ => { seq := 0 }⟩)
    [.client (.start { k := 1, form := .go, replyLen := 8 }), .client (.start { k := 2, form := .go, replyLen := 8 }),
     .client (.sendLock 1), .client (.sendLock 2), .send, .send, .deliverReq, .deliverReq,
     .server .decode, .server .decode, .server (.enter 1), .server (.enter 0), .server (.leave 1), .server (.leave 0),
     .answer, .answer,
     .deliverResp, .client .decode, .client (.finish 2), .deliverResp, .client .decode, .client (.finish 1)]).map
      (fun s => ((s.k.calls 1).bind (·.replyFrom), (s.k.calls 2).bind (·.replyFrom), s.s.execs, s.s2c.length))) =
    some (some (1, .ok), some (2, .ok), [1, 0], 0) := by decide

end RpcVerif.L
