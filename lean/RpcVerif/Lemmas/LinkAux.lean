import RpcVerif.Lemmas.ConnEnd
import RpcVerif.Lemmas.ServerInv
/-
  Component facts used by the product K ‖ link ‖ S (Lemmas/Link.lean):
  K: runs extend at the end; `fed` grows only by `feed`; `writes` grows only by `sendLock`, with the
     fresh sequence number, so the sequence numbers on the wire are strictly increasing.
  S: runs extend at the end; `reqs` grows only by `feed`; `resps` only grows; a success response
     carrying the handler's own reply is written only by `leave` of a job whose handler was entered.
-/
namespace RpcVerif.K
open RpcVerif

set_option linter.unusedVariables false

theorem accepts_snoc {a b c : State} {tr : List Ev} {e : Ev} (h : Accepts a tr b) (hs : step b e = some c) :
    Accepts a (tr ++ [e]) c := by
  induction h with
  | nil s => exact .cons hs (.nil _)
  | cons hstep _ ih => exact .cons hstep (ih hs)

/-! ### `fed` grows only by `feed` -/

@[simp] theorem updCall_fed (s : State) (k : Nat) (f : Call → Call) : (updCall s k f).fed = s.fed := rfl
@[simp] theorem setErr_fed (s : State) (k : Nat) (e : Err) : (setErr s k e).fed = s.fed := rfl
@[simp] theorem signal_fed (s : State) (k : Nat) : (signal s k).fed = s.fed := (untouched_signal s k).fed
@[simp] theorem complete_fed (s : State) (k : Nat) : (complete s k).fed = s.fed := (untouched_complete s k).fed
@[simp] theorem popSend_fed (s : State) (k : Nat) : (popSend s k).fed = s.fed := by
  rcases popSend_cases s k with h | h <;> rw [h]
@[simp] theorem finishCall_fed (s : State) (k : Nat) (f : Frame) : (finishCall s k f).fed = s.fed :=
  (untouched_finishCall s k f).fed
@[simp] theorem sweepAll_fed (s : State) (e : Err) : (sweepAll s e).fed = s.fed := (sweepAll_untouched s e).fed

theorem step_fed_feed {s s' : State} {f : Frame} (hs : step s (.feed f) = some s') : s'.fed = s.fed ++ [f] := by
  simp only [step] at hs
  split at hs
  · cases hs
  · split at hs <;> cases hs <;> rfl

theorem step_fed_other {s s' : State} {e : Ev} (hs : step s e = some s') (hf : ∀ f, e ≠ .feed f) :
    s'.fed = s.fed := by
  cases e with
  | feed f => exact absurd rfl (hf f)
  | decode =>
    simp only [step] at hs
    split at hs
    · split at hs
      · rename_i f hr
        have h := readFrame_fed s f
        split at hs
        · cases hs; exact h
        · cases hs; exact h
      · cases hs
    · split at hs
      · rename_i f rest hq
        cases hs
        exact readFrame_fed { s with decodeQ := rest } f
      · cases hs
  | sweep =>
    simp only [step] at hs
    split at hs
    · rename_i e hr
      split at hs
      · cases hs
      · cases hs; exact sweepAll_fed s e
    · cases hs
  | sendFail k =>
    simp only [step] at hs
    split at hs
    · split at hs
      · rename_i reg e hph
        cases hs
        cases reg <;> simp
      · cases hs
    · cases hs
  | _ =>
    simp only [step] at hs
    repeat' split at hs
    all_goals first
      | (cases hs; done)
      | (cases hs; rfl)
      | (cases hs; simp; done)

/-! ### `writes` grows only by `sendLock`, with the fresh sequence number -/

theorem step_writes {s s' : State} {e : Ev} (hs : step s e = some s') :
    s'.writes = s.writes ∨ ∃ k u, s'.writes = s.writes ++ [(k, s.seq, u)] := by
  cases e with
  | start c =>
    simp only [step] at hs
    split at hs
    · cases hs
    · cases hs; exact .inl rfl
  | sendLock k =>
    simp only [step, getCall_eq] at hs
    repeat' split at hs
    all_goals first
      | (cases hs; done)
      | (cases hs; left; simp; done)
      | (cases hs; right; exact ⟨_, _, by simp only [popSend_writes, updCall_writes]; rfl⟩)
  | _ => exact .inl (congrArg (·.1) (step_wsp hs (by intro c; simp) (by intro k; simp)))

theorem step_writes_grow {s s' : State} {e : Ev} (hs : step s e = some s') : ∃ ws, s'.writes = s.writes ++ ws := by
  rcases step_writes hs with h | ⟨k, u, h⟩
  · exact ⟨[], by rw [h, List.append_nil]⟩
  · exact ⟨_, h⟩

/-- the sequence numbers on the wire are strictly increasing -/
def WSorted (s : State) : Prop := (s.writes.map (·.2.1)).Pairwise (· < ·)

theorem wsorted_init (cfg : Cfg) : WSorted (init cfg) := by
  simp [WSorted, init]

theorem wsorted_step {s s' : State} {e : Ev} (h : WSorted s) (hq : SeqInv s) (hs : step s e = some s') :
    WSorted s' := by
  unfold WSorted at h ⊢
  rcases step_writes hs with hw | ⟨k, u, hw⟩
  · rw [hw]; exact h
  · rw [hw, List.map_append, List.pairwise_append]
    refine ⟨h, by simp, ?_⟩
    intro a ha b hb
    simp only [List.map_cons, List.map_nil, List.mem_singleton] at hb
    subst hb
    obtain ⟨w, hw', rfl⟩ := List.mem_map.1 ha
    obtain ⟨c, hc, hcq⟩ := hq.2.2 w.1 w.2.1 w.2.2 hw'
    exact hq.1 w.1 c w.2.1 hc hcq

theorem wsorted_accepts_from {s₀ : State} {tr : List Ev} {s : State} (h0 : WSorted s₀) (hq : SeqInv s₀)
    (ha : AuxInv s₀) (h : Accepts s₀ tr s) : WSorted s := by
  induction h with
  | nil s => exact h0
  | cons hstep _ ih =>
    exact ih (wsorted_step h0 hq hstep) (seqInv_step _ _ _ hq ha hstep) (auxInv_step ha hstep)

theorem wsorted_accepts {cfg : Cfg} {tr : List Ev} {s : State} (h : Accepts (init cfg) tr s) : WSorted s :=
  wsorted_accepts_from (wsorted_init cfg) (seqInv_init cfg) (auxInv_init cfg) h

theorem writes_nodup {cfg : Cfg} {tr : List Ev} {s : State} (h : Accepts (init cfg) tr s) :
    (s.writes.map (·.2.1)).Nodup :=
  (wsorted_accepts h).imp (fun hab => Nat.ne_of_lt hab)

end RpcVerif.K

namespace RpcVerif.S
open RpcVerif

set_option linter.unusedVariables false

theorem accepts_snoc {a b c : State} {tr : List Ev} {e : Ev} (h : Accepts a tr b) (hs : step b e = some c) :
    Accepts a (tr ++ [e]) c := by
  induction h with
  | nil s => exact .cons hs (.nil _)
  | cons hstep _ ih => exact .cons hstep (ih hs)

/-! ### `reqs` grows only by `feed` -/

@[simp] theorem respond_reqs (s : State) (r : Req) (e : RespErr) (o : Bool) : (respond s r e o).reqs = s.reqs := by
  unfold respond; split <;> rfl
@[simp] theorem crash_reqs (s : State) (w : String) : (crash s w).reqs = s.reqs := rfl
@[simp] theorem updJob_reqs (s : State) (k : Nat) (f : Job → Job) : (updJob s k f).reqs = s.reqs := rfl
@[simp] theorem respondNoReply_reqs (s : State) (r : Req) : (respondNoReply s r).reqs = s.reqs := by
  unfold respondNoReply; split <;> simp
@[simp] theorem serveRequest_reqs (s : State) (r : Req) : (serveRequest s r).reqs = s.reqs := by
  unfold serveRequest
  repeat' split
  all_goals simp

theorem step_reqs_feed {s s' : State} {r : Req} (hs : step s (.feed r) = some s') : s'.reqs = s.reqs ++ [r] := by
  unfold step at hs
  split at hs
  · cases hs
  simp only [stepCore] at hs
  split at hs
  · cases hs
  · split at hs <;> cases hs <;> rfl

theorem step_reqs_other {s s' : State} {e : Ev} (hs : step s e = some s') (hf : ∀ r, e ≠ .feed r) :
    s'.reqs = s.reqs := by
  unfold step at hs
  split at hs
  · cases hs
  cases e with
  | feed r => exact absurd rfl (hf r)
  | leave k =>
    simp only [stepCore] at hs
    split at hs
    · split at hs
      · cases hs
      · split at hs
        · cases hs
        · cases hs
          show (match _ with | Verdict.ok => _ | Verdict.err _ => _ | Verdict.badReply => _ : State).reqs = s.reqs
          split
          · simp
          · simp
          · split
            · split <;> rfl
            · simp
    · cases hs
  | _ =>
    simp only [stepCore] at hs
    repeat' split at hs
    all_goals first
      | (cases hs; done)
      | (cases hs; rfl)
      | (cases hs; simp; done)

/-! ### `resps` only grows -/

theorem tr_resps {s s' : State} (htr : Tr s s') : ∃ ps, s'.resps = s.resps ++ ps := by
  cases htr <;> first | exact ⟨[], (List.append_nil _).symm⟩ | exact ⟨_, rfl⟩

theorem tr_execs {s s' : State} (htr : Tr s s') : ∀ k ∈ s.execs, k ∈ s'.execs := by
  cases htr <;> first | exact fun _ h => h | exact fun _ h => List.mem_append_left _ h

/-! ### a success response with the handler's own reply is written by `leave` of an entered job -/

theorem mkResp_false_reply (r : Req) (e : RespErr) : (mkResp r e false).reply ≠ .own := by
  unfold mkResp
  simp only [Bool.false_eq_true, ↓reduceIte]
  split
  · simp
  · split <;> simp

theorem respond_false_resps (s : State) (r : Req) (e : RespErr) :
    ∀ p ∈ (respond s r e false).resps, p ∈ s.resps ∨ p.reply ≠ .own := by
  intro p hp
  rcases Bool.eq_false_or_eq_true s.codecClosed with hc | hc
  · rw [respond_closed _ _ _ _ hc] at hp; exact .inl hp
  · rw [respond_open' _ _ _ _ hc] at hp
    have hp' : p ∈ s.resps ++ [mkResp r e false] := hp
    rw [List.mem_append, List.mem_singleton] at hp'
    rcases hp' with hp' | rfl
    · exact .inl hp'
    · exact .inr (mkResp_false_reply r e)

theorem respond_resps (s : State) (r : Req) (e : RespErr) (o : Bool) :
    ∀ p ∈ (respond s r e o).resps, p ∈ s.resps ∨ (p.seq = r.seq ∧ p.err = e) := by
  intro p hp
  rcases Bool.eq_false_or_eq_true s.codecClosed with hc | hc
  · rw [respond_closed _ _ _ _ hc] at hp; exact .inl hp
  · rw [respond_open' _ _ _ _ hc] at hp
    have hp' : p ∈ s.resps ++ [mkResp r e o] := hp
    rw [List.mem_append, List.mem_singleton] at hp'
    rcases hp' with hp' | rfl
    · exact .inl hp'
    · exact .inr ⟨rfl, rfl⟩

theorem respondNoReply_resps (s : State) (r : Req) :
    ∀ p ∈ (respondNoReply s r).resps, p ∈ s.resps ∨ p.reply ≠ .own := by
  unfold respondNoReply
  split
  · exact fun p hp => .inl hp
  · exact respond_false_resps s r .none

theorem serveRequest_resps (s : State) (r : Req) :
    ∀ p ∈ (serveRequest s r).resps, p ∈ s.resps ∨ p.reply ≠ .own := by
  unfold serveRequest
  repeat' split
  all_goals first
    | exact fun p hp => .inl hp
    | exact respondNoReply_resps s r
    | exact respond_false_resps s r _

/-- where a response of the next state comes from -/
def NewOk (s : State) (p : Resp) : Prop :=
  p ∈ s.resps ∨ p.reply ≠ .own ∨ p.err ≠ .none ∨ ∃ k j, getJob s k = some j ∧ j.phase = .entered ∧ p.seq = j.req.seq

theorem newOk_of_false {s : State} {p : Resp} (h : p ∈ s.resps ∨ p.reply ≠ .own) : NewOk s p := by
  rcases h with h | h
  · exact .inl h
  · exact .inr (.inl h)

theorem step_resps {s s' : State} {e : Ev} (hs : step s e = some s') : ∀ p ∈ s'.resps, NewOk s p := by
  unfold step at hs
  split at hs
  · cases hs
  cases e with
  | decode =>
    simp only [stepCore] at hs
    split at hs
    · split at hs
      · cases hs
        exact fun p hp => newOk_of_false (serveRequest_resps s _ p hp)
      · cases hs
    · split at hs
      · rename_i r rest hq
        cases hs
        exact fun p hp => newOk_of_false (serveRequest_resps { s with decodeQ := rest } r p hp)
      · cases hs
  | enter k =>
    simp only [stepCore] at hs
    split at hs
    · rename_i j hj
      split at hs
      · cases hs
      · repeat' split at hs
        all_goals first
          | (cases hs; exact fun p hp => .inl hp)
          | (cases hs
             exact fun p hp => newOk_of_false
               (respond_false_resps (updJob s k fun j => { j with phase := .left }) j.req _ p hp))
    · cases hs
  | leave k =>
    simp only [stepCore] at hs
    split at hs
    · rename_i j hj
      split at hs
      · cases hs
      · rename_i hph
        have hph' : j.phase = .entered := by simpa using hph
        split at hs
        · cases hs
        · cases hs
          intro p hp
          have hp' : p ∈ (match j.verdict.getD .ok with
              | Verdict.ok => respond (updJob s k fun j => { j with phase := .left }) j.req .none true
              | Verdict.err n => respond (updJob s k fun j => { j with phase := .left }) j.req (.text k n) false
              | Verdict.badReply =>
                if (flags j.req).noResponse != Gen.noResponse then
                  (if (updJob s k fun j => { j with phase := .left }).codecClosed then
                      (updJob s k fun j => { j with phase := .left })
                   else { (updJob s k fun j => { j with phase := .left }) with
                      resps := (updJob s k fun j => { j with phase := .left }).resps ++
                        [({ seq := j.req.seq, err := .badreply, reply := .empty } : Resp)] })
                else respond (updJob s k fun j => { j with phase := .left }) j.req .none true : State).resps := hp
          have hown : ∀ p ∈ (respond (updJob s k fun j => { j with phase := .left }) j.req .none true).resps,
              NewOk s p := by
            intro p hp
            rcases respond_resps _ _ _ _ p hp with h | ⟨h, _⟩
            · exact .inl h
            · exact .inr (.inr (.inr ⟨k, j, hj, hph', h⟩))
          split at hp'
          · exact hown p hp'
          · exact newOk_of_false (respond_false_resps (updJob s k fun j => { j with phase := .left }) _ _ p hp')
          · split at hp'
            · split at hp'
              · exact .inl hp'
              · have hp'' : p ∈ s.resps ++ [({ seq := j.req.seq, err := .badreply, reply := .empty } : Resp)] := hp'
                rw [List.mem_append, List.mem_singleton] at hp''
                rcases hp'' with h | rfl
                · exact .inl h
                · exact .inr (.inr (.inl (by simp)))
            · exact hown p hp'
    · cases hs
  | _ =>
    simp only [stepCore] at hs
    repeat' split at hs
    all_goals first
      | (cases hs; done)
      | (cases hs; exact fun p hp => .inl hp)

/-- a success response carrying the handler's own reply was written for a job whose handler was entered -/
structure OE (s : State) : Prop where
  resp : ∀ p ∈ s.resps, p.err = .none → p.reply = .own → p.seq ∈ s.execs
  job : ∀ j ∈ s.jobs, j.phase = .entered → j.req.seq ∈ s.execs

theorem oe_init (cfg : Cfg) : OE (init cfg) :=
  ⟨fun p hp _ _ => (by cases hp), fun j hj _ => (by cases hj)⟩

theorem mem_upd {k : Nat} {f : Job → Job} {js : List Job} {j' : Job} (h : j' ∈ upd k f js) :
    ∃ j ∈ js, (j.req.seq = k ∧ j' = f j) ∨ j' = j := by
  unfold upd at h
  obtain ⟨j, hj, rfl⟩ := List.mem_map.1 h
  refine ⟨j, hj, ?_⟩
  split
  · rename_i hk; exact .inl ⟨by simpa using hk, rfl⟩
  · exact .inr rfl

theorem oe_tr_job {s s' : State} (h : ∀ j ∈ s.jobs, j.phase = .entered → j.req.seq ∈ s.execs) (htr : Tr s s') :
    ∀ j ∈ s'.jobs, j.phase = .entered → j.req.seq ∈ s'.execs := by
  cases htr with
  | newJob r rd dq =>
    intro j hj hp
    have hj' : j ∈ s.jobs ++ [{ req := r }] := hj
    rw [List.mem_append, List.mem_singleton] at hj'
    rcases hj' with hj' | rfl
    · exact h j hj' hp
    · cases hp
  | early k j0 ps hj0 =>
    intro j hj hp
    obtain ⟨j1, hj1, ⟨_, rfl⟩ | rfl⟩ := mem_upd hj
    · cases hp
    · exact h _ hj1 hp
  | leave k j0 ps hj0 =>
    intro j hj hp
    obtain ⟨j1, hj1, ⟨_, rfl⟩ | rfl⟩ := mem_upd hj
    · cases hp
    · exact h _ hj1 hp
  | enter k j0 hj0 =>
    intro j hj hp
    obtain ⟨j1, hj1, ⟨hk, rfl⟩ | rfl⟩ := mem_upd hj
    · exact List.mem_append_right _ (by simp [hk])
    · exact List.mem_append_left _ (h _ hj1 hp)
  | hret k j0 v hj0 =>
    intro j hj hp
    obtain ⟨j1, hj1, ⟨_, rfl⟩ | rfl⟩ := mem_upd hj
    · exact h j1 hj1 hp
    · exact h _ hj1 hp
  | _ => exact h

theorem oe_step (hf : allFlags = true) {s s' : State} {e : Ev} (hb : Base s) (h : OE s)
    (hs : step s e = some s') : OE s' := by
  have htr := step_shape hf hb.td hs
  refine ⟨?_, oe_tr_job h.job htr⟩
  intro p hp he ho
  rcases step_resps hs p hp with h1 | h1 | h1 | ⟨k, j, hj, hph, hseq⟩
  · exact tr_execs htr _ (h.resp p h1 he ho)
  · exact absurd ho h1
  · exact absurd he h1
  · rw [hseq]
    exact tr_execs htr _ (h.job j (getJob_mem hj).1 hph)

theorem oe_accepts {cfg : Cfg} {tr : List Ev} {s : State} (h : Accepts (init cfg) tr s) : OE s :=
  (accepts_preserves (P := fun s => Base s ∧ OE s)
    (fun _ _ _ hp hs => ⟨base_step allFlags_true hp.1 hs, oe_step allFlags_true hp.1 hp.2 hs⟩) h
    ⟨base_init cfg, oe_init cfg⟩).2

/-- a success response with the handler's own reply answers a request whose handler was entered -/
theorem own_reply_executed {cfg : Cfg} {tr : List Ev} {s : State} (h : Accepts (init cfg) tr s)
    (p : Resp) (hp : p ∈ s.resps) (he : p.err = .none) (ho : p.reply = .own) : p.seq ∈ s.execs :=
  (oe_accepts h).resp p hp he ho

theorem step_resps_grow {s s' : State} {e : Ev} (hb : Base s) (hs : step s e = some s') :
    ∃ ps, s'.resps = s.resps ++ ps :=
  tr_resps (step_shape allFlags_true hb.td hs)

end RpcVerif.S
