import RpcVerif.Model.Varint
namespace RpcVerif

theorem toNat_ofNat_lt (n : Nat) (h : n < 256) : (UInt8.ofNat n).toNat = n := by
  simp [UInt8.toNat_ofNat', Nat.mod_eq_of_lt h]

/-- Length of the canonical spelling. -/
theorem putVarint_length_pos (n : Nat) : 0 < (putVarint n).length := by
  unfold putVarint; split <;> simp

theorem getVarintAux_put (n : Nat) : ∀ (k shift : Nat) (rest : Bytes),
    n < 2 ^ (7 * (k+1)) → n * 2 ^ shift < 2 ^ 64 →
    getVarintAux (k+1) shift (putVarint n ++ rest) = some (n * 2 ^ shift, (putVarint n).length) := by
  induction n using Nat.strongRecOn with
  | _ n ih =>
    intro k shift rest hk hs
    unfold putVarint
    by_cases hn : n < 128
    · simp only [hn, if_true, List.cons_append, List.nil_append, getVarintAux]
      have hb : (UInt8.ofNat n).toNat = n := toNat_ofNat_lt n (by omega)
      rw [hb]
      have hm : n % 128 = n := Nat.mod_eq_of_lt hn
      rw [hm]
      by_cases hk0 : k = 0
      · simp [hk0, Nat.mod_eq_of_lt hs]
      · simp [hk0, hn]
    · simp only [hn, if_false, List.cons_append, getVarintAux]
      have hb : (UInt8.ofNat (n % 128 + 128)).toNat = n % 128 + 128 := toNat_ofNat_lt _ (by omega)
      rw [hb]
      have hk0 : k ≠ 0 := by
        intro h; subst h; simp at hk; omega
      obtain ⟨k', rfl⟩ := Nat.exists_eq_succ_of_ne_zero hk0
      have hdiv : n / 128 < n := by omega
      have hk' : n / 128 < 2 ^ (7 * (k'+1)) := by
        have : 2 ^ (7 * (k'+1+1)) = 2 ^ (7*(k'+1)) * 128 := by
          rw [show 7 * (k'+1+1) = 7*(k'+1) + 7 by omega, Nat.pow_add]
        rw [this] at hk
        exact Nat.div_lt_of_lt_mul (by rw [Nat.mul_comm]; exact hk)
      have hpow : 2 ^ (shift + 7) = 2 ^ shift * 128 := by rw [Nat.pow_add]
      have hs' : n / 128 * 2 ^ (shift + 7) < 2 ^ 64 := by
        rw [hpow]
        have : n / 128 * (2 ^ shift * 128) ≤ n * 2 ^ shift := by
          have h1 : n / 128 * 128 ≤ n := Nat.div_mul_le_self n 128
          calc n / 128 * (2 ^ shift * 128) = (n / 128 * 128) * 2 ^ shift := by
                rw [Nat.mul_comm (2^shift) 128, Nat.mul_assoc]
            _ ≤ n * 2 ^ shift := Nat.mul_le_mul_right _ h1
        omega
      have := ih (n / 128) hdiv k' (shift + 7) rest hk' hs'
      simp only [Nat.succ_eq_add_one] at this ⊢
      rw [this]
      have hmod : (n % 128 + 128) % 128 = n % 128 := by omega
      have hge : ¬ (n % 128 + 128 < 128) := by omega
      simp only [hmod, hge, if_false, Nat.add_one_ne_zero, List.length_cons]
      congr 2
      rw [hpow]
      have := Nat.div_add_mod n 128
      calc n % 128 * 2 ^ shift + n / 128 * (2 ^ shift * 128)
          = (n % 128 + 128 * (n / 128)) * 2 ^ shift := by
            rw [Nat.add_mul, Nat.mul_comm (2^shift) 128, ← Nat.mul_assoc, Nat.mul_comm (n/128) 128]
        _ = n * 2 ^ shift := by rw [Nat.add_comm, this]

/-- Decoding the canonical spelling of any 64-bit value, whatever follows it. -/
theorem getVarint_put (n : Nat) (h : n < 2 ^ 64) (rest : Bytes) :
    getVarint (putVarint n ++ rest) = some (n, (putVarint n).length) := by
  have := getVarintAux_put n 9 0 rest (by simp; omega) (by simpa using h)
  simpa [getVarint] using this

/-- `getVarintAux` never reads more than `k` bytes nor past the readable bytes. -/
theorem getVarintAux_bounds : ∀ (k shift : Nat) (bs : Bytes) (v n : Nat),
    getVarintAux k shift bs = some (v, n) → 1 ≤ n ∧ n ≤ k ∧ n ≤ bs.length := by
  intro k
  induction k with
  | zero => intro shift bs v n h; cases bs <;> simp [getVarintAux] at h
  | succ k ih =>
    intro shift bs v n h
    cases bs with
    | nil => simp [getVarintAux] at h
    | cons b bs =>
      simp only [getVarintAux] at h
      split at h
      · simp at h; simp; omega
      · split at h
        · simp at h; simp; omega
        · split at h
          · simp at h
          · next r m heq =>
            simp at h
            have := ih _ _ _ _ heq
            simp; omega

theorem getVarint_bounds (bs : Bytes) (v n : Nat) (h : getVarint bs = some (v, n)) :
    1 ≤ n ∧ n ≤ 10 ∧ n ≤ bs.length := getVarintAux_bounds 10 0 bs v n h

/-- Bytes after the ones consumed do not matter. -/
theorem getVarintAux_append : ∀ (k shift : Nat) (bs rest : Bytes) (v n : Nat),
    getVarintAux k shift bs = some (v, n) → getVarintAux k shift (bs ++ rest) = some (v, n) := by
  intro k
  induction k with
  | zero => intro shift bs rest v n h; cases bs <;> simp [getVarintAux] at h
  | succ k ih =>
    intro shift bs rest v n h
    cases bs with
    | nil => simp [getVarintAux] at h
    | cons b bs =>
      simp only [getVarintAux, List.cons_append] at h ⊢
      by_cases hk : k = 0
      · simpa [hk] using h
      · simp only [hk, if_false] at h ⊢
        by_cases hb : b.toNat < 128
        · simpa [hb] using h
        · simp only [hb, if_false] at h ⊢
          split at h
          · simp at h
          · next r m heq =>
            rw [ih _ _ rest _ _ heq]
            simpa using h

theorem getVarint_append (bs rest : Bytes) (v n : Nat) (h : getVarint bs = some (v, n)) :
    getVarint (bs ++ rest) = some (v, n) := getVarintAux_append 10 0 bs rest v n h

/-- The encode loop spells the canonical form when the size is right. -/
theorem encodeLoop_eq_put : ∀ (k n : Nat), (k = 0 → False) → (n < 2 ^ (7 * k)) →
    (k = 1 ∨ 2 ^ (7 * (k - 1)) ≤ n) → encodeLoop k n = putVarint n := by
  intro k
  induction k with
  | zero => intro n h; exact (h rfl).elim
  | succ k ih =>
    intro n _ hlt hge
    cases k with
    | zero =>
      simp at hlt
      unfold putVarint
      simp [encodeLoop, hlt]
    | succ k =>
      have hge' : 2 ^ (7 * (k+1)) ≤ n := by
        rcases hge with h | h
        · omega
        · simpa using h
      have h128 : 128 ≤ n := by
        have : 2 ^ 7 ≤ 2 ^ (7 * (k+1)) := Nat.pow_le_pow_right (by omega) (by omega)
        have : (2:Nat)^7 = 128 := by decide
        omega
      unfold putVarint
      simp only [encodeLoop, show ¬ n < 128 by omega, if_false]
      congr 1
      apply ih
      · omega
      · have : 2 ^ (7 * (k+1+1)) = 2 ^ (7*(k+1)) * 128 := by
          rw [show 7 * (k+1+1) = 7*(k+1) + 7 by omega, Nat.pow_add]
        rw [this] at hlt
        exact Nat.div_lt_of_lt_mul (by rw [Nat.mul_comm]; exact hlt)
      · cases k with
        | zero => left; rfl
        | succ k =>
          right
          have : 2 ^ (7 * (k+1+1)) = 2 ^ (7*(k+1)) * 128 := by
            rw [show 7 * (k+1+1) = 7*(k+1) + 7 by omega, Nat.pow_add]
          simp only [Nat.add_sub_cancel]
          rw [this] at hge'
          exact (Nat.le_div_iff_mul_le (by omega)).mpr hge'

/-- For every 64-bit value the Go encoders write exactly the canonical LEB128 bytes. -/
theorem encodeVarint_eq_put (v : Nat) (h : v < 2 ^ 64) : encodeVarint v = putVarint v := by
  unfold encodeVarint sizeofVarint
  repeat' split
  all_goals (apply encodeLoop_eq_put <;> first | (intro h0; cases h0) | omega | (right; simp; omega) | (left; rfl))

theorem encodeVarint_length (v : Nat) : (encodeVarint v).length = sizeofVarint v := by
  have : ∀ k t, (encodeLoop k t).length = k := by
    intro k
    induction k with
    | zero => intro t; rfl
    | succ k ih => intro t; cases k with
      | zero => rfl
      | succ k => simp [encodeLoop, ih]
  exact this _ _

theorem sizeofVarint_le (v : Nat) : 1 ≤ sizeofVarint v ∧ sizeofVarint v ≤ 10 := by
  unfold sizeofVarint; repeat' split
  all_goals omega

theorem getVarint_encode (v : Nat) (h : v < 2 ^ 64) (rest : Bytes) :
    getVarint (encodeVarint v ++ rest) = some (v, (encodeVarint v).length) := by
  rw [encodeVarint_eq_put v h]; exact getVarint_put v h rest

end RpcVerif
