import RpcVerif.Lemmas.ConnInv
import RpcVerif.Lemmas.ConnAux
/-
  Properties of the client connection automaton K that follow from the proved invariants
  (`InvS`, `AuxInv`): stability after completion, refusal after the end, processing before the
  sweep, no caller hangs, frame properties of completion steps, encode failure leaves no residue.
-/
namespace RpcVerif.K
open RpcVerif

set_option linter.unusedVariables false

/-! ## E. frame properties of completion steps -/

theorem finish_frame (s s' : State) (k j : Nat) (hs : step s (.finish k) = some s') (hne : j ≠ k) :
    s'.calls j = s.calls j := by
  simp only [step] at hs
  split at hs
  · cases hs
  · split at hs
    · split at hs
      · cases hs; simp [finishCall, hne]
      · cases hs
    · split at hs
      · split at hs
        · split at hs
          · cases hs; simp [finishCall, hne]
          · cases hs
        · cases hs
      · split at hs
        · cases hs; simp [finishCall, hne]
        · cases hs

/-- `read(ctx)` leaves every call alone that is not registered in the pending table -/
theorem readFrame_calls_of_not_pending (s : State) (f : Frame) (j : Nat) (hnp : pendingTok s j = 0) :
    (readFrame s f).1.calls j = s.calls j := by
  rcases readFrame_cases s f with h | h | ⟨k, c, hl, hc, _, h⟩
  · rw [h]
  · rw [h]
  · have hpos := cnt_pos_of_mem (lookup_mem hl)
    have hne : j ≠ k := by
      rintro rfl
      rw [pendingTok_eq] at hnp; omega
    rcases h with ⟨e, _, h⟩ | ⟨_, h⟩ | ⟨_, h⟩ | ⟨_, _, h⟩ | ⟨_, _, h⟩ <;> rw [h]
    · simp [hne]
    · simp [hne]

theorem decode_frame (s s' : State) (hs : step s .decode = some s') (j : Nat) (c : Call)
    (hc : s.calls j = some c) (hnp : pendingTok s j = 0) : s'.calls j = some c := by
  simp only [step] at hs
  split at hs
  · split at hs
    · rename_i f hr
      have h := readFrame_calls_of_not_pending s f j hnp
      split at hs
      · cases hs; exact h.trans hc
      · cases hs; exact h.trans hc
    · cases hs
  · split at hs
    · rename_i f rest hq
      cases hs
      exact (readFrame_calls_of_not_pending { s with decodeQ := rest } f j hnp).trans hc
    · cases hs

theorem cancel_returns (s : State) (k : Nat) (c : Call) (hc : s.calls k = some c) (hf : c.form = .ctx)
    (hr : c.returned = false) (hw : s.cfg.pipe = true ∨ c.phase = .sent) :
    ∃ s', step s (.cancel k) = some s' ∧ ∃ c', s'.calls k = some c' ∧ c'.returned = true ∧
      c'.retErr = some .canceled ∧ s'.pending = s.pending ∧ ∀ j, j ≠ k → s'.calls j = s.calls j := by
  refine ⟨updCall s k fun c => { c with returned := true, retErr := some .canceled }, ?_,
    { c with returned := true, retErr := some .canceled }, by simp [hc], rfl, rfl, rfl,
    fun j hj => by simp [hj]⟩
  rcases hw with hw | hw <;> simp [step, hc, hf, hr, hw]

/-! ## A. stability after completion (C02) -/

/-- a signalled call has no token left anywhere -/
theorem signalled_tokens {s : State} {k : Nat} {c : Call} (hi : InvS s) (hc : s.calls k = some c)
    (hsig : c.signals = 1) :
    doneTok s k = 0 ∧ senderTok c = 0 ∧ pendingTok s k = 0 ∧ finTok s k = 0 := by
  have := (callInv_iff s k c).1 (hi.1.1 k c hc)
  omega

/-- the result fields of call `k` in `s'` are those of `c` -/
def Stab (c : Call) (s' : State) (k : Nat) : Prop :=
  ∃ c', s'.calls k = some c' ∧ c'.signals = c.signals ∧ c'.errHist = c.errHist ∧
    c'.replyFrom = c.replyFrom ∧ c'.replyWrites = c.replyWrites

theorem stab_of_eq {s s' : State} {k : Nat} {c : Call} (hc : s.calls k = some c)
    (h : s'.calls k = s.calls k) : Stab c s' k :=
  ⟨c, h.trans hc, rfl, rfl, rfl, rfl⟩

/-- `g` leaves the result fields alone -/
def KeepsRes (g : Call → Call) : Prop :=
  ∀ c, (g c).signals = c.signals ∧ (g c).errHist = c.errHist ∧ (g c).replyFrom = c.replyFrom ∧
    (g c).replyWrites = c.replyWrites

theorem stab_updCall {c : Call} {t : State} {k : Nat} (h : Stab c t k) (j : Nat) {g : Call → Call}
    (hg : KeepsRes g) : Stab c (updCall t j g) k := by
  obtain ⟨c', hc', h1, h2, h3, h4⟩ := h
  by_cases hj : k = j
  · subst hj
    obtain ⟨g1, g2, g3, g4⟩ := hg c'
    exact ⟨g c', by simp [hc'], g1.trans h1, g2.trans h2, g3.trans h3, g4.trans h4⟩
  · exact ⟨c', by simp [hj, hc'], h1, h2, h3, h4⟩

theorem stab_popSend {c : Call} {t : State} {k : Nat} (h : Stab c t k) (j : Nat) :
    Stab c (popSend t j) k := by
  obtain ⟨c', hc', h⟩ := h
  exact ⟨c', by simp [hc'], h⟩

/-- the sweep leaves every call alone that is not registered in the pending table -/
theorem sweepAll_calls_of_not_pending (s : State) (e : Err) (j : Nat) (hnp : pendingTok s j = 0) :
    (sweepAll s e).calls j = s.calls j := by
  unfold sweepAll
  refine foldl_failCall_inv (fun t => t.calls j = s.calls j) e _ (fun t p hp ht => ?_) _ rfl
  have hne : j ≠ p.2 := by
    intro hj
    have hm : (p.1, p.2) ∈ s.pending := mem_sortBySeq hp
    have := cnt_pos_of_mem hm
    rw [pendingTok_eq, hj] at hnp
    omega
  simp [hne, ht]

theorem signalled_stable (s s' : State) (e : Ev) (hi : InvS s) (ha : AuxInv s) (hs : step s e = some s')
    (k : Nat) (c : Call) (hc : s.calls k = some c) (hsig : c.signals = 1) :
    ∃ c', s'.calls k = some c' ∧ c'.signals = 1 ∧ c'.errHist = c.errHist ∧ c'.replyFrom = c.replyFrom ∧
      c'.replyWrites = c.replyWrites := by
  obtain ⟨hd0, hs0, hp0, hf0⟩ := signalled_tokens hi hc hsig
  suffices h : Stab c s' k by
    obtain ⟨c', h1, h2, h3⟩ := h
    exact ⟨c', h1, h2.trans hsig, h3⟩
  have hS : Stab c s k := stab_of_eq hc rfl
  cases e with
  | start c0 =>
    simp only [step] at hs
    split at hs
    · cases hs
    · rename_i hn
      cases hs
      have hne : k ≠ c0.k := by
        rintro rfl
        simp [hc] at hn
      exact stab_of_eq hc (by simp [hne])
  | sendLock j =>
    simp only [step] at hs
    split at hs
    · rename_i cj hcj
      simp only [getCall_eq] at hcj
      split at hs
      · cases hs
      · rename_i hg
        have hph : cj.phase = .new := by
          simp at hg; exact hg.1
        have hne : k ≠ j := by
          rintro rfl
          rw [hc] at hcj; cases hcj
          simp [senderTok, hph] at hs0
        split at hs
        · cases hs; exact stab_of_eq hc (by simp [hne])
        · split at hs
          · cases hs; exact stab_of_eq hc (by simp [hne])
          · split at hs
            · cases hs; exact stab_of_eq hc (by simp [hne])
            · cases hs; exact stab_of_eq hc (by simp [hne])
    · cases hs
  | wret j ok =>
    simp only [step] at hs
    split at hs
    · split at hs
      · cases hs
      · split at hs
        · cases hs; exact stab_popSend (stab_updCall hS j (by intro _; exact ⟨rfl, rfl, rfl, rfl⟩)) j
        · cases hs; exact stab_updCall hS j (by intro _; exact ⟨rfl, rfl, rfl, rfl⟩)
    · cases hs
  | sendUnreg j =>
    simp only [step] at hs
    split at hs
    · split at hs
      · rename_i e q hph hsq
        have hS' : Stab c { s with pending := erase s.pending q } k := stab_of_eq hc rfl
        split at hs
        · cases hs; exact stab_updCall hS' j (by intro _; exact ⟨rfl, rfl, rfl, rfl⟩)
        · cases hs; exact stab_updCall hS j (by intro _; exact ⟨rfl, rfl, rfl, rfl⟩)
      · cases hs
    · cases hs
  | sendFail j =>
    simp only [step] at hs
    split at hs
    · rename_i cj hcj
      simp only [getCall_eq] at hcj
      split at hs
      · rename_i reg e hph
        cases hs
        cases reg
        · exact stab_popSend (stab_updCall hS j (by intro _; exact ⟨rfl, rfl, rfl, rfl⟩)) j
        · have hne : k ≠ j := by
            rintro rfl
            rw [hc] at hcj; cases hcj
            simp [senderTok, hph] at hs0
          exact stab_of_eq hc (by simp [hne])
      · cases hs
    · cases hs
  | brel j =>
    simp only [step] at hs
    split at hs
    · split at hs
      · cases hs; exact stab_updCall hS j (by intro _; exact ⟨rfl, rfl, rfl, rfl⟩)
      · cases hs
    · cases hs
  | wake j =>
    simp only [step] at hs
    split at hs
    · split at hs
      · cases hs
      · split at hs
        · cases hs
        · cases hs; exact stab_updCall hS j (by intro _; exact ⟨rfl, rfl, rfl, rfl⟩)
    · cases hs
  | cancel j =>
    simp only [step] at hs
    split at hs
    · split at hs
      · cases hs
      · split at hs
        · cases hs
        · cases hs; exact stab_updCall hS j (by intro _; exact ⟨rfl, rfl, rfl, rfl⟩)
    · cases hs
  | feed f =>
    simp only [step] at hs
    split at hs
    · cases hs
    · split at hs <;> (cases hs; exact hS)
  | rerr eof =>
    simp only [step] at hs
    split at hs
    · cases hs
    · cases hs; exact hS
  | seeClose =>
    simp only [step] at hs
    split at hs
    · cases hs; exact hS
    · cases hs
  | close =>
    simp only [step] at hs
    split at hs <;> (cases hs; exact hS)
  | closeSendQ =>
    simp only [step] at hs
    split at hs
    · cases hs
    · split at hs
      · cases hs
      · cases hs; exact hS
  | closeFinQ =>
    simp only [step] at hs
    split at hs
    · cases hs
    · split at hs
      · cases hs
      · cases hs; exact hS
  | decode => exact ⟨c, decode_frame s s' hs k c hc hp0, rfl, rfl, rfl, rfl⟩
  | finish j =>
    have hne : k ≠ j := by
      rintro rfl
      rw [finTok_eq] at hf0
      simp only [step] at hs
      split at hs
      · cases hs
      · split at hs
        · rename_i k' f hr
          split at hs
          · rename_i hk
            have hk : k' = k := by simpa using hk
            subst hk
            simp [hr] at hf0
          · cases hs
        · split at hs
          · split at hs
            · rename_i k' f rest hq
              split at hs
              · rename_i hk
                have hk : k' = k := by simpa using hk
                subst hk
                simp [hq] at hf0
              · cases hs
            · cases hs
          · split at hs
            · rename_i k1 f hfind
              have := (finCnt_pos_of_find hfind).1
              omega
            · cases hs
    exact stab_of_eq hc (finish_frame s s' j k hs hne)
  | runDone =>
    simp only [step] at hs
    split at hs
    · rename_i j rest hq
      cases hs
      have hne : k ≠ j := by
        rintro rfl
        simp [doneTok_eq, hq] at hd0
      exact stab_of_eq hc (by simp [hne])
    · cases hs
  | sweep =>
    simp only [step] at hs
    split at hs
    · rename_i e hr
      split at hs
      · cases hs
      · cases hs
        exact stab_of_eq hc (sweepAll_calls_of_not_pending s e k hp0)
    · cases hs

/-! ## projections of the helper operations on further fields -/

@[simp] theorem updCall_writes (s : State) (k : Nat) (f : Call → Call) : (updCall s k f).writes = s.writes := rfl
@[simp] theorem setErr_writes (s : State) (k : Nat) (e : Err) : (setErr s k e).writes = s.writes := rfl
@[simp] theorem signal_writes (s : State) (k : Nat) : (signal s k).writes = s.writes := by
  rcases signal_cases s k with h | h <;> rw [h] <;> rfl
@[simp] theorem hand_writes (s : State) (k : Nat) : (hand s k).writes = s.writes := by
  rcases hand_cases s k with h | h <;> rw [h]
@[simp] theorem complete_writes (s : State) (k : Nat) : (complete s k).writes = s.writes := by
  rcases complete_cases s k with ⟨hp, h⟩ | ⟨hp, h⟩ <;> rw [h] <;> simp
@[simp] theorem popSend_writes (s : State) (k : Nat) : (popSend s k).writes = s.writes := by
  rcases popSend_cases s k with h | h <;> rw [h]

/-! ## B. refusal after the end (C03) -/

theorem refused_after_end (s s' : State) (k : Nat) (c : Call) (hc : s.calls k = some c) (hp : c.phase = .new)
    (hend : s.shutdown = true ∨ s.closing = true) (hs : step s (.sendLock k) = some s') :
    s'.writes = s.writes ∧ s'.pending = s.pending ∧
      ∃ c', s'.calls k = some c' ∧ c'.errHist = c.errHist ++ [.shutdown] ∧ c'.phase = .sent ∧
        (s.cfg.pipe = false → c'.signals = c.signals + 1) ∧
        (s.cfg.pipe = true → s'.finQ = s.finQ ++ [.done k]) := by
  simp only [step, getCall_eq, hc] at hs
  split at hs
  · cases hs
  · have he : (s.shutdown || s.closing) = true := by
      rcases hend with h | h <;> simp [h]
    rw [if_pos he] at hs
    cases hs
    refine ⟨by simp, by simp, ?_⟩
    cases hpipe : s.cfg.pipe
    · exact ⟨{ c with errHist := c.errHist ++ [.shutdown], signals := c.signals + 1, phase := .sent,
                      goReturned := true }, by simp [hc, hpipe], rfl, rfl, fun _ => rfl, by simp⟩
    · exact ⟨{ c with errHist := c.errHist ++ [.shutdown], phase := .sent, goReturned := true },
        by simp [hc, hpipe], rfl, rfl, by simp, fun _ => by simp [hpipe]⟩

@[simp] theorem updCall_decodeQ (s : State) (k : Nat) (f : Call → Call) : (updCall s k f).decodeQ = s.decodeQ := rfl
@[simp] theorem setErr_decodeQ (s : State) (k : Nat) (e : Err) : (setErr s k e).decodeQ = s.decodeQ := rfl
@[simp] theorem signal_decodeQ (s : State) (k : Nat) : (signal s k).decodeQ = s.decodeQ := (untouched_signal s k).decodeQ
@[simp] theorem complete_decodeQ (s : State) (k : Nat) : (complete s k).decodeQ = s.decodeQ := (untouched_complete s k).decodeQ
@[simp] theorem popSend_decodeQ (s : State) (k : Nat) : (popSend s k).decodeQ = s.decodeQ := by
  rcases popSend_cases s k with h | h <;> rw [h]
@[simp] theorem finishCall_decodeQ (s : State) (k : Nat) (f : Frame) : (finishCall s k f).decodeQ = s.decodeQ :=
  (untouched_finishCall s k f).decodeQ
@[simp] theorem finishCall_reader (s : State) (k : Nat) (f : Frame) : (finishCall s k f).reader = s.reader :=
  (untouched_finishCall s k f).reader

def PostSweep (r : Reader) : Prop := r = .swept ∨ r = .wclosed ∨ r = .exited

/-- after the sweep the decode queue is empty -/
def SweptQ (s : State) : Prop := PostSweep s.reader → s.decodeQ = []

theorem sweptQ_of_same {s s' : State} (h : SweptQ s) (hr : s'.reader = s.reader) (hd : s'.decodeQ = s.decodeQ) :
    SweptQ s' := by
  unfold SweptQ; rw [hr, hd]; exact h

theorem sweptQ_of_not {s' : State} (hr : ¬ PostSweep s'.reader) : SweptQ s' := fun h => absurd h hr

theorem sweptQ_step {s s' : State} {e : Ev} (h : SweptQ s) (hs : step s e = some s') : SweptQ s' := by
  cases e with
  | feed f =>
    simp only [step] at hs
    split at hs
    · cases hs
    · rename_i hg
      have hr : s.reader = .waiting := by
        simp at hg; exact hg.1
      split at hs
      · cases hs; exact sweptQ_of_not (by simp [PostSweep])
      · cases hs; exact sweptQ_of_not (by simp [PostSweep, hr])
  | rerr eof =>
    simp only [step] at hs
    split at hs
    · cases hs
    · cases hs; exact sweptQ_of_not (by simp [PostSweep])
  | seeClose =>
    simp only [step] at hs
    split at hs
    · cases hs; exact sweptQ_of_not (by simp [PostSweep])
    · cases hs
  | decode =>
    simp only [step] at hs
    split at hs
    · split at hs
      · split at hs
        · cases hs; exact sweptQ_of_not (by simp [PostSweep])
        · cases hs; exact sweptQ_of_not (by simp [PostSweep])
      · cases hs
    · split at hs
      · rename_i f rest hq
        cases hs
        intro hps
        rw [readFrame_reader] at hps
        have := h hps
        rw [hq] at this; cases this
      · cases hs
  | finish k =>
    simp only [step] at hs
    split at hs
    · cases hs
    · split at hs
      · split at hs
        · cases hs; exact sweptQ_of_not (by simp [PostSweep])
        · cases hs
      · repeat' split at hs
        all_goals first | (cases hs; done) | (cases hs; exact sweptQ_of_same h (by simp) (by simp))
  | sweep =>
    simp only [step] at hs
    split at hs
    · rename_i e hr
      split at hs
      · cases hs
      · rename_i hq
        cases hs
        intro _
        have := (sweepAll_untouched s e).decodeQ
        simp only [sweepAll] at this
        simp only [this]
        simpa using hq
    · cases hs
  | closeSendQ =>
    simp only [step] at hs
    split at hs
    · cases hs
    · rename_i hg
      have hr : s.reader = .swept := by simpa using hg
      split at hs
      · cases hs
      · cases hs
        intro _
        exact h (Or.inl hr)
  | closeFinQ =>
    simp only [step] at hs
    split at hs
    · cases hs
    · rename_i hg
      have hr : s.reader = .wclosed := by simpa using hg
      split at hs
      · cases hs
      · cases hs
        intro _
        exact h (Or.inr (Or.inl hr))
  | _ =>
    simp only [step] at hs
    repeat' split at hs
    all_goals first | (cases hs; done) | (cases hs; exact sweptQ_of_same h (by simp) (by simp))

theorem sweptQ_init (cfg : Cfg) : SweptQ (init cfg) := fun _ => rfl

theorem sweptQ_accepts_from {s₀ : State} {tr : List Ev} {s : State} (h0 : SweptQ s₀)
    (h : Accepts s₀ tr s) : SweptQ s := by
  induction h with
  | nil s => exact h0
  | cons hstep _ ih => exact ih (sweptQ_step h0 hstep)

theorem swept_state {cfg : Cfg} {tr : List Ev} {s : State} (h : Accepts (init cfg) tr s)
    (hr : s.reader = .swept ∨ s.reader = .wclosed ∨ s.reader = .exited) :
    s.shutdown = true ∧ s.pending = [] ∧ s.decodeQ = [] := by
  have hsd := (inv_accepts h).2.2.1
  have hsh := hsd.2 hr
  exact ⟨hsh, hsd.1 hsh, sweptQ_accepts_from (sweptQ_init cfg) h hr⟩


/-! ## C. received responses are processed before the sweep (C03) -/

/-- every frame ReadMessage returned has been run through `readFrame` -/
def processedAll (s : State) : Prop := s.decodeQ = [] ∧ (∀ f, s.reader ≠ .decoding f)

theorem sweep_after_processing (s s' : State) (hm : ModeInv s) (hs : step s .sweep = some s') :
    processedAll s := by
  simp only [step] at hs
  split at hs
  · rename_i e hr
    split at hs
    · cases hs
    · rename_i hq
      exact ⟨by simpa using hq, fun f => by simp [hr]⟩
  · cases hs

/-! ## D. no caller hangs (C02 "at least once", C03) -/

/-- the events of the library's own threads (everything except the environment's moves) -/
def threadEvs (s : State) : List Ev :=
  [.seeClose, .decode, .runDone, .sweep, .closeSendQ, .closeFinQ] ++
    s.ids.flatMap (fun k => [.sendLock k, .sendUnreg k, .sendFail k, .finish k, .wake k])

/-- no thread of the library can move -/
def Quiescent (s : State) : Prop := ∀ e ∈ threadEvs s, step s e = none

/-- the environment holds no call at the write gate or the body gate -/
def NoGateHeld (s : State) : Prop := ∀ k c, s.calls k = some c → c.phase ≠ .atWrite ∧ c.holdB = false

theorem mem_threadEvs_id {s : State} {k : Nat} (hk : k ∈ s.ids) :
    .sendLock k ∈ threadEvs s ∧ .sendUnreg k ∈ threadEvs s ∧ .sendFail k ∈ threadEvs s ∧
    .finish k ∈ threadEvs s ∧ .wake k ∈ threadEvs s := by
  simp [threadEvs, hk]

theorem en_seeClose {s : State} (hr : s.reader = .waiting) (hm : s.msgsClosed = true) :
    step s .seeClose ≠ none := by
  simp [step, hr, hm]

theorem en_decodeD {s : State} {f : Frame} (hd : s.cfg.directIO = true) (hr : s.reader = .decoding f) :
    step s .decode ≠ none := by
  cases h : (readFrame s f).2 <;> simp [step, hd, hr, h]

theorem en_decodeQ {s : State} (hd : s.cfg.directIO = false) (hq : s.decodeQ ≠ []) :
    step s .decode ≠ none := by
  cases hq' : s.decodeQ with
  | nil => exact absurd hq' hq
  | cons f rest => simp [step, hd, hq']

theorem en_runDone {s : State} {k : Nat} {rest : List Task} (hq : s.finQ = .done k :: rest) :
    step s .runDone ≠ none := by
  simp [step, hq]

theorem en_sweep {s : State} {e : Err} (hr : s.reader = .ended e) (hq : s.decodeQ = []) :
    step s .sweep ≠ none := by
  simp [step, hr, hq]

theorem en_sendLock {s : State} {k : Nat} {c : Call} (hc : s.calls k = some c) (hp : c.phase = .new)
    (ht : sendTurn s k = true) : step s (.sendLock k) ≠ none := by
  simp only [step, getCall_eq, hc, hp, ht]
  repeat' split
  all_goals simp_all

theorem en_sendUnreg {s : State} {k q : Nat} {c : Call} {e : Err} (hc : s.calls k = some c)
    (hp : c.phase = .wfailed e) (hq : c.seq = some q) : step s (.sendUnreg k) ≠ none := by
  simp only [step, getCall_eq, hc, hp, hq]
  split <;> simp

theorem en_sendFail {s : State} {k : Nat} {c : Call} {reg : Bool} {e : Err} (hc : s.calls k = some c)
    (hp : c.phase = .failing reg e) : step s (.sendFail k) ≠ none := by
  simp [step, hc, hp]

theorem en_finishR {s : State} {k : Nat} {f : Frame} (hr : s.reader = .finishing k f)
    (hg : gateOpen s k = true) : step s (.finish k) ≠ none := by
  simp [step, hr, hg]

theorem en_finishQ {s : State} {k : Nat} {f : Frame} {rest : List Task} (hg : gateOpen s k = true)
    (hnf : ∀ k' f', s.reader ≠ .finishing k' f') (hp : s.cfg.pipe = true) (hq : s.finQ = .fin k f :: rest) :
    step s (.finish k) ≠ none := by
  cases hr : s.reader with
  | finishing k' f' => exact absurd hr (hnf k' f')
  | _ => simp [step, hg, hr, hp, hq]

theorem en_finishB {s : State} {k : Nat} {f : Frame} (hg : gateOpen s k = true)
    (hnf : ∀ k' f', s.reader ≠ .finishing k' f') (hp : s.cfg.pipe = false) (hm : .fin k f ∈ s.finBag) :
    step s (.finish k) ≠ none := by
  cases hr : s.reader with
  | finishing k' f' => exact absurd hr (hnf k' f')
  | _ =>
    simp only [step, hg, hr, hp]
    generalize hfd : List.find? _ s.finBag = r
    cases r with
    | none =>
      have := List.find?_eq_none.1 hfd _ hm
      simp at this
    | some t =>
      have := List.find?_some hfd
      cases t with
      | done d => simp at this
      | fin k1 f1 => simp

theorem en_wake {s : State} {k : Nat} {c : Call} (hc : s.calls k = some c) (ha : c.form.async = false)
    (hr : c.returned = false) (hsig : c.signals = 1) (hw : s.cfg.pipe = true ∨ c.phase = .sent) :
    step s (.wake k) ≠ none := by
  rcases hw with hw | hw <;> simp [step, hc, ha, hr, hsig, hw]

theorem mem_of_finCnt_pos {l : List Task} {k : Nat} (h : 0 < finCnt l k) : ∃ f, .fin k f ∈ l := by
  unfold finCnt at h
  obtain ⟨t, ht⟩ := List.exists_mem_of_length_pos h
  rw [List.mem_filter] at ht
  cases t with
  | done d => simp [isFin] at ht
  | fin k' f =>
    have : k' = k := by simpa [isFin] using ht.2
    subst this
    exact ⟨f, ht.1⟩

theorem ids_of_call {s : State} {k : Nat} {c : Call} (hi : InvS s) (hc : s.calls k = some c) : k ∈ s.ids :=
  (hi.1.2.2.2 k).2 (by simp [hc])

theorem ids_of_isSome {s : State} {k : Nat} (hi : InvS s) (hc : (s.calls k).isSome = true) : k ∈ s.ids :=
  (hi.1.2.2.2 k).2 hc

theorem q_gate {s : State} (hg : NoGateHeld s) (k : Nat) : gateOpen s k = true := by
  unfold gateOpen
  cases hc : s.calls k with
  | none => simp [hc]
  | some c => simp [hc, (hg k c hc).2]

section quiescent
variable {s : State} (hi : InvS s) (ha : AuxInv s) (hq : Quiescent s) (hg : NoGateHeld s)
include hi ha hq hg

theorem q_noFinishing (k : Nat) (f : Frame) : s.reader ≠ .finishing k f := by
  intro hr
  obtain ⟨_, _, c, hc, _⟩ := ha.2.2.1.1 k f (Or.inr (Or.inr hr))
  have hk := ids_of_call hi hc
  exact en_finishR hr (q_gate hg k) (hq _ (mem_threadEvs_id hk).2.2.2.1)

theorem q_finQ_nil : s.finQ = [] := by
  cases hfq : s.finQ with
  | nil => rfl
  | cons t rest =>
    exfalso
    cases t with
    | done j => exact en_runDone hfq (hq _ (by simp [threadEvs]))
    | fin j f =>
      have hp : s.cfg.pipe = true := by
        cases hp : s.cfg.pipe with
        | true => rfl
        | false => have := (ha.1.2.2.1 hp).1; rw [hfq] at this; cases this
      have hj : j ∈ s.ids := ids_of_isSome hi (ha.2.2.2.2.2.2.2.2.2 (.fin j f) (by simp [hfq]))
      exact en_finishQ (q_gate hg j) (q_noFinishing hi ha hq hg) hp hfq
        (hq _ (mem_threadEvs_id hj).2.2.2.1)

/-- at quiescence every sender has finished -/
theorem q_phase_head {k : Nat} {c : Call} (hc : s.calls k = some c)
    (ht : c.phase = .new → sendTurn s k = true) : c.phase = .sent := by
  have hk := mem_threadEvs_id (ids_of_call hi hc)
  cases hph : c.phase with
  | sent => rfl
  | new => exact absurd (hq _ hk.1) (en_sendLock hc hph (ht hph))
  | atWrite => exact absurd hph (hg k c hc).1
  | wfailed e =>
    have := ha.2.1.2 k c hc (by simp [hph]) (by simp [hph])
    obtain ⟨q, hq'⟩ := Option.isSome_iff_exists.1 this
    exact absurd (hq _ hk.2.1) (en_sendUnreg hc hph hq')
  | failing reg e => exact absurd (hq _ hk.2.2.1) (en_sendFail hc hph)

theorem q_sendQ_nil (hp : s.cfg.pipe = true) : s.sendQ = [] := by
  cases hsq : s.sendQ with
  | nil => rfl
  | cons h rest =>
    exfalso
    have hm : h ∈ s.sendQ := by simp [hsq]
    obtain ⟨ch, hch⟩ := Option.isSome_iff_exists.1 (ha.2.2.2.2.2.2.2.2.1 h hm)
    have hns : ch.phase ≠ .sent := ((ha.2.1.1 hp).1 h ch hch).2 hm
    exact hns (q_phase_head hi ha hq hg hch (fun _ => by simp [sendTurn, hp, hsq]))

theorem q_phase_sent {k : Nat} {c : Call} (hc : s.calls k = some c) : c.phase = .sent := by
  apply q_phase_head hi ha hq hg hc
  intro hph
  cases hp : s.cfg.pipe with
  | false => simp [sendTurn, hp]
  | true =>
    have hm : k ∈ s.sendQ := ((ha.2.1.1 hp).1 k c hc).1 (by simp [hph])
    rw [q_sendQ_nil hi ha hq hg hp] at hm
    cases hm

theorem q_completed (k : Nat) (c : Call) (hc : s.calls k = some c) :
    c.signals = 1 ∨ (pendingTok s k = 1 ∧ s.reader = .waiting ∧ s.msgsClosed = false) := by
  have htok := ((callInv_iff s k c).1 (hi.1.1 k c hc)).2.1
  have hst : senderTok c = 0 := by simp [senderTok, q_phase_sent hi ha hq hg hc]
  have hfq := q_finQ_nil hi ha hq hg
  have hnf := q_noFinishing hi ha hq hg
  have hd : doneTok s k = 0 := by simp [doneTok, hfq]
  have hrd : rdTok s.reader k = 0 := by
    cases hr : s.reader with
    | finishing k' f => exact absurd hr (hnf k' f)
    | _ => rfl
  have hbag : finCnt s.finBag k = 0 := by
    cases hz : finCnt s.finBag k with
    | zero => rfl
    | succ n =>
      exfalso
      obtain ⟨f, hf⟩ := mem_of_finCnt_pos (l := s.finBag) (k := k) (by omega)
      have hp : s.cfg.pipe = false := by
        cases hp : s.cfg.pipe with
        | false => rfl
        | true => have := ha.1.2.1 hp; rw [this] at hf; cases hf
      exact en_finishB (q_gate hg k) hnf hp hf (hq _ (mem_threadEvs_id (ids_of_call hi hc)).2.2.2.1)
  have hf : finTok s k = 0 := by rw [finTok_eq, hfq, hbag, hrd]; rfl
  by_cases hsig : c.signals = 1
  · exact Or.inl hsig
  · right
    have hpt : pendingTok s k = 1 := by omega
    refine ⟨hpt, ?_⟩
    have hpne : s.pending ≠ [] := by
      intro h; simp [pendingTok, h] at hpt
    have hpost : ¬ (s.reader = .swept ∨ s.reader = .wclosed ∨ s.reader = .exited) := fun h =>
      hpne (hi.1.2.2.1.1 (hi.1.2.2.1.2 h))
    cases hr : s.reader with
    | waiting =>
      refine ⟨rfl, ?_⟩
      cases hm : s.msgsClosed with
      | false => rfl
      | true => exact absurd (hq _ (by simp [threadEvs])) (en_seeClose hr hm)
    | decoding f =>
      exfalso
      have hd : s.cfg.directIO = true := by
        cases hd : s.cfg.directIO with
        | true => rfl
        | false => exact absurd hr (ha.1.2.2.2.1 hd f 0).1
      exact en_decodeD hd hr (hq _ (by simp [threadEvs]))
    | finishing k' f => exact absurd hr (hnf k' f)
    | ended e =>
      exfalso
      by_cases hdq : s.decodeQ = []
      · exact en_sweep hr hdq (hq _ (by simp [threadEvs]))
      · have hd : s.cfg.directIO = false := by
          cases hd : s.cfg.directIO with
          | false => rfl
          | true => exact absurd (ha.1.1 hd) hdq
        exact en_decodeQ hd hdq (hq _ (by simp [threadEvs]))
    | swept => exact absurd (Or.inl hr) hpost
    | wclosed => exact absurd (Or.inr (Or.inl hr)) hpost
    | exited => exact absurd (Or.inr (Or.inr hr)) hpost

theorem q_blocking_returned (k : Nat) (c : Call) (hc : s.calls k = some c)
    (hb : c.form.async = false) (hsig : c.signals = 1) : c.returned = true := by
  cases hr : c.returned with
  | true => rfl
  | false =>
    exact absurd (hq _ (mem_threadEvs_id (ids_of_call hi hc)).2.2.2.2)
      (en_wake hc hb hr hsig (Or.inr (q_phase_sent hi ha hq hg hc)))

end quiescent


/-- In a state where no thread can move and the environment holds no gate, every started call
    has been signalled, or is registered and waiting for its response on a live connection. -/
theorem quiescent_completed (s : State) (hi : InvS s) (ha : AuxInv s) (hq : Quiescent s) (hg : NoGateHeld s)
    (k : Nat) (c : Call) (hc : s.calls k = some c) :
    c.signals = 1 ∨ (pendingTok s k = 1 ∧ s.reader = .waiting ∧ s.msgsClosed = false) :=
  q_completed hi ha hq hg k c hc

/-- Blocking callers whose call was signalled have returned. -/
theorem quiescent_blocking_returned (s : State) (hi : InvS s) (ha : AuxInv s) (hq : Quiescent s)
    (hg : NoGateHeld s) (k : Nat) (c : Call) (hc : s.calls k = some c) (hb : c.form.async = false)
    (hsig : c.signals = 1) : c.returned = true :=
  q_blocking_returned hi ha hq hg k c hc hb hsig

/-! ## F. client encode failure leaves no residue (C06) -/

theorem erase_append_fresh {p : List (Nat × Nat)} {q k : Nat} (h : ∀ x ∈ p, x.1 < q) :
    erase (p ++ [(q, k)]) q = p := by
  unfold erase
  rw [List.filter_append]
  have h1 : p.filter (·.1 != q) = p := by
    rw [List.filter_eq_self]
    intro a ha
    have := h a ha
    simp; omega
  simp [h1]

theorem lookup_append_fresh {p : List (Nat × Nat)} {q k : Nat} (h : ∀ x ∈ p, x.1 < q) :
    lookup (p ++ [(q, k)]) q = some k := by
  unfold lookup
  rw [List.find?_append]
  have : p.find? (·.1 == q) = none := by
    rw [List.find?_eq_none]
    intro a ha
    have := h a ha
    simp; omega
  simp [this]

/-- the registering critical section of a send whose arguments cannot be encoded -/
theorem encfail_lock {s s1 : State} {k : Nat} {c : Call} (hc : s.calls k = some c) (hfe : c.failEnc = true)
    (hopen : s.shutdown = false ∧ s.closing = false) (h1 : step s (.sendLock k) = some s1) :
    s1.calls k = some { c with seq := some s.seq, phase := .wfailed .encfail } ∧
      s1.pending = s.pending ++ [(s.seq, k)] ∧ s1.writes = s.writes := by
  simp only [step, getCall_eq, hc] at h1
  split at h1
  · cases h1
  · simp [hopen.1, hopen.2] at h1
    subst h1
    exact ⟨by simp [hc], rfl, rfl⟩

/-- the error path's critical section removes the call's own registration -/
theorem unreg_own {s1 s2 : State} {k q : Nat} {c1 : Call} {e : Err} (hc : s1.calls k = some c1)
    (hp : c1.phase = .wfailed e) (hq : c1.seq = some q) (hl : lookup s1.pending q = some k)
    (h2 : step s1 (.sendUnreg k) = some s2) :
    s2.calls k = some { c1 with phase := .failing true e } ∧ s2.pending = erase s1.pending q ∧
      s2.writes = s1.writes := by
  simp only [step, getCall_eq, hc] at h2
  split at h2
  · rename_i e' q' hp' hq'
    rw [hp] at hp'; cases hp'
    rw [hq] at hq'; cases hq'
    simp [hl] at h2
    subst h2
    exact ⟨by simp [hc], rfl, rfl⟩
  · rename_i hno
    exact absurd hq (hno e q hp)

/-- the sender completes the call it unregistered -/
theorem fail_own {s2 s3 : State} {k : Nat} {c2 : Call} {e : Err} (hc : s2.calls k = some c2)
    (hp : c2.phase = .failing true e) (h3 : step s2 (.sendFail k) = some s3) :
    s3.pending = s2.pending ∧ s3.writes = s2.writes ∧
      ∃ c3, s3.calls k = some c3 ∧ c3.errHist = c2.errHist ++ [e] ∧ c3.phase = .sent ∧ c3.seq = c2.seq := by
  simp only [step, getCall_eq, hc] at h3
  split at h3
  · rename_i reg e' hp'
    rw [hp] at hp'; cases hp'
    cases h3
    refine ⟨by simp, by simp, ?_⟩
    cases hpipe : s2.cfg.pipe
    · exact ⟨{ c2 with errHist := c2.errHist ++ [e], signals := c2.signals + 1, phase := .sent,
                       goReturned := true }, by simp [hc, hpipe], rfl, rfl, rfl⟩
    · exact ⟨{ c2 with errHist := c2.errHist ++ [e], phase := .sent, goReturned := true },
        by simp [hc, hpipe], rfl, rfl, rfl⟩
  · rename_i hno
    exact absurd hp (hno true e)

/-- C06 (client half): after the three sender steps of a call whose arguments cannot be encoded,
    the pending table and the wire log are what they were before, and the call's Error history
    is exactly `[encfail]`. -/
theorem encfail_steps (s s1 s2 s3 : State) (k : Nat) (c : Call) (hi : InvS s)
    (hc : s.calls k = some c) (hp : c.phase = .new) (hfe : c.failEnc = true)
    (hopen : s.shutdown = false ∧ s.closing = false)
    (h1 : step s (.sendLock k) = some s1) (h2 : step s1 (.sendUnreg k) = some s2)
    (h3 : step s2 (.sendFail k) = some s3) :
    s3.pending = s.pending ∧ s3.writes = s.writes ∧
      ∃ c', s3.calls k = some c' ∧ c'.errHist = [.encfail] ∧ c'.phase = .sent ∧ c'.seq = some s.seq := by
  have hfresh : ∀ x ∈ s.pending, x.1 < s.seq := fun x hx => (hi.1.2.1.2 x.1 x.2 hx).1
  have herr : c.errHist = [] := by
    have := ((callInv_iff s k c).1 (hi.1.1 k c hc)).2.2
    have hst : senderTok c = 1 := by simp [senderTok, hp]
    exact List.eq_nil_of_length_eq_zero (by omega)
  obtain ⟨a1, a2, a3⟩ := encfail_lock hc hfe hopen h1
  have hl : lookup s1.pending s.seq = some k := by rw [a2]; exact lookup_append_fresh hfresh
  obtain ⟨b1, b2, b3⟩ := unreg_own a1 rfl rfl hl h2
  obtain ⟨d1, d2, c3, d3, d4, d5, d6⟩ := fail_own b1 rfl h3
  refine ⟨?_, by rw [d2, b3, a3], c3, d3, ?_, d5, d6⟩
  · rw [d1, b2, a2]; exact erase_append_fresh hfresh
  · rw [d4]; simp [herr]

theorem encfail_no_residue (s s1 s2 s3 : State) (k : Nat) (c : Call) (hi : InvS s) (ha : AuxInv s)
    (hc : s.calls k = some c) (hp : c.phase = .new) (hfe : c.failEnc = true)
    (hopen : s.shutdown = false ∧ s.closing = false)
    (h1 : step s (.sendLock k) = some s1) (h2 : step s1 (.sendUnreg k) = some s2)
    (h3 : step s2 (.sendFail k) = some s3) (hquiet : lookup s1.pending s.seq = some k) :
    s3.pending = s.pending ∧ s3.writes = s.writes :=
  have h := encfail_steps s s1 s2 s3 k c hi hc hp hfe hopen h1 h2 h3
  ⟨h.1, h.2.1⟩


end RpcVerif.K
