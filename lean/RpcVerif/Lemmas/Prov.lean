import RpcVerif.Model.Prov
/-  M: values handed over on copying paths are never written again. -/
namespace RpcVerif.M
open RpcVerif

/-- the inductive invariant: held values read as at hand-over, live in buffers below `next`
    that are neither pooled nor in use; pooled and in-use buffers are below `next` -/
structure Inv (s : State) : Prop where
  same : ∀ h, h ∈ s.held → s.mem h.1 = h.2
  apart : ∀ h, h ∈ s.held → h.1 ∉ s.pooled ∧ h.1 ∉ s.inUse ∧ h.1 < s.next
  below : (∀ b, b ∈ s.pooled → b < s.next) ∧ (∀ b, b ∈ s.inUse → b < s.next)

theorem inv_init : Inv {} where
  same := fun h hh => by cases hh
  apart := fun h hh => by cases hh
  below := by
    constructor
    · intro b hb; cases hb
    · intro b hb; cases hb

theorem mem_write_ne (s : State) (b x : Buf) (bytes : Bytes) (h : x ≠ b) : (write s b bytes).mem x = s.mem x := by
  simp [write, h]

theorem inv_step (s s' : State) (e : Ev) (hi : Inv s) (hc : copying e = true) (hs : step s e = some s') : Inv s' := by
  cases e with
  | readFresh bytes =>
    simp only [step, Option.some.injEq] at hs; subst hs
    refine ⟨?_, ?_, ?_⟩
    · intro h hh
      have hlt : h.1 < s.next := (hi.apart h hh).2.2
      show (write s s.next bytes).mem h.1 = h.2
      rw [mem_write_ne s s.next h.1 bytes (Nat.ne_of_lt hlt)]; exact hi.same h hh
    · intro h hh
      have this := hi.apart h hh
      have hlt : h.1 < s.next := this.2.2
      refine ⟨this.1, ?_, Nat.lt_succ_of_lt hlt⟩
      show h.1 ∉ s.next :: s.inUse
      simp only [List.mem_cons, not_or]; exact ⟨Nat.ne_of_lt hlt, this.2.1⟩
    · constructor
      · intro b hb; exact Nat.lt_succ_of_lt (hi.below.1 b hb)
      · intro b hb
        have hb' : b ∈ s.next :: s.inUse := hb
        simp only [List.mem_cons] at hb'
        rcases hb' with rfl | hb'
        · exact Nat.lt_succ_self _
        · exact Nat.lt_succ_of_lt (hi.below.2 b hb')
  | readPooled b bytes =>
    simp only [step] at hs
    split at hs
    · rename_i hp
      simp only [Option.some.injEq] at hs; subst hs
      have hbp : b ∈ s.pooled := by simpa using hp
      refine ⟨?_, ?_, ?_⟩
      · intro h hh
        have := hi.apart h hh
        have hne : h.1 ≠ b := fun e => this.1 (e ▸ hbp)
        show (write s b bytes).mem h.1 = h.2
        rw [mem_write_ne s b h.1 bytes hne]; exact hi.same h hh
      · intro h hh
        have := hi.apart h hh
        have hne : h.1 ≠ b := fun e => this.1 (e ▸ hbp)
        refine ⟨fun hm => this.1 (List.mem_of_mem_erase hm), ?_, this.2.2⟩
        show h.1 ∉ b :: s.inUse
        simp only [List.mem_cons, not_or]; exact ⟨hne, this.2.1⟩
      · constructor
        · intro x hx; exact hi.below.1 x (List.mem_of_mem_erase hx)
        · intro x hx
          have hx' : x ∈ b :: s.inUse := hx
          simp only [List.mem_cons] at hx'
          rcases hx' with rfl | hx'
          · exact hi.below.1 _ hbp
          · exact hi.below.2 x hx'
    · cases hs
  | handOver p b =>
    simp only [copying] at hc
    simp only [step] at hs
    split at hs
    · cases hs
    · simp only [Option.some.injEq] at hs; subst hs
      refine ⟨?_, ?_, ?_⟩
      · intro h hh
        have hh' : h ∈ (s.next, s.mem b) :: s.held := hh
        simp only [List.mem_cons] at hh'
        rcases hh' with rfl | hh'
        · show (write s s.next (s.mem b)).mem s.next = s.mem b
          simp [write]
        · have hlt : h.1 < s.next := (hi.apart h hh').2.2
          show (write s s.next (s.mem b)).mem h.1 = h.2
          rw [mem_write_ne s s.next h.1 _ (Nat.ne_of_lt hlt)]; exact hi.same h hh'
      · intro h hh
        have hh' : h ∈ (s.next, s.mem b) :: s.held := hh
        simp only [List.mem_cons] at hh'
        rcases hh' with rfl | hh'
        · refine ⟨fun hm => ?_, fun hm => ?_, Nat.lt_succ_self _⟩
          · exact Nat.lt_irrefl _ (hi.below.1 _ hm)
          · exact Nat.lt_irrefl _ (hi.below.2 _ hm)
        · have this := hi.apart h hh'
          exact ⟨this.1, this.2.1, Nat.lt_succ_of_lt this.2.2⟩
      · constructor
        · intro x hx; exact Nat.lt_succ_of_lt (hi.below.1 x hx)
        · intro x hx; exact Nat.lt_succ_of_lt (hi.below.2 x hx)
  | release b =>
    simp only [step] at hs
    split at hs
    · rename_i hu
      simp only [Option.some.injEq] at hs; subst hs
      have hbu : b ∈ s.inUse := by simpa using hu
      refine ⟨hi.same, ?_, ?_⟩
      · intro h hh
        have := hi.apart h hh
        have hne : h.1 ≠ b := fun e => this.2.1 (e ▸ hbu)
        refine ⟨?_, fun hm => this.2.1 (List.mem_of_mem_erase hm), this.2.2⟩
        show h.1 ∉ b :: s.pooled
        simp only [List.mem_cons, not_or]; exact ⟨hne, this.1⟩
      · constructor
        · intro x hx
          have hx' : x ∈ b :: s.pooled := hx
          simp only [List.mem_cons] at hx'
          rcases hx' with rfl | hx'
          · exact hi.below.2 _ hbu
          · exact hi.below.1 x hx'
        · intro x hx; exact hi.below.2 x (List.mem_of_mem_erase hx)
    · cases hs
  | userDrops i =>
    simp only [step, Option.some.injEq] at hs; subst hs
    have hsub : ∀ h, h ∈ s.held.eraseIdx i → h ∈ s.held := fun h hh => List.mem_of_mem_eraseIdx hh
    exact ⟨fun h hh => hi.same h (hsub h hh), fun h hh => hi.apart h (hsub h hh), hi.below⟩

theorem inv_run : ∀ (tr : List Ev) (s s' : State), Inv s → tr.all copying = true → run s tr = some s' → Inv s'
  | [], s, s', hi, _, hr => by simp only [run, Option.some.injEq] at hr; subst hr; exact hi
  | e :: es, s, s', hi, hc, hr => by
    simp only [List.all_cons, Bool.and_eq_true] at hc
    simp only [run] at hr
    cases hs : step s e with
    | none => rw [hs] at hr; cases hr
    | some s1 =>
      rw [hs] at hr
      exact inv_run es s1 s' (inv_step s s1 e hi hc.1 hs) hc.2 hr

/-- For every history of frames read, values handed over on copying paths, buffers released and
    reused: every value in user hands still reads exactly as at hand-over. -/
theorem unchanged_run (tr : List Ev) (s : State) (hc : tr.all copying = true) (hr : run {} tr = some s) : Unchanged s :=
  (inv_run tr {} s inv_init hc hr).same

/-- the caller's buffer: used iff the source's condition says so; the reply in front; nothing
    written beyond the reply's length; length of the buffer unchanged -/
theorem intoCallerBuffer_spec (buf reply : Bytes) :
    ((intoCallerBuffer buf reply).1 = true → (intoCallerBuffer buf reply).2.take reply.length = reply ∧
        (intoCallerBuffer buf reply).2.drop reply.length = buf.drop reply.length) ∧
    ((intoCallerBuffer buf reply).1 = false → (intoCallerBuffer buf reply).2 = buf) := by
  unfold intoCallerBuffer
  split <;> simp

end RpcVerif.M
