import RpcVerif.Lemmas.PoolReclaim
/-
  The hand-out window (C15 / D12 after the repair "being handed out is a use").

  (a) `getConn_stamps` / `getConn_handout`   whichever path of `getConn` hands a connection out, it has just been
                                             stamped (dial and dequeue paths with the caller's clock, the cursor path
                                             with `Transport.now`) and it is a member of the active list of its address;
  (b) `tick_spares_fresh`                    a housekeeping pass neither retires nor closes a connection of an active
                                             list that is not older than KeepAlive — busy or not (the complement of
                                             `tick_retires_stale`);
  (c) `handout_window_safe`                  so a pass that falls between `getConn` and the registration of the call
                                             leaves the connection alone, as long as it comes within KeepAlive of the
                                             hand-out;
  (d) non-vacuity examples on concrete runs (cursor path, dequeue path, tightness of the window).
-/
namespace RpcVerif.P
open RpcVerif

/-! ### (a) what `getConn` guarantees about the connection it hands out -/

/-- the connection `id` handed out in `s'` (from `s`): stamped, filed in the active list of `a`; frame -/
def Handed (s s' : State) (a clock id : Nat) : Prop :=
  (∃ p', s'.pcs id = some p' ∧ (p'.lastUse = clock ∨ p'.lastUse = s.now)) ∧
  (∃ cs cur, lk s'.active a = some (cs, cur) ∧ id ∈ cs) ∧
  s'.keepAlive = s.keepAlive ∧ s'.now = s.now ∧ s'.running = s.running ∧ s'.stopped = s.stopped

theorem lk_setA_same (t : State) (a : Nat) (v : List Nat × Nat) : lk (setA t a v).active a = some v := by
  fsimp; exact upd_same _ _ _

theorem handed_fod (s : State) (a clock : Nat) (cs : List Nat) (cur id : Nat)
    (hr : (match fromIdleOrDial s a clock with
      | some (s', id) => (setA s' a (cs ++ [id], cur), some id)
      | none => ((match lookupI s a with | some (_ :: rest) => setI s a rest | _ => s), none)).2 = some id) :
    Handed s (match fromIdleOrDial s a clock with
      | some (s', id) => (setA s' a (cs ++ [id], cur), some id)
      | none => ((match lookupI s a with | some (_ :: rest) => setI s a rest | _ => s), none)).1 a clock id := by
  rcases fod_cases s a clock with ⟨id0, rest, hI, hal, hf⟩ | ⟨id0, rest, hI, hal, hu, hf⟩ |
    ⟨id0, rest, hI, hal, hu, hf⟩ | ⟨hI, hu, hf⟩ | ⟨hI, hu, hf⟩
  · rw [hf] at hr ⊢
    simp only [Option.some.injEq] at hr ⊢
    subst hr
    obtain ⟨p, hp, _⟩ := alive_some s id0 hal
    refine ⟨⟨{ p with lastUse := clock }, ?_, Or.inl rfl⟩, ⟨_, cur, lk_setA_same _ a _, by simp⟩, rfl, rfl, rfl, rfl⟩
    fsimp; simp [hp]
  · rw [hf] at hr ⊢
    simp only [Option.some.injEq] at hr ⊢
    subst hr
    refine ⟨⟨{ id := s.nextId, addr := a, lastUse := clock }, ?_, Or.inl rfl⟩,
      ⟨_, cur, lk_setA_same _ a _, by simp⟩, rfl, rfl, rfl, rfl⟩
    fsimp; simp
  · rw [hf] at hr; cases hr
  · rw [hf] at hr ⊢
    simp only [Option.some.injEq] at hr ⊢
    subst hr
    refine ⟨⟨{ id := s.nextId, addr := a, lastUse := clock }, ?_, Or.inl rfl⟩,
      ⟨_, cur, lk_setA_same _ a _, by simp⟩, rfl, rfl, rfl, rfl⟩
    fsimp; simp
  · rw [hf] at hr; cases hr

theorem handed_getConnCore (s : State) (a clock id : Nat) (hr : (getConnCore s a clock).2 = some id) :
    Handed s (getConnCore s a clock).1 a clock id := by
  unfold getConnCore at hr ⊢
  cases hA : lookupA s a with
  | none =>
    rw [hA] at hr
    exact handed_fod s a clock [] 0 id hr
  | some v =>
    obtain ⟨cs, cur⟩ := v
    rw [hA] at hr
    simp only at hr ⊢
    split at hr
    · next hlt => rw [if_pos hlt]; exact handed_fod s a clock cs cur id hr
    · next hlt =>
      rw [if_neg hlt]
      cases hi : cs[Gen.cursorNext cur cs.length]? with
      | none => rw [hi] at hr; cases hr
      | some id0 =>
        rw [hi] at hr
        simp only at hr ⊢
        have hal0 : isAlive (setA s a (cs, Gen.cursorNext cur cs.length)) id0 = isAlive s id0 := rfl
        rw [hal0] at hr ⊢
        cases hal : isAlive s id0 with
        | true =>
          rw [hal] at hr
          simp only [if_true, Option.some.injEq] at hr ⊢
          subst hr
          obtain ⟨p, hp, _⟩ := alive_some s id0 hal
          have hmem : id0 ∈ cs := List.mem_of_getElem? hi
          refine ⟨⟨{ p with lastUse := s.now }, ?_, Or.inr rfl⟩,
            ⟨cs, _, lk_setA_same s a _, hmem⟩, rfl, rfl, rfl, rfl⟩
          fsimp; simp [hp]
        | false =>
          rw [hal] at hr
          simp only [Bool.false_eq_true, if_false] at hr ⊢
          rw [dial_eq, setA_up, setA_nextId] at hr ⊢
          cases hu : s.up a with
          | false => rw [hu] at hr; cases hr
          | true =>
            rw [hu] at hr
            simp only [if_true, Option.some.injEq] at hr ⊢
            subst hr
            obtain ⟨l1, l2, e1, e2⟩ := getElem?_split cs _ id0 hi
            refine ⟨⟨{ id := s.nextId, addr := a, lastUse := clock }, ?_, Or.inl rfl⟩,
              ⟨_, _, lk_setA_same _ a _, by rw [e2]; simp⟩, rfl, rfl, rfl, rfl⟩
            fsimp; simp

theorem handed_getConn (s : State) (a clock id : Nat) (hr : (getConn s a clock).2 = some id) :
    Handed (pre s clock) (getConn s a clock).1 a clock id := by
  rw [getConn_eq] at hr ⊢
  exact handed_getConnCore (pre s clock) a clock id hr

/-- (a), full form. The connection handed out by `getConn` (on any path) exists, has just been stamped — with the
    caller's `clock` on the dial and dequeue paths, with `Transport.now` on the cursor path —, is a member of the
    active list of `a`; the housekeeping goroutine is running and KeepAlive is unchanged. -/
theorem getConn_handout (s s' : State) (a clock id : Nat) (hg : getConn s a clock = (s', some id)) :
    (∃ p', s'.pcs id = some p' ∧ (p'.lastUse = clock ∨ p'.lastUse = s'.now)) ∧
    (∃ cs cur, (a, cs, cur) ∈ s'.active ∧ id ∈ cs) ∧
    s'.keepAlive = s.keepAlive ∧ s'.running = true ∧ s'.stopped = s.stopped ∧
    s'.now = (if s.running then s.now else clock) := by
  have e1 : (getConn s a clock).1 = s' := by rw [hg]
  have e2 : (getConn s a clock).2 = some id := by rw [hg]
  obtain ⟨⟨p', hp', hl⟩, ⟨cs, cur, hA, hid⟩, h3, h4, h5, h6⟩ := handed_getConn s a clock id e2
  rw [e1] at hp' hA h3 h4 h5 h6
  refine ⟨⟨p', hp', ?_⟩, ⟨cs, cur, lk_some_mem _ _ _ hA, hid⟩, ?_, ?_, ?_, ?_⟩
  · rw [h4]; exact hl
  · rw [h3, pre_keepAlive]
  · rw [h5, pre_running]
  · rw [h6, pre_stopped]
  · rw [h4]; unfold pre; split <;> rfl

/-- (a) `getConn` stamps what it hands out. (`Inv s` is not needed; it is kept for uniformity with (c).) -/
theorem getConn_stamps (s s' : State) (_h : Inv s) (a clock id : Nat) (hg : getConn s a clock = (s', some id)) :
    ∃ p', s'.pcs id = some p' ∧ (p'.lastUse = clock ∨ p'.lastUse = s'.now) :=
  (getConn_handout s s' a clock id hg).1

/-! ### (b) a pass spares the connections of the active lists that are not older than KeepAlive -/

theorem keep_inner (G : Nat → State × List Nat → Nat → State × List Nat) (R : State → Prop) (id a : Nat)
    (hG : ∀ st j, R st.1 → R (G a st j).1 ∧ (id ∈ st.2 → id ∈ (G a st j).2) ∧ (j = id → id ∈ (G a st j).2))
    (rem : List Nat) : ∀ (st : State × List Nat), R st.1 →
      R (rem.foldl (G a) st).1 ∧ (id ∈ st.2 ∨ id ∈ rem → id ∈ (rem.foldl (G a) st).2) := by
  induction rem with
  | nil => intro st h; exact ⟨h, fun h' => h'.elim (fun x => x) (fun x => by cases x)⟩
  | cons j rem ih =>
    intro st h
    rw [List.foldl_cons]
    obtain ⟨g1, g2, g3⟩ := hG st j h
    obtain ⟨i1, i2⟩ := ih _ g1
    refine ⟨i1, fun h' => i2 ?_⟩
    rcases h' with h' | h'
    · left; exact g2 h'
    · rcases List.mem_cons.1 h' with h' | h'
      · left; exact g3 h'.symm
      · right; exact h'

/-- `spare_fold` with a general property `R` of the state carried through the sweep -/
theorem keep_fold (G : Nat → State × List Nat → Nat → State × List Nat) (R : State → Prop) (id a0 : Nat)
    (hG : ∀ a st j, R st.1 → R (G a st j).1 ∧ (id ∈ st.2 → id ∈ (G a st j).2) ∧ (j = id → id ∈ (G a st j).2))
    (hV : ∀ s a L cur, R s → R (virt s a L cur))
    (Gact : ∀ a st j, (G a st j).1.active = st.1.active)
    (l : List (Nat × List Nat × Nat)) : ∀ (s : State), (keys l).Nodup →
      (∀ a cs cur, (a, cs, cur) ∈ l → lk s.active a = some (cs, cur)) → R s →
      (∃ cs cur, lk s.active a0 = some (cs, cur) ∧ id ∈ cs) →
      R (l.foldl (sweepStep G) s) ∧
        ∃ cs cur, lk (l.foldl (sweepStep G) s).active a0 = some (cs, cur) ∧ id ∈ cs := by
  induction l with
  | nil => intro s _ _ hp hI; exact ⟨hp, hI⟩
  | cons e l ih =>
    intro s hn hl hp hI
    obtain ⟨a, cs, cur⟩ := e
    rw [List.foldl_cons]
    simp only [keys, List.map_cons, List.nodup_cons] at hn
    have hA := hl a cs cur List.mem_cons_self
    obtain ⟨i1, i2⟩ := keep_inner G R id a (hG a) cs (s, []) hp
    apply ih _ hn.2
    · intro b cs' cur' hm
      have hb : b ≠ a := fun e => hn.1 (e ▸ mem_keys l b _ hm)
      show lk (virt _ a _ cur).active b = _
      rw [virt_active _ _ _ _ _ hb, sweep_inner_active G a (Gact a)]
      exact hl b cs' cur' (List.mem_cons_of_mem _ hm)
    · exact hV _ _ _ _ i1
    · show ∃ cs' cur', lk (virt _ a _ cur).active a0 = _ ∧ _
      by_cases e : a0 = a
      · subst e
        obtain ⟨cs0, cur0, h1, h2⟩ := hI
        rw [hA] at h1; injection h1 with h1; injection h1 with h1 h1'; subst h1
        have hm := i2 (Or.inr h2)
        rw [virt_active_same]
        refine ⟨_, cur, ?_, hm⟩
        unfold vx
        cases hk : (List.foldl (G a0) (s, []) cs).2 with
        | nil => rw [hk] at hm; cases hm
        | cons x xs => rfl
      · rw [virt_active _ _ _ _ _ e, sweep_inner_active G a (Gact a)]
        exact hI

/-- the record of `id` and KeepAlive, carried through the sweep -/
def FreshR (id : Nat) (p : PConn) (K : Nat) (s : State) : Prop := s.pcs id = some p ∧ s.keepAlive = K

theorem tick_fresh_G (clock id : Nat) (p : PConn) (K : Nat) (hfresh : clock ≤ p.lastUse + K)
    (a : Nat) (st : State × List Nat) (j : Nat) (hR : FreshR id p K st.1) :
    FreshR id p K (tickActiveOne st.1 a clock st.2 j).1 ∧
      (id ∈ st.2 → id ∈ (tickActiveOne st.1 a clock st.2 j).2) ∧
      (j = id → id ∈ (tickActiveOne st.1 a clock st.2 j).2) := by
  obtain ⟨s, acc⟩ := st
  obtain ⟨hp, hK⟩ := hR
  simp only at hp hK ⊢
  have hK' : (tickActiveOne s a clock acc j).1.keepAlive = K := (tao_keepAlive s a clock acc j).1.trans hK
  suffices h : (tickActiveOne s a clock acc j).1.pcs id = some p ∧
      (id ∈ acc → id ∈ (tickActiveOne s a clock acc j).2) ∧ (j = id → id ∈ (tickActiveOne s a clock acc j).2) from
    ⟨⟨h.1, hK'⟩, h.2⟩
  unfold tickActiveOne
  rw [getPc_eq]
  cases hj : s.pcs j with
  | none =>
    simp only
    exact ⟨hp, fun h => h, fun e => by rw [e, hp] at hj; cases hj⟩
  | some pj =>
    simp only
    have hne : (pj.lastUse + s.keepAlive < clock && (pj.calls == 0 || !Gen.runSparesBusy)) = true → j ≠ id := by
      intro hc e
      rw [e, hp] at hj; injection hj with hj; subst hj
      rw [Bool.and_eq_true, decide_eq_true_eq, hK] at hc
      omega
    split
    · next hc =>
      have hji := hne hc
      have hij : id ≠ j := fun e => hji e.symm
      split
      · split
        · refine ⟨?_, fun h => h, fun e => absurd e hji⟩
          rw [closePc_eq, updPc_pcs]; simp [hij, hp]
        · exact ⟨hp, fun h => h, fun e => absurd e hji⟩
      · exact ⟨hp, fun h => h, fun e => absurd e hji⟩
    · exact ⟨hp, fun h => List.mem_append_left _ h, fun e => by rw [e]; simp⟩

theorem freshR_virt (id : Nat) (p : PConn) (K : Nat) (s : State) (a : Nat) (L : List Nat) (cur : Nat)
    (h : FreshR id p K s) : FreshR id p K (virt s a L cur) := by
  refine ⟨by rw [virt_pcs]; exact h.1, ?_⟩
  rw [(fr_virt s a L cur).2.1]; exact h.2

/-- (b), with the address: a connection of the active list of `a` that is not older than KeepAlive at this pass
    (`clock ≤ lastUse + KeepAlive`) keeps its record unchanged (in particular `isOpen`, `lastUse`, `calls`) and stays
    in the active list of `a` — whether or not a call is outstanding on it, whether or not housekeeping runs. -/
theorem tick_spares_fresh_at (s : State) (h : Inv s) (clock id : Nat) (p : PConn) (hp : s.pcs id = some p)
    (hfresh : clock ≤ p.lastUse + s.keepAlive) (a : Nat) (hact : ∃ cs cur, (a, cs, cur) ∈ s.active ∧ id ∈ cs) :
    (tick s clock).pcs id = some p ∧ ∃ cs cur, (a, cs, cur) ∈ (tick s clock).active ∧ id ∈ cs := by
  have h2 := inv2_of_inv s h
  unfold tick
  split
  · exact ⟨hp, hact⟩
  · obtain ⟨cs, cur, hm, hid⟩ := hact
    have hA : lk s.active a = some (cs, cur) := mem_lk _ h2.1 _ _ hm
    have h2' : Inv2 { s with now := clock } := h2
    have ht := inv2_tickActive _ h2' clock
    rw [tickActive_eq] at ht
    obtain ⟨t1, t2⟩ := keep_fold (fun a st id => tickActiveOne st.1 a clock st.2 id) (FreshR id p s.keepAlive) id a
      (fun a st j => tick_fresh_G clock id p s.keepAlive hfresh a st j)
      (fun s a L cur hR => freshR_virt id p _ s a L cur hR)
      (fun a st j => tick_Gact clock a st j)
      s.active { s with now := clock } h2.1 (fun _ _ _ hm => mem_lk _ h2.1 _ _ hm) ⟨hp, rfl⟩ ⟨cs, cur, hA, hid⟩
    rw [tickActive_eq]
    obtain ⟨r1, r2⟩ := spare_tickIdle a id clock _ ht t2
    refine ⟨r1.trans t1.1, ?_⟩
    obtain ⟨cs', cur', hA', hid'⟩ := t2
    refine ⟨cs', cur', ?_, hid'⟩
    rw [r2]
    exact lk_some_mem _ _ _ hA'

/-- (b) C15, the complement of `tick_retires_stale`: a connection of an active list that is not older than
    KeepAlive is neither retired nor closed by the pass; `p.calls` is arbitrary. -/
theorem tick_spares_fresh (s : State) (h : Inv s) (clock id : Nat) (p : PConn) (hp : s.pcs id = some p)
    (hfresh : clock ≤ p.lastUse + s.keepAlive) (hact : ∃ a cs cur, (a, cs, cur) ∈ s.active ∧ id ∈ cs) :
    ∃ p', (tick s clock).pcs id = some p' ∧ p'.isOpen = p.isOpen ∧
      (∃ a cs cur, (a, cs, cur) ∈ (tick s clock).active ∧ id ∈ cs) := by
  obtain ⟨a, hact⟩ := hact
  obtain ⟨h1, h2⟩ := tick_spares_fresh_at s h clock id p hp hfresh a hact
  exact ⟨p, h1, rfl, a, h2⟩

/-! ### (c) the hand-out window -/

/-- (c) A housekeeping pass at time `clock'` that falls after `getConn` has handed out connection `id` (and before
    anything else touches it, e.g. before the call is registered) neither retires nor closes it, provided the pass
    comes within KeepAlive of both the caller's clock and `Transport.now` at the hand-out: the record of `id` is
    unchanged by the pass and `id` is still in the active list of `a`. -/
theorem handout_window_safe (s s' : State) (h : Inv s) (a clock id : Nat) (hg : getConn s a clock = (s', some id))
    (clock' : Nat) (h1 : clock' ≤ clock + s'.keepAlive) (h2 : clock' ≤ s'.now + s'.keepAlive) :
    ∃ p', s'.pcs id = some p' ∧ (tick s' clock').pcs id = some p' ∧
      isOpenId (tick s' clock') id = isOpenId s' id ∧
      ∃ cs cur, (a, cs, cur) ∈ (tick s' clock').active ∧ id ∈ cs := by
  have hs' : Inv s' := by
    have := inv_step s (.getConn a clock) h
    have e : step s (.getConn a clock) = s' := by show (getConn s a clock).1 = s'; rw [hg]
    rw [e] at this; exact this
  obtain ⟨⟨p', hp', hl⟩, hact, _⟩ := getConn_handout s s' a clock id hg
  have hfresh : clock' ≤ p'.lastUse + s'.keepAlive := by
    rcases hl with e | e <;> rw [e] <;> assumption
  obtain ⟨t1, t2⟩ := tick_spares_fresh_at s' hs' clock' id p' hp' hfresh a hact
  refine ⟨p', hp', t1, ?_, t2⟩
  unfold isOpenId
  rw [getPc_eq, getPc_eq, t1, hp']

/-! ### (d) non-vacuity

  Limits: MaxConnsPerHost 1, MaxIdleConnsPerHost 1, KeepAlive 120, IdleConnTimeout 480. -/

/-- one connection to address 0 dialed at time 0; a pass at time 100 (`now = 100`) keeps it -/
def exW : State := run (init 1 1 120 480) [.getConn 0 0, .tick 100]

/-- the cursor path at caller's clock 110: connection 0 is handed out and stamped with `now = 100` (not 110) -/
example : (getConn exW 0 110).2 = some 0 ∧ (getConn exW 0 110).1.now = 100 ∧
    (getConn exW 0 110).1.pcs 0 = some { id := 0, addr := 0, lastUse := 100 } ∧
    (0, [0], 0) ∈ (getConn exW 0 110).1.active := by decide

example : ∃ p', (getConn exW 0 110).1.pcs 0 = some p' ∧ (p'.lastUse = 110 ∨ p'.lastUse = (getConn exW 0 110).1.now) :=
  getConn_stamps exW _ (inv_run 1 1 120 480 _) 0 110 0 (Prod.ext rfl (by decide))

/-- the window on the cursor path: passes up to `now + KeepAlive = 220` leave connection 0 (no call registered yet)
    in the active list, open … -/
example : (tick (getConn exW 0 110).1 220).active = [(0, [0], 0)] ∧ isOpenId (tick (getConn exW 0 110).1 220) 0 = true := by
  decide

example : ∃ p', (getConn exW 0 110).1.pcs 0 = some p' ∧ (tick (getConn exW 0 110).1 220).pcs 0 = some p' ∧
    isOpenId (tick (getConn exW 0 110).1 220) 0 = isOpenId (getConn exW 0 110).1 0 ∧
    ∃ cs cur, (0, cs, cur) ∈ (tick (getConn exW 0 110).1 220).active ∧ 0 ∈ cs :=
  handout_window_safe exW _ (inv_run 1 1 120 480 _) 0 110 0 (Prod.ext rfl (by decide)) 220 (by decide) (by decide)

/-- … and the window is tight: the pass at 221 retires it (it would be spared by the first hypothesis of (c) alone,
    221 ≤ 110 + 120: on the cursor path the stamp is `now`, so the second hypothesis is the one that matters). -/
example : (221 ≤ 110 + (getConn exW 0 110).1.keepAlive) ∧ ¬ (221 ≤ (getConn exW 0 110).1.now + (getConn exW 0 110).1.keepAlive) ∧
    (tick (getConn exW 0 110).1 221).active = [] ∧ (tick (getConn exW 0 110).1 221).idle = [(0, [0])] := by decide

/-- without the stamp the same connection (last used at 0) is stale at the pass at 220: this is what the repair
    prevents (the state before the hand-out, same pass) -/
example : exW.pcs 0 = some { id := 0, addr := 0 } ∧ (tick exW 220).active = [] ∧ (tick exW 220).idle = [(0, [0])] := by
  decide

/-- (b) on a connection with no call outstanding and on a busy one -/
example : ∃ p', (tick exW 120).pcs 0 = some p' ∧ p'.isOpen = true ∧
    (∃ a cs cur, (a, cs, cur) ∈ (tick exW 120).active ∧ 0 ∈ cs) :=
  tick_spares_fresh exW (inv_run 1 1 120 480 _) 120 0 { id := 0, addr := 0 } (by decide) (by decide)
    ⟨0, [0], 0, by decide, by decide⟩

example : (step exW (.callBegin 0)).pcs 0 = some { id := 0, addr := 0, calls := 1 } ∧
    (tick (step exW (.callBegin 0)) 120).active = [(0, [0], 0)] := by decide

/-- the dequeue path: connection 0, retired at time 300, is taken back at caller's clock 400 and stamped with 400
    while `now` is still 300; here the first hypothesis of (c) does not matter and the second does
    (passes up to 300 + 120 = 420 are covered by (c); the connection itself is fresh until 520) -/
def exQ : State := run (init 1 1 120 480) [.getConn 0 0, .tick 300]

example : exQ.idle = [(0, [0])] ∧ exQ.active = [] ∧ (getConn exQ 0 400).2 = some 0 ∧ (getConn exQ 0 400).1.now = 300 ∧
    (getConn exQ 0 400).1.pcs 0 = some { id := 0, addr := 0, lastUse := 400 } ∧
    (tick (getConn exQ 0 400).1 420).active = [(0, [0], 0)] ∧ (tick (getConn exQ 0 400).1 520).active = [(0, [0], 0)] ∧
    (tick (getConn exQ 0 400).1 521).active = [] := by decide

example : ∃ p', (getConn exQ 0 400).1.pcs 0 = some p' ∧ (tick (getConn exQ 0 400).1 420).pcs 0 = some p' ∧
    isOpenId (tick (getConn exQ 0 400).1 420) 0 = isOpenId (getConn exQ 0 400).1 0 ∧
    ∃ cs cur, (0, cs, cur) ∈ (tick (getConn exQ 0 400).1 420).active ∧ 0 ∈ cs :=
  handout_window_safe exQ _ (inv_run 1 1 120 480 _) 0 400 0 (Prod.ext rfl (by decide)) 420 (by decide) (by decide)

end RpcVerif.P
