import RpcVerif.Model.PoolInv
/-
  Proofs of the invariants of P (the Transport connection pool) and of the properties C13/C14/C15.

  Method: the invariant `Inv` (stated on the association lists) is equivalent to `Inv2`, stated on
  the "view" of the state (`lookupA`, `lookupI`, `pcs`); every operation of the model acts
  pointwise on the view, so preservation is proved on views (`VInv`) by one general lemma.
-/
namespace RpcVerif.P
open RpcVerif

/-! ### association lists -/

def lk {β : Type} (l : List (Nat × β)) (a : Nat) : Option β := (l.find? (·.1 == a)).map (·.2)

def lset {β : Type} (l : List (Nat × β)) (a : Nat) (v : β) : List (Nat × β) :=
  if (l.any (·.1 == a)) then l.map (fun e => if e.1 == a then (a, v) else e) else l ++ [(a, v)]

def ldel {β : Type} (l : List (Nat × β)) (a : Nat) : List (Nat × β) := l.filter (·.1 != a)

def keys {β : Type} (l : List (Nat × β)) : List Nat := l.map (·.1)

theorem lk_nil {β : Type} (a : Nat) : lk ([] : List (Nat × β)) a = none := rfl

theorem lk_cons {β : Type} (k : Nat) (v : β) (l : List (Nat × β)) (a : Nat) :
    lk ((k, v) :: l) a = if k = a then some v else lk l a := by
  unfold lk
  by_cases h : k = a <;> simp [h]

theorem lk_none_iff {β : Type} (l : List (Nat × β)) (a : Nat) : lk l a = none ↔ a ∉ keys l := by
  induction l with
  | nil => simp [lk_nil, keys]
  | cons e l ih =>
    obtain ⟨k, v⟩ := e
    rw [lk_cons]
    by_cases h : k = a
    · simp [h, keys]
    · simp only [h, if_false, ih, keys, List.map_cons, List.mem_cons, not_or]
      constructor
      · intro h2; exact ⟨fun h3 => h h3.symm, h2⟩
      · intro h2; exact h2.2

theorem lk_some_mem {β : Type} (l : List (Nat × β)) (a : Nat) (v : β) (h : lk l a = some v) : (a, v) ∈ l := by
  induction l with
  | nil => simp [lk_nil] at h
  | cons e l ih =>
    obtain ⟨k, w⟩ := e
    rw [lk_cons] at h
    by_cases hk : k = a
    · simp [hk] at h; subst hk; subst h; exact List.mem_cons_self
    · simp [hk] at h; exact List.mem_cons_of_mem _ (ih h)

theorem mem_keys {β : Type} (l : List (Nat × β)) (a : Nat) (v : β) (h : (a, v) ∈ l) : a ∈ keys l := by
  unfold keys; exact List.mem_map.2 ⟨(a, v), h, rfl⟩

theorem mem_lk {β : Type} (l : List (Nat × β)) (hn : (keys l).Nodup) (a : Nat) (v : β) (h : (a, v) ∈ l) :
    lk l a = some v := by
  induction l with
  | nil => simp at h
  | cons e l ih =>
    obtain ⟨k, w⟩ := e
    rw [lk_cons]
    simp only [keys, List.map_cons, List.nodup_cons] at hn
    rcases List.mem_cons.1 h with h1 | h1
    · injection h1 with h2 h3; subst h2; subst h3; simp
    · have : a ∈ keys l := mem_keys l a v h1
      have hk : k ≠ a := fun hk => hn.1 (hk ▸ this)
      simp only [hk, if_false]
      exact ih hn.2 h1

theorem mem_iff_lk {β : Type} (l : List (Nat × β)) (hn : (keys l).Nodup) (a : Nat) (v : β) :
    (a, v) ∈ l ↔ lk l a = some v := ⟨mem_lk l hn a v, lk_some_mem l a v⟩

theorem lk_append {β : Type} (l l' : List (Nat × β)) (a : Nat) : lk (l ++ l') a = (lk l a).or (lk l' a) := by
  induction l with
  | nil => simp [lk_nil]
  | cons e l ih =>
    obtain ⟨k, w⟩ := e
    rw [List.cons_append, lk_cons, lk_cons]
    by_cases hk : k = a <;> simp [hk, ih]

theorem lk_repl_ne {β : Type} (l : List (Nat × β)) (a : Nat) (v : β) (b : Nat) (hb : ¬ b = a) :
    lk (l.map (fun e => if e.1 == a then (a, v) else e)) b = lk l b := by
  induction l with
  | nil => rfl
  | cons e l ih =>
    obtain ⟨k, w⟩ := e
    have hab : ¬ a = b := fun h => hb h.symm
    by_cases hk : k = a
    · subst hk
      simp [lk_cons, hab] at ih ⊢; exact ih
    · simp [hk, lk_cons] at ih ⊢; rw [ih]

theorem lk_repl_eq {β : Type} (l : List (Nat × β)) (a : Nat) (v : β) (h : a ∈ keys l) :
    lk (l.map (fun e => if e.1 == a then (a, v) else e)) a = some v := by
  induction l with
  | nil => simp [keys] at h
  | cons e l ih =>
    obtain ⟨k, w⟩ := e
    by_cases hk : k = a
    · simp [hk, lk_cons]
    · have : a ∈ keys l := by
        simp only [keys, List.map_cons, List.mem_cons] at h
        rcases h with h | h
        · exact absurd h.symm hk
        · exact h
      have ih := ih this
      simp [hk, lk_cons] at ih ⊢; exact ih

theorem any_iff_keys {β : Type} (l : List (Nat × β)) (a : Nat) : (l.any (·.1 == a)) = true ↔ a ∈ keys l := by
  simp only [List.any_eq_true, keys, List.mem_map, beq_iff_eq]

theorem lk_lset {β : Type} (l : List (Nat × β)) (a : Nat) (v : β) (b : Nat) :
    lk (lset l a v) b = if b = a then some v else lk l b := by
  unfold lset
  split
  next hany =>
    by_cases hb : b = a
    · subst hb
      simp only [if_true]
      exact lk_repl_eq l b v ((any_iff_keys l b).1 hany)
    · simp only [hb, if_false]
      exact lk_repl_ne l a v b hb
  next hany =>
    rw [lk_append, lk_cons, lk_nil]
    by_cases hb : b = a
    · subst hb
      have : lk l b = none := by
        rw [lk_none_iff]; intro hm
        exact hany ((any_iff_keys l b).2 hm)
      simp [this]
    · have : ¬ a = b := fun h => hb h.symm
      simp [hb, this]

theorem lk_ldel {β : Type} (l : List (Nat × β)) (a : Nat) (b : Nat) :
    lk (ldel l a) b = if b = a then none else lk l b := by
  unfold ldel
  induction l with
  | nil => simp [lk_nil]
  | cons e l ih =>
    obtain ⟨k, w⟩ := e
    by_cases hk : k = a
    · subst hk
      by_cases hb : b = k
      · simp [hb] at ih ⊢; exact ih
      · have : ¬ k = b := fun h => hb h.symm
        simp [hb, this, lk_cons] at ih ⊢; exact ih
    · by_cases hb : b = a
      · subst hb
        simp [hk, lk_cons] at ih ⊢; exact ih
      · simp [hk, hb, lk_cons] at ih ⊢; rw [ih]

theorem keys_lset {β : Type} (l : List (Nat × β)) (a : Nat) (v : β) (hn : (keys l).Nodup) :
    (keys (lset l a v)).Nodup := by
  unfold lset
  split
  next hany =>
    have : keys (l.map (fun e => if e.1 == a then (a, v) else e)) = keys l := by
      unfold keys
      rw [List.map_map]
      apply List.map_congr_left
      intro e _
      by_cases h : e.1 = a <;> simp [h]
    rw [this]; exact hn
  next hany =>
    unfold keys at *
    rw [List.map_append, List.nodup_append]
    refine ⟨hn, by simp, ?_⟩
    intro x hx y hy hxy
    simp at hy
    subst hy; subst hxy
    apply hany
    obtain ⟨e, he, hee⟩ := List.mem_map.1 hx
    exact List.any_eq_true.2 ⟨e, he, by simp [hee]⟩

theorem keys_ldel {β : Type} (l : List (Nat × β)) (a : Nat) (hn : (keys l).Nodup) :
    (keys (ldel l a)).Nodup := by
  unfold keys ldel at *
  exact List.Nodup.sublist (List.Sublist.map _ List.filter_sublist) hn

/-! ### flattening an association list of id lists -/

def fl {β : Type} (l : List (Nat × β)) (g : β → List Nat) : List Nat := (l.map (fun e => g e.2)).flatten

theorem fl_nil {β : Type} (g : β → List Nat) : fl ([] : List (Nat × β)) g = [] := rfl
theorem fl_cons {β : Type} (k : Nat) (v : β) (l : List (Nat × β)) (g : β → List Nat) :
    fl ((k, v) :: l) g = g v ++ fl l g := rfl

theorem mem_fl {β : Type} (l : List (Nat × β)) (g : β → List Nat) (id : Nat) :
    id ∈ fl l g ↔ ∃ a v, (a, v) ∈ l ∧ id ∈ g v := by
  unfold fl
  simp only [List.mem_flatten, List.mem_map]
  constructor
  · rintro ⟨_, ⟨⟨a, v⟩, he, rfl⟩, hid⟩; exact ⟨a, v, he, hid⟩
  · rintro ⟨a, v, he, hid⟩; exact ⟨_, ⟨(a, v), he, rfl⟩, hid⟩

theorem nodup_fl {β : Type} (l : List (Nat × β)) (g : β → List Nat) (hn : (keys l).Nodup) :
    (fl l g).Nodup ↔ (∀ a v, (a, v) ∈ l → (g v).Nodup) ∧
      (∀ a v a' v' id, (a, v) ∈ l → (a', v') ∈ l → id ∈ g v → id ∈ g v' → a = a') := by
  induction l with
  | nil => simp [fl_nil]
  | cons e l ih =>
    obtain ⟨k, w⟩ := e
    simp only [keys, List.map_cons, List.nodup_cons] at hn
    have ih := ih hn.2
    rw [fl_cons, List.nodup_append, ih]
    constructor
    · rintro ⟨h1, ⟨h2, h3⟩, h4⟩
      refine ⟨?_, ?_⟩
      · intro a v hm
        rcases List.mem_cons.1 hm with hm | hm
        · injection hm with e1 e2; subst e2; exact h1
        · exact h2 a v hm
      · intro a v a' v' id hm hm' hi hi'
        rcases List.mem_cons.1 hm with hx | hx <;> rcases List.mem_cons.1 hm' with hy | hy
        · injection hx with e1 e2; injection hy with e3 e4; rw [e1, e3]
        · injection hx with e1 e2; subst e2
          exact absurd rfl (h4 id hi id ((mem_fl l g id).2 ⟨a', v', hy, hi'⟩))
        · injection hy with e1 e2; subst e2
          exact absurd rfl (h4 id hi' id ((mem_fl l g id).2 ⟨a, v, hx, hi⟩))
        · exact h3 a v a' v' id hx hy hi hi'
    · rintro ⟨h1, h2⟩
      refine ⟨h1 k w List.mem_cons_self, ⟨?_, ?_⟩, ?_⟩
      · intro a v hm; exact h1 a v (List.mem_cons_of_mem _ hm)
      · intro a v a' v' id hm hm'; exact h2 a v a' v' id (List.mem_cons_of_mem _ hm) (List.mem_cons_of_mem _ hm')
      · intro x hx y hy hxy
        subst hxy
        obtain ⟨a', v', hm', hi'⟩ := (mem_fl l g x).1 hy
        have := h2 k w a' v' x List.mem_cons_self (List.mem_cons_of_mem _ hm') hx hi'
        subst this
        exact hn.1 (mem_keys l k v' hm')

/-! ### the view of a state, and the invariant on views -/

/-- ids pooled under `a` in a view -/
def pl (fa : Nat → Option (List Nat × Nat)) (fi : Nat → Option (List Nat)) (a : Nat) : List Nat :=
  ((fa a).map (·.1)).getD [] ++ (fi a).getD []

structure VInv (mc mi n : Nat) (fa : Nat → Option (List Nat × Nat)) (fi : Nat → Option (List Nat))
    (pcs : Nat → Option PConn) : Prop where
  mi_pos : 1 ≤ mi
  mi_le : mi ≤ mc
  ne : ∀ a cs cur, fa a = some (cs, cur) → cs ≠ []
  len : ∀ a, (pl fa fi a).length ≤ mc
  ilen : ∀ a, ((fi a).getD []).length ≤ mi
  nd : ∀ a, (pl fa fi a).Nodup
  addr : ∀ a id, id ∈ pl fa fi a → ∃ p, pcs id = some p ∧ p.addr = a
  pid : ∀ id p, pcs id = some p → p.id = id ∧ id < n
  fresh : ∀ id, n ≤ id → pcs id = none
  dead : ∀ id p, pcs id = some p → p.alive = false → p.isOpen = false
  opn : ∀ id p, pcs id = some p → p.isOpen = true → id ∈ pl fa fi p.addr

abbrev KA (s : State) : Prop := (keys s.active).Nodup
abbrev KI (s : State) : Prop := (keys s.idle).Nodup

def Inv2 (s : State) : Prop :=
  (keys s.active).Nodup ∧ (keys s.idle).Nodup ∧ VInv s.maxConns s.maxIdle s.nextId (lk s.active) (lk s.idle) s.pcs

theorem lookupA_eq (s : State) (a : Nat) : lookupA s a = lk s.active a := rfl
theorem lookupI_eq (s : State) (a : Nat) : lookupI s a = lk s.idle a := rfl
theorem pooled_eq (s : State) (a : Nat) : pooled s a = pl (lk s.active) (lk s.idle) a := rfl
theorem allPooled_eq (s : State) : allPooled s = fl s.active (·.1) ++ fl s.idle (fun q => q) := rfl

theorem mem_pl (fa : Nat → Option (List Nat × Nat)) (fi : Nat → Option (List Nat)) (a id : Nat) :
    id ∈ pl fa fi a ↔ (∃ cs cur, fa a = some (cs, cur) ∧ id ∈ cs) ∨ (∃ q, fi a = some q ∧ id ∈ q) := by
  unfold pl
  rw [List.mem_append]
  constructor
  · rintro (h | h)
    · left
      cases hfa : fa a with
      | none => simp [hfa] at h
      | some v => obtain ⟨cs, cur⟩ := v; simp [hfa] at h; exact ⟨cs, cur, rfl, h⟩
    · right
      cases hfi : fi a with
      | none => simp [hfi] at h
      | some q => simp [hfi] at h; exact ⟨q, rfl, h⟩
  · rintro (⟨cs, cur, h1, h2⟩ | ⟨q, h1, h2⟩)
    · left; simp [h1, h2]
    · right; simp [h1, h2]

theorem mem_allPooled_of_pl (s : State) (a id : Nat) (h : id ∈ pl (lk s.active) (lk s.idle) a) :
    id ∈ allPooled s := by
  rw [allPooled_eq, List.mem_append, mem_fl, mem_fl]
  rcases (mem_pl _ _ a id).1 h with ⟨cs, cur, h1, h2⟩ | ⟨q, h1, h2⟩
  · left; exact ⟨a, (cs, cur), lk_some_mem _ _ _ h1, h2⟩
  · right; exact ⟨a, q, lk_some_mem _ _ _ h1, h2⟩

theorem mem_allPooled_iff (s : State) (ka : KA s) (ki : KI s) (id : Nat) :
    id ∈ allPooled s ↔ ∃ a, id ∈ pl (lk s.active) (lk s.idle) a := by
  constructor
  · intro h
    rw [allPooled_eq, List.mem_append, mem_fl, mem_fl] at h
    rcases h with ⟨a, ⟨cs, cur⟩, h1, h2⟩ | ⟨a, q, h1, h2⟩
    · exact ⟨a, (mem_pl _ _ a id).2 (Or.inl ⟨cs, cur, mem_lk _ ka _ _ h1, h2⟩)⟩
    · exact ⟨a, (mem_pl _ _ a id).2 (Or.inr ⟨q, mem_lk _ ki _ _ h1, h2⟩)⟩
  · rintro ⟨a, h⟩; exact mem_allPooled_of_pl s a id h

theorem inv2_of_inv (s : State) (h : Inv s) : Inv2 s := by
  obtain ⟨⟨b1, b2, b3, b4⟩, ⟨ka, ki, nd, _, pid, fresh⟩, ⟨ad1, ad2⟩, ⟨o1, o2⟩⟩ := h
  have ka' : KA s := ka
  have ki' : KI s := ki
  rw [allPooled_eq, List.nodup_append, nodup_fl _ _ ka, nodup_fl _ _ ki] at nd
  obtain ⟨⟨nA1, nA2⟩, ⟨nI1, nI2⟩, nAI⟩ := nd
  refine ⟨ka, ki, ?_⟩
  have addr : ∀ a id, id ∈ pl (lk s.active) (lk s.idle) a → ∃ p, s.pcs id = some p ∧ p.addr = a := by
    intro a id hm
    rcases (mem_pl _ _ a id).1 hm with ⟨cs, cur, h1, h2⟩ | ⟨q, h1, h2⟩
    · exact ad1 a cs cur id (lk_some_mem _ _ _ h1) h2
    · exact ad2 a q id (lk_some_mem _ _ _ h1) h2
  refine ⟨b1, b2, ?_, ?_, ?_, ?_, addr, pid, fresh, o1, ?_⟩
  · intro a cs cur hl; exact (b3 a cs cur (lk_some_mem _ _ _ hl)).1
  · intro a
    unfold pl
    cases hA : lk s.active a with
    | some v =>
      obtain ⟨cs, cur⟩ := v
      have := (b3 a cs cur (lk_some_mem _ _ _ hA)).2
      rw [lookupI_eq] at this
      simpa using this
    | none =>
      cases hI : lk s.idle a with
      | some q => simpa using (b4 a q (lk_some_mem _ _ _ hI)).2
      | none => simp
  · intro a
    cases hI : lk s.idle a with
    | some q => simpa using (b4 a q (lk_some_mem _ _ _ hI)).1
    | none => simp
  · intro a
    unfold pl
    rw [List.nodup_append]
    refine ⟨?_, ?_, ?_⟩
    · cases hA : lk s.active a with
      | some v => obtain ⟨cs, cur⟩ := v; simpa using nA1 a (cs, cur) (lk_some_mem _ _ _ hA)
      | none => simp
    · cases hI : lk s.idle a with
      | some q => simpa using nI1 a q (lk_some_mem _ _ _ hI)
      | none => simp
    · intro x hx y hy hxy
      subst hxy
      apply nAI x _ x _ rfl
      · rw [mem_fl]
        cases hA : lk s.active a with
        | some v => obtain ⟨cs, cur⟩ := v; rw [hA] at hx; exact ⟨a, (cs, cur), lk_some_mem _ _ _ hA, by simpa using hx⟩
        | none => rw [hA] at hx; simp at hx
      · rw [mem_fl]
        cases hI : lk s.idle a with
        | some q => rw [hI] at hy; exact ⟨a, q, lk_some_mem _ _ _ hI, by simpa using hy⟩
        | none => rw [hI] at hy; simp at hy
  · intro id p hp ho
    have hm := o2 id p hp ho
    obtain ⟨a, ha⟩ := (mem_allPooled_iff s ka' ki' id).1 hm
    obtain ⟨p', hp', hpa⟩ := addr a id ha
    rw [hp] at hp'; injection hp' with hp'; subst hp'; rw [hpa]; exact ha

theorem inv_of_inv2 (s : State) (h : Inv2 s) : Inv s := by
  obtain ⟨ka, ki, v⟩ := h
  have memA : ∀ a cs cur id, (a, cs, cur) ∈ s.active → id ∈ cs → id ∈ pl (lk s.active) (lk s.idle) a := by
    intro a cs cur id hm hi
    exact (mem_pl _ _ a id).2 (Or.inl ⟨cs, cur, mem_lk _ ka _ _ hm, hi⟩)
  have memI : ∀ a q id, (a, q) ∈ s.idle → id ∈ q → id ∈ pl (lk s.active) (lk s.idle) a := by
    intro a q id hm hi
    exact (mem_pl _ _ a id).2 (Or.inr ⟨q, mem_lk _ ki _ _ hm, hi⟩)
  have uniq : ∀ a a' id, id ∈ pl (lk s.active) (lk s.idle) a → id ∈ pl (lk s.active) (lk s.idle) a' → a = a' := by
    intro a a' id h1 h2
    obtain ⟨p, hp, hpa⟩ := v.addr a id h1
    obtain ⟨p', hp', hpa'⟩ := v.addr a' id h2
    rw [hp] at hp'; injection hp' with hp'; subst hp'; rw [← hpa, ← hpa']
  refine ⟨⟨v.mi_pos, v.mi_le, ?_, ?_⟩, ⟨ka, ki, ?_, ?_, v.pid, v.fresh⟩, ⟨?_, ?_⟩, ⟨v.dead, ?_⟩⟩
  · intro a cs cur hm
    have hl := mem_lk _ ka _ _ hm
    refine ⟨v.ne a cs cur hl, ?_⟩
    have := v.len a
    unfold pl at this
    rw [hl] at this
    rw [lookupI_eq]
    simpa using this
  · intro a q hm
    have hl := mem_lk _ ki _ _ hm
    have h1 := v.ilen a
    rw [hl] at h1
    have h1 : q.length ≤ s.maxIdle := by simpa using h1
    exact ⟨h1, Nat.le_trans h1 v.mi_le⟩
  · rw [allPooled_eq, List.nodup_append, nodup_fl _ _ ka, nodup_fl _ _ ki]
    refine ⟨⟨?_, ?_⟩, ⟨?_, ?_⟩, ?_⟩
    · rintro a ⟨cs, cur⟩ hm
      have := v.nd a
      unfold pl at this
      rw [mem_lk _ ka _ _ hm, List.nodup_append] at this
      simpa using this.1
    · rintro a ⟨cs, cur⟩ a' ⟨cs', cur'⟩ id hm hm' hi hi'
      exact uniq a a' id (memA a cs cur id hm hi) (memA a' cs' cur' id hm' hi')
    · intro a q hm
      have := v.nd a
      unfold pl at this
      rw [mem_lk _ ki _ _ hm, List.nodup_append] at this
      simpa using this.2.1
    · intro a q a' q' id hm hm' hi hi'
      exact uniq a a' id (memI a q id hm hi) (memI a' q' id hm' hi')
    · intro x hx y hy hxy
      subst hxy
      obtain ⟨a, ⟨cs, cur⟩, hm, hi⟩ := (mem_fl _ _ x).1 hx
      obtain ⟨a', q, hm', hi'⟩ := (mem_fl _ _ x).1 hy
      have := uniq a a' x (memA a cs cur x hm hi) (memI a' q x hm' hi')
      subst this
      have nd := v.nd a
      unfold pl at nd
      rw [mem_lk _ ka _ _ hm, mem_lk _ ki _ _ hm', List.nodup_append] at nd
      exact nd.2.2 x (by simpa using hi) x (by simpa using hi') rfl
  · intro id hm
    obtain ⟨a, ha⟩ := (mem_allPooled_iff s ka ki id).1 hm
    obtain ⟨p, hp, _⟩ := v.addr a id ha
    exact (v.pid id p hp).2
  · intro a cs cur id hm hi; exact v.addr a id (memA a cs cur id hm hi)
  · intro a q id hm hi; exact v.addr a id (memI a q id hm hi)
  · intro id p hp ho
    exact mem_allPooled_of_pl s p.addr id (v.opn id p hp ho)

theorem inv_iff (s : State) : Inv s ↔ Inv2 s := ⟨inv2_of_inv s, inv_of_inv2 s⟩

/-! ### the operations on fields -/

def upd {β : Type} (f : Nat → β) (a : Nat) (x : β) : Nat → β := fun b => if b = a then x else f b

theorem upd_self {β : Type} (f : Nat → β) (a : Nat) : upd f a (f a) = f := by
  funext b; unfold upd; split
  · next h => rw [h]
  · rfl

@[simp] theorem lk_lset_fun {β : Type} (l : List (Nat × β)) (a : Nat) (v : β) : lk (lset l a v) = upd (lk l) a (some v) := by
  funext b; exact lk_lset l a v b
@[simp] theorem lk_ldel_fun {β : Type} (l : List (Nat × β)) (a : Nat) : lk (ldel l a) = upd (lk l) a none := by
  funext b; exact lk_ldel l a b

/-- the state after a successful dial -/
def dialSt (s : State) (a clock : Nat) : State :=
  { s with pcs := fun j => if j = s.nextId then some { id := s.nextId, addr := a, lastUse := clock } else s.pcs j,
           nextId := s.nextId + 1, dials := s.dials + 1 }

theorem dial_eq (s : State) (a clock : Nat) :
    dial s a clock = if s.up a then some (dialSt s a clock, s.nextId) else none := rfl

/-- `getConn`'s start of the housekeeping goroutine -/
def pre (s : State) (clock : Nat) : State := if s.running then s else { s with running := true, now := clock }

@[simp] theorem setA_maxConns (s : State) (a : Nat) (v : List Nat × Nat) : (setA s a v).maxConns = s.maxConns := rfl
@[simp] theorem setA_maxIdle (s : State) (a : Nat) (v : List Nat × Nat) : (setA s a v).maxIdle = s.maxIdle := rfl
@[simp] theorem setA_keepAlive (s : State) (a : Nat) (v : List Nat × Nat) : (setA s a v).keepAlive = s.keepAlive := rfl
@[simp] theorem setA_idleTO (s : State) (a : Nat) (v : List Nat × Nat) : (setA s a v).idleTO = s.idleTO := rfl
@[simp] theorem setA_active (s : State) (a : Nat) (v : List Nat × Nat) : (setA s a v).active = lset s.active a v := rfl
@[simp] theorem setA_idle (s : State) (a : Nat) (v : List Nat × Nat) : (setA s a v).idle = s.idle := rfl
@[simp] theorem setA_pcs (s : State) (a : Nat) (v : List Nat × Nat) : (setA s a v).pcs = s.pcs := rfl
@[simp] theorem setA_nextId (s : State) (a : Nat) (v : List Nat × Nat) : (setA s a v).nextId = s.nextId := rfl
@[simp] theorem setA_up (s : State) (a : Nat) (v : List Nat × Nat) : (setA s a v).up = s.up := rfl
@[simp] theorem setA_now (s : State) (a : Nat) (v : List Nat × Nat) : (setA s a v).now = s.now := rfl
@[simp] theorem setA_running (s : State) (a : Nat) (v : List Nat × Nat) : (setA s a v).running = s.running := rfl
@[simp] theorem setA_closed (s : State) (a : Nat) (v : List Nat × Nat) : (setA s a v).closed = s.closed := rfl
@[simp] theorem setA_stopped (s : State) (a : Nat) (v : List Nat × Nat) : (setA s a v).stopped = s.stopped := rfl
@[simp] theorem setA_dials (s : State) (a : Nat) (v : List Nat × Nat) : (setA s a v).dials = s.dials := rfl
@[simp] theorem delA_maxConns (s : State) (a : Nat) : (delA s a).maxConns = s.maxConns := rfl
@[simp] theorem delA_maxIdle (s : State) (a : Nat) : (delA s a).maxIdle = s.maxIdle := rfl
@[simp] theorem delA_keepAlive (s : State) (a : Nat) : (delA s a).keepAlive = s.keepAlive := rfl
@[simp] theorem delA_idleTO (s : State) (a : Nat) : (delA s a).idleTO = s.idleTO := rfl
@[simp] theorem delA_active (s : State) (a : Nat) : (delA s a).active = ldel s.active a := rfl
@[simp] theorem delA_idle (s : State) (a : Nat) : (delA s a).idle = s.idle := rfl
@[simp] theorem delA_pcs (s : State) (a : Nat) : (delA s a).pcs = s.pcs := rfl
@[simp] theorem delA_nextId (s : State) (a : Nat) : (delA s a).nextId = s.nextId := rfl
@[simp] theorem delA_up (s : State) (a : Nat) : (delA s a).up = s.up := rfl
@[simp] theorem delA_now (s : State) (a : Nat) : (delA s a).now = s.now := rfl
@[simp] theorem delA_running (s : State) (a : Nat) : (delA s a).running = s.running := rfl
@[simp] theorem delA_closed (s : State) (a : Nat) : (delA s a).closed = s.closed := rfl
@[simp] theorem delA_stopped (s : State) (a : Nat) : (delA s a).stopped = s.stopped := rfl
@[simp] theorem delA_dials (s : State) (a : Nat) : (delA s a).dials = s.dials := rfl
@[simp] theorem setI_maxConns (s : State) (a : Nat) (q : List Nat) : (setI s a q).maxConns = s.maxConns := rfl
@[simp] theorem setI_maxIdle (s : State) (a : Nat) (q : List Nat) : (setI s a q).maxIdle = s.maxIdle := rfl
@[simp] theorem setI_keepAlive (s : State) (a : Nat) (q : List Nat) : (setI s a q).keepAlive = s.keepAlive := rfl
@[simp] theorem setI_idleTO (s : State) (a : Nat) (q : List Nat) : (setI s a q).idleTO = s.idleTO := rfl
@[simp] theorem setI_active (s : State) (a : Nat) (q : List Nat) : (setI s a q).active = s.active := rfl
@[simp] theorem setI_idle (s : State) (a : Nat) (q : List Nat) : (setI s a q).idle = lset s.idle a q := rfl
@[simp] theorem setI_pcs (s : State) (a : Nat) (q : List Nat) : (setI s a q).pcs = s.pcs := rfl
@[simp] theorem setI_nextId (s : State) (a : Nat) (q : List Nat) : (setI s a q).nextId = s.nextId := rfl
@[simp] theorem setI_up (s : State) (a : Nat) (q : List Nat) : (setI s a q).up = s.up := rfl
@[simp] theorem setI_now (s : State) (a : Nat) (q : List Nat) : (setI s a q).now = s.now := rfl
@[simp] theorem setI_running (s : State) (a : Nat) (q : List Nat) : (setI s a q).running = s.running := rfl
@[simp] theorem setI_closed (s : State) (a : Nat) (q : List Nat) : (setI s a q).closed = s.closed := rfl
@[simp] theorem setI_stopped (s : State) (a : Nat) (q : List Nat) : (setI s a q).stopped = s.stopped := rfl
@[simp] theorem setI_dials (s : State) (a : Nat) (q : List Nat) : (setI s a q).dials = s.dials := rfl
@[simp] theorem delI_maxConns (s : State) (a : Nat) : (delI s a).maxConns = s.maxConns := rfl
@[simp] theorem delI_maxIdle (s : State) (a : Nat) : (delI s a).maxIdle = s.maxIdle := rfl
@[simp] theorem delI_keepAlive (s : State) (a : Nat) : (delI s a).keepAlive = s.keepAlive := rfl
@[simp] theorem delI_idleTO (s : State) (a : Nat) : (delI s a).idleTO = s.idleTO := rfl
@[simp] theorem delI_active (s : State) (a : Nat) : (delI s a).active = s.active := rfl
@[simp] theorem delI_idle (s : State) (a : Nat) : (delI s a).idle = ldel s.idle a := rfl
@[simp] theorem delI_pcs (s : State) (a : Nat) : (delI s a).pcs = s.pcs := rfl
@[simp] theorem delI_nextId (s : State) (a : Nat) : (delI s a).nextId = s.nextId := rfl
@[simp] theorem delI_up (s : State) (a : Nat) : (delI s a).up = s.up := rfl
@[simp] theorem delI_now (s : State) (a : Nat) : (delI s a).now = s.now := rfl
@[simp] theorem delI_running (s : State) (a : Nat) : (delI s a).running = s.running := rfl
@[simp] theorem delI_closed (s : State) (a : Nat) : (delI s a).closed = s.closed := rfl
@[simp] theorem delI_stopped (s : State) (a : Nat) : (delI s a).stopped = s.stopped := rfl
@[simp] theorem delI_dials (s : State) (a : Nat) : (delI s a).dials = s.dials := rfl
@[simp] theorem updPc_maxConns (s : State) (id : Nat) (f : PConn → PConn) : (updPc s id f).maxConns = s.maxConns := rfl
@[simp] theorem updPc_maxIdle (s : State) (id : Nat) (f : PConn → PConn) : (updPc s id f).maxIdle = s.maxIdle := rfl
@[simp] theorem updPc_keepAlive (s : State) (id : Nat) (f : PConn → PConn) : (updPc s id f).keepAlive = s.keepAlive := rfl
@[simp] theorem updPc_idleTO (s : State) (id : Nat) (f : PConn → PConn) : (updPc s id f).idleTO = s.idleTO := rfl
@[simp] theorem updPc_active (s : State) (id : Nat) (f : PConn → PConn) : (updPc s id f).active = s.active := rfl
@[simp] theorem updPc_idle (s : State) (id : Nat) (f : PConn → PConn) : (updPc s id f).idle = s.idle := rfl
@[simp] theorem updPc_pcs (s : State) (id : Nat) (f : PConn → PConn) : (updPc s id f).pcs = fun j => if j = id then (s.pcs id).map f else s.pcs j := rfl
@[simp] theorem updPc_nextId (s : State) (id : Nat) (f : PConn → PConn) : (updPc s id f).nextId = s.nextId := rfl
@[simp] theorem updPc_up (s : State) (id : Nat) (f : PConn → PConn) : (updPc s id f).up = s.up := rfl
@[simp] theorem updPc_now (s : State) (id : Nat) (f : PConn → PConn) : (updPc s id f).now = s.now := rfl
@[simp] theorem updPc_running (s : State) (id : Nat) (f : PConn → PConn) : (updPc s id f).running = s.running := rfl
@[simp] theorem updPc_closed (s : State) (id : Nat) (f : PConn → PConn) : (updPc s id f).closed = s.closed := rfl
@[simp] theorem updPc_stopped (s : State) (id : Nat) (f : PConn → PConn) : (updPc s id f).stopped = s.stopped := rfl
@[simp] theorem updPc_dials (s : State) (id : Nat) (f : PConn → PConn) : (updPc s id f).dials = s.dials := rfl
@[simp] theorem dialSt_maxConns (s : State) (a clock : Nat) : (dialSt s a clock).maxConns = s.maxConns := rfl
@[simp] theorem dialSt_maxIdle (s : State) (a clock : Nat) : (dialSt s a clock).maxIdle = s.maxIdle := rfl
@[simp] theorem dialSt_keepAlive (s : State) (a clock : Nat) : (dialSt s a clock).keepAlive = s.keepAlive := rfl
@[simp] theorem dialSt_idleTO (s : State) (a clock : Nat) : (dialSt s a clock).idleTO = s.idleTO := rfl
@[simp] theorem dialSt_active (s : State) (a clock : Nat) : (dialSt s a clock).active = s.active := rfl
@[simp] theorem dialSt_idle (s : State) (a clock : Nat) : (dialSt s a clock).idle = s.idle := rfl
@[simp] theorem dialSt_pcs (s : State) (a clock : Nat) : (dialSt s a clock).pcs = fun j => if j = s.nextId then some { id := s.nextId, addr := a, lastUse := clock } else s.pcs j := rfl
@[simp] theorem dialSt_nextId (s : State) (a clock : Nat) : (dialSt s a clock).nextId = s.nextId + 1 := rfl
@[simp] theorem dialSt_up (s : State) (a clock : Nat) : (dialSt s a clock).up = s.up := rfl
@[simp] theorem dialSt_now (s : State) (a clock : Nat) : (dialSt s a clock).now = s.now := rfl
@[simp] theorem dialSt_running (s : State) (a clock : Nat) : (dialSt s a clock).running = s.running := rfl
@[simp] theorem dialSt_closed (s : State) (a clock : Nat) : (dialSt s a clock).closed = s.closed := rfl
@[simp] theorem dialSt_stopped (s : State) (a clock : Nat) : (dialSt s a clock).stopped = s.stopped := rfl
@[simp] theorem dialSt_dials (s : State) (a clock : Nat) : (dialSt s a clock).dials = s.dials + 1 := rfl
@[simp] theorem pre_maxConns (s : State) (clock : Nat) : (pre s clock).maxConns = s.maxConns := by unfold pre; split <;> rfl
@[simp] theorem pre_maxIdle (s : State) (clock : Nat) : (pre s clock).maxIdle = s.maxIdle := by unfold pre; split <;> rfl
@[simp] theorem pre_keepAlive (s : State) (clock : Nat) : (pre s clock).keepAlive = s.keepAlive := by unfold pre; split <;> rfl
@[simp] theorem pre_idleTO (s : State) (clock : Nat) : (pre s clock).idleTO = s.idleTO := by unfold pre; split <;> rfl
@[simp] theorem pre_active (s : State) (clock : Nat) : (pre s clock).active = s.active := by unfold pre; split <;> rfl
@[simp] theorem pre_idle (s : State) (clock : Nat) : (pre s clock).idle = s.idle := by unfold pre; split <;> rfl
@[simp] theorem pre_pcs (s : State) (clock : Nat) : (pre s clock).pcs = s.pcs := by unfold pre; split <;> rfl
@[simp] theorem pre_nextId (s : State) (clock : Nat) : (pre s clock).nextId = s.nextId := by unfold pre; split <;> rfl
@[simp] theorem pre_up (s : State) (clock : Nat) : (pre s clock).up = s.up := by unfold pre; split <;> rfl
@[simp] theorem pre_closed (s : State) (clock : Nat) : (pre s clock).closed = s.closed := by unfold pre; split <;> rfl
@[simp] theorem pre_stopped (s : State) (clock : Nat) : (pre s clock).stopped = s.stopped := by unfold pre; split <;> rfl
@[simp] theorem pre_dials (s : State) (clock : Nat) : (pre s clock).dials = s.dials := by unfold pre; split <;> rfl
@[simp] theorem pre_running (s : State) (clock : Nat) : (pre s clock).running = true := by
  unfold pre; split
  · next h => exact h
  · rfl
@[simp] theorem closePc_eq (s : State) (id : Nat) : closePc s id = updPc s id fun p => { p with isOpen := false } := rfl
@[simp] theorem failPc_eq (s : State) (id : Nat) : failPc s id = updPc s id fun p => { p with alive := false, isOpen := false } := rfl
@[simp] theorem getPc_eq (s : State) (id : Nat) : getPc s id = s.pcs id := rfl


/-- rewrite the fields of composite states -/
macro "fsimp" : tactic => `(tactic| simp only [setA_maxConns, setA_maxIdle, setA_keepAlive, setA_idleTO, setA_active, setA_idle, setA_pcs, setA_nextId, setA_up, setA_now, setA_running, setA_closed, setA_stopped, setA_dials, delA_maxConns, delA_maxIdle, delA_keepAlive, delA_idleTO, delA_active, delA_idle, delA_pcs, delA_nextId, delA_up, delA_now, delA_running, delA_closed, delA_stopped, delA_dials, setI_maxConns, setI_maxIdle, setI_keepAlive, setI_idleTO, setI_active, setI_idle, setI_pcs, setI_nextId, setI_up, setI_now, setI_running, setI_closed, setI_stopped, setI_dials, delI_maxConns, delI_maxIdle, delI_keepAlive, delI_idleTO, delI_active, delI_idle, delI_pcs, delI_nextId, delI_up, delI_now, delI_running, delI_closed, delI_stopped, delI_dials, updPc_maxConns, updPc_maxIdle, updPc_keepAlive, updPc_idleTO, updPc_active, updPc_idle, updPc_pcs, updPc_nextId, updPc_up, updPc_now, updPc_running, updPc_closed, updPc_stopped, updPc_dials, dialSt_maxConns, dialSt_maxIdle, dialSt_keepAlive, dialSt_idleTO, dialSt_active, dialSt_idle, dialSt_pcs, dialSt_nextId, dialSt_up, dialSt_now, dialSt_running, dialSt_closed, dialSt_stopped, dialSt_dials, pre_maxConns, pre_maxIdle, pre_keepAlive, pre_idleTO, pre_active, pre_idle, pre_pcs, pre_nextId, pre_up, pre_running, pre_closed, pre_stopped, pre_dials, closePc_eq, failPc_eq, getPc_eq, lk_lset_fun, lk_ldel_fun, lookupA_eq, lookupI_eq])
macro "fsimp" "at" h:ident : tactic => `(tactic| simp only [setA_maxConns, setA_maxIdle, setA_keepAlive, setA_idleTO, setA_active, setA_idle, setA_pcs, setA_nextId, setA_up, setA_now, setA_running, setA_closed, setA_stopped, setA_dials, delA_maxConns, delA_maxIdle, delA_keepAlive, delA_idleTO, delA_active, delA_idle, delA_pcs, delA_nextId, delA_up, delA_now, delA_running, delA_closed, delA_stopped, delA_dials, setI_maxConns, setI_maxIdle, setI_keepAlive, setI_idleTO, setI_active, setI_idle, setI_pcs, setI_nextId, setI_up, setI_now, setI_running, setI_closed, setI_stopped, setI_dials, delI_maxConns, delI_maxIdle, delI_keepAlive, delI_idleTO, delI_active, delI_idle, delI_pcs, delI_nextId, delI_up, delI_now, delI_running, delI_closed, delI_stopped, delI_dials, updPc_maxConns, updPc_maxIdle, updPc_keepAlive, updPc_idleTO, updPc_active, updPc_idle, updPc_pcs, updPc_nextId, updPc_up, updPc_now, updPc_running, updPc_closed, updPc_stopped, updPc_dials, dialSt_maxConns, dialSt_maxIdle, dialSt_keepAlive, dialSt_idleTO, dialSt_active, dialSt_idle, dialSt_pcs, dialSt_nextId, dialSt_up, dialSt_now, dialSt_running, dialSt_closed, dialSt_stopped, dialSt_dials, pre_maxConns, pre_maxIdle, pre_keepAlive, pre_idleTO, pre_active, pre_idle, pre_pcs, pre_nextId, pre_up, pre_running, pre_closed, pre_stopped, pre_dials, closePc_eq, failPc_eq, getPc_eq, lk_lset_fun, lk_ldel_fun, lookupA_eq, lookupI_eq] at $h:ident)

/-! ### the general preservation lemma on views -/

/-- the pooled list of a given pair of entries -/
def plOf (x : Option (List Nat × Nat)) (y : Option (List Nat)) : List Nat := (x.map (·.1)).getD [] ++ y.getD []

theorem pl_upd (fa : Nat → Option (List Nat × Nat)) (fi : Nat → Option (List Nat)) (a : Nat)
    (x : Option (List Nat × Nat)) (y : Option (List Nat)) (b : Nat) :
    pl (upd fa a x) (upd fi a y) b = if b = a then plOf x y else pl fa fi b := by
  unfold pl upd plOf
  split <;> rfl

theorem pl_eq_plOf (fa : Nat → Option (List Nat × Nat)) (fi : Nat → Option (List Nat)) (a : Nat) :
    pl fa fi a = plOf (fa a) (fi a) := rfl

theorem VInv.change {mc mi n n' : Nat} {fa : Nat → Option (List Nat × Nat)} {fi : Nat → Option (List Nat)}
    {pcs : Nat → Option PConn} (h : VInv mc mi n fa fi pcs)
    (a : Nat) (x : Option (List Nat × Nat)) (y : Option (List Nat)) (pcs' : Nat → Option PConn)
    (c1 : ∀ id p, pcs id = some p → ∃ p', pcs' id = some p' ∧ p'.addr = p.addr ∧ (p'.isOpen = true → p.isOpen = true))
    (c2 : ∀ id p', pcs' id = some p' → p'.id = id ∧ id < n' ∧ (p'.alive = false → p'.isOpen = false))
    (c3 : ∀ id, n' ≤ id → pcs' id = none)
    (c4 : ∀ id p', pcs' id = some p' → p'.isOpen = true → p'.addr = a → id ∈ plOf x y)
    (c5 : ∀ id p', pcs' id = some p' → p'.isOpen = true → pcs id = none → p'.addr = a)
    (c6 : ∀ id, id ∈ plOf x y → ∃ p', pcs' id = some p' ∧ p'.addr = a)
    (c7 : (plOf x y).Nodup) (c8 : (plOf x y).length ≤ mc) (c9 : (y.getD []).length ≤ mi)
    (c10 : ∀ cs cur, x = some (cs, cur) → cs ≠ []) :
    VInv mc mi n' (upd fa a x) (upd fi a y) pcs' := by
  refine ⟨h.mi_pos, h.mi_le, ?_, ?_, ?_, ?_, ?_, ?_, c3, ?_, ?_⟩
  · intro b cs cur hb
    unfold upd at hb
    split at hb
    · exact c10 cs cur hb
    · exact h.ne b cs cur hb
  · intro b
    rw [pl_upd]; split
    · exact c8
    · exact h.len b
  · intro b
    unfold upd; split
    · exact c9
    · exact h.ilen b
  · intro b
    rw [pl_upd]; split
    · exact c7
    · exact h.nd b
  · intro b id hm
    rw [pl_upd] at hm
    split at hm
    · next hb => subst hb; exact c6 id hm
    · next hb =>
      obtain ⟨p, hp, hpa⟩ := h.addr b id hm
      obtain ⟨p', hp', hpa', _⟩ := c1 id p hp
      exact ⟨p', hp', hpa'.trans hpa⟩
  · intro id p' hp'; exact ⟨(c2 id p' hp').1, (c2 id p' hp').2.1⟩
  · intro id p' hp'; exact (c2 id p' hp').2.2
  · intro id p' hp' ho
    rw [pl_upd]
    by_cases ha : p'.addr = a
    · simp only [ha, if_true]; exact c4 id p' hp' ho ha
    · simp only [ha, if_false]
      cases hp : pcs id with
      | none => exact absurd (c5 id p' hp' ho hp) ha
      | some p =>
        obtain ⟨p'', hp'', hpa, hpo⟩ := c1 id p hp
        rw [hp'] at hp''; injection hp'' with hp''; subst hp''
        rw [hpa]; exact h.opn id p hp (hpo ho)

/-- only connection records change (no new ones, none reopened, address and id kept) -/
theorem VInv.updPcs {mc mi n : Nat} {fa : Nat → Option (List Nat × Nat)} {fi : Nat → Option (List Nat)}
    {pcs : Nat → Option PConn} (h : VInv mc mi n fa fi pcs) (pcs' : Nat → Option PConn)
    (hp : ∀ id, (pcs id = none ∧ pcs' id = none) ∨ ∃ p p', pcs id = some p ∧ pcs' id = some p' ∧ p'.id = p.id ∧
      p'.addr = p.addr ∧ (p'.isOpen = true → p.isOpen = true) ∧ (p'.alive = false → p'.isOpen = false)) :
    VInv mc mi n fa fi pcs' := by
  have key := h.change 0 (fa 0) (fi 0) pcs' (n' := n) ?_ ?_ ?_ ?_ ?_ ?_ (h.nd 0) (h.len 0) (h.ilen 0) (h.ne 0)
  · rw [upd_self, upd_self] at key; exact key
  · intro id p hpid
    rcases hp id with ⟨h1, _⟩ | ⟨p0, p', h1, h2, _, h4, h5, _⟩
    · rw [hpid] at h1; cases h1
    · rw [hpid] at h1; injection h1 with h1; subst h1; exact ⟨p', h2, h4, h5⟩
  · intro id p' hp'
    rcases hp id with ⟨_, h2⟩ | ⟨p0, p'', h1, h2, h3, h4, h5, h6⟩
    · rw [hp'] at h2; cases h2
    · rw [hp'] at h2; injection h2 with h2; subst h2
      have := h.pid id p0 h1
      exact ⟨h3.trans this.1, this.2, h6⟩
  · intro id hid
    rcases hp id with ⟨_, h2⟩ | ⟨p0, p'', h1, h2, _⟩
    · exact h2
    · rw [h.fresh id hid] at h1; cases h1
  · intro id p' hp' ho ha
    rcases hp id with ⟨_, h2⟩ | ⟨p0, p'', h1, h2, h3, h4, h5, h6⟩
    · rw [hp'] at h2; cases h2
    · rw [hp'] at h2; injection h2 with h2; subst h2
      have := h.opn id p0 h1 (h5 ho)
      rw [← h4, ha] at this; exact this
  · intro id p' hp' ho hnone
    rcases hp id with ⟨_, h2⟩ | ⟨p0, p'', h1, h2, _⟩
    · rw [hp'] at h2; cases h2
    · rw [hnone] at h1; cases h1
  · intro id hm
    obtain ⟨p, hpid, hpa⟩ := h.addr 0 id hm
    rcases hp id with ⟨h1, _⟩ | ⟨p0, p', h1, h2, _, h4, _⟩
    · rw [hpid] at h1; cases h1
    · rw [hpid] at h1; injection h1 with h1; subst h1; exact ⟨p', h2, h4.trans hpa⟩

/-- only the pool entries of address `a` change: ids may move or leave, those leaving are closed -/
theorem VInv.pool {mc mi n : Nat} {fa : Nat → Option (List Nat × Nat)} {fi : Nat → Option (List Nat)}
    {pcs : Nat → Option PConn} (h : VInv mc mi n fa fi pcs)
    (a : Nat) (x : Option (List Nat × Nat)) (y : Option (List Nat))
    (sub : ∀ id, id ∈ plOf x y → id ∈ pl fa fi a)
    (gone : ∀ id p, id ∈ pl fa fi a → id ∉ plOf x y → pcs id = some p → p.isOpen = false)
    (c7 : (plOf x y).Nodup) (c8 : (plOf x y).length ≤ mc) (c9 : (y.getD []).length ≤ mi)
    (c10 : ∀ cs cur, x = some (cs, cur) → cs ≠ []) :
    VInv mc mi n (upd fa a x) (upd fi a y) pcs := by
  refine h.change a x y pcs ?_ ?_ h.fresh ?_ ?_ ?_ c7 c8 c9 c10
  · intro id p hp; exact ⟨p, hp, rfl, fun h => h⟩
  · intro id p hp; exact ⟨(h.pid id p hp).1, (h.pid id p hp).2, h.dead id p hp⟩
  · intro id p hp ho ha
    have hm := h.opn id p hp ho
    rw [ha] at hm
    apply Classical.byContradiction
    intro hn
    have := gone id p hm hn hp
    rw [ho] at this; cases this
  · intro id p hp _ hnone; rw [hp] at hnone; cases hnone
  · intro id hm; exact h.addr a id (sub id hm)

/-- a fresh connection to `a` is dialed and filed under `a` -/
theorem VInv.dialed {mc mi n : Nat} {fa : Nat → Option (List Nat × Nat)} {fi : Nat → Option (List Nat)}
    {pcs : Nat → Option PConn} (h : VInv mc mi n fa fi pcs)
    (a clock : Nat) (x : Option (List Nat × Nat)) (y : Option (List Nat))
    (new : n ∈ plOf x y)
    (sub : ∀ id, id ∈ plOf x y → id = n ∨ id ∈ pl fa fi a)
    (gone : ∀ id p, id ∈ pl fa fi a → id ∉ plOf x y → pcs id = some p → p.isOpen = false)
    (c7 : (plOf x y).Nodup) (c8 : (plOf x y).length ≤ mc) (c9 : (y.getD []).length ≤ mi)
    (c10 : ∀ cs cur, x = some (cs, cur) → cs ≠ []) :
    VInv mc mi (n + 1) (upd fa a x) (upd fi a y)
      (fun j => if j = n then some { id := n, addr := a, lastUse := clock } else pcs j) := by
  have hn : pcs n = none := h.fresh n (Nat.le_refl n)
  refine h.change a x y _ ?_ ?_ ?_ ?_ ?_ ?_ c7 c8 c9 c10
  · intro id p hp
    have : id ≠ n := fun e => by rw [e, hn] at hp; cases hp
    exact ⟨p, by simp [this, hp], rfl, fun h => h⟩
  · intro id p' hp'
    by_cases e : id = n
    · simp [e] at hp'; subst hp'; subst e; simp
    · simp [e] at hp'
      exact ⟨(h.pid id p' hp').1, Nat.lt_succ_of_lt (h.pid id p' hp').2, h.dead id p' hp'⟩
  · intro id hid
    have : id ≠ n := by omega
    simp [this]; exact h.fresh id (by omega)
  · intro id p' hp' ho ha
    by_cases e : id = n
    · rw [e]; exact new
    · simp [e] at hp'
      have hm := h.opn id p' hp' ho
      rw [ha] at hm
      apply Classical.byContradiction
      intro hn
      have := gone id p' hm hn hp'
      rw [ho] at this; cases this
  · intro id p' hp' _ hnone
    by_cases e : id = n
    · simp [e] at hp'; subst hp'; rfl
    · simp [e] at hp'; rw [hp'] at hnone; cases hnone
  · intro id hm
    rcases sub id hm with e | hm'
    · exact ⟨{ id := n, addr := a, lastUse := clock }, by simp [e], rfl⟩
    · obtain ⟨p, hp, hpa⟩ := h.addr a id hm'
      have : id ≠ n := fun e => by rw [e, hn] at hp; cases hp
      exact ⟨p, by simp [this, hp], hpa⟩

/-! ### simple operations on states -/

theorem VInv.updF {mc mi n : Nat} {fa : Nat → Option (List Nat × Nat)} {fi : Nat → Option (List Nat)}
    {pcs : Nat → Option PConn} (v : VInv mc mi n fa fi pcs) (id : Nat) (f : PConn → PConn)
    (hf : ∀ p, (f p).id = p.id ∧ (f p).addr = p.addr ∧ ((f p).isOpen = true → p.isOpen = true) ∧
      ((p.alive = false → p.isOpen = false) → (f p).alive = false → (f p).isOpen = false)) :
    VInv mc mi n fa fi (fun j => if j = id then (pcs id).map f else pcs j) := by
  apply v.updPcs
  intro j
  by_cases e : j = id
  · subst e
    cases hp : pcs j with
    | none => left; simp
    | some p =>
      right
      refine ⟨p, f p, rfl, by simp, (hf p).1, (hf p).2.1, (hf p).2.2.1, (hf p).2.2.2 (v.dead j p hp)⟩
  · cases hp : pcs j with
    | none => left; simp [e]
    | some p => right; exact ⟨p, p, rfl, by simp [e], rfl, rfl, fun h => h, v.dead j p hp⟩

theorem Inv2.updPc {s : State} (h : Inv2 s) (id : Nat) (f : PConn → PConn)
    (hf : ∀ p, (f p).id = p.id ∧ (f p).addr = p.addr ∧ ((f p).isOpen = true → p.isOpen = true) ∧
      ((p.alive = false → p.isOpen = false) → (f p).alive = false → (f p).isOpen = false)) :
    Inv2 (updPc s id f) := by
  obtain ⟨ka, ki, v⟩ := h
  exact ⟨ka, ki, v.updF id f hf⟩

theorem inv2_pre (s : State) (clock : Nat) (h : Inv2 s) : Inv2 (pre s clock) := by
  unfold Inv2 at *
  simpa using h

theorem inv2_init (mc mi : Int) (ka ito : Nat) : Inv2 (init mc mi ka ito) := by
  refine ⟨List.nodup_nil, List.nodup_nil, ?_⟩
  have e1 : (init mc mi ka ito).active = [] := rfl
  have e2 : (init mc mi ka ito).idle = [] := rfl
  have e3 : (init mc mi ka ito).pcs = fun _ => none := rfl
  have e4 : ∀ a, pl (lk (init mc mi ka ito).active) (lk (init mc mi ka ito).idle) a = [] := by
    intro a; rw [e1, e2]; rfl
  refine ⟨?_, ?_, ?_, ?_, ?_, ?_, ?_, ?_, ?_, ?_, ?_⟩
  · simp only [init, Gen.normMaxIdle, Gen.normMaxConns]; (repeat' split) <;> omega
  · simp only [init, Gen.normMaxIdle, Gen.normMaxConns]; (repeat' split) <;> omega
  · intro a cs cur h; rw [e1] at h; cases h
  · intro a; rw [e4]; exact Nat.zero_le _
  · intro a; rw [e2]; exact Nat.zero_le _
  · intro a; rw [e4]; exact List.nodup_nil
  · intro a id h; rw [e4] at h; cases h
  · intro id p h; rw [e3] at h; cases h
  · intro id _; rw [e3]
  · intro id p h; rw [e3] at h; cases h
  · intro id p h; rw [e3] at h; cases h

theorem limits_normalised (mc mi : Int) (ka ito : Nat) :
    let s := init mc mi ka ito
    1 ≤ s.maxConns ∧ 1 ≤ s.maxIdle ∧ s.maxIdle ≤ s.maxConns ∧ (mc < 1 → s.maxConns = 1) ∧
    (1 ≤ mc → (s.maxConns : Int) = mc) ∧ (mi < 1 → s.maxIdle = 1) ∧
    (1 ≤ mi → mi ≤ (s.maxConns : Int) → (s.maxIdle : Int) = mi) ∧
    (mi > (s.maxConns : Int) → s.maxIdle = s.maxConns) := by
  simp only [init, Gen.normMaxIdle, Gen.normMaxConns]
  (repeat' split) <;> omega

/-! ### getConn -/

/-- the body of `getConn` after the start of the housekeeping goroutine -/
def getConnCore (s : State) (a : Nat) (clock : Nat) : State × Option Nat :=
  match lookupA s a with
  | some (cs, cur) =>
    if cs.length < s.maxConns then
      match fromIdleOrDial s a clock with
      | some (s, id) => (setA s a (cs ++ [id], cur), some id)
      | none =>
        ((match lookupI s a with | some (_ :: rest) => setI s a rest | _ => s), none)
    else
      let cur' := Gen.cursorNext cur cs.length
      let s := setA s a (cs, cur')
      match cs[cur']? with
      | some id =>
        if isAlive s id then (updPc s id fun p => { p with lastUse := s.now }, some id)
        else match dial s a clock with
          | some (s, nid) => (setA s a (cs.set cur' nid, cur'), some nid)
          | none => (s, none)
      | none => (s, none)
  | none =>
    match fromIdleOrDial s a clock with
    | some (s, id) => (setA s a ([id], 0), some id)
    | none => ((match lookupI s a with | some (_ :: rest) => setI s a rest | _ => s), none)

theorem getConn_eq (s : State) (a clock : Nat) : getConn s a clock = getConnCore (pre s clock) a clock := rfl

/-- the outcomes of `fromIdleOrDial` -/
theorem fod_cases (s : State) (a clock : Nat) :
    (∃ id rest, lookupI s a = some (id :: rest) ∧ isAlive s id = true ∧
        fromIdleOrDial s a clock = some (updPc (setI s a rest) id (fun p => { p with lastUse := clock }), id)) ∨
    (∃ id rest, lookupI s a = some (id :: rest) ∧ isAlive s id = false ∧ s.up a = true ∧
        fromIdleOrDial s a clock =
          some (dialSt (updPc (setI s a rest) id (fun p => { p with lastUse := clock })) a clock, s.nextId)) ∨
    (∃ id rest, lookupI s a = some (id :: rest) ∧ isAlive s id = false ∧ s.up a = false ∧
        fromIdleOrDial s a clock = none) ∨
    ((lookupI s a = none ∨ lookupI s a = some []) ∧ s.up a = true ∧
        fromIdleOrDial s a clock = some (dialSt s a clock, s.nextId)) ∨
    ((lookupI s a = none ∨ lookupI s a = some []) ∧ s.up a = false ∧ fromIdleOrDial s a clock = none) := by
  unfold fromIdleOrDial
  cases hI : lookupI s a with
  | none =>
    right; right; right
    cases hu : s.up a <;> simp [dial_eq, hu]
  | some q =>
    cases q with
    | nil =>
      right; right; right
      cases hu : s.up a <;> simp [dial_eq, hu]
    | cons id rest =>
      have hal : isAlive (updPc (setI s a rest) id (fun p => { p with lastUse := clock })) id = isAlive s id := by
        unfold isAlive
        simp only [getPc_eq, updPc_pcs, setI_pcs, if_true]
        cases s.pcs id <;> rfl
      simp only [hal]
      cases hal' : isAlive s id
      · cases hu : s.up a
        · right; right; left; exact ⟨id, rest, rfl, hal', rfl, by simp [dial_eq, hu]⟩
        · right; left; exact ⟨id, rest, rfl, hal', rfl, by simp [dial_eq, hu]⟩
      · left; exact ⟨id, rest, rfl, hal', by simp⟩

@[simp] theorem upd_upd {β : Type} (f : Nat → β) (a : Nat) (x y : β) : upd (upd f a x) a y = upd f a y := by
  funext b; unfold upd; split <;> rfl

theorem lastUse_ok (clock : Nat) : ∀ p : PConn, ({ p with lastUse := clock } : PConn).id = p.id ∧
    ({ p with lastUse := clock } : PConn).addr = p.addr ∧
    (({ p with lastUse := clock } : PConn).isOpen = true → p.isOpen = true) ∧
    ((p.alive = false → p.isOpen = false) → ({ p with lastUse := clock } : PConn).alive = false →
      ({ p with lastUse := clock } : PConn).isOpen = false) :=
  fun _ => ⟨rfl, rfl, fun h => h, fun h => h⟩

theorem pl_of_eq (fa : Nat → Option (List Nat × Nat)) (fi : Nat → Option (List Nat)) (a : Nat)
    (cs q : List Nat) (hcs : ((fa a).map (·.1)).getD [] = cs) (hq : fi a = some q) : pl fa fi a = cs ++ q := by
  unfold pl; rw [hcs, hq]; rfl

/-- M1: a live idle connection goes to the end of the active list -/
theorem inv2_take (s : State) (h : Inv2 s) (a clock id : Nat) (rest cs : List Nat) (cur : Nat)
    (hI : lk s.idle a = some (id :: rest)) (hcs : ((lk s.active a).map (·.1)).getD [] = cs) :
    Inv2 (setA (updPc (setI s a rest) id (fun p => { p with lastUse := clock })) a (cs ++ [id], cur)) := by
  obtain ⟨ka, ki, v⟩ := h
  have hP := pl_of_eq _ _ a cs _ hcs hI
  refine ⟨?_, ?_, ?_⟩
  · fsimp; exact keys_lset _ _ _ ka
  · fsimp; exact keys_lset _ _ _ ki
  · fsimp
    have hE : plOf (some (cs ++ [id], cur)) (some rest) = cs ++ id :: rest := by simp [plOf]
    refine (v.updF id _ (lastUse_ok clock)).pool a _ _ ?_ ?_ ?_ ?_ ?_ ?_
    · intro j hj; rw [hP, ← hE]; exact hj
    · intro j p hj hn; rw [hP, ← hE] at hj; exact absurd hj hn
    · rw [hE, ← hP]; exact v.nd a
    · rw [hE, ← hP]; exact v.len a
    · have := v.ilen a; rw [hI] at this; simp at this ⊢; omega
    · intro cs' cur' e; injection e with e; injection e with e; subst e; simp

theorem closed_of_not_alive {mc mi n : Nat} {fa : Nat → Option (List Nat × Nat)} {fi : Nat → Option (List Nat)}
    {pcs : Nat → Option PConn} (v : VInv mc mi n fa fi pcs) (s : State) (hs : s.pcs = pcs) (id : Nat)
    (hd : isAlive s id = false) (p : PConn) (hp : pcs id = some p) : p.isOpen = false := by
  unfold isAlive at hd
  rw [getPc_eq, hs, hp] at hd
  exact v.dead id p hp hd

/-- M2: a dead idle connection is replaced by a fresh one -/
theorem inv2_replace (s : State) (h : Inv2 s) (a clock id : Nat) (rest cs : List Nat) (cur : Nat)
    (hI : lk s.idle a = some (id :: rest)) (hcs : ((lk s.active a).map (·.1)).getD [] = cs)
    (hd : isAlive s id = false) :
    Inv2 (setA (dialSt (updPc (setI s a rest) id (fun p => { p with lastUse := clock })) a clock) a
      (cs ++ [s.nextId], cur)) := by
  obtain ⟨ka, ki, v⟩ := h
  have hP := pl_of_eq _ _ a cs _ hcs hI
  have hnd := v.nd a
  have hlen := v.len a
  rw [hP] at hnd hlen
  have hfresh : s.nextId ∉ cs ++ id :: rest := by
    intro hm; rw [← hP] at hm
    obtain ⟨p, hp, _⟩ := v.addr a _ hm
    rw [v.fresh _ (Nat.le_refl _)] at hp; cases hp
  refine ⟨?_, ?_, ?_⟩
  · fsimp; exact keys_lset _ _ _ ka
  · fsimp; exact keys_lset _ _ _ ki
  · fsimp
    have hE : plOf (some (cs ++ [s.nextId], cur)) (some rest) = cs ++ s.nextId :: rest := by simp [plOf]
    refine (v.updF id _ (lastUse_ok clock)).dialed a clock _ _ ?_ ?_ ?_ ?_ ?_ ?_ ?_
    · rw [hE]; simp
    · intro j hj; rw [hP]; rw [hE] at hj
      simp only [List.mem_append, List.mem_cons] at hj ⊢
      rcases hj with hj | hj | hj
      · right; left; exact hj
      · left; exact hj
      · right; right; right; exact hj
    · intro j p hj hn hp
      rw [hP] at hj; rw [hE] at hn
      have : j = id := by
        simp only [List.mem_append, List.mem_cons, not_or] at hj hn
        rcases hj with hj | hj | hj
        · exact absurd hj hn.1
        · exact hj
        · exact absurd hj hn.2.2
      subst this
      simp only [if_true] at hp
      cases hp0 : s.pcs j with
      | none => rw [hp0] at hp; cases hp
      | some p0 =>
        rw [hp0] at hp; simp at hp; subst hp
        exact closed_of_not_alive v s rfl j hd p0 hp0
    · rw [hE]
      simp only [List.nodup_append, List.nodup_cons, List.mem_append, List.mem_cons, not_or] at hnd hfresh ⊢
      refine ⟨hnd.1, ⟨hfresh.2.2, hnd.2.1.2⟩, ?_⟩
      intro x hx y hy
      rcases hy with hy | hy
      · intro e; rw [e, hy] at hx; exact hfresh.1 hx
      · exact hnd.2.2 x hx y (Or.inr hy)
    · rw [hE]; simp at hlen ⊢; omega
    · have := v.ilen a; rw [hI] at this; simp at this ⊢; omega
    · intro cs' cur' e; injection e with e; injection e with e; subst e; simp

/-- M3: a dead idle connection is dropped -/
theorem inv2_drop (s : State) (h : Inv2 s) (a id : Nat) (rest : List Nat)
    (hI : lk s.idle a = some (id :: rest)) (hd : isAlive s id = false) : Inv2 (setI s a rest) := by
  obtain ⟨ka, ki, v⟩ := h
  have hP : pl (lk s.active) (lk s.idle) a = ((lk s.active a).map (·.1)).getD [] ++ id :: rest :=
    pl_of_eq _ _ a _ _ rfl hI
  have hnd := v.nd a
  have hlen := v.len a
  rw [hP] at hnd hlen
  refine ⟨ka, ?_, ?_⟩
  · fsimp; exact keys_lset _ _ _ ki
  · fsimp
    rw [← upd_self (lk s.active) a]
    have hE : plOf (lk s.active a) (some rest) = ((lk s.active a).map (·.1)).getD [] ++ rest := rfl
    refine v.pool a _ _ ?_ ?_ ?_ ?_ ?_ ?_
    · intro j hj; rw [hP]; rw [hE] at hj
      simp only [List.mem_append, List.mem_cons] at hj ⊢
      rcases hj with hj | hj
      · left; exact hj
      · right; right; exact hj
    · intro j p hj hn hp
      rw [hP] at hj; rw [hE] at hn
      have : j = id := by
        simp only [List.mem_append, List.mem_cons, not_or] at hj hn
        rcases hj with hj | hj | hj
        · exact absurd hj hn.1
        · exact hj
        · exact absurd hj hn.2
      subst this
      exact closed_of_not_alive v s rfl j hd p hp
    · rw [hE]
      simp only [List.nodup_append, List.nodup_cons, List.mem_cons] at hnd ⊢
      exact ⟨hnd.1, hnd.2.1.2, fun x hx y hy => hnd.2.2 x hx y (Or.inr hy)⟩
    · rw [hE]; simp at hlen ⊢; omega
    · have := v.ilen a; rw [hI] at this; simp at this ⊢; omega
    · exact v.ne a

/-- M4: a fresh connection is dialed when the idle queue is empty -/
theorem inv2_dialNew (s : State) (h : Inv2 s) (a clock : Nat) (cs : List Nat) (cur : Nat)
    (hI : lk s.idle a = none ∨ lk s.idle a = some []) (hcs : ((lk s.active a).map (·.1)).getD [] = cs)
    (hlt : cs.length < s.maxConns ∨ cs = []) :
    Inv2 (setA (dialSt s a clock) a (cs ++ [s.nextId], cur)) := by
  obtain ⟨ka, ki, v⟩ := h
  have hq : (lk s.idle a).getD [] = [] := by rcases hI with e | e <;> rw [e] <;> rfl
  have hP : pl (lk s.active) (lk s.idle) a = cs := by unfold pl; rw [hcs, hq]; simp
  have hnd := v.nd a
  rw [hP] at hnd
  have hfresh : s.nextId ∉ cs := by
    intro hm; rw [← hP] at hm
    obtain ⟨p, hp, _⟩ := v.addr a _ hm
    rw [v.fresh _ (Nat.le_refl _)] at hp; cases hp
  refine ⟨?_, ki, ?_⟩
  · fsimp; exact keys_lset _ _ _ ka
  · fsimp
    rw [← upd_self (lk s.idle) a]
    have hE : plOf (some (cs ++ [s.nextId], cur)) (lk s.idle a) = cs ++ [s.nextId] := by
      unfold plOf; rw [hq]; simp
    refine v.dialed a clock _ _ ?_ ?_ ?_ ?_ ?_ ?_ ?_
    · rw [hE]; simp
    · intro j hj; rw [hP]; rw [hE] at hj
      simp only [List.mem_append, List.mem_singleton] at hj
      rcases hj with hj | hj
      · right; exact hj
      · left; exact hj
    · intro j p hj hn hp
      rw [hP] at hj; rw [hE] at hn
      exact absurd (List.mem_append_left _ hj) hn
    · rw [hE]
      simp only [List.nodup_append, List.nodup_cons, List.mem_singleton]
      refine ⟨hnd, ⟨by simp, List.nodup_nil⟩, ?_⟩
      intro x hx y hy e; rw [e, hy] at hx; exact hfresh hx
    · rw [hE]
      rcases hlt with hlt | hlt
      · simp; omega
      · subst hlt; simp; exact Nat.le_trans v.mi_pos v.mi_le
    · exact v.ilen a
    · intro cs' cur' e; injection e with e; injection e with e; subst e; simp

/-- M5: the cursor moves -/
theorem inv2_cursor (s : State) (h : Inv2 s) (a : Nat) (cs : List Nat) (cur cur' : Nat)
    (hA : lk s.active a = some (cs, cur)) : Inv2 (setA s a (cs, cur')) := by
  obtain ⟨ka, ki, v⟩ := h
  refine ⟨?_, ki, ?_⟩
  · fsimp; exact keys_lset _ _ _ ka
  · fsimp
    rw [← upd_self (lk s.idle) a]
    have hP : pl (lk s.active) (lk s.idle) a = plOf (some (cs, cur')) (lk s.idle a) := by
      unfold pl plOf; rw [hA]; rfl
    refine v.pool a _ _ ?_ ?_ ?_ ?_ ?_ ?_
    · intro j hj; rw [hP]; exact hj
    · intro j p hj hn; rw [hP] at hj; exact absurd hj hn
    · rw [← hP]; exact v.nd a
    · rw [← hP]; exact v.len a
    · exact v.ilen a
    · intro cs' cur'' e; injection e with e; injection e with e; subst e; exact v.ne a cs cur hA

theorem getElem?_split (cs : List Nat) (i id : Nat) (h : cs[i]? = some id) :
    ∃ l1 l2, cs = l1 ++ id :: l2 ∧ ∀ n, cs.set i n = l1 ++ n :: l2 := by
  induction cs generalizing i with
  | nil => simp at h
  | cons c cs ih =>
    cases i with
    | zero => simp at h; subst h; exact ⟨[], cs, rfl, fun n => rfl⟩
    | succ i =>
      simp at h
      obtain ⟨l1, l2, e1, e2⟩ := ih i h
      refine ⟨c :: l1, l2, by rw [e1]; rfl, fun n => ?_⟩
      rw [List.set_cons_succ, e2]; rfl

/-- M6: the dead connection under the cursor is replaced by a fresh one -/
theorem inv2_cursorReplace (s : State) (h : Inv2 s) (a clock : Nat) (cs : List Nat) (cur cur' i id : Nat)
    (hA : lk s.active a = some (cs, cur)) (hi : cs[i]? = some id) (hd : isAlive s id = false) :
    Inv2 (setA (dialSt (setA s a (cs, cur')) a clock) a (cs.set i s.nextId, i)) := by
  obtain ⟨ka, ki, v⟩ := h
  obtain ⟨l1, l2, e1, e2⟩ := getElem?_split cs i id hi
  rw [e2]
  have hP : pl (lk s.active) (lk s.idle) a = (l1 ++ id :: l2) ++ (lk s.idle a).getD [] := by
    unfold pl; rw [hA, e1]; rfl
  have hnd := v.nd a
  have hlen := v.len a
  rw [hP] at hnd hlen
  have hfresh : s.nextId ∉ (l1 ++ id :: l2) ++ (lk s.idle a).getD [] := by
    intro hm; rw [← hP] at hm
    obtain ⟨p, hp, _⟩ := v.addr a _ hm
    rw [v.fresh _ (Nat.le_refl _)] at hp; cases hp
  refine ⟨?_, ki, ?_⟩
  · fsimp; exact keys_lset _ _ _ (keys_lset _ _ _ ka)
  · fsimp
    rw [upd_upd, ← upd_self (lk s.idle) a]
    have hE : plOf (some (l1 ++ s.nextId :: l2, i)) (lk s.idle a) = (l1 ++ s.nextId :: l2) ++ (lk s.idle a).getD [] := rfl
    refine v.dialed a clock _ _ ?_ ?_ ?_ ?_ ?_ ?_ ?_
    · rw [hE]; simp
    · intro j hj; rw [hP]; rw [hE] at hj
      simp only [List.mem_append, List.mem_cons] at hj ⊢
      rcases hj with (hj | hj | hj) | hj
      · right; left; left; exact hj
      · left; exact hj
      · right; left; right; right; exact hj
      · right; right; exact hj
    · intro j p hj hn hp
      rw [hP] at hj; rw [hE] at hn
      have : j = id := by
        simp only [List.mem_append, List.mem_cons, not_or] at hj hn
        rcases hj with (hj | hj | hj) | hj
        · exact absurd hj hn.1.1
        · exact hj
        · exact absurd hj hn.1.2.2
        · exact absurd hj hn.2
      subst this
      exact closed_of_not_alive v s rfl j hd p hp
    · rw [hE]
      simp only [List.nodup_append, List.nodup_cons, List.mem_append, List.mem_cons, not_or] at hnd hfresh ⊢
      obtain ⟨⟨n1, ⟨n2, n3⟩, n4⟩, n5, n6⟩ := hnd
      refine ⟨⟨n1, ⟨hfresh.1.2.2, n3⟩, ?_⟩, n5, ?_⟩
      · intro x hx y hy
        rcases hy with hy | hy
        · intro e; rw [e, hy] at hx; exact hfresh.1.1 hx
        · exact n4 x hx y (Or.inr hy)
      · intro x hx y hy
        rcases hx with hx | hx | hx
        · exact n6 x (Or.inl hx) y hy
        · intro e; rw [← e, hx] at hy; exact hfresh.2 hy
        · exact n6 x (Or.inr (Or.inr hx)) y hy
    · rw [hE]; simp at hlen ⊢; omega
    · exact v.ilen a
    · intro cs' cur'' e; injection e with e; injection e with e; subst e; simp

theorem inv2_fod (s : State) (h : Inv2 s) (a clock : Nat) (cs : List Nat) (cur : Nat)
    (hcs : ((lk s.active a).map (·.1)).getD [] = cs) (hlt : cs.length < s.maxConns ∨ cs = []) :
    Inv2 (match fromIdleOrDial s a clock with
      | some (s', id) => (setA s' a (cs ++ [id], cur), some id)
      | none => ((match lookupI s a with | some (_ :: rest) => setI s a rest | _ => s), none)).1 := by
  rcases fod_cases s a clock with ⟨id, rest, hI, hal, hf⟩ | ⟨id, rest, hI, hal, hu, hf⟩ |
    ⟨id, rest, hI, hal, hu, hf⟩ | ⟨hI, hu, hf⟩ | ⟨hI, hu, hf⟩
  · rw [hf]; exact inv2_take s h a clock id rest cs cur hI hcs
  · rw [hf]; exact inv2_replace s h a clock id rest cs cur hI hcs hal
  · rw [hf, hI]; exact inv2_drop s h a id rest hI hal
  · rw [hf]; exact inv2_dialNew s h a clock cs cur hI hcs hlt
  · rw [hf]
    rcases hI with hI | hI <;> rw [hI] <;> exact h

theorem inv2_getConnCore (s : State) (h : Inv2 s) (a clock : Nat) : Inv2 (getConnCore s a clock).1 := by
  unfold getConnCore
  cases hA : lookupA s a with
  | none =>
    have hcs : ((lk s.active a).map (·.1)).getD [] = [] := by rw [← lookupA_eq, hA]; rfl
    exact inv2_fod s h a clock [] 0 hcs (Or.inr rfl)
  | some v =>
    obtain ⟨cs, cur⟩ := v
    have hcs : ((lk s.active a).map (·.1)).getD [] = cs := by rw [← lookupA_eq, hA]; rfl
    simp only
    split
    · next hlt => exact inv2_fod s h a clock cs cur hcs (Or.inl hlt)
    · have h1 := inv2_cursor s h a cs cur (Gen.cursorNext cur cs.length) hA
      split
      · next id hid =>
        split
        · exact h1.updPc id _ (lastUse_ok _)
        · next hal =>
          have hal' : isAlive s id = false := by
            have : isAlive (setA s a (cs, Gen.cursorNext cur cs.length)) id = isAlive s id := rfl
            rw [← this]; simpa using hal
          rw [dial_eq, setA_up, setA_nextId]
          cases hu : s.up a
          · exact h1
          · exact inv2_cursorReplace s h a clock cs cur _ _ id hA hid hal'
      · exact h1

theorem inv2_getConn (s : State) (h : Inv2 s) (a clock : Nat) : Inv2 (getConn s a clock).1 := by
  rw [getConn_eq]; exact inv2_getConnCore _ (inv2_pre s clock h) a clock

/-! ### tick: the idle queues -/

theorem close_ok : ∀ p : PConn, ({ p with isOpen := false } : PConn).id = p.id ∧
    ({ p with isOpen := false } : PConn).addr = p.addr ∧
    (({ p with isOpen := false } : PConn).isOpen = true → p.isOpen = true) ∧
    ((p.alive = false → p.isOpen = false) → ({ p with isOpen := false } : PConn).alive = false →
      ({ p with isOpen := false } : PConn).isOpen = false) :=
  fun _ => ⟨rfl, rfl, fun h => Bool.noConfusion h, fun _ _ => rfl⟩

/-- M7: the front of an idle queue is closed and dropped -/
theorem inv2_closeFront (s : State) (h : Inv2 s) (a id : Nat) (rest : List Nat)
    (hI : lk s.idle a = some (id :: rest)) : Inv2 (closePc (setI s a rest) id) := by
  obtain ⟨ka, ki, v⟩ := h
  have hP : pl (lk s.active) (lk s.idle) a = ((lk s.active a).map (·.1)).getD [] ++ id :: rest :=
    pl_of_eq _ _ a _ _ rfl hI
  have hnd := v.nd a
  have hlen := v.len a
  rw [hP] at hnd hlen
  refine ⟨ka, ?_, ?_⟩
  · fsimp; exact keys_lset _ _ _ ki
  · fsimp
    rw [← upd_self (lk s.active) a]
    have hE : plOf (lk s.active a) (some rest) = ((lk s.active a).map (·.1)).getD [] ++ rest := rfl
    refine (v.updF id _ close_ok).pool a _ _ ?_ ?_ ?_ ?_ ?_ ?_
    · intro j hj; rw [hP]; rw [hE] at hj
      simp only [List.mem_append, List.mem_cons] at hj ⊢
      rcases hj with hj | hj
      · left; exact hj
      · right; right; exact hj
    · intro j p hj hn hp
      rw [hP] at hj; rw [hE] at hn
      have : j = id := by
        simp only [List.mem_append, List.mem_cons, not_or] at hj hn
        rcases hj with hj | hj | hj
        · exact absurd hj hn.1
        · exact hj
        · exact absurd hj hn.2
      subst this
      simp only [if_true] at hp
      cases hp0 : s.pcs j with
      | none => rw [hp0] at hp; cases hp
      | some p0 => rw [hp0] at hp; simp at hp; subst hp; rfl
    · rw [hE]
      simp only [List.nodup_append, List.nodup_cons, List.mem_cons] at hnd ⊢
      exact ⟨hnd.1, hnd.2.1.2, fun x hx y hy => hnd.2.2 x hx y (Or.inr hy)⟩
    · rw [hE]; simp at hlen ⊢; omega
    · have := v.ilen a; rw [hI] at this; simp at this ⊢; omega
    · exact v.ne a

/-- M8: an empty idle queue is deleted -/
theorem inv2_delI (s : State) (h : Inv2 s) (a : Nat) (hI : lk s.idle a = some []) : Inv2 (delI s a) := by
  obtain ⟨ka, ki, v⟩ := h
  refine ⟨ka, ?_, ?_⟩
  · fsimp; exact keys_ldel _ _ ki
  · fsimp
    rw [← upd_self (lk s.active) a]
    have hP : pl (lk s.active) (lk s.idle) a = plOf (lk s.active a) none := by
      unfold pl plOf; rw [hI]; rfl
    refine v.pool a _ _ ?_ ?_ ?_ ?_ ?_ ?_
    · intro j hj; rw [hP]; exact hj
    · intro j p hj hn; rw [hP] at hj; exact absurd hj hn
    · rw [← hP]; exact v.nd a
    · rw [← hP]; exact v.len a
    · exact Nat.zero_le _
    · exact v.ne a

theorem inv2_tickIdleQueue (s : State) (h : Inv2 s) (a clock n : Nat) : Inv2 (tickIdleQueue s a clock n) := by
  induction n generalizing s with
  | zero => exact h
  | succ n ih =>
    unfold tickIdleQueue
    split
    · next front rest hI =>
      simp only
      split
      · split
        · exact ih _ (inv2_closeFront s h a front rest hI)
        · exact ih s h
      · exact h
    · exact h

theorem inv2_tickIdle_fold (l : List (Nat × List Nat)) (s : State) (h : Inv2 s) (clock : Nat) :
    Inv2 (l.foldl (fun s e =>
      let s := tickIdleQueue s e.1 clock e.2.length
      match lookupI s e.1 with
      | some [] => delI s e.1
      | _ => s) s) := by
  induction l generalizing s with
  | nil => exact h
  | cons e l ih =>
    rw [List.foldl_cons]
    apply ih
    have h1 := inv2_tickIdleQueue s h e.1 clock e.2.length
    simp only
    split
    · next hI => exact inv2_delI _ h1 e.1 hI
    · exact h1

theorem inv2_tickIdle (s : State) (h : Inv2 s) (clock : Nat) : Inv2 (tickIdle s clock) :=
  inv2_tickIdle_fold s.idle s h clock

/-! ### sweeping the active map (tick and CloseIdleConnections) -/

/-- the entry of an active list being rebuilt -/
def vx (L : List Nat) (cur : Nat) : Option (List Nat × Nat) := if L.isEmpty then none else some (L, cur)

def virt (s : State) (a : Nat) (L : List Nat) (cur : Nat) : State :=
  if L.isEmpty then delA s a else setA s a (L, cur)

def sweepStep (G : Nat → State × List Nat → Nat → State × List Nat) (s : State) (e : Nat × List Nat × Nat) : State :=
  virt (e.2.1.foldl (G e.1) (s, [])).1 e.1 (e.2.1.foldl (G e.1) (s, [])).2 e.2.2

def sweep (G : Nat → State × List Nat → Nat → State × List Nat) (s : State) : State :=
  s.active.foldl (sweepStep G) s

theorem tickActive_eq (s : State) (clock : Nat) :
    tickActive s clock = sweep (fun a st id => tickActiveOne st.1 a clock st.2 id) s := rfl

/-- the invariant while the active list of `a` is being rebuilt as `L` -/
def RInv (s : State) (a : Nat) (L : List Nat) (cur : Nat) : Prop :=
  (keys s.active).Nodup ∧ (keys s.idle).Nodup ∧
    VInv s.maxConns s.maxIdle s.nextId (upd (lk s.active) a (vx L cur)) (lk s.idle) s.pcs

theorem plOf_vx (L : List Nat) (cur : Nat) (y : Option (List Nat)) : plOf (vx L cur) y = L ++ y.getD [] := by
  unfold plOf vx
  cases L <;> rfl

theorem vx_ne (L : List Nat) (cur : Nat) : ∀ cs cur', vx L cur = some (cs, cur') → cs ≠ [] := by
  intro cs cur' h
  unfold vx at h
  cases L with
  | nil => cases h
  | cons x L => simp at h; rw [← h.1]; simp

theorem rinv_virt (s : State) (a : Nat) (L : List Nat) (cur : Nat) (h : RInv s a L cur) : Inv2 (virt s a L cur) := by
  obtain ⟨ka, ki, v⟩ := h
  unfold virt
  unfold vx at v
  split
  · next he => rw [if_pos he] at v; exact ⟨keys_ldel _ _ ka, ki, by fsimp; exact v⟩
  · next he => rw [if_neg he] at v; exact ⟨keys_lset _ _ _ ka, ki, by fsimp; exact v⟩

theorem rinv_of_inv2 (s : State) (h : Inv2 s) (a : Nat) (cs : List Nat) (cur : Nat)
    (hA : lk s.active a = some (cs, cur)) : RInv s a cs cur := by
  obtain ⟨ka, ki, v⟩ := h
  refine ⟨ka, ki, ?_⟩
  have : vx cs cur = lk s.active a := by
    unfold vx
    cases cs with
    | nil => exact absurd rfl (v.ne a [] cur hA)
    | cons x cs => rw [hA]; rfl
  rw [this, upd_self]; exact v

theorem virt_active (s : State) (a : Nat) (L : List Nat) (cur : Nat) (b : Nat) (hb : b ≠ a) :
    lk (virt s a L cur).active b = lk s.active b := by
  unfold virt
  split
  · fsimp; unfold upd; simp [hb]
  · fsimp; unfold upd; simp [hb]

theorem sweep_inner (G : Nat → State × List Nat → Nat → State × List Nat) (a cur : Nat)
    (Gstep : ∀ s keep id rem, RInv s a (keep ++ id :: rem) cur →
      RInv (G a (s, keep) id).1 a ((G a (s, keep) id).2 ++ rem) cur)
    (rem : List Nat) : ∀ (s : State) (keep : List Nat), RInv s a (keep ++ rem) cur →
      RInv (rem.foldl (G a) (s, keep)).1 a (rem.foldl (G a) (s, keep)).2 cur := by
  induction rem with
  | nil => intro s keep h; simpa using h
  | cons id rem ih =>
    intro s keep h
    rw [List.foldl_cons]
    exact ih _ _ (Gstep s keep id rem h)

theorem sweep_inner_active (G : Nat → State × List Nat → Nat → State × List Nat) (a : Nat)
    (Gact : ∀ st id, (G a st id).1.active = st.1.active)
    (rem : List Nat) : ∀ (st : State × List Nat), (rem.foldl (G a) st).1.active = st.1.active := by
  induction rem with
  | nil => intro st; rfl
  | cons id rem ih => intro st; rw [List.foldl_cons, ih, Gact]

theorem sweep_fold (G : Nat → State × List Nat → Nat → State × List Nat)
    (Gstep : ∀ a cur s keep id rem, RInv s a (keep ++ id :: rem) cur →
      RInv (G a (s, keep) id).1 a ((G a (s, keep) id).2 ++ rem) cur)
    (Gact : ∀ a st id, (G a st id).1.active = st.1.active)
    (l : List (Nat × List Nat × Nat)) : ∀ (s : State), (keys l).Nodup →
      (∀ a cs cur, (a, cs, cur) ∈ l → lk s.active a = some (cs, cur)) → Inv2 s →
      Inv2 (l.foldl (sweepStep G) s) := by
  induction l with
  | nil => intro s _ _ h; exact h
  | cons e l ih =>
    intro s hn hl h
    obtain ⟨a, cs, cur⟩ := e
    rw [List.foldl_cons]
    simp only [keys, List.map_cons, List.nodup_cons] at hn
    have hA := hl a cs cur List.mem_cons_self
    have h1 := sweep_inner G a cur (Gstep a cur) cs s [] (by simpa using rinv_of_inv2 s h a cs cur hA)
    have h2 := rinv_virt _ _ _ _ h1
    apply ih _ hn.2 _ h2
    intro b cs' cur' hm
    have hb : b ≠ a := fun e => hn.1 (e ▸ mem_keys l b _ hm)
    show lk (virt _ a _ cur).active b = _
    rw [virt_active _ _ _ _ _ hb, sweep_inner_active G a (Gact a)]
    exact hl b cs' cur' (List.mem_cons_of_mem _ hm)

theorem inv2_sweep (G : Nat → State × List Nat → Nat → State × List Nat)
    (Gstep : ∀ a cur s keep id rem, RInv s a (keep ++ id :: rem) cur →
      RInv (G a (s, keep) id).1 a ((G a (s, keep) id).2 ++ rem) cur)
    (Gact : ∀ a st id, (G a st id).1.active = st.1.active)
    (s : State) (h : Inv2 s) : Inv2 (sweep G s) := by
  apply sweep_fold G Gstep Gact s.active s h.1 _ h
  intro a cs cur hm
  exact mem_lk _ h.1 _ _ hm

theorem upd_same {β : Type} (f : Nat → β) (a : Nat) (x : β) : upd f a x a = x := by unfold upd; simp

theorem pl_vx (fa : Nat → Option (List Nat × Nat)) (fi : Nat → Option (List Nat)) (a : Nat) (L : List Nat) (cur : Nat) :
    pl (upd fa a (vx L cur)) fi a = L ++ (fi a).getD [] := by
  rw [pl_eq_plOf, upd_same, plOf_vx]

theorem rinv_keep (s : State) (a : Nat) (keep rem : List Nat) (id cur : Nat)
    (h : RInv s a (keep ++ id :: rem) cur) : RInv s a ((keep ++ [id]) ++ rem) cur := by
  have : (keep ++ [id]) ++ rem = keep ++ id :: rem := by simp
  rw [this]; exact h

theorem rinv_pcs (s : State) (a : Nat) (keep rem : List Nat) (id cur : Nat)
    (h : RInv s a (keep ++ id :: rem) cur) : ∃ p, s.pcs id = some p := by
  obtain ⟨_, _, v⟩ := h
  have : id ∈ pl (upd (lk s.active) a (vx (keep ++ id :: rem) cur)) (lk s.idle) a := by
    rw [pl_vx]; simp
  obtain ⟨p, hp, _⟩ := v.addr a id this
  exact ⟨p, hp⟩

/-- a connection of the active list being rebuilt is closed and left out -/
theorem rinv_close (s : State) (a : Nat) (keep rem : List Nat) (id cur : Nat)
    (h : RInv s a (keep ++ id :: rem) cur) : RInv (closePc s id) a (keep ++ rem) cur := by
  obtain ⟨ka, ki, v⟩ := h
  refine ⟨ka, ki, ?_⟩
  fsimp
  have hP := pl_vx (lk s.active) (lk s.idle) a (keep ++ id :: rem) cur
  have hnd := v.nd a
  have hlen := v.len a
  rw [hP] at hnd hlen
  have hE := plOf_vx (keep ++ rem) cur (lk s.idle a)
  have key := (v.updF id _ close_ok).pool a (vx (keep ++ rem) cur) (lk s.idle a) ?_ ?_ ?_ ?_ (v.ilen a) (vx_ne _ _)
  · rw [upd_upd, upd_self] at key; exact key
  · intro j hj; rw [hP]; rw [hE] at hj
    simp only [List.mem_append, List.mem_cons] at hj ⊢
    rcases hj with (hj | hj) | hj
    · left; left; exact hj
    · left; right; right; exact hj
    · right; exact hj
  · intro j p hj hn hp
    rw [hP] at hj; rw [hE] at hn
    have : j = id := by
      simp only [List.mem_append, List.mem_cons, not_or] at hj hn
      rcases hj with (hj | hj | hj) | hj
      · exact absurd hj hn.1.1
      · exact hj
      · exact absurd hj hn.1.2
      · exact absurd hj hn.2
    subst this
    simp only [if_true] at hp
    cases hp0 : s.pcs j with
    | none => rw [hp0] at hp; cases hp
    | some p0 => rw [hp0] at hp; simp at hp; subst hp; rfl
  · rw [hE]
    simp only [List.nodup_append, List.nodup_cons, List.mem_append, List.mem_cons] at hnd ⊢
    obtain ⟨⟨n1, ⟨n2, n3⟩, n4⟩, n5, n6⟩ := hnd
    refine ⟨⟨n1, n3, fun x hx y hy => n4 x hx y (Or.inr hy)⟩, n5, ?_⟩
    intro x hx y hy
    rcases hx with hx | hx
    · exact n6 x (Or.inl hx) y hy
    · exact n6 x (Or.inr (Or.inr hx)) y hy
  · rw [hE]; simp at hlen ⊢; omega

/-- a connection of the active list being rebuilt is retired to the idle queue -/
theorem rinv_move (s : State) (a : Nat) (keep rem : List Nat) (id cur : Nat)
    (h : RInv s a (keep ++ id :: rem) cur) (hlt : ((lk s.idle a).getD []).length < s.maxIdle) :
    RInv (setI s a ((lk s.idle a).getD [] ++ [id])) a (keep ++ rem) cur := by
  obtain ⟨ka, ki, v⟩ := h
  refine ⟨ka, ?_, ?_⟩
  · fsimp; exact keys_lset _ _ _ ki
  fsimp
  have hP := pl_vx (lk s.active) (lk s.idle) a (keep ++ id :: rem) cur
  have hnd := v.nd a
  have hlen := v.len a
  rw [hP] at hnd hlen
  have hE := plOf_vx (keep ++ rem) cur (some ((lk s.idle a).getD [] ++ [id]))
  simp only [Option.getD_some] at hE
  have key := v.pool a (vx (keep ++ rem) cur) (some ((lk s.idle a).getD [] ++ [id])) ?_ ?_ ?_ ?_ ?_ (vx_ne _ _)
  · rw [upd_upd] at key; exact key
  · intro j hj; rw [hP]; rw [hE] at hj
    simp only [List.mem_append, List.mem_cons, List.not_mem_nil, or_false] at hj ⊢
    rcases hj with (hj | hj) | (hj | hj)
    · left; left; exact hj
    · left; right; right; exact hj
    · right; exact hj
    · left; right; left; exact hj
  · intro j p hj hn hp
    rw [hP] at hj; rw [hE] at hn
    exfalso; apply hn
    simp only [List.mem_append, List.mem_cons, List.not_mem_nil, or_false] at hj ⊢
    rcases hj with (hj | hj | hj) | hj
    · left; left; exact hj
    · right; right; exact hj
    · left; right; exact hj
    · right; left; exact hj
  · rw [hE]
    simp only [List.nodup_append, List.nodup_cons, List.mem_append, List.mem_cons, List.not_mem_nil, or_false] at hnd ⊢
    obtain ⟨⟨n1, ⟨n2, n3⟩, n4⟩, n5, n6⟩ := hnd
    refine ⟨⟨n1, n3, fun x hx y hy => n4 x hx y (Or.inr hy)⟩, ⟨n5, ⟨by simp, List.nodup_nil⟩, ?_⟩, ?_⟩
    · intro x hx y hy e; rw [e, hy] at hx; exact n6 id (Or.inr (Or.inl rfl)) id hx rfl
    · intro x hx y hy
      rcases hx with hx | hx <;> rcases hy with hy | hy
      · exact n6 x (Or.inl hx) y hy
      · intro e; rw [e, hy] at hx; exact n4 id hx id (Or.inl rfl) rfl
      · exact n6 x (Or.inr (Or.inr hx)) y hy
      · intro e; rw [e, hy] at hx; exact n2 hx
  · rw [hE]; simp at hlen ⊢; omega
  · simp; omega

/-! ### tick -/

theorem tick_Gstep (clock : Nat) (a cur : Nat) (s : State) (keep : List Nat) (id : Nat) (rem : List Nat)
    (h : RInv s a (keep ++ id :: rem) cur) :
    RInv (tickActiveOne s a clock keep id).1 a ((tickActiveOne s a clock keep id).2 ++ rem) cur := by
  obtain ⟨p, hp⟩ := rinv_pcs s a keep rem id cur h
  unfold tickActiveOne
  rw [getPc_eq, hp]
  simp only
  split
  · cases hI : lookupI s a with
    | none =>
      simp only
      have e : (lk s.idle a).getD [] = [] := by rw [← lookupI_eq, hI]; rfl
      have := rinv_move s a keep rem id cur h (by rw [e]; exact h.2.2.mi_pos)
      rw [e] at this; exact this
    | some q =>
      simp only
      have e : (lk s.idle a).getD [] = q := by rw [← lookupI_eq, hI]; rfl
      split
      · exact rinv_close s a keep rem id cur h
      · next hne =>
        have hle := h.2.2.ilen a
        rw [e] at hle
        have := rinv_move s a keep rem id cur h (by rw [e]; simp at hne; omega)
        rw [e] at this; exact this
  · exact rinv_keep s a keep rem id cur h

theorem tick_Gact (clock : Nat) (a : Nat) (st : State × List Nat) (id : Nat) :
    (tickActiveOne st.1 a clock st.2 id).1.active = st.1.active := by
  unfold tickActiveOne
  split
  · split
    · split
      · split <;> rfl
      · rfl
    · rfl
  · rfl

theorem inv2_tickActive (s : State) (h : Inv2 s) (clock : Nat) : Inv2 (tickActive s clock) := by
  rw [tickActive_eq]
  exact inv2_sweep _ (fun a cur s keep id rem => tick_Gstep clock a cur s keep id rem)
    (fun a st id => tick_Gact clock a st id) s h

theorem inv2_tick (s : State) (h : Inv2 s) (clock : Nat) : Inv2 (tick s clock) := by
  unfold tick
  split
  · exact h
  · apply inv2_tickIdle
    apply inv2_tickActive
    exact h

/-! ### closing sets of connections -/

/-- close every connection selected by `c` -/
def closeB (s : State) (c : Nat → Bool) : State :=
  { s with pcs := fun j => if c j then (s.pcs j).map (fun p => { p with isOpen := false }) else s.pcs j }

theorem closeB_false (s : State) : closeB s (fun _ => false) = s := by
  unfold closeB; simp

theorem closePc_closeB (s : State) (c : Nat → Bool) (id : Nat) :
    closePc (closeB s c) id = closeB s (fun j => c j || j == id) := by
  unfold closePc updPc closeB
  simp only
  congr 1
  funext j
  by_cases e : j = id
  · subst e
    by_cases hc : c j = true <;> cases hp : s.pcs j <;> simp [hc]
  · by_cases hc : c j = true <;> simp [hc, e]

theorem foldl_closePc_closeB (l : List Nat) (s : State) (c : Nat → Bool) :
    l.foldl closePc (closeB s c) = closeB s (fun j => c j || l.contains j) := by
  induction l generalizing c with
  | nil => simp
  | cons id l ih =>
    rw [List.foldl_cons, closePc_closeB, ih]
    congr 1
    funext j
    simp only [List.contains_cons, Bool.or_assoc]

theorem foldl_foldl_closePc_closeB {β : Type} (g : β → List Nat) (L : List β) (s : State) (c : Nat → Bool) :
    L.foldl (fun s e => (g e).foldl closePc s) (closeB s c) =
      closeB s (fun j => c j || L.any (fun e => (g e).contains j)) := by
  induction L generalizing c with
  | nil => simp
  | cons e L ih =>
    rw [List.foldl_cons, foldl_closePc_closeB, ih]
    congr 1
    funext j
    simp only [List.any_cons, Bool.or_assoc]

theorem foldl_foldl_closePc {β : Type} (g : β → List Nat) (L : List β) (s : State) :
    L.foldl (fun s e => (g e).foldl closePc s) s = closeB s (fun j => L.any (fun e => (g e).contains j)) := by
  have := foldl_foldl_closePc_closeB g L s (fun _ => false)
  rw [closeB_false] at this
  rw [this]; simp

theorem VInv.closeB {mc mi n : Nat} {fa : Nat → Option (List Nat × Nat)} {fi : Nat → Option (List Nat)}
    {pcs : Nat → Option PConn} (v : VInv mc mi n fa fi pcs) (c : Nat → Bool) :
    VInv mc mi n fa fi (fun j => if c j then (pcs j).map (fun p => { p with isOpen := false }) else pcs j) := by
  apply v.updPcs
  intro j
  cases hp : pcs j with
  | none => left; by_cases hc : c j = true <;> simp [hc]
  | some p =>
    right
    by_cases hc : c j = true
    · exact ⟨p, { p with isOpen := false }, rfl, by simp [hc], rfl, rfl, fun h => Bool.noConfusion h, fun _ => rfl⟩
    · exact ⟨p, p, rfl, by simp [hc], rfl, rfl, fun h => h, v.dead j p hp⟩

/-- all idle queues are dropped once their connections are closed -/
theorem VInv.clearIdle {mc mi n : Nat} {fa : Nat → Option (List Nat × Nat)} {fi : Nat → Option (List Nat)}
    {pcs : Nat → Option PConn} (v : VInv mc mi n fa fi pcs)
    (hc : ∀ a id p, id ∈ (fi a).getD [] → pcs id = some p → p.isOpen = false) :
    VInv mc mi n fa (fun _ => none) pcs := by
  have hpl : ∀ a, pl fa fi a = pl fa (fun _ => none) a ++ (fi a).getD [] := by
    intro a; unfold pl; simp
  refine ⟨v.mi_pos, v.mi_le, v.ne, ?_, ?_, ?_, ?_, v.pid, v.fresh, v.dead, ?_⟩
  · intro a; have := v.len a; rw [hpl, List.length_append] at this; omega
  · intro a; exact Nat.zero_le _
  · intro a; have := v.nd a; rw [hpl, List.nodup_append] at this; exact this.1
  · intro a id hm; exact v.addr a id (by rw [hpl]; exact List.mem_append_left _ hm)
  · intro id p hp ho
    have := v.opn id p hp ho
    rw [hpl, List.mem_append] at this
    rcases this with h | h
    · exact h
    · have := hc p.addr id p h hp; rw [ho] at this; cases this

/-- everything is dropped once every connection is closed -/
theorem VInv.clearAll {mc mi n : Nat} {fa : Nat → Option (List Nat × Nat)} {fi : Nat → Option (List Nat)}
    {pcs : Nat → Option PConn} (v : VInv mc mi n fa fi pcs)
    (hc : ∀ id p, pcs id = some p → p.isOpen = false) :
    VInv mc mi n (fun _ => none) (fun _ => none) pcs := by
  have hpl : ∀ a, pl (fun _ => none) (fun _ => none) a = [] := fun _ => rfl
  refine ⟨v.mi_pos, v.mi_le, ?_, ?_, ?_, ?_, ?_, v.pid, v.fresh, v.dead, ?_⟩
  · intro a cs cur h; cases h
  · intro a; exact Nat.zero_le _
  · intro a; exact Nat.zero_le _
  · intro a; exact List.nodup_nil
  · intro a id hm; cases hm
  · intro id p hp ho; have := hc id p hp; rw [ho] at this; cases this

theorem inv2_closeB (s : State) (h : Inv2 s) (c : Nat → Bool) : Inv2 (closeB s c) :=
  ⟨h.1, h.2.1, h.2.2.closeB c⟩

/-! ### CloseIdleConnections -/

def ciG (_ : Nat) (st : State × List Nat) (id : Nat) : State × List Nat :=
  match getPc st.1 id with
  | some p => if p.calls == 0 || !Gen.closeIdleConnectionsSparesBusy then (closePc st.1 id, st.2) else (st.1, st.2 ++ [id])
  | none => st

theorem closeIdle_eq (s : State) : closeIdleConnections s =
    { (sweep ciG s).idle.foldl (fun s e => e.2.foldl closePc s) (sweep ciG s) with idle := [] } := rfl

theorem ci_Gstep (a cur : Nat) (s : State) (keep : List Nat) (id : Nat) (rem : List Nat)
    (h : RInv s a (keep ++ id :: rem) cur) :
    RInv (ciG a (s, keep) id).1 a ((ciG a (s, keep) id).2 ++ rem) cur := by
  obtain ⟨p, hp⟩ := rinv_pcs s a keep rem id cur h
  unfold ciG
  simp only [getPc_eq, hp]
  split
  · exact rinv_close s a keep rem id cur h
  · exact rinv_keep s a keep rem id cur h

theorem ci_Gact (a : Nat) (st : State × List Nat) (id : Nat) : (ciG a st id).1.active = st.1.active := by
  unfold ciG
  split
  · split <;> rfl
  · rfl

theorem inv2_closeIdle (s : State) (h : Inv2 s) : Inv2 (closeIdleConnections s) := by
  rw [closeIdle_eq, foldl_foldl_closePc]
  have h1 : Inv2 (sweep ciG s) := inv2_sweep ciG ci_Gstep ci_Gact s h
  generalize sweep ciG s = t at h1
  obtain ⟨ka, ki, v⟩ := h1
  refine ⟨ka, List.nodup_nil, ?_⟩
  show VInv t.maxConns t.maxIdle t.nextId (lk t.active) (lk []) _
  have : lk ([] : List (Nat × List Nat)) = fun _ => none := by funext a; rfl
  rw [this]
  apply (v.closeB _).clearIdle
  intro a id p hm hp
  have hc : (t.idle.any fun e => e.2.contains id) = true := by
    cases hI : lk t.idle a with
    | none => rw [hI] at hm; cases hm
    | some q =>
      rw [hI] at hm
      exact List.any_eq_true.2 ⟨(a, q), lk_some_mem _ _ _ hI, by simpa using hm⟩
  simp only [hc, if_true] at hp
  cases hp0 : t.pcs id with
  | none => rw [hp0] at hp; cases hp
  | some p0 => rw [hp0] at hp; simp at hp; subst hp; rfl

/-! ### Close -/

theorem mem_allPooled_bool (s : State) (id : Nat) :
    id ∈ allPooled s ↔ ((s.active.any fun e => e.2.1.contains id) || (s.idle.any fun e => e.2.contains id)) = true := by
  unfold allPooled
  simp only [List.mem_append, List.mem_flatten, List.mem_map, Bool.or_eq_true, List.any_eq_true,
    List.contains_iff_mem]
  constructor
  · rintro (⟨_, ⟨e, he, rfl⟩, hm⟩ | ⟨_, ⟨e, he, rfl⟩, hm⟩)
    · left; exact ⟨e, he, hm⟩
    · right; exact ⟨e, he, hm⟩
  · rintro (⟨e, he, hm⟩ | ⟨e, he, hm⟩)
    · left; exact ⟨_, ⟨e, he, rfl⟩, hm⟩
    · right; exact ⟨_, ⟨e, he, rfl⟩, hm⟩

def closeAllMid (s0 : State) : State :=
  let s := { s0 with closed := true }
  let s := s.active.foldl (fun s e => e.2.1.foldl closePc s) s
  s.idle.foldl (fun s e => e.2.foldl closePc s) s

theorem closeAll_run (s : State) (hc : s.closed = false) (hr : s.running = true) :
    closeAll s = { closeAllMid s with active := [], idle := [], stopped := true } := by
  unfold closeAll
  split
  · next h => rw [hc] at h; cases h
  · simp only []
    split
    · next h => simp [hr] at h
    · rfl

theorem closeAllMid_eq (s : State) : closeAllMid s = closeB { s with closed := true }
    (fun j => (s.active.any fun e => e.2.1.contains j) || (s.idle.any fun e => e.2.contains j)) := by
  unfold closeAllMid
  simp only []
  rw [foldl_foldl_closePc (fun e : Nat × List Nat × Nat => e.2.1)]
  rw [foldl_foldl_closePc_closeB (fun e : Nat × List Nat => e.2)]
  rfl

theorem closeAll_pcs_closed (s : State) (h : Inv2 s) (id : Nat) (p : PConn)
    (hp : (closeB { s with closed := true }
      (fun j => (s.active.any fun e => e.2.1.contains j) || (s.idle.any fun e => e.2.contains j))).pcs id = some p) :
    p.isOpen = false := by
  unfold closeB at hp
  simp only at hp
  split at hp
  · cases hp0 : s.pcs id with
    | none => rw [hp0] at hp; cases hp
    | some p0 => rw [hp0] at hp; simp at hp; subst hp; rfl
  · next hc =>
    cases ho : p.isOpen with
    | false => rfl
    | true =>
      exfalso; apply hc
      exact (mem_allPooled_bool s id).1 (mem_allPooled_of_pl s p.addr id (h.2.2.opn id p hp ho))

theorem inv2_closeAll (s : State) (h : Inv2 s) : Inv2 (closeAll s) := by
  cases hc : s.closed with
  | true => unfold closeAll; rw [if_pos hc]; exact h
  | false =>
    cases hr : s.running with
    | false =>
      unfold closeAll
      rw [if_neg (by simp [hc])]
      simp only []
      rw [if_pos (by simp [hr])]
      exact h
    | true =>
      rw [closeAll_run s hc hr, closeAllMid_eq]
      refine ⟨List.nodup_nil, List.nodup_nil, ?_⟩
      have e : lk ([] : List (Nat × List Nat × Nat)) = fun _ => none := by funext a; rfl
      have e' : lk ([] : List (Nat × List Nat)) = fun _ => none := by funext a; rfl
      show VInv s.maxConns s.maxIdle s.nextId (lk []) (lk []) _
      rw [e, e']
      apply (h.2.2.closeB _).clearAll
      intro id p hp
      exact closeAll_pcs_closed s h id p hp

/-! ### the main theorems -/

theorem inv2_step (s : State) (e : Ev) (h : Inv2 s) : Inv2 (step s e) := by
  cases e with
  | getConn a clock => exact inv2_getConn s h a clock
  | callBegin id => exact h.updPc id _ (fun _ => ⟨rfl, rfl, fun h => h, fun h => h⟩)
  | callEnd id => exact h.updPc id _ (fun _ => ⟨rfl, rfl, fun h => h, fun h => h⟩)
  | stamp id => exact h.updPc id _ (fun _ => ⟨rfl, rfl, fun h => h, fun h => h⟩)
  | fail id => exact h.updPc id _ (fun _ => ⟨rfl, rfl, fun h => Bool.noConfusion h, fun _ _ => rfl⟩)
  | tick clock => exact inv2_tick s h clock
  | closeIdle => exact inv2_closeIdle s h
  | close => exact inv2_closeAll s h
  | peerDies id => exact h.updPc id _ (fun _ => ⟨rfl, rfl, fun h => h, fun h => h⟩)
  | setUp a b => exact h

theorem inv_init (mc mi : Int) (ka ito : Nat) : Inv (init mc mi ka ito) :=
  inv_of_inv2 _ (inv2_init mc mi ka ito)

theorem inv_step (s : State) (e : Ev) (h : Inv s) : Inv (step s e) :=
  inv_of_inv2 _ (inv2_step s e (inv2_of_inv s h))

theorem inv_run_from (s : State) (tr : List Ev) (h : Inv s) : Inv (run s tr) := by
  induction tr generalizing s with
  | nil => exact h
  | cons e tr ih => exact ih (step s e) (inv_step s e h)

theorem inv_run (mc mi : Int) (ka ito : Nat) (tr : List Ev) : Inv (run (init mc mi ka ito) tr) :=
  inv_run_from _ tr (inv_init mc mi ka ito)

/-! ### C13: the limits -/

theorem nodup_subset_length (L : List Nat) : ∀ (M : List Nat), L.Nodup → (∀ x, x ∈ L → x ∈ M) → L.length ≤ M.length := by
  induction L with
  | nil => intro M _ _; exact Nat.zero_le _
  | cons x L ih =>
    intro M hn hs
    rw [List.nodup_cons] at hn
    have hx : x ∈ M := hs x List.mem_cons_self
    have h1 : L.length ≤ (M.erase x).length := by
      apply ih _ hn.2
      intro y hy
      have hne : y ≠ x := fun e => hn.1 (e ▸ hy)
      exact (List.mem_erase_of_ne hne).2 (hs y (List.mem_cons_of_mem _ hy))
    rw [List.length_erase_of_mem hx] at h1
    have := List.length_pos_of_mem hx
    simp only [List.length_cons]
    omega

theorem open_le_max (s : State) (h : Inv s) (a : Nat) : openCount s a ≤ s.maxConns := by
  obtain ⟨_, _, v⟩ := inv2_of_inv s h
  unfold openCount
  refine Nat.le_trans (nodup_subset_length _ (pooled s a) ?_ ?_) (v.len a)
  · exact List.Nodup.sublist List.filter_sublist List.nodup_range
  · intro id hid
    rw [List.mem_filter] at hid
    obtain ⟨_, hf⟩ := hid
    cases hp : s.pcs id with
    | none => rw [hp] at hf; cases hf
    | some p =>
      rw [hp] at hf
      simp only [Bool.and_eq_true, beq_iff_eq] at hf
      have := v.opn id p hp hf.2
      rw [hf.1] at this
      exact this

theorem idle_le_max (s : State) (h : Inv s) (a : Nat) (q : List Nat) (hq : (a, q) ∈ s.idle) :
    q.length ≤ s.maxIdle := (h.1.2.2.2 a q hq).1

/-! ### C14: what getConn hands out -/

theorem mem_pooled_setA (t : State) (a : Nat) (L : List Nat) (cur id : Nat) (hm : id ∈ L) :
    id ∈ pooled (setA t a (L, cur)) a := by
  rw [pooled_eq]; fsimp
  rw [pl_eq_plOf, upd_same]
  unfold plOf
  exact List.mem_append_left _ (by simpa using hm)

theorem alive_some (s : State) (id : Nat) (h : isAlive s id = true) : ∃ p, s.pcs id = some p ∧ p.alive = true := by
  unfold isAlive at h
  rw [getPc_eq] at h
  cases hp : s.pcs id with
  | none => rw [hp] at h; cases h
  | some p => rw [hp] at h; exact ⟨p, rfl, h⟩

theorem res_fod (s : State) (h : Inv2 s) (a clock : Nat) (cs : List Nat) (cur id : Nat)
    (hr : (match fromIdleOrDial s a clock with
      | some (s', id) => (setA s' a (cs ++ [id], cur), some id)
      | none => ((match lookupI s a with | some (_ :: rest) => setI s a rest | _ => s), none)).2 = some id) :
    ∃ p, (match fromIdleOrDial s a clock with
      | some (s', id) => (setA s' a (cs ++ [id], cur), some id)
      | none => ((match lookupI s a with | some (_ :: rest) => setI s a rest | _ => s), none)).1.pcs id = some p ∧
      p.addr = a ∧ p.alive = true ∧ id ∈ pooled (match fromIdleOrDial s a clock with
      | some (s', id) => (setA s' a (cs ++ [id], cur), some id)
      | none => ((match lookupI s a with | some (_ :: rest) => setI s a rest | _ => s), none)).1 a := by
  rcases fod_cases s a clock with ⟨id0, rest, hI, hal, hf⟩ | ⟨id0, rest, hI, hal, hu, hf⟩ |
    ⟨id0, rest, hI, hal, hu, hf⟩ | ⟨hI, hu, hf⟩ | ⟨hI, hu, hf⟩
  · rw [hf] at hr ⊢
    simp only [Option.some.injEq] at hr ⊢
    subst hr
    obtain ⟨p, hp, hpa⟩ := alive_some s id0 hal
    have hm : id0 ∈ pl (lk s.active) (lk s.idle) a :=
      (mem_pl _ _ a id0).2 (Or.inr ⟨_, hI, List.mem_cons_self⟩)
    obtain ⟨p', hp', hpa'⟩ := h.2.2.addr a id0 hm
    rw [hp] at hp'; injection hp' with hp'; subst hp'
    refine ⟨{ p with lastUse := clock }, ?_, hpa', hpa, mem_pooled_setA _ a _ cur id0 (by simp)⟩
    fsimp; simp [hp]
  · rw [hf] at hr ⊢
    simp only [Option.some.injEq] at hr ⊢
    subst hr
    refine ⟨{ id := s.nextId, addr := a, lastUse := clock }, ?_, rfl, rfl, mem_pooled_setA _ a _ cur _ (by simp)⟩
    fsimp; simp
  · rw [hf] at hr; cases hr
  · rw [hf] at hr ⊢
    simp only [Option.some.injEq] at hr ⊢
    subst hr
    refine ⟨{ id := s.nextId, addr := a, lastUse := clock }, ?_, rfl, rfl, mem_pooled_setA _ a _ cur _ (by simp)⟩
    fsimp; simp
  · rw [hf] at hr; cases hr

theorem res_getConnCore (s : State) (h : Inv2 s) (a clock id : Nat) (hr : (getConnCore s a clock).2 = some id) :
    ∃ p, (getConnCore s a clock).1.pcs id = some p ∧ p.addr = a ∧ p.alive = true ∧
      id ∈ pooled (getConnCore s a clock).1 a := by
  unfold getConnCore at hr ⊢
  cases hA : lookupA s a with
  | none =>
    rw [hA] at hr
    exact res_fod s h a clock [] 0 id hr
  | some v =>
    obtain ⟨cs, cur⟩ := v
    rw [hA] at hr
    simp only at hr ⊢
    split at hr
    · next hlt => rw [if_pos hlt]; exact res_fod s h a clock cs cur id hr
    · next hlt =>
      rw [if_neg hlt]
      cases hi : cs[Gen.cursorNext cur cs.length]? with
      | none => rw [hi] at hr; cases hr
      | some id0 =>
        rw [hi] at hr
        simp only at hr ⊢
        have hal0 : isAlive (setA s a (cs, Gen.cursorNext cur cs.length)) id0 = isAlive s id0 := rfl
        rw [hal0] at hr ⊢
        cases hal : isAlive s id0 with
        | true =>
          rw [hal] at hr
          simp only [if_true, Option.some.injEq] at hr ⊢
          subst hr
          obtain ⟨p, hp, hpa⟩ := alive_some s id0 hal
          have hmem : id0 ∈ cs := List.mem_of_getElem? hi
          have hm : id0 ∈ pl (lk s.active) (lk s.idle) a :=
            (mem_pl _ _ a id0).2 (Or.inl ⟨cs, cur, hA, hmem⟩)
          obtain ⟨p', hp', hpa'⟩ := h.2.2.addr a id0 hm
          rw [hp] at hp'; injection hp' with hp'; subst hp'
          refine ⟨{ p with lastUse := s.now }, ?_, hpa', hpa, ?_⟩
          · fsimp; simp [hp]
          · exact mem_pooled_setA s a _ _ id0 hmem
        | false =>
          rw [hal] at hr
          simp only [Bool.false_eq_true, if_false] at hr ⊢
          rw [dial_eq, setA_up, setA_nextId] at hr ⊢
          cases hu : s.up a with
          | false => rw [hu] at hr; cases hr
          | true =>
            rw [hu] at hr
            simp only [if_true, Option.some.injEq] at hr ⊢
            subst hr
            obtain ⟨l1, l2, e1, e2⟩ := getElem?_split cs _ id0 hi
            refine ⟨{ id := s.nextId, addr := a, lastUse := clock }, ?_, rfl, rfl,
              mem_pooled_setA _ a _ _ _ (by rw [e2]; simp)⟩
            fsimp; simp

theorem getConn_result (s : State) (h : Inv s) (a clock id : Nat) (hr : (getConn s a clock).2 = some id) :
    ∃ p, (getConn s a clock).1.pcs id = some p ∧ p.addr = a ∧ p.alive = true ∧
      id ∈ pooled (getConn s a clock).1 a := by
  rw [getConn_eq] at hr ⊢
  exact res_getConnCore _ (inv2_pre s clock (inv2_of_inv s h)) a clock id hr

theorem dials_fod (s : State) (a clock : Nat) (cs : List Nat) (cur : Nat) (hup : s.up a = false) :
    (match fromIdleOrDial s a clock with
      | some (s', id) => (setA s' a (cs ++ [id], cur), some id)
      | none => ((match lookupI s a with | some (_ :: rest) => setI s a rest | _ => s), none)).1.dials = s.dials := by
  rcases fod_cases s a clock with ⟨id0, rest, hI, hal, hf⟩ | ⟨id0, rest, hI, hal, hu, hf⟩ |
    ⟨id0, rest, hI, hal, hu, hf⟩ | ⟨hI, hu, hf⟩ | ⟨hI, hu, hf⟩
  · rw [hf]; rfl
  · rw [hup] at hu; cases hu
  · rw [hf, hI]; rfl
  · rw [hup] at hu; cases hu
  · rw [hf]; rcases hI with hI | hI <;> rw [hI]

theorem dials_getConnCore (s : State) (a clock : Nat) (hup : s.up a = false) :
    (getConnCore s a clock).1.dials = s.dials := by
  unfold getConnCore
  cases hA : lookupA s a with
  | none => exact dials_fod s a clock [] 0 hup
  | some v =>
    obtain ⟨cs, cur⟩ := v
    simp only
    split
    · exact dials_fod s a clock cs cur hup
    · rw [dial_eq, setA_up, hup]
      simp only [Bool.false_eq_true, if_false]
      split
      · split <;> rfl
      · rfl

theorem getConn_down (s : State) (a clock : Nat) (hup : s.up a = false) : (getConn s a clock).1.dials = s.dials := by
  rw [getConn_eq, dials_getConnCore _ a clock (by rw [pre_up]; exact hup), pre_dials]

theorem getConn_none_pooled (s : State) (h : Inv s) (a clock : Nat) (hup : s.up a = false)
    (hnone : pooled s a = []) : (getConn s a clock).2 = none := by
  obtain ⟨_, _, v⟩ := inv2_of_inv s h
  rw [pooled_eq] at hnone
  unfold pl at hnone
  rw [List.append_eq_nil_iff] at hnone
  have hA : lookupA (pre s clock) a = none := by
    rw [lookupA_eq, pre_active]
    cases hA : lk s.active a with
    | none => rfl
    | some w =>
      obtain ⟨cs, cur⟩ := w
      rw [hA] at hnone
      exact absurd (by simpa using hnone.1) (v.ne a cs cur hA)
  have hI : lookupI (pre s clock) a = none ∨ lookupI (pre s clock) a = some [] := by
    rw [lookupI_eq, pre_idle]
    cases hI : lk s.idle a with
    | none => left; rfl
    | some q => right; rw [hI] at hnone; simpa using hnone.2
  rw [getConn_eq]
  unfold getConnCore
  rw [hA]
  simp only
  rcases fod_cases (pre s clock) a clock with ⟨id0, rest, hI', hal, hf⟩ | ⟨id0, rest, hI', hal, hu, hf⟩ |
    ⟨id0, rest, hI', hal, hu, hf⟩ | ⟨hI', hu, hf⟩ | ⟨hI', hu, hf⟩
  · rcases hI with hI | hI <;> rw [hI] at hI' <;> cases hI'
  · rw [pre_up, hup] at hu; cases hu
  · rw [hf]
  · rw [pre_up, hup] at hu; cases hu
  · rw [hf]

/-! ### C14: a dead connection stays dead -/

/-- the connection records only change by closing sockets -/
def OC (s s' : State) : Prop :=
  ∀ j, s'.pcs j = s.pcs j ∨ s'.pcs j = (s.pcs j).map (fun p => { p with isOpen := false })

theorem OC.refl (s : State) : OC s s := fun _ => Or.inl rfl

theorem OC.of_eq {s s' : State} (h : s'.pcs = s.pcs) : OC s s' := fun j => Or.inl (by rw [h])

theorem OC.trans {s s' s'' : State} (h1 : OC s s') (h2 : OC s' s'') : OC s s'' := by
  intro j
  rcases h1 j with e1 | e1 <;> rcases h2 j with e2 | e2
  · left; rw [e2, e1]
  · right; rw [e2, e1]
  · right; rw [e2, e1]
  · right; rw [e2, e1]; cases s.pcs j <;> rfl

theorem oc_closePc (s : State) (id : Nat) : OC s (closePc s id) := by
  intro j
  rw [closePc_eq, updPc_pcs]
  by_cases e : j = id
  · right; simp [e]
  · left; simp [e]

theorem oc_closeB (s : State) (c : Nat → Bool) : OC s (closeB s c) := by
  intro j
  unfold closeB
  by_cases hc : c j = true
  · right; simp [hc]
  · left; simp [hc]

theorem virt_pcs (s : State) (a : Nat) (L : List Nat) (cur : Nat) : (virt s a L cur).pcs = s.pcs := by
  unfold virt; split <;> rfl

theorem oc_sweep (G : Nat → State × List Nat → Nat → State × List Nat)
    (hG : ∀ a st j, OC st.1 (G a st j).1) (s : State) : OC s (sweep G s) := by
  unfold sweep
  have inner : ∀ a (l : List Nat) (st : State × List Nat), OC st.1 (l.foldl (G a) st).1 := by
    intro a l
    induction l with
    | nil => intro st; exact OC.refl _
    | cons j l ih => intro st; rw [List.foldl_cons]; exact (hG a st j).trans (ih _)
  have outer : ∀ (l : List (Nat × List Nat × Nat)) (s : State), OC s (l.foldl (sweepStep G) s) := by
    intro l
    induction l with
    | nil => intro s; exact OC.refl _
    | cons e l ih =>
      intro s
      rw [List.foldl_cons]
      refine OC.trans ?_ (ih _)
      exact (inner e.1 e.2.1 (s, [])).trans (OC.of_eq (virt_pcs _ _ _ _))
  exact outer s.active s

theorem oc_tickActiveOne (s : State) (a clock : Nat) (acc : List Nat) (id : Nat) :
    OC s (tickActiveOne s a clock acc id).1 := by
  unfold tickActiveOne
  split
  · split
    · split
      · split
        · exact oc_closePc s id
        · exact OC.refl _
      · exact OC.refl _
    · exact OC.refl _
  · exact OC.refl _

theorem oc_tickIdleQueue (s : State) (a clock n : Nat) : OC s (tickIdleQueue s a clock n) := by
  induction n generalizing s with
  | zero => exact OC.refl _
  | succ n ih =>
    unfold tickIdleQueue
    split
    · simp only
      split
      · split
        · exact (oc_closePc (setI s a _) _).trans (ih _)
        · exact ih s
      · exact OC.refl _
    · exact OC.refl _

theorem oc_tickIdle (s : State) (clock : Nat) : OC s (tickIdle s clock) := by
  unfold tickIdle
  have : ∀ (l : List (Nat × List Nat)) (s : State), OC s (l.foldl (fun s e =>
      let s := tickIdleQueue s e.1 clock e.2.length
      match lookupI s e.1 with
      | some [] => delI s e.1
      | _ => s) s) := by
    intro l
    induction l with
    | nil => intro s; exact OC.refl _
    | cons e l ih =>
      intro s
      rw [List.foldl_cons]
      refine OC.trans ?_ (ih _)
      simp only
      split
      · exact (oc_tickIdleQueue s e.1 clock e.2.length).trans (OC.refl _)
      · exact oc_tickIdleQueue s e.1 clock e.2.length
  exact this s.idle s

theorem oc_tick (s : State) (clock : Nat) : OC s (tick s clock) := by
  unfold tick
  split
  · exact OC.refl _
  · refine OC.trans ?_ (oc_tickIdle _ clock)
    rw [tickActive_eq]
    exact OC.trans (OC.refl _) (oc_sweep _ (fun a st j => oc_tickActiveOne st.1 a clock st.2 j) _)

theorem oc_ciG (a : Nat) (st : State × List Nat) (j : Nat) : OC st.1 (ciG a st j).1 := by
  unfold ciG
  split
  · split
    · exact oc_closePc _ _
    · exact OC.refl _
  · exact OC.refl _

theorem oc_closeIdle (s : State) : OC s (closeIdleConnections s) := by
  rw [closeIdle_eq, foldl_foldl_closePc]
  exact (oc_sweep ciG oc_ciG s).trans (oc_closeB _ _)

theorem oc_closeAll (s : State) : OC s (closeAll s) := by
  cases hc : s.closed with
  | true => unfold closeAll; rw [if_pos hc]; exact OC.refl _
  | false =>
    cases hr : s.running with
    | false =>
      unfold closeAll
      rw [if_neg (by simp [hc])]
      simp only []
      rw [if_pos (by simp [hr])]
      exact OC.refl _
    | true =>
      rw [closeAll_run s hc hr, closeAllMid_eq]
      exact oc_closeB _ _

theorem OC.dead {s s' : State} (h : OC s s') (id : Nat) (p : PConn) (hp : s.pcs id = some p) (hd : p.alive = false) :
    ∃ p', s'.pcs id = some p' ∧ p'.alive = false := by
  rcases h id with e | e
  · exact ⟨p, by rw [e, hp], hd⟩
  · exact ⟨{ p with isOpen := false }, by rw [e, hp]; rfl, hd⟩

/-- no connection record disappears, none comes back to life -/
def AM (s s' : State) : Prop :=
  ∀ id p, s.pcs id = some p → ∃ p', s'.pcs id = some p' ∧ (p.alive = false → p'.alive = false)

theorem AM.refl (s : State) : AM s s := fun _ p hp => ⟨p, hp, fun h => h⟩

theorem AM.of_eq {s s' : State} (h : s'.pcs = s.pcs) : AM s s' := fun _ p hp => ⟨p, by rw [h]; exact hp, fun h => h⟩

theorem AM.trans {s s' s'' : State} (h1 : AM s s') (h2 : AM s' s'') : AM s s'' := by
  intro id p hp
  obtain ⟨p', hp', ha'⟩ := h1 id p hp
  obtain ⟨p'', hp'', ha''⟩ := h2 id p' hp'
  exact ⟨p'', hp'', fun h => ha'' (ha' h)⟩

theorem am_updPc (s : State) (id : Nat) (f : PConn → PConn) (hf : ∀ p, p.alive = false → (f p).alive = false) :
    AM s (updPc s id f) := by
  intro j p hp
  rw [updPc_pcs]
  by_cases e : j = id
  · subst e; exact ⟨f p, by simp [hp], hf p⟩
  · exact ⟨p, by simp [e, hp], fun h => h⟩

theorem am_dialSt (s : State) (a clock : Nat) (hn : s.pcs s.nextId = none) : AM s (dialSt s a clock) := by
  intro j p hp
  rw [dialSt_pcs]
  have e : j ≠ s.nextId := fun e => by rw [e, hn] at hp; cases hp
  exact ⟨p, by simp [e, hp], fun h => h⟩

theorem am_of_oc {s s' : State} (h : OC s s') : AM s s' := by
  intro id p hp
  rcases h id with e | e
  · exact ⟨p, by rw [e, hp], fun h => h⟩
  · exact ⟨{ p with isOpen := false }, by rw [e, hp]; rfl, fun h => h⟩

theorem am_fod (s : State) (hn : s.pcs s.nextId = none) (a clock : Nat) (cs : List Nat) (cur : Nat) :
    AM s (match fromIdleOrDial s a clock with
      | some (s', id) => (setA s' a (cs ++ [id], cur), some id)
      | none => ((match lookupI s a with | some (_ :: rest) => setI s a rest | _ => s), none)).1 := by
  have h1 : ∀ id0 rest, AM s (updPc (setI s a rest) id0 (fun p => { p with lastUse := clock })) :=
    fun id0 rest => (AM.of_eq (s := s) (s' := setI s a rest) rfl).trans (am_updPc _ id0 _ (fun _ h => h))
  rcases fod_cases s a clock with ⟨id0, rest, hI, hal, hf⟩ | ⟨id0, rest, hI, hal, hu, hf⟩ |
    ⟨id0, rest, hI, hal, hu, hf⟩ | ⟨hI, hu, hf⟩ | ⟨hI, hu, hf⟩
  · rw [hf]; exact (h1 id0 rest).trans (AM.of_eq rfl)
  · rw [hf]
    refine ((h1 id0 rest).trans (am_dialSt _ a clock ?_)).trans (AM.of_eq rfl)
    rw [updPc_pcs, updPc_nextId, setI_nextId, setI_pcs]
    show (if s.nextId = id0 then _ else _) = none
    by_cases e : s.nextId = id0
    · rw [if_pos e, ← e, hn]; rfl
    · rw [if_neg e, hn]
  · rw [hf, hI]; exact AM.of_eq rfl
  · rw [hf]; exact (am_dialSt s a clock hn).trans (AM.of_eq rfl)
  · rw [hf]; rcases hI with hI | hI <;> rw [hI] <;> exact AM.refl _

theorem am_getConnCore (s : State) (hn : s.pcs s.nextId = none) (a clock : Nat) :
    AM s (getConnCore s a clock).1 := by
  unfold getConnCore
  cases hA : lookupA s a with
  | none => exact am_fod s hn a clock [] 0
  | some v =>
    obtain ⟨cs, cur⟩ := v
    simp only
    split
    · exact am_fod s hn a clock cs cur
    · rw [dial_eq, setA_up, setA_nextId]
      split
      · split
        · exact (AM.of_eq (s := s) (s' := setA s a _) rfl).trans (am_updPc _ _ _ (fun _ h => h))
        · cases hu : s.up a
          · exact AM.of_eq rfl
          · exact ((AM.of_eq (s := s) (s' := setA s a _) rfl).trans (am_dialSt _ a clock hn)).trans (AM.of_eq rfl)
      · exact AM.of_eq rfl

theorem dead_forever (s : State) (h : Inv s) (e : Ev) (id : Nat) (p : PConn) (hp : s.pcs id = some p)
    (hd : p.alive = false) : ∃ p', (step s e).pcs id = some p' ∧ p'.alive = false := by
  have key : AM s (step s e) := by
    cases e with
    | getConn a clock =>
      show AM s (getConn s a clock).1
      rw [getConn_eq]
      have hn : (pre s clock).pcs (pre s clock).nextId = none := by
        rw [pre_pcs, pre_nextId]; exact h.2.1.2.2.2.2.2 _ (Nat.le_refl _)
      exact (AM.of_eq (pre_pcs s clock)).trans (am_getConnCore _ hn a clock)
    | callBegin j => exact am_updPc s j _ (fun _ h => h)
    | callEnd j => exact am_updPc s j _ (fun _ h => h)
    | stamp j => exact am_updPc s j _ (fun _ h => h)
    | fail j => exact am_updPc s j _ (fun _ _ => rfl)
    | tick clock => exact am_of_oc (oc_tick s clock)
    | closeIdle => exact am_of_oc (oc_closeIdle s)
    | close => exact am_of_oc (oc_closeAll s)
    | peerDies j => exact am_updPc s j _ (fun _ h => h)
    | setUp a b => exact AM.of_eq rfl
  obtain ⟨p', hp', ha⟩ := key id p hp
  exact ⟨p', hp', ha hd⟩

/-! ### C15: Close -/

theorem close_closes_all (s : State) (_h : Inv s) (hr : s.running = true) (hc : s.closed = false) :
    (closeAll s).active = [] ∧ (closeAll s).idle = [] ∧ (closeAll s).stopped = true ∧
      ∀ id, id ∈ allPooled s → isOpenId (closeAll s) id = false := by
  rw [closeAll_run s hc hr]
  refine ⟨rfl, rfl, rfl, ?_⟩
  intro id hid
  have hb := (mem_allPooled_bool s id).1 hid
  unfold isOpenId
  rw [getPc_eq]
  show (match (closeAllMid s).pcs id with | some p => p.isOpen | none => false) = false
  rw [closeAllMid_eq]
  unfold closeB
  simp only [hb, if_true]
  cases s.pcs id <;> rfl

theorem close_idempotent (s : State) (hc : s.closed = true) : closeAll s = s := by
  unfold closeAll; rw [if_pos hc]

/-! ### C15: housekeeping spares busy connections -/

theorem virt_active_same (s : State) (a : Nat) (L : List Nat) (cur : Nat) :
    lk (virt s a L cur).active a = vx L cur := by
  unfold virt vx
  split
  · fsimp; rw [upd_same]
  · fsimp; rw [upd_same]

theorem spare_inner (G : Nat → State × List Nat → Nat → State × List Nat) (id : Nat) (p : PConn) (a : Nat)
    (hG : ∀ st j, st.1.pcs id = some p →
      (G a st j).1.pcs id = some p ∧ (id ∈ st.2 → id ∈ (G a st j).2) ∧ (j = id → id ∈ (G a st j).2))
    (rem : List Nat) : ∀ (st : State × List Nat), st.1.pcs id = some p →
      (rem.foldl (G a) st).1.pcs id = some p ∧ (id ∈ st.2 ∨ id ∈ rem → id ∈ (rem.foldl (G a) st).2) := by
  induction rem with
  | nil => intro st h; exact ⟨h, fun h' => h'.elim (fun x => x) (fun x => by cases x)⟩
  | cons j rem ih =>
    intro st h
    rw [List.foldl_cons]
    obtain ⟨g1, g2, g3⟩ := hG st j h
    obtain ⟨i1, i2⟩ := ih _ g1
    refine ⟨i1, fun h' => i2 ?_⟩
    rcases h' with h' | h'
    · left; exact g2 h'
    · rcases List.mem_cons.1 h' with h' | h'
      · left; exact g3 h'.symm
      · right; exact h'

theorem spare_fold (G : Nat → State × List Nat → Nat → State × List Nat) (id : Nat) (p : PConn) (a0 : Nat)
    (hG : ∀ a st j, st.1.pcs id = some p →
      (G a st j).1.pcs id = some p ∧ (id ∈ st.2 → id ∈ (G a st j).2) ∧ (j = id → id ∈ (G a st j).2))
    (Gact : ∀ a st j, (G a st j).1.active = st.1.active)
    (l : List (Nat × List Nat × Nat)) : ∀ (s : State), (keys l).Nodup →
      (∀ a cs cur, (a, cs, cur) ∈ l → lk s.active a = some (cs, cur)) → s.pcs id = some p →
      (∃ cs cur, lk s.active a0 = some (cs, cur) ∧ id ∈ cs) →
      (l.foldl (sweepStep G) s).pcs id = some p ∧
        ∃ cs cur, lk (l.foldl (sweepStep G) s).active a0 = some (cs, cur) ∧ id ∈ cs := by
  induction l with
  | nil => intro s _ _ hp hI; exact ⟨hp, hI⟩
  | cons e l ih =>
    intro s hn hl hp hI
    obtain ⟨a, cs, cur⟩ := e
    rw [List.foldl_cons]
    simp only [keys, List.map_cons, List.nodup_cons] at hn
    have hA := hl a cs cur List.mem_cons_self
    obtain ⟨i1, i2⟩ := spare_inner G id p a (hG a) cs (s, []) hp
    apply ih _ hn.2
    · intro b cs' cur' hm
      have hb : b ≠ a := fun e => hn.1 (e ▸ mem_keys l b _ hm)
      show lk (virt _ a _ cur).active b = _
      rw [virt_active _ _ _ _ _ hb, sweep_inner_active G a (Gact a)]
      exact hl b cs' cur' (List.mem_cons_of_mem _ hm)
    · show (virt _ a _ cur).pcs id = _
      rw [virt_pcs]; exact i1
    · show ∃ cs' cur', lk (virt _ a _ cur).active a0 = _ ∧ _
      by_cases e : a0 = a
      · subst e
        obtain ⟨cs0, cur0, h1, h2⟩ := hI
        rw [hA] at h1; injection h1 with h1; injection h1 with h1 h1'; subst h1
        have hm := i2 (Or.inr h2)
        rw [virt_active_same]
        refine ⟨_, cur, ?_, hm⟩
        unfold vx
        cases hk : (List.foldl (G a0) (s, []) cs).2 with
        | nil => rw [hk] at hm; cases hm
        | cons x xs => rfl
      · rw [virt_active _ _ _ _ _ e, sweep_inner_active G a (Gact a)]
        exact hI

theorem spare_sweep (G : Nat → State × List Nat → Nat → State × List Nat) (id : Nat) (p : PConn) (a0 : Nat)
    (hG : ∀ a st j, st.1.pcs id = some p →
      (G a st j).1.pcs id = some p ∧ (id ∈ st.2 → id ∈ (G a st j).2) ∧ (j = id → id ∈ (G a st j).2))
    (Gact : ∀ a st j, (G a st j).1.active = st.1.active)
    (s : State) (hk : (keys s.active).Nodup) (hp : s.pcs id = some p)
    (hI : ∃ cs cur, lk s.active a0 = some (cs, cur) ∧ id ∈ cs) :
    (sweep G s).pcs id = some p ∧ ∃ cs cur, lk (sweep G s).active a0 = some (cs, cur) ∧ id ∈ cs :=
  spare_fold G id p a0 hG Gact s.active s hk (fun _ _ _ hm => mem_lk _ hk _ _ hm) hp hI

theorem tick_spare_G (clock id : Nat) (p : PConn) (hflag : Gen.runSparesBusy = true) (hbusy : 0 < p.calls)
    (a : Nat) (st : State × List Nat) (j : Nat) (hp : st.1.pcs id = some p) :
    (tickActiveOne st.1 a clock st.2 j).1.pcs id = some p ∧
      (id ∈ st.2 → id ∈ (tickActiveOne st.1 a clock st.2 j).2) ∧
      (j = id → id ∈ (tickActiveOne st.1 a clock st.2 j).2) := by
  obtain ⟨s, acc⟩ := st
  simp only at hp ⊢
  unfold tickActiveOne
  rw [getPc_eq]
  cases hj : s.pcs j with
  | none =>
    simp only
    exact ⟨hp, fun h => h, fun e => by rw [e, hp] at hj; cases hj⟩
  | some pj =>
    simp only
    have hne : (pj.lastUse + s.keepAlive < clock && (pj.calls == 0 || !Gen.runSparesBusy)) = true → j ≠ id := by
      intro hc e
      rw [e, hp] at hj; injection hj with hj; subst hj
      rw [hflag] at hc
      simp at hc
      omega
    split
    · next hc =>
      have hji := hne hc
      have hij : id ≠ j := fun e => hji e.symm
      split
      · split
        · refine ⟨?_, fun h => h, fun e => absurd e hji⟩
          rw [closePc_eq, updPc_pcs]; simp [hij, hp]
        · exact ⟨hp, fun h => h, fun e => absurd e hji⟩
      · exact ⟨hp, fun h => h, fun e => absurd e hji⟩
    · exact ⟨hp, fun h => List.mem_append_left _ h, fun e => by rw [e]; simp⟩

theorem not_idle_of_active {mc mi n : Nat} {fa : Nat → Option (List Nat × Nat)} {fi : Nat → Option (List Nat)}
    {pcs : Nat → Option PConn} (v : VInv mc mi n fa fi pcs) (a0 a id : Nat) (cs : List Nat) (cur : Nat)
    (q : List Nat) (hA : fa a0 = some (cs, cur)) (hid : id ∈ cs) (hI : fi a = some q) : id ∉ q := by
  intro hq
  have m1 : id ∈ pl fa fi a0 := (mem_pl _ _ a0 id).2 (Or.inl ⟨cs, cur, hA, hid⟩)
  have m2 : id ∈ pl fa fi a := (mem_pl _ _ a id).2 (Or.inr ⟨q, hI, hq⟩)
  obtain ⟨p1, hp1, ha1⟩ := v.addr a0 id m1
  obtain ⟨p2, hp2, ha2⟩ := v.addr a id m2
  rw [hp1] at hp2; injection hp2 with hp2; subst hp2
  rw [ha1] at ha2; subst ha2
  have nd := v.nd a0
  unfold pl at nd
  rw [hA, hI, List.nodup_append] at nd
  exact nd.2.2 id (by simpa using hid) id (by simpa using hq) rfl

theorem spare_tickIdleQueue (s : State) (h : Inv2 s) (a0 id : Nat)
    (hI : ∃ cs cur, lk s.active a0 = some (cs, cur) ∧ id ∈ cs) (a clock n : Nat) :
    (tickIdleQueue s a clock n).pcs id = s.pcs id ∧ (tickIdleQueue s a clock n).active = s.active := by
  induction n generalizing s with
  | zero => exact ⟨rfl, rfl⟩
  | succ n ih =>
    unfold tickIdleQueue
    split
    · next front rest hq =>
      simp only
      split
      · split
        · have h' := inv2_closeFront s h a front rest hq
          obtain ⟨i1, i2⟩ := ih _ h' hI
          obtain ⟨cs, cur, hA, hid⟩ := hI
          have hne : id ≠ front := by
            intro e
            exact not_idle_of_active h.2.2 a0 a id cs cur _ hA hid hq (by rw [e]; exact List.mem_cons_self)
          refine ⟨?_, i2⟩
          rw [i1, closePc_eq, updPc_pcs]; simp [hne]
        · exact ih s h hI
      · exact ⟨rfl, rfl⟩
    · exact ⟨rfl, rfl⟩

theorem spare_tickIdle_fold (a0 id clock : Nat) (l : List (Nat × List Nat)) : ∀ (s : State), Inv2 s →
    (∃ cs cur, lk s.active a0 = some (cs, cur) ∧ id ∈ cs) →
    (l.foldl (fun s e =>
      let s := tickIdleQueue s e.1 clock e.2.length
      match lookupI s e.1 with
      | some [] => delI s e.1
      | _ => s) s).pcs id = s.pcs id ∧
    (l.foldl (fun s e =>
      let s := tickIdleQueue s e.1 clock e.2.length
      match lookupI s e.1 with
      | some [] => delI s e.1
      | _ => s) s).active = s.active := by
  induction l with
  | nil => intro s _ _; exact ⟨rfl, rfl⟩
  | cons e l ih =>
    intro s h hI
    rw [List.foldl_cons]
    have h1 := inv2_tickIdleQueue s h e.1 clock e.2.length
    obtain ⟨q1, q2⟩ := spare_tickIdleQueue s h a0 id hI e.1 clock e.2.length
    have hstep : Inv2 (match lookupI (tickIdleQueue s e.1 clock e.2.length) e.1 with
        | some [] => delI (tickIdleQueue s e.1 clock e.2.length) e.1
        | _ => tickIdleQueue s e.1 clock e.2.length) ∧
      (match lookupI (tickIdleQueue s e.1 clock e.2.length) e.1 with
        | some [] => delI (tickIdleQueue s e.1 clock e.2.length) e.1
        | _ => tickIdleQueue s e.1 clock e.2.length).pcs id = s.pcs id ∧
      (match lookupI (tickIdleQueue s e.1 clock e.2.length) e.1 with
        | some [] => delI (tickIdleQueue s e.1 clock e.2.length) e.1
        | _ => tickIdleQueue s e.1 clock e.2.length).active = s.active := by
      split
      · next hq => exact ⟨inv2_delI _ h1 e.1 hq, q1, q2⟩
      · exact ⟨h1, q1, q2⟩
    obtain ⟨s1, s2, s3⟩ := hstep
    obtain ⟨r1, r2⟩ := ih _ s1 (by rw [s3]; exact hI)
    exact ⟨r1.trans s2, r2.trans s3⟩

theorem spare_tickIdle (a0 id clock : Nat) (s : State) (h : Inv2 s)
    (hI : ∃ cs cur, lk s.active a0 = some (cs, cur) ∧ id ∈ cs) :
    (tickIdle s clock).pcs id = s.pcs id ∧ (tickIdle s clock).active = s.active :=
  spare_tickIdle_fold a0 id clock s.idle s h hI

theorem tick_spares_active (s : State) (h : Inv s) (hflag : Gen.runSparesBusy = true) (clock id : Nat) (p : PConn)
    (hp : s.pcs id = some p) (hbusy : 0 < p.calls) (hact : ∃ a cs cur, (a, cs, cur) ∈ s.active ∧ id ∈ cs) :
    ∃ p', (tick s clock).pcs id = some p' ∧ p'.isOpen = p.isOpen ∧
      (∃ a cs cur, (a, cs, cur) ∈ (tick s clock).active ∧ id ∈ cs) := by
  have h2 := inv2_of_inv s h
  unfold tick
  split
  · exact ⟨p, hp, rfl, hact⟩
  · obtain ⟨a0, cs, cur, hm, hid⟩ := hact
    have hA : lk s.active a0 = some (cs, cur) := mem_lk _ h2.1 _ _ hm
    have h2' : Inv2 { s with now := clock } := h2
    have ht := inv2_tickActive _ h2' clock
    rw [tickActive_eq] at ht
    obtain ⟨t1, t2⟩ := spare_sweep (fun a st id => tickActiveOne st.1 a clock st.2 id) id p a0
      (fun a st j => tick_spare_G clock id p hflag hbusy a st j) (fun a st j => tick_Gact clock a st j)
      { s with now := clock } h2.1 hp ⟨cs, cur, hA, hid⟩
    rw [tickActive_eq]
    obtain ⟨r1, r2⟩ := spare_tickIdle a0 id clock _ ht t2
    refine ⟨p, ?_, rfl, ?_⟩
    · exact r1.trans t1
    · obtain ⟨cs', cur', hA', hid'⟩ := t2
      refine ⟨a0, cs', cur', ?_, hid'⟩
      rw [r2]
      exact lk_some_mem _ _ _ hA'

theorem ci_spare_G (id : Nat) (p : PConn) (hflag : Gen.closeIdleConnectionsSparesBusy = true) (hbusy : 0 < p.calls)
    (a : Nat) (st : State × List Nat) (j : Nat) (hp : st.1.pcs id = some p) :
    (ciG a st j).1.pcs id = some p ∧ (id ∈ st.2 → id ∈ (ciG a st j).2) ∧ (j = id → id ∈ (ciG a st j).2) := by
  obtain ⟨s, acc⟩ := st
  simp only at hp ⊢
  unfold ciG
  simp only [getPc_eq]
  cases hj : s.pcs j with
  | none =>
    simp only
    exact ⟨hp, fun h => h, fun e => by rw [e, hp] at hj; cases hj⟩
  | some pj =>
    simp only
    split
    · next hc =>
      have hji : j ≠ id := by
        intro e
        rw [e, hp] at hj; injection hj with hj; subst hj
        rw [hflag] at hc
        simp at hc
        omega
      have hij : id ≠ j := fun e => hji e.symm
      refine ⟨?_, fun h => h, fun e => absurd e hji⟩
      show (closePc s j).pcs id = some p
      rw [closePc_eq, updPc_pcs]; simp [hij, hp]
    · exact ⟨hp, fun h => List.mem_append_left _ h, fun e => by rw [e]; simp⟩

theorem closeIdle_spares_busy (s : State) (h : Inv s) (hflag : Gen.closeIdleConnectionsSparesBusy = true)
    (id : Nat) (p : PConn) (hp : s.pcs id = some p) (hbusy : 0 < p.calls)
    (hact : ∃ a cs cur, (a, cs, cur) ∈ s.active ∧ id ∈ cs) :
    ∃ p', (closeIdleConnections s).pcs id = some p' ∧ p'.isOpen = p.isOpen ∧
      (∃ a cs cur, (a, cs, cur) ∈ (closeIdleConnections s).active ∧ id ∈ cs) := by
  have h2 := inv2_of_inv s h
  obtain ⟨a0, cs, cur, hm, hid⟩ := hact
  have hA : lk s.active a0 = some (cs, cur) := mem_lk _ h2.1 _ _ hm
  have ht : Inv2 (sweep ciG s) := inv2_sweep ciG ci_Gstep ci_Gact s h2
  obtain ⟨t1, cs', cur', hA', hid'⟩ := spare_sweep ciG id p a0
    (fun a st j => ci_spare_G id p hflag hbusy a st j) ci_Gact s h2.1 hp ⟨cs, cur, hA, hid⟩
  rw [closeIdle_eq, foldl_foldl_closePc]
  generalize sweep ciG s = t at ht t1 hA'
  have hc : (t.idle.any fun e => e.2.contains id) = false := by
    cases hany : (t.idle.any fun e => e.2.contains id) with
    | false => rfl
    | true =>
      exfalso
      obtain ⟨⟨a, q⟩, he, hq⟩ := List.any_eq_true.1 hany
      exact not_idle_of_active ht.2.2 a0 a id cs' cur' q hA' hid' (mem_lk _ ht.2.1 _ _ he) (by simpa using hq)
  refine ⟨p, ?_, rfl, a0, cs', cur', lk_some_mem _ _ _ hA', hid'⟩
  show (closeB t (fun j => t.idle.any fun e => e.2.contains j)).pcs id = some p
  unfold closeB
  simp only [hc]
  exact t1

end RpcVerif.P
